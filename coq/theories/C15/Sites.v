(* C15 — classification of every map walk / time / random / %p use found in package gogen by the
   translator (GVGen.Tables.nondet_sites, regenerated on every run).  A new or renamed site is not in
   this table: the obligation Sites_classified then fails. *)
From Coq Require Import List NArith Bool.
From GV Require Import Lib.Bytes.
From GVGen Require Import Tables.
Import ListNotations.

Inductive site_class := SCollectSort | SInsertByKey | SCommutative | SDiagOrder | SClientOrder.

Definition known_sites : list (str * str * site_class) :=
  [ ([102; 117; 110; 99; 66; 111; 100; 121; 67; 116; 120; 46; 99; 104; 101; 99; 107; 76; 97; 98; 101; 108; 115]%N, [114; 97; 110; 103; 101; 32; 112; 46; 108; 97; 98; 101; 108; 115]%N, SDiagOrder) (* funcBodyCtx.checkLabels | range p.labels: only the order in which 'label defined and not used' errors are delivered; no emitted byte depends on it *);
    ([73; 110; 105; 116; 88; 71; 111; 80; 97; 99; 107; 97; 103; 101; 69; 120]%N, [114; 97; 110; 103; 101; 32; 111; 118; 101; 114; 108; 111; 97; 100; 115]%N, SInsertByKey) (* InitXGoPackageEx | range overloads: each entry is inserted into a scope under its own unique name: the resulting scope is the same for every order *);
    ([73; 110; 105; 116; 88; 71; 111; 80; 97; 99; 107; 97; 103; 101; 69; 120]%N, [114; 97; 110; 103; 101; 32; 111; 110; 97; 109; 101; 100; 115]%N, SInsertByKey) (* InitXGoPackageEx | range onameds: same *);
    ([99; 104; 101; 99; 107; 88; 71; 111; 80; 107; 103]%N, [114; 97; 110; 103; 101; 32; 101; 100; 46; 114; 101; 116]%N, SCollectSort) (* checkXGoPkg | range ed.ret: collected into a slice that is sorted before being joined (sorted_strings_order_independent) *);
    ([70; 105; 108; 101; 46; 67; 104; 101; 99; 107; 88; 71; 111; 68; 101; 112; 115]%N, [114; 97; 110; 103; 101; 32; 112; 46; 105; 109; 112; 115]%N, SCommutative) (* File.CheckXGoDeps | range p.imps: flags are OR-ed: commutative and idempotent *);
    ([70; 105; 108; 101; 46; 103; 101; 116; 68; 101; 99; 108; 115]%N, [114; 97; 110; 103; 101; 32; 112; 46; 105; 109; 112; 115]%N, SCollectSort) (* File.getDecls | range p.imps: import specs are sorted by path before being emitted (import_block_order_independent) *);
    ([80; 97; 99; 107; 97; 103; 101; 46; 70; 111; 114; 69; 97; 99; 104; 70; 105; 108; 101]%N, [114; 97; 110; 103; 101; 32; 112; 46; 102; 105; 108; 101; 115]%N, SClientOrder) (* Package.ForEachFile | range p.files: iteration order is handed to the caller's callback; nothing is emitted by the package itself *) ].

Definition classify (s : str * str) : option site_class :=
  match find (fun k => str_eqb (fst (fst k)) (fst s) && str_eqb (snd (fst k)) (snd s)) known_sites with
  | Some k => Some (snd k)
  | None => None
  end.

Definition classified (s : str * str) : bool := match classify s with Some _ => true | None => false end.

Lemma Sites_classified : forallb classified nondet_sites = true.
Proof. vm_compute. reflexivity. Qed.

(* the collect-then-sort sites rely on these calls, comparator included (inventory GVGen.Tables.sort_calls,
   regenerated on every run): sorting the dependency strings, and sorting import specs by path *)
Definition required_sorts : list (str * str) :=
  [ ([99; 104; 101; 99; 107; 88; 71; 111; 80; 107; 103]%N, [115; 111; 114; 116; 46; 83; 116; 114; 105; 110; 103; 115; 40; 100; 101; 112; 115; 41]%N);
    ([70; 105; 108; 101; 46; 103; 101; 116; 68; 101; 99; 108; 115]%N, [115; 111; 114; 116; 46; 83; 108; 105; 99; 101; 40; 115; 112; 101; 99; 115; 44; 32; 102; 117; 110; 99; 40; 105; 44; 32; 106; 32; 105; 110; 116; 41; 32; 98; 111; 111; 108; 32; 123; 32; 114; 101; 116; 117; 114; 110; 32; 115; 112; 101; 99; 115; 91; 105; 93; 46; 40; 42; 97; 115; 116; 46; 73; 109; 112; 111; 114; 116; 83; 112; 101; 99; 41; 46; 80; 97; 116; 104; 46; 86; 97; 108; 117; 101; 32; 60; 32; 115; 112; 101; 99; 115; 91; 106; 93; 46; 40; 42; 97; 115; 116; 46; 73; 109; 112; 111; 114; 116; 83; 112; 101; 99; 41; 46; 80; 97; 116; 104; 46; 86; 97; 108; 117; 101; 32; 125; 41]%N) ].
Definition pair_eqb (a b : str * str) : bool := str_eqb (fst a) (fst b) && str_eqb (snd a) (snd b).
Lemma Sorts_present : forallb (fun s => existsb (pair_eqb s) sort_calls) required_sorts = true.
Proof. vm_compute. reflexivity. Qed.
