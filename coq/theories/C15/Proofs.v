(* C15 — Go map iteration is an arbitrary permutation chosen anew on every walk.  Every
   output-relevant walk over a map in package.go / import.go collects the entries and then sorts
   them by a key that is unique (import path; dependency path): the emitted order is independent
   of the permutation. *)
From Coq Require Import List NArith Arith Bool Lia Permutation Sorted.
From GV Require Import Lib.Bytes C09.Model.
Import ListNotations.

(* byte-wise strict order on strings (the order of sort.Strings / of the quoted import paths) *)
Lemma str_ltb_irrefl a : str_ltb a a = false.
Proof. induction a as [|x a IH]; cbn; [reflexivity|]. rewrite N.ltb_irrefl. exact IH. Qed.

Lemma str_ltb_trans a : forall b c, str_ltb a b = true -> str_ltb b c = true -> str_ltb a c = true.
Proof.
  induction a as [|x a IH]; intros [|y b] [|z c]; cbn; try discriminate; auto.
  destruct (N.ltb_spec x y), (N.ltb_spec y x), (N.ltb_spec y z), (N.ltb_spec z y),
           (N.ltb_spec x z), (N.ltb_spec z x); try discriminate; try lia; auto.
  apply IH.
Qed.

Lemma str_ltb_total a : forall b, str_ltb a b = false -> str_ltb b a = false -> a = b.
Proof.
  induction a as [|x a IH]; intros [|y b]; cbn; try discriminate; auto.
  destruct (N.ltb_spec x y), (N.ltb_spec y x); try discriminate; try lia.
  intros H1 H2. assert (x = y) by lia. subst. f_equal. now apply IH.
Qed.

Section SortByKey.
Context {A : Type} (key : A -> str).

Fixpoint ins (x : A) (l : list A) : list A :=
  match l with
  | [] => [x]
  | y :: r => if str_ltb (key y) (key x) then y :: ins x r else x :: l
  end.
Definition sort (l : list A) : list A := fold_right ins [] l.

Definition lt (a b : A) : Prop := str_ltb (key a) (key b) = true.

Lemma ins_perm x l : Permutation (ins x l) (x :: l).
Proof.
  induction l as [|y r IH]; cbn [ins]; [reflexivity|].
  destruct (str_ltb (key y) (key x)); [|reflexivity].
  rewrite IH. apply perm_swap.
Qed.

Lemma sort_perm l : Permutation (sort l) l.
Proof. induction l as [|x l IH]; cbn [sort fold_right]; [reflexivity|]. fold (sort l). rewrite ins_perm. now constructor. Qed.

(* with pairwise distinct keys the result is strictly sorted *)
Lemma ins_sorted x l :
  StronglySorted lt l -> (forall y, In y l -> key y <> key x) -> StronglySorted lt (ins x l).
Proof.
  induction l as [|y r IH]; cbn [ins]; intros Hs Hk.
  - constructor; constructor.
  - inversion Hs as [|? ? Hs' Hall]; subst.
    destruct (str_ltb (key y) (key x)) eqn:E.
    + constructor.
      * apply IH; [exact Hs'|]. intros z Hz. apply Hk. now right.
      * eapply Permutation_Forall; [symmetry; apply ins_perm|].
        constructor; [exact E|exact Hall].
    + assert (Hxy : lt x y).
      { unfold lt. destruct (str_ltb (key x) (key y)) eqn:E2; [reflexivity|].
        exfalso. apply (Hk y (or_introl eq_refl)). now apply str_ltb_total. }
      constructor; [exact Hs|]. constructor; [exact Hxy|].
      rewrite Forall_forall in *. intros z Hz. eapply str_ltb_trans; [exact Hxy|apply Hall, Hz].
Qed.

Lemma sort_sorted l : NoDup (map key l) -> StronglySorted lt (sort l).
Proof.
  induction l as [|x l IH]; cbn [map sort fold_right]; intros Hnd; [constructor|].
  inversion Hnd as [|? ? Hni Hnd']; subst. fold (sort l). apply ins_sorted; [auto|].
  intros y Hy Heq. apply Hni. rewrite <- Heq. apply in_map.
  eapply Permutation_in; [apply sort_perm|exact Hy].
Qed.

(* two strictly sorted lists with the same elements are equal *)
Lemma sorted_perm_eq l : forall l',
  StronglySorted lt l -> StronglySorted lt l' -> Permutation l l' -> l = l'.
Proof.
  induction l as [|x l IH]; intros l' Hs Hs' Hp.
  - apply Permutation_nil in Hp. now subst.
  - destruct l' as [|y l']; [apply Permutation_sym, Permutation_nil in Hp; discriminate|].
    inversion Hs as [|? ? Hsl Hxl]; inversion Hs' as [|? ? Hsl' Hyl]; subst.
    assert (x = y).
    { assert (Hx : In x (y :: l')) by (eapply Permutation_in; [exact Hp|now left]).
      assert (Hy : In y (x :: l)) by (eapply Permutation_in; [symmetry; exact Hp|now left]).
      destruct Hx as [->|Hx]; [reflexivity|]. destruct Hy as [->|Hy]; [reflexivity|].
      rewrite Forall_forall in Hxl, Hyl. pose proof (Hxl _ Hy) as H1. pose proof (Hyl _ Hx) as H2.
      unfold lt in *. pose proof (str_ltb_trans _ _ _ H1 H2) as H3. rewrite str_ltb_irrefl in H3. discriminate. }
    subst y. f_equal. apply IH; [exact Hsl|exact Hsl'|]. now apply Permutation_cons_inv in Hp.
Qed.

Theorem sort_perm_invariant l l' :
  NoDup (map key l) -> Permutation l l' -> sort l = sort l'.
Proof.
  intros Hnd Hp. apply sorted_perm_eq.
  - now apply sort_sorted.
  - apply sort_sorted. eapply Permutation_NoDup; [apply Permutation_map; exact Hp|exact Hnd].
  - rewrite sort_perm, Hp. symmetry. apply sort_perm.
Qed.
End SortByKey.

(* the import block of C09.Model is this sort, keyed by path *)
Lemma ins_spec_is_ins x l : ins_spec x l = ins (fun s : nat * str * str => snd s) x l.
Proof. induction l as [|y r IH]; cbn [ins_spec ins]; [reflexivity|]. now rewrite IH. Qed.

Definition specs_of (imps : list imp) : list (nat * str * str) :=
  flat_map (fun i => match spec_of i with Some s => [s] | None => [] end) imps.

Lemma block_is_sort imps : block imps = sort (fun s : nat * str * str => snd s) (specs_of imps).
Proof.
  unfold block, sort. fold (specs_of imps). induction (specs_of imps) as [|x l IH]; cbn [fold_right]; [reflexivity|].
  now rewrite IH, ins_spec_is_ins.
Qed.

Lemma specs_of_perm a b : Permutation a b -> Permutation (specs_of a) (specs_of b).
Proof.
  induction 1 as [|x l l' Hp IH|x y l|l l' l'' H1 IH1 H2 IH2]; cbn [specs_of flat_map].
  - reflexivity.
  - now apply Permutation_app_head.
  - rewrite !app_assoc. apply Permutation_app_tail, Permutation_app_comm.
  - etransitivity; eauto.
Qed.

Lemma specs_paths imps : incl (map (fun s : nat * str * str => snd s) (specs_of imps)) (map i_path imps).
Proof.
  induction imps as [|i r IH]; cbn [specs_of flat_map map]; [intros x []|].
  intros x Hx. rewrite map_app in Hx. apply in_app_or in Hx as [Hx|Hx]; [|right; now apply IH].
  left. unfold spec_of in Hx. destruct (i_forced i); [destruct Hx as [<-|[]]; reflexivity|].
  destruct (i_used i); [|destruct Hx]. destruct (i_renamed i); destruct Hx as [<-|[]]; reflexivity.
Qed.

Lemma specs_nodup imps : NoDup (map i_path imps) -> NoDup (map (fun s : nat * str * str => snd s) (specs_of imps)).
Proof.
  induction imps as [|i r IH]; cbn [specs_of flat_map map]; intros Hnd; [constructor|].
  inversion Hnd as [|? ? Hni Hnd']; subst. rewrite map_app. fold (specs_of r).
  assert (Hone : map (fun s : nat * str * str => snd s) (match spec_of i with Some s => [s] | None => [] end) = [] \/
                 map (fun s : nat * str * str => snd s) (match spec_of i with Some s => [s] | None => [] end) = [i_path i]).
  { unfold spec_of. destruct (i_forced i); [right; reflexivity|]. destruct (i_used i); [|left; reflexivity].
    destruct (i_renamed i); right; reflexivity. }
  destruct Hone as [->| ->]; cbn [app]; [now apply IH|].
  constructor; [|now apply IH]. intros Hin. apply Hni. now apply specs_paths.
Qed.

(* whatever order the map walk delivers the import table in, the emitted block is the same *)
Theorem import_block_order_independent imps imps' :
  NoDup (map i_path imps) -> Permutation imps imps' -> block imps = block imps'.
Proof.
  intros Hnd Hp. rewrite !block_is_sort. apply sort_perm_invariant.
  - now apply specs_nodup.
  - now apply specs_of_perm.
Qed.

(* the dependency list of checkXGoPkg after the fix: collect from a set (map keys), sort, join *)
Theorem sorted_strings_order_independent (l l' : list str) :
  NoDup l -> Permutation l l' -> sort (fun s => s) l = sort (fun s => s) l'.
Proof. intros Hnd Hp. apply sort_perm_invariant; [now rewrite map_id|exact Hp]. Qed.
