(* C01 — statement-level checks of the builder relative to the expression level.
   The builder's statement operations (Assign, EndInit, Return, If/For conditions, Send, IncDec)
   decide acceptance from the types the expression level reports and from the assignability
   relation; the Go specification decides the same statements from its own typing and
   assignability.  Both are instances of ONE checker, parameterised by the two oracles. *)
From Coq Require Import List NArith Bool.
Import ListNotations.

Section Checker.
Variable expr : Type.
Variable ty : Type.
Variable typeof : expr -> option ty.            (* the expression level: type reported for an accepted expression *)
Variable assignable : ty -> ty -> bool.          (* value of the first type assignable to the second *)
Variable is_bool : ty -> bool.
Variable is_numeric : ty -> bool.
Variable chan_elem : ty -> option ty.            (* element type of a sendable channel type *)

Inductive stmt :=
| SAssign (l r : expr)
| SDefine (r : expr)
| SVar (t : ty) (init : option expr)
| SReturn (es : list expr)
| SIncDec (l : expr)
| SSend (ch v : expr)
| SExprStmt (e : expr)
| SIf (c : expr) (t e : list stmt)
| SFor (c : expr) (b : list stmt)
| SBlock (b : list stmt).

Fixpoint all2 {A B} (f : A -> B -> bool) (a : list A) (b : list B) : bool :=
  match a, b with
  | [], [] => true
  | x :: r, y :: r' => f x y && all2 f r r'
  | _, _ => false
  end.

Definition has_type (e : expr) (p : ty -> bool) : bool :=
  match typeof e with Some t => p t | None => false end.

Fixpoint check (results : list ty) (s : stmt) : bool :=
  match s with
  | SAssign l r =>
      match typeof l, typeof r with Some tl, Some tr => assignable tr tl | _, _ => false end
  | SDefine r => match typeof r with Some _ => true | None => false end
  | SVar t None => true
  | SVar t (Some e) => has_type e (fun te => assignable te t)
  | SReturn es => all2 (fun e t => has_type e (fun te => assignable te t)) es results
  | SIncDec l => has_type l is_numeric
  | SSend ch v =>
      match typeof ch, typeof v with
      | Some tc, Some tv => match chan_elem tc with Some te => assignable tv te | None => false end
      | _, _ => false
      end
  | SExprStmt e => match typeof e with Some _ => true | None => false end
  | SIf c t e =>
      has_type c is_bool && forallb (check results) t && forallb (check results) e
  | SFor c b => has_type c is_bool && forallb (check results) b
  | SBlock b => forallb (check results) b
  end.
End Checker.
