From Coq Require Import List NArith Bool.
From GV Require Import C01.Model.
Import ListNotations.

Section Soundness.
Variables expr ty : Type.
(* builder side (m) and specification side (s) *)
Variables m_typeof s_typeof : expr -> option ty.
Variables m_assignable s_assignable : ty -> ty -> bool.
Variables is_bool is_numeric : ty -> bool.
Variable chan_elem : ty -> option ty.

(* what the expression-level properties (C03, C04, C05) provide *)
Hypothesis H_type : forall e t, m_typeof e = Some t -> s_typeof e = Some t.
Hypothesis H_assign : forall a b, m_assignable a b = true -> s_assignable a b = true.

Let m_check := check expr ty m_typeof m_assignable is_bool is_numeric chan_elem.
Let s_check := check expr ty s_typeof s_assignable is_bool is_numeric chan_elem.

Lemma has_type_mono e p q : (forall t, p t = true -> q t = true) ->
  has_type expr ty m_typeof e p = true -> has_type expr ty s_typeof e q = true.
Proof.
  unfold has_type. intros Hpq H. destruct (m_typeof e) as [t|] eqn:E; [|discriminate].
  rewrite (H_type _ _ E). now apply Hpq.
Qed.

Lemma all2_mono (es : list expr) : forall ts,
  all2 (fun e t => has_type expr ty m_typeof e (fun te => m_assignable te t)) es ts = true ->
  all2 (fun e t => has_type expr ty s_typeof e (fun te => s_assignable te t)) es ts = true.
Proof.
  induction es as [|e r IH]; intros ts H; destruct ts as [|t ts']; try discriminate; [reflexivity|].
  cbn [all2] in *. apply andb_true_iff in H as [H1 H2]. apply andb_true_iff. split; [|now apply IH].
  eapply has_type_mono; [|exact H1]. intros t0. apply H_assign.
Qed.

(* nested induction over the statement tree *)
Fixpoint stmt_sound (results : list ty) (s : stmt expr ty) {struct s} :
  m_check results s = true -> s_check results s = true.
Proof.
  destruct s as [l r|r|t init|es|l|ch v|e|c t e|c b|b]; unfold m_check, s_check in *; cbn [check]; intros H.
  - destruct (m_typeof l) as [tl|] eqn:El; [|discriminate]. destruct (m_typeof r) as [tr|] eqn:Er; [|discriminate].
    rewrite (H_type _ _ El), (H_type _ _ Er). now apply H_assign.
  - destruct (m_typeof r) as [tr|] eqn:Er; [|discriminate]. now rewrite (H_type _ _ Er).
  - destruct init as [e|]; [|reflexivity]. eapply has_type_mono; [|exact H]. intros t0. apply H_assign.
  - now apply all2_mono.
  - eapply has_type_mono; [|exact H]. auto.
  - destruct (m_typeof ch) as [tc|] eqn:Ec; [|discriminate]. destruct (m_typeof v) as [tv|] eqn:Ev; [|discriminate].
    rewrite (H_type _ _ Ec), (H_type _ _ Ev). destruct (chan_elem tc); [now apply H_assign|discriminate].
  - destruct (m_typeof e) as [te|] eqn:Ee; [|discriminate]. now rewrite (H_type _ _ Ee).
  - apply andb_true_iff in H as [H H3]. apply andb_true_iff in H as [H1 H2].
    apply andb_true_iff. split; [apply andb_true_iff; split|].
    + eapply has_type_mono; [|exact H1]. auto.
    + clear H3. induction t as [|s0 r IH]; [reflexivity|]. cbn [forallb] in *.
      apply andb_true_iff in H2 as [Ha Hb]. apply andb_true_iff. split; [now apply (stmt_sound results s0)|now apply IH].
    + clear H2. induction e as [|s0 r IH]; [reflexivity|]. cbn [forallb] in *.
      apply andb_true_iff in H3 as [Ha Hb]. apply andb_true_iff. split; [now apply (stmt_sound results s0)|now apply IH].
  - apply andb_true_iff in H as [H1 H2]. apply andb_true_iff. split.
    + eapply has_type_mono; [|exact H1]. auto.
    + induction b as [|s0 r IH]; [reflexivity|]. cbn [forallb] in *.
      apply andb_true_iff in H2 as [Ha Hb]. apply andb_true_iff. split; [now apply (stmt_sound results s0)|now apply IH].
  - induction b as [|s0 r IH]; [reflexivity|]. cbn [forallb] in *.
    apply andb_true_iff in H as [Ha Hb]. apply andb_true_iff. split; [now apply (stmt_sound results s0)|now apply IH].
Qed.

End Soundness.

(* the hypotheses cannot be dropped: if the builder's assignability accepts one pair the
   specification rejects, a statement is accepted that Go rejects *)
Lemma unsound_assignability_refutes :
  let ty := nat in let expr := nat in
  let typeof := fun e : nat => Some e in
  let m_assign := fun a b : nat => true in
  let s_assign := fun a b : nat => Nat.eqb a b in
  check expr ty typeof m_assign (fun _ => false) (fun _ => false) (fun _ => None) [] (SAssign expr ty 1 2) = true /\
  check expr ty typeof s_assign (fun _ => false) (fun _ => false) (fun _ => None) [] (SAssign expr ty 1 2) = false.
Proof. split; reflexivity. Qed.
