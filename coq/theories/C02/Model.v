(* C02 — construction of trees by the builder.
   Expressions: every expression operation of the builder (Val, BinaryOp, UnaryOp, Call n, Index,
   Slice, MemberVal, Elem, StructLit n, ...) pops its operands from the operand stack and pushes one
   node; a program is the postfix sequence of these operations.
   Statements: If / Then / Else / End, For / Then / End, Block / End open and close frames that
   collect the statements emitted meanwhile; simple statements (Assign, EndStmt, Return n) pop their
   operands and append one statement to the innermost frame. *)
From Coq Require Import List NArith Bool Lia.
Import ListNotations.

Inductive expr := ELeaf (id : N) | ENode (tag : N) (kids : exprs)
with exprs := XNil | XCons (e : expr) (r : exprs).

Fixpoint xlen (l : exprs) : nat := match l with XNil => 0 | XCons _ r => S (xlen r) end.

Inductive eop := OLeaf (id : N) | ONode (tag : N) (n : nat).

(* pops n operands (the last pushed is the last kid) *)
Fixpoint pop_kids (n : nat) (st : list expr) (acc : exprs) : option (exprs * list expr) :=
  match n with
  | O => Some (acc, st)
  | S m => match st with e :: r => pop_kids m r (XCons e acc) | [] => None end
  end.

Definition estep (o : eop) (st : list expr) : option (list expr) :=
  match o with
  | OLeaf id => Some (ELeaf id :: st)
  | ONode tag n => match pop_kids n st XNil with Some (ks, r) => Some (ENode tag ks :: r) | None => None end
  end.

Fixpoint eexec (ops : list eop) (st : list expr) : option (list expr) :=
  match ops with
  | [] => Some st
  | o :: r => match estep o st with Some st' => eexec r st' | None => None end
  end.

(* the canonical operation sequence of a front end: operands left to right, then the operator *)
Fixpoint ecompile (e : expr) : list eop :=
  match e with
  | ELeaf id => [OLeaf id]
  | ENode tag ks => xcompile ks ++ [ONode tag (xlen ks)]
  end
with xcompile (l : exprs) : list eop :=
  match l with XNil => [] | XCons e r => ecompile e ++ xcompile r end.

(* ---------- statements ---------- *)
Inductive stmt :=
| SAssign (l r : expr)
| SExpr (e : expr)
| SReturn (es : exprs)
| SIf (c : expr) (t : stmts) (has_else : bool) (e : stmts)   (* e = TNil when there is no else *)
| SFor (c : expr) (b : stmts)
| SBlock (b : stmts)
| SSwitch (tag : expr) (cs : clauses)
with stmts := TNil | TCons (s : stmt) (r : stmts)
with clauses := CNil | CCons (es : exprs) (b : stmts) (r : clauses).   (* es = XNil: the default clause *)

Fixpoint capp (a b : clauses) : clauses := match a with CNil => b | CCons es bd r => CCons es bd (capp r b) end.

Fixpoint tapp (a b : stmts) : stmts := match a with TNil => b | TCons s r => TCons s (tapp r b) end.

Inductive sop :=
| OE (o : eop)
| OAssign | OEndStmt | OReturn (n : nat)
| OIf | OThen | OElse | OEnd | OFor | OBlock
| OSwitch | OCase | OCaseThen (n : nat) | ODefault.

Inductive fkind := KTop | KIf | KFor | KBlock | KSwitch | KCase.
(* fcl: clauses collected by a switch frame; fes: expressions of a case frame (fthen = Some _ once
   its Then / DefaultThen has been issued) *)
Record frame := mkF { fk : fkind; fcond : option expr; fthen : option stmts; fbody : stmts; fcl : clauses; fes : exprs }.

Definition state := (list expr * list frame)%type.

Definition emit (s : stmt) (fs : list frame) : option (list frame) :=
  match fs with
  | f :: r => Some (mkF (fk f) (fcond f) (fthen f) (tapp (fbody f) (TCons s TNil)) (fcl f) (fes f) :: r)
  | [] => None
  end.

Definition sstep (o : sop) (st : state) : option state :=
  let '(stk, fs) := st in
  match o with
  | OE eo => match estep eo stk with Some stk' => Some (stk', fs) | None => None end
  | OAssign =>
      match stk with
      | r :: l :: stk' => match emit (SAssign l r) fs with Some fs' => Some (stk', fs') | None => None end
      | _ => None
      end
  | OEndStmt =>
      match stk with
      | e :: stk' => match emit (SExpr e) fs with Some fs' => Some (stk', fs') | None => None end
      | _ => None
      end
  | OReturn n =>
      match pop_kids n stk XNil with
      | Some (es, stk') => match emit (SReturn es) fs with Some fs' => Some (stk', fs') | None => None end
      | None => None
      end
  | OIf => Some (stk, mkF KIf None None TNil CNil XNil :: fs)
  | OFor => Some (stk, mkF KFor None None TNil CNil XNil :: fs)
  | OBlock => Some (stk, mkF KBlock None None TNil CNil XNil :: fs)
  | OSwitch => Some (stk, mkF KSwitch None None TNil CNil XNil :: fs)
  | OCase =>
      match fs with
      | f :: _ => match fk f, fcond f with
                  | KSwitch, Some _ => Some (stk, mkF KCase None None TNil CNil XNil :: fs)
                  | _, _ => None
                  end
      | [] => None
      end
  | OCaseThen n =>
      match fs with
      | f :: r =>
          match fk f, fthen f, pop_kids n stk XNil with
          | KCase, None, Some (es, stk') => Some (stk', mkF KCase None (Some TNil) TNil CNil es :: r)
          | _, _, _ => None
          end
      | [] => None
      end
  | ODefault =>
      match fs with
      | f :: _ => match fk f, fcond f with
                  | KSwitch, Some _ => Some (stk, mkF KCase None (Some TNil) TNil CNil XNil :: fs)
                  | _, _ => None
                  end
      | [] => None
      end
  | OThen =>
      match stk, fs with
      | c :: stk', f :: r =>
          match fk f, fcond f with
          | KIf, None | KFor, None | KSwitch, None => Some (stk', mkF (fk f) (Some c) None (fbody f) (fcl f) (fes f) :: r)
          | _, _ => None
          end
      | _, _ => None
      end
  | OElse =>
      match fs with
      | f :: r =>
          match fk f, fcond f, fthen f with
          | KIf, Some c, None => Some (stk, mkF KIf (Some c) (Some (fbody f)) TNil CNil XNil :: r)
          | _, _, _ => None
          end
      | [] => None
      end
  | OEnd =>
      match fs with
      | f :: r =>
          match fk f with
          | KCase =>
              (* a finished clause goes to the enclosing switch frame *)
              match fthen f, r with
              | Some _, p :: r' =>
                  match fk p with
                  | KSwitch => Some (stk, mkF KSwitch (fcond p) (fthen p) (fbody p) (capp (fcl p) (CCons (fes f) (fbody f) CNil)) (fes p) :: r')
                  | _ => None
                  end
              | _, _ => None
              end
          | _ =>
            let built :=
              match fk f, fcond f, fthen f with
              | KIf, Some c, None => Some (SIf c (fbody f) false TNil)
              | KIf, Some c, Some t => Some (SIf c t true (fbody f))
              | KFor, Some c, _ => Some (SFor c (fbody f))
              | KBlock, _, _ => Some (SBlock (fbody f))
              | KSwitch, Some tag, _ => Some (SSwitch tag (fcl f))
              | _, _, _ => None
              end in
            match built with
            | Some s => match emit s r with Some r' => Some (stk, r') | None => None end
            | None => None
            end
          end
      | [] => None
      end
  end.

Fixpoint sexec (ops : list sop) (st : state) : option state :=
  match ops with
  | [] => Some st
  | o :: r => match sstep o st with Some st' => sexec r st' | None => None end
  end.

Definition lift (l : list eop) : list sop := map OE l.

Fixpoint scompile (s : stmt) : list sop :=
  match s with
  | SAssign l r => lift (ecompile l) ++ lift (ecompile r) ++ [OAssign]
  | SExpr e => lift (ecompile e) ++ [OEndStmt]
  | SReturn es => lift (xcompile es) ++ [OReturn (xlen es)]
  | SIf c t false _ => OIf :: lift (ecompile c) ++ OThen :: tcompile t ++ [OEnd]
  | SIf c t true e => OIf :: lift (ecompile c) ++ OThen :: tcompile t ++ OElse :: tcompile e ++ [OEnd]
  | SFor c b => OFor :: lift (ecompile c) ++ OThen :: tcompile b ++ [OEnd]
  | SBlock b => OBlock :: tcompile b ++ [OEnd]
  | SSwitch tag cs => OSwitch :: lift (ecompile tag) ++ OThen :: ccompile cs ++ [OEnd]
  end
with tcompile (l : stmts) : list sop :=
  match l with TNil => [] | TCons s r => scompile s ++ tcompile r end
with ccompile (l : clauses) : list sop :=
  match l with
  | CNil => []
  | CCons es b r =>
      (match es with XNil => [ODefault] | _ => OCase :: lift (xcompile es) ++ [OCaseThen (xlen es)] end)
      ++ tcompile b ++ OEnd :: ccompile r
  end.
