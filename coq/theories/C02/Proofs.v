(* C02 — the canonical operation sequence rebuilds exactly the tree it was generated from. *)
From Coq Require Import List NArith Bool Lia.
From GV Require Import C02.Model.
Import ListNotations.

Scheme expr_ind' := Induction for expr Sort Prop
with exprs_ind' := Induction for exprs Sort Prop.
Combined Scheme expr_mutind from expr_ind', exprs_ind'.

Scheme stmt_ind' := Induction for stmt Sort Prop
with stmts_ind' := Induction for stmts Sort Prop
with clauses_ind' := Induction for clauses Sort Prop.
Combined Scheme stmt_mutind from stmt_ind', stmts_ind', clauses_ind'.

Fixpoint xapp (a b : exprs) : exprs := match a with XNil => b | XCons e r => XCons e (xapp r b) end.
Lemma xapp_nil a : xapp a XNil = a.
Proof. induction a as [|e r IH] using exprs_ind; cbn; [reflexivity|now rewrite IH]. Qed.

(* the stack after pushing the operands in order *)
Fixpoint push_all (ks : exprs) (st : list expr) : list expr :=
  match ks with XNil => st | XCons e r => push_all r (e :: st) end.

Lemma pop_split n : forall m st acc,
  pop_kids (n + m) st acc =
  match pop_kids n st acc with Some (a, st') => pop_kids m st' a | None => None end.
Proof.
  induction n as [|n IH]; intros m st acc; cbn [pop_kids plus]; [reflexivity|].
  destruct st as [|e r]; [reflexivity|]. apply IH.
Qed.

Lemma pop_pushed ks : forall st acc,
  pop_kids (xlen ks) (push_all ks st) acc = Some (xapp ks acc, st).
Proof.
  induction ks as [|e r IH] using exprs_ind; intros st acc; [reflexivity|].
  cbn [xlen push_all]. replace (S (xlen r)) with (xlen r + 1) by lia.
  rewrite pop_split, IH. reflexivity.
Qed.

Lemma eexec_app a : forall b st,
  eexec (a ++ b) st = match eexec a st with Some st' => eexec b st' | None => None end.
Proof.
  induction a as [|o r IH]; intros b st; cbn [eexec List.app]; [reflexivity|].
  destruct (estep o st); [apply IH|reflexivity].
Qed.

(* 1. expressions: running the canonical sequence pushes exactly the tree *)
Lemma ecompile_correct :
  (forall e st, eexec (ecompile e) st = Some (e :: st)) /\
  (forall ks st, eexec (xcompile ks) st = Some (push_all ks st)).
Proof.
  apply expr_mutind.
  - reflexivity.
  - intros tag ks IH st. cbn [ecompile]. rewrite eexec_app, IH. cbn [eexec estep].
    rewrite pop_pushed, xapp_nil. reflexivity.
  - reflexivity.
  - intros e IHe r IHr st. cbn [xcompile push_all]. rewrite eexec_app, IHe. apply IHr.
Qed.

Theorem expression_rebuilt e st : eexec (ecompile e) st = Some (e :: st).
Proof. apply ecompile_correct. Qed.

(* ---------- statements ---------- *)
Lemma sexec_app a : forall b st,
  sexec (a ++ b) st = match sexec a st with Some st' => sexec b st' | None => None end.
Proof.
  induction a as [|o r IH]; intros b st; cbn [sexec List.app]; [reflexivity|].
  destruct (sstep o st); [apply IH|reflexivity].
Qed.

Lemma sexec_lift l : forall stk fs,
  sexec (lift l) (stk, fs) = match eexec l stk with Some stk' => Some (stk', fs) | None => None end.
Proof.
  induction l as [|o r IH]; intros stk fs; cbn [lift map sexec eexec sstep]; [reflexivity|].
  destruct (estep o stk); [apply IH|reflexivity].
Qed.

Definition add (f : frame) (l : stmts) : frame := mkF (fk f) (fcond f) (fthen f) (tapp (fbody f) l) (fcl f) (fes f).
Definition addc (f : frame) (l : clauses) : frame := mkF (fk f) (fcond f) (fthen f) (fbody f) (capp (fcl f) l) (fes f).

Lemma capp_nil a : capp a CNil = a.
Proof. induction a as [|es b r IH] using clauses_ind; cbn; [reflexivity|now rewrite IH]. Qed.
Lemma capp_assoc a : forall b c, capp (capp a b) c = capp a (capp b c).
Proof. induction a as [|es bd r IH] using clauses_ind; intros b c; cbn; [reflexivity|now rewrite IH]. Qed.
Lemma addc_nil f : addc f CNil = f.
Proof. unfold addc. rewrite capp_nil. now destruct f. Qed.
Lemma addc_addc f a b : addc (addc f a) b = addc f (capp a b).
Proof. unfold addc. cbn. now rewrite capp_assoc. Qed.

Lemma tapp_nil a : tapp a TNil = a.
Proof. induction a as [|s r IH] using stmts_ind; cbn; [reflexivity|now rewrite IH]. Qed.
Lemma tapp_assoc a : forall b c, tapp (tapp a b) c = tapp a (tapp b c).
Proof. induction a as [|s r IH] using stmts_ind; intros b c; cbn; [reflexivity|now rewrite IH]. Qed.

Lemma add_nil f : add f TNil = f.
Proof. unfold add. rewrite tapp_nil. now destruct f. Qed.
Lemma add_add f a b : add (add f a) b = add f (tapp a b).
Proof. unfold add. cbn. now rewrite tapp_assoc. Qed.

(* representation invariant: an `if` without else carries an empty else list *)
Fixpoint wfs (s : stmt) : bool :=
  match s with
  | SIf _ t has_else e => wft t && (if has_else then wft e else match e with TNil => true | _ => false end)
  | SFor _ b | SBlock b => wft b
  | SSwitch _ cs => wfc cs
  | _ => true
  end
with wft (l : stmts) : bool :=
  match l with TNil => true | TCons s r => wfs s && wft r end
with wfc (l : clauses) : bool :=
  match l with CNil => true | CCons _ b r => wft b && wfc r end.

Lemma addc_addc_frame f es b r : fk f = KSwitch ->
  addc (mkF KSwitch (fcond f) (fthen f) (fbody f) (capp (fcl f) (CCons es b CNil)) (fes f)) r = addc f (CCons es b r).
Proof.
  intros Hk. unfold addc. cbn [fk fcond fthen fbody fcl fes]. rewrite capp_assoc. cbn [capp]. now rewrite Hk.
Qed.

Lemma run_expr e ops stk fs :
  sexec (lift (ecompile e) ++ ops) (stk, fs) = sexec ops (e :: stk, fs).
Proof. rewrite sexec_app, sexec_lift, expression_rebuilt. reflexivity. Qed.

(* 2. statements: the canonical sequence of a statement (list) appends exactly that statement
      (list) to the innermost open frame, leaving the operand stack and the outer frames as they were *)
Lemma scompile_correct :
  (forall s ops stk f fs, wfs s = true -> sexec (scompile s ++ ops) (stk, f :: fs) = sexec ops (stk, add f (TCons s TNil) :: fs)) /\
  (forall l ops stk f fs, wft l = true -> sexec (tcompile l ++ ops) (stk, f :: fs) = sexec ops (stk, add f l :: fs)) /\
  (forall cs ops stk f fs, wfc cs = true -> fk f = KSwitch -> fcond f <> None ->
     sexec (ccompile cs ++ ops) (stk, f :: fs) = sexec ops (stk, addc f cs :: fs)).
Proof.
  apply stmt_mutind.
  - (* SAssign *) intros l r ops stk f fs _. cbn [scompile]. rewrite <- !app_assoc, run_expr, run_expr. reflexivity.
  - (* SExpr *) intros e ops stk f fs _. cbn [scompile]. rewrite <- app_assoc, run_expr. reflexivity.
  - (* SReturn *) intros es ops stk f fs _. cbn [scompile]. rewrite <- app_assoc, sexec_app, sexec_lift.
    rewrite (proj2 ecompile_correct). cbn [List.app sexec sstep]. rewrite pop_pushed, xapp_nil. reflexivity.
  - (* SIf *) intros c t IHt has_else e IHe ops stk f fs Hwf. cbn [wfs] in Hwf. destruct has_else.
    + cbn [scompile]. cbn [List.app sexec sstep]. rewrite <- app_assoc, run_expr. cbn [List.app sexec sstep fk fcond].
      rewrite <- app_assoc, IHt by (now apply andb_true_iff in Hwf as [? ?]). cbn [List.app sexec sstep add fk fcond fthen fbody tapp].
      rewrite <- app_assoc, IHe by (now apply andb_true_iff in Hwf as [? ?]). cbn [List.app sexec sstep add fk fcond fthen fbody tapp emit]. reflexivity.
    + cbn [scompile]. cbn [List.app sexec sstep]. rewrite <- app_assoc, run_expr. cbn [List.app sexec sstep fk fcond].
      rewrite <- app_assoc, IHt by (now apply andb_true_iff in Hwf as [? ?]). cbn [List.app sexec sstep add fk fcond fthen fbody tapp emit].
      apply andb_true_iff in Hwf as [_ He]. destruct e; [reflexivity|discriminate].
  - (* SFor *) intros c b IHb ops stk f fs Hwf. cbn [wfs] in Hwf. cbn [scompile]. cbn [List.app sexec sstep]. rewrite <- app_assoc, run_expr.
    cbn [List.app sexec sstep fk fcond]. rewrite <- app_assoc, IHb by exact Hwf.
    cbn [List.app sexec sstep add fk fcond fthen fbody tapp emit]. reflexivity.
  - (* SBlock *) intros b IHb ops stk f fs Hwf. cbn [wfs] in Hwf. cbn [scompile]. cbn [List.app sexec sstep]. rewrite <- app_assoc, IHb by exact Hwf.
    cbn [List.app sexec sstep add fk fcond fthen fbody tapp emit]. reflexivity.
  - (* SSwitch *) intros tag cs IHc ops stk f fs Hwf. cbn [wfs] in Hwf. cbn [scompile]. cbn [List.app sexec sstep].
    rewrite <- app_assoc, run_expr. cbn [List.app sexec sstep fk fcond].
    rewrite <- app_assoc, IHc by (try exact Hwf; try reflexivity; cbn; discriminate).
    cbn [List.app sexec sstep addc fk fcond fthen fbody fcl fes capp emit]. reflexivity.
  - (* TNil *) intros ops stk f fs _. cbn [tcompile List.app]. now rewrite add_nil.
  - (* TCons *) intros s IHs r IHr ops stk f fs Hwf. cbn [wft] in Hwf. apply andb_true_iff in Hwf as [H1 H2].
    cbn [tcompile]. rewrite <- app_assoc, IHs by exact H1. rewrite IHr by exact H2. rewrite add_add. reflexivity.
  - (* CNil *) intros ops stk f fs _ _ _. cbn [ccompile List.app]. now rewrite addc_nil.
  - (* CCons *) intros es b IHb r IHr ops stk f fs Hwf Hk Hc. cbn [wfc] in Hwf. apply andb_true_iff in Hwf as [Hb Hr].
    destruct (fcond f) as [tag|] eqn:Ef; [|contradiction].
    cbn [ccompile]. destruct es as [|e0 er].
    + (* default *)
      cbn [List.app sexec sstep]. rewrite Hk, Ef. rewrite <- app_assoc, IHb by exact Hb.
      cbn [List.app sexec sstep add fk fcond fthen fbody fcl fes tapp]. rewrite Hk.
      rewrite IHr; [|exact Hr|reflexivity|cbn; rewrite Ef; discriminate].
      rewrite addc_addc_frame by exact Hk. reflexivity.
    + cbn [List.app sexec sstep]. rewrite Hk, Ef. rewrite <- !app_assoc.
      rewrite sexec_app, sexec_lift, (proj2 ecompile_correct). cbn [List.app sexec sstep fk fthen].
      rewrite pop_pushed, xapp_nil. rewrite IHb by exact Hb.
      cbn [List.app sexec sstep add fk fcond fthen fbody fcl fes tapp]. rewrite Hk.
      rewrite IHr; [|exact Hr|reflexivity|cbn; rewrite Ef; discriminate].
      rewrite addc_addc_frame by exact Hk. reflexivity.
Qed.

Theorem program_rebuilt l : wft l = true ->
  sexec (tcompile l) ([], [mkF KTop None None TNil CNil XNil]) = Some ([], [mkF KTop None None l CNil XNil]).
Proof.
  intros H. rewrite <- (app_nil_r (tcompile l)). rewrite (proj1 (proj2 scompile_correct)) by exact H. reflexivity.
Qed.
