(* C02 — correspondence: the operations the harness issued to the real builder for an expression,
   run on the stack-machine model, must give the tree read back from the emitted code. *)
From Coq Require Import List NArith Bool.
From GV Require Import C02.Model.
Import ListNotations.

Fixpoint expr_eqb (a b : expr) {struct a} : bool :=
  match a, b with
  | ELeaf x, ELeaf y => N.eqb x y
  | ENode t ks, ENode t' ks' => N.eqb t t' && exprs_eqb ks ks'
  | _, _ => false
  end
with exprs_eqb (a b : exprs) {struct a} : bool :=
  match a, b with
  | XNil, XNil => true
  | XCons e r, XCons e' r' => expr_eqb e e' && exprs_eqb r r'
  | _, _ => false
  end.

Definition c02case := (list eop * expr)%type.

Definition indexed {A} (l : list A) : list (N * A) :=
  (fix go (i : N) (l : list A) := match l with [] => [] | x :: r => (i, x) :: go (i + 1)%N r end) 0%N l.

Definition k1_bad (cases : list c02case) : list (N * N) :=
  flat_map (fun ic =>
    match eexec (fst (snd ic)) [] with
    | Some [t] => if expr_eqb t (snd (snd ic)) then [] else [(fst ic, 1%N)]
    | _ => [(fst ic, 2%N)]
    end) (indexed cases).
