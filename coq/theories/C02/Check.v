(* C02 — correspondence: the operations the harness issued to the real builder for an expression,
   run on the stack-machine model, must give the tree read back from the emitted code. *)
From Coq Require Import List NArith Bool.
From GV Require Import C02.Model.
Import ListNotations.

Fixpoint expr_eqb (a b : expr) {struct a} : bool :=
  match a, b with
  | ELeaf x, ELeaf y => N.eqb x y
  | ENode t ks, ENode t' ks' => N.eqb t t' && exprs_eqb ks ks'
  | _, _ => false
  end
with exprs_eqb (a b : exprs) {struct a} : bool :=
  match a, b with
  | XNil, XNil => true
  | XCons e r, XCons e' r' => expr_eqb e e' && exprs_eqb r r'
  | _, _ => false
  end.

Definition c02case := (list eop * expr)%type.

Definition indexed {A} (l : list A) : list (N * A) :=
  (fix go (i : N) (l : list A) := match l with [] => [] | x :: r => (i, x) :: go (i + 1)%N r end) 0%N l.

Definition k1_bad (cases : list c02case) : list (N * N) :=
  flat_map (fun ic =>
    match eexec (fst (snd ic)) [] with
    | Some [t] => if expr_eqb t (snd (snd ic)) then [] else [(fst ic, 1%N)]
    | _ => [(fst ic, 2%N)]
    end) (indexed cases).

(* ---- statements: the operations issued for a whole function body, replayed on the block machine ---- *)
Fixpoint stmt_eqb (a b : stmt) {struct a} : bool :=
  match a, b with
  | SAssign l r, SAssign l' r' => expr_eqb l l' && expr_eqb r r'
  | SExpr e, SExpr e' => expr_eqb e e'
  | SReturn es, SReturn es' => exprs_eqb es es'
  | SIf c t h e, SIf c' t' h' e' => expr_eqb c c' && stmts_eqb t t' && Bool.eqb h h' && stmts_eqb e e'
  | SFor c b0, SFor c' b' => expr_eqb c c' && stmts_eqb b0 b'
  | SBlock b0, SBlock b' => stmts_eqb b0 b'
  | SSwitch t cs, SSwitch t' cs' => expr_eqb t t' && clauses_eqb cs cs'
  | _, _ => false
  end
with stmts_eqb (a b : stmts) {struct a} : bool :=
  match a, b with
  | TNil, TNil => true
  | TCons s r, TCons s' r' => stmt_eqb s s' && stmts_eqb r r'
  | _, _ => false
  end
with clauses_eqb (a b : clauses) {struct a} : bool :=
  match a, b with
  | CNil, CNil => true
  | CCons es bd r, CCons es' bd' r' => exprs_eqb es es' && stmts_eqb bd bd' && clauses_eqb r r'
  | _, _ => false
  end.

Definition k1s_bad (cases : list (list sop * stmts)) : list (N * N) :=
  flat_map (fun ic =>
    match sexec (fst (snd ic)) ([], [mkF KTop None None TNil CNil XNil]) with
    | Some ([], [f]) =>
        match fk f with
        | KTop => if stmts_eqb (fbody f) (snd (snd ic)) then [] else [(fst ic, 1%N)]
        | _ => [(fst ic, 3%N)]
        end
    | _ => [(fst ic, 2%N)]
    end) (indexed cases).
