(* C07 — unification of parameter types with ground argument types is sound, complete and most
   general; the typed-argument phase of inference inherits this. *)
From Coq Require Import List Arith NArith Bool Lia.
From GV Require Import C07.Model.
Import ListNotations.

Lemma gty_eqb_refl t : gty_eqb t t = true.
Proof.
  induction t; cbn [gty_eqb]; rewrite ?N.eqb_refl, ?Nat.eqb_refl, ?IHt, ?IHt1, ?IHt2; reflexivity.
Qed.

Lemma gty_eqb_eq a : forall b, gty_eqb a b = true -> a = b.
Proof.
  induction a; intros b H; destruct b; cbn [gty_eqb] in H; try discriminate.
  - apply N.eqb_eq in H. now subst.
  - apply Nat.eqb_eq in H. now subst.
  - f_equal. now apply IHa.
  - f_equal. now apply IHa.
  - apply andb_true_iff in H as [H1 H2]. apply N.eqb_eq in H1. subst. f_equal. now apply IHa.
  - f_equal. now apply IHa.
  - apply andb_true_iff in H as [H1 H2]. f_equal; [now apply IHa1|now apply IHa2].
  - apply andb_true_iff in H as [H1 H2]. f_equal; [now apply IHa1|now apply IHa2].
Qed.

Definition ext (s s' : subst_t) : Prop :=
  length s = length s' /\ forall i t, get s i = Some t -> get s' i = Some t.

Lemma ext_refl s : ext s s.
Proof. split; auto. Qed.

Lemma ext_trans a b c : ext a b -> ext b c -> ext a c.
Proof. intros [L1 H1] [L2 H2]. split; [congruence|]. intros i t H. apply H2, H1, H. Qed.

Lemma set_length s i t : length (set s i t) = length s.
Proof. revert i. induction s as [|x r IH]; intros i; [reflexivity|]. destruct i; cbn [set length]; [reflexivity|now rewrite IH]. Qed.

Lemma get_set_same s i t : i < length s -> get (set s i t) i = Some t.
Proof.
  revert i. induction s as [|x r IH]; intros i Hi; [cbn in Hi; lia|].
  destruct i; cbn [set get nth]; [reflexivity|]. apply IH. cbn in Hi. lia.
Qed.

Lemma get_set_other s i j t : i <> j -> get (set s i t) j = get s j.
Proof.
  revert i j. induction s as [|x r IH]; intros i j Hne; [reflexivity|].
  destruct i, j; cbn [set get nth]; try reflexivity; try contradiction. apply IH. lia.
Qed.

Lemma ext_set s i t : i < length s -> get s i = None -> ext s (set s i t).
Proof.
  intros Hi Hn. split; [now rewrite set_length|]. intros j u Hj.
  destruct (Nat.eq_dec i j) as [->|Hne]; [rewrite Hn in Hj; discriminate|].
  now rewrite get_set_other.
Qed.

Lemma app_ext_ground s s' p : ext s s' -> ground (app s p) = true -> app s' p = app s p.
Proof.
  intros [_ He]. induction p; cbn [app ground]; intros Hg; try reflexivity.
  - destruct (get s i) as [u|] eqn:E; [now rewrite (He _ _ E)|discriminate].
  - f_equal. now apply IHp.
  - f_equal. now apply IHp.
  - f_equal. now apply IHp.
  - f_equal. now apply IHp.
  - apply andb_true_iff in Hg as [H1 H2]. f_equal; [now apply IHp1|now apply IHp2].
  - apply andb_true_iff in Hg as [H1 H2]. f_equal; [now apply IHp1|now apply IHp2].
Qed.

(* 1. soundness: the result extends the given bindings and makes the parameter type equal to the argument type *)
Lemma unify_sound p : forall a s s', ground a = true -> unify p a s = Some s' -> ext s s' /\ app s' p = a.
Proof.
  induction p; intros a s s' Hg H; cbn [unify] in H.
  - destruct a; try discriminate. destruct (n =? n0)%N eqn:E; [|discriminate]. injection H as <-.
    apply N.eqb_eq in E. subst. split; [apply ext_refl|reflexivity].
  - destruct (Nat.ltb i (length s)) eqn:Hi; [|discriminate]. apply Nat.ltb_lt in Hi.
    destruct (get s i) as [t|] eqn:E.
    + destruct (gty_eqb t a) eqn:Eq; [|discriminate]. injection H as <-. apply gty_eqb_eq in Eq. subst.
      split; [apply ext_refl|]. cbn [app]. now rewrite E.
    + injection H as <-. split; [now apply ext_set|]. cbn [app]. now rewrite get_set_same.
  - destruct a; try discriminate. cbn [ground] in Hg. destruct (IHp _ _ _ Hg H) as [He Ha]. split; [exact He|]. cbn [app]. now rewrite Ha.
  - destruct a; try discriminate. cbn [ground] in Hg. destruct (IHp _ _ _ Hg H) as [He Ha]. split; [exact He|]. cbn [app]. now rewrite Ha.
  - destruct a; try discriminate. destruct (n =? n0)%N eqn:E; [|discriminate]. apply N.eqb_eq in E. subst.
    cbn [ground] in Hg. destruct (IHp _ _ _ Hg H) as [He Ha]. split; [exact He|]. cbn [app]. now rewrite Ha.
  - destruct a; try discriminate. cbn [ground] in Hg. destruct (IHp _ _ _ Hg H) as [He Ha]. split; [exact He|]. cbn [app]. now rewrite Ha.
  - destruct a; try discriminate. cbn [ground] in Hg. apply andb_true_iff in Hg as [G1 G2].
    destruct (unify p1 a1 s) as [s1|] eqn:U1; [|discriminate].
    destruct (IHp1 _ _ _ G1 U1) as [He1 Ha1]. destruct (IHp2 _ _ _ G2 H) as [He2 Ha2].
    split; [eapply ext_trans; eassumption|]. cbn [app]. rewrite Ha2. f_equal.
    rewrite (app_ext_ground s1 s' p1 He2); [exact Ha1|now rewrite Ha1].
  - destruct a; try discriminate. cbn [ground] in Hg. apply andb_true_iff in Hg as [G1 G2].
    destruct (unify p1 a1 s) as [s1|] eqn:U1; [|discriminate].
    destruct (IHp1 _ _ _ G1 U1) as [He1 Ha1]. destruct (IHp2 _ _ _ G2 H) as [He2 Ha2].
    split; [eapply ext_trans; eassumption|]. cbn [app]. rewrite Ha2. f_equal.
    rewrite (app_ext_ground s1 s' p1 He2); [exact Ha1|now rewrite Ha1].
Qed.

(* 2. completeness and generality: whenever ANY substitution tau extending the given bindings makes
      the parameter type equal to the argument type, unification succeeds and its result is below tau *)
Lemma unify_complete p : forall a s tau, ext s tau -> app tau p = a -> ground a = true ->
  exists s', unify p a s = Some s' /\ ext s' tau.
Proof.
  induction p; intros a s tau He Ha Hg; cbn [unify app] in *.
  - subst a. rewrite N.eqb_refl. eauto.
  - destruct He as [HL He]. destruct (get tau i) as [u|] eqn:Et.
    + subst u. assert (Hi : i < length s).
      { rewrite HL. unfold get in Et. destruct (Nat.lt_ge_cases i (length tau)) as [?|Hge]; [assumption|].
        rewrite nth_overflow in Et by exact Hge. discriminate. }
      replace (Nat.ltb i (length s)) with true by (symmetry; now apply Nat.ltb_lt).
      destruct (get s i) as [t|] eqn:Es.
      * rewrite (He _ _ Es) in Et. injection Et as ->. rewrite gty_eqb_refl. exists s. split; [reflexivity|split; assumption].
      * exists (set s i a). split; [reflexivity|]. split; [now rewrite set_length|].
        intros j t Hj. destruct (Nat.eq_dec i j) as [->|Hne].
        -- rewrite get_set_same in Hj by exact Hi. now injection Hj as <-.
        -- rewrite get_set_other in Hj by exact Hne. now apply He.
    + subst a. discriminate Hg.
  - subst a. cbn [ground] in Hg. now apply IHp.
  - subst a. cbn [ground] in Hg. now apply IHp.
  - subst a. cbn [ground] in Hg. rewrite N.eqb_refl. now apply IHp.
  - subst a. cbn [ground] in Hg. now apply IHp.
  - subst a. cbn [ground] in Hg. apply andb_true_iff in Hg as [G1 G2].
    destruct (IHp1 _ s tau He eq_refl G1) as (s1 & U1 & E1). rewrite U1. now apply IHp2.
  - subst a. cbn [ground] in Hg. apply andb_true_iff in Hg as [G1 G2].
    destruct (IHp1 _ s tau He eq_refl G1) as (s1 & U1 & E1). rewrite U1. now apply IHp2.
Qed.

(* ---- the typed-argument phase ---- *)
Fixpoint typed_ok (s : subst_t) (ps : list gty) (args : list arg) : Prop :=
  match ps, args with
  | p :: pr, ATyped t :: ar => app s p = t /\ typed_ok s pr ar
  | _ :: pr, AConst _ :: ar => typed_ok s pr ar
  | [], [] => True
  | _, _ => False
  end.

Fixpoint args_ground (args : list arg) : bool :=
  match args with [] => true | ATyped t :: r => ground t && args_ground r | AConst _ :: r => args_ground r end.

Lemma typed_ok_ext s s' ps : forall args, ext s s' -> args_ground args = true -> typed_ok s ps args -> typed_ok s' ps args.
Proof.
  induction ps as [|p pr IH]; intros args He Hg H; destruct args as [|a ar]; try exact H.
  destruct a; cbn [typed_ok args_ground] in *.
  - apply andb_true_iff in Hg as [G1 G2]. destruct H as [H1 H2]. split; [|now apply IH].
    rewrite (app_ext_ground s s' p He); [exact H1|now rewrite H1].
  - now apply IH.
Qed.

Theorem unify_typed_sound ps : forall args s s', args_ground args = true ->
  unify_typed ps args s = Some s' -> ext s s' /\ typed_ok s' ps args.
Proof.
  induction ps as [|p pr IH]; intros args s s' Hg H; destruct args as [|a ar]; cbn [unify_typed] in H; try discriminate.
  - injection H as <-. split; [apply ext_refl|exact I].
  - destruct a; cbn [args_ground] in Hg.
    + apply andb_true_iff in Hg as [G1 G2]. destruct (unify p t s) as [s1|] eqn:U; [|discriminate].
      destruct (unify_sound _ _ _ _ G1 U) as [E1 A1]. destruct (IH _ _ _ G2 H) as [E2 T2].
      split; [eapply ext_trans; eassumption|]. cbn [typed_ok]. split; [|exact T2].
      rewrite (app_ext_ground s1 s' p E2); [exact A1|now rewrite A1].
    + destruct (IH _ _ _ Hg H) as [E2 T2]. split; assumption.
Qed.

Theorem unify_typed_complete ps : forall args s tau, args_ground args = true ->
  ext s tau -> typed_ok tau ps args ->
  exists s', unify_typed ps args s = Some s' /\ ext s' tau.
Proof.
  induction ps as [|p pr IH]; intros args s tau Hg He H; destruct args as [|a ar]; cbn [typed_ok] in H; try contradiction.
  - exists s. split; [reflexivity|exact He].
  - destruct a; cbn [args_ground unify_typed] in *.
    + apply andb_true_iff in Hg as [G1 G2]. destruct H as [H1 H2].
      destruct (unify_complete p t s tau He H1 G1) as (s1 & U & E1). rewrite U. now apply IH.
    + now apply IH.
Qed.

(* a failing witness: one type parameter used at two different argument types *)
Lemma conflicting_arguments_rejected :
  unify_typed [GParam 0; GSlice (GParam 0)] [ATyped (GAtom 1); ATyped (GSlice (GAtom 5))] [None] = None.
Proof. reflexivity. Qed.
