(* C07 — correspondence: the inference model against the builder (K1) and go/types (K2). *)
From Coq Require Import List NArith Bool.
From GV Require Import C07.Model.
Import ListNotations.
Local Open Scope N_scope.

(* atoms: 1 int, 2 int32, 3 float64, 4 complex128, 5 string, 6 bool, 7 int64,
   10 MyInt (int), 11 MyStr (string), 12 MySlice ([]int), 13 MyMap (map[string]int) *)
Definition under (n : N) : gty :=
  if n =? 10 then GAtom 1 else if n =? 11 then GAtom 5
  else if n =? 12 then GSlice (GAtom 1) else if n =? 13 then GMap (GAtom 5) (GAtom 1) else GAtom n.
Definition comparable_atom (n : N) : bool := negb ((n =? 12) || (n =? 13)).

Record c07case := mkCase {
  c_cs : list constr; c_ps : list gty; c_args : list arg; c_explicit : list gty;
  c_builder : option (list gty); c_go : option (list gty) }.

Fixpoint gtys_eqb (a b : list gty) : bool :=
  match a, b with
  | [], [] => true
  | x :: r, y :: r' => gty_eqb x y && gtys_eqb r r'
  | _, _ => false
  end.
Definition res_eqb (a b : option (list gty)) : bool :=
  match a, b with Some x, Some y => gtys_eqb x y | None, None => true | _, _ => false end.

Definition model (c : c07case) := infer under comparable_atom (c_cs c) (c_ps c) (c_args c) (c_explicit c).

Definition indexed {A} (l : list A) : list (N * A) :=
  (fix go (i : N) (l : list A) := match l with [] => [] | x :: r => (i, x) :: go (i + 1) r end) 0 l.
Definition bad_where (f : c07case -> bool) (cases : list c07case) : list (N * N) :=
  flat_map (fun ic => if f (snd ic) then [] else [(fst ic, 0)]) (indexed cases).

Definition k1_bad := bad_where (fun c => res_eqb (model c) (c_builder c)).
Definition k2_bad := bad_where (fun c => res_eqb (model c) (c_go c)).
