(* C07 — type-argument inference for calls of generic functions: the fragment of Go's inference
   (spec "Type inference"; go/types infer.go / unify.go) with exact unification of parameter types
   against the types of typed arguments, default types of untyped constant arguments for bare type
   parameters, core-type steps for constraints of the form ~[]E / ~map[K]V / ~*E ..., explicit
   leading type arguments, and constraint satisfaction. *)
From Coq Require Import List NArith Bool Lia.
Import ListNotations.
Local Open Scope N_scope.

Inductive gty :=
| GAtom (n : N)                 (* a basic or named (non-generic) type, by identity *)
| GParam (i : nat)              (* type parameter number i of the function *)
| GSlice (e : gty)
| GPtr (e : gty)
| GArr (n : N) (e : gty)
| GChan (e : gty)
| GMap (k v : gty)
| GFunc1 (p r : gty).           (* func(p) r *)

Fixpoint gty_eqb (a b : gty) : bool :=
  match a, b with
  | GAtom n, GAtom m => n =? m
  | GParam i, GParam j => Nat.eqb i j
  | GSlice x, GSlice y | GPtr x, GPtr y | GChan x, GChan y => gty_eqb x y
  | GArr n x, GArr m y => (n =? m) && gty_eqb x y
  | GMap k v, GMap k' v' => gty_eqb k k' && gty_eqb v v'
  | GFunc1 p r, GFunc1 p' r' => gty_eqb p p' && gty_eqb r r'
  | _, _ => false
  end.

Definition subst_t := list (option gty).       (* bindings of the type parameters, by index *)

Definition get (s : subst_t) (i : nat) : option gty := nth i s None.
Fixpoint set (s : subst_t) (i : nat) (t : gty) : subst_t :=
  match s, i with
  | [], _ => []
  | _ :: r, O => Some t :: r
  | x :: r, S j => x :: set r j t
  end.

(* exact unification of a parameter type (may mention type parameters) with a ground type *)
Fixpoint unify (p a : gty) (s : subst_t) : option subst_t :=
  match p with
  | GParam i =>
      if Nat.ltb i (length s) then
        match get s i with
        | Some t => if gty_eqb t a then Some s else None
        | None => Some (set s i a)
        end
      else None
  | GAtom n => match a with GAtom m => if n =? m then Some s else None | _ => None end
  | GSlice x => match a with GSlice y => unify x y s | _ => None end
  | GPtr x => match a with GPtr y => unify x y s | _ => None end
  | GChan x => match a with GChan y => unify x y s | _ => None end
  | GArr n x => match a with GArr m y => if n =? m then unify x y s else None | _ => None end
  | GMap k v =>
      match a with
      | GMap k' v' => match unify k k' s with Some s1 => unify v v' s1 | None => None end
      | _ => None
      end
  | GFunc1 q r =>
      match a with
      | GFunc1 q' r' => match unify q q' s with Some s1 => unify r r' s1 | None => None end
      | _ => None
      end
  end.

(* apply a substitution; unbound parameters stay *)
Fixpoint app (s : subst_t) (t : gty) : gty :=
  match t with
  | GAtom n => GAtom n
  | GParam i => match get s i with Some u => u | None => GParam i end
  | GSlice e => GSlice (app s e)
  | GPtr e => GPtr (app s e)
  | GArr n e => GArr n (app s e)
  | GChan e => GChan (app s e)
  | GMap k v => GMap (app s k) (app s v)
  | GFunc1 p r => GFunc1 (app s p) (app s r)
  end.

Fixpoint ground (t : gty) : bool :=
  match t with
  | GAtom _ => true
  | GParam _ => false
  | GSlice e | GPtr e | GArr _ e | GChan e => ground e
  | GMap k v => ground k && ground v
  | GFunc1 p r => ground p && ground r
  end.

(* arguments *)
Inductive arg :=
| ATyped (t : gty)              (* a value of ground type t *)
| AConst (kind : N).            (* untyped constant: 1 int, 2 rune, 3 float, 4 complex, 5 string, 6 bool *)

(* default type atoms of untyped constants (harness convention: atom ids 1..6 are int, rune(int32), float64, complex128, string, bool) *)
Definition default_atom (kind : N) : gty := GAtom kind.
Definition numeric_kind (k : N) : bool := (1 <=? k) && (k <=? 4).

(* phase 1: typed arguments, in order *)
Fixpoint unify_typed (ps : list gty) (args : list arg) (s : subst_t) : option subst_t :=
  match ps, args with
  | p :: pr, ATyped t :: ar => match unify p t s with Some s1 => unify_typed pr ar s1 | None => None end
  | _ :: pr, AConst _ :: ar => unify_typed pr ar s
  | [], [] => Some s
  | _, _ => None
  end.

(* constraints *)
Inductive constr :=
| CAny
| CComparable
| CUnion (terms : list (bool * N))   (* (tilde, atom); under is supplied by the environment *)
| CCore (t : gty).                    (* ~t where t mentions other type parameters, e.g. ~[]E *)

Section Env.
Variable under : N -> gty.            (* underlying type of an atom (GAtom n itself for basic types) *)
Variable comparable_atom : N -> bool.

Definition under_of (t : gty) : gty := match t with GAtom n => under n | _ => t end.

(* phase 2: core types — a bound parameter with a ~core constraint binds the parameters in core *)
Fixpoint core_step (cs : list constr) (i : nat) (s : subst_t) : option subst_t :=
  match cs with
  | [] => Some s
  | c :: cr =>
      match c, get s i with
      | CCore t, Some b =>
          match unify t (under_of b) s with Some s1 => core_step cr (S i) s1 | None => None end
      | _, _ => core_step cr (S i) s
      end
  end.

Fixpoint core_iter (fuel : nat) (cs : list constr) (s : subst_t) : option subst_t :=
  match fuel with
  | O => Some s
  | S f => match core_step cs 0 s with Some s1 => core_iter f cs s1 | None => None end
  end.

(* phase 3: untyped constants passed for a bare, still unbound type parameter: the largest default kind *)
Fixpoint const_kinds (ps : list gty) (args : list arg) (i : nat) : list N :=
  match ps, args with
  | GParam j :: pr, AConst k :: ar => (if Nat.eqb i j then [k] else []) ++ const_kinds pr ar i
  | _ :: pr, _ :: ar => const_kinds pr ar i
  | _, _ => []
  end.

Definition max_kind (ks : list N) : option N :=
  match ks with
  | [] => None
  | k :: r =>
      if forallb numeric_kind ks then Some (fold_left N.max r k)
      else if forallb (N.eqb k) r then Some k else Some 0      (* 0: mismatched kinds *)
  end.

Fixpoint defaults (ps : list gty) (args : list arg) (n i : nat) (s : subst_t) : option subst_t :=
  match n with
  | O => Some s
  | S n' =>
      match get s i with
      | Some _ => defaults ps args n' (S i) s
      | None =>
          match max_kind (const_kinds ps args i) with
          | None => defaults ps args n' (S i) s
          | Some 0 => None
          | Some k => defaults ps args n' (S i) (set s i (default_atom k))
          end
      end
  end.

Fixpoint comparable (t : gty) : bool :=
  match t with
  | GAtom n => comparable_atom n
  | GPtr _ | GChan _ => true
  | GArr _ e => comparable e
  | GSlice _ | GMap _ _ | GFunc1 _ _ | GParam _ => false
  end.

Definition satisfies (s : subst_t) (c : constr) (t : gty) : bool :=
  match c with
  | CAny => true
  | CComparable => comparable t
  | CUnion terms =>
      existsb (fun tm => let '(tilde, a) := tm in
                         gty_eqb t (GAtom a) || (tilde && gty_eqb (under_of t) (under a))) terms
  | CCore core => gty_eqb (under_of t) (app s core)
  end.

Fixpoint all_bound (s : subst_t) : bool :=
  match s with [] => true | Some t :: r => ground t && all_bound r | None :: _ => false end.

Fixpoint check_constraints (cs : list constr) (s : subst_t) (i : nat) (full : subst_t) : bool :=
  match cs, s with
  | c :: cr, Some t :: sr => satisfies full c t && check_constraints cr sr (S i) full
  | [], [] => true
  | _, _ => false
  end.

(* the untyped constant kinds must fit where they are passed for an already bound parameter or a
   non-parameter type: decided by the caller (assignability is property C05); here only bare
   parameters are considered *)
Definition infer (cs : list constr) (ps : list gty) (args : list arg) (explicit : list gty) : option (list gty) :=
  let n := length cs in
  let s0 := map Some explicit ++ repeat None (n - length explicit) in
  if negb (Nat.leb (length explicit) n) then None else
  match unify_typed ps args s0 with
  | None => None
  | Some s1 =>
      match core_iter n cs s1 with
      | None => None
      | Some s2 =>
          match defaults ps args n 0 s2 with
          | None => None
          | Some s3 =>
              match core_iter n cs s3 with
              | None => None
              | Some s4 =>
                  if all_bound s4 && check_constraints cs s4 0 s4
                  then Some (map (fun o => match o with Some t => t | None => GAtom 0 end) s4)
                  else None
              end
          end
      end
  end.

End Env.
