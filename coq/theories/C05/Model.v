(* C05 — transcription of AssignableConv / assignableTo / outOfRange /
   getElemTypeIf / ComparableTo / untypedComparable / ConvertibleTo / Default
   (template.go) over a closed universe: basic kinds (typed, untyped, nil,
   unsafe.Pointer), named types over them, and the other type constructors as
   classes.  go/types.AssignableTo / ConvertibleTo — library calls in the Go
   code — enter as the boolean results the harness observed (oracle inputs);
   tkindRanges comes from the regenerated tables. *)
From Coq Require Import List NArith ZArith QArith Bool Lia.
From GV Require Import Go.Kinds.
From GVGen Require Import Tables.
Import ListNotations.
Local Close Scope Q_scope.

Inductive ocls := OEmptyIface | OIface | OSlice | OPtr | OMap | OFunc | OChan | OStruct | OArray | OAlias.
Inductive tyc := TB (k : kind) (named : bool) | TO (c : ocls) (named : bool).

Inductive res := Ok (b : bool) | Fault.

(* constant.ToInt(c).Kind() == constant.Int *)
Definition to_int_is_int (c : cval) : bool :=
  match const_int c with Some _ => true | None => false end.

Definition getElemTypeIf (V : tyc) (c : option cval) : tyc :=
  match V, c with
  | TB k false, Some cv => if N.eqb k KUntypedFloat && to_int_is_int cv then TB KUntypedInt false else V
  | _, _ => V
  end.

Fixpoint range_of (k : kind) (t : list (N * (Z * Z))) : option (Z * Z) :=
  match t with [] => None | (k', r) :: rest => if N.eqb k k' then Some r else range_of k rest end.

(* constant.Compare(c, <, lo) || constant.Compare(c, >, hi); complex operands make Compare panic *)
Definition q_lt_z (q : Q) (z : Z) : bool := Z.ltb (Qnum q) (z * Zpos (Qden q)).
Definition q_gt_z (q : Q) (z : Z) : bool := Z.gtb (Qnum q) (z * Zpos (Qden q)).
Definition outOfRange (tk : kind) (c : option cval) : res :=
  match c with
  | None => Ok false
  | Some cv =>
    match range_of tk tkindRanges with
    | None => Ok false                 (* not reached: guarded by tkind <= Uintptr; kinds 0,1 have nil ranges -> see model note *)
    | Some (lo, hi) =>
      match cv with
      | CInt z => Ok (Z.ltb z lo || Z.gtb z hi)
      | CFloat q => Ok (q_lt_z q lo || q_gt_z q hi)
      | CComplex _ _ => Fault
      | _ => Fault
      end
    end
  end.

Definition under_kind (t : tyc) : option kind := match t with TB k _ => Some k | TO _ _ => None end.

(* assignableTo, reached only when types.AssignableTo(V, T) holds *)
Definition assignableTo (V T : tyc) (c : option cval) : res :=
  match under_kind T, under_kind V with
  | Some tk, Some vk =>
    if (N.leb KUntypedInt vk && N.leb vk KUntypedComplex)%bool then
      let continue_ :=
        if (N.leb KUntypedInt tk && N.leb tk KUntypedComplex)%bool then
          Ok (if (N.eqb vk tk || N.eqb vk KUntypedRune)%bool then true
              else (negb (N.eqb tk KUntypedRune) && N.ltb vk tk)%bool)
        else if N.eqb vk KUntypedFloat then Ok (N.leb KFloat32 tk)
        else if N.eqb vk KUntypedComplex then Ok (N.leb KComplex64 tk)
        else Ok true in
      if N.leb tk KUintptr then
        match c with
        | Some _ =>
          (* kinds Invalid and Bool index nil ranges: Compare with a nil bound panics *)
          if N.ltb tk KInt then Fault
          else match outOfRange tk c with
               | Fault => Fault
               | Ok true => Ok false
               | Ok false => continue_
               end
        | None => continue_
        end
      else continue_
    else Ok true
  | _, _ => Ok true
  end.

(* AssignableConv(V, T, pv): ta = types.AssignableTo(V', T) for V' = getElemTypeIf(V, pv) *)
Definition assignableConv (V T : tyc) (c : option cval) (ta : bool) : res :=
  let V' := getElemTypeIf V c in
  if ta then assignableTo V' T c
  else Ok false.   (* no T_Init hook, no implicit cast in the default configuration *)

(* ---------- comparability ---------- *)
Definition cls_of (t : tyc) : option ocls := match t with TO c _ => Some c | _ => None end.

Definition untypedComparable (vk : kind) (c : option cval) (t : tyc) : res :=
  if N.eqb vk KUntypedNil then
    match t with
    | TO OIface _ | TO OEmptyIface _ | TO OSlice _ | TO OPtr _ | TO OMap _ | TO OFunc _ | TO OChan _ => Ok true
    | TB k _ => Ok (N.eqb k KUnsafePointer)
    | _ => Ok false
    end
  else
    match t with
    | TB u _ =>
      if N.eqb vk KUntypedBool then Ok (is_boolean_kind u)
      else if N.eqb vk KUntypedFloat then
        match c with
        | None => Fault                                   (* constant.ToInt(nil) *)
        | Some cv => if to_int_is_int cv then Ok (is_numeric_kind u)
                     else Ok (is_float_kind u || is_complex_kind u)
        end
      else if (N.eqb vk KUntypedInt || N.eqb vk KUntypedRune)%bool then Ok (is_numeric_kind u)
      else if N.eqb vk KUntypedComplex then Ok (is_complex_kind u)
      else if N.eqb vk KUntypedString then Ok (is_string_kind u)
      else Ok false
    | TO OEmptyIface _ => Ok true
    | _ => Ok false
    end.

Definition is_untyped_basic (t : tyc) : option kind :=
  match t with TB k false => if is_untyped_kind k then Some k else None | _ => None end.

Definition rorb (a : res) (b : unit -> res) : res :=
  match a with Ok true => Ok true | Ok false => b tt | Fault => Fault end.

(* ComparableTo(varg, targ): same_under = (getUnderlying V == getUnderlying T) as Go interface
   values; ta_vt / ta_tv = types.AssignableTo in the two directions (after getElemTypeIf) *)
(* types.Comparable on the classes of the universe: slices, maps and functions are not comparable *)
Definition comparable_cls (t : tyc) : bool :=
  match t with TO OSlice _ | TO OMap _ | TO OFunc _ => false | _ => true end.

Definition comparableTo (V T : tyc) (cv ct : option cval) (same_under ta_vt ta_tv : bool) : res :=
  match is_untyped_basic V with
  | Some vk => untypedComparable vk cv T
  | None =>
    match is_untyped_basic T with
    | Some tk => untypedComparable tk ct V
    | None =>
      if negb (comparable_cls V && comparable_cls T) then Ok false
      else if same_under then Ok true
      else rorb (assignableConv V T cv ta_vt) (fun _ => assignableConv T V ct ta_tv)
    end
  end.

(* ConvertibleTo: the unsafe.Pointer special case, then types.ConvertibleTo *)
Definition convertibleTo (V T : tyc) (tc : bool) : bool :=
  match V, T with
  | TB k false, TO OPtr false => if N.eqb k KUnsafePointer then true else tc
  | _, _ => tc
  end.

(* Default (no T_Default hooks): types.Default *)
Definition default_kind (k : kind) : kind :=
  if N.eqb k KUntypedBool then KBool else if N.eqb k KUntypedInt then KInt
  else if N.eqb k KUntypedRune then KInt32 else if N.eqb k KUntypedFloat then KFloat64
  else if N.eqb k KUntypedComplex then KComplex128 else if N.eqb k KUntypedString then KString
  else k.

(* ---------- the specification side ---------- *)
(* Go spec: an untyped constant c may be assigned to T iff it is representable by a value of T
   (basic T); to an interface iff the interface is empty and c is representable in its default
   type; nil exactly to the types that have nil *)
Definition has_nil (t : tyc) : bool :=
  match t with
  | TO OIface _ | TO OEmptyIface _ | TO OSlice _ | TO OPtr _ | TO OMap _ | TO OFunc _ | TO OChan _ => true
  | TB k _ => N.eqb k KUnsafePointer
  | _ => false
  end.

Definition spec_assign_const (vk : kind) (c : cval) (T : tyc) : bool :=
  match T with
  | TB tk _ => representable c tk
  | TO OEmptyIface _ => representable c (default_kind vk)
  | _ => false
  end.

(* go/types.AssignableTo for a non-constant operand of untyped basic kind vk and a basic target *)
Definition go_ta_basic (vk tk : kind) : bool :=
  if is_untyped_kind tk then
    (N.eqb vk tk || (is_untyped_numeric vk && is_untyped_numeric tk))%bool
  else if N.eqb vk KUntypedBool then is_boolean_kind tk
  else if is_untyped_numeric vk then is_numeric_kind tk
  else if N.eqb vk KUntypedString then is_string_kind tk
  else if N.eqb vk KUntypedNil then N.eqb tk KUnsafePointer
  else false.

(* the form of the exact value go/constant keeps for a constant of untyped kind vk *)
Definition const_form_ok (vk : kind) (c : cval) : bool :=
  match c with
  | CBool _ => N.eqb vk KUntypedBool
  | CStr _ => N.eqb vk KUntypedString
  | CInt _ => (N.eqb vk KUntypedInt || N.eqb vk KUntypedRune)%bool
  | CFloat _ => N.eqb vk KUntypedFloat
  | CComplex _ _ => N.eqb vk KUntypedComplex
  end.

(* where the pinned tree is known to deviate from the specification (classes of known findings) *)
Definition dev_class_assign (vk : kind) (c : cval) (T : tyc) : option N :=
  match T with
  | TB tk _ =>
    match c with
    | CComplex re im =>
      if is_typed_int tk then Some 1%N                              (* C05-a: constant.Compare panics *)
      else if (N.eqb tk KFloat32 || N.eqb tk KFloat64)%bool then
        (if q_zero im then Some 2%N else None)                      (* C05-b: complex with zero imaginary part -> float rejected *)
      else if (N.eqb tk KComplex64 || N.eqb tk KComplex128)%bool then
        (if representable c tk then None else Some 3%N)             (* C05-c: float range never checked *)
      else None
    | CInt _ | CFloat _ =>
      if (N.leb KFloat32 tk && N.leb tk KComplex128)%bool then
        (if representable c tk then None else Some 3%N)
      else None
    | _ => None
    end
  | TO OEmptyIface _ =>
      if representable c (default_kind vk) then None else Some 4%N   (* C05-d: default-type overflow into interface accepted *)
  | _ => None
  end.

(* comparison x == y (Go spec): an untyped constant against a typed operand must be representable
   in the operand's type; two untyped constants must be of the same class (numeric / string / bool) *)
Definition const_class (vk : kind) : N :=
  if is_untyped_numeric vk then 1%N else if N.eqb vk KUntypedString then 2%N
  else if N.eqb vk KUntypedBool then 3%N else 0%N.
Definition spec_compare_consts (vk wk : kind) : bool :=
  (negb (N.eqb (const_class vk) 0) && N.eqb (const_class vk) (const_class wk))%bool.

(* classes for comparisons:
   10 = a constant not representable in the typed operand's type is accepted (range never checked);
   11 = non-integral float / complex constant against an untyped integer, rune or float constant rejected
        in one operand order (ComparableTo is not symmetric: C02-a);
   13 = typed operands accepted although their types differ (identical underlying types) or are not comparable;
   14 = complex constant with zero imaginary part against a real-typed operand rejected;
   0  = unclassified *)
Definition dev_class_compare (V T : tyc) (cv ct : option cval) (obs obs_sym : res) (ref : bool) : N :=
  match is_untyped_basic V, is_untyped_basic T with
  | Some vk, Some tk =>
      if (is_untyped_numeric vk && is_untyped_numeric tk && ref)%bool then 11%N else 0%N
  | Some vk, None | None, Some vk =>
      let c := match is_untyped_basic V with Some _ => cv | None => ct end in
      match c with
      | Some (CComplex _ im) => if ref then (if q_zero im then 14%N else 0%N) else 10%N
      | Some _ => if ref then 0%N else 10%N
      | None => 0%N
      end
  | None, None => if ref then 0%N else 13%N
  end.
