(* C05 — correspondence checker. *)
From Coq Require Import List NArith ZArith QArith Bool.
From GV Require Import Go.Kinds C05.Model.
Import ListNotations.
Local Close Scope Q_scope.

Inductive c05case :=
| CAssign (V T : tyc) (c : option cval) (ta ta_int : bool) (obs : res) (ref : bool) (is_const : bool)
| CCompare (V T : tyc) (cv ct : option cval) (same ta_vt ta_vt_int ta_tv ta_tv_int : bool)
           (obs obs_sym : res) (ref : bool)
| CConvert (V T : tyc) (tc : bool) (obs : res) (ref : bool)
| CDefault (k dk wk : N).

Definition res_eqb (a b : res) : bool :=
  match a, b with Ok x, Ok y => Bool.eqb x y | Fault, Fault => true | _, _ => false end.

Definition tyc_eqb (a b : tyc) : bool :=
  match a, b with
  | TB k n, TB k' n' => N.eqb k k' && Bool.eqb n n'
  | TO c n, TO c' n' => Bool.eqb n n' &&
      match c, c' with
      | OEmptyIface, OEmptyIface | OIface, OIface | OSlice, OSlice | OPtr, OPtr | OMap, OMap | OFunc, OFunc
      | OChan, OChan | OStruct, OStruct | OArray, OArray | OAlias, OAlias => true
      | _, _ => false
      end
  | _, _ => false
  end.

Definition pick_ta (V : tyc) (c : option cval) (ta ta_int : bool) : bool :=
  if tyc_eqb (getElemTypeIf V c) V then ta else ta_int.

Definition model_of (c : c05case) : res :=
  match c with
  | CAssign V T cv ta ta_int _ _ _ => assignableConv V T cv (pick_ta V cv ta ta_int)
  | CCompare V T cv ct same a1 a1i a2 a2i _ _ _ =>
      comparableTo V T cv ct same (pick_ta V cv a1 a1i) (pick_ta T ct a2 a2i)
  | CConvert V T tc _ _ => Ok (convertibleTo V T tc)
  | CDefault k _ _ => Ok true
  end.

Definition k1_ok (c : c05case) : bool :=
  match c with
  | CAssign _ _ _ _ _ obs _ _ | CCompare _ _ _ _ _ _ _ _ _ obs _ _ | CConvert _ _ _ obs _ => res_eqb (model_of c) obs
  | CDefault k dk _ => N.eqb (default_kind k) dk
  end.

(* K2: the specification side against go/types, where the specification is defined *)
Definition k2_ok (c : c05case) : bool :=
  match c with
  | CAssign (TB vk false) T (Some cv) _ _ _ ref true =>
      if is_untyped_kind vk then Bool.eqb (spec_assign_const vk cv T) ref && const_form_ok vk cv else true
  | CAssign (TB vk false) T None _ _ _ ref true =>
      if N.eqb vk KUntypedNil then Bool.eqb (has_nil T) ref else true
  | CAssign V T _ ta _ _ ref false => Bool.eqb ta ref     (* typed variable: go/types.AssignableTo is the rule *)
  | CCompare (TB vk false) (TB wk false) (Some _) (Some _) _ a1 _ _ _ _ _ ref =>
      if (is_untyped_kind vk && is_untyped_kind wk)%bool
      then Bool.eqb (spec_compare_consts vk wk) ref && Bool.eqb (go_ta_basic vk wk) a1 else true
  | CDefault k _ wk => N.eqb (default_kind k) wk
  | _ => true
  end.

(* deviations of the implementation from the reference, with their class (0 = unclassified) *)
Definition dev_of (c : c05case) : option N :=
  match c with
  | CAssign V T cv _ _ obs ref is_const =>
      if res_eqb obs (Ok ref) then None
      else match V, cv with
           | TB vk false, Some v => match dev_class_assign vk v T with Some k => Some k | None => Some 0%N end
           | _, _ => Some 0%N
           end
  | CCompare V T cv ct _ _ _ _ _ obs obs_sym ref =>
      if res_eqb obs (Ok ref) && res_eqb obs_sym (Ok ref) then None
      else Some (dev_class_compare V T cv ct obs obs_sym ref)
  | CConvert _ _ _ obs ref => if res_eqb obs (Ok ref) then None else Some 0%N
  | CDefault _ dk wk => if N.eqb dk wk then None else Some 0%N
  end.

Fixpoint bad_from (f : c05case -> bool) (i : nat) (cs : list c05case) : list (nat * nat) :=
  match cs with [] => [] | c :: r => (if f c then [] else [(i, 0)]) ++ bad_from f (S i) r end.
Definition k1_bad cs := bad_from k1_ok 0 cs.
Definition k2_bad cs := bad_from k2_ok 0 cs.
Fixpoint dev_from (i : nat) (cs : list c05case) : list (nat * N) :=
  match cs with
  | [] => []
  | c :: r => match dev_of c with Some k => [(i, k)] | None => [] end ++ dev_from (S i) r
  end.
Definition dev_list cs := dev_from 0 cs.
