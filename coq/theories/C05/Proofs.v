From Coq Require Import List NArith ZArith QArith Bool Lia.
From GV Require Import Go.Kinds C05.Model.
From GVGen Require Import Tables.
Import ListNotations.
Local Close Scope Q_scope.

(* ---- obligation on the regenerated table: tkindRanges is the spec's integer ranges ---- *)
Lemma Tables_agree_tkindRanges :
  forall k, is_typed_int k = true -> range_of k tkindRanges = int_range k.
Proof.
  intros k Hk. unfold is_typed_int in Hk. apply andb_prop in Hk as [H1 H2].
  apply N.leb_le in H1, H2.
  assert (k = 2 \/ k = 3 \/ k = 4 \/ k = 5 \/ k = 6 \/ k = 7 \/ k = 8 \/ k = 9 \/ k = 10 \/ k = 11 \/ k = 12)%N
    as Hc by lia.
  repeat (destruct Hc as [->|Hc]; [vm_compute; reflexivity|]). subst. vm_compute. reflexivity.
Qed.

Lemma int_range_some k : is_typed_int k = true -> exists lo hi, int_range k = Some (lo, hi).
Proof.
  intros Hk. unfold is_typed_int in Hk. apply andb_prop in Hk as [H1 H2].
  apply N.leb_le in H1, H2.
  assert (k = 2 \/ k = 3 \/ k = 4 \/ k = 5 \/ k = 6 \/ k = 7 \/ k = 8 \/ k = 9 \/ k = 10 \/ k = 11 \/ k = 12)%N
    as Hc by lia.
  repeat (destruct Hc as [->|Hc]; [eexists _, _; reflexivity|]). subst. eexists _, _; reflexivity.
Qed.

(* exact rational vs integer comparisons *)
Lemma q_int_lt q z :
  q_is_int q = true -> q_lt_z q z = Z.ltb (q_to_z q) z.
Proof.
  unfold q_is_int, q_lt_z, q_to_z. destruct q as [n d]. cbn [Qnum Qden]. intros H.
  apply Z.eqb_eq in H.
  assert (Hd : (0 < Zpos d)%Z) by lia.
  pose proof (Z.quot_rem' n (Zpos d)) as E. rewrite H, Z.add_0_r in E.
  set (m := Z.quot n (Zpos d)) in *.
  destruct (Z.ltb_spec m z); destruct (Z.ltb_spec n (z * Zpos d)); try reflexivity; exfalso; nia.
Qed.

Lemma q_int_gt q z :
  q_is_int q = true -> q_gt_z q z = Z.gtb (q_to_z q) z.
Proof.
  unfold q_is_int, q_gt_z, q_to_z. destruct q as [n d]. cbn [Qnum Qden]. intros H.
  apply Z.eqb_eq in H.
  assert (Hd : (0 < Zpos d)%Z) by lia.
  pose proof (Z.quot_rem' n (Zpos d)) as E. rewrite H, Z.add_0_r in E.
  set (m := Z.quot n (Zpos d)) in *.
  rewrite !Z.gtb_ltb.
  destruct (Z.ltb_spec z m); destruct (Z.ltb_spec (z * Zpos d) n); try reflexivity; exfalso; nia.
Qed.

Lemma in_range_bool lo hi z : (Z.ltb z lo || Z.gtb z hi) = negb (Z.leb lo z && Z.leb z hi).
Proof.
  rewrite Z.gtb_ltb.
  destruct (Z.ltb_spec z lo), (Z.ltb_spec hi z), (Z.leb_spec lo z), (Z.leb_spec z hi); cbn; try reflexivity; lia.
Qed.

Section IntTargets.
Variables (tk : kind) (named : bool).
Hypothesis Htk : is_typed_int tk = true.

Lemma tk_le : N.leb tk KUintptr = true.
Proof. unfold is_typed_int in Htk. apply andb_prop in Htk as [_ H]. exact H. Qed.
Lemma tk_not_lt_int : N.ltb tk KInt = false.
Proof. unfold is_typed_int in Htk. apply andb_prop in Htk as [H _]. apply N.leb_le in H. apply N.ltb_ge. exact H. Qed.
Lemma tk_numeric : is_numeric_kind tk = true.
Proof. unfold is_numeric_kind, is_integer_kind. unfold is_typed_int in Htk. rewrite Htk. reflexivity. Qed.
Lemma tk_not_untyped : is_untyped_kind tk = false.
Proof.
  unfold is_untyped_kind. unfold is_typed_int in Htk. apply andb_prop in Htk as [_ H].
  apply N.leb_le in H. apply andb_false_iff. left. apply N.leb_gt. lia.
Qed.
Lemma tk_not_urange : (N.leb KUntypedInt tk && N.leb tk KUntypedComplex)%bool = false.
Proof.
  unfold is_typed_int in Htk. apply andb_prop in Htk as [_ H]. apply N.leb_le in H.
  apply andb_false_iff. left. apply N.leb_gt. unfold KUntypedInt. lia.
Qed.
Lemma tk_not_float : N.leb KFloat32 tk = false.
Proof.
  unfold is_typed_int in Htk. apply andb_prop in Htk as [_ H]. apply N.leb_le in H.
  apply N.leb_gt. unfold KFloat32. lia.
Qed.

(* an untyped integer or rune constant into an integer type: exactly the range test *)
Lemma assign_int_const vk z :
  (vk = KUntypedInt \/ vk = KUntypedRune) ->
  assignableConv (TB vk false) (TB tk named) (Some (CInt z)) (go_ta_basic vk tk) =
  Ok (representable (CInt z) tk).
Proof.
  intros Hvk. destruct (int_range_some tk Htk) as (lo & hi & Er).
  unfold assignableConv, getElemTypeIf.
  assert (Hnf : N.eqb vk KUntypedFloat = false) by (destruct Hvk; subst; reflexivity).
  rewrite Hnf. cbn [andb].
  assert (Hta : go_ta_basic vk tk = true).
  { unfold go_ta_basic. rewrite tk_not_untyped.
    destruct Hvk; subst; cbn; apply tk_numeric. }
  rewrite Hta. unfold assignableTo. cbn [under_kind].
  assert (Hur : (N.leb KUntypedInt vk && N.leb vk KUntypedComplex)%bool = true) by (destruct Hvk; subst; reflexivity).
  rewrite Hur, tk_not_urange, tk_le, tk_not_lt_int.
  unfold outOfRange. rewrite (Tables_agree_tkindRanges tk Htk), Er.
  unfold representable. rewrite Htk. cbn [const_int]. rewrite Er.
  rewrite in_range_bool. destruct (Z.leb lo z && Z.leb z hi)%bool; cbn [negb]; [|reflexivity].
  assert (N.eqb vk KUntypedComplex = false) as -> by (destruct Hvk; subst; reflexivity).
  rewrite Hnf. reflexivity.
Qed.

(* an untyped float constant into an integer type: accepted iff integral and in range *)
Lemma assign_float_const q :
  assignableConv (TB KUntypedFloat false) (TB tk named) (Some (CFloat q))
                 (go_ta_basic (if q_is_int q then KUntypedInt else KUntypedFloat) tk) =
  Ok (representable (CFloat q) tk).
Proof.
  destruct (int_range_some tk Htk) as (lo & hi & Er).
  unfold assignableConv, getElemTypeIf. rewrite N.eqb_refl. cbn [andb].
  unfold to_int_is_int. cbn [const_int].
  unfold representable. rewrite Htk. cbn [const_int]. rewrite Er.
  destruct (q_is_int q) eqn:Ei.
  - assert (Hta : go_ta_basic KUntypedInt tk = true).
    { unfold go_ta_basic. rewrite tk_not_untyped. cbn. apply tk_numeric. }
    rewrite Hta. unfold assignableTo. cbn [under_kind].
    change (N.leb KUntypedInt KUntypedInt && N.leb KUntypedInt KUntypedComplex)%bool with true.
    cbv iota. rewrite tk_not_urange, tk_le, tk_not_lt_int.
    unfold outOfRange. rewrite (Tables_agree_tkindRanges tk Htk), Er.
    rewrite (q_int_lt q lo Ei), (q_int_gt q hi Ei), in_range_bool.
    destruct (Z.leb lo (q_to_z q) && Z.leb (q_to_z q) hi)%bool; reflexivity.
  - assert (Hta : go_ta_basic KUntypedFloat tk = true).
    { unfold go_ta_basic. rewrite tk_not_untyped. cbn. apply tk_numeric. }
    rewrite Hta. unfold assignableTo. cbn [under_kind].
    change (N.leb KUntypedInt KUntypedFloat && N.leb KUntypedFloat KUntypedComplex)%bool with true.
    cbv iota. rewrite tk_not_urange, tk_le, tk_not_lt_int.
    unfold outOfRange. rewrite (Tables_agree_tkindRanges tk Htk), Er.
    destruct (q_lt_z q lo || q_gt_z q hi)%bool; [reflexivity|].
    change (N.eqb KUntypedFloat KUntypedFloat) with true. cbv iota. rewrite tk_not_float. reflexivity.
Qed.
End IntTargets.

(* the comparability verdict on two typed operands does not depend on the operand order
   (when neither direction faults) *)
Lemma comparable_typed_symmetric V T cv ct same a b r1 r2 :
  is_untyped_basic V = None -> is_untyped_basic T = None ->
  comparableTo V T cv ct same a b = Ok r1 -> comparableTo T V ct cv same b a = Ok r2 -> r1 = r2.
Proof.
  intros HV HT. unfold comparableTo. rewrite HV, HT. rewrite (andb_comm (comparable_cls T)).
  destruct (comparable_cls V && comparable_cls T); cbn [negb]; [|congruence]. destruct same; [congruence|].
  unfold rorb.
  destruct (assignableConv V T cv a) as [[|]|]; destruct (assignableConv T V ct b) as [[|]|]; congruence.
Qed.

(* the one case gogen adds in front of types.ConvertibleTo is already a rule of the spec *)
Lemma convertible_is_library V T tc :
  (forall n, V = TB KUnsafePointer false -> T = TO OPtr n -> tc = true) -> convertibleTo V T tc = tc.
Proof.
  intros H. unfold convertibleTo. destruct V as [k n1|c1 n1]; [|reflexivity].
  destruct n1; [reflexivity|]. destruct T as [k2 n2|c n2]; [reflexivity|].
  destruct c; try reflexivity. destruct n2; [reflexivity|].
  destruct (N.eqb_spec k KUnsafePointer) as [->|]; [|reflexivity].
  symmetry. now apply (H false).
Qed.

Lemma default_kind_spec k :
  (k <= 25)%N ->
  default_kind k =
  (if N.eqb k 19 then 1 else if N.eqb k 20 then 2 else if N.eqb k 21 then 5 else if N.eqb k 22 then 14
   else if N.eqb k 23 then 16 else if N.eqb k 24 then 17 else k)%N.
Proof. intros _. reflexivity. Qed.
