(* go/types basic kinds (numbered as types.BasicKind) and their Info() classes,
   Go constant values with exact arithmetic, and representability of constants
   (Go spec, "Representability") — shared by C03/C04/C05/C14. *)
From Coq Require Import List NArith ZArith QArith Bool Lia.
Import ListNotations.

Local Open Scope N_scope.
Definition kind := N.
Definition KInvalid : kind := 0.  Definition KBool : kind := 1.
Definition KInt : kind := 2.      Definition KInt8 : kind := 3.   Definition KInt16 : kind := 4.
Definition KInt32 : kind := 5.    Definition KInt64 : kind := 6.
Definition KUint : kind := 7.     Definition KUint8 : kind := 8.  Definition KUint16 : kind := 9.
Definition KUint32 : kind := 10.  Definition KUint64 : kind := 11. Definition KUintptr : kind := 12.
Definition KFloat32 : kind := 13. Definition KFloat64 : kind := 14.
Definition KComplex64 : kind := 15. Definition KComplex128 : kind := 16.
Definition KString : kind := 17.  Definition KUnsafePointer : kind := 18.
Definition KUntypedBool : kind := 19.  Definition KUntypedInt : kind := 20. Definition KUntypedRune : kind := 21.
Definition KUntypedFloat : kind := 22. Definition KUntypedComplex : kind := 23.
Definition KUntypedString : kind := 24. Definition KUntypedNil : kind := 25.

Definition is_integer_kind (k : kind) : bool := ((2 <=? k) && (k <=? 12)) || (k =? 20) || (k =? 21).
Definition is_typed_int (k : kind) : bool := (2 <=? k) && (k <=? 12).
Definition is_float_kind (k : kind) : bool := (k =? 13) || (k =? 14) || (k =? 22).
Definition is_complex_kind (k : kind) : bool := (k =? 15) || (k =? 16) || (k =? 23).
Definition is_numeric_kind (k : kind) : bool := is_integer_kind k || is_float_kind k || is_complex_kind k.
Definition is_string_kind (k : kind) : bool := (k =? 17) || (k =? 24).
Definition is_boolean_kind (k : kind) : bool := (k =? 1) || (k =? 19).
Definition is_untyped_kind (k : kind) : bool := (19 <=? k) && (k <=? 25).
Definition is_untyped_numeric (k : kind) : bool := (20 <=? k) && (k <=? 23).
Local Close Scope N_scope.
Local Close Scope Q_scope.

(* Go constant values: exact *)
Inductive cval :=
| CBool (b : bool)
| CStr (s : list N)
| CInt (z : Z)
| CFloat (q : Q)              (* kind Float in go/constant; q may be integral *)
| CComplex (re im : Q).

Definition q_is_int (q : Q) : bool := Z.eqb (Z.rem (Qnum q) (Zpos (Qden q))) 0%Z.
Definition q_to_z (q : Q) : Z := Z.quot (Qnum q) (Zpos (Qden q)).
Definition q_zero (q : Q) : bool := Z.eqb (Qnum q) 0%Z.

(* the exact integer denoted by a numeric constant, if it is one (spec: "x is in the set of values...") *)
Definition const_int (c : cval) : option Z :=
  match c with
  | CInt z => Some z
  | CFloat q => if q_is_int q then Some (q_to_z q) else None
  | CComplex re im => if q_zero im && q_is_int re then Some (q_to_z re) else None
  | _ => None
  end.
(* the exact real denoted by a numeric constant with zero imaginary part *)
Definition const_real (c : cval) : option Q :=
  match c with
  | CInt z => Some (inject_Z z)
  | CFloat q => Some q
  | CComplex re im => if q_zero im then Some re else None
  | _ => None
  end.

Definition int_range (k : kind) : option (Z * Z) :=
  if N.eqb k 2 then Some (- 2 ^ 63, 2 ^ 63 - 1)%Z          (* int: 64-bit target *)
  else if N.eqb k 3 then Some (- 2 ^ 7, 2 ^ 7 - 1)%Z
  else if N.eqb k 4 then Some (- 2 ^ 15, 2 ^ 15 - 1)%Z
  else if N.eqb k 5 then Some (- 2 ^ 31, 2 ^ 31 - 1)%Z
  else if N.eqb k 6 then Some (- 2 ^ 63, 2 ^ 63 - 1)%Z
  else if N.eqb k 7 then Some (0, 2 ^ 64 - 1)%Z
  else if N.eqb k 8 then Some (0, 2 ^ 8 - 1)%Z
  else if N.eqb k 9 then Some (0, 2 ^ 16 - 1)%Z
  else if N.eqb k 10 then Some (0, 2 ^ 32 - 1)%Z
  else if N.eqb k 11 then Some (0, 2 ^ 64 - 1)%Z
  else if N.eqb k 12 then Some (0, 2 ^ 64 - 1)%Z
  else None.

(* a real rounds to a finite float32 / float64 iff its magnitude is below max + ulp/2 *)
Definition f32_limit : Z := (2 ^ 128 - 2 ^ 103)%Z.
Definition f64_limit : Z := (2 ^ 1024 - 2 ^ 970)%Z.
Definition q_abs_lt (q : Q) (lim : Z) : bool :=
  Z.ltb (Z.abs (Qnum q)) (lim * Zpos (Qden q)).
Definition fits_float (k : kind) (q : Q) : bool :=
  if N.eqb k 13 || N.eqb k 15 then q_abs_lt q f32_limit else q_abs_lt q f64_limit.

(* Go spec: a constant x is representable by a value of (basic) type T *)
Definition representable (c : cval) (k : kind) : bool :=
  if is_typed_int k then
    match const_int c, int_range k with
    | Some z, Some (lo, hi) => Z.leb lo z && Z.leb z hi
    | _, _ => false
    end
  else if N.eqb k 13 || N.eqb k 14 then
    match const_real c with Some q => fits_float k q | None => false end
  else if N.eqb k 15 || N.eqb k 16 then
    match c with
    | CInt z => fits_float k (inject_Z z)
    | CFloat q => fits_float k q
    | CComplex re im => fits_float k re && fits_float k im
    | _ => false
    end
  else if N.eqb k 17 then match c with CStr _ => true | _ => false end
  else if N.eqb k 1 then match c with CBool _ => true | _ => false end
  else false.
