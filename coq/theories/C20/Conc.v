(* C20 — concurrent lookups: small-step interleaving model of Impl.Find.
   Every access of a Find call to something shared or external is one step of
   its thread: the two sync.Map loads, each call of the PkgHash callback (own
   fingerprint, each recorded dependency; then again while Prepare records the
   listing), the atomic increment of nlist, the run of `go list`, the
   sync.Map store and the two os.Open calls.  A schedule picks which thread
   takes its next step (or applies a sequential operation / world change of
   C20.Model between thread steps).  The callback and the stub `go` command
   are exactly the points at which the harness can hold a goroutine, so a
   schedule of this model can be replayed on the real cache.Impl. *)
From Coq Require Import List NArith ZArith Bool Lia.
From GV Require Import Lib.Bytes C20.Model.
From GVGen Require Import Tables.
Import ListNotations.

Inductive pc :=
| PStart                                   (* about to cache.Load(pkgPath) *)
| PSelf (e : entry)                        (* isDirty: about to call h(pkgPath, true) *)
| PDeps (e : entry) (ds : list (str * str))(* isDirty: about to check the next recorded dependency *)
| POpen1 (e : entry)                       (* isDirty: about to os.Open(pkg.expfile) *)
| PInc                                     (* Prepare: about to atomic.AddInt32(&nlist, 1) *)
| PList                                    (* Prepare: about to run `go list -export` *)
| PRecSelf (v : str * list str)            (* Prepare: about to call h(v.path, true) *)
| PRecDeps (exp hs : str) (todo : list str) (acc : list (str * str))
                                           (* Prepare: about to call h(dep, false) for the next dep *)
| PStore (e : entry)                       (* Prepare: about to cache.Store *)
| PLoad2                                   (* Find: about to cache.Load(pkgPath) again *)
| POpen2 (e : entry)                       (* Find: about to os.Open(val.expfile) *)
| PDone (r : fres).

Definition is_done (k : pc) : bool := match k with PDone _ => true | _ => false end.

(* one step of a thread looking up p *)
Definition tstep (w : world) (p : str) (c : cache) (n : nat) (k : pc) : cache * nat * pc :=
  match k with
  | PStart =>
      match lookup p c with
      | None => (c, n, PInc)
      | Some e => if str_eqb (e_hash e) HashInvalid then (c, n, PInc) else (c, n, PSelf e)
      end
  | PSelf e =>
      if str_eqb (hash_of w p true) (e_hash e) then (c, n, PDeps e (e_deps e)) else (c, n, PInc)
  | PDeps e [] => (c, n, POpen1 e)
  | PDeps e (d :: ds) =>
      if str_eqb (hash_of w (fst d) false) (snd d) then (c, n, PDeps e ds) else (c, n, PInc)
  | POpen1 e =>
      if file_ok w (e_exp e) then (c, n, PDone (Served (e_exp e))) else (c, n, PInc)
  | PInc => (c, S n, PList)
  | PList =>
      match listing w [p] with
      | None => (c, n, PDone FErr)
      | Some [] => (c, n, PLoad2)
      | Some (qv :: _) => (c, n, PRecSelf (snd qv))
      end
  | PRecSelf v => (c, n, PRecDeps (fst v) (hash_of w p true) (snd v) [])
  | PRecDeps exp hs [] acc => (c, n, PStore (mkEntry exp hs acc))
  | PRecDeps exp hs (d :: todo) acc =>
      let h := hash_of w d false in
      (c, n, PRecDeps exp hs todo (if str_eqb h HashSkip then acc else acc ++ [(d, h)]))
  | PStore e => (store p e c, n, PLoad2)
  | PLoad2 =>
      match lookup p c with
      | None => (c, n, PDone FErr)
      | Some e => (c, n, POpen2 e)
      end
  | POpen2 e => (c, n, PDone (if file_ok w (e_exp e) then Served (e_exp e) else FErr))
  | PDone r => (c, n, PDone r)
  end.

Record conf := mkConf { g_c : cache; g_n : nat; g_w : world; g_ts : list (str * pc) }.

Fixpoint upd {A} (i : nat) (x : A) (l : list A) : list A :=
  match l, i with
  | [], _ => []
  | _ :: r, 0 => x :: r
  | y :: r, S j => y :: upd j x r
  end.

Inductive item :=
| IThread (i : nat)          (* thread i takes its next step *)
| ISeq (o : op)              (* a sequential operation / world change of C20.Model *)
| ISpawn (p : str).          (* a new goroutine calls Find(p) *)

Definition cstep (g : conf) (it : item) : conf :=
  match it with
  | IThread i =>
      match nth_error (g_ts g) i with
      | None => g
      | Some (p, k) =>
          let '(c', n', k') := tstep (g_w g) p (g_c g) (g_n g) k in
          mkConf c' n' (g_w g) (upd i (p, k') (g_ts g))
      end
  | ISeq o =>
      let '(s', _) := step (mkState (g_c g) (g_n g) (g_w g)) o in
      mkConf (st_c s') (st_n s') (st_w s') (g_ts g)
  | ISpawn p => mkConf (g_c g) (g_n g) (g_w g) (g_ts g ++ [(p, PStart)])
  end.

Definition crun (g : conf) (sched : list item) : conf := fold_left cstep sched g.

Definition start (s : state) (ps : list str) : conf :=
  mkConf (st_c s) (st_n s) (st_w s) (map (fun p => (p, PStart)) ps).

(* ---------- correspondence (K1, concurrent stream) ---------- *)
(* The harness holds every goroutine at its next callback (hash call or stub
   `go list`) and releases one at a time; a released goroutine runs until its
   next callback or until Find returns.  In the model that is: take steps of
   thread i until the pc is again at a callback point or done. *)
Definition at_callback (k : pc) : bool :=
  match k with
  | PSelf _ | PDeps _ (_ :: _) | PList | PRecSelf _ | PRecDeps _ _ (_ :: _) _ | PDone _ => true
  | _ => false
  end.

Fixpoint advance (fuel : nat) (g : conf) (i : nat) : conf :=
  match fuel with
  | 0 => g
  | S f =>
      let g' := cstep g (IThread i) in
      match nth_error (g_ts g') i with
      | Some (_, k) => if at_callback k then g' else advance f g' i
      | None => g'
      end
  end.

(* what the harness saw when it released goroutine i: where it stopped next *)
Inductive cobs :=
| CAtHash (p : str) (self : bool)    (* blocked in h(p, self) *)
| CAtList                            (* blocked in the stub `go list` *)
| CServed (exp : str) | CErr.

Definition pc_obs (p : str) (k : pc) : option cobs :=
  match k with
  | PSelf _ => Some (CAtHash p true)
  | PDeps _ (d :: _) => Some (CAtHash (fst d) false)
  | PList => Some CAtList
  | PRecSelf _ => Some (CAtHash p true)
  | PRecDeps _ _ (d :: _) _ => Some (CAtHash d false)
  | PDone (Served x) => Some (CServed x)
  | PDone FErr => Some CErr
  | _ => None
  end.

Definition cobs_eqb (a b : cobs) : bool :=
  match a, b with
  | CAtHash p s, CAtHash q t => str_eqb p q && Bool.eqb s t
  | CAtList, CAtList => true
  | CServed x, CServed y => str_eqb x y
  | CErr, CErr => true
  | _, _ => false
  end.

Inductive citem :=
| CRelease (i : nat) (o : cobs) (n : nat)   (* release goroutine i; observed stop and ListTimes *)
| CSpawn (p : str) (o : cobs)               (* start Find(p) on a new goroutine; where it stopped first *)
| CWorld (o : op).                          (* world change while everyone is held *)

Definition fuel_of (g : conf) (i : nat) : nat :=
  match nth_error (g_ts g) i with
  | Some (_, PDeps e _) => 8 + length (e_deps e)
  | _ => 8
  end.

Fixpoint ccheck_from (j : nat) (g : conf) (h : list citem) : list nat :=
  match h with
  | [] => []
  | CRelease i o n :: r =>
      let g' := advance (fuel_of g i) g i in
      let ok := match nth_error (g_ts g') i with
                | Some (p, k) => match pc_obs p k with Some o' => cobs_eqb o o' | None => false end
                | None => false
                end && Nat.eqb (g_n g') n in
      (if ok then [] else [j]) ++ ccheck_from (S j) g' r
  | CSpawn p o :: r =>
      let g0 := cstep g (ISpawn p) in
      let i := length (g_ts g) in
      let g' := advance 8 g0 i in
      let ok := match nth_error (g_ts g') i with
                | Some (p, k) => match pc_obs p k with Some o' => cobs_eqb o o' | None => false end
                | None => false
                end in
      (if ok then [] else [j]) ++ ccheck_from (S j) g' r
  | CWorld o :: r => ccheck_from (S j) (cstep g (ISeq o)) r
  end.

Definition ccheck (h : list citem) : list nat := ccheck_from 0 (start init []) h.

Fixpoint cmismatches_from (i : nat) (hs : list (list citem)) : list (nat * nat) :=
  match hs with
  | [] => []
  | h :: r => match ccheck h with
              | [] => cmismatches_from (S i) r
              | j :: _ => (i, j) :: cmismatches_from (S i) r
              end
  end.
Definition cmismatches hs := cmismatches_from 0 hs.

(* one case file holds sequential histories and concurrent schedules *)
Inductive anycase := SeqCase (h : list (op * obs * nat)) | ConcCase (h : list citem).
Definition any_check (a : anycase) : list nat :=
  match a with SeqCase h => check_history h | ConcCase h => ccheck h end.
Fixpoint all_mismatches_from (i : nat) (hs : list anycase) : list (nat * nat) :=
  match hs with
  | [] => []
  | h :: r => match any_check h with
              | [] => all_mismatches_from (S i) r
              | j :: _ => (i, j) :: all_mismatches_from (S i) r
              end
  end.
Definition all_mismatches hs := all_mismatches_from 0 hs.
