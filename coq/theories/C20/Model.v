(* C20 — executable model of packages/cache/cache.go (Impl: Prepare, Find,
   isDirty, Save, Load/loadCachePkgs) over an explicit world (scripted
   fingerprint function, what `go list -export` reports, which export files
   can be opened, the bytes of the cache file).
   The guard of loadCachePkgs and the two hash sentinels come from
   GVGen.Tables, regenerated from /repo on every run. *)
From Coq Require Import List NArith ZArith Bool Lia.
From GV Require Import Lib.Bytes.
From GVGen Require Import Tables.
Import ListNotations.

Record entry := mkEntry { e_exp : str; e_hash : str; e_deps : list (str * str) }.
Definition cache := list (str * entry).

Fixpoint lookup {A} (k : str) (c : list (str * A)) : option A :=
  match c with
  | [] => None
  | (k', v) :: r => if str_eqb k k' then Some v else lookup k r
  end.
Fixpoint remove {A} (k : str) (c : list (str * A)) : list (str * A) :=
  match c with
  | [] => []
  | (k', v) :: r => if str_eqb k k' then remove k r else (k', v) :: remove k r
  end.
Definition store {A} (k : str) (v : A) (c : list (str * A)) := (k, v) :: remove k c.

(* ---------- the world ---------- *)
Record world := mkWorld {
  w_hash  : list ((str * bool) * str);       (* scripted PkgHash; see hash_of *)
  w_pkgs  : list (str * (str * list str));   (* go list: path -> (export file, deps) *)
  w_fail  : bool;                            (* the listing command fails *)
  w_files : list str;                        (* export files that can be opened *)
  w_disk  : option str                       (* bytes of the cache file *)
}.
Definition default_hash : str := [104; 48]%N. (* "h0" *)
Fixpoint hash_find (p : str) (self : bool) (t : list ((str * bool) * str)) : option str :=
  match t with
  | [] => None
  | ((p', s'), h) :: r => if str_eqb p p' && Bool.eqb self s' then Some h else hash_find p self r
  end.
Definition hash_of (w : world) (p : str) (self : bool) : str :=
  match hash_find p self (w_hash w) with Some h => h | None => default_hash end.
Definition file_ok (w : world) (f : str) : bool := existsb (str_eqb f) (w_files w).

Record state := mkState { st_c : cache; st_n : nat; st_w : world }.

(* ---------- Prepare / golistExport ---------- *)
Fixpoint golist (w : world) (ps : list str) : option (list (str * (str * list str))) :=
  match ps with
  | [] => Some []
  | p :: r => match lookup p (w_pkgs w), golist w r with
              | Some v, Some l => Some ((p, v) :: l)
              | _, _ => None
              end
  end.
Definition listing (w : world) (ps : list str) :=
  if w_fail w then None else
  match ps with [] => None | _ => golist w ps end.   (* `go list` of nothing: stub fails *)

Definition record_entry (w : world) (p : str) (v : str * list str) : entry :=
  mkEntry (fst v) (hash_of w p true)
    (filter (fun d => negb (str_eqb (snd d) HashSkip))
            (map (fun d => (d, hash_of w d false)) (snd v))).

Definition store_all (w : world) (l : list (str * (str * list str))) (c : cache) : cache :=
  fold_left (fun c pv => store (fst pv) (record_entry w (fst pv) (snd pv)) c) l c.

(* returns (ok, cache'); nlist is incremented by the caller in every case *)
Definition prepare (w : world) (ps : list str) (c : cache) : bool * cache :=
  match listing w ps with
  | None => (false, c)
  | Some l => (true, store_all w l c)
  end.

(* ---------- Find / isDirty ---------- *)
Definition dirty (w : world) (p : str) (e : entry) : bool :=
  str_eqb (e_hash e) HashInvalid
  || negb (str_eqb (hash_of w p true) (e_hash e))
  || existsb (fun d => negb (str_eqb (hash_of w (fst d) false) (snd d))) (e_deps e)
  || negb (file_ok w (e_exp e)).

Inductive fres := Served (exp : str) | FErr.

Definition find (s : state) (p : str) : state * fres :=
  let w := st_w s in
  let relist :=
    let n' := S (st_n s) in
    match prepare w [p] (st_c s) with
    | (false, c') => (mkState c' n' w, FErr)
    | (true, c') =>
      match lookup p c' with
      | Some e => (mkState c' n' w, if file_ok w (e_exp e) then Served (e_exp e) else FErr)
      | None => (mkState c' n' w, FErr)
      end
    end in
  match lookup p (st_c s) with
  | Some e => if dirty w p e then relist else (s, Served (e_exp e))
  | None => relist
  end.

(* ---------- Save ---------- *)
Definition save_dep (d : str * str) : str := TAB :: fst d ++ TAB :: snd d ++ [NL].
Definition save_entry (kv : str * entry) : str :=
  fst kv ++ TAB :: e_exp (snd kv) ++ TAB :: e_hash (snd kv) ++ TAB ::
  itoa (length (e_deps (snd kv))) ++ [NL] ++ flat_map save_dep (e_deps (snd kv)).
Definition save_bytes (c : cache) : str := flat_map save_entry c.

(* ---------- Load / loadCachePkgs ---------- *)
Inductive lres := LOk | LErr | LFault.

Definition parse_main (line : str) : option (str * str * str * str) :=
  match cut TAB line with
  | Some (a, r1) =>
    match cut TAB r1 with
    | Some (b, r2) =>
      match cut TAB r2 with
      | Some (c, d) => Some (a, b, c, d)
      | None => None
      end
    | None => None
    end
  | None => None
  end.

Definition parse_dep (line : str) : option (str * str) :=
  if has_prefix1 TAB line then
    match cut TAB (tl line) with
    | Some ([], _) => None                 (* pos <= 0 *)
    | Some (p, h) => Some (p, h)
    | None => None
    end
  else None.

Inductive dres := DOk (deps : list (str * str)) | DErr | DFault.
Fixpoint parse_deps (n : nat) (lines : list str) : dres :=
  match n with
  | 0 => DOk []
  | S n' =>
    match lines with
    | [] => DFault                         (* lines[i]: index out of range *)
    | l :: r =>
      match parse_dep l with
      | None => DErr
      | Some d => match parse_deps n' r with
                  | DOk ds => DOk (d :: ds)
                  | o => o
                  end
      end
    end
  end.

Definition max_cap : Z := 2 ^ 43.  (* make([]depPkg, 0, n) panics above maxAlloc/32 *)

Fixpoint load_lines (fuel : nat) (lines : list str) (c : cache) : lres * cache :=
  match lines with
  | [] => (LOk, c)
  | line :: rest =>
    match fuel with
    | 0 => (LFault, c)                     (* out of fuel: excluded by load_lines_fuel *)
    | S f =>
      match parse_main line with
      | None => (LErr, c)
      | Some (path, exp, h, cnt) =>
        match path with
        | [] => (LErr, c)
        | _ =>
          let a := atoi cnt in
          let n := match a with Some n => n | None => 0%Z end in
          let len := Z.of_nat (length lines) in
          if load_guard (match a with Some _ => false | None => true end) n len
          then (LErr, c)
          else if ((n <? 0) || (n >? max_cap))%Z then (LFault, c)
          else
            let k := Z.to_nat (Z.min n len) in
            match parse_deps k rest with
            | DErr => (LErr, c)
            | DFault => (LFault, c)
            | DOk deps =>
              if (len <? n + 1)%Z then (LFault, c)   (* lines[n+1:] out of range *)
              else load_lines f (skipn k rest) (store path (mkEntry exp h deps) c)
            end
        end
      end
    end
  end.

Definition load_bytes (b : str) (c : cache) : lres * cache :=
  match trimright NL b with
  | [] => (LOk, c)
  | b' => let lines := split NL b' in load_lines (length lines) lines c
  end.

Definition load (s : state) : state * lres :=
  match w_disk (st_w s) with
  | None => (s, LOk)
  | Some b => let '(r, c') := load_bytes b (st_c s) in (mkState c' (st_n s) (st_w s), r)
  end.

Definition set_disk (w : world) (d : option str) : world :=
  mkWorld (w_hash w) (w_pkgs w) (w_fail w) (w_files w) d.

Definition save (s : state) : state :=
  match st_n s with
  | 0 => s
  | _ => mkState (st_c s) (st_n s) (set_disk (st_w s) (Some (save_bytes (st_c s))))
  end.

(* ---------- operations and histories ---------- *)
Inductive op :=
| OFind (p : str) | OPrepare (ps : list str) | OSave | OLoad | ONew
| WSetHash (p : str) (self : bool) (h : str)
| WSetPkg (p : str) (exp : str) (deps : list str) | WDelPkg (p : str)
| WFail (b : bool) | WAddFile (f : str) | WDelFile (f : str) | WDisk (d : option str).

Inductive out :=
| RFind (r : fres) | RPrep (ok : bool) | RLoad (r : lres) | RNone.

Definition step (s : state) (o : op) : state * out :=
  let w := st_w s in
  let setw w' := mkState (st_c s) (st_n s) w' in
  match o with
  | OFind p => let '(s', r) := find s p in (s', RFind r)
  | OPrepare ps => let '(ok, c') := prepare w ps (st_c s) in
                   (mkState c' (S (st_n s)) w, RPrep ok)
  | OSave => (save s, RNone)
  | OLoad => let '(s', r) := load s in (s', RLoad r)
  | ONew => (mkState [] 0 w, RNone)
  | WSetHash p self h =>
      (setw (mkWorld (((p, self), h) :: w_hash w) (w_pkgs w) (w_fail w) (w_files w) (w_disk w)), RNone)
  | WSetPkg p e ds =>
      (setw (mkWorld (w_hash w) (store p (e, ds) (w_pkgs w)) (w_fail w) (w_files w) (w_disk w)), RNone)
  | WDelPkg p =>
      (setw (mkWorld (w_hash w) (remove p (w_pkgs w)) (w_fail w) (w_files w) (w_disk w)), RNone)
  | WFail b => (setw (mkWorld (w_hash w) (w_pkgs w) b (w_files w) (w_disk w)), RNone)
  | WAddFile f => (setw (mkWorld (w_hash w) (w_pkgs w) (w_fail w) (f :: w_files w) (w_disk w)), RNone)
  | WDelFile f =>
      (setw (mkWorld (w_hash w) (w_pkgs w) (w_fail w)
                     (filter (fun g => negb (str_eqb f g)) (w_files w)) (w_disk w)), RNone)
  | WDisk d => (setw (set_disk w d), RNone)
  end.

Definition init_world : world := mkWorld [] [] false [] None.
Definition init : state := mkState [] 0 init_world.

Fixpoint run (s : state) (ops : list op) : state * list out :=
  match ops with
  | [] => (s, [])
  | o :: r => let '(s', x) := step s o in
              let '(s'', xs) := run s' r in (s'', x :: xs)
  end.

(* ---------- correspondence check (K1) ---------- *)
(* What the harness observed on the real code after each operation. *)
Inductive obs :=
| BServed (exp : str) | BFindErr | BPrep (ok : bool)
| BLoad (ok : bool) | BFault            (* a recovered run-time panic *)
| BSaved (blocks : option (list str))   (* entry blocks of the file Save wrote *)
| BNone.

Definition blocks_same (m o : list str) : bool :=
  Nat.eqb (length m) (length o) && forallb (fun b => existsb (str_eqb b) o) m.

Definition obs_ok (s' : state) (x : out) (b : obs) : bool :=
  match x, b with
  | RFind (Served e), BServed e' => str_eqb e e'
  | RFind FErr, BFindErr => true
  | RPrep a, BPrep a' => Bool.eqb a a'
  | RLoad LOk, BLoad true => true
  | RLoad LErr, BLoad false => true
  | RLoad LFault, BFault => true
  | RNone, BNone => true
  | RNone, BSaved None => match st_n s' with 0 => true | _ => false end
  | RNone, BSaved (Some bl) =>
      match st_n s' with 0 => false | _ => blocks_same (map save_entry (st_c s')) bl end
  | _, _ => false
  end.

(* returns the indices of operations whose observable result or ListTimes differ *)
Fixpoint check_from (i : nat) (s : state) (h : list (op * obs * nat)) : list nat :=
  match h with
  | [] => []
  | (o, b, n) :: r =>
    let '(s', x) := step s o in
    let bad := negb (obs_ok s' x b && Nat.eqb (st_n s') n) in
    (if bad then [i] else []) ++ check_from (S i) s' r
  end.
Definition check_history (h : list (op * obs * nat)) : list nat := check_from 0 init h.

(* indices of histories in which something differs, with the first differing op *)
Fixpoint mismatches_from (i : nat) (hs : list (list (op * obs * nat))) : list (nat * nat) :=
  match hs with
  | [] => []
  | h :: r => match check_history h with
              | [] => mismatches_from (S i) r
              | j :: _ => (i, j) :: mismatches_from (S i) r
              end
  end.
Definition mismatches hs := mismatches_from 0 hs.
