From Coq Require Import List NArith ZArith Bool Lia.
From GV Require Import Lib.Bytes C20.Model.
From GVGen Require Import Tables.
Import ListNotations.

(* ------------------------------------------------------------------ *)
(* Obligations on the regenerated guard of loadCachePkgs               *)
(* ------------------------------------------------------------------ *)
Lemma guard_sound n len : load_guard false n len = false -> (0 <= n < len)%Z.
Proof. unfold load_guard. intros H. lia. Qed.

Lemma guard_complete n len : (0 <= n < len)%Z -> load_guard false n len = false.
Proof. unfold load_guard. intros H. lia. Qed.

Lemma guard_err n len : load_guard true n len = true.
Proof. unfold load_guard. reflexivity. Qed.

(* ------------------------------------------------------------------ *)
(* maps                                                                *)
(* ------------------------------------------------------------------ *)
Lemma lookup_remove_eq {A} k (c : list (str * A)) : lookup k (remove k c) = None.
Proof.
  induction c as [|[k' v] c IH]; cbn [remove lookup]; [reflexivity|].
  destruct (str_eqb k k') eqn:E; [exact IH|]. cbn [lookup]. now rewrite E.
Qed.

Lemma lookup_remove_neq {A} k k' (c : list (str * A)) :
  k <> k' -> lookup k (remove k' c) = lookup k c.
Proof.
  intros Hn; induction c as [|[k2 v] c IH]; cbn [remove lookup]; [reflexivity|].
  destruct (str_eqb_spec k' k2) as [->|H2].
  - apply str_eqb_neq in Hn. now rewrite Hn.
  - cbn [lookup]. now rewrite IH.
Qed.

Lemma lookup_store {A} k k' (v : A) c :
  lookup k (store k' v c) = if str_eqb k k' then Some v else lookup k c.
Proof.
  unfold store; cbn [lookup]. destruct (str_eqb_spec k k') as [->|Hn]; [reflexivity|].
  now apply lookup_remove_neq.
Qed.

Lemma lookup_not_in {A} k (c : list (str * A)) : ~ In k (map fst c) -> lookup k c = None.
Proof.
  induction c as [|[k' v] c IH]; cbn [map fst lookup In]; intros H; [reflexivity|].
  destruct (str_eqb_spec k k') as [->|Hn]; [tauto|]. apply IH; tauto.
Qed.

Definition store_kv (acc : cache) (kv : str * entry) : cache := store (fst kv) (snd kv) acc.

Lemma lookup_fold_store k (c c0 : cache) :
  NoDup (map fst c) ->
  lookup k (fold_left store_kv c c0) =
  match lookup k c with Some v => Some v | None => lookup k c0 end.
Proof.
  revert c0; induction c as [|[k1 v1] c IH]; intros c0 Hnd; cbn [fold_left lookup]; [reflexivity|].
  cbn [map fst] in Hnd. inversion Hnd as [|? ? Hnotin Hnd']; subst.
  rewrite IH by exact Hnd'. unfold store_kv; cbn [fst snd].
  destruct (str_eqb_spec k k1) as [->|Hn].
  - rewrite (lookup_not_in _ _ Hnotin), lookup_store, str_eqb_refl. reflexivity.
  - destruct (lookup k c); [reflexivity|]. rewrite lookup_store.
    apply str_eqb_neq in Hn. now rewrite Hn.
Qed.

(* ------------------------------------------------------------------ *)
(* Find                                                                *)
(* ------------------------------------------------------------------ *)
Definition fresh (w : world) (p : str) (e : entry) : Prop :=
  e_hash e <> HashInvalid /\
  hash_of w p true = e_hash e /\
  (forall d, In d (e_deps e) -> hash_of w (fst d) false = snd d) /\
  file_ok w (e_exp e) = true.

Lemma dirty_false_fresh w p e : dirty w p e = false <-> fresh w p e.
Proof.
  unfold dirty, fresh. rewrite !orb_false_iff, !negb_false_iff, !str_eqb_eq, str_eqb_neq.
  split.
  - intros [[[H1 H2] H3] H4]. repeat split; auto.
    intros d Hd. destruct (str_eqb_spec (hash_of w (fst d) false) (snd d)) as [E|N]; [exact E|].
    exfalso. assert (existsb (fun d => negb (str_eqb (hash_of w (fst d) false) (snd d))) (e_deps e) = true).
    { apply existsb_exists. exists d; split; [exact Hd|]. apply negb_true_iff. now apply str_eqb_neq. }
    congruence.
  - intros (H1 & H2 & H3 & H4). repeat split; auto.
    destruct (existsb _ (e_deps e)) eqn:E; [|reflexivity].
    apply existsb_exists in E as (d & Hd & Hx). apply negb_true_iff, str_eqb_neq in Hx.
    exfalso; apply Hx, H3, Hd.
Qed.

Lemma golist_single w p : golist w [p] =
  match lookup p (w_pkgs w) with Some v => Some [(p, v)] | None => None end.
Proof. cbn [golist]. destruct (lookup p (w_pkgs w)); reflexivity. Qed.

Lemma prepare_single w p c :
  prepare w [p] c =
  if w_fail w then (false, c) else
  match lookup p (w_pkgs w) with
  | Some v => (true, store p (record_entry w p v) c)
  | None => (false, c)
  end.
Proof.
  unfold prepare, listing. destruct (w_fail w); [reflexivity|].
  rewrite golist_single. destruct (lookup p (w_pkgs w)); reflexivity.
Qed.

Definition must_relist (s : state) (p : str) : Prop :=
  lookup p (st_c s) = None \/ exists e, lookup p (st_c s) = Some e /\ dirty (st_w s) p e = true.

(* What a successful relisting inside Find does *)
Definition relisted (s s' : state) (p x : str) : Prop :=
  st_n s' = S (st_n s) /\ st_w s' = st_w s /\ w_fail (st_w s) = false /\
  exists v, lookup p (w_pkgs (st_w s)) = Some v /\ x = fst v /\
            file_ok (st_w s) x = true /\
            st_c s' = store p (record_entry (st_w s) p v) (st_c s).

Lemma find_served s p s' x :
  find s p = (s', Served x) ->
  (s' = s /\ exists e, lookup p (st_c s) = Some e /\ fresh (st_w s) p e /\ x = e_exp e)
  \/ (must_relist s p /\ relisted s s' p x).
Proof.
  unfold find. rewrite prepare_single.
  set (rel := match (if w_fail (st_w s) then (false, st_c s) else _) with (false, c') => _ | (true, c') => _ end).
  assert (Hrel : rel = (s', Served x) -> must_relist s p -> relisted s s' p x).
  { subst rel. destruct (w_fail (st_w s)) eqn:Ef; [discriminate|].
    destruct (lookup p (w_pkgs (st_w s))) as [v|] eqn:Ev; [|discriminate].
    rewrite lookup_store, str_eqb_refl. cbn [record_entry e_exp].
    destruct (file_ok (st_w s) (fst v)) eqn:Eo; [|discriminate].
    intros H _. inversion H; subst. unfold relisted; cbn [st_n st_w st_c].
    repeat split; auto. exists v. repeat split; auto. }
  destruct (lookup p (st_c s)) as [e|] eqn:El.
  - destruct (dirty (st_w s) p e) eqn:Ed.
    + intros H. right. assert (must_relist s p) by (right; eauto). split; auto.
    + intros H. inversion H; subst. left. split; [reflexivity|].
      exists e. split; [reflexivity|]. split; [now apply dirty_false_fresh|reflexivity].
  - intros H. right. assert (must_relist s p) by (left; auto). split; auto.
Qed.

Lemma find_clean s p e :
  lookup p (st_c s) = Some e -> fresh (st_w s) p e -> find s p = (s, Served (e_exp e)).
Proof.
  intros El Hf. apply dirty_false_fresh in Hf. unfold find. now rewrite El, Hf.
Qed.

Lemma find_relists s p : must_relist s p -> st_n (fst (find s p)) = S (st_n s).
Proof.
  intros Hm. unfold find.
  destruct Hm as [Hn | (e & He & Hd)].
  - rewrite Hn. destruct (prepare (st_w s) [p] (st_c s)) as [[|] c']; cbn;
      [destruct (lookup p c')|]; reflexivity.
  - rewrite He, Hd. destruct (prepare (st_w s) [p] (st_c s)) as [[|] c']; cbn;
      [destruct (lookup p c')|]; reflexivity.
Qed.

Lemma find_failed_listing s p :
  must_relist s p -> w_fail (st_w s) = true ->
  snd (find s p) = FErr /\ st_c (fst (find s p)) = st_c s.
Proof.
  intros Hm Hf. unfold find. rewrite prepare_single, Hf.
  destruct Hm as [Hn | (e & He & Hd)]; [rewrite Hn | rewrite He, Hd]; cbn; auto.
Qed.

Lemma find_unlisted_pkg s p :
  must_relist s p -> lookup p (w_pkgs (st_w s)) = None -> snd (find s p) = FErr.
Proof.
  intros Hm Hf. unfold find. rewrite prepare_single, Hf.
  destruct Hm as [Hn | (e & He & Hd)]; [rewrite Hn | rewrite He, Hd];
    destruct (w_fail (st_w s)); reflexivity.
Qed.

(* ------------------------------------------------------------------ *)
(* Load: no run-time fault                                             *)
(* ------------------------------------------------------------------ *)
Lemma parse_deps_no_fault k lines : k <= length lines -> parse_deps k lines <> DFault.
Proof.
  revert lines; induction k as [|k IH]; intros lines Hk; cbn [parse_deps]; [discriminate|].
  destruct lines as [|l r]; [cbn in Hk; lia|].
  destruct (parse_dep l); [|discriminate].
  cbn [length] in Hk. specialize (IH r ltac:(lia)).
  destruct (parse_deps k r); congruence.
Qed.

Lemma load_lines_no_fault fuel lines c :
  length lines <= fuel -> (Z.of_nat (length lines) <= max_cap)%Z ->
  fst (load_lines fuel lines c) <> LFault.
Proof.
  revert lines c; induction fuel as [|f IH]; intros lines c Hf Hcap.
  - destruct lines; [cbn; discriminate|cbn in Hf; lia].
  - destruct lines as [|line rest]; [cbn; discriminate|].
    cbn [load_lines].
    destruct (parse_main line) as [[[[path exp] h] cnt]|]; [|cbn; discriminate].
    destruct path as [|p0 path]; [cbn; discriminate|].
    set (len := Z.of_nat (length (line :: rest))) in *.
    destruct (atoi cnt) as [n|].
    2:{ rewrite guard_err. cbn; discriminate. }
    destruct (load_guard false n len) eqn:Eg; [cbn; discriminate|].
    apply guard_sound in Eg.
    assert ((n <? 0)%Z = false) as -> by lia.
    assert ((n >? max_cap)%Z = false) as -> by lia.
    cbn [orb].
    assert (Hk : Z.to_nat (Z.min n len) <= length rest).
    { subst len. cbn [length] in *. lia. }
    pose proof (parse_deps_no_fault _ _ Hk) as Hd.
    destruct (parse_deps (Z.to_nat (Z.min n len)) rest) as [deps| |]; [|cbn; discriminate|congruence].
    assert ((len <? n + 1)%Z = false) as -> by lia.
    apply IH.
    + rewrite skipn_length. cbn [length] in Hf. lia.
    + rewrite skipn_length. subst len. cbn [length] in Hcap. lia.
Qed.

(* ------------------------------------------------------------------ *)
(* Save / Load round trip                                              *)
(* ------------------------------------------------------------------ *)
Definition clean_str (s : str) : Prop := has TAB s = false /\ has NL s = false.
Definition wf_dep (d : str * str) : Prop :=
  clean_str (fst d) /\ fst d <> [] /\ has NL (snd d) = false.
Definition wf_entry (kv : str * entry) : Prop :=
  clean_str (fst kv) /\ fst kv <> [] /\ clean_str (e_exp (snd kv)) /\
  clean_str (e_hash (snd kv)) /\ Forall wf_dep (e_deps (snd kv)) /\
  (Z.of_nat (length (e_deps (snd kv))) <= max_cap)%Z.

Definition main_line (kv : str * entry) : str :=
  fst kv ++ TAB :: e_exp (snd kv) ++ TAB :: e_hash (snd kv) ++ TAB ::
  itoa (length (e_deps (snd kv))).
Definition dep_line (d : str * str) : str := TAB :: fst d ++ TAB :: snd d.
Definition entry_lines (kv : str * entry) : list str :=
  main_line kv :: map dep_line (e_deps (snd kv)).
Definition all_lines (c : cache) : list str := flat_map entry_lines c.
Definition unlines (l : list str) : str := flat_map (fun a => a ++ [NL]) l.

Lemma save_deps_lines ds : flat_map save_dep ds = unlines (map dep_line ds).
Proof.
  induction ds as [|d ds IH]; [reflexivity|]. unfold unlines in *.
  cbn [flat_map map]. rewrite IH. unfold save_dep, dep_line.
  repeat (rewrite <- app_assoc || cbn [List.app]). reflexivity.
Qed.

Lemma save_entry_lines kv : save_entry kv = unlines (entry_lines kv).
Proof.
  unfold save_entry, entry_lines, main_line, unlines. cbn [flat_map].
  rewrite save_deps_lines. unfold unlines.
  repeat (rewrite <- app_assoc || cbn [List.app]). reflexivity.
Qed.

Lemma save_bytes_lines c : save_bytes c = unlines (all_lines c).
Proof.
  unfold save_bytes, all_lines, unlines.
  induction c as [|kv c IH]; cbn [flat_map]; [reflexivity|].
  rewrite IH, save_entry_lines. unfold unlines. now rewrite flat_map_app.
Qed.

Lemma trimright_id c s : has c s = false -> trimright c s = s.
Proof.
  induction s as [|x s IH]; intros H; [reflexivity|].
  cbn [has existsb] in H. apply orb_false_iff in H as [H1 H2].
  cbn [trimright]. unfold has in IH. rewrite (IH H2).
  destruct s; [|reflexivity]. rewrite N.eqb_sym, H1. reflexivity.
Qed.

Lemma trimright_app_nonempty c x y :
  trimright c y <> [] -> trimright c (x ++ y) = x ++ trimright c y.
Proof.
  intros Hy; induction x as [|a x IH]; cbn [List.app trimright]; [reflexivity|].
  rewrite IH. destruct (x ++ trimright c y) eqn:E; [|reflexivity].
  apply app_eq_nil in E as [_ E]. congruence.
Qed.

Lemma join_nonempty c l : l <> [] -> Forall (fun a => a <> []) l -> join c l <> [].
Proof.
  intros Hne Hall. destruct l as [|a l]; [congruence|].
  inversion Hall; subst. destruct l; cbn [join]; [assumption|].
  destruct a; [congruence|discriminate].
Qed.

Lemma trimright_unlines l :
  l <> [] -> Forall (fun a => has NL a = false) l -> Forall (fun a => a <> []) l ->
  trimright NL (unlines l) = join NL l.
Proof.
  induction l as [|a l IH]; intros Hne Hnl Hnn; [congruence|].
  inversion Hnl as [|? ? Ha Hl]; inversion Hnn as [|? ? Ha' Hl']; subst.
  destruct l as [|b l].
  - unfold unlines; cbn [flat_map join]. rewrite app_nil_r, trimright_app_sep.
    now apply trimright_id.
  - change (unlines (a :: b :: l)) with ((a ++ [NL]) ++ unlines (b :: l)).
    assert (Hr : trimright NL (unlines (b :: l)) = join NL (b :: l))
      by (apply IH; [discriminate|assumption|assumption]).
    rewrite trimright_app_nonempty.
    + rewrite Hr. change (join NL (a :: b :: l)) with (a ++ NL :: join NL (b :: l)).
      now rewrite <- app_assoc.
    + rewrite Hr. apply join_nonempty; [discriminate|assumption].
Qed.

Lemma has_app c a b : has c (a ++ b) = has c a || has c b.
Proof. unfold has. apply existsb_app. Qed.

Lemma has_cons c x a : has c (x :: a) = N.eqb c x || has c a.
Proof. reflexivity. Qed.

Lemma main_line_ok kv : wf_entry kv -> has NL (main_line kv) = false /\ main_line kv <> [].
Proof.
  intros ((_ & Hk) & Hk0 & (_ & He) & (_ & Hh) & _). split.
  - unfold main_line. repeat (rewrite has_app || rewrite has_cons).
    rewrite Hk, He, Hh, (itoa_no_byte _ NL) by (unfold NL; lia). reflexivity.
  - unfold main_line. destruct (fst kv); [congruence|discriminate].
Qed.

Lemma dep_line_ok d : wf_dep d -> has NL (dep_line d) = false /\ dep_line d <> [].
Proof.
  intros ((_ & Hp) & _ & Hh). split; [|discriminate].
  unfold dep_line. rewrite has_cons, has_app, has_cons, Hp, Hh. reflexivity.
Qed.

Lemma all_lines_ok c :
  Forall wf_entry c ->
  Forall (fun a => has NL a = false) (all_lines c) /\ Forall (fun a => a <> []) (all_lines c).
Proof.
  induction 1 as [|kv c Hkv Hc [IH1 IH2]]; [split; constructor|].
  unfold all_lines; cbn [flat_map]. fold (all_lines c).
  destruct (main_line_ok kv Hkv) as [M1 M2].
  assert (D : Forall (fun a => has NL a = false) (map dep_line (e_deps (snd kv))) /\
              Forall (fun a => a <> []) (map dep_line (e_deps (snd kv)))).
  { destruct Hkv as (_ & _ & _ & _ & Hd & _).
    induction Hd as [|d ds Hd Hds [I1 I2]]; [split; constructor|].
    destruct (dep_line_ok d Hd). split; constructor; auto. }
  destruct D as [D1 D2].
  split; unfold entry_lines; (constructor; [assumption|]); apply Forall_app; split; assumption.
Qed.

Lemma parse_main_line kv :
  wf_entry kv ->
  parse_main (main_line kv) =
  Some (fst kv, e_exp (snd kv), e_hash (snd kv), itoa (length (e_deps (snd kv)))).
Proof.
  intros ((Hk & _) & _ & (He & _) & (Hh & _) & _).
  unfold parse_main, main_line.
  rewrite cut_app by exact Hk. rewrite cut_app by exact He. rewrite cut_app by exact Hh.
  reflexivity.
Qed.

Lemma parse_dep_line d : wf_dep d -> parse_dep (dep_line d) = Some d.
Proof.
  intros ((Hp & _) & Hne & _). unfold parse_dep, dep_line.
  cbn [has_prefix1 tl]. unfold TAB at 1 2. cbn [N.eqb Pos.eqb].
  rewrite cut_app by exact Hp. destruct d as [p h]; cbn [fst snd] in *.
  destruct p; [congruence|reflexivity].
Qed.

Lemma parse_deps_lines ds rest :
  Forall wf_dep ds -> parse_deps (length ds) (map dep_line ds ++ rest) = DOk ds.
Proof.
  induction 1 as [|d ds Hd Hds IH]; [reflexivity|].
  cbn [length map List.app parse_deps]. rewrite parse_dep_line by exact Hd. now rewrite IH.
Qed.

Lemma skipn_app_exact {A} (l r : list A) : skipn (length l) (l ++ r) = r.
Proof. induction l; cbn; auto. Qed.

Lemma max_cap_le_int64 : (max_cap <= max_int64)%Z.
Proof. unfold max_cap, max_int64. cbn. lia. Qed.

Lemma load_entry f kv rest c0 :
  wf_entry kv ->
  load_lines (S f) (entry_lines kv ++ rest) c0 =
  load_lines f rest (store_kv c0 kv).
Proof.
  intros Hwf. pose proof Hwf as (_ & Hk0 & _ & _ & Hds & Hcap).
  unfold entry_lines. cbn [List.app load_lines].
  rewrite parse_main_line by exact Hwf.
  destruct (fst kv) as [|k0 k] eqn:Ek; [congruence|].
  rewrite atoi_itoa by (pose proof max_cap_le_int64; lia).
  set (n := Z.of_nat (length (e_deps (snd kv)))).
  set (len := Z.of_nat (length (main_line kv :: map dep_line (e_deps (snd kv)) ++ rest))).
  assert (Hlen : (len = 1 + n + Z.of_nat (length rest))%Z).
  { subst len n. cbn [length]. rewrite app_length, map_length. lia. }
  rewrite guard_complete by lia.
  assert ((n <? 0)%Z = false) as -> by lia.
  assert ((n >? max_cap)%Z = false) as -> by lia.
  cbn [orb].
  assert (Z.to_nat (Z.min n len) = length (e_deps (snd kv))) as -> by (subst n; lia).
  rewrite parse_deps_lines by exact Hds.
  assert ((len <? n + 1)%Z = false) as -> by lia.
  rewrite <- (map_length dep_line) at 1. rewrite skipn_app_exact.
  unfold store_kv. rewrite Ek. destruct kv as [k' [ex hs ds]]; reflexivity.
Qed.

Lemma load_all c c0 fuel :
  Forall wf_entry c -> length c <= fuel ->
  load_lines fuel (all_lines c) c0 = (LOk, fold_left store_kv c c0).
Proof.
  revert c0 fuel; induction c as [|kv c IH]; intros c0 fuel Hwf Hf.
  - destruct fuel; reflexivity.
  - inversion Hwf; subst. destruct fuel as [|f]; [cbn in Hf; lia|].
    unfold all_lines; cbn [flat_map]. fold (all_lines c).
    rewrite load_entry by assumption. cbn [fold_left]. apply IH; [assumption|cbn in Hf; lia].
Qed.

Lemma all_lines_length c : length c <= length (all_lines c).
Proof.
  induction c as [|kv c IH]; [cbn; lia|].
  unfold all_lines; cbn [flat_map]. fold (all_lines c).
  unfold entry_lines. cbn [List.app length]. rewrite app_length. lia.
Qed.

Lemma load_save_bytes c c0 :
  Forall wf_entry c ->
  load_bytes (save_bytes c) c0 = (LOk, fold_left store_kv c c0).
Proof.
  intros Hwf. unfold load_bytes. rewrite save_bytes_lines.
  destruct c as [|kv c]; [reflexivity|].
  destruct (all_lines_ok _ Hwf) as [A1 A2].
  assert (Hne : all_lines (kv :: c) <> []) by (unfold all_lines, entry_lines; cbn; discriminate).
  rewrite trimright_unlines by assumption.
  pose proof (join_nonempty NL _ Hne A2) as Hj.
  destruct (join NL (all_lines (kv :: c))) eqn:E; [congruence|]. rewrite <- E.
  rewrite split_join by assumption.
  apply load_all; [assumption|apply all_lines_length].
Qed.

(* ------------------------------------------------------------------ *)
(* histories                                                           *)
(* ------------------------------------------------------------------ *)
Definition after (ops : list op) : state := fst (run init ops).

Lemma step_find s p : step s (OFind p) = (fst (find s p), RFind (snd (find s p))).
Proof. cbn [step]. destruct (find s p); reflexivity. Qed.

Lemma split_fuel_length f c s : length (split_fuel f c s) <= S (length s).
Proof.
  revert s; induction f as [|f IH]; intros s; cbn [split_fuel].
  - destruct (cut c s) as [[a b]|]; cbn; lia.
  - destruct (cut c s) as [[a b]|] eqn:E; [|cbn; lia].
    apply cut_length in E. cbn [length]. specialize (IH b). lia.
Qed.

Lemma trimright_length c s : length (trimright c s) <= length s.
Proof.
  induction s as [|x s IH]; cbn [trimright length]; [lia|].
  destruct (trimright c s); [destruct (N.eqb x c); cbn; lia|cbn [length] in *; lia].
Qed.

Lemma load_bytes_no_fault b c :
  (Z.of_nat (length b) < max_cap)%Z -> fst (load_bytes b c) <> LFault.
Proof.
  intros Hb. unfold load_bytes.
  pose proof (trimright_length NL b) as Ht.
  destruct (trimright NL b) as [|x r] eqn:E; [cbn; discriminate|].
  apply load_lines_no_fault; [lia|].
  unfold split. pose proof (split_fuel_length (length (x :: r)) NL (x :: r)). lia.
Qed.

Lemma load_save_lookup c k :
  Forall wf_entry c -> NoDup (map fst c) ->
  fst (load_bytes (save_bytes c) []) = LOk /\
  lookup k (snd (load_bytes (save_bytes c) [])) = lookup k c.
Proof.
  intros Hwf Hnd. rewrite load_save_bytes by exact Hwf. cbn [fst snd]. split; [reflexivity|].
  rewrite lookup_fold_store by exact Hnd. destruct (lookup k c); reflexivity.
Qed.
