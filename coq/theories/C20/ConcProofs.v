(* C20 — concurrent lookups: every interleaving of any number of Find calls over
   a quiescent world gives every caller exactly the result of a sequential
   Find, keeps the cache coherent, and does not list when nothing is dirty. *)
From Coq Require Import List NArith ZArith Bool Lia.
From GV Require Import Lib.Bytes C20.Model C20.Proofs C20.Conc.
From GVGen Require Import Tables.
Import ListNotations.

Section Fixed.
Variables (w : world) (c0 : cache) (n0 : nat).
Let s0 := mkState c0 n0 w.

Definition R (p : str) : Prop := must_relist s0 p.
Definition recd (p : str) (e : entry) : Prop :=
  w_fail w = false /\ exists v, lookup p (w_pkgs w) = Some v /\ e = record_entry w p v.
Definition ok_entry (p : str) (e : entry) : Prop :=
  lookup p c0 = Some e \/ (R p /\ recd p e).
Definition seqres (p : str) : fres := snd (find s0 p).

Definition rec_deps (l : list str) : list (str * str) :=
  filter (fun d => negb (str_eqb (snd d) HashSkip)) (map (fun d => (d, hash_of w d false)) l).
Definition deps_ok (ds : list (str * str)) : Prop :=
  forallb (fun d => str_eqb (hash_of w (fst d) false) (snd d)) ds = true.

Lemma record_entry_eq p v :
  record_entry w p v = mkEntry (fst v) (hash_of w p true) (rec_deps (snd v)).
Proof. reflexivity. Qed.

(* ---- the sequential result ---- *)
Lemma seq_clean p e : lookup p c0 = Some e -> dirty w p e = false -> seqres p = Served (e_exp e).
Proof.
  intros Hl Hd. unfold seqres. apply dirty_false_fresh in Hd.
  now rewrite (find_clean s0 p e Hl Hd).
Qed.

Lemma seq_relist_fail p : R p -> listing w [p] = None -> seqres p = FErr.
Proof.
  intros Hr Hl. unfold seqres, find, prepare. cbn [st_w st_c s0]. rewrite Hl.
  destruct Hr as [Hn | (e & He & Hd)]; cbn [st_c st_w s0] in *; [rewrite Hn | rewrite He, Hd]; reflexivity.
Qed.

Lemma seq_relist_ok p e : R p -> recd p e ->
  seqres p = if file_ok w (e_exp e) then Served (e_exp e) else FErr.
Proof.
  intros Hr (Hf & v & Hv & ->). unfold seqres, find. rewrite prepare_single. cbn [st_w st_c s0].
  rewrite Hf, Hv, lookup_store, str_eqb_refl.
  destruct Hr as [Hn | (e & He & Hd)]; cbn [st_c st_w s0] in *; [rewrite Hn | rewrite He, Hd];
    destruct (file_ok w (e_exp (record_entry w p v))); reflexivity.
Qed.

Lemma ok_dirty_R p e : ok_entry p e -> dirty w p e = true -> R p.
Proof. intros [Hl | [Hr _]] Hd; [right; exists e; split; assumption | exact Hr]. Qed.

Lemma listing_single p :
  listing w [p] = if w_fail w then None else
                  match lookup p (w_pkgs w) with Some v => Some [(p, v)] | None => None end.
Proof. unfold listing. destruct (w_fail w); [reflexivity|]. apply golist_single. Qed.

(* ---- invariants ---- *)
Definition tinv (c : cache) (p : str) (k : pc) : Prop :=
  match k with
  | PStart => True
  | PSelf e => ok_entry p e /\ str_eqb (e_hash e) HashInvalid = false
  | PDeps e ds =>
      ok_entry p e /\ str_eqb (e_hash e) HashInvalid = false /\
      str_eqb (hash_of w p true) (e_hash e) = true /\
      exists pre, e_deps e = pre ++ ds /\ deps_ok pre
  | POpen1 e =>
      ok_entry p e /\ str_eqb (e_hash e) HashInvalid = false /\
      str_eqb (hash_of w p true) (e_hash e) = true /\ deps_ok (e_deps e)
  | PInc | PList => R p
  | PRecSelf v => R p /\ w_fail w = false /\ lookup p (w_pkgs w) = Some v
  | PRecDeps exp hs todo acc =>
      R p /\ w_fail w = false /\ exists v, lookup p (w_pkgs w) = Some v /\
      exp = fst v /\ hs = hash_of w p true /\ acc ++ rec_deps todo = rec_deps (snd v)
  | PStore e | POpen2 e => R p /\ recd p e
  | PLoad2 => R p /\ exists e, recd p e /\ lookup p c = Some e
  | PDone r => r = seqres p
  end.

Definition cinv (c : cache) : Prop :=
  forall q, lookup q c = lookup q c0 \/ (R q /\ exists e, recd q e /\ lookup q c = Some e).

Lemma existsb_app {A} (f : A -> bool) a b : existsb f (a ++ b) = existsb f a || existsb f b.
Proof. induction a as [|x a IH]; cbn; [reflexivity|]. now rewrite IH, orb_assoc. Qed.

Lemma forallb_app' {A} (f : A -> bool) a b : forallb f (a ++ b) = forallb f a && forallb f b.
Proof. induction a as [|x a IH]; cbn; [reflexivity|]. now rewrite IH, andb_assoc. Qed.

Lemma deps_ok_not_exists ds : deps_ok ds ->
  existsb (fun d => negb (str_eqb (hash_of w (fst d) false) (snd d))) ds = false.
Proof.
  unfold deps_ok. induction ds as [|d ds IH]; cbn; [reflexivity|].
  intros H. apply andb_true_iff in H as [H1 H2]. now rewrite H1, IH.
Qed.

(* the step of one thread keeps its own invariant and the cache invariant *)
Lemma tstep_inv p c n k c' n' k' :
  cinv c -> tinv c p k -> tstep w p c n k = (c', n', k') ->
  tinv c' p k' /\ cinv c' /\
  (c' = c \/ exists e, recd p e /\ R p /\ c' = store p e c).
Proof.
  intros Hc Hk Hs. destruct k as [|e|e ds|e| | |v|exp hs todo acc|e| |e|r]; cbn [tstep tinv] in *.
  - (* PStart *)
    destruct (lookup p c) as [e|] eqn:El.
    + assert (Hok : ok_entry p e).
      { destruct (Hc p) as [H | (Hr & e' & He' & H)].
        - left. congruence.
        - right. rewrite El in H. inversion H; subst. auto. }
      destruct (str_eqb (e_hash e) HashInvalid) eqn:Ei; inversion Hs; subst; cbn [tinv].
      * split; [|auto]. apply (ok_dirty_R p e Hok). unfold dirty. now rewrite Ei.
      * auto.
    + inversion Hs; subst; cbn [tinv]. split; [|auto].
      destruct (Hc p) as [H | (Hr & _)]; [left; cbn; congruence | exact Hr].
  - (* PSelf *)
    destruct Hk as [Hok Hi].
    destruct (str_eqb (hash_of w p true) (e_hash e)) eqn:Eh; inversion Hs; subst; cbn [tinv].
    + split; [|auto]. repeat split; auto. exists []. split; reflexivity.
    + split; [|auto]. apply (ok_dirty_R p e Hok). unfold dirty. rewrite Eh. cbn. now rewrite orb_true_r.
  - (* PDeps *)
    destruct Hk as (Hok & Hi & Hh & pre & Hpre & Hdo).
    destruct ds as [|d ds].
    + inversion Hs; subst; cbn [tinv]. split; [|auto]. repeat split; auto.
      rewrite app_nil_r in Hpre. now rewrite Hpre.
    + destruct (str_eqb (hash_of w (fst d) false) (snd d)) eqn:Ed; inversion Hs; subst; cbn [tinv].
      * split; [|auto]. repeat split; auto. exists (pre ++ [d]). split.
        -- now rewrite <- app_assoc.
        -- unfold deps_ok in *. rewrite forallb_app', Hdo. cbn. now rewrite Ed.
      * split; [|auto]. apply (ok_dirty_R p e Hok). unfold dirty.
        rewrite Hpre, existsb_app. cbn [existsb]. rewrite Ed. cbn.
        now rewrite !orb_true_r.
  - (* POpen1 *)
    destruct Hk as (Hok & Hi & Hh & Hdo).
    assert (Hd : dirty w p e = negb (file_ok w (e_exp e))).
    { unfold dirty. now rewrite Hi, Hh, (deps_ok_not_exists _ Hdo). }
    destruct (file_ok w (e_exp e)) eqn:Ef; inversion Hs; subst; cbn [tinv].
    + split; [|auto]. destruct Hok as [Hl | [Hr Hrec]].
      * symmetry. now apply seq_clean.
      * rewrite (seq_relist_ok p e Hr Hrec), Ef. reflexivity.
    + split; [|auto]. now apply (ok_dirty_R p e Hok).
  - (* PInc *) inversion Hs; subst; cbn [tinv]. auto.
  - (* PList *)
    rewrite listing_single in Hs.
    destruct (w_fail w) eqn:Ef.
    + inversion Hs; subst; cbn [tinv]. split; [|auto].
      symmetry. apply seq_relist_fail; [exact Hk|]. now rewrite listing_single, Ef.
    + destruct (lookup p (w_pkgs w)) as [v|] eqn:Ev; inversion Hs; subst; cbn [tinv snd].
      * auto.
      * split; [|auto]. symmetry. apply seq_relist_fail; [exact Hk|]. now rewrite listing_single, Ef, Ev.
  - (* PRecSelf *)
    destruct Hk as (Hr & Hf & Hv). inversion Hs; subst; cbn [tinv]. split; [|auto].
    repeat split; auto. exists v. repeat split; auto.
  - (* PRecDeps *)
    destruct Hk as (Hr & Hf & v & Hv & -> & -> & Hacc).
    destruct todo as [|d todo]; inversion Hs; subst; cbn [tinv].
    + split; [|auto]. split; [exact Hr|]. split; [exact Hf|]. exists v. split; [exact Hv|].
      rewrite record_entry_eq. cbn [rec_deps map filter] in Hacc. rewrite app_nil_r in Hacc.
      now rewrite Hacc.
    + split; [|auto]. repeat split; auto. exists v. repeat split; auto.
      rewrite <- Hacc. unfold rec_deps at 2. cbn [map filter snd].
      destruct (str_eqb (hash_of w d false) HashSkip); cbn [negb].
      * reflexivity.
      * now rewrite <- app_assoc.
  - (* PStore *)
    destruct Hk as [Hr Hrec]. inversion Hs; subst; cbn [tinv]. split; [|split].
    + split; [exact Hr|]. exists e. split; [exact Hrec|]. now rewrite lookup_store, str_eqb_refl.
    + intros q. rewrite lookup_store. destruct (str_eqb_spec q p) as [->|Hn].
      * right. split; [exact Hr|]. exists e. auto.
      * apply Hc.
    + right. exists e. auto.
  - (* PLoad2 *)
    destruct Hk as (Hr & e & Hrec & Hl). rewrite Hl in Hs. inversion Hs; subst; cbn [tinv]. auto.
  - (* POpen2 *)
    destruct Hk as [Hr Hrec]. inversion Hs; subst; cbn [tinv]. split; [|auto].
    symmetry. apply seq_relist_ok; assumption.
  - (* PDone *) inversion Hs; subst; cbn [tinv]. auto.
Qed.

(* another thread's store does not disturb a thread's invariant *)
Lemma tinv_store c p k q e : recd q e -> R q -> tinv c p k -> tinv (store q e c) p k.
Proof.
  intros Hrec Hrq. destruct k; cbn [tinv]; auto.
  intros (Hr & e' & Hrec' & Hl). split; [exact Hr|].
  rewrite lookup_store. destruct (str_eqb_spec p q) as [->|Hn]; eauto.
Qed.

Definition GInv (g : conf) : Prop :=
  g_w g = w /\ cinv (g_c g) /\ Forall (fun t => tinv (g_c g) (fst t) (snd t)) (g_ts g).

Lemma Forall_upd {A} (P : A -> Prop) i x l : Forall P l -> P x -> Forall P (upd i x l).
Proof.
  intros Hl Hx. revert i. induction Hl as [|y l Hy Hl IH]; intros [|i]; cbn; constructor; auto.
Qed.

Lemma nth_error_Forall {A} (P : A -> Prop) i x l : Forall P l -> nth_error l i = Some x -> P x.
Proof. intros Hl Hn. eapply Forall_forall; [exact Hl|]. eapply nth_error_In; eauto. Qed.

Definition conc_item (it : item) : bool := match it with ISeq _ => false | _ => true end.

Lemma cstep_inv g it : conc_item it = true -> GInv g -> GInv (cstep g it).
Proof.
  intros Hit (Hw & Hc & Ht). destruct it as [i|o|p]; [|discriminate|].
  - cbn [cstep]. destruct (nth_error (g_ts g) i) as [[p k]|] eqn:En; [|repeat split; auto].
    rewrite Hw. destruct (tstep w p (g_c g) (g_n g) k) as [[c' n'] k'] eqn:Es.
    pose proof (nth_error_Forall _ _ _ _ Ht En) as Hk. cbn [fst snd] in Hk.
    destruct (tstep_inv _ _ _ _ _ _ _ Hc Hk Es) as (Hk' & Hc' & Hch).
    repeat split; cbn [g_w g_c g_ts]; auto.
    apply Forall_upd; [|exact Hk'].
    destruct Hch as [-> | (e & Hrec & Hr & ->)]; [exact Ht|].
    eapply Forall_impl; [|exact Ht]. intros [q kq] H. now apply tinv_store.
  - cbn [cstep]. repeat split; cbn [g_w g_c g_ts]; auto.
    apply Forall_app. split; [exact Ht|]. repeat constructor.
Qed.

Lemma crun_inv sched g : forallb conc_item sched = true -> GInv g -> GInv (crun g sched).
Proof.
  revert g. induction sched as [|it sched IH]; intros g Hs Hg; [exact Hg|].
  cbn in Hs. apply andb_true_iff in Hs as [H1 H2]. cbn [crun fold_left].
  apply IH; [exact H2|]. now apply cstep_inv.
Qed.

Lemma start_inv ps : GInv (start s0 ps).
Proof.
  repeat split; cbn; [left; reflexivity|].
  induction ps; cbn; constructor; cbn; auto.
Qed.

(* ---- the theorems ---- *)
Theorem conc_result_sequential ps sched i p r :
  forallb conc_item sched = true ->
  nth_error (g_ts (crun (start s0 ps) sched)) i = Some (p, PDone r) ->
  r = snd (find s0 p).
Proof.
  intros Hs Hn. destruct (crun_inv sched _ Hs (start_inv ps)) as (_ & _ & Ht).
  exact (nth_error_Forall _ _ _ _ Ht Hn).
Qed.

Theorem conc_cache_coherent ps sched q :
  forallb conc_item sched = true ->
  let c := g_c (crun (start s0 ps) sched) in
  lookup q c = lookup q c0 \/
  (must_relist s0 q /\ w_fail w = false /\
   exists v, lookup q (w_pkgs w) = Some v /\ lookup q c = Some (record_entry w q v)).
Proof.
  intros Hs c. destruct (crun_inv sched _ Hs (start_inv ps)) as (_ & Hc & _).
  destruct (Hc q) as [H | (Hr & e & (Hf & v & Hv & ->) & Hl)]; [left; exact H|].
  right. split; [exact Hr|]. split; [exact Hf|]. exists v. auto.
Qed.

(* nothing dirty: no listing at all, the cache is not written *)
Definition quiet (g : conf) : Prop :=
  (forall t, In t (g_ts g) -> ~ R (fst t)) -> g_n g = n0 /\ g_c g = c0.

Lemma tstep_quiet p c n k c' n' k' :
  tinv c p k -> ~ R p -> tstep w p c n k = (c', n', k') -> c' = c /\ n' = n.
Proof.
  intros Hk Hnr Hs.
  destruct k as [|e|e ds|e| | |v|exp hs todo acc|e| |e|r]; cbn [tstep tinv] in *;
    try (exfalso; apply Hnr; tauto).
  - destruct (lookup p c) as [e|]; [destruct (str_eqb (e_hash e) HashInvalid)|]; inversion Hs; subst; split; reflexivity.
  - destruct (str_eqb (hash_of w p true) (e_hash e)); inversion Hs; subst; split; reflexivity.
  - destruct ds as [|d ds]; [|destruct (str_eqb (hash_of w (fst d) false) (snd d))]; inversion Hs; subst; split; reflexivity.
  - destruct (file_ok _ _); inversion Hs; subst; split; reflexivity.
  - inversion Hs; subst; split; reflexivity.
Qed.

Lemma in_upd {A} i (x : A) l t : In t (upd i x l) -> t = x \/ In t l.
Proof.
  revert i. induction l as [|y l IH]; intros [|i]; cbn; try tauto.
  - intros [H|H]; auto.
  - intros [H|H]; [tauto|]. destruct (IH _ H); tauto.
Qed.

Lemma upd_fst_same i (p : str) (k k' : pc) l t :
  nth_error l i = Some (p, k) -> In t l -> exists t', In t' (upd i (p, k') l) /\ fst t' = fst t.
Proof.
  revert i. induction l as [|y l IH]; intros [|i]; cbn; try discriminate; try tauto.
  - intros H [->|Hin]; inversion H; subst.
    + exists (p, k'). cbn. auto.
    + exists t. auto.
  - intros H [->|Hin].
    + exists t. auto.
    + destruct (IH _ H Hin) as (t' & Hin' & Hf). exists t'. auto.
Qed.

Lemma crun_quiet sched g :
  forallb conc_item sched = true -> GInv g -> quiet g -> quiet (crun g sched).
Proof.
  revert g. induction sched as [|it sched IH]; intros g Hs Hg Hq; [exact Hq|].
  cbn in Hs. apply andb_true_iff in Hs as [H1 H2]. cbn [crun fold_left].
  apply IH; [exact H2 | now apply cstep_inv |].
  destruct Hg as (Hw & Hc & Ht). destruct it as [i|o|p]; [|discriminate|].
  - unfold quiet. cbn [cstep]. destruct (nth_error (g_ts g) i) as [[p k]|] eqn:En; [|exact Hq].
    rewrite Hw. destruct (tstep w p (g_c g) (g_n g) k) as [[c' n'] k'] eqn:Es.
    cbn [g_ts g_n g_c]. intros Hall.
    assert (Hall' : forall t, In t (g_ts g) -> ~ R (fst t)).
    { intros t Hin. destruct (upd_fst_same i p k k' _ t En Hin) as (t' & Hin' & Hf).
      rewrite <- Hf. now apply Hall. }
    destruct (Hq Hall') as [Hn Hcc].
    pose proof (nth_error_Forall _ _ _ _ Ht En) as Hk. cbn [fst snd] in Hk.
    assert (Hnr : ~ R p). { apply (Hall' (p, k)). eapply nth_error_In; eauto. }
    destruct (tstep_quiet _ _ _ _ _ _ _ Hk Hnr Es) as [-> ->]. auto.
  - unfold quiet. cbn [cstep g_ts g_n g_c]. intros Hall. apply Hq.
    intros t Hin. apply Hall. apply in_or_app. auto.
Qed.

Theorem conc_clean_entries_no_listing ps sched :
  forallb conc_item sched = true ->
  (forall t, In t (g_ts (crun (start s0 ps) sched)) -> ~ must_relist s0 (fst t)) ->
  g_n (crun (start s0 ps) sched) = n0 /\ g_c (crun (start s0 ps) sched) = c0.
Proof.
  intros Hs. apply (crun_quiet sched (start s0 ps) Hs (start_inv ps)).
  intros _. auto.
Qed.

End Fixed.

(* ---- wait-freedom: a Find call finishes within a bounded number of its OWN steps,
        whatever the other goroutines do (no step waits for another thread) ---- *)
Section Progress.
Variables (w : world) (p : str).

Definition listed_deps : nat :=
  match listing w [p] with Some (qv :: _) => length (snd (snd qv)) | _ => 0 end.

Definition pmeasure (k : pc) : nat :=
  let L := listed_deps in
  match k with
  | PDone _ => 0
  | POpen2 _ => 1
  | PLoad2 => 2
  | PStore _ => 3
  | PRecDeps _ _ todo _ => 4 + length todo
  | PRecSelf v => 5 + length (snd v)
  | PList => 6 + L
  | PInc => 7 + L
  | POpen1 _ => 8 + L
  | PDeps _ ds => 9 + L + length ds
  | PSelf e => 10 + L + length (e_deps e)
  | PStart => 0     (* not used: see tstep_first *)
  end.

Lemma tstep_decreases c n k c' n' k' :
  k <> PStart -> is_done k = false -> tstep w p c n k = (c', n', k') -> pmeasure k' < pmeasure k.
Proof.
  intros Hs Hd H.
  destruct k as [|e|e ds|e| | |v|exp hs todo acc|e| |e|r]; cbn [tstep is_done] in *;
    try congruence; try discriminate.
  - destruct (str_eqb _ _); inversion H; subst; cbn [pmeasure]; lia.
  - destruct ds as [|d ds]; [|destruct (str_eqb _ _)]; inversion H; subst; cbn [pmeasure length]; lia.
  - destruct (file_ok _ _); inversion H; subst; cbn [pmeasure]; lia.
  - inversion H; subst; cbn [pmeasure]; lia.
  - unfold pmeasure, listed_deps. destruct (listing w [p]) as [[|qv l]|]; inversion H; subst; cbn; lia.
  - inversion H; subst; cbn [pmeasure fst snd]; lia.
  - destruct todo as [|d todo]; inversion H; subst; cbn [pmeasure length]; lia.
  - inversion H; subst; cbn [pmeasure]; lia.
  - destruct (lookup p c); inversion H; subst; cbn [pmeasure]; lia.
  - inversion H; subst; cbn [pmeasure]; lia.
Qed.

Lemma tstep_first c n c' n' k' :
  tstep w p c n PStart = (c', n', k') ->
  pmeasure k' <= 10 + listed_deps + match lookup p c with Some e => length (e_deps e) | None => 0 end.
Proof.
  cbn [tstep]. destruct (lookup p c) as [e|]; [destruct (str_eqb _ _)|]; intros H; inversion H; subst;
    cbn [pmeasure]; lia.
Qed.

(* iterating the thread's own steps, with arbitrary changes of the shared cache and counter in
   between (what other threads do): after pmeasure k own steps the call has returned *)
Fixpoint own_steps (cs : list (cache * nat)) (k : pc) : pc :=
  match cs with
  | [] => k
  | (c, n) :: r => own_steps r (snd (tstep w p c n k))
  end.

Lemma done_stays c n k : is_done k = true -> snd (tstep w p c n k) = k.
Proof. destruct k; cbn; congruence. Qed.

Lemma own_steps_done cs : forall k, k <> PStart -> pmeasure k <= length cs -> is_done (own_steps cs k) = true.
Proof.
  induction cs as [|[c n] cs IH]; intros k Hs Hm; cbn [own_steps length] in *.
  - destruct k; cbn in *; try reflexivity; try lia; congruence.
  - destruct (is_done k) eqn:Hd.
    + rewrite (done_stays c n k Hd). apply IH; [exact Hs|]. destruct k; cbn in *; try discriminate; lia.
    + destruct (tstep w p c n k) as [[c' n'] k'] eqn:E. cbn [snd].
      pose proof (tstep_decreases _ _ _ _ _ _ Hs Hd E) as Hlt.
      apply IH; [|lia]. destruct k; cbn [tstep] in E; try congruence;
        repeat match type of E with context [match ?x with _ => _ end] => destruct x end;
        inversion E; discriminate.
Qed.
End Progress.
