(* C04 / C03 — constant expressions over basic kinds.
   M: what the builder computes: the folded value (unaryOp / binaryOp /
      doBinaryOp in ast.go: plain go/constant arithmetic on the operands'
      values, integer division only when BOTH operand types are integer kinds,
      shifts through ToInt, the shift-count bound), the division-by-zero check
      (codebuild.go checkDivisionByZero), conversions copying the value
      unconverted (ast.go matchTypeCast), and the reported type: the template
      type parameter inferred from the operands, mapped to an untyped kind
      whenever a constant value was folded (ast.go:806-828).
   S: the Go specification's constant expressions (types, values, overflow and
      representability errors). *)
From Coq Require Import List NArith ZArith QArith Bool Lia.
From GV Require Import Go.Kinds C05.Model.
Import ListNotations.
Local Close Scope Q_scope.

Inductive unop := UNeg | UPlus | UXor | UNot.
Inductive binop := BAdd | BSub | BMul | BQuo | BRem | BAnd | BOr | BXor | BAndNot
                 | BShl | BShr | BLt | BLe | BGt | BGe | BEq | BNe | BLAnd | BLOr.

Inductive expr :=
| ELit (k : kind) (c : cval)       (* untyped literal: k is its untyped kind *)
| EVar (k : kind)                  (* a variable of typed basic kind k *)
| EConv (k : kind) (e : expr)      (* T(e), T a typed basic kind *)
| EUn (op : unop) (e : expr)
| EBin (op : binop) (e1 e2 : expr).

Inductive eres := Ok (k : kind) (c : option cval) | Rejected | Fault
  | Undef.   (* an operand carries go/constant's `unknown` value (shift of a non-integral constant):
                what the library does with it is not modelled *)

Definition cclass (c : cval) : N := match c with CBool _ => 1 | CStr _ => 2 | _ => 3 end%N.

Definition is_shift (op : binop) : bool := match op with BShl | BShr => true | _ => false end.
Definition is_compare (op : binop) : bool :=
  match op with BLt | BLe | BGt | BGe | BEq | BNe => true | _ => false end.
Definition is_logic (op : binop) : bool := match op with BLAnd | BLOr => true | _ => false end.

Definition bits_of (k : kind) : Z :=
  if N.eqb k KUint8 then 8 else if N.eqb k KUint16 then 16 else if N.eqb k KUint32 then 32 else 64.
Definition is_unsigned_kind (k : kind) : bool := (N.leb KUint k && N.leb k KUintptr)%bool.

(* ---------- go/constant arithmetic ---------- *)
Definition qadd (a b : Q) : Q := Qred (Qplus a b).
Definition qsub (a b : Q) : Q := Qred (Qminus a b).
Definition qmul (a b : Q) : Q := Qred (Qmult a b).
Definition qdiv (a b : Q) : Q := Qred (Qdiv a b).
Definition qcmp (a b : Q) : comparison := Qcompare a b.

Definition cv_to_q (c : cval) : option Q :=
  match c with CInt z => Some (inject_Z z) | CFloat q => Some q | _ => None end.
Definition both_int (a b : cval) : option (Z * Z) :=
  match a, b with CInt x, CInt y => Some (x, y) | _, _ => None end.

(* constant.ToInt *)
Definition to_int (c : cval) : option Z :=
  match c with
  | CInt z => Some z
  | CFloat q => if q_is_int q then Some (q_to_z q) else None
  | _ => None
  end.

Definition cmp_ok (op : binop) (c : comparison) : bool :=
  match op, c with
  | BLt, Lt | BLe, Lt | BLe, Eq | BGt, Gt | BGe, Gt | BGe, Eq | BEq, Eq | BNe, Lt | BNe, Gt => true
  | _, _ => false
  end.

Fixpoint str_cmp (a b : list N) : comparison :=
  match a, b with
  | [], [] => Eq | [], _ => Lt | _, [] => Gt
  | x :: a', y :: b' => match N.compare x y with Eq => str_cmp a' b' | c => c end
  end.

(* result of a go/constant operation: a value, or a run-time panic of the library *)
Inductive cres := CV (c : cval) | CPanic.

(* constant.BinaryOp(a, tok, b); int_div = the QUO_ASSIGN token (truncated integer division) *)
Definition const_binop (op : binop) (int_div : bool) (a b : cval) : cres :=
  match a, b with
  | CBool x, CBool y =>
      match op with BLAnd => CV (CBool (x && y)) | BLOr => CV (CBool (x || y)) | _ => CPanic end
  | CStr x, CStr y => match op with BAdd => CV (CStr (x ++ y)) | _ => CPanic end
  | CInt x, CInt y =>
      match op with
      | BAdd => CV (CInt (x + y)) | BSub => CV (CInt (x - y)) | BMul => CV (CInt (x * y))
      | BQuo => if Z.eqb y 0 then CPanic
                else if int_div then CV (CInt (Z.quot x y))
                else CV (CFloat (qdiv (inject_Z x) (inject_Z y)))
      | BRem => if Z.eqb y 0 then CPanic else CV (CInt (Z.rem x y))
      | BAnd => CV (CInt (Z.land x y)) | BOr => CV (CInt (Z.lor x y)) | BXor => CV (CInt (Z.lxor x y))
      | BAndNot => CV (CInt (Z.ldiff x y))
      | _ => CPanic
      end
  | _, _ =>
      match cv_to_q a, cv_to_q b with
      | Some x, Some y =>
          match op with
          | BAdd => CV (CFloat (qadd x y)) | BSub => CV (CFloat (qsub x y)) | BMul => CV (CFloat (qmul x y))
          | BQuo => if (q_zero y || int_div)%bool then CPanic else CV (CFloat (qdiv x y))
          | _ => CPanic
          end
      | _, _ => CPanic
      end
  end.

Definition const_compare (op : binop) (a b : cval) : cres :=
  match a, b with
  | CBool x, CBool y => match op with BEq => CV (CBool (Bool.eqb x y)) | BNe => CV (CBool (negb (Bool.eqb x y))) | _ => CPanic end
  | CStr x, CStr y => CV (CBool (cmp_ok op (str_cmp x y)))
  | _, _ => match cv_to_q a, cv_to_q b with
            | Some x, Some y => CV (CBool (cmp_ok op (qcmp x y)))
            | _, _ => CPanic
            end
  end.

Definition shift_bound : Z := 1074.

(* unaryOp: constant.UnaryOp(tok, a, prec) with prec = size of an unsigned operand type *)
Definition const_unop (op : unop) (k : kind) (a : cval) : cres :=
  match op, a with
  | UNeg, CInt z => CV (CInt (- z)) | UNeg, CFloat q => CV (CFloat (Qred (Qopp q)))
  | UPlus, CInt z => CV a | UPlus, CFloat q => CV a
  | UXor, CInt z =>
      if is_unsigned_kind k then CV (CInt (Z.ldiff (2 ^ bits_of k - 1) z))   (* go/constant: (^z) &^ (-1 << prec), also for z outside the type's range *)
      else CV (CInt (- z - 1))
  | UNot, CBool b => CV (CBool (negb b))
  | _, _ => CPanic
  end.

(* ---------- template type inference for the builtin operators (kinds only) ---------- *)
Definition def_kind (k : kind) : kind :=
  if N.eqb k KUntypedBool then KBool else if N.eqb k KUntypedInt then KInt
  else if N.eqb k KUntypedRune then KInt32 else if N.eqb k KUntypedFloat then KFloat64
  else if N.eqb k KUntypedComplex then KComplex128 else if N.eqb k KUntypedString then KString
  else k.
Definition kmax (a b : kind) : kind := if N.ltb a b then b else a.   (* untyped kinds: int < rune < float < complex *)

(* the T of func(a, b T): a typed operand fixes it; two typed operands must agree; two untyped
   operands give the default type of the larger kind *)
Definition infer_T (k1 k2 : kind) : option kind :=
  match is_untyped_kind k1, is_untyped_kind k2 with
  | false, false => if N.eqb k1 k2 then Some k1 else None
  | false, true => Some k1
  | true, false => Some k2
  | true, true =>
      if (is_untyped_numeric k1 && is_untyped_numeric k2)%bool then Some (def_kind (kmax k1 k2))
      else if N.eqb k1 k2 then Some (def_kind k1) else None
  end.

(* constraint of the operator's type parameter *)
Definition contract_ok (op : binop) (T : kind) : bool :=
  match op with
  | BAdd => is_numeric_kind T || is_string_kind T
  | BSub | BMul | BQuo => is_numeric_kind T
  | BRem | BAnd | BOr | BXor | BAndNot | BShl | BShr => is_numeric_kind T   (* the "integer" constraint of constraint.go lists the float and complex kinds too *)
  | BLt | BLe | BGt | BGe => (is_integer_kind T || is_float_kind T || is_string_kind T)%bool
  | BEq | BNe => true
  | BLAnd | BLOr => is_boolean_kind T
  end.
Definition un_contract_ok (op : unop) (T : kind) : bool :=
  match op with
  | UNeg | UPlus => is_numeric_kind T
  | UXor => is_numeric_kind T
  | UNot => is_boolean_kind T
  end.
(* the Go specification's operand requirements *)
Definition spec_contract_ok (op : binop) (T : kind) : bool :=
  match op with
  | BRem | BAnd | BOr | BXor | BAndNot | BShl | BShr => is_integer_kind T
  | _ => contract_ok op T
  end.
Definition spec_un_contract_ok (op : unop) (T : kind) : bool :=
  match op with UXor => is_integer_kind T | _ => un_contract_ok op T end.

(* ast.go:806-828: a folded constant result is reported with the untyped kind of its class *)
Definition map_untyped (T : kind) : kind :=
  if is_boolean_kind T then KUntypedBool else if is_integer_kind T then KUntypedInt
  else if is_float_kind T then KUntypedFloat else if is_complex_kind T then KUntypedComplex
  else if is_string_kind T then KUntypedString else T.

(* types.ConvertibleTo on basic kinds *)
Definition convertible (k T : kind) : bool :=
  (is_numeric_kind k && is_numeric_kind T) || (is_string_kind k && is_string_kind T) ||
  (is_boolean_kind k && is_boolean_kind T) || (is_integer_kind k && is_string_kind T).

(* matchFuncType on a constant operand of untyped kind vk against parameter type T: the C05
   assignability with representability for integer kinds only (template.go assignableTo) *)
Definition int_in_range (T : kind) (c : cval) : bool :=
  match int_range T with
  | Some (lo, hi) =>
      match c with
      | CInt z => (Z.leb lo z && Z.leb z hi)%bool
      | CFloat q => negb (Z.ltb (Qnum q) (lo * Zpos (Qden q)) || Z.gtb (Qnum q) (hi * Zpos (Qden q)))
      | _ => true
      end
  | None => true
  end.
Definition arg_ok (vk : kind) (cv : option cval) (T : kind) : bool :=
  if is_untyped_kind vk then
    let vk' := match cv with
               | Some c => if (N.eqb vk KUntypedFloat && match to_int c with Some _ => true | None => false end)%bool
                           then KUntypedInt else vk
               | None => vk
               end in
    if is_untyped_numeric vk' then
      is_numeric_kind T &&
      (if is_typed_int T then
         match cv with Some c => int_in_range T c | None => true end && negb (N.eqb vk' KUntypedFloat) && negb (N.eqb vk' KUntypedComplex)
       else if is_float_kind T then negb (N.eqb vk' KUntypedComplex) else true)
    else if N.eqb vk' KUntypedBool then is_boolean_kind T
    else if N.eqb vk' KUntypedString then is_string_kind T
    else false
  else N.eqb vk T.

Definition is_zero_const (c : cval) : bool :=
  match c with CInt z => Z.eqb z 0 | CFloat q => q_zero q | _ => false end.

Definition in_int64 (z : Z) : bool := (Z.leb (- 2 ^ 63) z && Z.leb z (2 ^ 63 - 1))%bool.

(* an unknown constant value (constant.Shift of a non-integral operand): encoded like the harness does *)
Definition unknown_val : cval := CStr [9; 9; 9]%N.

Definition is_unknown (c : option cval) : bool :=
  match c with Some (CStr [9; 9; 9]%N) => true | _ => false end.

(* == and != do not go through the operator templates but through ComparableTo (C05) *)
Definition eq_accept (k1 k2 : kind) (c1 c2 : option cval) : C05.Model.res :=
  let ta (a b : kind) : bool := if is_untyped_kind a then go_ta_basic a b else N.eqb a b in
  let pick (k : kind) (c : option cval) (other : kind) : bool :=
    match getElemTypeIf (TB k false) c with TB k' _ => ta k' other | _ => false end in
  comparableTo (TB k1 false) (TB k2 false) c1 c2 (N.eqb k1 k2) (pick k1 c1 k2) (pick k2 c2 k1).

Fixpoint m_eval (e : expr) : eres :=
  match e with
  | ELit k c => Ok k (Some c)
  | EVar k => Ok k None
  | EConv T e1 =>
      match m_eval e1 with
      | Ok k cv =>
          if convertible k T then Ok T cv                                  (* value copied unconverted *)
          else if (is_boolean_kind k && is_numeric_kind T)%bool then       (* CastFromBool *)
            match cv with
            | Some (CBool b) => Ok KUntypedInt (Some (CInt (if b then 1 else 0)))
            | _ => Ok T None
            end
          else Ok T cv         (* matchTypeCast `finish`: the conversion is emitted without a check *)
      | r => r
      end
  | EUn op e1 =>
      match m_eval e1 with
      | Ok k cv =>
          (* go/constant.UnaryOp of an unknown value is unknown: it propagates *)
          let folded := match cv with
                        | Some a => Some (if is_unknown cv then CV unknown_val else const_unop op k a)
                        | None => None
                        end in
          match folded with
          | Some CPanic => Rejected      (* go/constant panics with a message: an unstructured report *)
          | _ =>
            let T := if is_untyped_kind k then def_kind k else k in
            if un_contract_ok op T then
              match folded with
              | Some (CV c) => Ok (map_untyped T) (Some c)
              | _ => Ok T None
              end
            else Rejected
          end
      | r => r
      end
  | EBin op e1 e2 =>
      match m_eval e1, m_eval e2 with
      | Ok k1 c1, Ok k2 c2 =>
        if (is_unknown c1 || is_unknown c2)%bool then Undef else
        (* checkDivisionByZero *)
        let divzero :=
          match op, c2 with
          | BQuo, Some b | BRem, Some b =>
              is_zero_const b && (match c1 with Some _ => true | None => is_integer_kind k1 end)
          | _, _ => false
          end in
        if divzero then Rejected else
        if is_shift op then
          let folded :=
            match c1, c2 with
            | Some a, Some b =>
                match to_int b with
                | None => Some None                       (* "invalid shift count": reported *)
                | Some s =>
                    if (in_int64 s && Z.leb 0 s && Z.leb s shift_bound)%bool then
                      match to_int a with
                      | Some x => Some (Some (CV (CInt (match op with BShl => Z.shiftl x s | _ => Z.shiftr x s end))))
                      | None => Some (Some (CV unknown_val))      (* constant.Shift(unknown) = unknown *)
                      end
                    else Some None
                end
            | _, _ => None
            end in
          match folded with
          | Some None => Rejected
          | Some (Some CPanic) => Rejected
          | _ =>
            let T := if is_untyped_kind k1 then def_kind k1 else k1 in
            let N' := if is_untyped_kind k2 then def_kind k2 else k2 in
            if (is_numeric_kind T && is_integer_kind N')%bool then
              match folded with
              | Some (Some (CV c)) => Ok (map_untyped T) (Some c)
              | _ =>
                (* an untyped left operand sets instrFlagUntyped: matchFuncType is skipped altogether *)
                if is_untyped_kind k1 then Ok (map_untyped T) None
                else if (arg_ok k1 c1 T && arg_ok k2 c2 N')%bool then Ok T None
                else Rejected
              end
            else Rejected
          end
        else if match op with BEq | BNe => true | _ => false end then
          match eq_accept k1 k2 c1 c2 with
          | C05.Model.Ok true =>
              match c1, c2 with
              | Some a, Some b =>
                  if negb (N.eqb (cclass a) (cclass b)) then Ok KUntypedBool None   (* operands of different classes are not folded *)
                  else match const_compare op a b with CV c => Ok KUntypedBool (Some c) | CPanic => Rejected end
              | _, _ => Ok KUntypedBool None
              end
          | C05.Model.Ok false => Rejected
          | C05.Model.Fault => Fault
          end
        else
          let folded :=
            match c1, c2 with
            | Some a, Some b =>
                if negb (N.eqb (cclass a) (cclass b)) then None     (* operands of different classes are not folded *)
                else
                Some (if is_compare op then const_compare op a b
                      else const_binop op (match op with BQuo => is_integer_kind k1 && is_integer_kind k2 | _ => false end) a b)
            | _, _ => None
            end in
          match folded with
          | Some CPanic => Rejected
          | _ =>
            match infer_T k1 k2 with
            | None => Rejected
            | Some T =>
              if contract_ok op T then
                match folded with
                | Some (CV c) => Ok (if is_compare op then KUntypedBool else map_untyped T) (Some c)
                | _ =>
                  if (arg_ok k1 c1 T && arg_ok k2 c2 T)%bool
                  then Ok (if is_compare op then KUntypedBool else T) None else Rejected
                end
              else Rejected
            end
          end
      | Fault, _ | _, Fault => Fault
      | Undef, _ | _, Undef => Undef
      | _, _ => Rejected
      end
  end.

(* ---------- the Go specification ---------- *)
Inductive sres := SOk (k : kind) (c : option cval) | SRej.

(* convert a constant to typed kind T (constant conversion / implicit conversion of an untyped operand) *)
Definition conv_const (c : cval) (T : kind) : option cval :=
  if representable c T then
    if is_typed_int T then match const_int c with Some z => Some (CInt z) | None => None end
    else if is_float_kind T then match const_real c with Some q => Some (CFloat (Qred q)) | None => None end
    else Some c
  else None.

Definition norm_num (T : kind) (c : cval) : cval :=      (* canonical form of a value of kind T *)
  if is_integer_kind T then c
  else match c with CInt z => CFloat (inject_Z z) | CFloat q => CFloat (Qred q) | _ => c end.

Definition s_binop_val (op : binop) (T : kind) (a b : cval) : option cval :=
  (* T is the (typed or untyped) kind both operands have been converted to *)
  match const_binop op (is_integer_kind T) a b with
  | CV c => Some (norm_num T c)
  | CPanic => None
  end.

Fixpoint s_eval (e : expr) : sres :=
  match e with
  | ELit k c => SOk k (Some c)
  | EVar k => SOk k None
  | EConv T e1 =>
      match s_eval e1 with
      | SOk k (Some c) =>
          if (is_numeric_kind T && match c with CInt _ | CFloat _ => true | _ => false end)%bool then
            match conv_const c T with Some c' => SOk T (Some c') | None => SRej end
          else if (convertible k T && negb (is_numeric_kind T))%bool then SOk T (Some c) else SRej
      | SOk k None => if convertible k T then SOk T None else SRej
      | r => r
      end
  | EUn op e1 =>
      match s_eval e1 with
      | SOk k cv =>
          let T := if is_untyped_kind k then def_kind k else k in
          if spec_un_contract_ok op T then
            match cv with
            | Some a =>
                match const_unop op k a with
                | CV c => if is_untyped_kind k then SOk k (Some c)
                          else if representable c k then SOk k (Some c) else SRej   (* constant overflow *)
                | CPanic => SRej
                end
            | None => SOk k None
            end
          else SRej
      | r => r
      end
  | EBin op e1 e2 =>
      match s_eval e1, s_eval e2 with
      | SOk k1 c1, SOk k2 c2 =>
        if is_shift op then
          let T := if is_untyped_kind k1 then def_kind k1 else k1 in
          (* the count: integer type, or untyped constant representable as an unsigned integer *)
          let count_ok :=
            match c2 with
            | Some b => match const_int b with
                        | Some s => (Z.leb 0 s && (Z.leb s shift_bound || (match c1 with None => true | _ => false end && Z.ltb s (2 ^ 64))))%bool
                        | None => false end
            | None => is_integer_kind k2
            end in
          if negb count_ok then SRej else
          match c1, c2 with
          | Some a, Some b =>
              match const_int a, const_int b with
              | Some x, Some s =>
                  let v := CInt (match op with BShl => Z.shiftl x s | _ => Z.shiftr x s end) in
                  if Z.leb (2 ^ 512) (Z.abs (match op with BShl => Z.shiftl x s | _ => Z.shiftr x s end)) then SRej   (* untyped constants are limited to 512 bits *)
                  else if is_untyped_kind k1 then
                    SOk (if N.eqb k1 KUntypedRune then KUntypedRune else KUntypedInt) (Some v)
                  else if is_integer_kind k1 then (if representable v k1 then SOk k1 (Some v) else SRej)
                  else SRej
              | _, _ => SRej
              end
          | Some a, None =>        (* non-constant shift of a constant: the constant takes the type it would have without the shift *)
              if is_untyped_kind k1 then
                (let T1 := def_kind k1 in if (is_integer_kind T1 && representable a T1)%bool then SOk T1 None else SRej)
              else if is_integer_kind k1 then SOk k1 None else SRej
          | None, _ => if is_integer_kind k1 then SOk k1 None else SRej
          end
        else
          match infer_T k1 k2 with
          | None => SRej
          | Some T0 =>
            let both_untyped := (is_untyped_kind k1 && is_untyped_kind k2)%bool in
            (* kind the operation is carried out in *)
            let T := if both_untyped
                     then (if is_untyped_numeric k1 then kmax k1 k2 else k1) else T0 in
            if negb (spec_contract_ok op (if both_untyped then (if is_untyped_numeric k1 then T else T0) else T)) then SRej else
            (* implicit conversion of untyped constant operands to T *)
            let cvt (k : kind) (c : option cval) : option (option cval) :=
              match c with
              | Some v => if both_untyped then Some (Some v)
                          else if is_untyped_kind k then (match conv_const v T with Some v' => Some (Some v') | None => None end)
                          else Some (Some v)
              | None => if (is_untyped_kind k && negb both_untyped)%bool
                        then (if (is_boolean_kind k && is_boolean_kind T)%bool then Some None else None)
                        else Some None
              end in
            match cvt k1 c1, cvt k2 c2 with
            | Some a', Some b' =>
              match a', b' with
              | Some a, Some b =>
                  if is_compare op then
                    match const_compare op a b with CV c => SOk KUntypedBool (Some c) | CPanic => SRej end
                  else
                    match s_binop_val op T a b with
                    | Some c => if both_untyped then SOk T (Some c)
                                else if representable c T then SOk T (Some c) else SRej
                    | None => SRej
                    end
              | _, _ =>
                  (* division of an integer by constant zero *)
                  let divzero := match op, b' with
                                 | BQuo, Some b | BRem, Some b => is_zero_const b && is_integer_kind T
                                 | _, _ => false end in
                  if divzero then SRej
                  else SOk (if is_compare op then KUntypedBool else T) None
              end
            | _, _ => SRej
            end
          end
      | _, _ => SRej
      end
  end.
