(* C04 / C03 — correspondence checker. *)
From Coq Require Import List NArith ZArith QArith Bool.
From GV Require Import Go.Kinds C04.Model.
Import ListNotations.
Local Close Scope Q_scope.

(* obs: what the builder reported; ref: what go/types says about the same source text;
   ref_defaulted: the reference type was read in a context that defaults untyped types *)
Record c04case := mkCase { c_e : expr; c_obs : eres; c_ref : sres; c_ref_defaulted : bool }.

Definition q_eqb (a b : Q) : bool := Z.eqb (Qnum a * Zpos (Qden b)) (Qnum b * Zpos (Qden a)).
Fixpoint bytes_eqb (a b : list N) : bool :=
  match a, b with [], [] => true | x :: a', y :: b' => N.eqb x y && bytes_eqb a' b' | _, _ => false end.
(* float64 reference values are rounded by go/types; the specification model keeps them exact:
   compare with a relative tolerance of 2^-49 *)
Definition q_close (a b : Q) : bool :=
  let d := Z.abs (Qnum a * Zpos (Qden b) - Qnum b * Zpos (Qden a)) in
  Z.leb (d * 2 ^ 49) (Z.abs (Qnum a * Zpos (Qden b))).
Definition cval_close (a b : cval) : bool :=
  match a, b with
  | CFloat x, CFloat y => q_close x y
  | CInt x, CFloat y | CFloat y, CInt x => q_close (inject_Z x) y
  | _, _ => false
  end.
Definition cval_eqb (a b : cval) : bool :=
  match a, b with
  | CBool x, CBool y => Bool.eqb x y
  | CStr x, CStr y => bytes_eqb x y
  | CInt x, CInt y => Z.eqb x y
  | CFloat x, CFloat y => q_eqb x y
  | CInt x, CFloat y | CFloat y, CInt x => q_eqb (inject_Z x) y     (* go/constant keeps integral floats either way *)
  | CComplex a1 b1, CComplex a2 b2 => q_eqb a1 a2 && q_eqb b1 b2
  | _, _ => false
  end.
Definition ocval_eqb (a b : option cval) : bool :=
  match a, b with Some x, Some y => cval_eqb x y | None, None => true | _, _ => false end.

Definition res_eqb (a b : eres) : bool :=
  match a, b with
  | Ok k c, Ok k' c' => N.eqb k k' && ocval_eqb c c'
  | Rejected, Rejected | Fault, Fault => true
  | Undef, _ => true
  | _, _ => false
  end.
Definition sres_eqb (dflt : bool) (a b : sres) : bool :=
  match a, b with
  | SOk k c, SOk k' c' =>
      (N.eqb k k' || (dflt && N.eqb (def_kind k) k')) &&
      (ocval_eqb c c' || (N.eqb k' KFloat64 && match c, c' with Some x, Some y => cval_close x y | _, _ => false end))
  | SRej, SRej => true
  | _, _ => false
  end.

Definition k1_ok (c : c04case) : bool := res_eqb (m_eval (c_e c)) (c_obs c).
Definition k2_ok (c : c04case) : bool := sres_eqb (c_ref_defaulted c) (s_eval (c_e c)) (c_ref c).

(* deviation classes (implementation vs reference), decided on the two models:
   1 = constant result with a typed operand reported with the untyped kind of its class (C03-a)
   2 = a constant expression Go rejects (overflow / not representable / invalid operand) is accepted (C04-a)
   3 = accepted by both with different values (C04-b)
   4 = a valid expression is rejected (C02-a)
   5 = run-time fault inside constant folding (C17)
   6 = constant shift of an untyped rune / float constant reported with the wrong untyped kind (C03-b)
   7 = an integer-only operator (% & | ^ &^ << >> unary ^) accepted on float operands
   9 = an `unknown` constant value (shift of a non-integral constant) propagates into a larger expression
   0 = unclassified *)
Fixpoint int_op_on_float (e : expr) : bool :=
  match e with
  | EBin op e1 e2 =>
      (match op with BRem | BAnd | BOr | BXor | BAndNot | BShl | BShr => true | _ => false end &&
       match m_eval e1, m_eval e2 with
       | Ok k1 _, Ok k2 _ => (is_float_kind k1 && negb (N.eqb k1 KUntypedFloat)) || (is_float_kind k2 && negb (N.eqb k2 KUntypedFloat) && negb (is_shift op)) || (N.eqb k1 KUntypedFloat) || (N.eqb k2 KUntypedFloat && negb (is_shift op))
       | _, _ => false
       end) || int_op_on_float e1 || int_op_on_float e2
  | EUn op e1 =>
      (match op with UXor => true | _ => false end &&
       match m_eval e1 with Ok k _ => is_float_kind k | _ => false end) || int_op_on_float e1
  | EConv _ e1 => int_op_on_float e1
  | _ => false
  end.

Definition dev_class (e : expr) : option N :=
  match m_eval e, s_eval e with
  | Ok k c, SOk k' c' =>
      if ocval_eqb c c' then
        if N.eqb k k' then None
        else if (is_untyped_kind k && negb (is_untyped_kind k'))%bool then Some 1%N
        else Some 6%N
      else Some 3%N
  | Ok _ _, SRej => if int_op_on_float e then Some 7%N else Some 2%N
  | Rejected, SOk _ _ => Some 4%N
  | Rejected, SRej => None
  | Fault, _ => Some 5%N
  | Undef, _ => Some 9%N
  end.

Definition obs_matches_ref (c : c04case) : bool :=
  match c_obs c, c_ref c with
  | Ok k v, SOk k' v' =>
      (N.eqb k k' || (c_ref_defaulted c && N.eqb (def_kind k) k')) &&
      (ocval_eqb v v' || (N.eqb k' KFloat64 && match v, v' with Some x, Some y => cval_close x y | _, _ => false end))
  | Rejected, SRej => true
  | _, _ => false
  end.

Fixpoint bad_from (f : c04case -> bool) (i : nat) (cs : list c04case) : list (nat * nat) :=
  match cs with [] => [] | c :: r => (if f c then [] else [(i, 0)]) ++ bad_from f (S i) r end.
Definition k1_bad := bad_from k1_ok 0.
Definition k2_bad := bad_from k2_ok 0.
Fixpoint dev_from (i : nat) (cs : list c04case) : list (nat * N) :=
  match cs with
  | [] => []
  | c :: r => (if obs_matches_ref c then []
               else [(i, match dev_class (c_e c) with Some k => k | None => 0%N end)]) ++ dev_from (S i) r
  end.
Definition dev_list := dev_from 0.
