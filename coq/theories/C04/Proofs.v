From Coq Require Import List NArith ZArith QArith Bool Lia.
From GV Require Import Go.Kinds C05.Model C04.Model.
Import ListNotations.
Local Close Scope Q_scope.

(* expressions over untyped integer literals of any magnitude: unary + - ^, binary + - * / % & | ^ &^,
   nested arbitrarily *)
Fixpoint int_expr (e : expr) : bool :=
  match e with
  | ELit k (CInt _) => N.eqb k KUntypedInt
  | EUn (UNeg | UPlus | UXor) e1 => int_expr e1
  | EBin (BAdd | BSub | BMul | BQuo | BRem | BAnd | BOr | BXor | BAndNot) e1 e2 => int_expr e1 && int_expr e2
  | _ => false
  end.

Definition agree_int (e : expr) : Prop :=
  match m_eval e, s_eval e with
  | Ok k c, SOk k' c' => k = KUntypedInt /\ k' = KUntypedInt /\ c = c' /\ exists z, c = Some (CInt z)
  | Rejected, SRej => True
  | _, _ => False
  end.

Lemma agree_int_inv e :
  agree_int e ->
  (exists z, m_eval e = Ok KUntypedInt (Some (CInt z)) /\ s_eval e = SOk KUntypedInt (Some (CInt z))) \/
  (m_eval e = Rejected /\ s_eval e = SRej).
Proof.
  unfold agree_int. destruct (m_eval e) as [k c| | |]; destruct (s_eval e) as [k' c'|]; try tauto.
  intros (-> & -> & <- & z & ->). left. eauto.
Qed.

Theorem untyped_int_fold_agrees e : int_expr e = true -> agree_int e.
Proof.
  induction e as [k c|k|k e IH|op e IH|op e1 IH1 e2 IH2]; cbn [int_expr]; try discriminate.
  - destruct c; try discriminate. intros H. apply N.eqb_eq in H. subst.
    unfold agree_int. cbn. repeat split; eauto.
  - intros H. assert (Hop : op = UNeg \/ op = UPlus \/ op = UXor) by (destruct op; auto; discriminate).
    assert (He : int_expr e = true) by (destruct op; auto; discriminate).
    destruct (agree_int_inv e (IH He)) as [(z & Hm & Hs)|[Hm Hs]];
      unfold agree_int; cbn [m_eval s_eval]; rewrite Hm, Hs; [|exact I].
    destruct Hop as [-> | [-> | ->]]; cbn; repeat split; eauto.
  - intros H.
    assert (Hop : In op [BAdd; BSub; BMul; BQuo; BRem; BAnd; BOr; BXor; BAndNot])
      by (destruct op; cbn; auto 12; discriminate).
    assert (He : int_expr e1 = true /\ int_expr e2 = true)
      by (destruct op; try discriminate; now apply andb_prop).
    destruct He as [He1 He2].
    cbn [In] in Hop.
    destruct (agree_int_inv e1 (IH1 He1)) as [(x & Hm1 & Hs1)|[Hm1 Hs1]];
    destruct (agree_int_inv e2 (IH2 He2)) as [(y & Hm2 & Hs2)|[Hm2 Hs2]];
    repeat (destruct Hop as [<-|Hop]; [
      unfold agree_int; cbn [m_eval s_eval]; rewrite ?Hm1, ?Hs1; cbn; rewrite ?Hm2, ?Hs2;
      try unfold s_binop_val, norm_num; cbn; try (destruct (Z.eqb y 0); cbn);
      first [exact I | repeat split; eauto]|]);
    destruct Hop.
Qed.
