(* C18 — property theorems only. *)
From Coq Require Import List NArith Bool.
From GV Require Import Lib.Bytes C18.Proofs C18.Sites.
From GVGen Require Import Tables.
Import ListNotations.

(* 1. Two packages: in EVERY interleaving c of the operation sequences a (package p) and b (package
      q) — each operation writing only its own package's region and reading only that region and the
      Shared one — package p's part of the final heap is what running a alone produces. *)
Theorem C18_two_builds_do_not_interfere :
  forall (reg : loc -> region) p q a b c,
    p <> q -> Forall (ok reg) a -> Forall (ok reg) b ->
    Forall (fun o => owner o = p) a -> Forall (fun o => owner o = q) b ->
    merge a b c ->
    forall h h', agree_on reg p h h' -> agree_on reg p (run c h) (run a h').
Proof. exact interleaving_is_sequential. Qed.
Print Assumptions C18_two_builds_do_not_interfere.

(* 2. Any number of packages and any schedule: the operations of p, taken in schedule order, act on
      p's part of the heap as if no other package were being built. *)
Theorem C18_any_schedule_projects_to_sequential :
  forall (reg : loc -> region) p c,
    Forall (ok reg) c ->
    forall h h', agree_on reg p h h' ->
      agree_on reg p (run c h) (run (filter (fun o => N.eqb (owner o) p) c) h').
Proof. exact projection_is_sequential. Qed.
Print Assumptions C18_any_schedule_projects_to_sequential.

(* 3. The premise on the code: every assignment in package gogen whose target is a package-level
      variable or a field of a syntax node (inventory regenerated from the source on every run) is
      classified, and every one that can run during a build writes the builder's own region. *)
Theorem C18_all_write_sites_classified : forallb classified write_sites = true.
Proof. exact Sites_classified. Qed.
Print Assumptions C18_all_write_sites_classified.

(* 3b. ... and every use of a process-wide object pool anywhere in the repository (inventory
      regenerated on every run) is one of the classified sites: objects are acquired in newPrinter,
      handed back in printer.free, and free is called only from the function that makes the last
      use of the object's buffer. *)
Theorem C18_all_pool_sites_classified :
  forallb pool_classified pool_sites = true /\
  forallb (fun k => existsb (fun s => str_eqb (fst s) (fst (fst k)) && str_eqb (snd s) (snd (fst k))) pool_sites) known_pool_sites = true.
Proof. split; [exact Pool_sites_classified|exact Pool_sites_complete]. Qed.
Print Assumptions C18_all_pool_sites_classified.

Theorem C18_build_time_writes_are_package_local :
  forall s p c, In s write_sites -> build_time s = true -> classify s = Some c -> class_region p c = Owned p.
Proof. exact build_time_writes_owned. Qed.
Print Assumptions C18_build_time_writes_are_package_local.

Theorem C18_only_SetDebug_writes_shared_state :
  forallb (fun s => str_eqb (fst s) [83; 101; 116; 68; 101; 98; 117; 103]%N) config_sites = true.
Proof. exact config_sites_are_SetDebug. Qed.
Print Assumptions C18_only_SetDebug_writes_shared_state.

(* 4. The frame premise is necessary: a single write to a Shared cell breaks the conclusion. *)
Theorem C18_shared_write_refutes_isolation :
  merge [ex_copy] [ex_poke] [ex_poke; ex_copy] /\
  run [ex_poke; ex_copy] (fun _ => 0%N) 1%N <> run [ex_copy] (fun _ => 0%N) 1%N /\
  ~ frame ex_reg ex_poke.
Proof. exact shared_write_breaks. Qed.
Print Assumptions C18_shared_write_refutes_isolation.

(* ---- non-vacuity: an operation meeting the premises ---- *)
Example ex_ok : ok ex_reg ex_copy.
Proof. exact ex_copy_ok. Qed.
