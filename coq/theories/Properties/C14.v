(* C14 — property theorems only. *)
From Coq Require Import List NArith Bool.
From GV Require Import Go.Kinds C14.Model C14.Proofs.
Import ListNotations.

(* 1. For every type (any tower of named / alias declarations over any structure), the zero
      expression is accepted by Go wherever a value of that type is expected. *)
Theorem C14_zero_accepted_in_typed_context :
  forall T, wf T = true -> typed_ok (fst (fst (zero T))) T = true.
Proof. exact zero_typed_ok. Qed.
Print Assumptions C14_zero_accepted_in_typed_context.

(* 2. It is reported with exactly the requested type. *)
Theorem C14_zero_reported_type : forall T, snd (fst (zero T)) = T.
Proof. exact zero_reported_type. Qed.
Print Assumptions C14_zero_reported_type.

(* 3. The constant value attached to it is the value of the emitted literal (0, false, ""),
      and there is none for nil and composite literals. *)
Theorem C14_zero_constant_matches :
  forall T, match fst (fst (zero T)), snd (zero T) with
            | EZero, ZCInt0 | EFalse, ZCFalse | EEmptyString, ZCEmptyStr | ENil, ZCNone | ELit _, ZCNone => True
            | _, _ => False
            end.
Proof. exact zero_const_matches. Qed.
Print Assumptions C14_zero_constant_matches.

(* 4. In an INFERRED context (x := zero) the full statement is refuted: the expression does not
      carry its type (known finding C14-a): float64 and a named integer infer int, nil-valued
      types are not even valid short declarations. *)
Theorem C14_zero_inferred_refuted :
  inferred (fst (fst (zero (ZBasic KFloat64)))) = Some (ZBasic KInt) /\
  inferred (fst (fst (zero (ZNamed 1 (ZBasic KInt))))) = Some (ZBasic KInt) /\
  inferred (fst (fst (zero ZNilable))) = None /\
  self_typed (ZNamed 2 (ZComposite 1)) = true.
Proof. vm_compute. repeat split. Qed.
Print Assumptions C14_zero_inferred_refuted.

(* ---- non-vacuity: a tower of named and alias declarations in the domain of theorem 1 ---- *)
Example ex_zero :
  let T := ZAlias 3 (ZNamed 2 (ZNamed 1 (ZBasic KFloat64))) in
  wf T = true /\ typed_ok (fst (fst (zero T))) T = true /\ snd (fst (zero T)) = T.
Proof. vm_compute. repeat split. Qed.
