(* C01 — property theorems only. *)
From Coq Require Import List NArith Bool.
From GV Require Import C01.Model C01.Proofs.
Import ListNotations.

(* 1. Soundness of the statement level relative to the expression level: if every expression the
      builder types is typed the same way by Go (properties C03 / C04) and every pair the builder
      finds assignable is assignable in Go (property C05), then EVERY statement tree the builder's
      statement checks accept — assignments, definitions, variable declarations, returns against
      the result list, ++/--, sends, expression statements, if / for conditions, nested blocks to
      any depth — is accepted by the same checks over Go's typing. *)
Theorem C01_statement_checks_are_sound_relative_to_expressions :
  forall (expr ty : Type) (m_typeof s_typeof : expr -> option ty)
         (m_assignable s_assignable : ty -> ty -> bool) (is_bool is_numeric : ty -> bool)
         (chan_elem : ty -> option ty),
    (forall e t, m_typeof e = Some t -> s_typeof e = Some t) ->
    (forall a b, m_assignable a b = true -> s_assignable a b = true) ->
    forall results s,
      check expr ty m_typeof m_assignable is_bool is_numeric chan_elem results s = true ->
      check expr ty s_typeof s_assignable is_bool is_numeric chan_elem results s = true.
Proof. exact stmt_sound. Qed.
Print Assumptions C01_statement_checks_are_sound_relative_to_expressions.

(* 2. The hypotheses are necessary: one pair accepted by the builder's assignability and rejected by
      Go's yields an accepted statement that Go rejects (witness). *)
Theorem C01_unsound_assignability_refutes :
  let ty := nat in let expr := nat in
  let typeof := fun e : nat => Some e in
  let m_assign := fun a b : nat => true in
  let s_assign := fun a b : nat => Nat.eqb a b in
  check expr ty typeof m_assign (fun _ => false) (fun _ => false) (fun _ => None) [] (SAssign expr ty 1 2) = true /\
  check expr ty typeof s_assign (fun _ => false) (fun _ => false) (fun _ => None) [] (SAssign expr ty 1 2) = false.
Proof. exact unsound_assignability_refutes. Qed.
Print Assumptions C01_unsound_assignability_refutes.

(* ---- non-vacuity: oracles that meet the hypotheses and a nested statement accepted by both ---- *)
Example ex_check :
  let typeof := fun e : nat => Some (Nat.modulo e 3) in           (* three types: 0 bool, 1 int, 2 string *)
  let m_assign := fun a b : nat => Nat.eqb a b in
  let s_assign := fun a b : nat => Nat.eqb a b || Nat.eqb b 0 in   (* the specification accepts more *)
  let s := SIf nat nat 3 [SAssign nat nat 4 7; SFor nat nat 6 [SReturn nat nat [10]]] [SBlock nat nat [SIncDec nat nat 1]] in
  (forall a b, m_assign a b = true -> s_assign a b = true) /\
  check nat nat typeof m_assign (Nat.eqb 0) (Nat.eqb 1) (fun _ => None) [1] s = true /\
  check nat nat typeof s_assign (Nat.eqb 0) (Nat.eqb 1) (fun _ => None) [1] s = true.
Proof.
  split; [|split; reflexivity].
  intros a b H. cbv beta in *. rewrite H. reflexivity.
Qed.
