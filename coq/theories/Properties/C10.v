(* C10 — property theorems only. *)
From Coq Require Import List NArith Bool.
From GV Require Import C10.Model C10.Spec C10.Proofs.
Import ListNotations.

(* 1. The transcribed analysis decides exactly the Go specification's
      "terminating statement", for every statement, nesting depth and label
      context (likewise "ends in a terminating statement" for lists, and the
      clause condition for switch/select). *)
Theorem C10_isTerminating_is_spec_terminating :
  (forall s lbl, isTerm s lbl = true <-> Term s lbl) /\
  (forall l lbl, isTermList l lbl = true <-> EndsTerm l lbl) /\
  (forall cs lbl, clauses_term cs lbl = true <-> ClausesTerm cs lbl).
Proof. exact isTerm_reflects. Qed.
Print Assumptions C10_isTerminating_is_spec_terminating.

(* 2. hasBreak decides exactly "contains a break statement referring to the
      enclosing statement". *)
Theorem C10_hasBreak_is_spec_refers :
  (forall s lbl unl, hasBreak s lbl unl = true <-> Refers s lbl unl) /\
  (forall l lbl unl, hasBreakList l lbl unl = true <-> RefersL l lbl unl) /\
  (forall cs lbl unl, hasBreakClauses cs lbl unl = true <-> RefersC cs lbl unl).
Proof. exact hasBreak_reflects. Qed.
Print Assumptions C10_hasBreak_is_spec_refers.

(* 3. "missing return" is reported exactly for a normal function with results
      whose body (as a block) is not a terminating statement. *)
Theorem C10_missing_return_iff :
  forall auto n body,
    missing_return auto n body = true <-> (auto = false /\ n <> 0 /\ ~ Term (SBlock body) None).
Proof.
  intros auto n body. unfold missing_return.
  destruct isTerm_reflects as (H & _). specialize (H (SBlock body) None).
  rewrite !andb_true_iff, !negb_true_iff, PeanoNat.Nat.eqb_neq. split.
  - intros [[Ha Hn] Ht]. repeat split; auto. intros Hterm. apply H in Hterm. congruence.
  - intros (Ha & Hn & Ht). repeat split; auto.
    destruct (isTerm (SBlock body) None) eqn:E; [|reflexivity]. exfalso. apply Ht, H. reflexivity.
Qed.
Print Assumptions C10_missing_return_iff.

(* 4. Labels: reported "already defined" exactly when defined at least twice,
      "defined and not used" exactly when defined and never the target of a
      goto / labeled break / labeled continue — for every event history. *)
Theorem C10_labels_iff :
  forall es n,
    (In n (dup_labels es) <-> 2 <= defined_count n es) /\
    (In n (unused_labels es) <-> 1 <= defined_count n es /\ ~ In (LUse n) es).
Proof. intros es n. split; [apply dup_labels_spec|apply unused_labels_spec]. Qed.
Print Assumptions C10_labels_iff.

(* ---- non-vacuity ---- *)
Example ex_labeled_break_in_select :
  (* L: for { select { case: break L } }  is not terminating;  for { select { case: break } } is *)
  isTerm (SLabeled 1 (SFor false (SCons (SSelect (CCons false (SCons (SBranch BBreak (Some 1%N)) SNil) CNil)) SNil))) None = false /\
  isTerm (SFor false (SCons (SSelect (CCons false (SCons (SBranch BBreak None) SNil) CNil)) SNil)) None = true.
Proof. split; reflexivity. Qed.
Example ex_missing : missing_return false 1 (SCons (SIf (SCons SReturn SNil) false SEmpty) SNil) = true.
Proof. reflexivity. Qed.
Example ex_labels : dup_labels [LDefine 1; LDefine 2; LDefine 1; LUse 2]%N = [1%N] /\
                    unused_labels [LDefine 1; LDefine 2; LDefine 1; LUse 2]%N = [1%N].
Proof. split; reflexivity. Qed.
