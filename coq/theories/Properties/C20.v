(* C20 — property theorems only.  Every statement is about C20.Model, whose
   correspondence with packages/cache/cache.go is checked on every run (K1),
   and whose guard / sentinels are regenerated from /repo (GVGen.Tables). *)
From Coq Require Import List NArith ZArith Bool Lia.
From GV Require Import Lib.Bytes C20.Model C20.Proofs.
From GVGen Require Import Tables.
Import ListNotations.

(* 1. A lookup that serves data either serves an entry all of whose recorded
      fingerprints (own and every recorded dependency) equal the current ones
      and whose export file opens, without listing and without touching the
      cache — or it had to re-list, the listing succeeded just now, and what is
      served is what that listing reported, recorded with the fingerprints of
      this very moment.  Holds in every state, hence after every history. *)
Theorem C20_find_serves_only_fresh :
  forall (ops : list op) (p x : str) (s' : state),
    step (after ops) (OFind p) = (s', RFind (Served x)) ->
    (s' = after ops /\
     exists e, lookup p (st_c (after ops)) = Some e /\ fresh (st_w (after ops)) p e /\ x = e_exp e)
    \/ (must_relist (after ops) p /\ relisted (after ops) s' p x).
Proof.
  intros ops p x s' H. rewrite step_find in H. inversion H as [[H1 H2]].
  apply find_served. destruct (find (after ops) p); cbn in *; congruence.
Qed.
Print Assumptions C20_find_serves_only_fresh.

(* 2. An unchanged entry is served without re-listing and leaves the state alone. *)
Theorem C20_clean_entry_served_without_listing :
  forall ops p e, lookup p (st_c (after ops)) = Some e -> fresh (st_w (after ops)) p e ->
    step (after ops) (OFind p) = (after ops, RFind (Served (e_exp e))).
Proof. intros ops p e Hl Hf. rewrite step_find, (find_clean _ _ _ Hl Hf). reflexivity. Qed.
Print Assumptions C20_clean_entry_served_without_listing.

(* 3. A missing or dirty entry always re-lists first (ListTimes grows by one). *)
Theorem C20_dirty_entry_relists :
  forall ops p, must_relist (after ops) p ->
    st_n (fst (step (after ops) (OFind p))) = S (st_n (after ops)).
Proof. intros ops p H. rewrite step_find. cbn [fst]. now apply find_relists. Qed.
Print Assumptions C20_dirty_entry_relists.

(* 4. When the entry is dirty and the listing command fails (or does not know
      the package), nothing is served and the cache is left unchanged. *)
Theorem C20_failed_listing_never_serves :
  forall ops p, must_relist (after ops) p ->
    (w_fail (st_w (after ops)) = true \/ lookup p (w_pkgs (st_w (after ops))) = None) ->
    snd (step (after ops) (OFind p)) = RFind FErr.
Proof.
  intros ops p Hm [Hf|Hf]; rewrite step_find; cbn [snd]; f_equal.
  - now apply find_failed_listing.
  - now apply find_unlisted_pkg.
Qed.
Print Assumptions C20_failed_listing_never_serves.

(* 5. Save then Load into an empty cache reproduces the cache exactly (as a
      map), for every cache whose strings respect the file format's own
      assumption (no tab/newline in paths, file names and hashes). *)
Theorem C20_save_load_roundtrip :
  forall (c : cache) (k : str), Forall wf_entry c -> NoDup (map fst c) ->
    fst (load_bytes (save_bytes c) []) = LOk /\
    lookup k (snd (load_bytes (save_bytes c) [])) = lookup k c.
Proof. intros; now apply load_save_lookup. Qed.
Print Assumptions C20_save_load_roundtrip.

(* 6. No cache file whatsoever makes Load fail with a run-time fault: the result
      is Ok or the error value.  (max_cap = 2^43 bounds the file size; a larger
      file does not fit the address space the allocation limit is derived from.) *)
Theorem C20_load_never_faults :
  forall (b : str) (c : cache), (Z.of_nat (length b) < max_cap)%Z ->
    fst (load_bytes b c) <> LFault.
Proof. intros; now apply load_bytes_no_fault. Qed.
Print Assumptions C20_load_never_faults.

(* ---- non-vacuity ---- *)
Definition ex_entry : str * entry :=
  ([102; 109; 116], mkEntry [47; 120; 46; 97] [104; 49] [([105; 111], [104; 50]); ([111; 115], [])])%N.
Example ex_wf : Forall wf_entry [ex_entry] /\ NoDup (map fst [ex_entry]).
Proof.
  split; [|repeat constructor; intros []].
  repeat constructor; try discriminate; cbn; unfold max_cap; lia.
Qed.
Example ex_roundtrip_computes :
  load_bytes (save_bytes [ex_entry]) [] = (LOk, [ex_entry]).
Proof. vm_compute. reflexivity. Qed.
Example ex_bad_count_is_error :
  (* "p\tf\th\t-1" *)
  fst (load_bytes [112; 9; 102; 9; 104; 9; 45; 49]%N []) = LErr.
Proof. vm_compute. reflexivity. Qed.
Example ex_relist_state :
  let s := mkState [] 0 (mkWorld [] [([112]%N, ([102]%N, []))] false [[102]%N] None) in
  must_relist s [112]%N /\ find s [112]%N = (mkState [([112]%N, mkEntry [102]%N default_hash [])] 1 (st_w s), Served [102]%N).
Proof. split; [left; reflexivity|vm_compute; reflexivity]. Qed.
