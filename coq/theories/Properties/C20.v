(* C20 — property theorems only.  Every statement is about C20.Model, whose
   correspondence with packages/cache/cache.go is checked on every run (K1),
   and whose guard / sentinels are regenerated from /repo (GVGen.Tables). *)
From Coq Require Import List NArith ZArith Bool Lia.
From GV Require Import Lib.Bytes C20.Model C20.Proofs C20.Conc C20.ConcProofs.
From GVGen Require Import Tables.
Import ListNotations.

(* 1. A lookup that serves data either serves an entry all of whose recorded
      fingerprints (own and every recorded dependency) equal the current ones
      and whose export file opens, without listing and without touching the
      cache — or it had to re-list, the listing succeeded just now, and what is
      served is what that listing reported, recorded with the fingerprints of
      this very moment.  Holds in every state, hence after every history. *)
Theorem C20_find_serves_only_fresh :
  forall (ops : list op) (p x : str) (s' : state),
    step (after ops) (OFind p) = (s', RFind (Served x)) ->
    (s' = after ops /\
     exists e, lookup p (st_c (after ops)) = Some e /\ fresh (st_w (after ops)) p e /\ x = e_exp e)
    \/ (must_relist (after ops) p /\ relisted (after ops) s' p x).
Proof.
  intros ops p x s' H. rewrite step_find in H. inversion H as [[H1 H2]].
  apply find_served. destruct (find (after ops) p); cbn in *; congruence.
Qed.
Print Assumptions C20_find_serves_only_fresh.

(* 2. An unchanged entry is served without re-listing and leaves the state alone. *)
Theorem C20_clean_entry_served_without_listing :
  forall ops p e, lookup p (st_c (after ops)) = Some e -> fresh (st_w (after ops)) p e ->
    step (after ops) (OFind p) = (after ops, RFind (Served (e_exp e))).
Proof. intros ops p e Hl Hf. rewrite step_find, (find_clean _ _ _ Hl Hf). reflexivity. Qed.
Print Assumptions C20_clean_entry_served_without_listing.

(* 3. A missing or dirty entry always re-lists first (ListTimes grows by one). *)
Theorem C20_dirty_entry_relists :
  forall ops p, must_relist (after ops) p ->
    st_n (fst (step (after ops) (OFind p))) = S (st_n (after ops)).
Proof. intros ops p H. rewrite step_find. cbn [fst]. now apply find_relists. Qed.
Print Assumptions C20_dirty_entry_relists.

(* 4. When the entry is dirty and the listing command fails (or does not know
      the package), nothing is served and the cache is left unchanged. *)
Theorem C20_failed_listing_never_serves :
  forall ops p, must_relist (after ops) p ->
    (w_fail (st_w (after ops)) = true \/ lookup p (w_pkgs (st_w (after ops))) = None) ->
    snd (step (after ops) (OFind p)) = RFind FErr.
Proof.
  intros ops p Hm [Hf|Hf]; rewrite step_find; cbn [snd]; f_equal.
  - now apply find_failed_listing.
  - now apply find_unlisted_pkg.
Qed.
Print Assumptions C20_failed_listing_never_serves.

(* 5. Save then Load into an empty cache reproduces the cache exactly (as a
      map), for every cache whose strings respect the file format's own
      assumption (no tab/newline in paths, file names and hashes). *)
Theorem C20_save_load_roundtrip :
  forall (c : cache) (k : str), Forall wf_entry c -> NoDup (map fst c) ->
    fst (load_bytes (save_bytes c) []) = LOk /\
    lookup k (snd (load_bytes (save_bytes c) [])) = lookup k c.
Proof. intros; now apply load_save_lookup. Qed.
Print Assumptions C20_save_load_roundtrip.

(* 6. No cache file whatsoever makes Load fail with a run-time fault: the result
      is Ok or the error value.  (max_cap = 2^43 bounds the file size; a larger
      file does not fit the address space the allocation limit is derived from.) *)
Theorem C20_load_never_faults :
  forall (b : str) (c : cache), (Z.of_nat (length b) < max_cap)%Z ->
    fst (load_bytes b c) <> LFault.
Proof. intros; now apply load_bytes_no_fault. Qed.
Print Assumptions C20_load_never_faults.

(* 7. Concurrent lookups.  Any number of goroutines call Find (threads present at
      the start and threads spawned later), interleaved in any way at the
      granularity of single shared / external accesses (sync.Map load and store,
      every PkgHash call, the nlist increment, the run of `go list`, os.Open),
      over a world that does not change meanwhile: every caller that has
      returned got exactly what a sequential Find on the initial state returns. *)
Theorem C20_concurrent_finds_return_the_sequential_result :
  forall (w : world) (c0 : cache) (n0 : nat) (ps : list str) (sched : list item) i p r,
    forallb conc_item sched = true ->
    nth_error (g_ts (crun (start (mkState c0 n0 w) ps) sched)) i = Some (p, PDone r) ->
    r = snd (find (mkState c0 n0 w) p).
Proof. exact conc_result_sequential. Qed.
Print Assumptions C20_concurrent_finds_return_the_sequential_result.

(* 8. ... and under every such schedule each cache slot either still holds the
      initial entry or, only if that entry had to be re-listed, exactly the entry
      a sequential re-listing records (no torn or mixed entries). *)
Theorem C20_concurrent_finds_keep_the_cache_coherent :
  forall (w : world) (c0 : cache) (n0 : nat) (ps : list str) (sched : list item) q,
    forallb conc_item sched = true ->
    let c := g_c (crun (start (mkState c0 n0 w) ps) sched) in
    lookup q c = lookup q c0 \/
    (must_relist (mkState c0 n0 w) q /\ w_fail w = false /\
     exists v, lookup q (w_pkgs w) = Some v /\ lookup q c = Some (record_entry w q v)).
Proof. exact conc_cache_coherent. Qed.
Print Assumptions C20_concurrent_finds_keep_the_cache_coherent.

(* 9. ... and if none of the packages looked up needs re-listing, no schedule
      lists at all and the cache is not written. *)
Theorem C20_concurrent_clean_entries_never_list :
  forall (w : world) (c0 : cache) (n0 : nat) (ps : list str) (sched : list item),
    forallb conc_item sched = true ->
    (forall t, In t (g_ts (crun (start (mkState c0 n0 w) ps) sched)) ->
               ~ must_relist (mkState c0 n0 w) (fst t)) ->
    g_n (crun (start (mkState c0 n0 w) ps) sched) = n0 /\
    g_c (crun (start (mkState c0 n0 w) ps) sched) = c0.
Proof. exact conc_clean_entries_no_listing. Qed.
Print Assumptions C20_concurrent_clean_entries_never_list.

(* 10. Wait-freedom.  A Find call returns after a number of its OWN steps bounded by the size of
       the entry it read and of the listing (10 + recorded deps + listed deps), whatever values the
       shared cache and counter take between its steps (cs: the shared state at each of its steps,
       changed arbitrarily by other goroutines): no step waits for another thread, no retry loop. *)
Theorem C20_concurrent_find_is_wait_free :
  forall (w : world) (p : str) (c0 : cache) (n0 : nat) (cs : list (cache * nat)),
    10 + listed_deps w p + match lookup p c0 with Some e => length (e_deps e) | None => 0 end <= length cs ->
    is_done (own_steps w p ((c0, n0) :: cs) PStart) = true.
Proof.
  intros w p c0 n0 cs H. cbn [own_steps].
  destruct (tstep w p c0 n0 PStart) as [[c' n'] k'] eqn:E. cbn [snd].
  pose proof (tstep_first w p _ _ _ _ _ E) as Hb.
  apply own_steps_done; [|lia].
  cbn [tstep] in E. destruct (lookup p c0) as [e|]; [destruct (str_eqb (e_hash e) HashInvalid)|];
    inversion E; discriminate.
Qed.
Print Assumptions C20_concurrent_find_is_wait_free.

(* ---- non-vacuity ---- *)
Definition ex_entry : str * entry :=
  ([102; 109; 116], mkEntry [47; 120; 46; 97] [104; 49] [([105; 111], [104; 50]); ([111; 115], [])])%N.
Example ex_wf : Forall wf_entry [ex_entry] /\ NoDup (map fst [ex_entry]).
Proof.
  split; [|repeat constructor; intros []].
  repeat constructor; try discriminate; cbn; unfold max_cap; lia.
Qed.
Example ex_roundtrip_computes :
  load_bytes (save_bytes [ex_entry]) [] = (LOk, [ex_entry]).
Proof. vm_compute. reflexivity. Qed.
Example ex_bad_count_is_error :
  (* "p\tf\th\t-1" *)
  fst (load_bytes [112; 9; 102; 9; 104; 9; 45; 49]%N []) = LErr.
Proof. vm_compute. reflexivity. Qed.
Example ex_relist_state :
  let s := mkState [] 0 (mkWorld [] [([112]%N, ([102]%N, []))] false [[102]%N] None) in
  must_relist s [112]%N /\ find s [112]%N = (mkState [([112]%N, mkEntry [102]%N default_hash [])] 1 (st_w s), Served [102]%N).
Proof. split; [left; reflexivity|vm_compute; reflexivity]. Qed.

(* two goroutines look up the same missing package; one schedule in which both
   re-list: both finish with the sequential result *)
Example ex_conc_schedule :
  let w := mkWorld [] [([112]%N, ([102]%N, [[113]%N]))] false [[102]%N] None in
  let sched := repeat (IThread 0) 4 ++ repeat (IThread 1) 9 ++ repeat (IThread 0) 5 in
  forallb conc_item sched = true /\
  map snd (g_ts (crun (start (mkState [] 0 w) [[112]%N; [112]%N]) sched))
    = [PDone (Served [102]%N); PDone (Served [102]%N)] /\
  g_n (crun (start (mkState [] 0 w) [[112]%N; [112]%N]) sched) = 2.
Proof. vm_compute. repeat split. Qed.
