(* C09 — property theorems only. *)
From Coq Require Import List NArith Arith Bool.
From GV Require Import Lib.Bytes C09.Model C09.Proofs.
Import ListNotations.

(* 1. The name-allocation loop terminates for every set of taken names within |taken|+1 iterations
      (pigeonhole over the pairwise distinct candidates base, base1, base2, ...), and the name it
      returns is not taken. *)
Theorem C09_import_name_loop_terminates_with_fresh_name :
  forall taken base, exists nm ren,
    pick (S (length taken)) 0 taken base = Some (nm, ren) /\ ~ In nm taken.
Proof.
  intros taken base. destruct (pick_succeeds taken base) as (nm & ren & H).
  exists nm, ren. split; [exact H|eapply pick_fresh; eauto].
Qed.
Print Assumptions C09_import_name_loop_terminates_with_fresh_name.

(* 2. After every history of references, forced imports, declarations and writes over any number of
      files, the names under which a file's used imports appear are pairwise distinct and are all
      recorded in that file's import-name set. *)
Theorem C09_import_names_distinct_per_file :
  forall ops f,
    let s := fst (run init ops) in
    NoDup (used_names (f_imps (getf s f))) /\ incl (used_names (f_imps (getf s f))) (inames_of s f).
Proof. intros ops f. exact (run_inv ops init Inv_init f). Qed.
Print Assumptions C09_import_names_distinct_per_file.

(* 3. Every import name allocated by a write differs from every identifier reserved before it. *)
Theorem C09_import_names_avoid_declared_names :
  forall ops f s' blk,
    let s := fst (run init ops) in
    step s (OWrite f) = (s', blk) ->
    forall x, In x (inames s') -> In x (inames s) \/ (fst x = f /\ ~ In (snd x) (names s)).
Proof.
  intros ops f s' blk s H. eapply write_avoids_declared; [|exact H]. exact (run_inv ops init Inv_init).
Qed.
Print Assumptions C09_import_names_avoid_declared_names.

(* ---- non-vacuity ---- *)
Definition bfmt : str := [102; 109; 116]%N.
Example ex_rename :
  (* func fmt() {...} declared, then fmt referenced from file 0 and written: the import is renamed fmt1 *)
  snd (run init [ODeclare bfmt; ORef 0 bfmt bfmt true; OWrite 0]) =
  [[]; []; [(2, bfmt ++ [49]%N, bfmt)]].
Proof. vm_compute. reflexivity. Qed.
