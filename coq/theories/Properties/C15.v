(* C15 — property theorems only. *)
From Coq Require Import List NArith Bool Permutation.
From GV Require Import Lib.Bytes C09.Model C15.Proofs C15.Sites.
From GVGen Require Import Tables.
Import ListNotations.

(* 1. Every walk over a Go map and every use of time / random numbers / pointer formatting in the
      non-test files of package gogen (inventory regenerated from the source on every run) is one
      of the classified sites below; none uses time, randomness or %p. *)
Theorem C15_all_nondeterminism_sites_classified : forallb classified nondet_sites = true.
Proof. exact Sites_classified. Qed.
Print Assumptions C15_all_nondeterminism_sites_classified.

(* 2. collect-then-sort sites: for EVERY order in which the runtime may deliver the map entries
      (an arbitrary permutation), the emitted import block is the same ... *)
Theorem C15_import_block_independent_of_map_order :
  forall imps imps', NoDup (map i_path imps) -> Permutation imps imps' -> block imps = block imps'.
Proof. exact import_block_order_independent. Qed.
Print Assumptions C15_import_block_independent_of_map_order.

(* 3. ... and so is any sorted list of distinct strings (the extension-dependency list). *)
Theorem C15_sorted_dependency_list_independent_of_map_order :
  forall l l' : list str, NoDup l -> Permutation l l' ->
    C15.Proofs.sort (fun s => s) l = C15.Proofs.sort (fun s => s) l'.
Proof. exact sorted_strings_order_independent. Qed.
Print Assumptions C15_sorted_dependency_list_independent_of_map_order.

(* 4. The sorting calls those sites rely on are present in the source, comparator included. *)
Theorem C15_sorting_calls_present : forallb (fun s => existsb (pair_eqb s) sort_calls) required_sorts = true.
Proof. exact Sorts_present. Qed.
Print Assumptions C15_sorting_calls_present.

(* ---- non-vacuity ---- *)
Example ex_perm :
  let a := mkImp [111; 115]%N [111; 115]%N false true [111; 115]%N false in
  let b := mkImp [102; 109; 116]%N [102; 109; 116]%N false true [102; 109; 116]%N false in
  block [a; b] = block [b; a] /\ block [a; b] = [(1, [], [102; 109; 116]%N); (1, [], [111; 115]%N)].
Proof. vm_compute. split; reflexivity. Qed.
