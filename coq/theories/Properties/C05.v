(* C05 — property theorems only. *)
From Coq Require Import List NArith ZArith QArith Bool.
From GV Require Import Go.Kinds C05.Model C05.Proofs.
From GVGen Require Import Tables.
Import ListNotations.
Local Close Scope Q_scope.

(* 0. The regenerated representability table is the Go specification's. *)
Theorem C05_tables_agree : forall k, is_typed_int k = true -> range_of k tkindRanges = int_range k.
Proof. exact Tables_agree_tkindRanges. Qed.
Print Assumptions C05_tables_agree.

(* 1. Untyped integer / rune constants of ANY magnitude into every integer type (named or not):
      accepted exactly when representable. *)
Theorem C05_int_constant_assignable_iff_representable :
  forall tk named vk z, is_typed_int tk = true -> (vk = KUntypedInt \/ vk = KUntypedRune) ->
    assignableConv (TB vk false) (TB tk named) (Some (CInt z)) (go_ta_basic vk tk) = Ok (representable (CInt z) tk).
Proof. intros; now apply assign_int_const. Qed.
Print Assumptions C05_int_constant_assignable_iff_representable.

(* 2. Untyped float constants (any exact rational) into every integer type: accepted exactly when
      integral and in range. *)
Theorem C05_float_constant_into_integer_iff_representable :
  forall tk named q, is_typed_int tk = true ->
    assignableConv (TB KUntypedFloat false) (TB tk named) (Some (CFloat q))
                   (go_ta_basic (if q_is_int q then KUntypedInt else KUntypedFloat) tk) =
    Ok (representable (CFloat q) tk).
Proof. intros; now apply assign_float_const. Qed.
Print Assumptions C05_float_constant_into_integer_iff_representable.

(* 3. The full statement "every untyped constant into every basic type agrees with the spec" is
      REFUTED on the pinned tree; each witness is a listed known finding (classes 1-4). *)
Theorem C05_assign_const_refuted :
  (* complex constant into int: run-time fault instead of a verdict *)
  assignableConv (TB KUntypedComplex false) (TB KInt false) (Some (CComplex 0 0)) true = Fault /\
  (* 0i into float64: rejected although representable *)
  assignableConv (TB KUntypedComplex false) (TB KFloat64 false) (Some (CComplex 0 0)) true = Ok false /\
  representable (CComplex 0 0) KFloat64 = true /\
  (* 2^128 into float32: accepted although it overflows *)
  assignableConv (TB KUntypedInt false) (TB KFloat32 false) (Some (CInt (2 ^ 128))) true = Ok true /\
  representable (CInt (2 ^ 128)) KFloat32 = false.
Proof. vm_compute. repeat split. Qed.
Print Assumptions C05_assign_const_refuted.

(* 4. Comparability of two typed operands is symmetric (whenever neither order faults). *)
Theorem C05_comparable_symmetric_typed :
  forall V T cv ct same a b r1 r2,
    is_untyped_basic V = None -> is_untyped_basic T = None ->
    comparableTo V T cv ct same a b = Ok r1 -> comparableTo T V ct cv same b a = Ok r2 -> r1 = r2.
Proof. exact comparable_typed_symmetric. Qed.
Print Assumptions C05_comparable_symmetric_typed.

(* 5. ... but with untyped constant operands it is not: REFUTED (class 11): 0.5 against 1. *)
Theorem C05_comparable_symmetric_refuted :
  comparableTo (TB KUntypedFloat false) (TB KUntypedInt false) (Some (CFloat (1 # 2))) (Some (CInt 1)) false true true = Ok false /\
  comparableTo (TB KUntypedInt false) (TB KUntypedFloat false) (Some (CInt 1)) (Some (CFloat (1 # 2))) false true true = Ok true /\
  spec_compare_consts KUntypedFloat KUntypedInt = true.
Proof. vm_compute. repeat split. Qed.
Print Assumptions C05_comparable_symmetric_refuted.

(* 6. ConvertibleTo is the library's verdict: the case handled in front of it is one the library
      already accepts. *)
Theorem C05_convertible_is_library :
  forall V T tc, (forall n, V = TB KUnsafePointer false -> T = TO OPtr n -> tc = true) -> convertibleTo V T tc = tc.
Proof. exact convertible_is_library. Qed.
Print Assumptions C05_convertible_is_library.

(* ---- non-vacuity ---- *)
Example ex_boundaries :
  assignableConv (TB KUntypedInt false) (TB KInt8 true) (Some (CInt 127)) (go_ta_basic KUntypedInt KInt8) = Ok true /\
  assignableConv (TB KUntypedInt false) (TB KInt8 true) (Some (CInt 128)) (go_ta_basic KUntypedInt KInt8) = Ok false /\
  assignableConv (TB KUntypedFloat false) (TB KUint8 false) (Some (CFloat (510 # 2))) (go_ta_basic KUntypedInt KUint8) = Ok true /\
  assignableConv (TB KUntypedFloat false) (TB KUint8 false) (Some (CFloat (5 # 2))) (go_ta_basic KUntypedFloat KUint8) = Ok false.
Proof. vm_compute. repeat split. Qed.
