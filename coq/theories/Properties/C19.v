(* C19 — property theorems only. *)
From Coq Require Import List NArith ZArith Bool.
From GV Require Import Lib.Bytes C19.TypeModel C19.MapModel C19.MapProofs C19.HashProofs C19.EquivProofs.
Import ListNotations.

(* 1. Identical types always hash equally: for every pointer-hash function,
      every pair of types of the model syntax (a generic signature at most at
      the root, as in Go). *)
Theorem C19_identical_types_hash_equally :
  forall (ptr : N -> N) (a b : ty),
    wf_top a = true -> ident false a b = true -> hash ptr false a = hash ptr false b.
Proof. exact hash_respects_identical. Qed.
Print Assumptions C19_identical_types_hash_equally.

(* 2. The model of types.Identical is an equivalence (in both hashing modes). *)
Theorem C19_identity_is_equivalence :
  forall g, (forall a, ident g a a = true) /\ (forall a b, ident g a b = ident g b a) /\
            (forall a b c, ident g a b = true -> ident g b c = true -> ident g a c = true).
Proof. intros g. split; [apply ident_refl|split; [apply ident_sym|apply ident_trans]]. Qed.
Print Assumptions C19_identity_is_equivalence.

(* 3. For every history of Set/Delete/At/Len/Keys the bucket-and-tombstone map
      returns exactly what the reference association list (compared with the
      identity relation) returns; key listings agree up to identity, with equal
      length.  Stated for an arbitrary key type whose identity is an equivalence
      respected by the hash ... *)
Theorem C19_map_refines_alist_generic :
  forall (K V : Type) (hash : K -> N) (ident : K -> K -> bool),
    (forall a, ident a a = true) -> (forall a b, ident a b = ident b a) ->
    (forall a b c, ident a b = true -> ident b c = true -> ident a c = true) ->
    (forall a b, ident a b = true -> hash a = hash b) ->
    forall ops : list (mop (K:=K) (V:=V)),
      Forall2 (res_agree ident) (snd (m_run hash ident empty ops)) (snd (r_run ident [] ops)).
Proof. intros K V hash ident R S T H ops. now apply histories_refine. Qed.
Print Assumptions C19_map_refines_alist_generic.

(* ... 4. and instantiated with types as keys, the transcribed hasher and the
      transcribed identity: no hypothesis is left. *)
Definition wty := { t : ty | wf_top t = true }.
Definition whash (ptr : N -> N) (k : wty) : N := hash ptr false (proj1_sig k).
Definition wident (a b : wty) : bool := ident false (proj1_sig a) (proj1_sig b).

Theorem C19_type_map_refines_alist :
  forall (ptr : N -> N) (V : Type) (ops : list (mop (K:=wty) (V:=V))),
    Forall2 (res_agree wident) (snd (m_run (whash ptr) wident empty ops)) (snd (r_run wident [] ops)).
Proof.
  intros ptr V ops. apply histories_refine; unfold wident, whash.
  - intros a. apply ident_refl.
  - intros a b. apply ident_sym.
  - intros a b c. apply ident_trans.
  - intros [a Wa] [b Wb]. cbn [proj1_sig]. now apply hash_respects_identical.
Qed.
Print Assumptions C19_type_map_refines_alist.

(* ---- non-vacuity ---- *)
Definition ex_sig1 : ty :=  (* func[T any, U comparable](a T, b ...[]U) map[T]U with T,U objects 1,2 *)
  TSig true (TCons (TIface MNil TSAll) (TCons (TIface MNil TSAll) TNil))
       (TCons (TParam 1 0) (TCons (TSlice (TParam 2 1)) TNil)) (TCons (TMap (TParam 1 0) (TParam 2 1)) TNil).
Definition ex_sig2 : ty :=  (* the same with renamed type parameters (objects 7,8) *)
  TSig true (TCons (TIface MNil TSAll) (TCons (TIface MNil TSAll) TNil))
       (TCons (TParam 7 0) (TCons (TSlice (TParam 8 1)) TNil)) (TCons (TMap (TParam 7 0) (TParam 8 1)) TNil).
Example ex_generic_sigs_identical : wf_top ex_sig1 = true /\ ident false ex_sig1 ex_sig2 = true.
Proof. split; reflexivity. Qed.
Example ex_hole_reuse :
  (* Set a, Set b (same bucket), Delete a, Set c reuses the hole; Len = 2 *)
  let h := fun _ : nat => 5%N in
  let ops := [MSet 1 10; MSet 2 20; MDelete 1; MSet 3 30; MLen; MAt 2; MKeys] in
  snd (m_run h Nat.eqb empty ops) =
  [RPrev None; RPrev None; RDel true; RPrev None; RLen 2; RVal (Some 20); RKeys [3; 2]].
Proof. vm_compute. reflexivity. Qed.
