(* C07 — property theorems only. *)
From Coq Require Import List Arith NArith Bool.
From GV Require Import C07.Model C07.Proofs.
Import ListNotations.

(* 1. Soundness of the typed-argument phase: whatever bindings come out extend the explicit ones and
      make every parameter type equal to the type of its (typed) argument. *)
Theorem C07_inferred_bindings_fit_the_arguments :
  forall ps args s s', args_ground args = true ->
    unify_typed ps args s = Some s' -> ext s s' /\ typed_ok s' ps args.
Proof. exact unify_typed_sound. Qed.
Print Assumptions C07_inferred_bindings_fit_the_arguments.

(* 2. Completeness and generality: if ANY assignment tau of the type parameters (extending the
      explicit ones) makes the parameter types equal to the argument types, inference of the typed
      phase succeeds, and what it binds is bound the same way in tau — the inferred type arguments
      are the only possible ones and nothing inferable is rejected. *)
Theorem C07_inference_finds_the_unique_solution :
  forall ps args s tau, args_ground args = true -> ext s tau -> typed_ok tau ps args ->
    exists s', unify_typed ps args s = Some s' /\ ext s' tau.
Proof. exact unify_typed_complete. Qed.
Print Assumptions C07_inference_finds_the_unique_solution.

(* 3. one type parameter used at two different types is rejected (witness) *)
Theorem C07_conflict_rejected :
  unify_typed [GParam 0; GSlice (GParam 0)] [ATyped (GAtom 1); ATyped (GSlice (GAtom 5))] [None] = None.
Proof. exact conflicting_arguments_rejected. Qed.
Print Assumptions C07_conflict_rejected.

(* ---- non-vacuity ---- *)
Example ex_infer :
  let under := fun n : N => GAtom n in
  infer under (fun _ => true) [CCore (GSlice (GParam 1)); CAny; CComparable]
        [GParam 0; GMap (GParam 2) (GParam 1); GParam 2]
        [ATyped (GSlice (GAtom 3)); ATyped (GMap (GAtom 5) (GAtom 3)); ATyped (GAtom 5)] []
  = Some [GSlice (GAtom 3); GAtom 3; GAtom 5].
Proof. vm_compute. reflexivity. Qed.
