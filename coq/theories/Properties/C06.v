(* C06 — property theorems only. *)
From Coq Require Import List NArith Bool.
From GV Require Import Lib.Bytes C06.Model C06.Proofs C06.Sites.
From GVGen Require Import Tables.
Import ListNotations.

(* 1. First applicable candidate, no residue.  For ANY family (any number of candidates, any
      behaviour of the matching code that respects the frame condition) and any arguments: the call
      resolves to candidate j with result res and argument elements a' IF AND ONLY IF j is the
      lowest index whose candidate accepts the ORIGINAL arguments, res is its result and a' is what
      that candidate alone leaves behind on the original arguments. *)
Theorem C06_resolves_to_first_applicable_without_residue :
  forall R (try_ : nat -> list elem -> list elem * option R), frame R try_ ->
  forall n args j res a',
    resolve R try_ true n args = Some (j, res, a') <->
    (j < n /\ try_ j args = (a', Some res) /\ forall i, i < j -> snd (try_ i args) = None).
Proof. exact resolve_first_applicable. Qed.
Print Assumptions C06_resolves_to_first_applicable_without_residue.

(* 2. The call is rejected exactly when no candidate accepts the original arguments. *)
Theorem C06_rejected_iff_none_applies :
  forall R (try_ : nat -> list elem -> list elem * option R), frame R try_ ->
  forall n args, resolve R try_ true n args = None <-> forall i, i < n -> snd (try_ i args) = None.
Proof. exact resolve_none. Qed.
Print Assumptions C06_rejected_iff_none_applies.

(* 3. ... as if only the chosen candidate existed. *)
Theorem C06_same_as_family_of_the_chosen_candidate_alone :
  forall R (try_ : nat -> list elem -> list elem * option R), frame R try_ ->
  forall n args j res a',
    resolve R try_ true n args = Some (j, res, a') ->
    resolve R (fun _ => try_ j) true 1 args = Some (0, res, a').
Proof. exact resolve_as_singleton. Qed.
Print Assumptions C06_same_as_family_of_the_chosen_candidate_alone.

(* 4. The frame condition, tied to the source: every assignment to a field of an operand element is
      classified, and those that hit argument elements write only Type or Val, the fields the backup
      covers. *)
Theorem C06_all_element_writes_classified : forallb classified elem_writes = true.
Proof. exact Writes_classified. Qed.
Print Assumptions C06_all_element_writes_classified.

Theorem C06_argument_writes_are_covered_by_the_backup :
  forallb (fun s => match classify s with
                    | Some EArgTV => str_eqb (field_of (snd s)) s_Type || str_eqb (field_of (snd s)) s_Val
                    | _ => true
                    end) elem_writes = true.
Proof. exact Arg_writes_are_Type_or_Val. Qed.
Print Assumptions C06_argument_writes_are_covered_by_the_backup.

(* 5. Restoring is necessary: without it a rejected candidate leaves a trace (witness). *)
Theorem C06_without_restore_refuted :
  let args := [mkElem 1 10 0 0; mkElem 2 20 0 0] in
  resolve nat ex_try true 2 args = Some (1, 1, args) /\ resolve nat ex_try false 2 args = None.
Proof. exact without_restore_refuted. Qed.
Print Assumptions C06_without_restore_refuted.

(* ---- non-vacuity: the witness family meets the frame condition ---- *)
Example ex_frame_holds : frame nat ex_try.
Proof. exact ex_frame. Qed.
