(* C03 — property theorems only (types reported for expressions over basic kinds; the model is
   C04.Model, shared with C04). *)
From Coq Require Import List NArith ZArith QArith Bool.
From GV Require Import Go.Kinds C04.Model C04.Proofs.
Import ListNotations.
Local Close Scope Q_scope.

(* 1. For expressions over untyped integer constants (any magnitude, any nesting) the reported
      type is Go's: untyped int. *)
Theorem C03_untyped_integer_expressions_typed_as_go :
  forall e, int_expr e = true ->
    forall k c k' c', m_eval e = Ok k c -> s_eval e = SOk k' c' -> k = k'.
Proof.
  intros e He k c k' c' Hm Hs. pose proof (untyped_int_fold_agrees e He) as H.
  unfold agree_int in H. rewrite Hm, Hs in H. destruct H as (-> & -> & _). reflexivity.
Qed.
Print Assumptions C03_untyped_integer_expressions_typed_as_go.

(* 2. The full statement is refuted on the pinned tree: every constant-folded result with a typed
      operand is reported with the untyped kind of its class (class 1), and a shifted untyped rune
      constant is reported untyped int (class 6). *)
Theorem C03_reported_types_refuted :
  (* -int32(1) : untyped int; Go: int32 *)
  m_eval (EUn UNeg (EConv KInt32 (ELit KUntypedInt (CInt 1)))) = Ok KUntypedInt (Some (CInt (-1))) /\
  s_eval (EUn UNeg (EConv KInt32 (ELit KUntypedInt (CInt 1)))) = SOk KInt32 (Some (CInt (-1))) /\
  (* int8(0) < int8(1) is fine (untyped bool both) but uint8(1) << 1 : untyped int; Go: uint8 *)
  m_eval (EBin BShl (EConv KUint8 (ELit KUntypedInt (CInt 1))) (ELit KUntypedInt (CInt 1))) = Ok KUntypedInt (Some (CInt 2)) /\
  s_eval (EBin BShl (EConv KUint8 (ELit KUntypedInt (CInt 1))) (ELit KUntypedInt (CInt 1))) = SOk KUint8 (Some (CInt 2)) /\
  (* 'a' << 1 : untyped int; Go: untyped rune *)
  m_eval (EBin BShl (ELit KUntypedRune (CInt 97)) (ELit KUntypedInt (CInt 1))) = Ok KUntypedInt (Some (CInt 194)) /\
  s_eval (EBin BShl (ELit KUntypedRune (CInt 97)) (ELit KUntypedInt (CInt 1))) = SOk KUntypedRune (Some (CInt 194)).
Proof. vm_compute. repeat split. Qed.
Print Assumptions C03_reported_types_refuted.

(* ---- non-vacuity: a nested untyped integer expression in the domain of theorem 1 ---- *)
Example ex_int_expr :
  let e := EBin BMul (EBin BAdd (ELit KUntypedInt (CInt 3)) (EUn UNeg (ELit KUntypedInt (CInt 4)))) (ELit KUntypedInt (CInt 18446744073709551616)) in
  int_expr e = true /\ exists c, m_eval e = Ok KUntypedInt c.
Proof. vm_compute. split; [reflexivity|eexists; reflexivity]. Qed.
