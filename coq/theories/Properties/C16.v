(* C16 — property theorems only. *)
From Coq Require Import List Arith Bool.
From GV Require Import C16.Model C16.Proofs C16.Files.
Import ListNotations.

(* 1. Every statement, of any nesting depth and shape, run by its canonical
      operation sequence from a state whose operand stack is at the block base,
      terminates without an ill-formed step and gives back exactly the state it
      found — stack length, base, scope, current function, label context and the whole chain of
      saved block contexts; only the fresh-identity counters advance. *)
Theorem C16_statement_restores_state :
  forall s b sc f l sv ns nf,
    run (compile s) (mkSt b b sc f l sv ns nf) = Some (mkSt b b sc f l sv (ns + nsc s) (nf + nfc s)).
Proof. exact stmt_balanced. Qed.
Print Assumptions C16_statement_restores_state.

(* 2. ... and so does every statement list (a block body) and every function. *)
Theorem C16_body_and_function_restore_state :
  forall nl body b sc f l sv ns nf,
    run (compile_list body) (mkSt b b sc f l sv ns nf) = Some (mkSt b b sc f l sv (ns + nsc_list body) (nf + nfc_list body)) /\
    run (compile_func nl body) (mkSt b b sc f l sv ns nf) = Some (mkSt b b sc f l sv (S ns + nsc_list body) (S nf + nfc_list body)).
Proof. intros. split; [apply list_balanced|apply func_balanced]. Qed.
Print Assumptions C16_body_and_function_restore_state.

(* 3. Each operation changes the operand stack by its documented arity. *)
Theorem C16_operation_arity :
  forall o s s', bstep s o = Some s' ->
    match o with
    | OPush => stk s' = S (stk s)
    | OBinary => S (stk s') = stk s
    | OUnary => stk s' = stk s
    | OCall n => stk s' + n = stk s
    | OStmt k => stk s' + k = stk s
    | _ => True
    end.
Proof. exact arity. Qed.
Print Assumptions C16_operation_arity.

(* 4. Closing a block truncates the stack to the block's base even if the body leaked operands. *)
Theorem C16_close_truncates : forall s s', bstep s OClose = Some s' -> stk s' = base s.
Proof. exact close_truncates. Qed.
Print Assumptions C16_close_truncates.

(* 5. Whichever files are current: switching the current file anywhere inside a construct (any
      interleaving l of file switches with the construct's operations) changes nothing - the
      statement, body or function restores the state exactly as before and the current file is the
      last one that was set. *)
Theorem C16_balanced_whichever_files_are_current :
  forall (l : list fop) s b sc f lb sv ns nf file,
    strip l = compile s ->
    frun l (mkSt b b sc f lb sv ns nf, file)
      = Some (mkSt b b sc f lb sv (ns + nsc s) (nf + nfc s), last_file file l).
Proof. intros l s b sc f lb sv ns nf file H. rewrite frun_strip, H, stmt_balanced. reflexivity. Qed.
Print Assumptions C16_balanced_whichever_files_are_current.

(* ---- non-vacuity ---- *)
Example ex_nested :
  let s := CIf (CCons (CFor true true (CCons (CSwitch true (CCCons false (CCons (CClosure 2 (CCons (CReturn false) CNil)) (CCons (CInline (CCons CConstExpr (CCons CCall CNil))) (CCons (CVBlock (CCons CDefine (CCons (CBlock (CCons CCall CNil)) CNil))) CNil)))
                 (CCCons true (CCons CBranch CNil) CCNil))) CNil)) CNil) (EIf (CIf CNil (EBlock (CCons CDefine CNil)))) in
  run (compile s) (mkSt 3 3 7 2 4 [mkFrame 1 4 2 1] 10 5) = Some (mkSt 3 3 7 2 4 [mkFrame 1 4 2 1] (10 + nsc s) (5 + nfc s)) /\
  nsc s = 15 /\ nfc s = 2.
Proof. vm_compute. repeat split. Qed.

Example ex_files :
  let s := CIf (CCons CAssign CNil) ENone in
  let l := match compile s with a :: b :: r => FOp a :: FSet 2 :: FOp b :: FSet 1 :: map FOp r | _ => [] end in
  strip l = compile s /\ last_file 0 l = 1.
Proof. vm_compute. split; reflexivity. Qed.
