(* C04 — property theorems only. *)
From Coq Require Import List NArith ZArith QArith Bool.
From GV Require Import Go.Kinds C04.Model C04.Proofs.
Import ListNotations.
Local Close Scope Q_scope.

(* 1. On expressions over untyped integer constants of ANY magnitude — unary + - ^ and binary
      + - * / % & | ^ &^ nested to ANY depth — the builder carries a constant exactly when Go
      does, with exactly Go's value and kind (integer division truncates), and rejects exactly
      what Go rejects (division by zero). *)
Theorem C04_untyped_integer_constants_fold_exactly :
  forall e, int_expr e = true ->
    match m_eval e, s_eval e with
    | Ok k c, SOk k' c' => k = KUntypedInt /\ k' = KUntypedInt /\ c = c' /\ exists z, c = Some (CInt z)
    | Rejected, SRej => True
    | _, _ => False
    end.
Proof. exact untyped_int_fold_agrees. Qed.
Print Assumptions C04_untyped_integer_constants_fold_exactly.

(* 2. With a TYPED operand the full statement is refuted on the pinned tree (known findings,
      classes 2, 3, 7): overflow is never rejected, the value of a mixed division is not the
      integer quotient, integer-only operators are accepted on floats. *)
Definition i8 (z : Z) := EConv KInt8 (ELit KUntypedInt (CInt z)).
Theorem C04_typed_constants_refuted :
  (* int8(1) + int8(127): accepted with value 128; Go: constant overflow *)
  m_eval (EBin BAdd (i8 1) (i8 127)) = Ok KUntypedInt (Some (CInt 128)) /\ s_eval (EBin BAdd (i8 1) (i8 127)) = SRej /\
  (* int8(300): accepted; Go: not representable *)
  m_eval (i8 300) = Ok KInt8 (Some (CInt 300)) /\ s_eval (i8 300) = SRej /\
  (* int8(1) / 2.0: 1/2; Go: 0 *)
  m_eval (EBin BQuo (i8 1) (ELit KUntypedFloat (CFloat (2 # 1)))) = Ok KUntypedInt (Some (CFloat (1 # 2))) /\
  s_eval (EBin BQuo (i8 1) (ELit KUntypedFloat (CFloat (2 # 1)))) = SOk KInt8 (Some (CInt 0)) /\
  (* f % f on float64 variables: accepted; Go: operator % not defined *)
  m_eval (EBin BRem (EVar KFloat64) (EVar KFloat64)) = Ok KFloat64 None /\
  s_eval (EBin BRem (EVar KFloat64) (EVar KFloat64)) = SRej.
Proof. vm_compute. repeat split. Qed.
Print Assumptions C04_typed_constants_refuted.

(* 3. ... and a valid constant expression is rejected (class 4): 1 << 2.0 *)
Theorem C04_valid_rejected_refuted :
  m_eval (EBin BShl (ELit KUntypedInt (CInt 1)) (ELit KUntypedFloat (CFloat (2 # 1)))) = Rejected /\
  s_eval (EBin BShl (ELit KUntypedInt (CInt 1)) (ELit KUntypedFloat (CFloat (2 # 1)))) = SOk KUntypedInt (Some (CInt 4)).
Proof. vm_compute. split; reflexivity. Qed.
Print Assumptions C04_valid_rejected_refuted.

(* ---- non-vacuity ---- *)
Example ex_big :
  let e := EBin BQuo (EBin BMul (ELit KUntypedInt (CInt (2 ^ 100))) (EUn UNeg (ELit KUntypedInt (CInt 7))))
                     (EBin BAndNot (ELit KUntypedInt (CInt 1000)) (ELit KUntypedInt (CInt 7))) in
  int_expr e = true /\ m_eval e = Ok KUntypedInt (Some (CInt (Z.quot (- 7 * 2 ^ 100) 1000))).
Proof. vm_compute. split; reflexivity. Qed.
