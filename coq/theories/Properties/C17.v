(* C17 — property theorems only (the part of "terminates promptly, no fault" that a model can carry;
   run-time faults and real time/memory are exercised by the harness). *)
From Coq Require Import ZArith Bool Lia List NArith.
From GV Require Import C17.Model C17.Proofs Lib.Bytes C09.Model C09.Proofs C20.Model C20.Proofs.
From GVGen Require Import Tables.

(* 1. Constant shifts: with the guard the source has NOW, every shift that is carried out allocates
      at most bits(operand) + 1074 bits, whatever count was written (a 13-digit count costs nothing:
      it is rejected), and the count reaches the library unwrapped. *)
Theorem C17_constant_shift_cost_bounded :
  forall a s r, fold_shl a s = Some r ->
    (shl_cost a s <= bits a + 1074)%Z /\ (s mod 2 ^ 64 = s)%Z.
Proof. intros a s r H. split; [eapply shl_cost_bounded; eauto|eapply shl_count_not_wrapped; eauto]. Qed.
Print Assumptions C17_constant_shift_cost_bounded.

(* 2. The unbounded loop of the import-name allocator terminates within |taken| + 1 iterations. *)
Theorem C17_import_name_loop_terminates :
  forall taken base, exists nm ren, pick (S (length taken)) 0 taken base = Some (nm, ren).
Proof. exact pick_succeeds. Qed.
Print Assumptions C17_import_name_loop_terminates.

(* 3. Loading a cache file never faults, whatever its bytes (see C20). *)
Theorem C17_cache_load_never_faults :
  forall (b : str) (c : cache), (Z.of_nat (length b) < max_cap)%Z -> fst (load_bytes b c) <> LFault.
Proof. intros; now apply load_bytes_no_fault. Qed.
Print Assumptions C17_cache_load_never_faults.

(* ---- non-vacuity ---- *)
Example ex_shift : fold_shl 1 1074 = Some (2 ^ 1074)%Z /\ fold_shl 1 1075 = None /\ fold_shl 1 (-7) = None /\
                   fold_shl 1 1000000000000 = None.
Proof. vm_compute. repeat split. Qed.
