(* C17 — property theorems only (the part of "terminates promptly, no fault" that a model can carry;
   run-time faults and real time/memory are exercised by the harness). *)
From Coq Require Import ZArith Bool Lia List NArith.
From GV Require Import C17.Model C17.Proofs Lib.Bytes C09.Model C09.Proofs C20.Model C20.Proofs C08.Model C17.MemberCost.
From GVGen Require Import Tables.
Import ListNotations.

(* 1. Constant shifts: with the guard the source has NOW, every shift that is carried out allocates
      at most bits(operand) + 1074 bits, whatever count was written (a 13-digit count costs nothing:
      it is rejected), and the count reaches the library unwrapped. *)
Theorem C17_constant_shift_cost_bounded :
  forall a s r, fold_shl a s = Some r ->
    (shl_cost a s <= bits a + 1074)%Z /\ (s mod 2 ^ 64 = s)%Z.
Proof. intros a s r H. split; [eapply shl_cost_bounded; eauto|eapply shl_count_not_wrapped; eauto]. Qed.
Print Assumptions C17_constant_shift_cost_bounded.

(* 2. The unbounded loop of the import-name allocator terminates within |taken| + 1 iterations. *)
Theorem C17_import_name_loop_terminates :
  forall taken base, exists nm ren, pick (S (length taken)) 0 taken base = Some (nm, ren).
Proof. exact pick_succeeds. Qed.
Print Assumptions C17_import_name_loop_terminates.

(* 3. Loading a cache file never faults, whatever its bytes (see C20). *)
Theorem C17_cache_load_never_faults :
  forall (b : str) (c : cache), (Z.of_nat (length b) < max_cap)%Z -> fst (load_bytes b c) <> LFault.
Proof. intros; now apply load_bytes_no_fault. Qed.
Print Assumptions C17_cache_load_never_faults.

(* 4. Selector lookup is linear in the size of the declarations, whatever the shape of the
      embedding graph (diamond lattices with exponentially many paths, cycles): one Member
      operation makes at most 1 + (total number of fields) findMember invocations, because every
      struct is expanded at most once; gg_findc is C08's lookup model with a counter and returns
      exactly the member C08's model returns. *)
Theorem C17_member_lookup_cost_linear :
  forall (e : env) (name : N) (id : nat) (p : bool),
    snd (gg_findc (S (length e)) e name id p []) <= 1 + total_fields e /\
    fst (fst (gg_findc (S (length e)) e name id p [])) = gg_member e name id p /\
    NoDup (snd (gg_find (S (length e)) e name id p [])).
Proof.
  intros. split; [apply member_lookup_cost_linear|].
  split; [apply member_lookup_is_the_modelled_lookup|apply member_lookup_visits_once].
Qed.
Print Assumptions C17_member_lookup_cost_linear.

(* 5. The same for the assignment-target lookup (MemberRef: refMember / fieldRef). *)
Theorem C17_member_ref_cost_linear :
  forall (e : env) (name : N) (id : nat),
    snd (gg_refc (S (length e)) e name id []) <= 1 + total_fields e /\
    fst (fst (gg_refc (S (length e)) e name id [])) = gg_member_ref e name id.
Proof. exact member_ref_cost_linear. Qed.
Print Assumptions C17_member_ref_cost_linear.

(* ---- non-vacuity ---- *)
Example ex_shift : fold_shl 1 1074 = Some (2 ^ 1074)%Z /\ fold_shl 1 1075 = None /\ fold_shl 1 (-7) = None /\
                   fold_shl 1 1000000000000 = None.
Proof. vm_compute. repeat split. Qed.

(* a 3-level diamond lattice (types 0..5; 0,1 embed *2,*3; 2,3 embed *4,*5; 4,5 have one plain field):
   8 embedding paths, but a missing selector costs 7 invocations = 1 + one per distinct struct reached *)
Example ex_lattice_cost :
  let emb t := mkField 99 true 0 true (FPtr t) in
  let leaf := mkDecl true false [mkField 7 true 0 false (FBasic 2)] [] in
  let e := [mkDecl true false [emb 2; emb 3] []; mkDecl true false [emb 2; emb 3] [];
            mkDecl true false [emb 4; emb 5] []; mkDecl true false [emb 4; emb 5] []; leaf; leaf] in
  gg_findc (S (length e)) e 55 0 false [] = (NotFound, [3; 5; 4; 2; 0], 7) /\ total_fields e = 10.
Proof. vm_compute. split; reflexivity. Qed.
