(* C08 — property theorems only. *)
From Coq Require Import List NArith Arith Bool.
From GV Require Import C08.Model C08.Proofs.
Import ListNotations.

(* 1. Whatever member the builder's lookup returns is a member of that name of the reported
      declaring type — for every type graph (any embedding depth, cycles through pointers
      included), every operand form and every name.  Same for the specification procedure.
      Corollary: a name that no reachable type declares is rejected by both. *)
Theorem C08_lookup_results_designate_named_members :
  forall e name id p nx a,
    designates e name (gg_member e name id p) /\ designates e name (go_lookup e name nx id p a).
Proof. intros. split; [apply gg_member_sound|apply go_lookup_sound]. Qed.
Print Assumptions C08_lookup_results_designate_named_members.

(* 2. The shallowest depth wins when it is depth 0: a field declared directly on the operand's
      struct type is selected by the builder and by Go, whatever is embedded below it. *)
Theorem C08_direct_field_wins :
  forall e name nx id i p a,
    d_struct (getd e id) = true -> d_iface (getd e id) = false ->
    find_method name 0 (d_methods (getd e id)) = None ->
    s_find_method name nx 0 (d_methods (getd e id)) = None ->
    find_field name 0 (d_fields (getd e id)) = Some i ->
    s_find_field name nx 0 (d_fields (getd e id)) = Some i ->
    gg_member e name id p = Found true id i /\ go_lookup e name nx id p a = Found true id i.
Proof.
  intros. split; [now apply gg_direct_field|now apply go_direct_field].
Qed.
Print Assumptions C08_direct_field_wins.

(* 2b. ... and likewise a method declared directly on the operand's named type, for value and
      pointer operands alike: no promoted field or method of the same name shadows it (Go requires
      an addressable or pointer operand for a pointer-receiver method; the builder's deviation from
      that rule is known finding C08-c and outside this statement). *)
Theorem C08_direct_method_wins :
  forall e name nx id i p a,
    d_iface (getd e id) = false ->
    find_method name 0 (d_methods (getd e id)) = Some i ->
    s_find_method name nx 0 (d_methods (getd e id)) = Some i ->
    (d_struct (getd e id) = true -> find_field name 0 (d_fields (getd e id)) = None) ->
    (m_ptr (nth i (d_methods (getd e id)) (mkMethod 0 true 0 false)) = false \/ p = true \/ a = true) ->
    gg_member e name id p = Found false id i /\ go_lookup e name nx id p a = Found false id i.
Proof.
  intros. split; [now apply gg_direct_method|now apply go_direct_method].
Qed.
Print Assumptions C08_direct_method_wins.

(* 3. The full statement "the builder selects what Go's rules designate" is REFUTED on the pinned
      tree; three kernel-computed witnesses (known findings, classes 1-3). *)
Definition ex_env : env :=
  [ mkDecl true false [mkField 9 true 0 true (FNamed 1); mkField 8 true 0 true (FNamed 3)] [];   (* 0: T{D1; E1} *)
    mkDecl true false [mkField 7 true 0 true (FNamed 2)] [];                                       (* 1: D1{D2} *)
    mkDecl true false [mkField 1 true 0 false (FBasic 17)] [];                                     (* 2: D2{X string} *)
    mkDecl true false [mkField 1 true 0 false (FBasic 2)] [];                                      (* 3: E1{X int} *)
    mkDecl true false [mkField 6 true 0 true (FNamed 3); mkField 5 true 0 true (FNamed 5)] [];     (* 4: Amb{E1; A2} *)
    mkDecl true false [mkField 1 true 0 false (FBasic 2)] [];                                      (* 5: A2{X int} *)
    mkDecl true false [] [mkMethod 2 true 0 true] ]%N.                                             (* 6: R with a pointer-receiver method M *)
Theorem C08_lookup_refuted :
  (* depth-first: T.X resolves to D2.X (depth 2) although E1.X is at depth 1 *)
  gg_member ex_env 1 0 false = Found true 2 0 /\ go_lookup ex_env 1 true 0 false true = Found true 3 0 /\
  (* ambiguous selector accepted: first wins *)
  gg_member ex_env 1 4 false = Found true 3 0 /\ go_lookup ex_env 1 true 4 false true = NotFound /\
  (* pointer-receiver method on a non-addressable value accepted *)
  gg_member ex_env 2 6 false = Found false 6 0 /\ go_lookup ex_env 2 true 6 false false = PtrRecv.
Proof. vm_compute. repeat split. Qed.
Print Assumptions C08_lookup_refuted.

(* ---- non-vacuity: the hypotheses of theorem 2 hold on a struct with a direct field and an
        embedded struct declaring the same name deeper ---- *)
Example ex_direct_field :
  let e := [ mkDecl true false [mkField 1 true 0 false (FBasic 2); mkField 9 true 0 true (FNamed 1)] [];
             mkDecl true false [mkField 1 true 0 false (FBasic 17)] [] ]%N in
  d_struct (getd e 0) = true /\ d_iface (getd e 0) = false /\
  find_method 1 0 (d_methods (getd e 0)) = None /\ s_find_method 1 true 0 (d_methods (getd e 0)) = None /\
  find_field 1 0 (d_fields (getd e 0)) = Some 0 /\ s_find_field 1 true 0 (d_fields (getd e 0)) = Some 0 /\
  gg_member e 1 0 false = Found true 0 0 /\ go_lookup e 1 true 0 false true = Found true 0 0.
Proof. vm_compute. repeat split. Qed.

(* T (type 1) declares method M (name 2) and embeds E (type 0), which has a field named M:
   for the operand *T both procedures select T's own method *)
Example ex_direct_method :
  let e := [mkDecl true false [mkField 2 true 0 false (FBasic 17)] [];
            mkDecl true false [mkField 9 true 0 true (FNamed 0)] [mkMethod 2 true 0 false]]%N in
  gg_member e 2 1 true = Found false 1 0 /\ go_lookup e 2 true 1 true false = Found false 1 0.
Proof. vm_compute. split; reflexivity. Qed.
