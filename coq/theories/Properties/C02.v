(* C02 — property theorems only. *)
From Coq Require Import List NArith Bool.
From GV Require Import C02.Model C02.Proofs.
Import ListNotations.

(* 1. Expressions: for EVERY expression tree (any operators, any arity, any depth), the canonical
      operation sequence — operands left to right, then the operator — run on the operand stack
      leaves exactly that tree on top and the rest of the stack untouched: same operators, same
      operands, same order. *)
Theorem C02_expression_tree_is_rebuilt :
  forall e st, eexec (ecompile e) st = Some (e :: st).
Proof. exact expression_rebuilt. Qed.
Print Assumptions C02_expression_tree_is_rebuilt.

(* 2. Statements: the canonical sequence of a statement list (assignments, expression statements,
      returns, if / else, for, blocks, nested to any depth) appends exactly that list to the
      innermost open block and changes nothing else: same statements, same order, same nesting. *)
Theorem C02_statement_list_is_rebuilt :
  forall l ops stk f fs, wft l = true ->
    sexec (tcompile l ++ ops) (stk, f :: fs) = sexec ops (stk, add f l :: fs).
Proof. exact (proj1 (proj2 scompile_correct)). Qed.
Print Assumptions C02_statement_list_is_rebuilt.

Theorem C02_function_body_is_rebuilt :
  forall l, wft l = true ->
    sexec (tcompile l) ([], [mkF KTop None None TNil CNil XNil]) = Some ([], [mkF KTop None None l CNil XNil]).
Proof. exact program_rebuilt. Qed.
Print Assumptions C02_function_body_is_rebuilt.

(* 3. switch statements: the clauses of a switch are collected in order, each with its expressions
      and its body; the default clause is the clause without expressions *)
Theorem C02_switch_clauses_are_rebuilt :
  forall cs ops stk f fs, wfc cs = true -> fk f = KSwitch -> fcond f <> None ->
    sexec (ccompile cs ++ ops) (stk, f :: fs) = sexec ops (stk, addc f cs :: fs).
Proof. exact (proj2 (proj2 scompile_correct)). Qed.
Print Assumptions C02_switch_clauses_are_rebuilt.

(* ---- non-vacuity ---- *)
Example ex_prog :
  let e := ENode 1 (XCons (ELeaf 10) (XCons (ENode 2 (XCons (ELeaf 11) XNil)) XNil)) in
  let l := TCons (SIf e (TCons (SAssign (ELeaf 3) e) TNil) true (TCons (SFor (ELeaf 4) (TCons (SReturn (XCons e XNil)) TNil)) (TCons (SSwitch (ELeaf 5) (CCons (XCons (ELeaf 6) (XCons e XNil)) (TCons (SExpr e) TNil) (CCons XNil TNil CNil))) TNil))) TNil in
  wft l = true /\ sexec (tcompile l) ([], [mkF KTop None None TNil CNil XNil]) = Some ([], [mkF KTop None None l CNil XNil]).
Proof. vm_compute. split; reflexivity. Qed.
