(* C11 — property theorems only. *)
From Coq Require Import List ZArith Bool.
From GV Require Import C11.Model C11.Proofs.
Import ListNotations.

(* 1. Inline closure calls: with one variable per parameter initialised in parameter order, the
      argument expressions are evaluated exactly once each, left to right — the events of the Go
      call — whatever the body does with its parameters. *)
Theorem C11_inline_closure_binds_arguments_once_in_order :
  forall nargs uses, lowered_events Forward nargs uses = go_call_events nargs.
Proof. exact inline_forward_preserves_call_order. Qed.
Print Assumptions C11_inline_closure_binds_arguments_once_in_order.

(* 2. The order emitted at the pinned commit (last parameter first) is refuted; it coincides with
      the Go order only up to one argument. *)
Theorem C11_inline_closure_reverse_order_refuted :
  lowered_events Backward 2 [0; 1] = [1; 0] /\ go_call_events 2 = [0; 1].
Proof. exact inline_backward_refuted. Qed.
Print Assumptions C11_inline_closure_reverse_order_refuted.

(* 3. Enumerators: the lowered loop runs the body on exactly the elements the iterator yields, in
      order, and stops at the first break — for every iterator, body and bound on the iterations. *)
Theorem C11_enumerator_loop_visits_yielded_elements :
  forall (IS EV : Type) (next : IS -> option (EV * IS)) fuel st body,
    lowered_loop IS EV next fuel st body [] = spec_trace IS EV next fuel st body.
Proof. exact enumerator_lowering_visits_the_yielded_elements. Qed.
Print Assumptions C11_enumerator_loop_visits_yielded_elements.

(* 4. Member access on `any` in a loop condition: evaluating the hoisted assertion at the head of
      the body, followed by `if !cond { break }`, is the loop of the source for every condition,
      body and state. *)
Theorem C11_any_member_in_loop_condition_preserved :
  forall (St : Type) (cond : St -> bool) (body : St -> St) fuel s,
    lowering_body St cond body fuel s = source_loop St cond body fuel s.
Proof. exact condition_in_body_preserves_the_loop. Qed.
Print Assumptions C11_any_member_in_loop_condition_preserved.

(* 5. The lowering found at the pinned commit (assertion as the init statement of the for) is
      refuted. *)
Theorem C11_any_member_as_init_statement_refuted :
  let cond := fun n : nat => Nat.ltb n 2 in
  let body := fun n : nat => S n in
  source_loop nat cond body 10 0 = 2 /\ lowering_init nat cond body 10 0 = 10.
Proof. exact condition_as_init_refuted. Qed.
Print Assumptions C11_any_member_as_init_statement_refuted.

(* 6. Boolean to number casts. *)
Theorem C11_bool_cast_is_one_or_zero : forall b, call_closure (closure_if b) = bool_cast b.
Proof. exact bool_cast_lowering. Qed.
Print Assumptions C11_bool_cast_is_one_or_zero.

(* ---- non-vacuity ---- *)
Example ex_enum :
  let next := fun l : list nat => match l with [] => None | x :: r => Some (x, r) end in
  lowered_loop (list nat) nat next 10 [1; 2; 3; 4] (fun v => if Nat.eqb v 3 then Break else Go_on) [] = [1; 2; 3].
Proof. reflexivity. Qed.
