(* C13 — property theorems only. *)
From Coq Require Import List NArith Bool.
From GV Require Import Lib.Bytes C13.Model C13.Proofs C13.Chan.
Import ListNotations.

(* 1. For EVERY type in the expressible domain (wf: names that can be written from the generated
      package, ASCII struct tags, embedded fields named after their type, variadic functions ending
      in a slice, unions that are not a single plain type), whatever its depth, the syntax toType
      emits denotes exactly the original type: element types, array lengths, channel directions,
      field names / embedding / tags, methods and embedded interfaces, parameter and result lists,
      variadic-ness, type arguments, aliases, union and approximation terms, package qualification. *)
Theorem C13_emitted_syntax_denotes_the_type :
  forall (E : env) (t : ty), wf E t = true -> denote E (to_syn t) = t.
Proof. exact roundtrip. Qed.
Print Assumptions C13_emitted_syntax_denotes_the_type.

(* 2. ... and so does the constraint of a type parameter, where an implicit interface around a
      union is written as the bare union. *)
Theorem C13_emitted_constraint_denotes_the_constraint :
  forall (E : env) (t : ty), wf_constraint E t = true -> denote_constraint E (to_constraint t) = t.
Proof. exact constraint_roundtrip. Qed.
Print Assumptions C13_emitted_constraint_denotes_the_constraint.

(* 3. Struct tags: the literal chosen by toTag (raw or quoted) has the tag as its value. *)
Theorem C13_tag_literal_value :
  forall tag, ascii tag = true -> lit_value (to_tag tag) = Some tag.
Proof. exact lit_value_to_tag. Qed.
Print Assumptions C13_tag_literal_value.

(* 4. Token level, channel types: the printed tokens of every nesting of channel types, read by Go's
      parser (an arrow after "chan" always belongs to that chan), give back the same type. *)
Theorem C13_channel_text_roundtrip :
  forall t fuel rest, 2 * cdepth t + 1 <= fuel ->
    cparse fuel (cprint (c_to_syn true t) ++ rest) = Some (t, rest).
Proof. exact chan_roundtrip. Qed.
Print Assumptions C13_channel_text_roundtrip.

(* 5. Without the parenthesisation rule of toChanType (the tree as found at the pinned commit) the
      statement is false: chan (<-chan T) is read back as chan<- (chan T). *)
Theorem C13_channel_rule_needed_refuted_without_it :
  let t := CChan Both (CChan Recv CBase) in
  cprint (c_to_syn false t) = [KChan; KArrow; KChan; KName] /\
  cparse 9 (cprint (c_to_syn false t)) = Some (CChan Send (CChan Both CBase), []) /\
  CChan Send (CChan Both CBase) <> t.
Proof. exact chan_rule_needed. Qed.
Print Assumptions C13_channel_rule_needed_refuted_without_it.

(* ---- non-vacuity: a nested type in the domain ---- *)
Example ex_wf :
  let E := mkEnv [[84]%N] (fun _ _ => false) in
  let t := TMap (TBasic [115;116;114;105;110;103]%N)
             (TChan 0 (TChan 2 (TStruct (FCons [70]%N false [97;96;98;13]%N
                (TFunc true (PCons [120]%N (TSlice (TParam [84]%N)) PNil)
                            (PCons [] (TNamed false 3 [66;117;102]%N TNil) PNil)) FNil)))) in
  wf E t = true /\ denote E (to_syn t) = t.
Proof. vm_compute. split; reflexivity. Qed.
