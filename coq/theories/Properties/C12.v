(* C12 — property theorems only. *)
From Coq Require Import List Arith NArith Bool.
From GV Require Import Lib.Bytes C12.Model C12.Proofs C12.Glue C12.Comments.
Import ListNotations.

(* 1. Lossless: for EVERY expression tree over the 19 binary and 7 prefix operators, parentheses,
      calls, indexing and selectors (any depth, any precedence / associativity combination), the
      tokens the printer emits, read by Go's expression parser, give back the same tree up to
      parentheses.  (wfe: operators sit in positions where Go has them, and the operand of a
      dereference is not a bare binary expression.) *)
Theorem C12_printed_expression_parses_back :
  forall e, wfe e = true ->
    exists n, forall fuel, n <= fuel ->
      exists e', parse_bin fuel 1 (pr 0 e) = Some (e', []) /\ unparen e' = unparen e.
Proof. exact print_parse_roundtrip. Qed.
Print Assumptions C12_printed_expression_parses_back.

(* 2. The hypothesis on dereference cannot be dropped (the printer prints the operand of a StarExpr
      at the lowest precedence): witness. *)
Theorem C12_dereference_of_bare_binary_refuted :
  let e := EUn OMul (EBin OAdd (EId 0) (EId 1)) in
  pr 0 e = [TOp OMul; TId 0; TOp OAdd; TId 1] /\
  parse_bin 10 1 (pr 0 e) = Some (EBin OAdd (EUn OMul (EId 0)) (EId 1), []) /\
  unparen (EBin OAdd (EUn OMul (EId 0)) (EId 1)) <> unparen e.
Proof. exact star_binary_refuted. Qed.
Print Assumptions C12_dereference_of_bare_binary_refuted.

(* 3. Token gluing: whenever two adjacent spellings would be lexed as something else ("- -x",
      "a / *p", "a < -b", "a & ^b", "x + +y", "<- <-c"), the table regenerated from the printer's
      mayCombine asks for a separating blank. *)
Theorem C12_adjacent_tokens_never_merge : glue_safe = true.
Proof. exact glue_safe_true. Qed.
Print Assumptions C12_adjacent_tokens_never_merge.

(* 4. Statement comments: in the printed sequence every comment is directly followed by the head of
      its own statement, and the comment of a statement node is printed exactly once. *)
Theorem C12_comment_directly_before_its_statement :
  forall cm s, placed (emit cm s) = true.
Proof. exact comments_directly_before. Qed.
Print Assumptions C12_comment_directly_before_its_statement.

Theorem C12_comment_printed_exactly_once :
  forall cm s j, NoDup (ids s) -> In j (ids s) ->
    count_occ item_eq_dec (emit cm s) (Com j) = if cm j then 1 else 0.
Proof. exact comment_printed_once. Qed.
Print Assumptions C12_comment_printed_exactly_once.

(* ---- non-vacuity ---- *)
Example ex_expr :
  let e := EBin OSub (EId 0) (EBin OSub (EUn OSub (EUn OSub (EId 1))) (ECall (EUn OMul (EId 2)) (ACons (EBin OMul (EBin OAdd (EId 3) (EId 4)) (EId 5)) ANil))) in
  wfe e = true /\
  pr 0 e = [TId 0; TOp OSub; TLp; TOp OSub; TOp OSub; TId 1; TOp OSub; TLp; TOp OMul; TId 2; TRp; TLp; TLp; TId 3; TOp OAdd; TId 4; TRp; TOp OMul; TId 5; TRp; TRp].
Proof. vm_compute. split; reflexivity. Qed.
