(* C13 — the emitted syntax denotes the original type. *)
From Coq Require Import List NArith ZArith Bool Lia DecimalN.
From GV Require Import Lib.Bytes C13.Model.
Import ListNotations.
Local Open Scope N_scope.

(* ---------- which types the statement quantifies over ---------- *)
Definition ascii (s : str) : bool := forallb (fun c => c <? 128) s.

Definition last_is_slice (ps : params) : bool :=
  (fix go (l : params) : bool :=
     match l with
     | PNil => false
     | PCons _ t PNil => match t with TSlice _ => true | _ => false end
     | PCons _ _ r => go r
     end) ps.

Definition is_union (t : ty) : bool := match t with TUnion _ => true | _ => false end.

Fixpoint wf (E : env) (t : ty) : bool :=
  match t with
  | TBasic name => mem name basic_names && negb (mem name (tparams E))
  | TUnsafePtr => true
  | TNamed alias pkg name targs =>
      Bool.eqb alias (is_alias E pkg name) && wf_tys E targs &&
      (if pkg =? 0 then mem name universe_named && negb (mem name (tparams E))
       else if pkg =? 1 then
         negb (mem name (tparams E)) && negb (mem name basic_names) && negb (str_eqb name s_any)
         && negb (mem name universe_named)
       else negb ((pkg =? unsafe_pkg) && str_eqb name s_pointer))
  | TPtr e | TSlice e | TArray _ e | TChan _ e => wf E e
  | TMap k e => wf E k && wf E e
  | TStruct fs => wf_fields E fs
  | TFunc v ps rs => wf_params E ps && wf_params E rs && (if v then last_is_slice ps else true)
  | TIface anyobj implicit embeds ms =>
      if anyobj then
        negb implicit && (match embeds with TNil => true | _ => false end)
        && (match ms with MNil => true | _ => false end) && negb (mem s_any (tparams E))
      else negb implicit && wf_tys E embeds && wf_methods E ms
  | TUnion ts =>
      wf_terms E ts &&
      match ts with TmNil => false | TmCons tilde _ TmNil => tilde | _ => true end
  | TParam name => mem name (tparams E)
  end
with wf_tys (E : env) (l : tys) : bool :=
  match l with TNil => true | TCons t r => wf E t && wf_tys E r end
with wf_fields (E : env) (l : fields) : bool :=
  match l with
  | FNil => true
  | FCons name emb tag t r =>
      (if emb then str_eqb name (embed_name t) else true) && ascii tag && wf E t && wf_fields E r
  end
with wf_params (E : env) (l : params) : bool :=
  match l with PNil => true | PCons _ t r => wf E t && wf_params E r end
with wf_methods (E : env) (l : methods) : bool :=
  match l with
  | MNil => true
  | MCons _ v ps rs r =>
      wf_params E ps && wf_params E rs && (if v then last_is_slice ps else true) && wf_methods E r
  end
with wf_terms (E : env) (l : terms) : bool :=
  match l with TmNil => true | TmCons _ t r => negb (is_union t) && wf E t && wf_terms E r end.

Scheme ty_ind' := Induction for ty Sort Prop
with tys_ind' := Induction for tys Sort Prop
with fields_ind' := Induction for fields Sort Prop
with params_ind' := Induction for params Sort Prop
with methods_ind' := Induction for methods Sort Prop
with terms_ind' := Induction for terms Sort Prop.
Combined Scheme ty_mutind from ty_ind', tys_ind', fields_ind', params_ind', methods_ind', terms_ind'.

(* ---------- string literals ---------- *)
Lemma unq_qchar c r : c < 128 -> unq (qchar c ++ r) = match unq r with Some t => Some (c :: t) | None => None end.
Proof.
  intros Hc.
  assert (Hin : In c (map N.of_nat (seq 0 128))).
  { replace c with (N.of_nat (N.to_nat c)) by apply Nnat.N2Nat.id.
    apply in_map, in_seq. lia. }
  clear Hc. cbv [seq map] in Hin. cbn in Hin.
  repeat (destruct Hin as [<-|Hin]; [vm_compute qchar; cbn [List.app unq N.eqb Pos.eqb unesc unhex];
                                      try reflexivity; destruct (unq r); reflexivity|]).
  destruct Hin.
Qed.

Lemma unq_quote_body s : ascii s = true -> unq (flat_map qchar s ++ [34]) = Some s.
Proof.
  induction s as [|c s IH]; intros Ha.
  - reflexivity.
  - cbn [ascii forallb] in Ha. apply andb_true_iff in Ha as [Hc Hs].
    cbn [flat_map]. rewrite <- app_assoc, unq_qchar by (apply N.ltb_lt; exact Hc).
    fold (ascii s) in Hs. rewrite (IH Hs). reflexivity.
Qed.

Lemma unquote_quote s : ascii s = true -> unquote (quote s) = Some s.
Proof. intros H. unfold quote, unquote. cbn [N.eqb Pos.eqb]. now apply unq_quote_body. Qed.

Lemma filter_no_cr s : has 13 s = false -> filter (fun x => negb (x =? 13)) s = s.
Proof.
  induction s as [|c s IH]; intros H; [reflexivity|].
  cbn [has existsb] in H. apply orb_false_iff in H as [Hc Hs]. cbn [filter].
  rewrite N.eqb_sym, Hc. cbn [negb]. f_equal. apply IH. exact Hs.
Qed.

Lemma can_backquote_no_cr tag : can_backquote tag = true -> has 13 tag = false.
Proof.
  induction tag as [|c t IH]; intros H; [reflexivity|].
  cbn [can_backquote forallb] in H. apply andb_true_iff in H as [Hc Ht].
  cbn [has existsb]. fold (has 13 t). rewrite (IH Ht), orb_false_r.
  destruct (N.eqb_spec 13 c) as [<-|]; [discriminate Hc|reflexivity].
Qed.

Lemma lit_value_to_tag tag : ascii tag = true -> lit_value (to_tag tag) = Some tag.
Proof.
  intros Ha. unfold to_tag.
  destruct (can_backquote tag) eqn:Hh.
  - unfold lit_value. cbn [N.eqb Pos.eqb]. rewrite removelast_last.
    now rewrite filter_no_cr by (now apply can_backquote_no_cr).
  - unfold lit_value, quote. cbn [N.eqb Pos.eqb]. fold (quote tag). now apply unquote_quote.
Qed.

Lemma d_tag_to_tag tag : ascii tag = true ->
  d_tag (match tag with [] => None | _ => Some (to_tag tag) end) = tag.
Proof.
  intros Ha. destruct tag as [|c t]; [reflexivity|].
  unfold d_tag. now rewrite lit_value_to_tag.
Qed.

(* ---------- array lengths ---------- *)
Lemma atoiN_itoaN n : atoiN (itoaN n) = Some n.
Proof. unfold atoiN, itoaN. rewrite uint_digits_roundtrip. cbn [option_map]. f_equal. apply Unsigned.of_to. Qed.

(* ---------- small facts about the syntax toType produces ---------- *)
Lemma obj_expr_cases pkg name :
  obj_expr pkg name = SIdent name /\ ((pkg =? 0) || (pkg =? 1) = true) \/
  obj_expr pkg name = SSel pkg name /\ ((pkg =? 0) || (pkg =? 1) = false).
Proof. unfold obj_expr. destruct ((pkg =? 0) || (pkg =? 1)); [left|right]; split; reflexivity. Qed.

Definition not_ellipsis (s : syn) : bool := match s with SEllipsis _ => false | _ => true end.

Lemma universe_not_basic name : mem name universe_named = true ->
  mem name basic_names = false /\ str_eqb name s_any = false.
Proof.
  unfold mem, universe_named. cbn [existsb]. rewrite orb_false_r. intros H.
  apply orb_true_iff in H as [H|H]; apply str_eqb_eq in H; subst; vm_compute; split; reflexivity.
Qed.

Lemma any_not_basic : mem s_any basic_names = false.
Proof. vm_compute. reflexivity. Qed.

(* ---------- the round trip ---------- *)
Fixpoint tapp (a b : tys) : tys := match a with TNil => b | TCons t r => TCons t (tapp r b) end.
Lemma tapp_nil a : tapp a TNil = a.
Proof. induction a as [|t r IH]; cbn [tapp]; [reflexivity|now rewrite IH]. Qed.

Section RT.
Variable E : env.

Lemma d_methods_embeds l b : d_methods E (sf_app (to_sembeds l) b) = d_methods E b.
Proof. induction l as [|t r IH]; cbn [to_sembeds sf_app d_methods]; [reflexivity|exact IH]. Qed.

Definition P_ty (t : ty) : Prop :=
  wf E t = true -> denote E (to_syn t) = t /\ not_ellipsis (to_syn t) = true.
Definition P_tys (l : tys) : Prop :=
  wf_tys E l = true ->
  denotes E (to_syns l) = l /\
  (forall b, d_embeds E (sf_app (to_sembeds l) b) = tapp l (d_embeds E b)).
Definition P_fields (l : fields) : Prop := wf_fields E l = true -> d_fields E (to_sfields l) = l.
Definition P_params (l : params) : Prop :=
  wf_params E l = true ->
  d_params E (to_sparams l) = l /\ d_variadic (to_sparams l) = false /\
  (last_is_slice l = true ->
     d_params E (variadic_last (to_sparams l)) = l /\ d_variadic (variadic_last (to_sparams l)) = true).
Definition P_methods (l : methods) : Prop :=
  wf_methods E l = true -> d_methods E (to_smethods l) = l /\ d_embeds E (to_smethods l) = TNil.
Definition P_terms (l : terms) : Prop := wf_terms E l = true -> d_terms E (to_sterms l) = l.

Ltac bools :=
  repeat match goal with
         | H : _ && _ = true |- _ => apply andb_true_iff in H as [? ?]
         | H : negb _ = true |- _ => apply negb_true_iff in H
         end.

Definition resolve (x : syn) (args : tys) : ty :=
  match x with SIdent n => d_ident E n args | SSel p n => d_sel E p n args | _ => TBasic [] end.

Lemma denote_obj pkg name : denote E (obj_expr pkg name) = resolve (obj_expr pkg name) TNil.
Proof. unfold obj_expr. destruct ((pkg =? 0) || (pkg =? 1)); reflexivity. Qed.

Lemma resolve_named alias pkg name args :
  Bool.eqb alias (is_alias E pkg name) = true ->
  (if pkg =? 0 then mem name universe_named && negb (mem name (tparams E))
   else if pkg =? 1 then
     negb (mem name (tparams E)) && negb (mem name basic_names) && negb (str_eqb name s_any)
     && negb (mem name universe_named)
   else negb ((pkg =? unsafe_pkg) && str_eqb name s_pointer)) = true ->
  resolve (obj_expr pkg name) args = TNamed alias pkg name args.
Proof.
  intros Ha Hc. apply eqb_prop in Ha. subst alias. unfold obj_expr.
  destruct (N.eqb_spec pkg 0) as [->|H0].
  - cbn [orb resolve]. bools. unfold d_ident.
    destruct (universe_not_basic name) as [Hb Hy]; [assumption|].
    repeat match goal with H : _ = _ |- _ => rewrite H end. reflexivity.
  - destruct (N.eqb_spec pkg 1) as [->|H1].
    + cbn [orb resolve]. bools. unfold d_ident.
      repeat match goal with H : _ = _ |- _ => rewrite H end. reflexivity.
    + cbn [orb resolve]. bools. unfold d_sel.
      match goal with H : _ = false |- _ => rewrite H end. reflexivity.
Qed.

Lemma obj_not_special pkg name :
  not_ellipsis (obj_expr pkg name) = true /\ (forall z, obj_expr pkg name <> STilde z).
Proof. unfold obj_expr. destruct ((pkg =? 0) || (pkg =? 1)); split; try reflexivity; discriminate. Qed.

Lemma chan_elem_denote d se : denote E (chan_elem d se) = denote E se.
Proof.
  unfold chan_elem. destruct (d =? 0); [|reflexivity].
  destruct se; try reflexivity. destruct (dir =? 2); reflexivity.
Qed.

Lemma str_of_name_opt s : str_of (name_opt s) = s.
Proof. destruct s; reflexivity. Qed.

Lemma match_not_tilde (s : syn) (A : syn -> terms) (B : terms) :
  (forall z, s <> STilde z) -> match s with STilde z => A z | _ => B end = B.
Proof. intros H. destruct s; try reflexivity. exfalso. eapply H. reflexivity. Qed.

Lemma match_not_ellipsis (s : syn) : not_ellipsis s = true ->
  match s with SEllipsis _ => true | _ => false end = false.
Proof. destruct s; try reflexivity. discriminate. Qed.

Lemma vl_cons n t g n2 t2 g2 r :
  variadic_last (SFCons n t g (SFCons n2 t2 g2 r)) = SFCons n t g (variadic_last (SFCons n2 t2 g2 r)).
Proof. reflexivity. Qed.
Lemma vl_nonnil n t g r : exists a b c d, variadic_last (SFCons n t g r) = SFCons a b c d.
Proof. destruct r; cbn [variadic_last]; repeat eexists. Qed.
Lemma dv_cons a b c a2 b2 c2 l :
  d_variadic (SFCons a b c (SFCons a2 b2 c2 l)) = d_variadic (SFCons a2 b2 c2 l).
Proof. reflexivity. Qed.

Lemma to_syn_not_tilde t : wf E t = true -> is_union t = false -> forall z, to_syn t <> STilde z.
Proof.
  intros Hw Hu z. destruct t; cbn [to_syn]; try discriminate.
  - destruct targs; [apply obj_not_special|discriminate].
  - cbn [wf] in Hw. destruct anyobj; [discriminate|]. bools. subst. discriminate.
Qed.

Lemma roundtrip_all :
  (forall t, P_ty t) /\ (forall l, P_tys l) /\ (forall l, P_fields l) /\ (forall l, P_params l) /\
  (forall l, P_methods l) /\ (forall l, P_terms l).
Proof.
  apply ty_mutind; unfold P_ty, P_tys, P_fields, P_params, P_methods, P_terms.
  - (* TBasic *) intros name Hw. cbn [wf] in Hw. bools. cbn [to_syn denote not_ellipsis]. split; [|reflexivity].
    unfold d_ident. repeat match goal with H : _ = _ |- _ => rewrite H end. reflexivity.
  - (* TUnsafePtr *) intros _. cbn [to_syn denote not_ellipsis]. split; [|reflexivity].
    unfold d_sel. rewrite N.eqb_refl, str_eqb_refl. reflexivity.
  - (* TNamed *) intros alias pkg name targs IH Hw. cbn [wf] in Hw.
    apply andb_true_iff in Hw as [Hw Hc]. apply andb_true_iff in Hw as [Ha Ht].
    destruct (IH Ht) as [IHd _]. cbn [to_syn]. destruct targs as [|t0 r0].
    + split; [|apply obj_not_special]. rewrite denote_obj. now apply resolve_named.
    + split; [|reflexivity]. cbn [denote]. rewrite IHd.
      change (resolve (obj_expr pkg name) (TCons t0 r0) = TNamed alias pkg name (TCons t0 r0)).
      now apply resolve_named.
  - (* TPtr *) intros e IH Hw. cbn [wf] in Hw. destruct (IH Hw) as [Hd _]. cbn [to_syn denote not_ellipsis]. now rewrite Hd.
  - (* TSlice *) intros e IH Hw. cbn [wf] in Hw. destruct (IH Hw) as [Hd _]. cbn [to_syn denote not_ellipsis]. now rewrite Hd.
  - (* TArray *) intros n e IH Hw. cbn [wf] in Hw. destruct (IH Hw) as [Hd _].
    cbn [to_syn denote d_len not_ellipsis]. now rewrite atoiN_itoaN, Hd.
  - (* TMap *) intros k IHk e IHe Hw. cbn [wf] in Hw. bools.
    destruct (IHk ltac:(assumption)) as [Hk _]. destruct (IHe ltac:(assumption)) as [He _].
    cbn [to_syn denote not_ellipsis]. now rewrite Hk, He.
  - (* TChan *) intros d e IH Hw. cbn [wf] in Hw. destruct (IH Hw) as [Hd _].
    cbn [to_syn denote not_ellipsis]. now rewrite chan_elem_denote, Hd.
  - (* TStruct *) intros fs IH Hw. cbn [wf] in Hw. cbn [to_syn denote not_ellipsis]. now rewrite (IH Hw).
  - (* TFunc *) intros v ps IHp rs IHr Hw. cbn [wf] in Hw. bools.
    destruct (IHp ltac:(assumption)) as (Hp & Hv & Hvar). destruct (IHr ltac:(assumption)) as (Hr & _ & _).
    cbn [to_syn denote not_ellipsis]. split; [|reflexivity]. destruct v.
    + destruct (Hvar ltac:(assumption)) as [Hp' Hv']. now rewrite Hp', Hv', Hr.
    + now rewrite Hp, Hv, Hr.
  - (* TIface *) intros anyobj implicit embeds IHe ms IHm Hw. cbn [wf] in Hw. destruct anyobj.
    + bools. subst. destruct embeds; [|discriminate]. destruct ms; [|discriminate].
      cbn [to_syn denote not_ellipsis]. split; [|reflexivity]. unfold d_ident.
      match goal with H : mem s_any _ = false |- _ => rewrite H end.
      rewrite any_not_basic, str_eqb_refl. reflexivity.
    + bools. subst. destruct (IHe ltac:(assumption)) as [_ He]. destruct (IHm ltac:(assumption)) as [Hm1 Hm2].
      cbn [to_syn denote not_ellipsis]. split; [|reflexivity].
      rewrite He, Hm2, tapp_nil, d_methods_embeds, Hm1. reflexivity.
  - (* TUnion *) intros ts IH Hw. cbn [wf] in Hw. apply andb_true_iff in Hw as [Ht Hs].
    specialize (IH Ht). cbn [to_syn]. destruct ts as [|a t [|b t' r]]; [discriminate| |].
    + subst a. cbn [to_sterms] in *. cbn [d_terms] in IH. cbn [denote not_ellipsis].
      split; [|reflexivity]. injection IH as IH. now rewrite IH.
    + cbn [to_sterms] in *. cbn [denote not_ellipsis]. split; [|reflexivity]. now rewrite IH.
  - (* TParam *) intros name Hw. cbn [wf] in Hw. cbn [to_syn denote not_ellipsis]. split; [|reflexivity].
    unfold d_ident. now rewrite Hw.
  - (* TNil *) intros _. split; [reflexivity|]. intros b. reflexivity.
  - (* TCons *) intros t IHt r IHr Hw. cbn [wf_tys] in Hw. bools.
    destruct (IHt ltac:(assumption)) as [Ht _]. destruct (IHr ltac:(assumption)) as [Hr1 Hr2].
    cbn [to_syns denotes to_sembeds sf_app d_embeds tapp]. split.
    + now rewrite Ht, Hr1.
    + intros b. now rewrite Ht, Hr2.
  - (* FNil *) reflexivity.
  - (* FCons *) intros name emb tag t IHt r IHr Hw. cbn [wf_fields] in Hw. bools.
    destruct (IHt ltac:(assumption)) as [Ht _].
    cbn [to_sfields d_fields]. rewrite Ht, (IHr ltac:(assumption)), d_tag_to_tag by assumption.
    destruct emb; [|reflexivity].
    match goal with H : str_eqb _ _ = true |- _ => apply str_eqb_eq in H; rewrite <- H end. reflexivity.
  - (* PNil *) intros _. repeat split; try reflexivity. discriminate.
  - (* PCons *) intros name t IHt r IHr Hw. cbn [wf_params] in Hw. bools.
    destruct (IHt ltac:(assumption)) as [Ht Hne]. destruct (IHr ltac:(assumption)) as (Hr & Hv & Hvar).
    cbn [to_sparams d_params]. rewrite Ht, Hr, str_of_name_opt. split; [reflexivity|]. split.
    + destruct r as [|n' t' r'].
      * cbn [to_sparams d_variadic]. now apply match_not_ellipsis.
      * exact Hv.
    + intros Hl. destruct r as [|n' t' r'].
      * cbn [last_is_slice] in Hl. destruct t; try discriminate.
        cbn [to_syn to_sparams variadic_last d_params d_variadic denote str_of].
        cbn [to_syn denote] in Ht. rewrite str_of_name_opt. injection Ht as Ht. now rewrite Ht.
      * change (last_is_slice (PCons n' t' r') = true) in Hl. destruct (Hvar Hl) as [Hp' Hv'].
        change (to_sparams (PCons n' t' r')) with (SFCons (name_opt n') (to_syn t') None (to_sparams r')) in *.
        rewrite vl_cons.
        destruct (vl_nonnil (name_opt n') (to_syn t') None (to_sparams r')) as (a & b & c & d & Hvl).
        rewrite Hvl in *. cbn [d_params]. rewrite dv_cons, Ht, str_of_name_opt.
        cbn [d_params] in Hp'. rewrite Hp'. split; [reflexivity|exact Hv'].
  - (* MNil *) intros _. split; reflexivity.
  - (* MCons *) intros name v ps IHp rs IHr r IHm Hw. cbn [wf_methods] in Hw. bools.
    destruct (IHp ltac:(assumption)) as (Hp & Hv & Hvar). destruct (IHr ltac:(assumption)) as (Hr & _ & _).
    destruct (IHm ltac:(assumption)) as [Hm1 Hm2].
    cbn [to_smethods d_methods d_embeds]. split; [|exact Hm2]. destruct v.
    + destruct (Hvar ltac:(assumption)) as [Hp' Hv']. now rewrite Hp', Hv', Hr, Hm1.
    + now rewrite Hp, Hv, Hr, Hm1.
  - (* TmNil *) reflexivity.
  - (* TmCons *) intros tilde t IHt r IHr Hw. cbn [wf_terms] in Hw. bools.
    destruct (IHt ltac:(assumption)) as [Ht _]. cbn [to_sterms d_terms]. destruct tilde.
    + now rewrite Ht, (IHr ltac:(assumption)).
    + rewrite match_not_tilde by (apply to_syn_not_tilde; assumption).
      now rewrite Ht, (IHr ltac:(assumption)).
Qed.

Theorem roundtrip t : wf E t = true -> denote E (to_syn t) = t.
Proof. intros H. now apply (proj1 roundtrip_all). Qed.

(* constraint position of a type parameter list: an implicit interface around one union (or type)
   is written as that union, and the checker wraps it again *)
Definition is_iface_or_named (t : ty) : bool :=
  match t with TIface _ _ _ _ | TNamed _ _ _ _ => true | _ => false end.

Definition wf_constraint (t : ty) : bool :=
  match t with
  | TIface false true (TCons e TNil) MNil => wf E e && negb (is_iface_or_named e)
  | _ => wf E t && is_iface_or_named t
  end.

Theorem constraint_roundtrip t :
  wf_constraint t = true -> denote_constraint E (to_constraint t) = t.
Proof.
  unfold wf_constraint, to_constraint, denote_constraint. intros H.
  assert (Hgen : wf E t && is_iface_or_named t = true -> 
                 match denote E (to_syn t) with
                 | TIface a i e m => TIface a i e m
                 | TNamed al p n a => TNamed al p n a
                 | t0 => TIface false true (TCons t0 TNil) MNil
                 end = t).
  { intros Hg. apply andb_true_iff in Hg as [Hw Hi]. rewrite (roundtrip _ Hw).
    destruct t; try discriminate; reflexivity. }
  destruct t; try (apply Hgen; exact H).
  destruct anyobj; [apply Hgen; exact H|].
  destruct implicit; [|apply Hgen; exact H].
  destruct embeds as [|e [|e2 r]]; try (apply Hgen; exact H).
  destruct ms; [|apply Hgen; exact H].
  apply andb_true_iff in H as [Hw Hn]. apply negb_true_iff in Hn.
  cbn [to_syn]. rewrite (roundtrip _ Hw). destruct e; try discriminate; reflexivity.
Qed.

End RT.
