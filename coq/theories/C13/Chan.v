(* C13 — token level for channel types, the one place where Go's type grammar needs parentheses
   that the tree does not show: "chan <-chan T" is read as chan<- (chan T).  Printer and parser of
   the channel fragment (transcription of the printer's ChanType case and of go/parser's
   parseChanType), the parenthesisation rule of toChanType, round trip for every nesting, and the
   refutation of the rule-less version (the design-time finding, since repaired). *)
From Coq Require Import List Arith Bool Lia.
Import ListNotations.

Inductive cdir := Both | Send | Recv.
Inductive cty := CBase | CChan (d : cdir) (e : cty).
Inductive csyn := XName | XChan (d : cdir) (x : csyn) | XParen (x : csyn).
Inductive tok := KChan | KArrow | KLp | KRp | KName.

(* toChanType; [rule] = the parenthesisation of a receive-only element under a bidirectional channel *)
Fixpoint c_to_syn (rule : bool) (t : cty) : csyn :=
  match t with
  | CBase => XName
  | CChan d e =>
      let se := c_to_syn rule e in
      XChan d (match d, se with
               | Both, XChan Recv _ => if rule then XParen se else se
               | _, _ => se
               end)
  end.

(* printer: "chan", "chan<-", "<-chan" followed by the element; parentheses as in the tree *)
Fixpoint cprint (s : csyn) : list tok :=
  match s with
  | XName => [KName]
  | XParen x => KLp :: cprint x ++ [KRp]
  | XChan Both x => KChan :: cprint x
  | XChan Send x => KChan :: KArrow :: cprint x
  | XChan Recv x => KArrow :: KChan :: cprint x
  end.

(* go/parser parseChanType: after "chan" an arrow, if present, always belongs to that chan *)
Definition lift (d : cdir) (o : option (cty * list tok)) : option (cty * list tok) :=
  match o with Some (t, r) => Some (CChan d t, r) | None => None end.

Fixpoint cparse (fuel : nat) (l : list tok) : option (cty * list tok) :=
  match fuel with
  | O => None
  | S f =>
      match l with
      | KName :: r => Some (CBase, r)
      | KLp :: r =>
          match cparse f r with
          | Some (t, KRp :: r') => Some (t, r')
          | _ => None
          end
      | KArrow :: r => match r with KChan :: r2 => lift Recv (cparse f r2) | _ => None end
      | KChan :: r => match r with KArrow :: r2 => lift Send (cparse f r2) | _ => lift Both (cparse f r) end
      | _ => None
      end
  end.

Fixpoint cdepth (t : cty) : nat := match t with CBase => 0 | CChan _ e => S (cdepth e) end.

Definition starts_arrow (l : list tok) : bool := match l with KArrow :: _ => true | _ => false end.

Lemma parse_both f r : starts_arrow r = false -> cparse (S f) (KChan :: r) = lift Both (cparse f r).
Proof. intros H. cbn [cparse]. destruct r as [|k r]; [reflexivity|]. destruct k; try reflexivity. discriminate. Qed.

Lemma parse_paren f r :
  cparse (S f) (KLp :: r) = match cparse f r with Some (t, KRp :: r') => Some (t, r') | _ => None end.
Proof. reflexivity. Qed.

(* under the rule, the text of an element that is not a receive-only channel never starts with an arrow *)
Lemma first_tok e rest :
  (forall e2, e <> CChan Recv e2) -> starts_arrow (cprint (c_to_syn true e) ++ rest) = false.
Proof.
  intros H. destruct e as [|d e]; [reflexivity|]. destruct d; try reflexivity. exfalso. eapply H. reflexivity.
Qed.

Theorem chan_roundtrip t : forall fuel rest,
  2 * cdepth t + 1 <= fuel -> cparse fuel (cprint (c_to_syn true t) ++ rest) = Some (t, rest).
Proof.
  induction t as [|d e IH]; intros fuel rest Hf.
  - destruct fuel; [lia|]. reflexivity.
  - cbn [cdepth] in Hf. destruct fuel as [|f]; [lia|]. destruct d.
    + (* Both *)
      assert (Hcase : (exists e2, e = CChan Recv e2) \/ (forall e2, e <> CChan Recv e2)).
      { destruct e as [|d2 e2]; [right; discriminate|]. destruct d2; [right; discriminate|right; discriminate|left; eauto]. }
      destruct Hcase as [[e2 ->]|Hn].
      * change (c_to_syn true (CChan Both (CChan Recv e2)))
          with (XChan Both (XParen (c_to_syn true (CChan Recv e2)))).
        remember (c_to_syn true (CChan Recv e2)) as X eqn:HX.
        cbn [cprint]. cbn [List.app]. rewrite parse_both by reflexivity.
        destruct f as [|f']; [cbn [cdepth] in Hf; lia|].
        rewrite parse_paren, <- app_assoc. cbn [List.app].
        rewrite IH by (cbn [cdepth] in *; lia). reflexivity.
      * assert (Hs : c_to_syn true (CChan Both e) = XChan Both (c_to_syn true e)).
        { destruct e as [|d2 e2]; [reflexivity|]. destruct d2; try reflexivity. exfalso. eapply Hn. reflexivity. }
        rewrite Hs. cbn [cprint]. cbn [List.app]. rewrite parse_both by (now apply first_tok).
        rewrite IH by lia. reflexivity.
    + (* Send *)
      change (c_to_syn true (CChan Send e)) with (XChan Send (c_to_syn true e)).
      cbn [cprint List.app cparse]. rewrite IH by lia. reflexivity.
    + (* Recv *)
      change (c_to_syn true (CChan Recv e)) with (XChan Recv (c_to_syn true e)).
      cbn [cprint List.app cparse]. rewrite IH by lia. reflexivity.
Qed.

Corollary chan_roundtrip_closed t :
  cparse (2 * cdepth t + 1) (cprint (c_to_syn true t)) = Some (t, []).
Proof. rewrite <- (app_nil_r (cprint _)). now apply chan_roundtrip. Qed.

(* without the rule the statement is false: chan (<-chan T) comes back as chan<- (chan T) *)
Lemma chan_rule_needed :
  let t := CChan Both (CChan Recv CBase) in
  cprint (c_to_syn false t) = [KChan; KArrow; KChan; KName] /\
  cparse 9 (cprint (c_to_syn false t)) = Some (CChan Send (CChan Both CBase), []) /\
  CChan Send (CChan Both CBase) <> t.
Proof. cbn. repeat split. discriminate. Qed.

