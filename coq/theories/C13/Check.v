(* C13 — executable comparisons used by the correspondence check (evaluated with vm_compute). *)
From Coq Require Import List NArith Bool.
From GV Require Import Lib.Bytes C13.Model C13.Proofs C13.Chan.
Import ListNotations.
Local Open Scope N_scope.

Definition ostr_eqb (a b : option str) : bool :=
  match a, b with Some x, Some y => str_eqb x y | None, None => true | _, _ => false end.
Definition olen_eqb (a b : option (option str)) : bool :=
  match a, b with Some x, Some y => ostr_eqb x y | None, None => true | _, _ => false end.

Fixpoint syn_eqb (a b : syn) {struct a} : bool :=
  match a, b with
  | SIdent n1, SIdent n2 => str_eqb n1 n2
  | SSel p1 n1, SSel p2 n2 => (p1 =? p2) && str_eqb n1 n2
  | SIndex x1 a1, SIndex x2 a2 => syn_eqb x1 x2 && syns_eqb a1 a2
  | SStar x1, SStar x2 => syn_eqb x1 x2
  | SArr l1 e1, SArr l2 e2 => olen_eqb l1 l2 && syn_eqb e1 e2
  | SMap k1 v1, SMap k2 v2 => syn_eqb k1 k2 && syn_eqb v1 v2
  | SChan d1 v1, SChan d2 v2 => (d1 =? d2) && syn_eqb v1 v2
  | SParen x1, SParen x2 => syn_eqb x1 x2
  | SStruct f1, SStruct f2 => sfields_eqb f1 f2
  | SFunc p1 r1, SFunc p2 r2 => sfields_eqb p1 p2 && sfields_eqb r1 r2
  | SEllipsis e1, SEllipsis e2 => syn_eqb e1 e2
  | SIface e1, SIface e2 => sfields_eqb e1 e2
  | STilde x1, STilde x2 => syn_eqb x1 x2
  | SOrs l1, SOrs l2 => syns_eqb l1 l2
  | _, _ => false
  end
with syns_eqb (a b : syns) {struct a} : bool :=
  match a, b with
  | SNil, SNil => true
  | SCons s1 r1, SCons s2 r2 => syn_eqb s1 s2 && syns_eqb r1 r2
  | _, _ => false
  end
with sfields_eqb (a b : sfields) {struct a} : bool :=
  match a, b with
  | SFNil, SFNil => true
  | SFCons n1 t1 g1 r1, SFCons n2 t2 g2 r2 =>
      ostr_eqb n1 n2 && syn_eqb t1 t2 && ostr_eqb g1 g2 && sfields_eqb r1 r2
  | _, _ => false
  end.

Fixpoint ty_eqb (a b : ty) {struct a} : bool :=
  match a, b with
  | TBasic n1, TBasic n2 => str_eqb n1 n2
  | TUnsafePtr, TUnsafePtr => true
  | TNamed a1 p1 n1 l1, TNamed a2 p2 n2 l2 => Bool.eqb a1 a2 && (p1 =? p2) && str_eqb n1 n2 && tys_eqb l1 l2
  | TPtr e1, TPtr e2 => ty_eqb e1 e2
  | TSlice e1, TSlice e2 => ty_eqb e1 e2
  | TArray n1 e1, TArray n2 e2 => (n1 =? n2) && ty_eqb e1 e2
  | TMap k1 e1, TMap k2 e2 => ty_eqb k1 k2 && ty_eqb e1 e2
  | TChan d1 e1, TChan d2 e2 => (d1 =? d2) && ty_eqb e1 e2
  | TStruct f1, TStruct f2 => fields_eqb f1 f2
  | TFunc v1 p1 r1, TFunc v2 p2 r2 => Bool.eqb v1 v2 && params_eqb p1 p2 && params_eqb r1 r2
  | TIface a1 i1 e1 m1, TIface a2 i2 e2 m2 =>
      Bool.eqb a1 a2 && Bool.eqb i1 i2 && tys_eqb e1 e2 && methods_eqb m1 m2
  | TUnion t1, TUnion t2 => terms_eqb t1 t2
  | TParam n1, TParam n2 => str_eqb n1 n2
  | _, _ => false
  end
with tys_eqb (a b : tys) {struct a} : bool :=
  match a, b with
  | TNil, TNil => true
  | TCons t1 r1, TCons t2 r2 => ty_eqb t1 t2 && tys_eqb r1 r2
  | _, _ => false
  end
with fields_eqb (a b : fields) {struct a} : bool :=
  match a, b with
  | FNil, FNil => true
  | FCons n1 e1 g1 t1 r1, FCons n2 e2 g2 t2 r2 =>
      str_eqb n1 n2 && Bool.eqb e1 e2 && str_eqb g1 g2 && ty_eqb t1 t2 && fields_eqb r1 r2
  | _, _ => false
  end
with params_eqb (a b : params) {struct a} : bool :=
  match a, b with
  | PNil, PNil => true
  | PCons n1 t1 r1, PCons n2 t2 r2 => str_eqb n1 n2 && ty_eqb t1 t2 && params_eqb r1 r2
  | _, _ => false
  end
with methods_eqb (a b : methods) {struct a} : bool :=
  match a, b with
  | MNil, MNil => true
  | MCons n1 v1 p1 r1 m1, MCons n2 v2 p2 r2 m2 =>
      str_eqb n1 n2 && Bool.eqb v1 v2 && params_eqb p1 p2 && params_eqb r1 r2 && methods_eqb m1 m2
  | _, _ => false
  end
with terms_eqb (a b : terms) {struct a} : bool :=
  match a, b with
  | TmNil, TmNil => true
  | TmCons x1 t1 r1, TmCons x2 t2 r2 => Bool.eqb x1 x2 && ty_eqb t1 t2 && terms_eqb r1 r2
  | _, _ => false
  end.

(* Type identity ignores parameter and result names, and the Go checker shares ONE instance among identical
   type-argument lists: the names seen inside the type arguments of an instantiated type are those of whichever
   identical instance was created first.  [erase d t] blanks parameter / result names inside type arguments
   (d = inside a type-argument list); everything else, names outside type arguments included, is kept. *)
Fixpoint erase (d : bool) (t : ty) {struct t} : ty :=
  match t with
  | TNamed a p n l => TNamed a p n (erase_tys true l)
  | TPtr e => TPtr (erase d e)
  | TSlice e => TSlice (erase d e)
  | TArray n e => TArray n (erase d e)
  | TMap k e => TMap (erase d k) (erase d e)
  | TChan dir e => TChan dir (erase d e)
  | TStruct fs => TStruct (erase_fields d fs)
  | TFunc v ps rs => TFunc v (erase_params d ps) (erase_params d rs)
  | TIface a i es ms => TIface a i (erase_tys d es) (erase_methods d ms)
  | TUnion ts => TUnion (erase_terms d ts)
  | _ => t
  end
with erase_tys (d : bool) (l : tys) {struct l} : tys :=
  match l with TNil => TNil | TCons t r => TCons (erase d t) (erase_tys d r) end
with erase_fields (d : bool) (l : fields) {struct l} : fields :=
  match l with FNil => FNil | FCons n e g t r => FCons n e g (erase d t) (erase_fields d r) end
with erase_params (d : bool) (l : params) {struct l} : params :=
  match l with PNil => PNil | PCons n t r => PCons (if d then [] else n) (erase d t) (erase_params d r) end
with erase_methods (d : bool) (l : methods) {struct l} : methods :=
  match l with MNil => MNil | MCons n v ps rs r => MCons n v (erase_params d ps) (erase_params d rs) (erase_methods d r) end
with erase_terms (d : bool) (l : terms) {struct l} : terms :=
  match l with TmNil => TmNil | TmCons x t r => TmCons x (erase d t) (erase_terms d r) end.

(* environment of a case: type parameters in scope and the alias names (pkg, name) *)
Definition mk_env (tps : list str) (aliases : list (N * str)) : env :=
  mkEnv tps (fun p n => existsb (fun a => (fst a =? p) && str_eqb (snd a) n) aliases).

(* one case = (type, syntax observed from gogen's toType, type the Go checker resolved the printed text to)
   result bits: K1 model syntax = observed syntax; K2 model denotation of the observed syntax =
   checker's resolution; HYP the theorem's hypothesis wf holds; RT denotation = original *)
Definition run_case (tps : list str) (aliases : list (N * str)) (t : ty) (obs : syn) (back : ty)
  : bool * bool * bool * bool :=
  let E := mk_env tps aliases in
  (syn_eqb (to_syn t) obs, ty_eqb (erase false (denote E obs)) (erase false back), wf E t, ty_eqb (denote E (to_syn t)) t).

(* channel fragment: observed token list of the printed text *)
Definition run_chan (t : cty) (obs : list tok) : bool * bool :=
  let mine := cprint (c_to_syn true t) in
  ((fix eq (a b : list tok) : bool :=
      match a, b with
      | [], [] => true
      | x :: r, y :: r' =>
          (match x, y with KChan, KChan | KArrow, KArrow | KLp, KLp | KRp, KRp | KName, KName => true | _, _ => false end)
          && eq r r'
      | _, _ => false
      end) mine obs,
   match cparse (2 * cdepth t + 1) obs with
   | Some (t', []) =>
       (fix teq (a b : cty) : bool :=
          match a, b with
          | CBase, CBase => true
          | CChan d1 e1, CChan d2 e2 =>
              (match d1, d2 with Both, Both | Send, Send | Recv, Recv => true | _, _ => false end) && teq e1 e2
          | _, _ => false
          end) t' t
   | _ => false
   end).

Record c13case := mkCase {
  c_tps : list str; c_aliases : list (N * str); c_constraint : bool;
  c_t : ty; c_obs : syn; c_back : ty }.

Definition indexed {A} (l : list A) : list (N * A) :=
  (fix go (i : N) (l : list A) := match l with [] => [] | x :: r => (i, x) :: go (i + 1) r end) 0 l.

Definition bad_where (f : c13case -> bool) (cases : list c13case) : list (N * N) :=
  flat_map (fun ic => if f (snd ic) then [] else [(fst ic, 0)]) (indexed cases).

(* K1: the model's syntax is the syntax gogen produced *)
Definition k1_bad := bad_where (fun c => syn_eqb (to_syn (c_t c)) (c_obs c)).
(* K2: the model's denotation of that syntax is what the Go checker resolved it to *)
Definition k2_bad := bad_where (fun c =>
  let E := mk_env (c_tps c) (c_aliases c) in
  ty_eqb (erase false (if c_constraint c then denote_constraint E (c_obs c) else denote E (c_obs c))) (erase false (c_back c))).
(* HYP: the case lies in the domain of the round-trip theorem *)
Definition hyp_bad := bad_where (fun c =>
  let E := mk_env (c_tps c) (c_aliases c) in
  if c_constraint c then wf_constraint E (c_t c) else wf E (c_t c)).

Definition chan_bad (cases : list (cty * list tok)) : list (N * N) :=
  flat_map (fun ic => let '(a, b) := run_chan (fst (snd ic)) (snd (snd ic)) in
                      if a && b then [] else [(fst ic, if a then 2 else 1)]) (indexed cases).
