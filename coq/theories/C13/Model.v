(* C13 — types, the type syntax gogen emits for them (transcription of toType and its helpers in
   ast.go / typeparams.go), and the denotation of that syntax in the generated package's context
   (what the Go type checker resolves the syntax to). *)
From Coq Require Import List NArith ZArith Bool Lia DecimalN.
From GV Require Import Lib.Bytes.
Import ListNotations.
Local Open Scope N_scope.

(* package ids: 0 = universe (error, comparable), 1 = the package being generated, >= 2 imported *)
Inductive ty :=
| TBasic (name : str)                       (* predeclared basic type, printed by name *)
| TUnsafePtr
| TNamed (alias : bool) (pkg : N) (name : str) (targs : tys)
| TPtr (e : ty)
| TSlice (e : ty)
| TArray (n : N) (e : ty)
| TMap (k e : ty)
| TChan (dir : N) (e : ty)                  (* 0 both, 1 send-only, 2 receive-only *)
| TStruct (fs : fields)
| TFunc (variadic : bool) (ps rs : params)
| TIface (anyobj implicit : bool) (embeds : tys) (ms : methods)
| TUnion (ts : terms)
| TParam (name : str)
with tys := TNil | TCons (t : ty) (r : tys)
with fields := FNil | FCons (name : str) (emb : bool) (tag : str) (t : ty) (r : fields)
with params := PNil | PCons (name : str) (t : ty) (r : params)
with methods := MNil | MCons (name : str) (variadic : bool) (ps rs : params) (r : methods)
with terms := TmNil | TmCons (tilde : bool) (t : ty) (r : terms).

(* syntax *)
Inductive syn :=
| SIdent (name : str)
| SSel (pkg : N) (name : str)               (* <import placeholder of pkg>.name *)
| SIndex (x : syn) (args : syns)            (* IndexExpr (one argument) / IndexListExpr *)
| SStar (x : syn)
| SArr (len : option (option str)) (e : syn) (* None: slice; Some None: [...]; Some (Some digits) *)
| SMap (k v : syn)
| SChan (dir : N) (v : syn)
| SParen (x : syn)
| SStruct (fs : sfields)
| SFunc (ps rs : sfields)
| SEllipsis (e : syn)
| SIface (elems : sfields)
| STilde (x : syn)
| SOrs (ts : syns)                          (* a | b | c: the left-nested BinaryExpr chain, flattened *)
with syns := SNil | SCons (s : syn) (r : syns)
with sfields := SFNil | SFCons (name : option str) (t : syn) (tag : option str) (r : sfields).

(* ---------- strconv.Quote / Unquote on ASCII, raw string literals ---------- *)
Definition hexd (n : N) : N := if n <? 10 then 48 + n else 87 + n.
Definition unhex (c : N) : option N :=
  if (48 <=? c) && (c <=? 57) then Some (c - 48)
  else if (97 <=? c) && (c <=? 102) then Some (c - 87) else None.

Definition qchar (c : N) : str :=
  if c =? 34 then [92; 34] else if c =? 92 then [92; 92]
  else if c =? 7 then [92; 97] else if c =? 8 then [92; 98] else if c =? 12 then [92; 102]
  else if c =? 10 then [92; 110] else if c =? 13 then [92; 114] else if c =? 9 then [92; 116]
  else if c =? 11 then [92; 118]
  else if (c <? 32) || (c =? 127) then [92; 120; hexd (c / 16); hexd (c mod 16)]
  else [c].
Definition quote (s : str) : str := 34 :: flat_map qchar s ++ [34].

Definition unesc (e : N) : option N :=
  if e =? 34 then Some 34 else if e =? 92 then Some 92 else if e =? 97 then Some 7
  else if e =? 98 then Some 8 else if e =? 102 then Some 12 else if e =? 110 then Some 10
  else if e =? 114 then Some 13 else if e =? 116 then Some 9 else if e =? 118 then Some 11 else None.

(* body up to and including the closing quote *)
Fixpoint unq (s : str) : option str :=
  match s with
  | [] => None
  | c :: r =>
      if c =? 34 then (match r with [] => Some [] | _ => None end)
      else if c =? 92 then
        match r with
        | e :: r1 =>
            if e =? 120 then
              match r1 with
              | h1 :: h2 :: r2 =>
                  match unhex h1, unhex h2, unq r2 with
                  | Some a, Some b, Some t => Some (16 * a + b :: t)
                  | _, _, _ => None
                  end
              | _ => None
              end
            else match unesc e, unq r1 with Some v, Some t => Some (v :: t) | _, _ => None end
        | [] => None
        end
      else match unq r with Some t => Some (c :: t) | None => None end
  end.
Definition unquote (lit : str) : option str :=
  match lit with c :: r => if c =? 34 then unq r else None | [] => None end.

(* toTag: strconv.CanBackquote on ASCII (no control character other than tab, no DEL, no backquote) *)
Definition can_backquote (tag : str) : bool :=
  forallb (fun c => ((c =? 9) || (32 <=? c)) && negb (c =? 127) && negb (c =? 96)) tag.
Definition to_tag (tag : str) : str :=
  if can_backquote tag then 96 :: tag ++ [96] else quote tag.
(* the value of a Go string literal: raw literals drop carriage returns *)
Definition lit_value (lit : str) : option str :=
  match lit with
  | c :: r => if c =? 96 then Some (filter (fun x => negb (x =? 13)) (removelast r)) else unquote lit
  | [] => None
  end.

(* ---------- array lengths ---------- *)
Definition itoaN (n : N) : str := digits_of_uint (N.to_uint n).
Definition atoiN (s : str) : option N := option_map N.of_uint (uint_of_digits s).

(* ---------- toType ---------- *)
Definition obj_expr (pkg : N) (name : str) : syn :=
  if (pkg =? 0) || (pkg =? 1) then SIdent name else SSel pkg name.

Definition is_snil (l : tys) : bool := match l with TNil => true | _ => false end.

Definition s_any : str := [97; 110; 121].
Definition s_pointer : str := [80; 111; 105; 110; 116; 101; 114].
Definition unsafe_pkg : N := 2.          (* the harness gives package unsafe id 2 *)

(* toVariadic on the last field of a parameter list *)
Fixpoint variadic_last (l : sfields) : sfields :=
  match l with
  | SFNil => SFNil
  | SFCons n t tg SFNil => SFCons n (match t with SArr None e => SEllipsis e | _ => t end) tg SFNil
  | SFCons n t tg r => SFCons n t tg (variadic_last r)
  end.

Definition name_opt (s : str) : option str := match s with [] => None | _ => Some s end.

Fixpoint sf_app (a b : sfields) : sfields :=
  match a with SFNil => b | SFCons n t g r => SFCons n t g (sf_app r b) end.

(* toChanType: a receive-only channel as the element of a bidirectional one is parenthesised *)
Definition chan_elem (d : N) (se : syn) : syn :=
  if d =? 0 then match se with SChan d' _ => if d' =? 2 then SParen se else se | _ => se end else se.

Fixpoint to_syn (t : ty) : syn :=
  match t with
  | TBasic name => SIdent name
  | TUnsafePtr => SSel unsafe_pkg s_pointer
  | TNamed _ pkg name targs =>
      match targs with TNil => obj_expr pkg name | _ => SIndex (obj_expr pkg name) (to_syns targs) end
  | TPtr e => SStar (to_syn e)
  | TSlice e => SArr None (to_syn e)
  | TArray n e => SArr (Some (Some (itoaN n))) (to_syn e)
  | TMap k e => SMap (to_syn k) (to_syn e)
  | TChan d e => SChan d (chan_elem d (to_syn e))
  | TStruct fs => SStruct (to_sfields fs)
  | TFunc v ps rs =>
      SFunc (if v then variadic_last (to_sparams ps) else to_sparams ps) (to_sparams rs)
  | TIface anyobj implicit embeds ms =>
      if anyobj then SIdent s_any
      else match implicit, embeds with
           | true, TCons e TNil => to_syn e
           | _, _ => SIface (sf_app (to_sembeds embeds) (to_smethods ms))
           end
  | TUnion ts =>
      match to_sterms ts with
      | SNil => SIdent []           (* toUnionType returns nil for an empty union *)
      | SCons x SNil => x
      | l => SOrs l
      end
  | TParam name => SIdent name
  end
with to_syns (l : tys) : syns :=
  match l with TNil => SNil | TCons t r => SCons (to_syn t) (to_syns r) end
with to_sfields (l : fields) : sfields :=
  match l with
  | FNil => SFNil
  | FCons name emb tag t r =>
      SFCons (if emb then None else Some name) (to_syn t)
             (match tag with [] => None | _ => Some (to_tag tag) end) (to_sfields r)
  end
with to_sparams (l : params) : sfields :=
  match l with
  | PNil => SFNil
  | PCons name t r => SFCons (name_opt name) (to_syn t) None (to_sparams r)
  end
with to_sembeds (l : tys) : sfields :=
  match l with TNil => SFNil | TCons t r => SFCons None (to_syn t) None (to_sembeds r) end
with to_smethods (l : methods) : sfields :=
  match l with
  | MNil => SFNil
  | MCons name v ps rs r =>
      SFCons (Some name)
             (SFunc (if v then variadic_last (to_sparams ps) else to_sparams ps) (to_sparams rs))
             None (to_smethods r)
  end
with to_sterms (l : terms) : syns :=
  match l with
  | TmNil => SNil
  | TmCons tilde t r => SCons (if tilde then STilde (to_syn t) else to_syn t) (to_sterms r)
  end.

(* constraint position of a type parameter list (toFieldListX): the same toType *)
Definition to_constraint (t : ty) : syn := to_syn t.

(* ---------- denotation: what the checker resolves the syntax to ---------- *)
Record env := mkEnv {
  tparams : list str;                 (* type parameters in scope *)
  is_alias : N -> str -> bool;        (* declared kind of a type name *)
}.

Definition basic_names : list str :=
  [ [98;111;111;108]; [105;110;116]; [105;110;116;56]; [105;110;116;49;54]; [105;110;116;51;50];
    [105;110;116;54;52]; [117;105;110;116]; [117;105;110;116;56]; [117;105;110;116;49;54];
    [117;105;110;116;51;50]; [117;105;110;116;54;52]; [117;105;110;116;112;116;114];
    [102;108;111;97;116;51;50]; [102;108;111;97;116;54;52]; [99;111;109;112;108;101;120;54;52];
    [99;111;109;112;108;101;120;49;50;56]; [115;116;114;105;110;103]; [98;121;116;101]; [114;117;110;101] ].
Definition universe_named : list str :=
  [ [101;114;114;111;114]; [99;111;109;112;97;114;97;98;108;101] ].   (* error, comparable *)

Definition mem (s : str) (l : list str) : bool := existsb (str_eqb s) l.

Definition d_ident (E : env) (name : str) (args : tys) : ty :=
  if mem name (tparams E) then TParam name
  else if mem name basic_names then TBasic name
  else if str_eqb name s_any then TIface true false TNil MNil
  else if mem name universe_named then TNamed (is_alias E 0 name) 0 name args
  else TNamed (is_alias E 1 name) 1 name args.

Definition d_sel (E : env) (pkg : N) (name : str) (args : tys) : ty :=
  if (pkg =? unsafe_pkg) && str_eqb name s_pointer then TUnsafePtr
  else TNamed (is_alias E pkg name) pkg name args.

(* embedName of the denoted type *)
Definition embed_name (t : ty) : str :=
  match (match t with TPtr e => e | _ => t end) with
  | TBasic n => n
  | TUnsafePtr => s_pointer
  | TNamed _ _ n _ => n
  | _ => []
  end.

Definition d_len (l : option (option str)) : option N :=
  match l with Some (Some d) => atoiN d | _ => None end.

Definition d_tag (g : option str) : str :=
  match g with None => [] | Some lit => match lit_value lit with Some v => v | None => [] end end.

Definition str_of (o : option str) : str := match o with Some s => s | None => [] end.

Fixpoint d_variadic (l : sfields) : bool :=
  match l with
  | SFNil => false
  | SFCons _ t _ SFNil => match t with SEllipsis _ => true | _ => false end
  | SFCons _ _ _ r => d_variadic r
  end.

Fixpoint denote (E : env) (s : syn) : ty :=
  match s with
  | SIdent name => d_ident E name TNil
  | SSel pkg name => d_sel E pkg name TNil
  | SIndex x args =>
      match x with
      | SIdent name => d_ident E name (denotes E args)
      | SSel pkg name => d_sel E pkg name (denotes E args)
      | _ => TBasic []
      end
  | SStar x => TPtr (denote E x)
  | SArr None e => TSlice (denote E e)
  | SArr l e => match d_len l with Some n => TArray n (denote E e) | None => TBasic [] end
  | SMap k v => TMap (denote E k) (denote E v)
  | SChan d v => TChan d (denote E v)
  | SParen x => denote E x
  | SStruct fs => TStruct (d_fields E fs)
  | SFunc ps rs => TFunc (d_variadic ps) (d_params E ps) (d_params E rs)
  | SEllipsis e => TSlice (denote E e)
  | SIface elems => TIface false false (d_embeds E elems) (d_methods E elems)
  | STilde x => TUnion (TmCons true (denote E x) TmNil)
  | SOrs l => TUnion (d_terms E l)
  end
with denotes (E : env) (l : syns) : tys :=
  match l with SNil => TNil | SCons s r => TCons (denote E s) (denotes E r) end
with d_fields (E : env) (l : sfields) : fields :=
  match l with
  | SFNil => FNil
  | SFCons n t g r =>
      let dt := denote E t in
      FCons (match n with Some x => x | None => embed_name dt end)
            (match n with Some _ => false | None => true end) (d_tag g) dt (d_fields E r)
  end
with d_params (E : env) (l : sfields) : params :=
  match l with
  | SFNil => PNil
  | SFCons n t _ r => PCons (str_of n) (denote E t) (d_params E r)
  end
with d_embeds (E : env) (l : sfields) : tys :=
  match l with
  | SFNil => TNil
  | SFCons None t _ r => TCons (denote E t) (d_embeds E r)
  | SFCons (Some _) _ _ r => d_embeds E r
  end
with d_methods (E : env) (l : sfields) : methods :=
  match l with
  | SFNil => MNil
  | SFCons (Some n) t _ r =>
      match t with
      | SFunc ps rs => MCons n (d_variadic ps) (d_params E ps) (d_params E rs) (d_methods E r)
      | _ => d_methods E r
      end
  | SFCons None _ _ r => d_methods E r
  end
with d_terms (E : env) (l : syns) : terms :=
  match l with
  | SNil => TmNil
  | SCons s r =>
      match s with
      | STilde z => TmCons true (denote E z) (d_terms E r)
      | _ => TmCons false (denote E s) (d_terms E r)
      end
  end.

(* in the constraint position of a type parameter a non-interface type T stands for interface{T} *)
Definition denote_constraint (E : env) (s : syn) : ty :=
  match denote E s with
  | TIface a i e m => TIface a i e m
  | TNamed al p n a => TNamed al p n a          (* a named interface / constraint *)
  | t => TIface false true (TCons t TNil) MNil
  end.
