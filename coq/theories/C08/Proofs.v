From Coq Require Import List NArith Arith Bool Lia.
From GV Require Import C08.Model.
Import ListNotations.

(* a lookup result really designates a member of that name *)
Definition designates (e : env) (name : N) (r : lres) : Prop :=
  match r with
  | Found true o i => exists f, nth_error (d_fields (getd e o)) i = Some f /\ f_name f = name
  | Found false o i => o = iface_owner \/ exists m, nth_error (d_methods (getd e o)) i = Some m /\ m_name m = name
  | _ => True
  end.

Lemma find_field_sound name fs : forall i0 i,
  find_field name i0 fs = Some i -> exists f, nth_error fs (i - i0) = Some f /\ f_name f = name /\ i0 <= i.
Proof.
  induction fs as [|f r IH]; intros i0 i; cbn [find_field]; [discriminate|].
  destruct (access (f_exported f) (f_pkg f) && N.eqb (f_name f) name) eqn:E.
  - intros H; inversion H; subst. exists f. rewrite Nat.sub_diag. apply andb_prop in E as [_ E].
    apply N.eqb_eq in E. auto.
  - intros H. destruct (IH _ _ H) as (g & Hn & Hg & Hl). exists g.
    replace (i - i0) with (S (i - S i0)) by lia. cbn. repeat split; auto; lia.
Qed.

Lemma find_method_sound name ms : forall i0 i,
  find_method name i0 ms = Some i -> exists m, nth_error ms (i - i0) = Some m /\ m_name m = name /\ i0 <= i.
Proof.
  induction ms as [|m r IH]; intros i0 i; cbn [find_method]; [discriminate|].
  destruct (access (m_exported m) (m_pkg m) && N.eqb (m_name m) name) eqn:E.
  - intros H; inversion H; subst. exists m. rewrite Nat.sub_diag. apply andb_prop in E as [_ E].
    apply N.eqb_eq in E. auto.
  - intros H. destruct (IH _ _ H) as (g & Hn & Hg & Hl). exists g.
    replace (i - i0) with (S (i - S i0)) by lia. cbn. repeat split; auto; lia.
Qed.

Lemma gg_find_sound fuel : forall e name id p vis r vis',
  gg_find fuel e name id p vis = (r, vis') -> designates e name r.
Proof.
  induction fuel as [|fuel IH]; intros e name id p vis r vis'; cbn [gg_find].
  - intros H; inversion H; exact I.
  - set (d := getd e id).
    destruct (d_iface d) eqn:Ei.
    { destruct p; [intros H; inversion H; exact I|].
      destruct (find_method name 0 (d_methods d)); intros H; inversion H; subst; cbn [designates]; auto. }
    destruct (find_method name 0 (d_methods d)) as [mi|] eqn:Em;
    destruct (d_struct d) eqn:Es;
    try destruct (find_field name 0 (d_fields d)) as [fi|] eqn:Ef.
    all: try (destruct p; intros H; inversion H; subst;
              match goal with
              | |- designates _ _ (Found true _ _) =>
                cbn [designates]; destruct (find_field_sound _ _ _ _ Ef) as (f & Hn & Hf & _);
                rewrite Nat.sub_0_r in Hn; eauto
              | |- designates _ _ (Found false _ _) =>
                cbn [designates]; destruct (find_method_sound _ _ _ _ Em) as (m & Hn & Hm & _);
                rewrite Nat.sub_0_r in Hn; right; eauto
              | |- designates _ _ NotFound => exact I
              end; fail).
    (* struct without a direct member: embedded search *)
    destruct p; (destruct (vmem id vis); [intros H; inversion H; exact I|]); clear Em Ef;
    generalize (id :: vis); generalize (d_fields d) as fs0; induction fs0 as [|f fs IHf]; intros v0 H;
      try (inversion H; exact I);
      (destruct (f_emb f); [|eapply IHf; eauto]);
      (destruct (f_ty f) as [k|t|t]; [eapply IHf; eauto| |]);
      (match type of H with context [gg_find fuel e name t ?q v0] =>
         destruct (gg_find fuel e name t q v0) as [r1 v1] eqn:Eg end;
       destruct r1; try (inversion H; subst; eapply IH; eauto; fail); eapply IHf; eauto).
Qed.

Theorem gg_member_sound e name id p : designates e name (gg_member e name id p).
Proof.
  unfold gg_member. destruct (gg_find (S (length e)) e name id p []) as [r v] eqn:E.
  cbn [fst]. eapply gg_find_sound; eauto.
Qed.

(* the specification side *)
Lemma s_find_field_sound name nx fs : forall i0 i,
  s_find_field name nx i0 fs = Some i -> exists f, nth_error fs (i - i0) = Some f /\ f_name f = name /\ i0 <= i.
Proof.
  induction fs as [|f r IH]; intros i0 i; cbn [s_find_field]; [discriminate|].
  destruct (same_id (f_exported f) (f_pkg f) (f_name f) name nx) eqn:E.
  - intros H; inversion H; subst. exists f. rewrite Nat.sub_diag. unfold same_id in E.
    apply andb_prop in E as [E _]. apply N.eqb_eq in E. auto.
  - intros H. destruct (IH _ _ H) as (g & Hn & Hg & Hl). exists g.
    replace (i - i0) with (S (i - S i0)) by lia. cbn. repeat split; auto; lia.
Qed.
Lemma s_find_method_sound name nx ms : forall i0 i,
  s_find_method name nx i0 ms = Some i -> exists m, nth_error ms (i - i0) = Some m /\ m_name m = name /\ i0 <= i.
Proof.
  induction ms as [|m r IH]; intros i0 i; cbn [s_find_method]; [discriminate|].
  destruct (same_id (m_exported m) (m_pkg m) (m_name m) name nx) eqn:E.
  - intros H; inversion H; subst. exists m. rewrite Nat.sub_diag. unfold same_id in E.
    apply andb_prop in E as [E _]. apply N.eqb_eq in E. auto.
  - intros H. destruct (IH _ _ H) as (g & Hn & Hg & Hl). exists g.
    replace (i - i0) with (S (i - S i0)) by lia. cbn. repeat split; auto; lia.
Qed.

Definition lvl_ok (e : env) (name : N) (l : lvl) : Prop :=
  match l with LOne r _ _ => designates e name r | _ => True end.

Lemma lvl_add_ok e name acc r ind mult ptrm :
  lvl_ok e name acc -> designates e name r -> lvl_ok e name (lvl_add acc r ind mult ptrm).
Proof. destruct acc; cbn; auto. destruct mult; cbn; auto. Qed.

Lemma s_level_ok e name nx cur : forall acc next seen acc' next' seen',
  lvl_ok e name acc -> s_level e name nx cur acc next seen = (acc', next', seen') -> lvl_ok e name acc'.
Proof.
  induction cur as [|b r IH]; intros acc next seen acc' next' seen' Hok; cbn [s_level].
  - intros H; inversion H; subst; exact Hok.
  - destruct (vmem (b_id b) seen); [apply IH; exact Hok|].
    destruct (s_find_method name nx 0 (d_methods (getd e (b_id b)))) as [i|] eqn:Em.
    + apply IH. apply lvl_add_ok; [exact Hok|].
      destruct (d_iface (getd e (b_id b))); cbn; [now left|].
      destruct (s_find_method_sound _ _ _ _ _ Em) as (m & Hn & Hm & _). rewrite Nat.sub_0_r in Hn. right; eauto.
    + destruct (d_struct (getd e (b_id b))); [|apply IH; exact Hok].
      destruct (s_find_field name nx 0 (d_fields (getd e (b_id b)))) as [i|] eqn:Ef.
      * apply IH. apply lvl_add_ok; [exact Hok|]. cbn.
        destruct (s_find_field_sound _ _ _ _ _ Ef) as (f & Hn & Hf & _). rewrite Nat.sub_0_r in Hn. eauto.
      * apply IH. exact Hok.
Qed.

Theorem go_lookup_sound e name nx id p a : designates e name (go_lookup e name nx id p a).
Proof.
  unfold go_lookup. destruct (p && d_iface (getd e id)); [exact I|]. generalize [mkB id p false] as cur. generalize (@nil nat) as seen.
  induction (S (length e)) as [|fuel IH]; intros seen cur; cbn [s_bfs]; [exact I|].
  destruct cur as [|b cur]; [exact I|].
  destruct (s_level e name nx (b :: cur) LNone [] seen) as [[l next] seen'] eqn:El.
  pose proof (s_level_ok e name nx _ LNone _ _ _ _ _ I El) as Hok.
  destruct l as [|r ind ptrm|]; [apply IH| |exact I].
  destruct (ptrm && negb ind && negb a); [exact I|exact Hok].
Qed.

(* a member declared directly on the operand's type wins in both procedures (depth 0) *)
Lemma gg_direct_field e name id i :
  d_struct (getd e id) = true -> d_iface (getd e id) = false ->
  find_method name 0 (d_methods (getd e id)) = None ->
  find_field name 0 (d_fields (getd e id)) = Some i ->
  forall p, gg_member e name id p = Found true id i.
Proof.
  intros Hs Hi Hm Hf p. unfold gg_member. cbn [gg_find]. rewrite Hi, Hm, Hs, Hf. destruct p; reflexivity.
Qed.

Lemma go_direct_field e name nx id i p a :
  d_struct (getd e id) = true -> d_iface (getd e id) = false ->
  s_find_method name nx 0 (d_methods (getd e id)) = None ->
  s_find_field name nx 0 (d_fields (getd e id)) = Some i ->
  go_lookup e name nx id p a = Found true id i.
Proof.
  intros Hs Hi Hm Hf. unfold go_lookup. rewrite Hi, andb_false_r. cbn [s_bfs s_level vmem existsb b_id]. rewrite Hm, Hs, Hf.
  cbn [s_level lvl_add b_mult b_ind andb]. reflexivity.
Qed.

(* a method declared directly on the operand's named type wins in both procedures, for value and
   pointer operands alike (a promoted member of the same name never shadows it) *)
Lemma gg_direct_method e name id i :
  d_iface (getd e id) = false ->
  find_method name 0 (d_methods (getd e id)) = Some i ->
  (d_struct (getd e id) = true -> find_field name 0 (d_fields (getd e id)) = None) ->
  forall p, gg_member e name id p = Found false id i.
Proof.
  intros Hi Hm Hf p. unfold gg_member. cbn [gg_find]. rewrite Hi, Hm.
  destruct (d_struct (getd e id)) eqn:Es; [rewrite (Hf eq_refl)|]; destruct p; reflexivity.
Qed.

Lemma go_direct_method e name nx id i p a :
  d_iface (getd e id) = false ->
  s_find_method name nx 0 (d_methods (getd e id)) = Some i ->
  (m_ptr (nth i (d_methods (getd e id)) (mkMethod 0 true 0 false)) = false \/ p = true \/ a = true) ->
  go_lookup e name nx id p a = Found false id i.
Proof.
  intros Hi Hm Hr. unfold go_lookup. rewrite Hi, andb_false_r.
  cbn [s_bfs s_level vmem existsb b_id]. rewrite Hm, Hi.
  cbn [s_level lvl_add b_mult b_ind].
  destruct Hr as [-> | [-> | ->]]; cbn [andb negb]; try reflexivity;
    rewrite ?andb_false_r; reflexivity.
Qed.
