(* C08 — correspondence checker. *)
From Coq Require Import List NArith Arith Bool.
From GV Require Import C08.Model.
Import ListNotations.

Record query := mkQ { q_name : N; q_exported : bool; q_id : nat; q_ptr : bool; q_addr : bool; q_ref : bool;
                      q_obs : lres; q_go : lres }.
Record c08case := mkCase { c_env : env; c_queries : list query }.

Definition lres_eqb (a b : lres) : bool :=
  match a, b with
  | Found k o i, Found k' o' i' => Bool.eqb k k' && Nat.eqb o o' && Nat.eqb i i'
  | NotFound, NotFound | PtrRecv, PtrRecv => true
  | _, _ => false
  end.

Definition model_m (e : env) (q : query) : lres :=
  if q_ref q then gg_member_ref e (q_name q) (q_id q) else gg_member e (q_name q) (q_id q) (q_ptr q).
(* the reference for an assignment target: the looked-up member must be a field *)
Definition model_s (e : env) (q : query) : lres :=
  let r := go_lookup e (q_name q) (q_exported q) (q_id q) (q_ptr q) (q_addr q) in
  if q_ref q then match r with Found true o i => r | _ => NotFound end else r.

(* classes of known deviations: 1 = a deeper member chosen over the shallowest (depth-first search);
   2 = ambiguous selector (two candidates at the shallowest depth) accepted; 3 = pointer-receiver
   method on a non-addressable value accepted; 4 = assignment-target lookup ignores visibility of
   unexported members of other packages; 0 = unclassified *)
Definition dev_class (e : env) (q : query) : option N :=
  let m := model_m e q in let s := model_s e q in
  if lres_eqb m s then None
  else match m, s with
       | Found _ _ _, Found _ _ _ => Some 1%N
       | Found _ _ _, PtrRecv => Some 3%N
       | Found k o i, NotFound =>
           if q_ref q && negb (q_exported q) then Some 4%N else Some 2%N
       | _, _ => Some 0%N
       end.

Fixpoint qbad (f : env -> query -> bool) (e : env) (j : nat) (qs : list query) : list nat :=
  match qs with [] => [] | q :: r => (if f e q then [] else [j]) ++ qbad f e (S j) r end.
Fixpoint collect (f : env -> query -> bool) (i : nat) (cs : list c08case) : list (nat * nat) :=
  match cs with
  | [] => []
  | c :: r => map (fun j => (i, j)) (qbad f (c_env c) 0 (c_queries c)) ++ collect f (S i) r
  end.
Definition k1_bad := collect (fun e q => lres_eqb (model_m e q) (q_obs q)) 0.
Definition k2_bad := collect (fun e q => lres_eqb (model_s e q) (q_go q)) 0.

Fixpoint qdev (e : env) (qs : list query) : list N :=
  match qs with
  | [] => []
  | q :: r => (if lres_eqb (q_obs q) (q_go q) then []
               else [match dev_class e q with Some k => k | None => 0%N end]) ++ qdev e r
  end.
Fixpoint devs (i : nat) (cs : list c08case) : list (nat * N) :=
  match cs with
  | [] => []
  | c :: r => map (fun k => (i, k)) (qdev (c_env c) (c_queries c)) ++ devs (S i) r
  end.
Definition dev_list := devs 0.
