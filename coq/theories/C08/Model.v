(* C08 — selector lookup.
   M: transcription of findMember / normalField / embeddedField / method /
      field (codebuild.go, value side) and refMember / fieldRef (assignment
      target side): depth-first, first hit, visited set of structs, allowAccess.
   S: transcription of go/types lookupFieldOrMethodImpl (the Go spec's selector
      rules): breadth-first by depth, collision at equal depth = not found,
      seen set of named types, pointer-receiver / addressability rule.
   Universe: named types (struct or non-struct underlying) with fields that are
   basic, named or pointer-to-named; methods with value or pointer receivers;
   members belong to a package (0 = the package being built). *)
From Coq Require Import List NArith Arith Bool Lia.
Import ListNotations.

Inductive fty := FBasic (k : N) | FNamed (id : nat) | FPtr (id : nat).
Record field := mkField { f_name : N; f_exported : bool; f_pkg : N; f_emb : bool; f_ty : fty }.
Record method := mkMethod { m_name : N; m_exported : bool; m_pkg : N; m_ptr : bool }.
Record ndecl := mkDecl { d_struct : bool; d_iface : bool; d_fields : list field; d_methods : list method }.
(* d_iface: a named interface type; d_methods is then its complete method set and a hit is
   identified by the method's name: Found false iface_owner name *)
Definition iface_owner : nat := 1000.
Definition env := list ndecl.

Definition getd (e : env) (id : nat) : ndecl := nth id e (mkDecl false false [] []).

(* a member: kind (true = field), declaring named type, index in its field / method list *)
Inductive lres := Found (is_field : bool) (owner : nat) (idx : nat) | NotFound | PtrRecv.

Definition access (exported : bool) (pkg : N) : bool := exported || N.eqb pkg 0.   (* allowAccess *)

Fixpoint find_field (name : N) (i : nat) (fs : list field) : option nat :=
  match fs with
  | [] => None
  | f :: r => if access (f_exported f) (f_pkg f) && N.eqb (f_name f) name then Some i
              else find_field name (S i) r
  end.
Fixpoint find_method (name : N) (i : nat) (ms : list method) : option nat :=
  match ms with
  | [] => None
  | m :: r => if access (m_exported m) (m_pkg m) && N.eqb (m_name m) name then Some i
              else find_method name (S i) r
  end.

Definition vmem (x : nat) (l : list nat) : bool := existsb (Nat.eqb x) l.

(* ---------- M: gogen ---------- *)
(* findMember on Named id (is_ptr = operand is *Named); visited: structs already expanded by embeddedField *)
Fixpoint gg_find (fuel : nat) (e : env) (name : N) (id : nat) (is_ptr : bool) (visited : list nat)
  : lres * list nat :=
  match fuel with
  | 0 => (NotFound, visited)
  | S fuel' =>
    let d := getd e id in
    if d_iface d then
      (if is_ptr then (NotFound, visited)    (* pointer to interface: no members *)
       else match find_method name 0 (d_methods d) with
            | Some _ => (Found false iface_owner (N.to_nat name), visited)
            | None => (NotFound, visited)
            end)
    else
    let meth := match find_method name 0 (d_methods d) with Some i => Some (Found false id i) | None => None end in
    let fld := if d_struct d then
                 match find_field name 0 (d_fields d) with Some i => Some (Found true id i) | None => None end
               else None in
    let first := if is_ptr then (match fld with Some r => Some r | None => meth end)
                 else (match meth with Some r => Some r | None => fld end) in
    match first with
    | Some r => (r, visited)
    | None =>
      if d_struct d then
        if vmem id visited then (NotFound, visited)
        else
          (fix emb (fs : list field) (vis : list nat) : lres * list nat :=
             match fs with
             | [] => (NotFound, vis)
             | f :: r =>
               if f_emb f then
                 match f_ty f with
                 | FNamed t => match gg_find fuel' e name t false vis with
                               | (NotFound, vis') => emb r vis'
                               | found => found
                               end
                 | FPtr t => match gg_find fuel' e name t true vis with
                             | (NotFound, vis') => emb r vis'
                             | found => found
                             end
                 | FBasic _ => emb r vis
                 end
               else emb r vis
             end) (d_fields d) (id :: visited)
      else (NotFound, visited)
    end
  end.

Definition gg_member (e : env) (name : N) (id : nat) (is_ptr : bool) : lres :=
  fst (gg_find (S (length e)) e name id is_ptr []).

(* refMember / fieldRef: fields only, no access check, own fields first then embedded structs in order *)
Fixpoint ref_find_field (name : N) (i : nat) (fs : list field) : option nat :=
  match fs with
  | [] => None
  | f :: r => if N.eqb (f_name f) name then Some i else ref_find_field name (S i) r
  end.
Fixpoint gg_ref (fuel : nat) (e : env) (name : N) (id : nat) (visited : list nat) : lres * list nat :=
  match fuel with
  | 0 => (NotFound, visited)
  | S fuel' =>
    let d := getd e id in
    if negb (d_struct d) then (NotFound, visited) else
    match ref_find_field name 0 (d_fields d) with
    | Some i => (Found true id i, visited)
    | None =>
      if vmem id visited then (NotFound, visited)
      else
        (fix emb (fs : list field) (vis : list nat) : lres * list nat :=
           match fs with
           | [] => (NotFound, vis)
           | f :: r =>
             if f_emb f then
               match f_ty f with
               | FNamed t | FPtr t => match gg_ref fuel' e name t vis with
                                      | (NotFound, vis') => emb r vis'
                                      | found => found
                                      end
               | FBasic _ => emb r vis
               end
             else emb r vis
           end) (d_fields d) (id :: visited)
    end
  end.
Definition gg_member_ref (e : env) (name : N) (id : nat) : lres := fst (gg_ref (S (length e)) e name id []).

(* ---------- S: go/types lookupFieldOrMethod ---------- *)
(* sameId: exported names match by name, unexported ones only inside their own package *)
Definition same_id (exported : bool) (pkg : N) (n name : N) (name_exported : bool) : bool :=
  N.eqb n name && (if name_exported then exported else (negb exported && N.eqb pkg 0)).

Record bentry := mkB { b_id : nat; b_ind : bool; b_mult : bool }.

Fixpoint s_find_field (name : N) (nx : bool) (i : nat) (fs : list field) : option nat :=
  match fs with
  | [] => None
  | f :: r => if same_id (f_exported f) (f_pkg f) (f_name f) name nx then Some i else s_find_field name nx (S i) r
  end.
Fixpoint s_find_method (name : N) (nx : bool) (i : nat) (ms : list method) : option nat :=
  match ms with
  | [] => None
  | m :: r => if same_id (m_exported m) (m_pkg m) (m_name m) name nx then Some i else s_find_method name nx (S i) r
  end.

(* result of scanning one depth level *)
Inductive lvl := LNone | LOne (r : lres) (ind : bool) (is_ptr_method : bool) | LCollision.

Definition lvl_add (acc : lvl) (r : lres) (ind mult ptrm : bool) : lvl :=
  match acc with
  | LNone => if mult then LCollision else LOne r ind ptrm
  | _ => LCollision
  end.

Definition embedded_targets (e : env) (d : ndecl) (ind : bool) (mult : bool) : list bentry :=
  flat_map (fun f =>
    if f_emb f then
      match f_ty f with
      | FNamed t => [mkB t ind mult]
      | FPtr t => [mkB t true mult]
      | FBasic _ => []
      end
    else []) (d_fields d).

(* one level: fold over current entries; returns (match state, next entries, seen) *)
Fixpoint s_level (e : env) (name : N) (nx : bool) (cur : list bentry) (acc : lvl) (next : list bentry)
                 (seen : list nat) : lvl * list bentry * list nat :=
  match cur with
  | [] => (acc, next, seen)
  | b :: r =>
    if vmem (b_id b) seen then s_level e name nx r acc next seen
    else
      let seen' := b_id b :: seen in
      let d := getd e (b_id b) in
      match s_find_method name nx 0 (d_methods d) with
      | Some i =>
          s_level e name nx r (lvl_add acc (if d_iface d then Found false iface_owner (N.to_nat name)
                                            else Found false (b_id b) i) (b_ind b) (b_mult b)
                                 (m_ptr (nth i (d_methods d) (mkMethod 0 true 0 false)))) next seen'
      | None =>
        if d_struct d then
          match s_find_field name nx 0 (d_fields d) with
          | Some i => s_level e name nx r (lvl_add acc (Found true (b_id b) i) (b_ind b) (b_mult b) false) next seen'
          | None =>
            let next' := match acc with
                         | LNone => next ++ embedded_targets e d (b_ind b) (b_mult b)
                         | _ => next
                         end in
            s_level e name nx r acc next' seen'
          end
        else s_level e name nx r acc next seen'
      end
  end.

(* consolidateMultiples: a type reached twice at one depth is kept once and marked *)
Fixpoint consolidate (l : list bentry) (out : list bentry) : list bentry :=
  match l with
  | [] => out
  | b :: r =>
    if existsb (fun o => Nat.eqb (b_id o) (b_id b)) out
    then consolidate r (map (fun o => if Nat.eqb (b_id o) (b_id b) then mkB (b_id o) (b_ind o) true else o) out)
    else consolidate r (out ++ [b])
  end.

Fixpoint s_bfs (fuel : nat) (e : env) (name : N) (nx : bool) (cur : list bentry) (seen : list nat)
               (addressable : bool) : lres :=
  match fuel with
  | 0 => NotFound
  | S fuel' =>
    match cur with
    | [] => NotFound
    | _ =>
      match s_level e name nx cur LNone [] seen with
      | (LCollision, _, _) => NotFound
      | (LOne r ind ptrm, _, _) =>
          if ptrm && negb ind && negb addressable then PtrRecv else r
      | (LNone, next, seen') => s_bfs fuel' e name nx (consolidate next []) seen' addressable
      end
    end
  end.

Definition go_lookup (e : env) (name : N) (nx : bool) (id : nat) (is_ptr addressable : bool) : lres :=
  if is_ptr && d_iface (getd e id) then NotFound     (* pointer to interface *)
  else s_bfs (S (length e)) e name nx [mkB id is_ptr false] [] addressable.
