(* C10 — correspondence checker (vm_compute on harness cases). *)
From Coq Require Import List NArith Bool.
From GV Require Import C10.Model.
Import ListNotations.

Definition diag := (nat * list N * list N)%type.   (* missing-return count, unused labels, duplicate labels (sorted) *)

Inductive c10case :=
| CBuild (funcs : list (nat * stmts)) (events : list lev) (observed reference : diag)
| CBody (body : stmts) (observed_terminating : bool) (has_ref : bool) (ref_missing : bool).

Fixpoint insN (x : N) (l : list N) : list N :=
  match l with [] => [x] | y :: r => if N.leb x y then x :: l else y :: insN x r end.
Definition sortN (l : list N) : list N := fold_right insN [] l.
Fixpoint eqNl (a b : list N) : bool :=
  match a, b with [], [] => true | x :: a', y :: b' => N.eqb x y && eqNl a' b' | _, _ => false end.

Definition model_diag (funcs : list (nat * stmts)) (events : list lev) : diag :=
  (length (filter (fun f => missing_return false (fst f) (snd f)) funcs),
   sortN (unused_labels events), sortN (dup_labels events)).

Definition diag_eqb (a b : diag) : bool :=
  let '(m1, u1, d1) := a in let '(m2, u2, d2) := b in
  Nat.eqb m1 m2 && eqNl u1 (sortN u2) && eqNl d1 (sortN d2).

Definition k1_ok (c : c10case) : bool :=
  match c with
  | CBuild fs ev obs _ => diag_eqb (model_diag fs ev) obs
  | CBody body obs _ _ => Bool.eqb (isTerm (SBlock body) None) obs
  end.
Definition k2_ok (c : c10case) : bool :=
  match c with
  | CBuild fs ev _ ref => diag_eqb (model_diag fs ev) ref
  | CBody body _ true refmiss => Bool.eqb (negb (isTerm (SBlock body) None)) refmiss
  | CBody _ _ false _ => true
  end.

Fixpoint bad_from (f : c10case -> bool) (i : nat) (cs : list c10case) : list (nat * nat) :=
  match cs with [] => [] | c :: r => (if f c then [] else [(i, 0)]) ++ bad_from f (S i) r end.
Definition k1_bad cs := bad_from k1_ok 0 cs.
Definition k2_bad cs := bad_from k2_ok 0 cs.
