From Coq Require Import List NArith Bool Lia Arith PeanoNat.
From GV Require Import C10.Model C10.Spec.
Import ListNotations.

Scheme stmt_mut := Induction for stmt Sort Prop
with stmts_mut := Induction for stmts Sort Prop
with clauses_mut := Induction for clauses Sort Prop.
Combined Scheme stmt_mutind from stmt_mut, stmts_mut, clauses_mut.

Lemma lbl_eqb_some n lbl : lbl_eqb (Some n) lbl = true <-> lbl = Some n.
Proof.
  destruct lbl as [m|]; cbn; [|split; discriminate].
  rewrite N.eqb_eq. split; congruence.
Qed.

Lemma has_label_true lbl : has_label lbl = true <-> exists n, lbl = Some n.
Proof. destruct lbl; cbn; split; eauto; try discriminate. intros [n H]; discriminate. Qed.

Lemma hasBreak_reflects :
  (forall s lbl unl, hasBreak s lbl unl = true <-> Refers s lbl unl) /\
  (forall l lbl unl, hasBreakList l lbl unl = true <-> RefersL l lbl unl) /\
  (forall cs lbl unl, hasBreakClauses cs lbl unl = true <-> RefersC cs lbl unl).
Proof.
  apply stmt_mutind; intros; cbn [hasBreak hasBreakList hasBreakClauses].
  - split; [discriminate|inversion 1].
  - split; [discriminate|inversion 1].
  - (* SRange *) rewrite andb_true_iff, has_label_true, H. split.
    + intros [[n ->] Hr]. now constructor.
    + inversion 1; subst. eauto.
  - (* SLabeled *) rewrite H. split; [now constructor|inversion 1; assumption].
  - split; [discriminate|inversion 1].
  - split; [discriminate|inversion 1].
  - (* SBranch *) destruct tok; try (split; [discriminate|inversion 1]).
    destruct lbl as [n|].
    + rewrite lbl_eqb_some. split; [intros ->; constructor|inversion 1; reflexivity].
    + split; [intros ->; constructor|inversion 1; reflexivity].
  - (* SBlock *) rewrite H. split; [now constructor|inversion 1; assumption].
  - (* SIf *) rewrite orb_true_iff, andb_true_iff, H, H0. split.
    + intros [Hb|[-> He]]; [now apply R_then|now apply R_else].
    + inversion 1; subst; auto.
  - (* SSwitch *) rewrite andb_true_iff, has_label_true, H. split.
    + intros [[n ->] Hr]. now constructor.
    + inversion 1; subst. eauto.
  - rewrite andb_true_iff, has_label_true, H. split.
    + intros [[n ->] Hr]. now constructor.
    + inversion 1; subst. eauto.
  - rewrite andb_true_iff, has_label_true, H. split.
    + intros [[n ->] Hr]. now constructor.
    + inversion 1; subst. eauto.
  - (* SFor *) rewrite andb_true_iff, has_label_true, H. split.
    + intros [[n ->] Hr]. now constructor.
    + inversion 1; subst. eauto.
  - split; [discriminate|inversion 1].
  - rewrite orb_true_iff, H, H0. split.
    + intros [Hs|Hr]; [now apply RL_here|now apply RL_later].
    + inversion 1; subst; auto.
  - split; [discriminate|inversion 1].
  - rewrite orb_true_iff, H, H0. split.
    + intros [Hs|Hr]; [now apply RC_here|now apply RC_later].
    + inversion 1; subst; auto.
Qed.

Lemma has_default_reflects cs : has_default cs = true <-> HasDefault cs.
Proof.
  induction cs as [|d body r IH]; cbn [has_default].
  - split; [discriminate|inversion 1].
  - rewrite orb_true_iff, IH. split.
    + intros [->|H]; [constructor|now constructor].
    + inversion 1; subst; auto.
Qed.

Lemma not_true_iff b P : (b = true <-> P) -> (negb b = true <-> ~ P).
Proof. intros H. destruct b; cbn; split; intros; try discriminate; intuition. Qed.

Lemma isTerm_reflects :
  (forall s lbl, isTerm s lbl = true <-> Term s lbl) /\
  (forall l lbl, isTermList l lbl = true <-> EndsTerm l lbl) /\
  (forall cs lbl, clauses_term cs lbl = true <-> ClausesTerm cs lbl).
Proof.
  destruct hasBreak_reflects as (_ & HBL & _).
  apply stmt_mutind; intros; cbn [isTerm isTermList clauses_term].
  - split; [discriminate|inversion 1].
  - split; [discriminate|inversion 1].
  - split; [discriminate|inversion 1].
  - (* SLabeled *) rewrite H. split; [now constructor|inversion 1; assumption].
  - (* SExpr *) split; [intros ->; constructor|inversion 1; reflexivity].
  - split; [constructor|reflexivity].
  - (* SBranch *) destruct tok; try (split; [discriminate|inversion 1]); split; try reflexivity; constructor.
  - (* SBlock *) rewrite H. split; [now constructor|inversion 1; assumption].
  - (* SIf *) rewrite !andb_true_iff, H, H0. split.
    + intros [[-> Hb] He]. now constructor.
    + inversion 1; subst. auto.
  - (* SSwitch *) rewrite andb_true_iff, H, has_default_reflects. split.
    + intros [Hc Hd]. now constructor.
    + inversion 1; subst; auto.
  - rewrite andb_true_iff, H, has_default_reflects. split.
    + intros [Hc Hd]. now constructor.
    + inversion 1; subst; auto.
  - (* SSelect *) rewrite H. split; [now constructor|inversion 1; assumption].
  - (* SFor *) rewrite andb_true_iff, (not_true_iff _ _ (HBL body lbl true)). split.
    + intros [Hc Hn]. destruct has_cond; [discriminate|]. now constructor.
    + inversion 1; subst. auto.
  - split; [discriminate|inversion 1].
  - (* SCons *) destruct (all_empty r) eqn:E.
    + rewrite H. split; [now apply E_last|inversion 1; subst; [assumption|congruence]].
    + rewrite H0. split; [now apply E_skip|inversion 1; subst; [congruence|assumption]].
  - split; [constructor|reflexivity].
  - (* CCons *) rewrite !andb_true_iff, H, H0, (not_true_iff _ _ (HBL body lbl true)). split.
    + intros [[Hb Hn] Hr]. now constructor.
    + inversion 1; subst. auto.
Qed.

(* ---------- labels ---------- *)
Lemma lmem_in n l : lmem n l = true <-> In n l.
Proof.
  unfold lmem. rewrite existsb_exists. split.
  - intros (x & Hx & E). apply N.eqb_eq in E. now subst.
  - intros H. exists n. split; [exact H|apply N.eqb_refl].
Qed.

Definition linv (es : list lev) (s : lstate) : Prop :=
  (forall n, In n (l_defined s) <-> 1 <= defined_count n es) /\
  (forall n, In n (l_dups s) <-> 2 <= defined_count n es) /\
  (forall n, In n (l_used s) <-> In (LUse n) es) /\
  NoDup (l_defined s).

Lemma defined_count_app n es e :
  defined_count n (es ++ [e]) = defined_count n es + match e with LDefine m => if N.eqb n m then 1 else 0 | _ => 0 end.
Proof.
  unfold defined_count. rewrite filter_app, app_length. cbn [filter].
  destruct e as [m|m]; [destruct (N.eqb n m)|]; reflexivity.
Qed.

Lemma lstep_inv es s e : linv es s -> linv (es ++ [e]) (lstep s e).
Proof.
  intros (Hd & Hp & Hu & Hn). destruct e as [m|m]; cbn [lstep].
  - destruct (lmem m (l_defined s)) eqn:Em; cbn [l_defined l_used l_dups].
    + apply lmem_in in Em. pose proof (proj1 (Hd m) Em) as Hm.
      split; [|split; [|split]].
      * intros n. rewrite defined_count_app. split.
        -- intros H. apply Hd in H. lia.
        -- intros H. destruct (N.eqb_spec n m) as [E|Hne]; [subst n; exact Em|]. apply Hd. lia.
      * intros n. rewrite defined_count_app. split.
        -- intros [E|H]; [subst n; rewrite N.eqb_refl; lia|apply Hp in H; lia].
        -- intros H. destruct (N.eqb_spec n m) as [E|Hne]; [subst n; now left|]. right. apply Hp. lia.
      * intros n. split.
        -- intros H. apply in_or_app. left. now apply Hu.
        -- intros H. apply in_app_or in H as [H|[H|[]]]; [now apply Hu|discriminate].
      * exact Hn.
    + assert (Hnm : ~ In m (l_defined s)) by (rewrite <- lmem_in; congruence).
      assert (Hc : defined_count m es = 0).
      { destruct (defined_count m es) eqn:E; [reflexivity|]. exfalso. apply Hnm, Hd. lia. }
      split; [|split; [|split]].
      * intros n. rewrite defined_count_app. split.
        -- intros [E|H]; [subst n; rewrite N.eqb_refl; lia|apply Hd in H; lia].
        -- intros H. destruct (N.eqb_spec n m) as [E|Hne]; [subst n; now left|]. right. apply Hd. lia.
      * intros n. rewrite defined_count_app. split.
        -- intros H. apply Hp in H. lia.
        -- intros H. destruct (N.eqb_spec n m) as [E|Hne]; [subst n; lia|]. apply Hp. lia.
      * intros n. split.
        -- intros H. apply in_or_app. left. now apply Hu.
        -- intros H. apply in_app_or in H as [H|[H|[]]]; [now apply Hu|discriminate].
      * constructor; assumption.
  - cbn [l_defined l_used l_dups]. split; [|split; [|split]].
    + intros n. rewrite defined_count_app, Nat.add_0_r. apply Hd.
    + intros n. rewrite defined_count_app, Nat.add_0_r. apply Hp.
    + intros n. split.
      * intros [E|H]; apply in_or_app; [subst n; right; now left|left; now apply Hu].
      * intros H. apply in_app_or in H as [H|[H|[]]]; [right; now apply Hu|left; congruence].
    + exact Hn.
Qed.

Lemma lrun_inv_gen es0 s0 es : linv es0 s0 -> linv (es0 ++ es) (fold_left lstep es s0).
Proof.
  revert es0 s0; induction es as [|e es IH]; intros es0 s0 H; cbn [fold_left].
  - now rewrite app_nil_r.
  - replace (es0 ++ e :: es) with ((es0 ++ [e]) ++ es) by now rewrite <- app_assoc.
    apply IH. now apply lstep_inv.
Qed.

Lemma lrun_inv es : linv es (lrun es).
Proof.
  apply (lrun_inv_gen [] _ es). split; [|split; [|split]]; cbn; [| | |apply NoDup_nil]; intros n; split; try lia; try tauto.
Qed.

Lemma dup_labels_spec es n : In n (dup_labels es) <-> 2 <= defined_count n es.
Proof. destruct (lrun_inv es) as (_ & H & _). apply H. Qed.

Lemma unused_labels_spec es n :
  In n (unused_labels es) <-> 1 <= defined_count n es /\ ~ In (LUse n) es.
Proof.
  destruct (lrun_inv es) as (Hd & _ & Hu & _). unfold unused_labels.
  rewrite filter_In, negb_true_iff, Hd. split.
  - intros [H1 H2]. split; [exact H1|]. intros Hin. apply Hu, lmem_in in Hin. congruence.
  - intros [H1 H2]. split; [exact H1|]. destruct (lmem n (l_used (lrun es))) eqn:E; [|reflexivity].
    apply lmem_in, Hu in E. contradiction.
Qed.
