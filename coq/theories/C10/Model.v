(* C10 — statement skeletons, the transcription of termChecker.isTerminating /
   isTerminatingList / isTerminatingSwitch / hasBreak / hasBreakList
   (utilast_gengo.go), Func.End's missing-return guard (func.go) and the label
   bookkeeping (codebuild.go NewLabel / Goto / labelFlow / checkLabels). *)
From Coq Require Import List NArith Bool.
Import ListNotations.

Inductive btok := BBreak | BContinue | BGoto | BFallthrough.

Inductive stmt :=
| SOther                                   (* Bad, Decl, Send, IncDec, Assign, Go, Defer *)
| SEmpty
| SRange (body : stmts)
| SLabeled (l : N) (s : stmt)
| SExpr (tracked_panic : bool)             (* expression statement; true iff a tracked builtin panic call *)
| SReturn
| SBranch (tok : btok) (lbl : option N)
| SBlock (l : stmts)
| SIf (body : stmts) (has_else : bool) (els : stmt)
| SSwitch (cs : clauses)
| STypeSwitch (cs : clauses)
| SSelect (cs : clauses)
| SFor (has_cond : bool) (body : stmts)
with stmts := SNil | SCons (s : stmt) (r : stmts)
with clauses := CNil | CCons (is_default : bool) (body : stmts) (r : clauses).

Definition lbl_eqb (a : option N) (b : option N) : bool :=   (* s.Label.Name == label *)
  match a, b with Some x, Some y => N.eqb x y | _, _ => false end.
Definition has_label (l : option N) : bool := match l with Some _ => true | None => false end.

Fixpoint all_empty (l : stmts) : bool :=
  match l with SNil => true | SCons SEmpty r => all_empty r | SCons _ _ => false end.

(* hasBreak / hasBreakList; clause bodies are visited through hasBreakClauses
   (the Body block of switch/select holds CaseClause / CommClause nodes) *)
Fixpoint hasBreak (s : stmt) (label : option N) (isTarget : bool) : bool :=
  match s with
  | SBranch BBreak None => isTarget
  | SBranch BBreak (Some n) => lbl_eqb (Some n) label
  | SBlock l => hasBreakList l label isTarget
  | SIf body has_else els =>
      hasBreakList body label isTarget || (has_else && hasBreak els label isTarget)
  | SSwitch cs | STypeSwitch cs | SSelect cs => has_label label && hasBreakClauses cs label false
  | SFor _ body | SRange body => has_label label && hasBreakList body label false
  | SLabeled _ s' => hasBreak s' label isTarget
  | _ => false
  end
with hasBreakList (l : stmts) (label : option N) (isTarget : bool) : bool :=
  match l with
  | SNil => false
  | SCons s r => hasBreak s label isTarget || hasBreakList r label isTarget
  end
with hasBreakClauses (cs : clauses) (label : option N) (isTarget : bool) : bool :=
  match cs with
  | CNil => false
  | CCons _ body r => hasBreakList body label isTarget || hasBreakClauses r label isTarget
  end.

(* isTerminating / isTerminatingList; isTerminatingSwitch = clauses_term && has_default *)
Fixpoint isTerm (s : stmt) (label : option N) : bool :=
  match s with
  | SLabeled l s' => isTerm s' (Some l)
  | SExpr p => p
  | SReturn => true
  | SBranch BGoto _ | SBranch BFallthrough _ => true
  | SBlock l => isTermList l None
  | SIf body has_else els => has_else && isTermList body None && isTerm els None
  | SSwitch cs | STypeSwitch cs => clauses_term cs label && has_default cs
  | SSelect cs => clauses_term cs label
  | SFor has_cond body => negb has_cond && negb (hasBreakList body label true)
  | _ => false
  end
with isTermList (l : stmts) (label : option N) : bool :=   (* the last non-empty statement *)
  match l with
  | SNil => false
  | SCons s r => if all_empty r then isTerm s label else isTermList r label
  end
with clauses_term (cs : clauses) (label : option N) : bool :=
  match cs with
  | CNil => true
  | CCons _ body r =>
      isTermList body None && negb (hasBreakList body label true) && clauses_term r label
  end
with has_default (cs : clauses) : bool :=
  match cs with CNil => false | CCons d _ r => d || has_default r end.

(* Func.End: reported iff a normal function has results and its body is not terminating *)
Definition missing_return (auto_lambda : bool) (nresults : nat) (body : stmts) : bool :=
  negb auto_lambda && negb (Nat.eqb nresults 0) && negb (isTerm (SBlock body) None).

(* ---------- labels of one function body ---------- *)
Inductive lev := LDefine (n : N) | LUse (n : N).   (* NewLabel+Label ; Goto / Break l / Continue l *)

Record lstate := { l_defined : list N; l_used : list N; l_dups : list N }.
Definition lmem (n : N) (l : list N) : bool := existsb (N.eqb n) l.
Definition lstep (s : lstate) (e : lev) : lstate :=
  match e with
  | LDefine n => if lmem n (l_defined s)
                 then {| l_defined := l_defined s; l_used := l_used s; l_dups := n :: l_dups s |}
                 else {| l_defined := n :: l_defined s; l_used := l_used s; l_dups := l_dups s |}
  | LUse n => {| l_defined := l_defined s; l_used := n :: l_used s; l_dups := l_dups s |}
  end.
Definition lrun (es : list lev) : lstate := fold_left lstep es {| l_defined := []; l_used := []; l_dups := [] |}.
(* checkLabels at the end of the body *)
Definition unused_labels (es : list lev) : list N :=
  let s := lrun es in filter (fun n => negb (lmem n (l_used s))) (l_defined s).
Definition dup_labels (es : list lev) : list N := l_dups (lrun es).
