(* C10 — the Go specification's "terminating statement" and "break statement
   referring to" as inductive predicates, written from the spec text
   (https://go.dev/ref/spec#Terminating_statements), independent of the code. *)
From Coq Require Import List NArith Bool.
From GV Require Import C10.Model.
Import ListNotations.

(* [Refers s lbl unl]: inside s there is a break statement that refers to an
   enclosing for/switch/select statement labelled lbl; unl = true as long as an
   unlabeled break would still refer to it (no for/switch/select in between). *)
Inductive Refers : stmt -> option N -> bool -> Prop :=
| R_unlabeled lbl : Refers (SBranch BBreak None) lbl true
| R_labeled_break n unl : Refers (SBranch BBreak (Some n)) (Some n) unl
| R_block l lbl unl : RefersL l lbl unl -> Refers (SBlock l) lbl unl
| R_then body he els lbl unl : RefersL body lbl unl -> Refers (SIf body he els) lbl unl
| R_else body els lbl unl : Refers els lbl unl -> Refers (SIf body true els) lbl unl
| R_labeled l s lbl unl : Refers s lbl unl -> Refers (SLabeled l s) lbl unl
| R_switch cs n unl : RefersC cs (Some n) false -> Refers (SSwitch cs) (Some n) unl
| R_tswitch cs n unl : RefersC cs (Some n) false -> Refers (STypeSwitch cs) (Some n) unl
| R_select cs n unl : RefersC cs (Some n) false -> Refers (SSelect cs) (Some n) unl
| R_for c body n unl : RefersL body (Some n) false -> Refers (SFor c body) (Some n) unl
| R_range body n unl : RefersL body (Some n) false -> Refers (SRange body) (Some n) unl
with RefersL : stmts -> option N -> bool -> Prop :=
| RL_here s r lbl unl : Refers s lbl unl -> RefersL (SCons s r) lbl unl
| RL_later s r lbl unl : RefersL r lbl unl -> RefersL (SCons s r) lbl unl
with RefersC : clauses -> option N -> bool -> Prop :=
| RC_here d body r lbl unl : RefersL body lbl unl -> RefersC (CCons d body r) lbl unl
| RC_later d body r lbl unl : RefersC r lbl unl -> RefersC (CCons d body r) lbl unl.

Inductive HasDefault : clauses -> Prop :=
| HD_here body r : HasDefault (CCons true body r)
| HD_later d body r : HasDefault r -> HasDefault (CCons d body r).

(* [Term s lbl]: s is a terminating statement, lbl being the label of the
   labeled statement that directly encloses it (None if there is none). *)
Inductive Term : stmt -> option N -> Prop :=
| T_return lbl : Term SReturn lbl                                   (* 1. "return" *)
| T_goto l lbl : Term (SBranch BGoto l) lbl                         (* 1. "goto" *)
| T_panic lbl : Term (SExpr true) lbl                               (* 2. call to the built-in panic *)
| T_block l lbl : EndsTerm l None -> Term (SBlock l) lbl            (* 3. block ending in a terminating statement *)
| T_if body els lbl :                                               (* 4. if with else, both terminating *)
    EndsTerm body None -> Term els None -> Term (SIf body true els) lbl
| T_for body lbl :                                                  (* 5. for: no referring break, no condition, no range *)
    ~ RefersL body lbl true -> Term (SFor false body) lbl
| T_switch cs lbl :                                                 (* 6. switch *)
    ClausesTerm cs lbl -> HasDefault cs -> Term (SSwitch cs) lbl
| T_tswitch cs lbl :
    ClausesTerm cs lbl -> HasDefault cs -> Term (STypeSwitch cs) lbl
| T_select cs lbl : ClausesTerm cs lbl -> Term (SSelect cs) lbl     (* 7. select *)
| T_labeled l s lbl : Term s (Some l) -> Term (SLabeled l s) lbl    (* 8. labeled statement *)
| T_fallthrough l lbl : Term (SBranch BFallthrough l) lbl           (* 6. "... or a possibly labeled fallthrough" *)
with EndsTerm : stmts -> option N -> Prop :=   (* the final non-empty statement is terminating *)
| E_last s r lbl : all_empty r = true -> Term s lbl -> EndsTerm (SCons s r) lbl
| E_skip s r lbl : all_empty r = false -> EndsTerm r lbl -> EndsTerm (SCons s r) lbl
with ClausesTerm : clauses -> option N -> Prop :=
| C_nil lbl : ClausesTerm CNil lbl
| C_cons d body r lbl :
    EndsTerm body None -> ~ RefersL body lbl true -> ClausesTerm r lbl ->
    ClausesTerm (CCons d body r) lbl.

(* label rules of the spec: a label is an error iff declared twice or never used *)
Definition defined_count (n : N) (es : list lev) : nat :=
  length (filter (fun e => match e with LDefine m => N.eqb n m | _ => false end) es).
Definition is_used (n : N) (es : list lev) : Prop := In (LUse n) es.
