From Coq Require Import List NArith Arith Bool Lia Decimal DecimalN FinFun.
From GV Require Import Lib.Bytes C09.Model.
Import ListNotations.

(* ---------- candidates are pairwise distinct ---------- *)
Lemma itoa_inj i j : itoa i = itoa j -> i = j.
Proof.
  unfold itoa. intros H.
  assert (E : uint_of_digits (digits_of_uint (N.to_uint (N.of_nat i))) =
              uint_of_digits (digits_of_uint (N.to_uint (N.of_nat j)))) by now rewrite H.
  rewrite !uint_digits_roundtrip in E. inversion E as [E'].
  apply (f_equal N.of_uint) in E'. rewrite !DecimalN.Unsigned.of_to in E'. lia.
Qed.

Lemma itoa_nonnil n : itoa n <> [].
Proof. destruct (itoa_first_digit n) as (x & r & E & _). rewrite E. discriminate. Qed.

Lemma cand_inj base i j : cand base i = cand base j -> i = j.
Proof.
  destruct i as [|i], j as [|j]; cbn [cand]; intros H; auto.
  - exfalso. rewrite <- (app_nil_r base) in H at 1. apply app_inv_head in H. symmetry in H.
    now apply itoa_nonnil in H.
  - exfalso. rewrite <- (app_nil_r base) in H at 2. apply app_inv_head in H. now apply itoa_nonnil in H.
  - apply app_inv_head in H. now apply itoa_inj in H.
Qed.

Lemma smem_in x l : smem x l = true <-> In x l.
Proof.
  unfold smem. rewrite existsb_exists. split.
  - intros (y & Hy & E). apply str_eqb_eq in E. now subst.
  - intros H. exists x. split; [exact H|apply str_eqb_refl].
Qed.

(* the loop of importName terminates within |taken| + 1 iterations (pigeonhole) ... *)
Lemma pick_none fuel i taken base :
  pick fuel i taken base = None -> forall k, k < fuel -> In (cand base (i + k)) taken.
Proof.
  revert i; induction fuel as [|f IH]; intros i H k Hk; [lia|].
  cbn [pick] in H. destruct (smem (cand base i) taken) eqn:E; [|discriminate].
  destruct k as [|k].
  - rewrite Nat.add_0_r. now apply smem_in.
  - replace (i + S k) with (S i + k) by lia. apply IH; [exact H|lia].
Qed.

Theorem pick_succeeds taken base : exists nm ren, pick (S (length taken)) 0 taken base = Some (nm, ren).
Proof.
  destruct (pick (S (length taken)) 0 taken base) as [[nm ren]|] eqn:E; [eauto|exfalso].
  pose proof (pick_none _ _ _ _ E) as H.
  set (cs := map (cand base) (seq 0 (S (length taken)))).
  assert (Hnd : NoDup cs).
  { unfold cs. apply FinFun.Injective_map_NoDup; [intros a b; apply cand_inj|apply seq_NoDup]. }
  assert (Hincl : incl cs taken).
  { unfold cs. intros x Hx. apply in_map_iff in Hx as (k & <- & Hk). apply in_seq in Hk.
    apply (H k). lia. }
  pose proof (NoDup_incl_length Hnd Hincl) as Hl. unfold cs in Hl. rewrite map_length, seq_length in Hl. lia.
Qed.

(* ... and what it returns is free *)
Lemma pick_fresh fuel i taken base nm ren :
  pick fuel i taken base = Some (nm, ren) -> ~ In nm taken.
Proof.
  revert i; induction fuel as [|f IH]; intros i H; [discriminate|].
  cbn [pick] in H. destruct (smem (cand base i) taken) eqn:E; [eapply IH; eauto|].
  inversion H; subst. rewrite <- smem_in. congruence.
Qed.

(* ---------- invariant over histories ---------- *)
Definition used_names (l : list imp) : list str :=
  map i_name (filter (fun i => i_used i && negb (i_forced i)) l).

Definition file_ok (s : st) (f : nat) : Prop :=
  NoDup (used_names (f_imps (getf s f))) /\ incl (used_names (f_imps (getf s f))) (inames_of s f).
Definition Inv (s : st) : Prop := forall f, file_ok s f.

Lemma find_imp_some p l i : find_imp p l = Some i -> In i l /\ i_path i = p.
Proof.
  induction l as [|x r IH]; cbn [find_imp]; [discriminate|].
  destruct (str_eqb_spec p (i_path x)) as [->|Hn].
  - intros H; inversion H; subst. split; [now left|reflexivity].
  - intros H. destruct (IH H). split; [now right|assumption].
Qed.

Lemma used_names_cons y l :
  used_names (y :: l) = if (i_used y && negb (i_forced y))%bool then i_name y :: used_names l else used_names l.
Proof. unfold used_names. cbn [filter]. destruct (i_used y && negb (i_forced y))%bool; reflexivity. Qed.

(* replacing an unused, non-forced import by a used one adds exactly its name *)
Lemma used_names_upd x l i :
  find_imp (i_path x) l = Some i -> (i_used i && negb (i_forced i))%bool = false ->
  (i_used x && negb (i_forced x))%bool = true ->
  exists a b, used_names l = a ++ b /\ used_names (upd_imp x l) = a ++ i_name x :: b.
Proof.
  induction l as [|y r IH]; cbn [find_imp upd_imp]; [discriminate|].
  destruct (str_eqb_spec (i_path x) (i_path y)) as [E|Hn].
  - intros H Hu Hx. inversion H; subst y. exists [], (used_names r).
    rewrite !used_names_cons, Hu, Hx. split; reflexivity.
  - intros H Hu Hx. destruct (IH H Hu Hx) as (a & b & H1 & H2).
    rewrite !used_names_cons. destruct (i_used y && negb (i_forced y))%bool.
    + exists (i_name y :: a), b. rewrite H1, H2. split; reflexivity.
    + exists a, b. split; assumption.
Qed.

Lemma used_names_upd_unused x l :
  (i_used x && negb (i_forced x))%bool = false ->
  (forall i, find_imp (i_path x) l = Some i -> (i_used i && negb (i_forced i))%bool = false) ->
  used_names (upd_imp x l) = used_names l.
Proof.
  intros Hx. induction l as [|y r IH]; cbn [find_imp upd_imp]; intros H.
  - rewrite used_names_cons, Hx. reflexivity.
  - destruct (str_eqb_spec (i_path x) (i_path y)) as [E|Hn].
    + specialize (H y eq_refl). rewrite !used_names_cons, Hx, H. reflexivity.
    + rewrite !used_names_cons, IH by exact H. reflexivity.
Qed.

Lemma used_names_app_unused l x :
  (i_used x && negb (i_forced x))%bool = false -> used_names (l ++ [x]) = used_names l.
Proof.
  intros Hx. unfold used_names. rewrite filter_app. cbn [filter]. rewrite Hx, app_nil_r. reflexivity.
Qed.

(* mark keeps the used names of the file distinct and inside the file's import-name set,
   and every name it allocates avoids the declared names *)
Lemma mark_ok refs : forall f imps nms inm imps' inm',
  mark refs f imps nms inm = (imps', inm') ->
  let innames l := map snd (filter (fun x => Nat.eqb (fst x) f) l) in
  NoDup (used_names imps) -> incl (used_names imps) (innames inm) ->
  NoDup (used_names imps') /\ incl (used_names imps') (innames inm') /\
  (forall x, In x inm' -> In x inm \/ (fst x = f /\ ~ In (snd x) nms)) /\
  (forall g, g <> f -> filter (fun x => Nat.eqb (fst x) g) inm' = filter (fun x => Nat.eqb (fst x) g) inm).
Proof.
  induction refs as [|p r IH]; intros f imps nms inm imps' inm' H innames Hnd Hincl; cbn [mark] in H.
  - inversion H; subst. repeat split; auto.
  - destruct (find_imp p imps) as [i|] eqn:Ef; [|eapply IH; eauto].
    destruct (i_forced i || i_used i)%bool eqn:Efu; [eapply IH; eauto|].
    apply orb_false_iff in Efu as [Hfo Hus].
    set (taken := nms ++ innames inm) in *.
    fold (innames inm) in H. fold taken in H.
    destruct (pick (S (length taken)) 0 taken (i_name i)) as [[nm ren]|] eqn:Ep.
    2:{ inversion H; subst. repeat split; auto. }
    pose proof (pick_fresh _ _ _ _ _ _ Ep) as Hfresh.
    destruct (find_imp_some _ _ _ Ef) as [Hin Hpath].
    set (x := mkImp (i_path i) (i_base i) false true nm (i_renamed i || ren)) in *.
    assert (Hxp : i_path x = p) by (subst x; cbn; exact Hpath).
    assert (Hfx : find_imp (i_path x) imps = Some i) by (rewrite Hxp; exact Ef).
    destruct (used_names_upd x imps i Hfx) as (a & b & H1 & H2);
      [rewrite Hus; reflexivity|reflexivity|].
    specialize (IH f (upd_imp x imps) nms ((f, nm) :: inm) imps' inm' H).
    cbn zeta in IH.
    assert (Hnm_new : ~ In nm (used_names imps)).
    { intros Hc. apply Hincl in Hc. apply Hfresh. unfold taken. apply in_or_app. now right. }
    assert (Hinn : innames ((f, nm) :: inm) = nm :: innames inm).
    { unfold innames. cbn [filter fst]. rewrite Nat.eqb_refl. reflexivity. }
    unfold innames in Hinn, Hincl.
    destruct IH as (I1 & I2 & I3 & I4).
    + rewrite H2. subst x; cbn [i_name]. rewrite H1 in Hnd, Hnm_new.
      apply (NoDup_Add (Add_app nm a b)). split; assumption.
    + rewrite H2, Hinn. subst x; cbn [i_name]. rewrite H1 in Hincl.
      intros y Hy. apply in_app_or in Hy as [Hy|[<-|Hy]]; [right; apply Hincl, in_or_app; now left
        |now left|right; apply Hincl, in_or_app; now right].
    + split; [exact I1|]. split; [exact I2|]. split.
      * intros y Hy. destruct (I3 y Hy) as [[<-|Hy']|Hy']; [|now left|now right].
        right. split; [reflexivity|]. cbn [snd]. intros Hc. apply Hfresh. unfold taken.
        apply in_or_app. now left.
      * intros g Hg. rewrite (I4 g Hg). cbn [filter fst].
        destruct (Nat.eqb_spec f g) as [->|]; [congruence|reflexivity].
Qed.

Lemma inames_of_eq s f : inames_of s f = map snd (filter (fun x => Nat.eqb (fst x) f) (inames s)).
Proof. reflexivity. Qed.

Lemma getf_setf_same l f x : nth f (setf l f x) (mkFile [] [] false) = x.
Proof.
  revert l; induction f as [|f IH]; intros [|y r]; cbn [setf nth]; auto.
Qed.
Lemma getf_setf_other l f g x : g <> f -> nth g (setf l f x) (mkFile [] [] false) = nth g l (mkFile [] [] false).
Proof.
  revert l g; induction f as [|f IH]; intros [|y r] [|g] Hn; cbn [setf nth]; auto; try congruence.
  - destruct g; reflexivity.
  - rewrite IH by congruence. destruct g; reflexivity.
Qed.

Theorem step_inv s o : Inv s -> Inv (fst (step s o)).
Proof.
  intros HI. destruct o as [f p b kept|f p b|n|f]; cbn [step].
  - (* ORef *)
    set (fl := getf s f).
    destruct (match find_imp p (f_imps fl) with
              | Some i => if i_forced i then (upd_imp (mkImp p b false false b false) (f_imps fl), true) else (f_imps fl, (f_dirty fl || negb (i_used i))%bool)
              | None => (f_imps fl ++ [mkImp p b false false b false], true) end) as [imps' d'] eqn:E.
    cbn [fst]. intros g. unfold file_ok, getf, inames_of. cbn [files inames].
    destruct (Nat.eq_dec g f) as [->|Hg].
    + rewrite getf_setf_same. cbn [f_imps].
      assert (used_names imps' = used_names (f_imps fl)) as ->.
      { destruct (find_imp p (f_imps fl)) as [i|] eqn:Ef.
        - destruct (i_forced i) eqn:Efo; inversion E; subst; [|reflexivity].
          apply used_names_upd_unused; [reflexivity|]. cbn [i_path]. intros i' Hi'.
          rewrite Ef in Hi'. inversion Hi'; subst. rewrite Efo. apply andb_false_r.
        - inversion E; subst. now apply used_names_app_unused. }
      exact (HI f).
    + rewrite getf_setf_other by exact Hg. exact (HI g).
  - (* OForce *)
    set (fl := getf s f). destruct (find_imp p (f_imps fl)) eqn:Ef; cbn [fst]; [exact HI|].
    intros g. unfold file_ok, getf, inames_of. cbn [files inames].
    destruct (Nat.eq_dec g f) as [->|Hg].
    + rewrite getf_setf_same. cbn [f_imps]. rewrite used_names_app_unused by reflexivity. exact (HI f).
    + rewrite getf_setf_other by exact Hg. exact (HI g).
  - (* ODeclare *) cbn [fst]. exact HI.
  - (* OWrite *)
    set (fl := getf s f). destruct (f_dirty fl); cbn [fst]; [|exact HI].
    destruct (mark (f_refs fl) f (f_imps fl) (names s) (inames s)) as [imps' inm'] eqn:Em. cbn [fst].
    destruct (HI f) as [Hnd Hincl].
    destruct (mark_ok _ _ _ _ _ _ _ Em Hnd Hincl) as (M1 & M2 & _ & M4).
    intros g. unfold file_ok, getf, inames_of. cbn [files inames].
    destruct (Nat.eq_dec g f) as [->|Hg].
    + rewrite getf_setf_same. cbn [f_imps]. split; assumption.
    + rewrite getf_setf_other by exact Hg. rewrite (M4 g Hg). exact (HI g).
Qed.

Lemma Inv_init : Inv init.
Proof.
  intros f. unfold file_ok, getf, init. cbn. destruct f; cbn; split; try constructor; intros x [].
Qed.

Theorem run_inv ops : forall s, Inv s -> Inv (fst (run s ops)).
Proof.
  induction ops as [|o r IH]; intros s HI; cbn [run]; [exact HI|].
  pose proof (step_inv s o HI) as H1. destruct (step s o) as [s' x]. cbn [fst] in H1.
  specialize (IH s' H1). destruct (run s' r) as [s'' xs]. exact IH.
Qed.

(* every name allocated by a write avoids the names reserved at that moment *)
Theorem write_avoids_declared s f s' blk :
  Inv s -> step s (OWrite f) = (s', blk) ->
  forall x, In x (inames s') -> In x (inames s) \/ (fst x = f /\ ~ In (snd x) (names s)).
Proof.
  intros HI. cbn [step]. set (fl := getf s f). destruct (f_dirty fl).
  - destruct (mark (f_refs fl) f (f_imps fl) (names s) (inames s)) as [imps' inm'] eqn:Em.
    intros H; inversion H; subst. cbn [inames]. destruct (HI f) as [Hnd Hincl].
    destruct (mark_ok _ _ _ _ _ _ _ Em Hnd Hincl) as (_ & _ & M3 & _). exact M3.
  - intros H; inversion H; subst. auto.
Qed.
