(* C09 — the per-file import table and import-name allocation:
   File.newImport / forceImport / markUsed (package.go), autoNames.importName /
   useName / hasName / hasImportName (import.go), getDecls (import block, sorted
   by path).  Names are byte strings; the candidate names are base, base1, base2, ... *)
From Coq Require Import List NArith Arith Bool Lia.
From GV Require Import Lib.Bytes.
Import ListNotations.

Definition cand (base : str) (i : nat) : str := match i with 0 => base | _ => base ++ itoa i end.
Definition smem (x : str) (l : list str) : bool := existsb (str_eqb x) l.

(* importName's loop: for hasName(ret) || hasImportName(file, ret) { idx++; ret = name + itoa(idx) } *)
Fixpoint pick (fuel i : nat) (taken : list str) (base : str) : option (str * bool) :=
  match fuel with
  | 0 => None
  | S f => if smem (cand base i) taken then pick f (S i) taken base
           else Some (cand base i, negb (Nat.eqb i 0))
  end.

Record imp := mkImp {
  i_path : str; i_base : str;
  i_forced : bool;        (* imps[path] == nil: `import _ path` *)
  i_used : bool;          (* importUsed flag of the shared identifier *)
  i_name : str;           (* current name of the shared identifier *)
  i_renamed : bool        (* Obj.Name set: the import spec carries an explicit name *)
}.
Record file := mkFile { f_imps : list imp; f_refs : list str; f_dirty : bool }.
Record st := mkSt { names : list str; inames : list (nat * str); files : list file }.

Definition getf (s : st) (f : nat) : file := nth f (files s) (mkFile [] [] false).
Fixpoint setf (l : list file) (f : nat) (x : file) : list file :=
  match l, f with
  | [], 0 => [x]
  | [], S n => mkFile [] [] false :: setf [] n x
  | _ :: r, 0 => x :: r
  | y :: r, S n => y :: setf r n x
  end.

Fixpoint find_imp (p : str) (l : list imp) : option imp :=
  match l with [] => None | i :: r => if str_eqb p (i_path i) then Some i else find_imp p r end.
Fixpoint upd_imp (x : imp) (l : list imp) : list imp :=
  match l with
  | [] => [x]
  | i :: r => if str_eqb (i_path x) (i_path i) then x :: r else i :: upd_imp x r
  end.

Inductive op :=
| ORef (f : nat) (path base : str) (kept : bool)   (* a reference built in file f; kept = it ends up in a declaration *)
| OForce (f : nat) (path base : str)
| ODeclare (name : str)                              (* a declaration that reserves its name (useName) *)
| OWrite (f : nat).

Definition inames_of (s : st) (f : nat) : list str :=
  map snd (filter (fun x => Nat.eqb (fst x) f) (inames s)).

(* markUsed: walk the references in declaration order; the first reference of each not yet used
   import marks it used and allocates its name *)
Fixpoint mark (refs : list str) (f : nat) (imps : list imp) (nms : list str) (inm : list (nat * str))
  : list imp * list (nat * str) :=
  match refs with
  | [] => (imps, inm)
  | p :: r =>
    match find_imp p imps with
    | Some i =>
      if (i_forced i || i_used i)%bool then mark r f imps nms inm
      else
        let taken := nms ++ map snd (filter (fun x => Nat.eqb (fst x) f) inm) in
        match pick (S (length taken)) 0 taken (i_name i) with
        | Some (nm, ren) =>
            mark r f (upd_imp (mkImp (i_path i) (i_base i) false true nm (i_renamed i || ren)) imps) nms ((f, nm) :: inm)
        | None => (imps, inm)            (* excluded by pick_succeeds *)
        end
    | None => mark r f imps nms inm
    end
  end.

(* the import block: (kind, name, path) with kind 0 = `_`, 1 = no explicit name, 2 = explicit name *)
Definition spec_of (i : imp) : option (nat * str * str) :=
  if i_forced i then Some (0, [], i_path i)
  else if i_used i then (if i_renamed i then Some (2, i_name i, i_path i) else Some (1, [], i_path i))
  else None.

Fixpoint str_ltb (a b : str) : bool :=
  match a, b with
  | [], [] => false | [], _ => true | _, [] => false
  | x :: a', y :: b' => if N.ltb x y then true else if N.ltb y x then false else str_ltb a' b'
  end.
Fixpoint ins_spec (x : nat * str * str) (l : list (nat * str * str)) : list (nat * str * str) :=
  match l with
  | [] => [x]
  | y :: r => if str_ltb (snd y) (snd x) then y :: ins_spec x r else x :: l
  end.
Definition block (imps : list imp) : list (nat * str * str) :=
  fold_right ins_spec [] (flat_map (fun i => match spec_of i with Some s => [s] | None => [] end) imps).

Definition step (s : st) (o : op) : st * list (nat * str * str) :=
  match o with
  | ORef f p b kept =>
      let fl := getf s f in
      let '(imps', dirty') :=
        match find_imp p (f_imps fl) with
        | Some i => if i_forced i
                    then (upd_imp (mkImp p b false false b false) (f_imps fl), true)  (* the nil marker is replaced *)
                    else (f_imps fl, (f_dirty fl || negb (i_used i))%bool)   (* a still-unused import is referenced again *)
        | None => (f_imps fl ++ [mkImp p b false false b false], true)
        end in
      (mkSt (names s) (inames s)
            (setf (files s) f (mkFile imps' (if kept then f_refs fl ++ [p] else f_refs fl) dirty')), [])
  | OForce f p b =>
      let fl := getf s f in
      match find_imp p (f_imps fl) with
      | Some _ => (s, [])
      | None => (mkSt (names s) (inames s)
                      (setf (files s) f (mkFile (f_imps fl ++ [mkImp p b true false b false]) (f_refs fl) true)), [])
      end
  | ODeclare n => (mkSt (n :: names s) (inames s) (files s), [])
  | OWrite f =>
      let fl := getf s f in
      if f_dirty fl then
        let '(imps', inm') := mark (f_refs fl) f (f_imps fl) (names s) (inames s) in
        (mkSt (names s) inm' (setf (files s) f (mkFile imps' (f_refs fl) false)), block imps')
      else (s, block (f_imps fl))
  end.

Definition init : st := mkSt [] [] [].
Fixpoint run (s : st) (ops : list op) : st * list (list (nat * str * str)) :=
  match ops with
  | [] => (s, [])
  | o :: r => let '(s', x) := step s o in let '(s'', xs) := run s' r in (s'', x :: xs)
  end.
