(* C09 — correspondence checker: model import blocks vs the blocks of the files the real
   package wrote, for whole histories. *)
From Coq Require Import List NArith Arith Bool.
From GV Require Import Lib.Bytes C09.Model.
Import ListNotations.

Definition spec_eqb (a b : nat * str * str) : bool :=
  let '(k1, n1, p1) := a in let '(k2, n2, p2) := b in
  Nat.eqb k1 k2 && str_eqb n1 n2 && str_eqb p1 p2.
Fixpoint block_eqb (a b : list (nat * str * str)) : bool :=
  match a, b with
  | [], [] => true
  | x :: a', y :: b' => spec_eqb x y && block_eqb a' b'
  | _, _ => false
  end.

(* a history with, per operation, the import block observed if it was a write *)
(* ... and whether the finally written files had an import name clashing with a declaration *)
Definition c09case := (list (op * option (list (nat * str * str))) * bool)%type.

Fixpoint walk (i : nat) (s : st) (h : list (op * option (list (nat * str * str)))) : option nat :=
  match h with
  | [] => None
  | (o, obs) :: r =>
    let '(s', blk) := step s o in
    match o, obs with
    | OWrite _, Some b => if block_eqb blk b then walk (S i) s' r else Some i
    | _, _ => walk (S i) s' r
    end
  end.

Fixpoint bad_from (i : nat) (cs : list c09case) : list (nat * nat) :=
  match cs with
  | [] => []
  | c :: r => match walk 0 init (fst c) with Some j => [(i, j)] | None => [] end ++ bad_from (S i) r
  end.
Definition k1_bad := bad_from 0.

(* an import name of some file equals a reserved identifier in the final state: possible only for a
   name declared after the import's name was fixed by an earlier write (known finding, class 2) *)
Definition collides (s : st) : bool :=
  existsb (fun fl => existsb (fun n => smem n (names s)) (filter (fun _ => true)
            (map i_name (filter (fun i => i_used i && negb (i_forced i)) (f_imps fl))))) (files s).
Definition final_state (c : c09case) : st := fst (run init (map fst (fst c))).
Fixpoint coll_bad (i : nat) (cs : list c09case) : list (nat * nat) :=
  match cs with
  | [] => []
  | c :: r => (if Bool.eqb (collides (final_state c)) (snd c) then [] else [(i, 0)]) ++ coll_bad (S i) r
  end.
Definition k1_collision := coll_bad 0.
Fixpoint dev_from (i : nat) (cs : list c09case) : list (nat * N) :=
  match cs with
  | [] => []
  | c :: r => (if snd c then [(i, 2%N)] else []) ++ dev_from (S i) r
  end.
Definition dev_list := dev_from 0.
