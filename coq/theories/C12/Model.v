(* C12 — expression printing with precedence-driven parentheses (transcription of binaryExpr / expr1
   in internal/go/printer/nodes.go: BinaryExpr, UnaryExpr, StarExpr, ParenExpr, CallExpr, IndexExpr,
   SelectorExpr) and Go's expression parser (go/parser: parseBinaryExpr / parseUnaryExpr /
   parsePrimaryExpr / parseOperand) on token lists. *)
From Coq Require Import List Arith Bool Lia.
Import ListNotations.

Inductive op :=
| OLor | OLand | OEql | ONeq | OLss | OLeq | OGtr | OGeq
| OAdd | OSub | OOr | OXor | OMul | OQuo | ORem | OShl | OShr | OAnd | OAndNot
| ONot | OArrow.

(* token.Precedence; 0 = not a binary operator *)
Definition bprec (o : op) : nat :=
  match o with
  | OLor => 1 | OLand => 2
  | OEql | ONeq | OLss | OLeq | OGtr | OGeq => 3
  | OAdd | OSub | OOr | OXor => 4
  | OMul | OQuo | ORem | OShl | OShr | OAnd | OAndNot => 5
  | ONot | OArrow => 0
  end.
(* operators parseUnaryExpr accepts in prefix position (OMul is the StarExpr) *)
Definition is_prefix (o : op) : bool :=
  match o with OAdd | OSub | ONot | OXor | OAnd | OArrow | OMul => true | _ => false end.

Definition unary_prec : nat := 6.
Definition highest_prec : nat := 7.

Inductive expr :=
| EId (n : nat)
| EBin (o : op) (l r : expr)
| EUn (o : op) (x : expr)                  (* EUn OMul x is *x (StarExpr) *)
| EParen (x : expr)
| ECall (f : expr) (args : exprs)
| EIdx (x i : expr)
| ESel (x : expr) (n : nat)
with exprs := ANil | ACons (e : expr) (r : exprs).

Inductive tok := TId (n : nat) | TOp (o : op) | TLp | TRp | TLb | TRb | TComma | TDot.

Definition is_paren (e : expr) : bool := match e with EParen _ => true | _ => false end.

(* expr1 (e, prec1): tokens.  expr0 = expr1 at LowestPrec (0). *)
Fixpoint pr (p : nat) (e : expr) : list tok :=
  match e with
  | EId n => [TId n]
  | EBin o l r =>
      let k := bprec o in
      if k <? p then TLp :: (pr k l ++ TOp o :: pr (S k) r) ++ [TRp]
      else pr k l ++ TOp o :: pr (S k) r
  | EUn o x =>
      (* StarExpr prints its operand with p.expr (lowest precedence), UnaryExpr at UnaryPrec *)
      let body := TOp o :: pr (match o with OMul => 0 | _ => unary_prec end) x in
      if unary_prec <? p then TLp :: body ++ [TRp] else body
  | EParen x =>
      if is_paren x then pr 0 x else TLp :: pr 0 x ++ [TRp]
  | ECall f args => pr highest_prec f ++ TLp :: pr_args args ++ [TRp]
  | EIdx x i => pr highest_prec x ++ TLb :: pr 0 i ++ [TRb]
  | ESel x n => pr highest_prec x ++ [TDot; TId n]
  end
with pr_args (l : exprs) : list tok :=
  match l with
  | ANil => []
  | ACons e ANil => pr 0 e
  | ACons e r => pr 0 e ++ TComma :: pr_args r
  end.

(* ---- go/parser ---- *)
Fixpoint parse_bin (f : nat) (prec1 : nat) (ts : list tok) {struct f} : option (expr * list tok) :=
  match f with
  | O => None
  | S f' =>
      match parse_un f' ts with
      | Some (x, r) => bin_loop f' prec1 x r
      | None => None
      end
  end
with bin_loop (f : nat) (prec1 : nat) (x : expr) (ts : list tok) {struct f} : option (expr * list tok) :=
  match f with
  | O => None
  | S f' =>
      match ts with
      | TOp o :: r =>
          if (1 <=? bprec o) && (prec1 <=? bprec o) then
            match parse_bin f' (S (bprec o)) r with
            | Some (y, r') => bin_loop f' prec1 (EBin o x y) r'
            | None => None
            end
          else Some (x, ts)
      | _ => Some (x, ts)
      end
  end
with parse_un (f : nat) (ts : list tok) {struct f} : option (expr * list tok) :=
  match f with
  | O => None
  | S f' =>
      match ts with
      | TOp o :: r =>
          if is_prefix o then
            match parse_un f' r with Some (x, r') => Some (EUn o x, r') | None => None end
          else None
      | TId n :: r => post_loop f' (EId n) r
      | TLp :: r =>
          match parse_bin f' 1 r with
          | Some (x, TRp :: r') => post_loop f' (EParen x) r'
          | _ => None
          end
      | _ => None
      end
  end
with post_loop (f : nat) (x : expr) (ts : list tok) {struct f} : option (expr * list tok) :=
  match f with
  | O => None
  | S f' =>
      match ts with
      | TDot :: TId n :: r => post_loop f' (ESel x n) r
      | TLb :: r =>
          match parse_bin f' 1 r with
          | Some (i, TRb :: r') => post_loop f' (EIdx x i) r'
          | _ => None
          end
      | TLp :: TRp :: r => post_loop f' (ECall x ANil) r
      | TLp :: r =>
          match parse_args f' r with
          | Some (a, TRp :: r') => post_loop f' (ECall x a) r'
          | _ => None
          end
      | _ => Some (x, ts)
      end
  end
with parse_args (f : nat) (ts : list tok) {struct f} : option (exprs * list tok) :=
  match f with
  | O => None
  | S f' =>
      match parse_bin f' 1 ts with
      | Some (e, TComma :: r) =>
          match parse_args f' r with Some (a, r') => Some (ACons e a, r') | None => None end
      | Some (e, r) => Some (ACons e ANil, r)
      | None => None
      end
  end.

(* the tree the parser builds for the printed text: parentheses appear where the printer wrote them *)
Fixpoint norm (p : nat) (e : expr) : expr :=
  match e with
  | EId n => EId n
  | EBin o l r =>
      let k := bprec o in
      let b := EBin o (norm k l) (norm (S k) r) in
      if k <? p then EParen b else b
  | EUn o x =>
      let b := EUn o (norm (match o with OMul => 0 | _ => unary_prec end) x) in
      if unary_prec <? p then EParen b else b
  | EParen x => if is_paren x then norm 0 x else EParen (norm 0 x)
  | ECall f args => ECall (norm highest_prec f) (norm_args args)
  | EIdx x i => EIdx (norm highest_prec x) (norm 0 i)
  | ESel x n => ESel (norm highest_prec x) n
  end
with norm_args (l : exprs) : exprs :=
  match l with ANil => ANil | ACons e r => ACons (norm 0 e) (norm_args r) end.

(* structural identity up to parentheses *)
Fixpoint unparen (e : expr) : expr :=
  match e with
  | EId n => EId n
  | EBin o l r => EBin o (unparen l) (unparen r)
  | EUn o x => EUn o (unparen x)
  | EParen x => unparen x
  | ECall f a => ECall (unparen f) (unparen_args a)
  | EIdx x i => EIdx (unparen x) (unparen i)
  | ESel x n => ESel (unparen x) n
  end
with unparen_args (l : exprs) : exprs :=
  match l with ANil => ANil | ACons e r => ACons (unparen e) (unparen_args r) end.

(* trees the statement is about: binary nodes carry binary operators, unary nodes prefix operators,
   and the operand of a dereference is not a bare binary expression (a Go expression of pointer type
   is never a binary expression; the parser always wraps it in a ParenExpr) *)
Definition is_bin (e : expr) : bool := match e with EBin _ _ _ => true | _ => false end.
Fixpoint wfe (e : expr) : bool :=
  match e with
  | EId _ => true
  | EBin o l r => (1 <=? bprec o) && wfe l && wfe r
  | EUn o x => is_prefix o && wfe x && (match o with OMul => negb (is_bin x) | _ => true end)
  | EParen x => wfe x
  | ECall f a => wfe f && wfe_args a
  | EIdx x i => wfe x && wfe i
  | ESel x _ => wfe x
  end
with wfe_args (l : exprs) : bool :=
  match l with ANil => true | ACons e r => wfe e && wfe_args r end.

Fixpoint size (e : expr) : nat :=
  match e with
  | EId _ => 1
  | EBin _ l r => S (size l + size r)
  | EUn _ x => S (size x)
  | EParen x => S (size x)
  | ECall f a => S (size f + size_args a)
  | EIdx x i => S (size x + size i)
  | ESel x _ => S (size x)
  end
with size_args (l : exprs) : nat :=
  match l with ANil => 1 | ACons e r => S (size e + size_args r) end.
