(* C12 — statement comments.  The builder records at most one comment group per statement node
   (emitStmt: commentedStmts[stmt] = comments) and the printer's stmt case schedules that group
   before the first token of the statement (p.setComment at the head of printer.stmt).  Model:
   statements are nodes with unique identities; printing a statement emits its comment, if any,
   then its head, then its children, then its closing token. *)
From Coq Require Import List Arith Bool Lia.
Import ListNotations.

Inductive stmt := SSimple (i : nat) | SBlock (i : nat) (b : stmts)
with stmts := SNil | SCons (s : stmt) (r : stmts).

Inductive item := Com (i : nat) | Head (i : nat) | Close (i : nat).

Section Emit.
Variable cm : nat -> bool.          (* which statement nodes carry a comment *)

Definition pre (i : nat) : list item := if cm i then [Com i] else [].

Fixpoint emit (s : stmt) : list item :=
  match s with
  | SSimple i => pre i ++ [Head i]
  | SBlock i b => pre i ++ Head i :: emits b ++ [Close i]
  end
with emits (l : stmts) : list item :=
  match l with SNil => [] | SCons s r => emit s ++ emits r end.

Fixpoint ids (s : stmt) : list nat :=
  match s with SSimple i => [i] | SBlock i b => i :: idss b end
with idss (l : stmts) : list nat :=
  match l with SNil => [] | SCons s r => ids s ++ idss r end.

(* every comment is directly followed by the head of its own statement *)
Fixpoint placed (l : list item) : bool :=
  match l with
  | [] => true
  | Com i :: r => match r with Head j :: _ => Nat.eqb i j && placed r | _ => false end
  | _ :: r => placed r
  end.

Scheme stmt_ind' := Induction for stmt Sort Prop
with stmts_ind' := Induction for stmts Sort Prop.
Combined Scheme stmt_mutind from stmt_ind', stmts_ind'.

Lemma placed_pre_head i k : placed (pre i ++ Head i :: k) = placed k.
Proof. unfold pre. destruct (cm i); cbn [List.app placed]; [now rewrite Nat.eqb_refl|reflexivity]. Qed.

Lemma placed_emit_all :
  (forall s k, placed (emit s ++ k) = placed k) /\ (forall l k, placed (emits l ++ k) = placed k).
Proof.
  apply stmt_mutind.
  - intros i k. cbn [emit]. rewrite <- app_assoc. cbn [List.app]. apply placed_pre_head.
  - intros i b IH k. cbn [emit]. rewrite <- app_assoc. cbn [List.app]. rewrite placed_pre_head.
    rewrite <- app_assoc. rewrite IH. reflexivity.
  - intros k. reflexivity.
  - intros s IHs r IHr k. cbn [emits]. rewrite <- app_assoc, IHs, IHr. reflexivity.
Qed.

Theorem comments_directly_before s : placed (emit s) = true.
Proof. rewrite <- (app_nil_r (emit s)). now rewrite (proj1 placed_emit_all). Qed.

Definition item_eq_dec : forall a b : item, {a = b} + {a <> b}.
Proof. decide equality; apply Nat.eq_dec. Defined.

Lemma count_pre j i : count_occ item_eq_dec (pre i) (Com j) = if cm j then (if Nat.eq_dec i j then 1 else 0) else 0.
Proof.
  unfold pre. destruct (cm i) eqn:Ei; cbn [count_occ].
  - destruct (item_eq_dec (Com i) (Com j)) as [E|E].
    + injection E as ->. rewrite Ei. destruct (Nat.eq_dec j j); [reflexivity|contradiction].
    + destruct (Nat.eq_dec i j) as [->|]; [contradiction|]. now destruct (cm j).
  - destruct (Nat.eq_dec i j) as [->|]; [now rewrite Ei|now destruct (cm j)].
Qed.

Lemma count_all j :
  (forall s, count_occ item_eq_dec (emit s) (Com j) = if cm j then count_occ Nat.eq_dec (ids s) j else 0) /\
  (forall l, count_occ item_eq_dec (emits l) (Com j) = if cm j then count_occ Nat.eq_dec (idss l) j else 0).
Proof.
  apply stmt_mutind.
  - intros i. cbn [emit ids]. rewrite count_occ_app, count_pre. cbn [count_occ].
    destruct (item_eq_dec (Head i) (Com j)); [discriminate|]. destruct (cm j); [|reflexivity].
    destruct (Nat.eq_dec i j); reflexivity.
  - intros i b IH. cbn [emit ids]. rewrite count_occ_app, count_pre. cbn [count_occ].
    destruct (item_eq_dec (Head i) (Com j)); [discriminate|]. rewrite count_occ_app, IH. cbn [count_occ].
    destruct (item_eq_dec (Close i) (Com j)); [discriminate|]. destruct (cm j); [|reflexivity].
    destruct (Nat.eq_dec i j); lia.
  - destruct (cm j); reflexivity.
  - intros s IHs r IHr. cbn [emits idss]. rewrite !count_occ_app, IHs, IHr. destruct (cm j); [|reflexivity].
    reflexivity.
Qed.

(* a statement node occurs once in the tree: its comment is printed exactly once; an uncommented
   node's comment never appears *)
Theorem comment_printed_once s j :
  NoDup (ids s) -> In j (ids s) ->
  count_occ item_eq_dec (emit s) (Com j) = if cm j then 1 else 0.
Proof.
  intros Hn Hi. rewrite (proj1 (count_all j)). destruct (cm j); [|reflexivity].
  apply (proj1 (NoDup_count_occ' Nat.eq_dec (ids s)) Hn). exact Hi.
Qed.

End Emit.

Example ex_comments :
  let cm := fun i => Nat.eqb i 2 || Nat.eqb i 3 in
  let s := SBlock 1 (SCons (SSimple 2) (SCons (SBlock 3 (SCons (SSimple 4) SNil)) SNil)) in
  emit cm s = [Head 1; Com 2; Head 2; Com 3; Head 3; Head 4; Close 3; Close 1] /\ NoDup (ids s).
Proof. cbn. split; [reflexivity|]. repeat constructor; cbn; intuition discriminate. Qed.
