(* C12 — token gluing.  The printer writes tokens next to each other and inserts a blank exactly
   when mayCombine(previous token, first byte of the next) holds (table regenerated from
   printer.go).  Maximal-munch lexing of two adjacent spellings must give back the two tokens:
   for every token that can precede an expression and every spelling an expression can start
   with, if the concatenation would be lexed differently then the table asks for a blank. *)
From Coq Require Import List NArith Bool.
From GV Require Import Lib.Bytes.
From GVGen Require Import Tables.
Import ListNotations.
Local Open Scope N_scope.

(* every operator / delimiter spelling of Go, plus the two comment openers *)
Definition go_ops : list str :=
  [ [43]; [45]; [42]; [47]; [37]; [38]; [124]; [94]; [60;60]; [62;62]; [38;94];
    [43;61]; [45;61]; [42;61]; [47;61]; [37;61]; [38;61]; [124;61]; [94;61]; [60;60;61]; [62;62;61]; [38;94;61];
    [38;38]; [124;124]; [60;45]; [43;43]; [45;45]; [61;61]; [60]; [62]; [61]; [33]; [126];
    [33;61]; [60;61]; [62;61]; [58;61]; [46;46;46]; [40]; [91]; [123]; [44]; [46]; [41]; [93]; [125]; [59]; [58];
    [47;47]; [47;42] ].

Fixpoint is_prefix_of (w s : str) : bool :=
  match w, s with
  | [], _ => true
  | a :: w', b :: s' => (a =? b) && is_prefix_of w' s'
  | _, [] => false
  end.

(* the scanner would read something longer than [sa] at the start of [sa ++ sb] *)
Definition merges (sa sb : str) : bool :=
  existsb (fun w => (N.of_nat (length sa) <? N.of_nat (length w)) && is_prefix_of w (sa ++ sb)) go_ops.

(* tokens that can stand directly before the first token of an expression: (token name, spelling) *)
Definition lefts : list (str * str) :=
  [ ([65;68;68], [43]); ([83;85;66], [45]); ([77;85;76], [42]); ([81;85;79], [47]); ([82;69;77], [37]);
    ([65;78;68], [38]); ([79;82], [124]); ([88;79;82], [94]); ([83;72;76], [60;60]); ([83;72;82], [62;62]);
    ([65;78;68;95;78;79;84], [38;94]); ([76;65;78;68], [38;38]); ([76;79;82], [124;124]);
    ([69;81;76], [61;61]); ([78;69;81], [33;61]); ([76;83;83], [60]); ([76;69;81], [60;61]);
    ([71;84;82], [62]); ([71;69;81], [62;61]); ([78;79;84], [33]); ([65;82;82;79;87], [60;45]);
    ([65;83;83;73;71;78], [61]); ([68;69;70;73;78;69], [58;61]); ([65;68;68;95;65;83;83;73;71;78], [43;61]);
    ([83;85;66;95;65;83;83;73;71;78], [45;61]); ([67;79;77;77;65], [44]); ([76;80;65;82;69;78], [40]);
    ([76;66;82;65;67;75], [91]); ([76;66;82;65;67;69], [123]); ([67;79;76;79;78], [58]); ([84;73;76;68;69], [126]) ].
(* spellings an expression can start with that begin with an operator byte *)
Definition rights : list str :=
  [ [43]; [45]; [33]; [94]; [38]; [60;45]; [42]; [40]; [91]; [46;53] ].

Definition may_combine (name : str) (next : N) : bool :=
  existsb (fun row => str_eqb (fst row) name && existsb (N.eqb next) (snd row)) may_combine_tbl.

Definition glue_safe : bool :=
  forallb (fun l => forallb (fun r =>
    implb (merges (snd l) r) (match r with c :: _ => may_combine (fst l) c | [] => true end)) rights) lefts.

Lemma glue_safe_true : glue_safe = true.
Proof. vm_compute. reflexivity. Qed.

(* an integer literal followed by a selector dot would become a floating-point literal *)
Lemma int_dot : may_combine [73;78;84] 46 = true.
Proof. vm_compute. reflexivity. Qed.

(* the cases that really merge (the obligation is not vacuous) *)
Lemma merging_pairs_exist :
  merges [45] [45] = true /\ merges [60] [45] = true /\ merges [38] [94] = true /\
  merges [47] [42] = true /\ merges [60] [60;45] = true /\ merges [43] [43] = true /\ merges [38] [38] = true.
Proof. vm_compute. repeat split. Qed.
