(* C12 — the printed expression, read by Go's parser, is the original tree up to parentheses. *)
From Coq Require Import List Arith Bool Lia.
From GV Require Import C12.Model.
Import ListNotations.

(* "for every sufficiently large fuel the parser function g returns res" *)
Definition ev {A} (g : nat -> option A) (res : option A) : Prop :=
  exists n, forall f, n <= f -> g f = res.

Lemma ev2 {A B} (g : nat -> option A) (h : nat -> option B) a b :
  ev g a -> ev h b -> exists n, forall f, n <= f -> g f = a /\ h f = b.
Proof.
  intros [n1 H1] [n2 H2]. exists (max n1 n2). intros f Hf. split; [apply H1|apply H2]; lia.
Qed.

(* ---- one-step equations of the parser in ev form ---- *)
Lemma ev_parse_bin q ts x r res :
  ev (fun f => parse_un f ts) (Some (x, r)) -> ev (fun f => bin_loop f q x r) res ->
  ev (fun f => parse_bin f q ts) res.
Proof.
  intros H1 H2. destruct (ev2 _ _ _ _ H1 H2) as [n H]. exists (S n). intros f Hf.
  destruct f as [|f]; [lia|]. cbn [parse_bin]. destruct (H f ltac:(lia)) as [-> ->]. reflexivity.
Qed.

Lemma ev_loop_op q x o r y r' res :
  1 <= bprec o -> q <= bprec o ->
  ev (fun f => parse_bin f (S (bprec o)) r) (Some (y, r')) ->
  ev (fun f => bin_loop f q (EBin o x y) r') res ->
  ev (fun f => bin_loop f q x (TOp o :: r)) res.
Proof.
  intros Hk Hq H1 H2. destruct (ev2 _ _ _ _ H1 H2) as [n H]. exists (S n). intros f Hf.
  destruct f as [|f]; [lia|]. cbn [bin_loop].
  replace (1 <=? bprec o) with true by (symmetry; apply Nat.leb_le; exact Hk).
  replace (q <=? bprec o) with true by (symmetry; apply Nat.leb_le; exact Hq).
  cbn [andb]. destruct (H f ltac:(lia)) as [-> ->]. reflexivity.
Qed.

(* the loop stops: the next token is not a binary operator of precedence >= q *)
Definition stops (q : nat) (ts : list tok) : Prop :=
  match ts with TOp o :: _ => bprec o < q \/ bprec o = 0 | _ => True end.

Lemma ev_loop_stop q x ts : stops q ts -> ev (fun f => bin_loop f q x ts) (Some (x, ts)).
Proof.
  intros H. exists 1. intros f Hf. destruct f as [|f]; [lia|]. cbn [bin_loop].
  destruct ts as [|t r]; [reflexivity|]. destruct t; try reflexivity.
  cbn [stops] in H.
  destruct (1 <=? bprec o) eqn:E1; [|reflexivity]. destruct (q <=? bprec o) eqn:E2; [|reflexivity].
  apply Nat.leb_le in E1, E2. lia.
Qed.

Lemma ev_un_prefix o r x r' :
  is_prefix o = true ->
  ev (fun f => parse_un f r) (Some (x, r')) -> ev (fun f => parse_un f (TOp o :: r)) (Some (EUn o x, r')).
Proof.
  intros Hp [n H]. exists (S n). intros f Hf. destruct f as [|f]; [lia|].
  cbn [parse_un]. rewrite Hp, (H f) by lia. reflexivity.
Qed.

Lemma ev_un_id n r res :
  ev (fun f => post_loop f (EId n) r) res -> ev (fun f => parse_un f (TId n :: r)) res.
Proof.
  intros [m H]. exists (S m). intros f Hf. destruct f as [|f]; [lia|]. cbn [parse_un]. apply H. lia.
Qed.

Lemma ev_un_paren r x r' res :
  ev (fun f => parse_bin f 1 r) (Some (x, TRp :: r')) ->
  ev (fun f => post_loop f (EParen x) r') res ->
  ev (fun f => parse_un f (TLp :: r)) res.
Proof.
  intros H1 H2. destruct (ev2 _ _ _ _ H1 H2) as [n H]. exists (S n). intros f Hf.
  destruct f as [|f]; [lia|]. cbn [parse_un]. destruct (H f ltac:(lia)) as [-> ->]. reflexivity.
Qed.

Definition no_postfix (ts : list tok) : Prop :=
  match ts with TDot :: _ | TLb :: _ | TLp :: _ => False | _ => True end.

Lemma ev_post_stop x ts : no_postfix ts -> ev (fun f => post_loop f x ts) (Some (x, ts)).
Proof.
  intros H. exists 1. intros f Hf. destruct f as [|f]; [lia|]. cbn [post_loop].
  destruct ts as [|t r]; [reflexivity|]. destruct t; try reflexivity; destruct H.
Qed.

Lemma ev_post_sel x n r res :
  ev (fun f => post_loop f (ESel x n) r) res -> ev (fun f => post_loop f x (TDot :: TId n :: r)) res.
Proof.
  intros [m H]. exists (S m). intros f Hf. destruct f as [|f]; [lia|]. cbn [post_loop]. apply H. lia.
Qed.

Lemma ev_post_idx x r i r' res :
  ev (fun f => parse_bin f 1 r) (Some (i, TRb :: r')) ->
  ev (fun f => post_loop f (EIdx x i) r') res ->
  ev (fun f => post_loop f x (TLb :: r)) res.
Proof.
  intros H1 H2. destruct (ev2 _ _ _ _ H1 H2) as [n H]. exists (S n). intros f Hf.
  destruct f as [|f]; [lia|]. cbn [post_loop]. destruct (H f ltac:(lia)) as [-> ->]. reflexivity.
Qed.

Lemma ev_post_call0 x r res :
  ev (fun f => post_loop f (ECall x ANil) r) res -> ev (fun f => post_loop f x (TLp :: TRp :: r)) res.
Proof.
  intros [m H]. exists (S m). intros f Hf. destruct f as [|f]; [lia|]. cbn [post_loop]. apply H. lia.
Qed.

Lemma ev_post_call x r a r' res :
  (forall r0, r <> TRp :: r0) ->
  ev (fun f => parse_args f r) (Some (a, TRp :: r')) ->
  ev (fun f => post_loop f (ECall x a) r') res ->
  ev (fun f => post_loop f x (TLp :: r)) res.
Proof.
  intros Hn H1 H2. destruct (ev2 _ _ _ _ H1 H2) as [n H]. exists (S n). intros f Hf.
  destruct f as [|f]; [lia|]. cbn [post_loop]. destruct (H f ltac:(lia)) as [E1 E2].
  destruct r as [|t r0].
  - rewrite E1, E2. reflexivity.
  - destruct t; try (rewrite E1, E2; reflexivity). exfalso. eapply Hn. reflexivity.
Qed.

Lemma ev_args_one ts e r :
  (forall r0, r <> TComma :: r0) ->
  ev (fun f => parse_bin f 1 ts) (Some (e, r)) -> ev (fun f => parse_args f ts) (Some (ACons e ANil, r)).
Proof.
  intros Hn [n H]. exists (S n). intros f Hf. destruct f as [|f]; [lia|]. cbn [parse_args].
  rewrite (H f) by lia. destruct r as [|t r0]; [reflexivity|].
  destruct t; try reflexivity. exfalso. eapply Hn. reflexivity.
Qed.

Lemma ev_args_more ts e r a r' :
  ev (fun f => parse_bin f 1 ts) (Some (e, TComma :: r)) ->
  ev (fun f => parse_args f r) (Some (a, r')) ->
  ev (fun f => parse_args f ts) (Some (ACons e a, r')).
Proof.
  intros H1 H2. destruct (ev2 _ _ _ _ H1 H2) as [n H]. exists (S n). intros f Hf.
  destruct f as [|f]; [lia|]. cbn [parse_args]. destruct (H f ltac:(lia)) as [-> ->]. reflexivity.
Qed.

(* ---- shapes ---- *)
(* e printed at level p is a primary expression (no prefix operator, no bare binary operator) *)
Definition primary (e : expr) : bool :=
  match e with EId _ | EParen _ | ECall _ _ | EIdx _ _ | ESel _ _ => true | _ => false end.

Lemma primary_level e p q : primary e = true -> pr p e = pr q e /\ norm p e = norm q e.
Proof. destruct e; try discriminate; intros _; split; reflexivity. Qed.

(* the first token of printed text is an identifier, an operator or "(" *)
Definition starts_expr (ts : list tok) : Prop :=
  match ts with TId _ :: _ | TOp _ :: _ | TLp :: _ => True | _ => False end.

Lemma starts_app a b : starts_expr a -> starts_expr (a ++ b).
Proof. destruct a as [|t a]; [intros []|]. destruct t; intros H; try destruct H; exact I. Qed.

Lemma pr_starts e : forall p, starts_expr (pr p e).
Proof.
  induction e as [n|o l IHl r IHr|o x IHx|x IHx|f IHf a|x IHx i IHi|x IHx n] using expr_ind; intros p; cbn [pr].
  - exact I.
  - destruct (bprec o <? p); [exact I|]. apply starts_app, IHl.
  - destruct (unary_prec <? p); exact I.
  - destruct (is_paren x); [apply IHx|exact I].
  - apply starts_app, IHf.
  - apply starts_app, IHx.
  - apply starts_app, IHx.
Qed.

(* effective top precedence of e printed at p: of the bare binary operator, else "infinite" *)
Definition eff_top (p : nat) (e : expr) : nat :=
  match e with EBin o _ _ => if bprec o <? p then 7 else bprec o | _ => 7 end.
Definition follow_le (k : nat) (ts : list tok) : Prop :=
  match ts with TOp o :: _ => bprec o <= k | _ => True end.

Lemma follow_stops k q ts : follow_le k ts -> k < q -> stops q ts.
Proof. destruct ts as [|t r]; [intros; exact I|]. destruct t; cbn; intros; try exact I. left. lia. Qed.

Lemma follow_mono k k' ts : follow_le k ts -> k <= k' -> follow_le k' ts.
Proof. destruct ts as [|t r]; [intros; exact I|]. destruct t; cbn; intros; try exact I. lia. Qed.

Lemma bprec_le5 o : bprec o <= 5.
Proof. destruct o; cbn; lia. Qed.

Scheme expr_ind' := Induction for expr Sort Prop
with exprs_ind' := Induction for exprs Sort Prop.
Combined Scheme expr_mutind from expr_ind', exprs_ind'.

(* C7: at the highest level the text is a primary expression; the postfix loop continues after it *)
Definition C7 (e : expr) : Prop :=
  forall rest res,
    ev (fun f => post_loop f (norm highest_prec e) rest) res ->
    ev (fun f => parse_un f (pr highest_prec e ++ rest)) res.
(* D: at level <= 6 a non-binary (or parenthesised) expression is read by parseUnaryExpr *)
Definition unary_shaped (p : nat) (e : expr) : bool :=
  match e with EBin o _ _ => bprec o <? p | _ => true end.
Definition D (e : expr) : Prop :=
  forall p rest, p <= highest_prec -> unary_shaped p e = true -> no_postfix rest ->
    ev (fun f => parse_un f (pr p e ++ rest)) (Some (norm p e, rest)).
(* A: parseBinaryExpr(q) on text printed at level p >= q continues its loop after the whole text *)
Definition A (e : expr) : Prop :=
  forall p q rest res, 1 <= q -> q <= p -> p <= highest_prec ->
    no_postfix rest -> follow_le (eff_top p e) rest ->
    ev (fun f => bin_loop f q (norm p e) rest) res ->
    ev (fun f => parse_bin f q (pr p e ++ rest)) res.
Definition ARGS (l : exprs) : Prop :=
  wfe_args l = true -> forall rest,
    match l with
    | ANil => True
    | _ => ev (fun f => parse_args f (pr_args l ++ TRp :: rest)) (Some (norm_args l, TRp :: rest))
    end.

(* ---- helpers ---- *)
Lemma level01 e : wfe e = true -> pr 0 e = pr 1 e /\ norm 0 e = norm 1 e.
Proof.
  destruct e; try (intros _; split; reflexivity).
  intros H. cbn [wfe] in H. apply andb_true_iff in H as [H _]. apply andb_true_iff in H as [H _].
  apply Nat.leb_le in H. cbn [pr norm].
  replace (bprec o <? 0) with false by (symmetry; apply Nat.ltb_ge; lia).
  replace (bprec o <? 1) with false by (symmetry; apply Nat.ltb_ge; lia). split; reflexivity.
Qed.

Lemma eff_top_ge p e : p <= highest_prec -> p <= eff_top p e.
Proof.
  intros Hp. unfold eff_top. destruct e; try exact Hp.
  destruct (bprec o <? p) eqn:E; [exact Hp|]. apply Nat.ltb_ge in E. exact E.
Qed.

Lemma A_of_D e : D e -> forall p q rest res,
  unary_shaped p e = true -> p <= highest_prec -> no_postfix rest ->
  ev (fun f => bin_loop f q (norm p e) rest) res ->
  ev (fun f => parse_bin f q (pr p e ++ rest)) res.
Proof. intros HD p q rest res Hu Hp Hn Hl. eapply ev_parse_bin; [apply HD; assumption|exact Hl]. Qed.

Lemma primary_DA e : primary e = true -> C7 e -> D e /\ A e.
Proof.
  intros Hp HC.
  assert (HD : D e).
  { intros p rest _ _ Hn. destruct (primary_level e p highest_prec Hp) as [-> ->].
    apply HC. now apply ev_post_stop. }
  split; [exact HD|].
  intros p q rest res _ _ Hp7 Hn _ Hl. apply A_of_D; try assumption.
  destruct e; try discriminate; reflexivity.
Qed.

Definition no_binop (ts : list tok) : Prop :=
  match ts with TOp o :: _ => bprec o = 0 | _ => True end.

Lemma expr_at1 e rest : A e -> wfe e = true -> no_postfix rest -> no_binop rest ->
  ev (fun f => parse_bin f 1 (pr 0 e ++ rest)) (Some (norm 0 e, rest)).
Proof.
  intros HA Hw Hn Hb. destruct (level01 e Hw) as [-> ->].
  apply HA; try (unfold highest_prec; lia); try assumption.
  - destruct rest as [|t r]; [exact I|]. destruct t; try exact I. cbn in *. lia.
  - apply ev_loop_stop. destruct rest as [|t r]; [exact I|]. destruct t; try exact I. right. exact Hb.
Qed.

(* "( T )" where T reads as b: a parenthesised primary expression *)
Lemma paren_wrap T b rest res :
  ev (fun f => parse_bin f 1 (T ++ TRp :: rest)) (Some (b, TRp :: rest)) ->
  ev (fun f => post_loop f (EParen b) rest) res ->
  ev (fun f => parse_un f ((TLp :: T ++ [TRp]) ++ rest)) res.
Proof.
  intros H1 H2. cbn [List.app]. rewrite <- app_assoc. cbn [List.app]. eapply ev_un_paren; eassumption.
Qed.

Lemma roundtrip_all :
  (forall e, wfe e = true -> C7 e /\ D e /\ A e) /\ (forall l, ARGS l).
Proof.
  apply expr_mutind.
  - (* EId *) intros n _.
    assert (HC : C7 (EId n)). { intros rest res H. cbn [pr norm List.app]. now apply ev_un_id. }
    split; [exact HC|]. now apply primary_DA.
  - (* EBin *) intros o l IHl r IHr Hw. cbn [wfe] in Hw.
    apply andb_true_iff in Hw as [Hw Hwr]. apply andb_true_iff in Hw as [Hk Hwl].
    apply Nat.leb_le in Hk. pose proof (bprec_le5 o) as Hk5.
    destruct (IHl Hwl) as (_ & _ & Al). destruct (IHr Hwr) as (_ & _ & Ar).
    set (k := bprec o) in *. set (b := EBin o (norm k l) (norm (S k) r)).
    assert (H1 : forall q rest res, 1 <= q -> q <= k -> no_postfix rest -> follow_le k rest ->
                 ev (fun f => bin_loop f q b rest) res ->
                 ev (fun f => parse_bin f q ((pr k l ++ TOp o :: pr (S k) r) ++ rest)) res).
    { intros q rest res Hq Hqk Hn Hf Hl. rewrite <- app_assoc. cbn [List.app].
      apply Al; try assumption; try (unfold highest_prec; lia).
      - exact I.
      - cbn [follow_le]. fold k. apply eff_top_ge. unfold highest_prec; lia.
      - apply ev_loop_op with (y := norm (S k) r) (r' := rest); fold k; try assumption.
        apply Ar; try assumption; try (unfold highest_prec; lia).
        + eapply follow_mono; [exact Hf|]. etransitivity; [|apply eff_top_ge; unfold highest_prec; lia]. lia.
        + apply ev_loop_stop. eapply follow_stops; [exact Hf|lia]. }
    assert (Hpar : forall rest res,
                 ev (fun f => post_loop f (EParen b) rest) res ->
                 ev (fun f => parse_un f ((TLp :: (pr k l ++ TOp o :: pr (S k) r) ++ [TRp]) ++ rest)) res).
    { intros rest res H. eapply paren_wrap; [|exact H].
      apply H1; try lia; try exact I. apply ev_loop_stop. exact I. }
    assert (HC : C7 (EBin o l r)).
    { intros rest res H. cbn [pr norm] in *. fold k in H |- *.
      replace (k <? highest_prec) with true in * by (symmetry; apply Nat.ltb_lt; unfold highest_prec; lia).
      now apply Hpar. }
    assert (HD : D (EBin o l r)).
    { intros p rest Hp Hu Hn. cbn [unary_shaped] in Hu. fold k in Hu. cbn [pr norm]. fold k. rewrite Hu.
      apply Hpar. now apply ev_post_stop. }
    split; [exact HC|]. split; [exact HD|].
    intros p q rest res Hq Hqp Hp Hn Hf Hl. destruct (k <? p) eqn:E.
    + apply A_of_D; assumption.
    + apply Nat.ltb_ge in E. cbn [pr norm eff_top] in *. fold k in Hf, Hl |- *. rewrite ?E in *.
      replace (k <? p) with false in * by (symmetry; apply Nat.ltb_ge; exact E).
      apply H1; try assumption; lia.
  - (* EUn *) intros o x IHx Hw. cbn [wfe] in Hw.
    apply andb_true_iff in Hw as [Hw Hstar]. apply andb_true_iff in Hw as [Hpre Hwx].
    destruct (IHx Hwx) as (_ & Dx & _).
    set (lv := match o with OMul => 0 | _ => unary_prec end).
    set (b := EUn o (norm lv x)).
    assert (Hshape : unary_shaped lv x = true).
    { unfold lv. destruct x; try reflexivity. cbn [unary_shaped].
      destruct o; try (apply Nat.ltb_lt; pose proof (bprec_le5 o0); unfold unary_prec; lia).
      discriminate Hstar. }
    assert (Hlv : lv <= highest_prec) by (unfold lv, unary_prec, highest_prec; destruct o; lia).
    assert (Hbody : forall rest, no_postfix rest ->
                 ev (fun f => parse_un f ((TOp o :: pr lv x) ++ rest)) (Some (b, rest))).
    { intros rest Hn. cbn [List.app]. apply ev_un_prefix; [exact Hpre|]. now apply Dx. }
    assert (Hpar : forall rest res,
                 ev (fun f => post_loop f (EParen b) rest) res ->
                 ev (fun f => parse_un f ((TLp :: (TOp o :: pr lv x) ++ [TRp]) ++ rest)) res).
    { intros rest res H. eapply paren_wrap; [|exact H].
      eapply ev_parse_bin; [apply Hbody; exact I|]. apply ev_loop_stop. exact I. }
    assert (HC : C7 (EUn o x)).
    { intros rest res H. cbn [pr norm] in *. fold lv in H |- *.
      change (unary_prec <? highest_prec) with true in *. cbn iota in *. now apply Hpar. }
    assert (HD : D (EUn o x)).
    { intros p rest Hp _ Hn. cbn [pr norm]. fold lv. destruct (unary_prec <? p).
      - apply Hpar. now apply ev_post_stop.
      - now apply Hbody. }
    split; [exact HC|]. split; [exact HD|].
    intros p q rest res _ _ Hp Hn _ Hl. apply A_of_D; try assumption. reflexivity.
  - (* EParen *) intros x IHx Hw. cbn [wfe] in Hw. destruct (IHx Hw) as (Cx & _ & Ax).
    assert (HC : C7 (EParen x)).
    { intros rest res H. cbn [pr norm] in *. destruct (is_paren x) eqn:Ep.
      - assert (Hprim : primary x = true) by (destruct x; try discriminate; reflexivity).
        destruct (primary_level x 0 highest_prec Hprim) as [E1 E2]. rewrite E1. rewrite E2 in H. now apply Cx.
      - eapply paren_wrap; [|exact H]. apply expr_at1; try assumption; exact I. }
    split; [exact HC|]. now apply primary_DA.
  - (* ECall *) intros f IHf a IHa Hw. cbn [wfe] in Hw. apply andb_true_iff in Hw as [Hwf Hwa].
    destruct (IHf Hwf) as (Cf & _ & _).
    assert (HC : C7 (ECall f a)).
    { intros rest res H. cbn [pr norm] in *. rewrite <- app_assoc. cbn [List.app]. apply Cf.
      destruct a as [|e r].
      - cbn [pr_args norm_args List.app] in *. now apply ev_post_call0.
      - rewrite <- app_assoc. cbn [List.app].
        apply ev_post_call with (a := norm_args (ACons e r)) (r' := rest); [| |exact H].
        + intros r0 E.
          assert (Hs : starts_expr (pr_args (ACons e r) ++ TRp :: rest)).
          { apply starts_app. cbn [pr_args]. destruct r; [apply pr_starts|apply starts_app, pr_starts]. }
          rewrite E in Hs. exact Hs.
        + exact (IHa Hwa rest). }
    split; [exact HC|]. now apply primary_DA.
  - (* EIdx *) intros x IHx i IHi Hw. cbn [wfe] in Hw. apply andb_true_iff in Hw as [Hwx Hwi].
    destruct (IHx Hwx) as (Cx & _ & _). destruct (IHi Hwi) as (_ & _ & Ai).
    assert (HC : C7 (EIdx x i)).
    { intros rest res H. cbn [pr norm] in *. rewrite <- app_assoc. cbn [List.app]. apply Cx.
      rewrite <- app_assoc. cbn [List.app].
      eapply ev_post_idx; [|exact H]. apply expr_at1; try assumption; exact I. }
    split; [exact HC|]. now apply primary_DA.
  - (* ESel *) intros x IHx n Hw. cbn [wfe] in Hw. destruct (IHx Hw) as (Cx & _ & _).
    assert (HC : C7 (ESel x n)).
    { intros rest res H. cbn [pr norm] in *. rewrite <- app_assoc. cbn [List.app]. apply Cx.
      now apply ev_post_sel. }
    split; [exact HC|]. now apply primary_DA.
  - (* ANil *) intros _ rest. exact I.
  - (* ACons *) intros e IHe r IHr Hw rest. cbn [wfe_args] in Hw. apply andb_true_iff in Hw as [Hwe Hwr].
    destruct (IHe Hwe) as (_ & _ & Ae). destruct r as [|e2 r2].
    + cbn [pr_args norm_args]. apply ev_args_one; [discriminate|].
      apply expr_at1; try assumption; exact I.
    + change (pr_args (ACons e (ACons e2 r2))) with (pr 0 e ++ TComma :: pr_args (ACons e2 r2)).
      rewrite <- app_assoc. cbn [List.app norm_args].
      eapply ev_args_more.
      * apply expr_at1; try assumption; exact I.
      * exact (IHr Hwr rest).
Qed.

(* ---- the theorem ---- *)
Lemma unparen_norm :
  (forall e p, unparen (norm p e) = unparen e) /\ (forall l, unparen_args (norm_args l) = unparen_args l).
Proof.
  apply expr_mutind.
  - reflexivity.
  - intros o l IHl r IHr p. cbn [norm]. destruct (bprec o <? p); cbn [unparen]; now rewrite IHl, IHr.
  - intros o x IHx p. cbn [norm]. destruct (unary_prec <? p); cbn [unparen]; now rewrite IHx.
  - intros x IHx p. cbn [norm]. destruct (is_paren x); cbn [unparen]; apply IHx.
  - intros f IHf a IHa p. cbn [norm unparen]. now rewrite IHf, IHa.
  - intros x IHx i IHi p. cbn [norm unparen]. now rewrite IHx, IHi.
  - intros x IHx n p. cbn [norm unparen]. now rewrite IHx.
  - reflexivity.
  - intros e IHe r IHr. cbn [norm_args unparen_args]. now rewrite IHe, IHr.
Qed.

Theorem print_parse_roundtrip e : wfe e = true ->
  exists n, forall fuel, n <= fuel ->
    exists e', parse_bin fuel 1 (pr 0 e) = Some (e', []) /\ unparen e' = unparen e.
Proof.
  intros Hw. destruct (proj1 roundtrip_all e Hw) as (_ & _ & HA).
  destruct (expr_at1 e [] HA Hw I I) as [n H]. exists n. intros fuel Hf.
  exists (norm 0 e). rewrite app_nil_r in H. split; [now apply H|apply unparen_norm].
Qed.

(* the hypothesis on dereference is necessary: a dereferenced sum printed without parentheses reads
   as the sum of a dereference and the second operand *)
Lemma star_binary_refuted :
  let e := EUn OMul (EBin OAdd (EId 0) (EId 1)) in
  pr 0 e = [TOp OMul; TId 0; TOp OAdd; TId 1] /\
  parse_bin 10 1 (pr 0 e) = Some (EBin OAdd (EUn OMul (EId 0)) (EId 1), []) /\
  unparen (EBin OAdd (EUn OMul (EId 0)) (EId 1)) <> unparen e.
Proof. cbn. repeat split. discriminate. Qed.
