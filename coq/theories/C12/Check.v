(* C12 — executable comparisons for the correspondence check. *)
From Coq Require Import List Arith NArith Bool.
From GV Require Import C12.Model.
Import ListNotations.

Definition op_eqb (a b : op) : bool :=
  match a, b with
  | OLor, OLor | OLand, OLand | OEql, OEql | ONeq, ONeq | OLss, OLss | OLeq, OLeq | OGtr, OGtr | OGeq, OGeq
  | OAdd, OAdd | OSub, OSub | OOr, OOr | OXor, OXor | OMul, OMul | OQuo, OQuo | ORem, ORem | OShl, OShl
  | OShr, OShr | OAnd, OAnd | OAndNot, OAndNot | ONot, ONot | OArrow, OArrow => true
  | _, _ => false
  end.

Definition tok_eqb (a b : tok) : bool :=
  match a, b with
  | TId n, TId m => Nat.eqb n m
  | TOp o, TOp o' => op_eqb o o'
  | TLp, TLp | TRp, TRp | TLb, TLb | TRb, TRb | TComma, TComma | TDot, TDot => true
  | _, _ => false
  end.

Fixpoint toks_eqb (a b : list tok) : bool :=
  match a, b with
  | [], [] => true
  | x :: r, y :: r' => tok_eqb x y && toks_eqb r r'
  | _, _ => false
  end.

Fixpoint expr_eqb (a b : expr) {struct a} : bool :=
  match a, b with
  | EId n, EId m => Nat.eqb n m
  | EBin o l r, EBin o' l' r' => op_eqb o o' && expr_eqb l l' && expr_eqb r r'
  | EUn o x, EUn o' x' => op_eqb o o' && expr_eqb x x'
  | EParen x, EParen x' => expr_eqb x x'
  | ECall f a, ECall f' a' => expr_eqb f f' && exprs_eqb a a'
  | EIdx x i, EIdx x' i' => expr_eqb x x' && expr_eqb i i'
  | ESel x n, ESel x' n' => expr_eqb x x' && Nat.eqb n n'
  | _, _ => false
  end
with exprs_eqb (a b : exprs) {struct a} : bool :=
  match a, b with
  | ANil, ANil => true
  | ACons e r, ACons e' r' => expr_eqb e e' && exprs_eqb r r'
  | _, _ => false
  end.

Record c12case := mkCase { c_e : expr; c_toks : list tok; c_tree : expr; c_ok : bool }.

Definition indexed {A} (l : list A) : list (N * A) :=
  (fix go (i : N) (l : list A) := match l with [] => [] | x :: r => (i, x) :: go (i + 1)%N r end) 0%N l.
Definition bad_where (f : c12case -> bool) (cases : list c12case) : list (N * N) :=
  flat_map (fun ic => if f (snd ic) then [] else [(fst ic, 0%N)]) (indexed cases).

(* K1: the model printer's tokens are the tokens of the text gogen printed *)
Definition k1_bad := bad_where (fun c => c_ok c && toks_eqb (pr 0 (c_e c)) (c_toks c)).
(* K2: the model parser reads those tokens as the tree go/parser built (parentheses included) *)
Definition k2_bad := bad_where (fun c =>
  match parse_bin (4 * length (c_toks c) + 8) 1 (c_toks c) with
  | Some (t, []) => expr_eqb t (c_tree c)
  | _ => false
  end).
(* HYP: the tree is in the theorem's domain *)
Definition hyp_bad := bad_where (fun c => wfe (c_e c)).
