(* C11 — lowering schemes of the language extensions and the meaning they must preserve.
   Each scheme is the transcription of what the builder emits:
     - inline closure call (CallInlineClosureStart): one variable per parameter, initialised from
       the argument, in parameter order; the body reads the variables;
     - user-defined enumerator (emitForRangeStmt, Next style): it := c.XGo_Enum(); loop
       { v, ok := it.Next(); if !ok break; body };
     - member access on `any` in a loop condition (forStmt.Then): the hoisted assertion is evaluated
       on every iteration, followed by `if !cond { break }`;
     - boolean to number cast (CastFromBool): func() T { if b { return 1 }; return 0 }(). *)
From Coq Require Import List ZArith Bool Lia.
Import ListNotations.

(* ---------- inline closure calls: evaluation events of the argument expressions ---------- *)
Inductive order := Forward | Backward.

(* the call f(a0, ..., an-1) in Go evaluates the arguments left to right, once each *)
Definition go_call_events (nargs : nat) : list nat := seq 0 nargs.

(* lowered: parameter variables initialised in the given order; the body only reads variables,
   whatever its uses are *)
Definition lowered_events (o : order) (nargs : nat) (uses : list nat) : list nat :=
  match o with Forward => seq 0 nargs | Backward => rev (seq 0 nargs) end.

(* macro-style substitution of the argument expressions for the parameters (what must NOT happen) *)
Definition substituted_events (nargs : nat) (uses : list nat) : list nat := uses.

(* ---------- enumerators ---------- *)
Section Enum.
Variables IS EV : Type.
Variable next : IS -> option (EV * IS).

Inductive action := Go_on | Break.           (* continue and normal completion both go on *)

(* what `for v := range c` means: the elements the iterator yields, in order, until the body breaks *)
Fixpoint spec_trace (fuel : nat) (st : IS) (body : EV -> action) : list EV :=
  match fuel with
  | O => []
  | S f =>
      match next st with
      | None => []
      | Some (v, st') => v :: match body v with Break => [] | Go_on => spec_trace f st' body end
      end
  end.

(* the lowered loop: v, ok := it.Next(); if !ok { break }; body *)
Fixpoint lowered_loop (fuel : nat) (st : IS) (body : EV -> action) (acc : list EV) : list EV :=
  match fuel with
  | O => acc
  | S f =>
      match next st with
      | None => acc                                  (* !ok: break *)
      | Some (v, st') =>
          match body v with
          | Break => acc ++ [v]
          | Go_on => lowered_loop f st' body (acc ++ [v])
          end
      end
  end.
End Enum.

(* ---------- `any` member access in a loop condition ---------- *)
Section AnyLoop.
Variable St : Type.                 (* program state: includes the variable of type any *)
Variable cond : St -> bool.         (* a.m <op> ... evaluated on the CURRENT state *)
Variable body : St -> St.

(* source meaning: the condition is evaluated before every iteration on the current state *)
Fixpoint source_loop (fuel : nat) (s : St) : St :=
  match fuel with O => s | S f => if cond s then source_loop f (body s) else s end.

(* lowering A (the tree as found): the assertion is the init statement, evaluated once; the
   condition then reads the snapshot *)
Fixpoint snapshot_loop (fuel : nat) (snap s : St) : St :=
  match fuel with O => s | S f => if cond snap then snapshot_loop f snap (body s) else s end.
Definition lowering_init (fuel : nat) (s : St) : St := snapshot_loop fuel s s.

(* lowering B (repaired): for { tmp := assert(a); if !cond(tmp) { break }; body } *)
Fixpoint lowering_body (fuel : nat) (s : St) : St :=
  match fuel with
  | O => s
  | S f => let snap := s in if negb (cond snap) then s else lowering_body f (body s)
  end.
End AnyLoop.

(* ---------- bool casts ---------- *)
Definition bool_cast (b : bool) : Z := if b then 1%Z else 0%Z.      (* documented meaning *)
(* func() T { if b { return 1 } else { return 0 } }() *)
Inductive ret := Ret (z : Z).
Definition closure_if (b : bool) : ret := if b then Ret 1 else Ret 0.
Definition call_closure (r : ret) : Z := match r with Ret z => z end.
