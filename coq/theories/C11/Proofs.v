From Coq Require Import List ZArith Bool Lia.
From GV Require Import C11.Model.
Import ListNotations.

(* inline closures: in parameter order the events are those of the call, for every body *)
Theorem inline_forward_preserves_call_order nargs uses :
  lowered_events Forward nargs uses = go_call_events nargs.
Proof. reflexivity. Qed.

(* the order found at the pinned commit reverses them as soon as there are two arguments *)
Theorem inline_backward_refuted :
  lowered_events Backward 2 [0; 1] = [1; 0] /\ go_call_events 2 = [0; 1].
Proof. split; reflexivity. Qed.

(* substituting argument expressions would duplicate or drop evaluations *)
Theorem substitution_refuted :
  substituted_events 2 [0; 0; 1] <> go_call_events 2 /\ substituted_events 2 [1] <> go_call_events 2.
Proof. split; discriminate. Qed.

Lemma rev_seq_eq n : n <= 1 -> rev (seq 0 n) = seq 0 n.
Proof. intros H. destruct n as [|[|n]]; try reflexivity. lia. Qed.

(* with at most one argument both orders agree (why the existing tests could not see it) *)
Theorem inline_orders_agree_up_to_one_argument n uses :
  n <= 1 -> lowered_events Backward n uses = go_call_events n.
Proof. intros H. unfold lowered_events, go_call_events. now apply rev_seq_eq. Qed.

(* enumerators *)
Section Enum.
Variables IS EV : Type.
Variable next : IS -> option (EV * IS).

Lemma lowered_loop_acc fuel : forall st body acc,
  lowered_loop IS EV next fuel st body acc = acc ++ spec_trace IS EV next fuel st body.
Proof.
  induction fuel as [|f IH]; intros st body acc; cbn [lowered_loop spec_trace].
  - now rewrite app_nil_r.
  - destruct (next st) as [[v st']|]; [|now rewrite app_nil_r].
    destruct (body v).
    + rewrite IH, <- app_assoc. reflexivity.
    + reflexivity.
Qed.

Theorem enumerator_lowering_visits_the_yielded_elements fuel st body :
  lowered_loop IS EV next fuel st body [] = spec_trace IS EV next fuel st body.
Proof. now rewrite lowered_loop_acc. Qed.
End Enum.

(* any-member access in loop conditions *)
Section AnyLoop.
Variable St : Type.
Variable cond : St -> bool.
Variable body : St -> St.

Theorem condition_in_body_preserves_the_loop fuel s :
  lowering_body St cond body fuel s = source_loop St cond body fuel s.
Proof.
  revert s. induction fuel as [|f IH]; intros s; cbn [lowering_body source_loop]; [reflexivity|].
  destruct (cond s); cbn [negb]; [apply IH|reflexivity].
Qed.
End AnyLoop.

(* the init-statement lowering is wrong as soon as the body changes what the condition reads:
   a list of two nodes is walked for ever (here: until the fuel runs out) *)
Theorem condition_as_init_refuted :
  let cond := fun n : nat => Nat.ltb n 2 in
  let body := fun n : nat => S n in
  source_loop nat cond body 10 0 = 2 /\ lowering_init nat cond body 10 0 = 10.
Proof. cbn. split; reflexivity. Qed.

Theorem bool_cast_lowering b : call_closure (closure_if b) = bool_cast b.
Proof. destruct b; reflexivity. Qed.
