(* C11 — correspondence: the enumerator model evaluated on the inputs the generated program was run
   on, and the order of the parameter initialisers of inline closures. *)
From Coq Require Import List ZArith NArith Bool.
From GV Require Import C11.Model.
Import ListNotations.
Local Open Scope Z_scope.

Definition next_list (l : list (Z * Z)) : option ((Z * Z) * list (Z * Z)) :=
  match l with [] => None | x :: r => Some (x, r) end.

Fixpoint index_from (i : Z) (l : list Z) : list (Z * Z) :=
  match l with [] => [] | v :: r => (i, v) :: index_from (i + 1) r end.

(* the function the harness builds: s := 0; for k, v := range c { if v == skip { continue };
   if v == stop { break | return s + 1000 }; s = s*10 + v (+ k*100) }; return s *)
Definition enum_result (elems : list Z) (skip stop : Z) (use_ret two : bool) : Z :=
  let body := fun kv : Z * Z => if snd kv =? skip then Go_on else if snd kv =? stop then Break else Go_on in
  let visited := lowered_loop _ _ next_list (S (length elems)) (index_from 0 elems) body [] in
  let s := fold_left (fun s kv => if (snd kv =? skip) || (snd kv =? stop) then s
                                  else s * 10 + snd kv + (if two then fst kv * 100 else 0)) visited 0 in
  (* a skipped element equal to stop never reaches the stop test *)
  if use_ret && existsb (fun kv => (snd kv =? stop) && negb (snd kv =? skip)) visited then s + 1000 else s.

(* case: ((elems, skip, stop), (use_ret, two), observed result) *)
Definition enum_case := ((list Z * Z * Z) * (bool * bool) * Z)%type.

Definition indexed {A} (l : list A) : list (N * A) :=
  (fix go (i : N) (l : list A) := match l with [] => [] | x :: r => (i, x) :: go (i + 1)%N r end) 0%N l.

Definition k1_bad (cases : list enum_case) : list (N * N) :=
  flat_map (fun ic =>
    let '((elems, skip, stop), (ur, two), obs) := snd ic in
    if enum_result elems skip stop ur two =? obs then [] else [(fst ic, 0%N)]) (indexed cases).

(* inline closures: the observed order of the parameter initialisers (argument numbers) *)
Definition inline_bad (cases : list (nat * list nat)) : list (N * N) :=
  flat_map (fun ic => let '(n, obs) := snd ic in
    if list_eq_dec Nat.eq_dec (lowered_events Forward n []) obs then [] else [(fst ic, 0%N)]) (indexed cases).
