(* C16 — "whichever files are current".  Package.SetCurFile / RestoreCurFile only replace
   Package.file; that no builder operation changes it is what the harness observes on the real code
   (CurFile after every operation of histories with random file switches = the file last set).
   The machine is extended with the identity of the current file and an operation that switches
   it; any interleaving of file switches with the operations of a construct runs exactly as the
   construct alone, and the current file at the end is the last one set. *)
From Coq Require Import List Arith Bool Lia.
From GV Require Import C16.Model.
Import ListNotations.

Inductive fop := FOp (o : bop) | FSet (f : nat).

Definition fstep (s : bst * nat) (o : fop) : option (bst * nat) :=
  match o with
  | FOp o => match bstep (fst s) o with Some s' => Some (s', snd s) | None => None end
  | FSet f => Some (fst s, f)
  end.

Fixpoint frun (ops : list fop) (s : bst * nat) : option (bst * nat) :=
  match ops with
  | [] => Some s
  | o :: r => match fstep s o with Some s' => frun r s' | None => None end
  end.

Fixpoint strip (l : list fop) : list bop :=
  match l with
  | [] => []
  | FOp o :: r => o :: strip r
  | FSet _ :: r => strip r
  end.

Fixpoint last_file (f : nat) (l : list fop) : nat :=
  match l with
  | [] => f
  | FOp _ :: r => last_file f r
  | FSet g :: r => last_file g r
  end.

Lemma frun_strip l : forall s f,
  frun l (s, f) = match run (strip l) s with Some s' => Some (s', last_file f l) | None => None end.
Proof.
  induction l as [|o l IH]; intros s f; cbn [frun strip last_file run].
  - reflexivity.
  - destruct o as [o|g]; cbn [fstep fst snd strip last_file run].
    + unfold obind. destruct (bstep s o) as [s'|]; [apply IH|reflexivity].
    + apply IH.
Qed.
