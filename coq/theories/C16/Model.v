(* C16 — abstract CodeBuilder state: operand-stack length, block base, scope
   and current-function identities, the saved contexts held by open block
   objects.  Transitions transcribe startBlockStmt / endBlockStmt /
   startFuncBody / endFuncBody (codebuild.go), the Then/Else/Post/End methods of
   the statement objects (stmt.go), EndStmt, InitStart/EndInit and the operand
   arities of the expression operations.  [compile] is the canonical operation
   sequence the harness (ir.go) issues for a statement. *)
From Coq Require Import List Arith Bool Lia.
Import ListNotations.

Record frame := mkFrame { f_base : nat; f_scope : nat; f_fn : nat; f_nlab : nat }.
Record bst := mkSt {
  stk : nat;            (* InternalStack().Len() *)
  base : nat;           (* current.base *)
  scope : nat;          (* identity of current.scope *)
  fn : nat;             (* identity of current.fn (0 = none) *)
  nlab : nat;           (* number of labels in current.labels (label context of the current function) *)
  saved : list frame;   (* the `old` contexts of the open blocks, innermost first *)
  nscope : nat;         (* next fresh scope identity *)
  nfn : nat             (* next fresh function identity *)
}.

Inductive bop :=
| OPush                 (* Val / VarRef / Typ / None : +1 *)
| OBinary               (* BinaryOp : 2 -> 1 *)
| OUnary                (* UnaryOp  : 1 -> 1 *)
| OCall (n : nat)       (* Call n   : n+1 -> 1 *)
| OStmt (k : nat)       (* consumes k operands, emits a statement: Assign, IncDec, Send, Go, Defer, Return, EndInit *)
| OEndStmt              (* pops the at most one operand above base *)
| ONop                  (* Label, Break/Continue/Goto/Fallthrough, NewFunc, NewClosure, InitStart *)
| ONewLabel             (* NewLabel: one more label in the current function's label context *)
| OInlineStart (arity : nat)  (* CallInlineClosureStart: the arguments are consumed by the parameter initialisers *)
| OInlineEnd (nres : nat)     (* inline closure End: endFuncBody, then push the result variables *)
| OOpen                 (* startBlockStmt *)
| OOpenFn               (* startFuncBody *)
| OOpenV                (* startVBlockStmt: a new scope only; statements go to the enclosing block, the base stays *)
| OCloseV               (* endVBlockStmt: the scope is restored; the stack is not truncated *)
| OThenOpen             (* ifStmt.Then / forStmt.Then : pop the condition, open the body block *)
| OThenPop              (* switchStmt.Then / TypeAssertThen / RangeAssignThen : pop one operand *)
| OThenAll              (* caseStmt.Then / typeCaseStmt.Then : pop everything above base *)
| OElse                 (* ifStmt.Else : close the body block, open the else block *)
| OClose                (* endBlockStmt *)
| OClose2               (* ifStmt.End / forStmt.End without post: body block, then the statement's own block *)
| OCloseFn              (* endFuncBody *)
| OCloseFnPush.         (* closure End : endFuncBody, then push the function literal *)

Definition pop (k : nat) (s : bst) : option bst :=
  if base s + k <=? stk s then Some (mkSt (stk s - k) (base s) (scope s) (fn s) (nlab s) (saved s) (nscope s) (nfn s))
  else None.
Definition push (s : bst) : bst := mkSt (S (stk s)) (base s) (scope s) (fn s) (nlab s) (saved s) (nscope s) (nfn s).
Fixpoint pushn (n : nat) (s : bst) : bst := match n with 0 => s | S m => pushn m (push s) end.

Definition open (s : bst) : bst :=
  mkSt (stk s) (stk s) (nscope s) (fn s) (nlab s) (mkFrame (base s) (scope s) (fn s) (nlab s) :: saved s) (S (nscope s)) (nfn s).
(* startFuncBody: new function identity, empty label context *)
Definition open_fn (s : bst) : bst :=
  mkSt (stk s) (stk s) (nscope s) (nfn s) 0 (mkFrame (base s) (scope s) (fn s) (nlab s) :: saved s) (S (nscope s)) (S (nfn s)).
(* endBlockStmt: stk.SetLen(current.base); current = old (labels belong to the function, not the block) *)
Definition close (s : bst) : option bst :=
  match saved s with
  | [] => None
  | f :: r => Some (mkSt (base s) (f_base f) (f_scope f) (f_fn f) (nlab s) r (nscope s) (nfn s))
  end.
(* endFuncBody: additionally restores the enclosing function's label context *)
Definition close_fn (s : bst) : option bst :=
  match saved s with
  | [] => None
  | f :: r => Some (mkSt (base s) (f_base f) (f_scope f) (f_fn f) (f_nlab f) r (nscope s) (nfn s))
  end.

(* startVBlockStmt / endVBlockStmt: only the code block and the scope are saved and restored *)
Definition open_v (s : bst) : bst :=
  mkSt (stk s) (base s) (nscope s) (fn s) (nlab s) (mkFrame (base s) (scope s) (fn s) (nlab s) :: saved s) (S (nscope s)) (nfn s).
Definition close_v (s : bst) : option bst :=
  match saved s with
  | [] => None
  | f :: r => Some (mkSt (stk s) (base s) (f_scope f) (fn s) (nlab s) r (nscope s) (nfn s))
  end.

Definition obind {A B} (o : option A) (f : A -> option B) : option B :=
  match o with Some x => f x | None => None end.

Definition bstep (s : bst) (o : bop) : option bst :=
  match o with
  | OPush => Some (push s)
  | OBinary => obind (pop 2 s) (fun s' => Some (push s'))
  | OUnary => obind (pop 1 s) (fun s' => Some (push s'))
  | OCall n => obind (pop (S n) s) (fun s' => Some (push s'))
  | OStmt k => pop k s
  | OEndStmt => if stk s - base s <=? 1 then pop (stk s - base s) s else None
  | ONop => Some s
  | ONewLabel => Some (mkSt (stk s) (base s) (scope s) (fn s) (S (nlab s)) (saved s) (nscope s) (nfn s))
  | OInlineStart a => obind (pop a s) (fun s' => Some (open_fn s'))
  | OInlineEnd n => obind (close_fn s) (fun s' => Some (pushn n s'))
  | OOpen => Some (open s)
  | OOpenFn => Some (open_fn s)
  | OOpenV => Some (open_v s)
  | OCloseV => close_v s
  | OThenOpen => obind (pop 1 s) (fun s' => Some (open s'))
  | OThenPop => pop 1 s
  | OThenAll => pop (stk s - base s) s
  | OElse => obind (close s) (fun s' => Some (open s'))
  | OClose => close s
  | OClose2 => obind (close s) close
  | OCloseFn => close_fn s
  | OCloseFnPush => obind (close_fn s) (fun s' => Some (push s'))
  end.

Fixpoint run (ops : list bop) (s : bst) : option bst :=
  match ops with
  | [] => Some s
  | o :: r => obind (bstep s o) (run r)
  end.

(* ---------- statement syntax (twin of harness/ir.go irStmt) ---------- *)
Inductive cstmt :=
| CAssign | CInc | CSend | CCall | CGo | CDefer | CDefine | CEmpty | CPanic | CConstExpr
| CReturn (with_value : bool)
| CBranch
| CLabeled (placed : bool) (s : cstmt)
| CBlock (l : cstmts)
| CVBlock (l : cstmts)           (* VBlock ... End: a scope without a block of its own *)
| CIf (body : cstmts) (els : celse)
| CFor (cond post : bool) (body : cstmts)
| CRange (body : cstmts)
| CSwitch (tag : bool) (cs : cclauses)
| CTSwitch (cs : cclauses)
| CSelect (cs : cclauses)
| CClosure (nlabels : nat) (body : cstmts)
| CInline (body : cstmts)        (* x = func(a int) int { body; return a }(x) as an inline closure call *)
with cstmts := CNil | CCons (s : cstmt) (r : cstmts)
with cclauses := CCNil | CCCons (default : bool) (body : cstmts) (r : cclauses)
with celse := ENone | EBlock (l : cstmts) | EIf (s : cstmt).

Definition cond_ops : list bop := [OPush; OPush; OBinary].

(* which: 0 switch-with-tag, 1 switch-without-tag, 2 type switch, 3 select *)
Definition case_head (which : nat) (default : bool) : list bop :=
  if default then
    match which with 3 => [] | _ => [] end
  else
    match which with
    | 0 => [OPush]
    | 1 => [OPush; OPush; OBinary]
    | 2 => [OPush]
    | _ => [OPush; OUnary; OEndStmt]
    end.
Definition case_then (which : nat) : bop := match which with 3 => ONop | _ => OThenAll end.

Fixpoint compile (s : cstmt) : list bop :=
  match s with
  | CAssign => [OPush; OPush; OPush; OBinary; OStmt 2]
  | CInc => [OPush; OStmt 1]
  | CSend => [OPush; OPush; OStmt 2]
  | CCall => [OPush; OCall 0; OEndStmt]
  | CGo | CDefer => [OPush; OCall 0; OStmt 1]
  | CDefine => [ONop; OPush; OStmt 1]
  | CEmpty => []
  | CPanic => [OPush; OPush; OCall 1; OEndStmt]
  | CConstExpr => [OPush; OPush; OBinary; OEndStmt]
  | CReturn true => [OPush; OStmt 1]
  | CReturn false => [OStmt 0]
  | CBranch => [ONop]
  | CLabeled placed s' => (if placed then [ONop] else []) ++ compile s'
  | CBlock l => OOpen :: compile_list l ++ [OClose]
  | CVBlock l => OOpenV :: compile_list l ++ [OCloseV]
  | CIf body els =>
      OOpen :: cond_ops ++ [OThenOpen] ++ compile_list body ++ compile_else els ++ [OClose2]
  | CFor cond post body =>
      OOpen :: (if cond then [OPush; OPush; OBinary] else [OPush]) ++ [OThenOpen] ++ compile_list body ++
      (if post then [OClose; OPush; OStmt 1; OClose] else [OClose2])
  | CRange body => OOpen :: [OPush; OThenPop; OPush; OPush; OStmt 2] ++ compile_list body ++ [OClose]
  | CSwitch tag cs =>
      OOpen :: [OPush; OThenPop] ++ compile_clauses (if tag then 0 else 1) cs ++ [OClose]
  | CTSwitch cs => OOpen :: [OPush; OThenPop] ++ compile_clauses 2 cs ++ [OClose]
  | CSelect cs => OOpen :: compile_clauses 3 cs ++ [OClose]
  | CClosure nl body => ONop :: OOpenFn :: repeat ONewLabel nl ++ compile_list body ++ [OCloseFnPush; OCall 0; OEndStmt]
  | CInline body =>
      [OPush; OPush; OInlineStart 1] ++ compile_list body ++ [OPush; OStmt 1; OInlineEnd 1; OStmt 2]
  end
with compile_list (l : cstmts) : list bop :=
  match l with CNil => [] | CCons s r => compile s ++ compile_list r end
with compile_clauses (which : nat) (cs : cclauses) : list bop :=
  match cs with
  | CCNil => []
  | CCCons d body r =>
      OOpen :: case_head which d ++ [case_then which] ++ compile_list body ++ [OClose] ++ compile_clauses which r
  end
with compile_else (e : celse) : list bop :=
  match e with
  | ENone => []
  | EBlock l => OElse :: compile_list l
  | EIf s => OElse :: compile s
  end.

(* a whole function: NewFunc, BodyStart, body, End *)
Definition compile_func (nlabels : nat) (body : cstmts) : list bop :=
  ONop :: OOpenFn :: repeat ONewLabel nlabels ++ compile_list body ++ [OCloseFn].

Definition init_st : bst := mkSt 0 0 0 0 0 [] 1 1.
