(* C16 — correspondence checker: the harness's operation sequence must be the
   model's [compile_func] of the same body, and after every operation the real
   builder's stack length, scope identity and function identity must be the
   machine's. *)
From Coq Require Import List Arith Bool.
From GV Require Import C16.Model.
Import ListNotations.

Record c16case := mkCase { c_nlabels : nat; c_body : cstmts; c_obs : list (bop * nat * nat * nat * nat) }.

Definition bop_eqb (a b : bop) : bool :=
  match a, b with
  | OPush, OPush | OBinary, OBinary | OUnary, OUnary | OEndStmt, OEndStmt | ONop, ONop
  | OOpen, OOpen | OOpenFn, OOpenFn | OOpenV, OOpenV | OCloseV, OCloseV | OThenOpen, OThenOpen | OThenPop, OThenPop | OThenAll, OThenAll
  | OElse, OElse | OClose, OClose | OClose2, OClose2 | OCloseFn, OCloseFn | OCloseFnPush, OCloseFnPush => true
  | ONewLabel, ONewLabel => true
  | OCall n, OCall m | OStmt n, OStmt m | OInlineStart n, OInlineStart m | OInlineEnd n, OInlineEnd m => Nat.eqb n m
  | _, _ => false
  end.

(* index of the first operation where something differs; None = all equal *)
Fixpoint walk (i : nat) (s : bst) (ops : list bop) (obs : list (bop * nat * nat * nat * nat)) : option nat :=
  match ops, obs with
  | [], [] => None
  | o :: r, (o', k, sc, f, nl) :: r' =>
    if bop_eqb o o' then
      match bstep s o with
      | Some s' => if Nat.eqb (stk s') k && Nat.eqb (scope s') sc && Nat.eqb (fn s') f && Nat.eqb (nlab s') nl
                   then walk (S i) s' r r' else Some i
      | None => Some i
      end
    else Some i
  | _, _ => Some i
  end.

Definition case_bad (c : c16case) : option nat := walk 0 init_st (compile_func (c_nlabels c) (c_body c)) (c_obs c).

Fixpoint bad_from (i : nat) (cs : list c16case) : list (nat * nat) :=
  match cs with
  | [] => []
  | c :: r => match case_bad c with Some j => [(i, j)] | None => [] end ++ bad_from (S i) r
  end.
Definition k1_bad cs := bad_from 0 cs.
