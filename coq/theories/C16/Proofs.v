From Coq Require Import List Arith Bool Lia.
From GV Require Import C16.Model.
Import ListNotations.

Scheme cstmt_mut := Induction for cstmt Sort Prop
with cstmts_mut := Induction for cstmts Sort Prop
with cclauses_mut := Induction for cclauses Sort Prop
with celse_mut := Induction for celse Sort Prop.
Combined Scheme cstmt_mutind from cstmt_mut, cstmts_mut, cclauses_mut, celse_mut.

Lemma run_app a b s : run (a ++ b) s = obind (run a s) (run b).
Proof.
  revert s; induction a as [|o a IH]; intros s; cbn [app run obind]; [reflexivity|].
  destruct (bstep s o); cbn [obind]; [apply IH|reflexivity].
Qed.

Lemma run_cons o r s : run (o :: r) s = obind (bstep s o) (run r).
Proof. reflexivity. Qed.

(* how many scopes / function contexts a statement opens (the only part of the
   state that is not restored: the fresh-identity counters) *)
Fixpoint nsc (s : cstmt) : nat :=
  match s with
  | CLabeled _ s' => nsc s'
  | CBlock l | CVBlock l => 1 + nsc_list l
  | CIf body els => 2 + nsc_list body + nsc_else els
  | CFor _ _ body => 2 + nsc_list body
  | CRange body => 1 + nsc_list body
  | CSwitch _ cs | CTSwitch cs | CSelect cs => 1 + nsc_clauses cs
  | CClosure _ body => 1 + nsc_list body
  | CInline body => 1 + nsc_list body
  | _ => 0
  end
with nsc_list (l : cstmts) : nat := match l with CNil => 0 | CCons s r => nsc s + nsc_list r end
with nsc_clauses (cs : cclauses) : nat :=
  match cs with CCNil => 0 | CCCons _ body r => 1 + nsc_list body + nsc_clauses r end
with nsc_else (e : celse) : nat :=
  match e with ENone => 0 | EBlock l => 1 + nsc_list l | EIf s => 1 + nsc s end.

Fixpoint nfc (s : cstmt) : nat :=
  match s with
  | CLabeled _ s' => nfc s'
  | CBlock l | CVBlock l | CFor _ _ l | CRange l => nfc_list l
  | CIf body els => nfc_list body + nfc_else els
  | CSwitch _ cs | CTSwitch cs | CSelect cs => nfc_clauses cs
  | CClosure _ body => 1 + nfc_list body
  | CInline body => 1 + nfc_list body
  | _ => 0
  end
with nfc_list (l : cstmts) : nat := match l with CNil => 0 | CCons s r => nfc s + nfc_list r end
with nfc_clauses (cs : cclauses) : nat :=
  match cs with CCNil => 0 | CCCons _ body r => nfc_list body + nfc_clauses r end
with nfc_else (e : celse) : nat :=
  match e with ENone => 0 | EBlock l => nfc_list l | EIf s => nfc s end.

Section Steps.
Variables (b sc f l : nat) (sv : list frame) (ns nf : nat).
Notation S0 := (mkSt b b sc f l sv ns nf).
Notation S1 := (mkSt (S b) b sc f l sv ns nf).
Notation S2 := (mkSt (S (S b)) b sc f l sv ns nf).
Notation S3 := (mkSt (S (S (S b))) b sc f l sv ns nf).

Ltac t := cbn [bstep]; unfold pop, push, open; cbn [obind stk base scope fn nlab saved nscope nfn];
  repeat match goal with |- context [?x <=? ?y] =>
    destruct (Nat.leb_spec x y); [|exfalso; cbn in *; lia] end;
  cbn [obind stk base scope fn nlab saved nscope nfn]; unfold push, open; cbn [obind stk base scope fn nlab saved nscope nfn]; repeat f_equal; try lia.

Lemma st_push0 : bstep S0 OPush = Some S1. Proof. reflexivity. Qed.
Lemma st_push1 : bstep S1 OPush = Some S2. Proof. reflexivity. Qed.
Lemma st_push2 : bstep S2 OPush = Some S3. Proof. reflexivity. Qed.
Lemma st_bin2 : bstep S2 OBinary = Some S1. Proof. t. Qed.
Lemma st_bin3 : bstep S3 OBinary = Some S2. Proof. t. Qed.
Lemma st_un1 : bstep S1 OUnary = Some S1. Proof. t. Qed.
Lemma st_call0 : bstep S1 (OCall 0) = Some S1. Proof. t. Qed.
Lemma st_call1 : bstep S2 (OCall 1) = Some S1. Proof. t. Qed.
Lemma st_stmt0 : bstep S0 (OStmt 0) = Some S0. Proof. t. Qed.
Lemma st_stmt1 : bstep S1 (OStmt 1) = Some S0. Proof. t. Qed.
Lemma st_stmt2 : bstep S2 (OStmt 2) = Some S0. Proof. t. Qed.
Lemma st_end1 : bstep S1 OEndStmt = Some S0.
Proof.
  cbn [bstep stk base]. replace (S b - b) with 1 by lia. cbn [Nat.leb]. t.
Qed.
Lemma st_end0 : bstep S0 OEndStmt = Some S0.
Proof. cbn [bstep stk base]. replace (b - b) with 0 by lia. cbn [Nat.leb]. t. Qed.
Lemma st_nop0 : bstep S0 ONop = Some S0. Proof. reflexivity. Qed.
Lemma st_thenpop : bstep S1 OThenPop = Some S0. Proof. t. Qed.
Lemma st_thenall1 : bstep S1 OThenAll = Some S0.
Proof. cbn [bstep stk base]. replace (S b - b) with 1 by lia. t. Qed.
Lemma st_thenall0 : bstep S0 OThenAll = Some S0.
Proof. cbn [bstep stk base]. replace (b - b) with 0 by lia. t. Qed.
Lemma st_open : bstep S0 OOpen = Some (mkSt b b ns f l (mkFrame b sc f l :: sv) (S ns) nf).
Proof. reflexivity. Qed.
Lemma st_openv : bstep S0 OOpenV = Some (mkSt b b ns f l (mkFrame b sc f l :: sv) (S ns) nf).
Proof. reflexivity. Qed.
Lemma st_openfn : bstep S0 OOpenFn = Some (mkSt b b ns nf 0 (mkFrame b sc f l :: sv) (S ns) (S nf)).
Proof. reflexivity. Qed.
Lemma st_newlabel : bstep S0 ONewLabel = Some (mkSt b b sc f (S l) sv ns nf).
Proof. reflexivity. Qed.
Lemma st_inlinestart : bstep S2 (OInlineStart 1) = Some (mkSt (S b) (S b) ns nf 0 (mkFrame b sc f l :: sv) (S ns) (S nf)).
Proof. t. Qed.
Lemma st_dummy : True.
Proof. reflexivity. Qed.
Lemma st_thenopen : bstep S1 OThenOpen = Some (mkSt b b ns f l (mkFrame b sc f l :: sv) (S ns) nf).
Proof. t. Qed.
End Steps.

Section Closes.
Variables (b sc f l b0 sc0 f0 l0 : nat) (sv : list frame) (ns nf : nat).
Lemma st_close :
  bstep (mkSt b b sc f l (mkFrame b0 sc0 f0 l0 :: sv) ns nf) OClose = Some (mkSt b b0 sc0 f0 l sv ns nf).
Proof. reflexivity. Qed.
Lemma st_closev :
  bstep (mkSt b b sc f l (mkFrame b0 sc0 f0 l0 :: sv) ns nf) OCloseV = Some (mkSt b b sc0 f l sv ns nf).
Proof. reflexivity. Qed.
Lemma st_closefn :
  bstep (mkSt b b sc f l (mkFrame b0 sc0 f0 l0 :: sv) ns nf) OCloseFn = Some (mkSt b b0 sc0 f0 l0 sv ns nf).
Proof. reflexivity. Qed.
Lemma st_closefnpush :
  bstep (mkSt b b sc f l (mkFrame b0 sc0 f0 l0 :: sv) ns nf) OCloseFnPush = Some (mkSt (S b) b0 sc0 f0 l0 sv ns nf).
Proof. reflexivity. Qed.
Lemma st_inlineend :
  bstep (mkSt b b sc f l (mkFrame b0 sc0 f0 l0 :: sv) ns nf) (OInlineEnd 1) = Some (mkSt (S b) b0 sc0 f0 l0 sv ns nf).
Proof. reflexivity. Qed.
Lemma st_else :
  bstep (mkSt b b sc f l (mkFrame b0 sc0 f0 l0 :: sv) ns nf) OElse =
  Some (mkSt b b ns f0 l (mkFrame b0 sc0 f0 l :: sv) (S ns) nf).
Proof. reflexivity. Qed.
Variables (b1 sc1 f1 l1 : nat).
Lemma st_close2 :
  bstep (mkSt b b sc f l (mkFrame b0 sc0 f0 l0 :: mkFrame b1 sc1 f1 l1 :: sv) ns nf) OClose2 =
  Some (mkSt b0 b1 sc1 f1 l sv ns nf).
Proof. reflexivity. Qed.
End Closes.

Ltac sx :=
  repeat (first [ rewrite run_app | rewrite run_cons | rewrite st_push0 | rewrite st_push1 | rewrite st_push2 | rewrite st_bin2 | rewrite st_bin3
                | rewrite st_un1 | rewrite st_call0 | rewrite st_call1 | rewrite st_stmt0 | rewrite st_stmt1
                | rewrite st_stmt2 | rewrite st_end1 | rewrite st_nop0 | rewrite st_thenpop
                | rewrite st_thenall1 | rewrite st_thenall0 | rewrite st_open | rewrite st_openv | rewrite st_closev | rewrite st_openfn
                | rewrite st_thenopen | rewrite st_close | rewrite st_closefn | rewrite st_closefnpush
                | rewrite st_else | rewrite st_close2 | rewrite st_newlabel | rewrite st_inlinestart | rewrite st_inlineend ];
          cbn [obind run app]).

Definition fin (b sc f l : nat) (sv : list frame) (ns nf : nat) (ds df : nat) : option bst :=
  Some (mkSt b b sc f l sv (ns + ds) (nf + df)).

Lemma fin_eq b sc f l sv ns nf ds df ns' nf' :
  ns' = ns + ds -> nf' = nf + df -> Some (mkSt b b sc f l sv ns' nf') = fin b sc f l sv ns nf ds df.
Proof. intros -> ->. reflexivity. Qed.

Lemma run_newlabels n rest b sc f l sv ns nf :
  run (repeat ONewLabel n ++ rest) (mkSt b b sc f l sv ns nf) = run rest (mkSt b b sc f (n + l) sv ns nf).
Proof.
  revert l; induction n as [|n IH]; intros l; [reflexivity|].
  cbn [repeat app run]. rewrite st_newlabel. cbn [obind]. rewrite IH. f_equal. f_equal. lia.
Qed.

Lemma run_newlabels0 n b sc f l sv ns nf :
  run (repeat ONewLabel n) (mkSt b b sc f l sv ns nf) = Some (mkSt b b sc f (n + l) sv ns nf).
Proof.
  rewrite <- (app_nil_r (repeat ONewLabel n)), run_newlabels. reflexivity.
Qed.

Ltac ih H := rewrite H; unfold fin at 1; cbn [obind].

Definition P_stmt (s : cstmt) : Prop :=
  forall b sc f l sv ns nf, run (compile s) (mkSt b b sc f l sv ns nf) = fin b sc f l sv ns nf (nsc s) (nfc s).
Definition P_list (l : cstmts) : Prop :=
  forall b sc f lb sv ns nf, run (compile_list l) (mkSt b b sc f lb sv ns nf) = fin b sc f lb sv ns nf (nsc_list l) (nfc_list l).
Definition P_clauses (cs : cclauses) : Prop :=
  forall which b sc f l sv ns nf,
    run (compile_clauses which cs) (mkSt b b sc f l sv ns nf) = fin b sc f l sv ns nf (nsc_clauses cs) (nfc_clauses cs).
(* an else part runs inside the body block of the if statement (frame F0 on top)
   and leaves the builder inside a block with the same saved frame *)
Definition P_else (e : celse) : Prop :=
  forall b sc f l b0 sc0 sv ns nf,
  exists sc',
    run (compile_else e) (mkSt b b sc f l (mkFrame b0 sc0 f l :: sv) ns nf) =
    fin b sc' f l (mkFrame b0 sc0 f l :: sv) ns nf (nsc_else e) (nfc_else e).

Lemma balanced_all :
  (forall s, P_stmt s) /\ (forall l, P_list l) /\ (forall cs, P_clauses cs) /\ (forall e, P_else e).
Proof.
  apply cstmt_mutind; unfold P_stmt, P_list, P_clauses, P_else; intros;
    cbn [compile compile_list compile_clauses compile_else cond_ops nsc nsc_list nsc_clauses nsc_else
         nfc nfc_list nfc_clauses nfc_else].
  - sx. apply fin_eq; lia.
  - sx. apply fin_eq; lia.
  - sx. apply fin_eq; lia.
  - sx. apply fin_eq; lia.
  - sx. apply fin_eq; lia.
  - sx. apply fin_eq; lia.
  - sx. apply fin_eq; lia.
  - sx. apply fin_eq; lia.
  - sx. apply fin_eq; lia.
  - sx. apply fin_eq; lia.
  - destruct with_value; sx; apply fin_eq; lia.
  - sx. apply fin_eq; lia.
  - (* CLabeled *) destruct placed; sx; apply H.
  - (* CBlock *) sx. ih H. sx. apply fin_eq; lia.
  - (* CVBlock *) sx. ih H. sx. apply fin_eq; lia.
  - (* CIf *) unfold cond_ops. sx. ih H. rewrite run_app.
    match goal with |- context [run (compile_else els) (mkSt ?b1 ?b1 ?sc1 ?f1 ?l1 (mkFrame ?b0 ?sc0 ?f1 ?l1 :: ?sv1) ?ns1 ?nf1)] =>
      destruct (H0 b1 sc1 f1 l1 b0 sc0 sv1 ns1 nf1) as (sc' & R) end.
    ih R. sx. apply fin_eq; lia.
  - (* CFor *) destruct cond; sx; ih H; destruct post; sx; apply fin_eq; lia.
  - (* CRange *) sx. ih H. sx. apply fin_eq; lia.
  - (* CSwitch *) sx. ih H. sx. apply fin_eq; lia.
  - (* CTSwitch *) sx. ih H. sx. apply fin_eq; lia.
  - (* CSelect *) sx. ih H. sx. apply fin_eq; lia.
  - (* CClosure *) sx. rewrite run_newlabels0. cbn [obind]. sx. ih H. sx. apply fin_eq; lia.
  - (* CInline *) sx. ih H. sx. apply fin_eq; lia.
  - (* CNil *) cbn [run]. apply fin_eq; lia.
  - (* CCons *) sx. ih H. ih H0. apply fin_eq; lia.
  - (* CCNil *) cbn [run]. apply fin_eq; lia.
  - (* CCCons *)
    assert (Hh : run (case_head which default ++ [case_then which])
                     (mkSt b b ns f l (mkFrame b sc f l :: sv) (S ns) nf) =
                 Some (mkSt b b ns f l (mkFrame b sc f l :: sv) (S ns) nf)).
    { destruct default; [destruct which as [|[|[|[|w]]]]; cbn [case_head case_then app]; sx; reflexivity|].
      destruct which as [|[|[|[|w]]]]; cbn [case_head case_then app]; sx; reflexivity. }
    rewrite run_cons, st_open. cbn [obind].
    rewrite app_assoc, run_app, Hh. cbn [obind].
    sx. ih H. sx. ih H0. apply fin_eq; lia.
  - (* ENone *) exists sc. cbn [run]. apply fin_eq; lia.
  - (* EBlock *) exists ns. sx. ih H. apply fin_eq; lia.
  - (* EIf *) exists ns. sx. ih H. apply fin_eq; lia.
Qed.

(* every completed statement leaves the stack at the enclosing block's base and
   restores scope, function and the chain of saved contexts *)
Theorem stmt_balanced s b sc f l sv ns nf :
  run (compile s) (mkSt b b sc f l sv ns nf) = Some (mkSt b b sc f l sv (ns + nsc s) (nf + nfc s)).
Proof. apply balanced_all. Qed.

Theorem list_balanced l b sc f lb sv ns nf :
  run (compile_list l) (mkSt b b sc f lb sv ns nf) = Some (mkSt b b sc f lb sv (ns + nsc_list l) (nf + nfc_list l)).
Proof. apply balanced_all. Qed.

Theorem func_balanced nl body b sc f l sv ns nf :
  run (compile_func nl body) (mkSt b b sc f l sv ns nf) =
  Some (mkSt b b sc f l sv (S ns + nsc_list body) (S nf + nfc_list body)).
Proof.
  unfold compile_func. sx. rewrite run_newlabels0. cbn [obind]. sx. rewrite list_balanced. cbn [obind]. sx. reflexivity.
Qed.

(* endBlockStmt truncates the operand stack to the block's base whatever the body left there *)
Theorem close_truncates s s' : bstep s OClose = Some s' -> stk s' = base s.
Proof. cbn [bstep]. unfold close. destruct (saved s); [discriminate|]. intros H; inversion H; reflexivity. Qed.

(* expression operations change the stack by their documented arity *)
Theorem arity o s s' :
  bstep s o = Some s' ->
  match o with
  | OPush => stk s' = S (stk s)
  | OBinary => S (stk s') = stk s
  | OUnary => stk s' = stk s
  | OCall n => stk s' + n = stk s
  | OStmt k => stk s' + k = stk s
  | _ => True
  end.
Proof.
  destruct o; cbn [bstep]; try tauto; unfold pop, push;
    repeat match goal with |- context [?x <=? ?y] => destruct (Nat.leb_spec x y) end;
    cbn [obind stk base]; intros HH; try discriminate; inversion HH; cbn [stk]; lia.
Qed.
