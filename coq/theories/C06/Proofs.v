(* C06 — first applicable candidate, no residue of rejected candidates. *)
From Coq Require Import List Arith NArith Bool Lia Wf_nat.
From GV Require Import C06.Model.
Import ListNotations.

Lemma restore_backup args cur :
  length cur = length args -> map cval cur = map cval args -> map src cur = map src args ->
  restore cur (backup args) = args.
Proof.
  revert cur. induction args as [|a r IH]; intros cur Hl Hc Hs.
  - destruct cur; [reflexivity|discriminate].
  - destruct cur as [|c cr]; [discriminate|]. cbn [backup map restore] in *.
    injection Hl as Hl. injection Hc as Hc1 Hc2. injection Hs as Hs1 Hs2.
    fold (backup r). rewrite IH by assumption. destruct a, c; cbn in *; subst. reflexivity.
Qed.

Section Theorems.
Variable R : Type.
Variable try_ : nat -> list elem -> list elem * option R.

(* frame condition on the matching code (tied to the source by the write inventory): a candidate
   rewrites only the Type and Val of argument elements, never their number, constant or source *)
Definition frame : Prop :=
  forall j a, let a' := fst (try_ j a) in
    length a' = length a /\ map cval a' = map cval a /\ map src a' = map src a.

Hypothesis Hframe : frame.

Lemma loop_first b first n args :
  b = backup args ->
  forall j res a',
    loop R try_ true b first n args = Some (j, res, a') <->
    (first <= j < first + n /\ try_ j args = (a', Some res) /\
     forall i, first <= i < j -> snd (try_ i args) = None).
Proof.
  intros Hb. revert first. induction n as [|n IH]; intros first j res a'.
  - cbn [loop]. split; [discriminate|]. intros [H _]. lia.
  - cbn [loop]. destruct (try_ first args) as [cur' r] eqn:Et. destruct r as [res0|].
    + split.
      * intros H. injection H as <- <- <-. split; [lia|]. split; [exact Et|]. intros i Hi. lia.
      * intros (Hj & Htj & Hprev). destruct (Nat.eq_dec j first) as [->|Hne].
        -- rewrite Et in Htj. injection Htj as <- <-. reflexivity.
        -- specialize (Hprev first ltac:(lia)). rewrite Et in Hprev. discriminate.
    + assert (Hres : restore cur' b = args).
      { subst b. destruct (Hframe first args) as (H1 & H2 & H3). rewrite Et in *. cbn [fst] in *.
        now apply restore_backup. }
      rewrite Hres, IH. split.
      * intros (Hj & Htj & Hprev). split; [lia|]. split; [exact Htj|].
        intros i Hi. destruct (Nat.eq_dec i first) as [->|]; [now rewrite Et|apply Hprev; lia].
      * intros (Hj & Htj & Hprev). assert (j <> first).
        { intros ->. rewrite Et in Htj. discriminate. }
        split; [lia|]. split; [exact Htj|]. intros i Hi. apply Hprev. lia.
Qed.

(* 1. the call resolves to the LOWEST-indexed candidate that accepts the original arguments, with
      that candidate's result, and the argument elements are exactly what that candidate alone
      leaves behind when run on the original arguments (no residue of the rejected ones) *)
Theorem resolve_first_applicable n args j res a' :
  resolve R try_ true n args = Some (j, res, a') <->
  (j < n /\ try_ j args = (a', Some res) /\ forall i, i < j -> snd (try_ i args) = None).
Proof.
  unfold resolve. rewrite (loop_first (backup args) 0 n args eq_refl). split.
  - intros (H1 & H2 & H3). split; [lia|]. split; [exact H2|]. intros i Hi. apply H3. lia.
  - intros (H1 & H2 & H3). split; [lia|]. split; [exact H2|]. intros i Hi. apply H3. lia.
Qed.

(* 2. rejected iff no candidate accepts the original arguments *)
Theorem resolve_none n args :
  resolve R try_ true n args = None <-> forall i, i < n -> snd (try_ i args) = None.
Proof.
  split.
  - intros H i Hi. destruct (snd (try_ i args)) as [r|] eqn:E; [|reflexivity]. exfalso.
    (* take the least accepting index *)
    assert (Hex : exists j, j < n /\ snd (try_ j args) <> None /\ forall k, k < j -> snd (try_ k args) = None).
    { clear H. revert E. revert r. induction i as [i IHi] using lt_wf_ind. intros r E.
      destruct (existsb (fun k => match snd (try_ k args) with Some _ => true | None => false end) (seq 0 i)) eqn:Ex.
      - apply existsb_exists in Ex as (k & Hk & Hs). apply in_seq in Hk.
        destruct (snd (try_ k args)) as [rk|] eqn:Ek; [|discriminate].
        apply (IHi k ltac:(lia) ltac:(lia) rk Ek).
      - exists i. split; [exact Hi|]. split; [rewrite E; discriminate|]. intros k Hk.
        destruct (snd (try_ k args)) eqn:Ek; [|reflexivity].
        assert (Hin : In k (seq 0 i)) by (apply in_seq; lia).
        assert (Ht : existsb (fun k => match snd (try_ k args) with Some _ => true | None => false end) (seq 0 i) = true).
        { apply existsb_exists. exists k. split; [exact Hin|]. now rewrite Ek. }
        rewrite Ht in Ex. discriminate. }
    destruct Hex as (j & Hj & Hne & Hprev).
    destruct (try_ j args) as [aj rj] eqn:Ej. cbn [snd] in Hne. destruct rj as [rj|]; [|contradiction].
    assert (resolve R try_ true n args = Some (j, rj, aj)).
    { apply resolve_first_applicable. split; [exact Hj|]. split; [exact Ej|exact Hprev]. }
    rewrite H in H0. discriminate.
  - intros H. destruct (resolve R try_ true n args) as [[[j res] a']|] eqn:E; [|reflexivity].
    apply resolve_first_applicable in E as (Hj & Ht & _). specialize (H j Hj). rewrite Ht in H. discriminate.
Qed.

End Theorems.

(* 3. "as if only the chosen candidate existed": the family call equals the call through a family
      containing that candidate alone *)
Theorem resolve_as_singleton R (try_ : nat -> list elem -> list elem * option R) :
  frame R try_ ->
  forall n args j res a',
    resolve R try_ true n args = Some (j, res, a') ->
    resolve R (fun _ => try_ j) true 1 args = Some (0, res, a').
Proof.
  intros Hf n args j res a' H. apply (resolve_first_applicable R try_ Hf) in H as (_ & Ht & _).
  unfold resolve. cbn [loop]. rewrite Ht. reflexivity.
Qed.

(* 4. restoring is necessary: a first candidate that rewrites argument 0 and then rejects argument 1
      leaves a trace in what the second candidate sees *)
Definition ex_try (j : nat) (a : list elem) : list elem * option nat :=
  match j, a with
  | 0, x :: y :: nil => ([mkElem 7 7 (cval x) (src x); y], None)            (* retypes arg 0, then fails *)
  | 1, x :: y :: nil => (a, if N.eqb (ty x) 1 then Some 1 else None)        (* accepts only the original type *)
  | _, _ => (a, None)
  end.
Lemma without_restore_refuted :
  let args := [mkElem 1 10 0 0; mkElem 2 20 0 0] in
  resolve nat ex_try true 2 args = Some (1, 1, args) /\
  resolve nat ex_try false 2 args = None.
Proof. cbn. split; reflexivity. Qed.

Lemma ex_frame : frame nat ex_try.
Proof.
  intros j a. destruct j as [|[|j]]; cbn; try (repeat split; reflexivity);
  destruct a as [|x [|y [|z r]]]; cbn; repeat split; reflexivity.
Qed.
