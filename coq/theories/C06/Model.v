(* C06 — the candidate loop of matchFuncCall for overloaded functions / methods (ast.go): arguments
   are mutable elements; before the loop their (Type, Val) are backed up; each candidate is tried on
   the current elements, may rewrite them in place while matching, and on failure the elements are
   restored from the backup.  The first candidate that accepts is the result. *)
From Coq Require Import List NArith Bool Lia.
Import ListNotations.

Record elem := mkElem { ty : N; val : N; cval : N; src : N }.

(* backupArgs / restoreArgs: only Type and Val are saved and written back *)
Definition backup (args : list elem) : list (N * N) := map (fun a => (ty a, val a)) args.
Fixpoint restore (cur : list elem) (b : list (N * N)) : list elem :=
  match cur, b with
  | c :: cr, (t, v) :: br => mkElem t v (cval c) (src c) :: restore cr br
  | _, _ => cur
  end.

Section Loop.
(* one candidate applied to the current argument elements: the elements as it leaves them, and
   whether it accepted (with the result descriptor: which concrete function, result type) *)
Variable R : Type.
Variable try_ : nat -> list elem -> list elem * option R.

(* candidates are tried in index order first..first+n-1 *)
Fixpoint loop (use_restore : bool) (b : list (N * N)) (first n : nat) (cur : list elem)
  : option (nat * R * list elem) :=
  match n with
  | O => None
  | S n' =>
      let '(cur', r) := try_ first cur in
      match r with
      | Some res => Some (first, res, cur')
      | None => loop use_restore b (S first) n' (if use_restore then restore cur' b else cur')
      end
  end.

Definition resolve (use_restore : bool) (n : nat) (args : list elem) :=
  loop use_restore (backup args) 0 n args.

End Loop.
