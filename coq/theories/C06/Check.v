(* C06 — correspondence: the candidate-loop model, with each candidate's behaviour on the original
   arguments taken from the real builder (the family of one), must predict the real family call. *)
From Coq Require Import List NArith Bool.
From GV Require Import C06.Model.
Import ListNotations.
Local Open Scope N_scope.

(* (callee id, result type id, argument elements) *)
Definition outcome := option (N * N * list elem).
Definition c06case := (list outcome * outcome)%type.

Definition elem_eqb (a b : elem) : bool :=
  (ty a =? ty b) && (val a =? val b) && (cval a =? cval b) && (src a =? src b).
Fixpoint elems_eqb (a b : list elem) : bool :=
  match a, b with
  | [], [] => true
  | x :: r, y :: r' => elem_eqb x y && elems_eqb r r'
  | _, _ => false
  end.

Definition try_tbl (tbl : list outcome) (j : nat) (cur : list elem) : list elem * option (N * N) :=
  match nth j tbl None with
  | Some (c, r, a) => (a, Some (c, r))
  | None => (cur, None)
  end.

Definition predict (tbl : list outcome) : outcome :=
  match resolve (N * N) (try_tbl tbl) true (length tbl) [] with
  | Some (_, (c, r), a) => Some (c, r, a)
  | None => None
  end.

Definition outcome_eqb (a b : outcome) : bool :=
  match a, b with
  | None, None => true
  | Some (c, r, x), Some (c', r', x') => (c =? c') && (r =? r') && elems_eqb x x'
  | _, _ => false
  end.

Definition indexed {A} (l : list A) : list (N * A) :=
  (fix go (i : N) (l : list A) := match l with [] => [] | x :: r => (i, x) :: go (i + 1) r end) 0 l.

Definition k1_bad (cases : list c06case) : list (N * N) :=
  flat_map (fun ic => if outcome_eqb (predict (fst (snd ic))) (snd (snd ic)) then [] else [(fst ic, 0)])
           (indexed cases).
