(* C06 — classification of every assignment to a field of an operand element (GVGen.Tables.elem_writes,
   regenerated from the source on every run).  The frame hypothesis of the candidate-loop theorems
   (a rejected candidate leaves only Type / Val of the argument elements changed) rests on it:
   a new write, or one to another field of an argument element, is not in this table.
   EArgTV: an argument element of the call being matched: only its Type or Val is written (the two fields backupArgs saves and restoreArgs writes back).
   EFresh: an element allocated in the same function (a local copy or a new &internal.Elem{}), never an argument of the caller.
   ECallee: the callee element of the call (fn), not an argument.
   EResult: the result element being constructed.
   EOutside: not reachable from the candidate loop (operand construction, indexing, builtin-type methods, explicit instantiation).
*)
From Coq Require Import List NArith Bool.
From GV Require Import Lib.Bytes.
From GVGen Require Import Tables.
Import ListNotations.

Inductive eclass := EArgTV | EFresh | ECallee | EResult | EOutside.

Definition known_writes : list (str * str * eclass) :=
  [ ([114; 101; 115; 116; 111; 114; 101; 65; 114; 103; 115]%N, [97; 114; 103; 46; 84; 121; 112; 101]%N, EArgTV) (* restoreArgs | arg.Type *);
    ([114; 101; 115; 116; 111; 114; 101; 65; 114; 103; 115]%N, [97; 114; 103; 46; 86; 97; 108]%N, EArgTV) (* restoreArgs | arg.Val *);
    ([109; 97; 116; 99; 104; 70; 117; 110; 99; 84; 121; 112; 101]%N, [97; 114; 103; 115; 91; 48; 93; 46; 84; 121; 112; 101]%N, EArgTV) (* matchFuncType | args[0].Type *);
    ([109; 97; 116; 99; 104; 65; 114; 103; 84; 121; 112; 101]%N, [97; 114; 103; 46; 86; 97; 108]%N, EArgTV) (* matchArgType | arg.Val *);
    ([109; 97; 116; 99; 104; 65; 114; 103; 84; 121; 112; 101]%N, [97; 114; 103; 46; 84; 121; 112; 101]%N, EArgTV) (* matchArgType | arg.Type *);
    ([109; 97; 116; 99; 104; 84; 121; 112; 101]%N, [97; 114; 103; 46; 84; 121; 112; 101]%N, EArgTV) (* matchType | arg.Type *);
    ([109; 97; 116; 99; 104; 84; 121; 112; 101]%N, [97; 114; 103; 46; 86; 97; 108]%N, EArgTV) (* matchType | arg.Val *);
    ([68; 101; 102; 97; 117; 108; 116; 67; 111; 110; 118]%N, [112; 118; 46; 86; 97; 108]%N, EArgTV) (* DefaultConv | pv.Val *);
    ([65; 115; 115; 105; 103; 110; 97; 98; 108; 101; 67; 111; 110; 118]%N, [112; 118; 46; 86; 97; 108]%N, EArgTV) (* AssignableConv | pv.Val *);
    ([65; 115; 115; 105; 103; 110; 97; 98; 108; 101; 67; 111; 110; 118]%N, [112; 118; 46; 84; 121; 112; 101]%N, EArgTV) (* AssignableConv | pv.Type *);
    ([97; 115; 115; 105; 103; 110; 97; 98; 108; 101]%N, [112; 118; 46; 84; 121; 112; 101]%N, EArgTV) (* assignable | pv.Type *);
    ([97; 115; 115; 105; 103; 110; 97; 98; 108; 101]%N, [112; 118; 46; 86; 97; 108]%N, EArgTV) (* assignable | pv.Val *);
    ([84; 101; 109; 112; 108; 97; 116; 101; 83; 105; 103; 110; 97; 116; 117; 114; 101; 46; 105; 110; 115; 116; 97; 110; 116; 105; 97; 116; 101]%N, [110; 97; 114; 103; 115; 91; 105; 93; 46; 84; 121; 112; 101]%N, EArgTV) (* TemplateSignature.instantiate | nargs[i].Type *);
    ([105; 110; 115; 116; 97; 110; 99; 101; 73; 110; 102; 101; 114; 70; 117; 110; 99]%N, [97; 114; 103; 46; 84; 121; 112; 101]%N, EArgTV) (* instanceInferFunc | arg.Type *);
    ([105; 110; 115; 116; 97; 110; 99; 101; 73; 110; 102; 101; 114; 70; 117; 110; 99]%N, [97; 114; 103; 46; 86; 97; 108]%N, EArgTV) (* instanceInferFunc | arg.Val *);
    ([105; 110; 115; 116; 97; 110; 99; 101; 70; 117; 110; 99]%N, [97; 114; 103; 46; 84; 121; 112; 101]%N, EArgTV) (* instanceFunc | arg.Type *);
    ([105; 110; 115; 116; 97; 110; 99; 101; 70; 117; 110; 99]%N, [97; 114; 103; 46; 86; 97; 108]%N, EArgTV) (* instanceFunc | arg.Val *);
    ([97; 115; 115; 105; 103; 110; 97; 98; 108; 101]%N, [97; 114; 103; 46; 86; 97; 108]%N, EFresh) (* assignable | arg.Val *);
    ([97; 115; 115; 105; 103; 110; 97; 98; 108; 101]%N, [97; 114; 103; 46; 67; 86; 97; 108]%N, EFresh) (* assignable | arg.CVal *);
    ([97; 115; 115; 105; 103; 110; 97; 98; 108; 101]%N, [97; 114; 103; 46; 83; 114; 99]%N, EFresh) (* assignable | arg.Src *);
    ([109; 97; 116; 99; 104; 70; 117; 110; 99; 67; 97; 108; 108]%N, [116; 97; 114; 103; 48; 46; 86; 97; 108]%N, EFresh) (* matchFuncCall | targ0.Val *);
    ([109; 97; 116; 99; 104; 70; 117; 110; 99; 67; 97; 108; 108]%N, [116; 97; 114; 103; 48; 46; 84; 121; 112; 101]%N, EFresh) (* matchFuncCall | targ0.Type *);
    ([109; 97; 116; 99; 104; 70; 117; 110; 99; 67; 97; 108; 108]%N, [109; 102; 110; 46; 84; 121; 112; 101]%N, EFresh) (* matchFuncCall | mfn.Type *);
    ([109; 97; 116; 99; 104; 70; 117; 110; 99; 67; 97; 108; 108]%N, [102; 110; 46; 86; 97; 108]%N, ECallee) (* matchFuncCall | fn.Val *);
    ([109; 97; 116; 99; 104; 70; 117; 110; 99; 67; 97; 108; 108]%N, [102; 110; 46; 84; 121; 112; 101]%N, ECallee) (* matchFuncCall | fn.Type *);
    ([109; 101; 116; 104; 111; 100; 84; 111; 70; 117; 110; 99; 83; 105; 103]%N, [102; 110; 46; 86; 97; 108]%N, ECallee) (* methodToFuncSig | fn.Val *);
    ([67; 111; 100; 101; 66; 117; 105; 108; 100; 101; 114; 46; 67; 97; 108; 108; 87; 105; 116; 104; 69; 120]%N, [102; 110; 46; 84; 121; 112; 101]%N, ECallee) (* CodeBuilder.CallWithEx | fn.Type *);
    ([67; 111; 100; 101; 66; 117; 105; 108; 100; 101; 114; 46; 67; 97; 108; 108; 87; 105; 116; 104; 69; 120]%N, [102; 110; 46; 83; 114; 99]%N, ECallee) (* CodeBuilder.CallWithEx | fn.Src *);
    ([109; 97; 116; 99; 104; 70; 117; 110; 99; 67; 97; 108; 108]%N, [114; 101; 116; 46; 67; 86; 97; 108]%N, EResult) (* matchFuncCall | ret.CVal *);
    ([109; 97; 116; 99; 104; 84; 121; 112; 101; 67; 97; 115; 116]%N, [114; 101; 116; 46; 67; 86; 97; 108]%N, EResult) (* matchTypeCast | ret.CVal *);
    ([67; 111; 100; 101; 66; 117; 105; 108; 100; 101; 114; 46; 67; 97; 108; 108; 87; 105; 116; 104; 69; 120]%N, [114; 101; 116; 46; 83; 114; 99]%N, EResult) (* CodeBuilder.CallWithEx | ret.Src *);
    ([67; 111; 100; 101; 66; 117; 105; 108; 100; 101; 114; 46; 85; 110; 116; 121; 112; 101; 100; 66; 105; 103; 73; 110; 116]%N, [114; 101; 116; 46; 84; 121; 112; 101]%N, EResult) (* CodeBuilder.UntypedBigInt | ret.Type *);
    ([67; 111; 100; 101; 66; 117; 105; 108; 100; 101; 114; 46; 85; 110; 116; 121; 112; 101; 100; 66; 105; 103; 73; 110; 116]%N, [114; 101; 116; 46; 67; 86; 97; 108]%N, EResult) (* CodeBuilder.UntypedBigInt | ret.CVal *);
    ([67; 111; 100; 101; 66; 117; 105; 108; 100; 101; 114; 46; 85; 110; 116; 121; 112; 101; 100; 66; 105; 103; 73; 110; 116]%N, [114; 101; 116; 46; 83; 114; 99]%N, EResult) (* CodeBuilder.UntypedBigInt | ret.Src *);
    ([67; 111; 100; 101; 66; 117; 105; 108; 100; 101; 114; 46; 85; 110; 116; 121; 112; 101; 100; 66; 105; 103; 82; 97; 116]%N, [114; 101; 116; 46; 84; 121; 112; 101]%N, EResult) (* CodeBuilder.UntypedBigRat | ret.Type *);
    ([67; 111; 100; 101; 66; 117; 105; 108; 100; 101; 114; 46; 85; 110; 116; 121; 112; 101; 100; 66; 105; 103; 82; 97; 116]%N, [114; 101; 116; 46; 67; 86; 97; 108]%N, EResult) (* CodeBuilder.UntypedBigRat | ret.CVal *);
    ([67; 111; 100; 101; 66; 117; 105; 108; 100; 101; 114; 46; 85; 110; 116; 121; 112; 101; 100; 66; 105; 103; 82; 97; 116]%N, [114; 101; 116; 46; 83; 114; 99]%N, EResult) (* CodeBuilder.UntypedBigRat | ret.Src *);
    ([67; 111; 100; 101; 66; 117; 105; 108; 100; 101; 114; 46; 109; 101; 116; 104; 111; 100]%N, [114; 101; 116; 46; 84; 121; 112; 101]%N, EResult) (* CodeBuilder.method | ret.Type *);
    ([67; 111; 100; 101; 66; 117; 105; 108; 100; 101; 114; 46; 102; 117; 110; 99; 69; 120; 83; 105; 103; 79; 102]%N, [114; 101; 116; 46; 86; 97; 108]%N, EResult) (* CodeBuilder.funcExSigOf | ret.Val *);
    ([67; 111; 100; 101; 66; 117; 105; 108; 100; 101; 114; 46; 102; 117; 110; 99; 69; 120; 83; 105; 103; 79; 102]%N, [114; 101; 116; 46; 84; 121; 112; 101]%N, EResult) (* CodeBuilder.funcExSigOf | ret.Type *);
    ([67; 111; 100; 101; 66; 117; 105; 108; 100; 101; 114; 46; 85; 110; 97; 114; 121; 79; 112; 69; 120]%N, [114; 101; 116; 46; 83; 114; 99]%N, EResult) (* CodeBuilder.UnaryOpEx | ret.Src *);
    ([67; 111; 100; 101; 66; 117; 105; 108; 100; 101; 114; 46; 66; 105; 110; 97; 114; 121; 79; 112]%N, [114; 101; 116; 46; 83; 114; 99]%N, EResult) (* CodeBuilder.BinaryOp | ret.Src *);
    ([67; 111; 100; 101; 66; 117; 105; 108; 100; 101; 114; 46; 83; 116; 97; 114]%N, [114; 101; 116; 46; 84; 121; 112; 101]%N, EResult) (* CodeBuilder.Star | ret.Type *);
    ([67; 111; 100; 101; 66; 117; 105; 108; 100; 101; 114; 46; 86; 97; 108; 87; 105; 116; 104; 85; 110; 105; 116]%N, [101; 46; 67; 86; 97; 108]%N, EOutside) (* CodeBuilder.ValWithUnit | e.CVal *);
    ([67; 111; 100; 101; 66; 117; 105; 108; 100; 101; 114; 46; 86; 97; 108; 87; 105; 116; 104; 85; 110; 105; 116]%N, [101; 46; 86; 97; 108]%N, EOutside) (* CodeBuilder.ValWithUnit | e.Val *);
    ([67; 111; 100; 101; 66; 117; 105; 108; 100; 101; 114; 46; 86; 97; 108; 87; 105; 116; 104; 85; 110; 105; 116]%N, [101; 46; 84; 121; 112; 101]%N, EOutside) (* CodeBuilder.ValWithUnit | e.Type *);
    ([67; 111; 100; 101; 66; 117; 105; 108; 100; 101; 114; 46; 73; 110; 100; 101; 120; 82; 101; 102]%N, [101; 108; 101; 109; 82; 101; 102; 46; 84; 121; 112; 101]%N, EOutside) (* CodeBuilder.IndexRef | elemRef.Type *);
    ([67; 111; 100; 101; 66; 117; 105; 108; 100; 101; 114; 46; 98; 116; 105; 77; 101; 116; 104; 111; 100]%N, [116; 104; 105; 115; 46; 86; 97; 108]%N, EOutside) (* CodeBuilder.btiMethod | this.Val *);
    ([67; 111; 100; 101; 66; 117; 105; 108; 100; 101; 114; 46; 98; 116; 105; 77; 101; 116; 104; 111; 100]%N, [116; 104; 105; 115; 46; 84; 121; 112; 101]%N, EOutside) (* CodeBuilder.btiMethod | this.Type *);
    ([67; 111; 100; 101; 66; 117; 105; 108; 100; 101; 114; 46; 105; 110; 115; 116; 97; 110; 116; 105; 97; 116; 101]%N, [101; 108; 101; 109; 46; 86; 97; 108]%N, EOutside) (* CodeBuilder.instantiate | elem.Val *) ].

Definition classify (s : str * str) : option eclass :=
  match find (fun k => str_eqb (fst (fst k)) (fst s) && str_eqb (snd (fst k)) (snd s)) known_writes with
  | Some k => Some (snd k)
  | None => None
  end.
Definition classified (s : str * str) : bool := match classify s with Some _ => true | None => false end.

Lemma Writes_classified : forallb classified elem_writes = true.
Proof. vm_compute. reflexivity. Qed.

(* the field written: the text after the last dot *)
Fixpoint after_last_dot (s acc : str) : str :=
  match s with
  | [] => acc
  | c :: r => if N.eqb c 46 then after_last_dot r r else after_last_dot r acc
  end.
Definition field_of (s : str) : str := after_last_dot s s.
Definition s_Type : str := [84; 121; 112; 101]%N.
Definition s_Val : str := [86; 97; 108]%N.

(* every write to an ARGUMENT element targets Type or Val *)
Lemma Arg_writes_are_Type_or_Val :
  forallb (fun s => match classify s with
                    | Some EArgTV => str_eqb (field_of (snd s)) s_Type || str_eqb (field_of (snd s)) s_Val
                    | _ => true
                    end) elem_writes = true.
Proof. vm_compute. reflexivity. Qed.
