(* C14 — correspondence checker. *)
From Coq Require Import List NArith Bool.
From GV Require Import Go.Kinds C14.Model.
Import ListNotations.

(* observed: emitted expression (literal type already decoded by go/types), reported-type-is-requested,
   constant; reference: accepted in `var _ T = e`, type of `x := e` (None = rejected) *)
Record c14case := mkCase {
  c_T : zty; c_obs_e : zexpr; c_obs_same_type : bool; c_obs_c : zconst;
  c_ref_typed : bool; c_ref_inferred : option zty
}.

Fixpoint zty_beq (a b : zty) : bool :=        (* syntactic equality of encodings *)
  match a, b with
  | ZBasic k, ZBasic k' => N.eqb k k'
  | ZNilable, ZNilable => true
  | ZComposite i, ZComposite j => N.eqb i j
  | ZNamed i u, ZNamed j v => N.eqb i j && zty_beq u v
  | ZAlias i u, ZAlias j v => N.eqb i j && zty_beq u v
  | _, _ => false
  end.
Definition zexpr_beq (a b : zexpr) : bool :=
  match a, b with
  | EZero, EZero | EFalse, EFalse | EEmptyString, EEmptyString | ENil, ENil => true
  | ELit t, ELit u => zty_eqb t u
  | _, _ => false
  end.
Definition zconst_beq (a b : zconst) : bool :=
  match a, b with ZCInt0, ZCInt0 | ZCFalse, ZCFalse | ZCEmptyStr, ZCEmptyStr | ZCNone, ZCNone => true | _, _ => false end.

Definition k1_ok (c : c14case) : bool :=
  let '(e, t, k) := zero (c_T c) in
  zexpr_beq e (c_obs_e c) && c_obs_same_type c && zconst_beq k (c_obs_c c).
Definition k2_ok (c : c14case) : bool :=
  Bool.eqb (typed_ok (c_obs_e c) (c_T c)) (c_ref_typed c) &&
  match inferred (c_obs_e c), c_ref_inferred c with
  | Some t, Some u => zty_eqb t u
  | None, None => true
  | _, _ => false
  end.
(* deviation: the emitted zero expression is rejected by Go where a T is expected *)
Definition dev_of (c : c14case) : option N := if c_ref_typed c then None else Some 1%N.

Fixpoint bad_from (f : c14case -> bool) (i : nat) (cs : list c14case) : list (nat * nat) :=
  match cs with [] => [] | c :: r => (if f c then [] else [(i, 0)]) ++ bad_from f (S i) r end.
Definition k1_bad := bad_from k1_ok 0.
Definition k2_bad := bad_from k2_ok 0.
Fixpoint dev_from (i : nat) (cs : list c14case) : list (nat * N) :=
  match cs with [] => [] | c :: r => match dev_of c with Some k => [(i, k)] | None => [] end ++ dev_from (S i) r end.
Definition dev_list := dev_from 0.
