From Coq Require Import List NArith Bool Lia.
From GV Require Import Go.Kinds C14.Model.
Import ListNotations.

Lemma unalias_not_alias t : match unalias t with ZAlias _ _ => False | _ => True end.
Proof. induction t; cbn [unalias]; auto. Qed.

Lemma zty_eqb_refl t : zty_eqb t t = true.
Proof.
  unfold zty_eqb. pose proof (unalias_not_alias t) as H.
  destruct (unalias t); rewrite ?N.eqb_refl; try reflexivity. destruct H.
Qed.

Lemma basic_typed_numeric k :
  (1 <=? k)%N && (k <=? 18)%N = true -> N.eqb k KBool = false -> N.eqb k KString = false ->
  N.eqb k KUnsafePointer = false -> is_numeric_kind k = true.
Proof.
  intros H Hb Hs Hu. apply andb_prop in H as [H1 H2]. apply N.leb_le in H1, H2.
  apply N.eqb_neq in Hb, Hs, Hu. unfold KBool, KString, KUnsafePointer in *.
  assert (k = 2 \/ k = 3 \/ k = 4 \/ k = 5 \/ k = 6 \/ k = 7 \/ k = 8 \/ k = 9 \/ k = 10 \/ k = 11 \/ k = 12 \/
          k = 13 \/ k = 14 \/ k = 15 \/ k = 16)%N as Hc by lia.
  repeat (destruct Hc as [->|Hc]; [reflexivity|]). subst; reflexivity.
Qed.

(* the expression only depends on the structure below; the literal type is the requested one *)
Lemma zero_of_typed orig t :
  wf t = true ->
  match fst (zero_of orig t) with
  | ELit o => o = orig /\ exists i, underlying t = ZComposite i
  | e => typed_ok e t = true
  end.
Proof.
  induction t as [k| |i|i u IH|i u IH]; cbn [wf zero_of]; intros W.
  - destruct (N.eqb k KBool) eqn:Eb; [cbn [fst]; unfold typed_ok; cbn [underlying]; exact Eb|].
    destruct (N.eqb k KString) eqn:Es; [cbn [fst]; unfold typed_ok; cbn [underlying]; exact Es|].
    destruct (N.eqb k KUnsafePointer) eqn:Eu; [cbn [fst]; unfold typed_ok; cbn [underlying]; exact Eu|].
    cbn [fst]. unfold typed_ok. cbn [underlying]. now apply basic_typed_numeric.
  - reflexivity.
  - cbn [fst underlying]. split; eauto.
  - specialize (IH W). destruct (fst (zero_of orig u)); unfold typed_ok in *; cbn [underlying] in *; auto.
  - specialize (IH W). destruct (fst (zero_of orig u)); unfold typed_ok in *; cbn [underlying] in *; auto.
Qed.

Theorem zero_typed_ok T : wf T = true -> typed_ok (fst (fst (zero T))) T = true.
Proof.
  intros W. unfold zero. pose proof (zero_of_typed T T W) as H.
  destruct (zero_of T T) as [e c]. cbn [fst] in *.
  destruct e; auto. destruct H as [-> (i & Hu)]. unfold typed_ok. rewrite Hu. apply zty_eqb_refl.
Qed.

Theorem zero_reported_type T : snd (fst (zero T)) = T.
Proof. unfold zero. destruct (zero_of T T). reflexivity. Qed.

(* the constant attached to the element is the value of the emitted literal *)
Lemma zero_of_const orig t :
  match zero_of orig t with
  | (EZero, ZCInt0) | (EFalse, ZCFalse) | (EEmptyString, ZCEmptyStr) | (ENil, ZCNone) | (ELit _, ZCNone) => True
  | _ => False
  end.
Proof.
  induction t as [k| |i|i u IH|i u IH]; cbn [zero_of]; auto.
  destruct (N.eqb k KBool); [exact I|]. destruct (N.eqb k KString); [exact I|].
  destruct (N.eqb k KUnsafePointer); exact I.
Qed.

(* the constant attached to the element is the value of the emitted literal *)
Theorem zero_const_matches T :
  match fst (fst (zero T)), snd (zero T) with
  | EZero, ZCInt0 | EFalse, ZCFalse | EEmptyString, ZCEmptyStr | ENil, ZCNone | ELit _, ZCNone => True
  | _, _ => False
  end.
Proof.
  unfold zero. pose proof (zero_of_const T T) as H. destruct (zero_of T T) as [e c]. exact H.
Qed.
