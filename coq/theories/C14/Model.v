(* C14 — Package.Zero (codebuild.go) and zeroCompositeLit (util_gengo.go): the
   zero-value expression for a type, its reported type and constant, and Go's
   typing of that expression in a typed context (var _ T = e) and in an
   inferred context (x := e). *)
From Coq Require Import List NArith Bool.
From GV Require Import Go.Kinds.
Import ListNotations.

(* how a type looks to Zero: the structure it unwraps *)
Inductive zty :=
| ZBasic (k : kind)
| ZNilable                    (* interface, map, slice, pointer, signature, chan *)
| ZComposite (id : N)         (* unnamed struct / array type number id *)
| ZNamed (id : N) (under : zty)
| ZAlias (id : N) (t : zty).

(* the emitted expression *)
Inductive zexpr :=
| EZero                       (* 0 *)
| EFalse | EEmptyString | ENil
| ELit (t : zty).             (* composite literal T{} with T printed from t *)

Inductive zconst := ZCInt0 | ZCFalse | ZCEmptyStr | ZCNone.

Fixpoint zero_of (orig : zty) (t : zty) : zexpr * zconst :=
  match t with
  | ZBasic k =>
      if N.eqb k KBool then (EFalse, ZCFalse)
      else if N.eqb k KString then (EEmptyString, ZCEmptyStr)
      else if N.eqb k KUnsafePointer then (ENil, ZCNone)
      else (EZero, ZCInt0)
  | ZNilable => (ENil, ZCNone)
  | ZNamed _ u => zero_of orig u
  | ZAlias _ u => zero_of orig u
  | ZComposite _ => (ELit orig, ZCNone)      (* zeroCompositeLit(p, typ, &typ0): the requested type *)
  end.

(* Package.Zero: expression, reported type (always the requested type), constant *)
Definition zero (t : zty) : zexpr * zty * zconst :=
  let '(e, c) := zero_of t t in (e, t, c).

(* ---------- Go's view ---------- *)
Fixpoint underlying (t : zty) : zty :=
  match t with ZNamed _ u => underlying u | ZAlias _ u => underlying u | _ => t end.
Fixpoint unalias (t : zty) : zty := match t with ZAlias _ u => unalias u | _ => t end.

(* type identity: aliases are transparent, named types identical iff same declaration *)
Definition zty_eqb (a b : zty) : bool :=
  match unalias a, unalias b with
  | ZBasic k, ZBasic k' => N.eqb k k'
  | ZNilable, ZNilable => true
  | ZComposite i, ZComposite j => N.eqb i j
  | ZNamed i _, ZNamed j _ => N.eqb i j
  | _, _ => false
  end.

(* var _ T = e : is e assignable to T ? *)
Definition typed_ok (e : zexpr) (T : zty) : bool :=
  match e, underlying T with
  | EZero, ZBasic k => is_numeric_kind k
  | EFalse, ZBasic k => N.eqb k KBool
  | EEmptyString, ZBasic k => N.eqb k KString
  | ENil, ZNilable => true
  | ENil, ZBasic k => N.eqb k KUnsafePointer
  | ELit t, ZComposite _ => zty_eqb t T       (* T{} is a T *)
  | _, _ => false
  end.

(* x := e : the type Go infers for x (None = not a valid short declaration) *)
Definition inferred (e : zexpr) : option zty :=
  match e with
  | EZero => Some (ZBasic KInt)
  | EFalse => Some (ZBasic KBool)
  | EEmptyString => Some (ZBasic KString)
  | ENil => None
  | ELit t => Some t
  end.

Definition self_typed (T : zty) : bool :=
  match inferred (fst (fst (zero T))) with Some t => zty_eqb t T | None => false end.

(* well-formed: a named or alias type has a proper structure below it; typed basic kinds only *)
Fixpoint wf (t : zty) : bool :=
  match t with
  | ZBasic k => (N.leb 1 k && N.leb k 18)%bool
  | ZNilable | ZComposite _ => true
  | ZNamed _ u | ZAlias _ u => wf u
  end.
