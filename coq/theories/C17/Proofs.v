From Coq Require Import ZArith Bool Lia.
From GV Require Import C17.Model.
From GVGen Require Import Tables.

(* obligations on the regenerated guard *)
Lemma guard_nonneg s : shift_guard s = true -> (0 <= s)%Z.
Proof. unfold shift_guard. intros H. lia. Qed.

Lemma guard_bounded s : shift_guard s = true -> (s <= 1074)%Z.
Proof. unfold shift_guard. intros H. lia. Qed.

(* whenever the shift is carried out, the allocation is bounded by the size of the operand plus a
   constant: independent of the value written as the count *)
Theorem shl_cost_bounded a s r : fold_shl a s = Some r -> (shl_cost a s <= bits a + 1074)%Z.
Proof.
  unfold fold_shl, shl_cost. destruct (shift_guard s) eqn:E; [|discriminate].
  intros _. pose proof (guard_bounded s E). lia.
Qed.

(* the count handed to constant.Shift is the written one: the conversion to uint cannot wrap *)
Theorem shl_count_not_wrapped a s r : fold_shl a s = Some r -> (s mod 2 ^ 64 = s)%Z.
Proof.
  unfold fold_shl. destruct (shift_guard s) eqn:E; [|discriminate]. intros _.
  pose proof (guard_nonneg s E). pose proof (guard_bounded s E). apply Z.mod_small. lia.
Qed.

(* and the result has exactly the expected size when the operand is not zero *)
Theorem shl_result_size a s r : a <> 0%Z -> fold_shl a s = Some r -> bits r = (bits a + s)%Z.
Proof.
  unfold fold_shl. destruct (shift_guard s) eqn:E; [|discriminate]. intros Ha H; inversion H; subst.
  pose proof (guard_nonneg s E) as Hs. unfold bits.
  rewrite Z.shiftl_mul_pow2 by exact Hs. rewrite Z.abs_mul, (Z.abs_eq (2 ^ s)) by (apply Z.pow_nonneg; lia).
  rewrite Z.log2_mul_pow2 by lia. lia.
Qed.
