(* C17 — cost model of constant shifts (ast.go doBinaryOp): constant.Shift(a, <<, s) builds a number of
   bits(a) + s bits, so its cost is linear in the VALUE of the count unless the count is bounded before
   the call.  The guard is regenerated from the source (GVGen.Tables.shift_guard). *)
From Coq Require Import ZArith Bool Lia.
From GVGen Require Import Tables.

Definition bits (a : Z) : Z := Z.log2 (Z.abs a) + 1.

(* the shift is carried out (Some) or reported as an error (None) *)
Definition fold_shl (a s : Z) : option Z := if shift_guard s then Some (Z.shiftl a s) else None.
(* memory the library allocates for the result, in bits *)
Definition shl_cost (a s : Z) : Z := bits a + s.
