(* C17 — cost of selector lookup (findMember / embeddedField, codebuild.go).
   [gg_findc] is C08's transcription [gg_find] with a counter of findMember
   invocations; it is proved to compute exactly [gg_find], and the number of
   invocations of one Member operation is bounded by 1 + the total number of
   fields of the declarations: linear in the size of the input, whatever the
   shape of the embedding graph (diamonds, cycles).  The bound rests on the
   visited set being cumulative: every struct is expanded at most once. *)
From Coq Require Import List NArith Arith Bool Lia.
From GV Require Import C08.Model.
Import ListNotations.

Section Emb.
  Variable rec : nat -> bool -> list nat -> lres * list nat * nat.
  Fixpoint embc (fs : list field) (vis : list nat) : lres * list nat * nat :=
    match fs with
    | [] => (NotFound, vis, 0)
    | f :: r =>
      if f_emb f then
        match f_ty f with
        | FNamed t => let '(res, vis', n) := rec t false vis in
                      match res with
                      | NotFound => let '(res2, v2, m) := embc r vis' in (res2, v2, n + m)
                      | _ => (res, vis', n)
                      end
        | FPtr t => let '(res, vis', n) := rec t true vis in
                    match res with
                    | NotFound => let '(res2, v2, m) := embc r vis' in (res2, v2, n + m)
                    | _ => (res, vis', n)
                    end
        | FBasic _ => embc r vis
        end
      else embc r vis
    end.
End Emb.

Fixpoint gg_findc (fuel : nat) (e : env) (name : N) (id : nat) (is_ptr : bool) (visited : list nat)
  : lres * list nat * nat :=
  match fuel with
  | 0 => (NotFound, visited, 1)
  | S fuel' =>
    let d := getd e id in
    if d_iface d then
      (if is_ptr then (NotFound, visited, 1)
       else match find_method name 0 (d_methods d) with
            | Some _ => (Found false iface_owner (N.to_nat name), visited, 1)
            | None => (NotFound, visited, 1)
            end)
    else
    let meth := match find_method name 0 (d_methods d) with Some i => Some (Found false id i) | None => None end in
    let fld := if d_struct d then
                 match find_field name 0 (d_fields d) with Some i => Some (Found true id i) | None => None end
               else None in
    let first := if is_ptr then (match fld with Some r => Some r | None => meth end)
                 else (match meth with Some r => Some r | None => fld end) in
    match first with
    | Some r => (r, visited, 1)
    | None =>
      if d_struct d then
        if vmem id visited then (NotFound, visited, 1)
        else let '(r, v, n) := embc (gg_findc fuel' e name) (d_fields d) (id :: visited) in (r, v, S n)
      else (NotFound, visited, 1)
    end
  end.

Definition proj (x : lres * list nat * nat) : lres * list nat := (fst (fst x), snd (fst x)).

(* ---- the instrumented function computes gg_find ---- *)
Lemma gg_findc_proj fuel : forall e name id p vis,
  proj (gg_findc fuel e name id p vis) = gg_find fuel e name id p vis.
Proof.
  induction fuel as [|fuel IH]; intros e name id p vis; cbn [gg_findc gg_find]; [reflexivity|].
  set (d := getd e id).
  destruct (d_iface d).
  { destruct p; [reflexivity|]. destruct (find_method name 0 (d_methods d)); reflexivity. }
  destruct (if p then _ else _) as [r|]; [reflexivity|].
  destruct (d_struct d); [|reflexivity].
  destruct (vmem id vis); [reflexivity|].
  generalize (id :: vis) as v0. generalize (d_fields d) as fs.
  induction fs as [|f fs IHf]; intros v0; [reflexivity|].
  cbn [embc]. destruct (f_emb f); [|apply IHf].
  destruct (f_ty f) as [k|t|t]; [apply IHf| |].
  - specialize (IH e name t false v0). destruct (gg_findc fuel e name t false v0) as [[r1 v1] n1].
    unfold proj in IH; cbn [fst snd] in IH. rewrite <- IH.
    destruct r1; try reflexivity.
    specialize (IHf v1). destruct (embc (gg_findc fuel e name) fs v1) as [[r2 v2] n2].
    unfold proj in *; cbn [fst snd] in *. exact IHf.
  - specialize (IH e name t true v0). destruct (gg_findc fuel e name t true v0) as [[r1 v1] n1].
    unfold proj in IH; cbn [fst snd] in IH. rewrite <- IH.
    destruct r1; try reflexivity.
    specialize (IHf v1). destruct (embc (gg_findc fuel e name) fs v1) as [[r2 v2] n2].
    unfold proj in *; cbn [fst snd] in *. exact IHf.
Qed.

(* ---- the bound ---- *)
Definition nf (e : env) (id : nat) : nat := length (d_fields (getd e id)).
Definition sumf (e : env) (l : list nat) : nat := list_sum (map (nf e) l).

(* what one invocation guarantees: the visited set grows by a duplicate-free list of
   struct declarations, and the number of invocations is at most 1 + their fields *)
Definition good (e : env) (vis : list nat) (x : lres * list nat * nat) (k : nat) : Prop :=
  exists ext, snd (fst x) = ext ++ vis /\
              (NoDup vis -> NoDup (ext ++ vis)) /\
              (forall i, In i ext -> d_struct (getd e i) = true) /\
              snd x <= k + sumf e ext.

Lemma sumf_app e a b : sumf e (a ++ b) = sumf e a + sumf e b.
Proof. unfold sumf. now rewrite map_app, list_sum_app. Qed.

Lemma vmem_false_not_in x l : vmem x l = false -> ~ In x l.
Proof.
  unfold vmem. intros H Hin. assert (existsb (Nat.eqb x) l = true).
  { apply existsb_exists. exists x. split; [exact Hin|apply Nat.eqb_refl]. }
  congruence.
Qed.

Lemma embc_good e (rec : nat -> bool -> list nat -> lres * list nat * nat) :
  (forall t p v, good e v (rec t p v) 1) ->
  forall fs vis, good e vis (embc rec fs vis) (length fs).
Proof.
  intros Hrec. induction fs as [|f fs IHf]; intros vis; cbn [embc length].
  - exists []. cbn. repeat split; auto; try lia; try (intros i []; fail).
  - assert (Hskip : good e vis (embc rec fs vis) (S (length fs))).
    { destruct (IHf vis) as (ext & H1 & H2 & H3 & H4). exists ext. repeat split; auto. lia. }
    destruct (f_emb f); [|exact Hskip].
    destruct (f_ty f) as [k|t|t]; [exact Hskip| |].
    + destruct (Hrec t false vis) as (ext1 & H1 & H2 & H3 & H4).
      destruct (rec t false vis) as [[r1 v1] n1]. cbn [fst snd] in *. subst v1.
      destruct r1; try (exists ext1; cbn [fst snd]; repeat split; auto; lia).
      destruct (IHf (ext1 ++ vis)) as (ext2 & G1 & G2 & G3 & G4).
      destruct (embc rec fs (ext1 ++ vis)) as [[r2 v2] n2]. cbn [fst snd] in *. subst v2.
      exists (ext2 ++ ext1). rewrite <- app_assoc. repeat split; auto.
      * intros i Hi. apply in_app_or in Hi as [Hi|Hi]; auto.
      * cbn [snd]. rewrite sumf_app. lia.
    + destruct (Hrec t true vis) as (ext1 & H1 & H2 & H3 & H4).
      destruct (rec t true vis) as [[r1 v1] n1]. cbn [fst snd] in *. subst v1.
      destruct r1; try (exists ext1; cbn [fst snd]; repeat split; auto; lia).
      destruct (IHf (ext1 ++ vis)) as (ext2 & G1 & G2 & G3 & G4).
      destruct (embc rec fs (ext1 ++ vis)) as [[r2 v2] n2]. cbn [fst snd] in *. subst v2.
      exists (ext2 ++ ext1). rewrite <- app_assoc. repeat split; auto.
      * intros i Hi. apply in_app_or in Hi as [Hi|Hi]; auto.
      * cbn [snd]. rewrite sumf_app. lia.
Qed.

Lemma good_nil e vis r n : n <= 1 -> good e vis (r, vis, n) 1.
Proof. intros H. exists []. cbn. repeat split; auto; try lia; try (intros i []; fail). Qed.

Lemma gg_findc_good fuel : forall e name id p vis, good e vis (gg_findc fuel e name id p vis) 1.
Proof.
  induction fuel as [|fuel IH]; intros e name id p vis; cbn [gg_findc]; [now apply good_nil|].
  set (d := getd e id).
  destruct (d_iface d).
  { destruct p; [now apply good_nil|]. destruct (find_method name 0 (d_methods d)); now apply good_nil. }
  destruct (if p then _ else _) as [r|]; [now apply good_nil|].
  destruct (d_struct d) eqn:Es; [|now apply good_nil].
  destruct (vmem id vis) eqn:Ev; [now apply good_nil|].
  destruct (embc_good e (gg_findc fuel e name) (IH e name) (d_fields d) (id :: vis))
    as (ext & H1 & H2 & H3 & H4).
  destruct (embc (gg_findc fuel e name) (d_fields d) (id :: vis)) as [[r v] n].
  cbn [fst snd] in *. subst v.
  exists (ext ++ [id]). rewrite <- app_assoc. cbn [app]. repeat split; auto.
  - intros Hnd. apply H2. constructor; [now apply vmem_false_not_in|exact Hnd].
  - intros i Hi. apply in_app_or in Hi as [Hi|[<-|[]]]; auto.
  - rewrite sumf_app. cbn [snd]. assert (Hid : sumf e [id] = length (d_fields d)) by (unfold sumf, nf; cbn; fold d; lia). lia.
Qed.

(* a duplicate-free list of indices sums to at most the sum over any list containing it *)
Lemma sum_nodup_incl (f : nat -> nat) l : NoDup l -> forall u, incl l u ->
  list_sum (map f l) <= list_sum (map f u).
Proof.
  induction 1 as [|x l Hx Hnd IH]; intros u Hu; [cbn; lia|].
  assert (Hin : In x u) by (apply Hu; now left).
  apply in_split in Hin as (u1 & u2 & ->).
  assert (Hl : incl l (u1 ++ u2)).
  { intros y Hy. assert (Hy' : In y (u1 ++ x :: u2)) by (apply Hu; now right).
    apply in_app_or in Hy' as [Hy'|[Hy'|Hy']]; apply in_or_app; auto. subst. contradiction. }
  specialize (IH _ Hl). rewrite map_app, list_sum_app in *. cbn [map list_sum]. change (fold_right Init.Nat.add 0) with list_sum. cbn [map] in *. unfold list_sum in *. cbn [fold_right]. lia.
Qed.

Definition total_fields (e : env) : nat := sumf e (seq 0 (length e)).

Lemma struct_in_range e i : d_struct (getd e i) = true -> i < length e.
Proof.
  unfold getd. intros H. destruct (Nat.lt_ge_cases i (length e)) as [Hl|Hg]; [exact Hl|].
  rewrite nth_overflow in H by exact Hg. discriminate.
Qed.

Theorem member_lookup_cost_linear e name id p :
  snd (gg_findc (S (length e)) e name id p []) <= 1 + total_fields e.
Proof.
  destruct (gg_findc_good (S (length e)) e name id p []) as (ext & H1 & H2 & H3 & H4).
  rewrite app_nil_r in *. specialize (H2 (NoDup_nil _)).
  eapply Nat.le_trans; [exact H4|]. apply Nat.add_le_mono_l.
  unfold total_fields, sumf. apply sum_nodup_incl; [exact H2|].
  intros i Hi. apply in_seq. split; [lia|]. cbn. now apply struct_in_range, H3.
Qed.

Theorem member_lookup_is_the_modelled_lookup e name id p :
  fst (fst (gg_findc (S (length e)) e name id p [])) = gg_member e name id p.
Proof.
  unfold gg_member. rewrite <- gg_findc_proj. reflexivity.
Qed.

(* each struct is expanded at most once: the visited set of a lookup is duplicate free *)
Theorem member_lookup_visits_once e name id p :
  NoDup (snd (gg_find (S (length e)) e name id p [])).
Proof.
  rewrite <- gg_findc_proj. unfold proj. cbn [snd].
  destruct (gg_findc_good (S (length e)) e name id p []) as (ext & H1 & H2 & _).
  rewrite H1. apply H2. constructor.
Qed.

(* ---- the assignment-target lookup (refMember / fieldRef) ---- *)
Section EmbR.
  Variable rec : nat -> list nat -> lres * list nat * nat.
  Fixpoint embr (fs : list field) (vis : list nat) : lres * list nat * nat :=
    match fs with
    | [] => (NotFound, vis, 0)
    | f :: r =>
      if f_emb f then
        match f_ty f with
        | FNamed t | FPtr t =>
            let '(res, vis', n) := rec t vis in
            match res with
            | NotFound => let '(res2, v2, m) := embr r vis' in (res2, v2, n + m)
            | _ => (res, vis', n)
            end
        | FBasic _ => embr r vis
        end
      else embr r vis
    end.
End EmbR.

Fixpoint gg_refc (fuel : nat) (e : env) (name : N) (id : nat) (visited : list nat) : lres * list nat * nat :=
  match fuel with
  | 0 => (NotFound, visited, 1)
  | S fuel' =>
    let d := getd e id in
    if negb (d_struct d) then (NotFound, visited, 1) else
    match ref_find_field name 0 (d_fields d) with
    | Some i => (Found true id i, visited, 1)
    | None =>
      if vmem id visited then (NotFound, visited, 1)
      else let '(r, v, n) := embr (gg_refc fuel' e name) (d_fields d) (id :: visited) in (r, v, S n)
    end
  end.

Lemma gg_refc_proj fuel : forall e name id vis,
  proj (gg_refc fuel e name id vis) = gg_ref fuel e name id vis.
Proof.
  induction fuel as [|fuel IH]; intros e name id vis; cbn [gg_refc gg_ref]; [reflexivity|].
  set (d := getd e id).
  destruct (negb (d_struct d)); [reflexivity|].
  destruct (ref_find_field name 0 (d_fields d)); [reflexivity|].
  destruct (vmem id vis); [reflexivity|].
  generalize (id :: vis) as v0. generalize (d_fields d) as fs.
  induction fs as [|f fs IHf]; intros v0; [reflexivity|].
  cbn [embr]. destruct (f_emb f); [|apply IHf].
  destruct (f_ty f) as [k|t|t]; [apply IHf| |].
  all: specialize (IH e name t v0); destruct (gg_refc fuel e name t v0) as [[r1 v1] n1];
    unfold proj in IH; cbn [fst snd] in IH; rewrite <- IH;
    destruct r1; try reflexivity;
    specialize (IHf v1); destruct (embr (gg_refc fuel e name) fs v1) as [[r2 v2] n2];
    unfold proj in *; cbn [fst snd] in *; exact IHf.
Qed.

Lemma embr_good e (rec : nat -> list nat -> lres * list nat * nat) :
  (forall t v, good e v (rec t v) 1) ->
  forall fs vis, good e vis (embr rec fs vis) (length fs).
Proof.
  intros Hrec. induction fs as [|f fs IHf]; intros vis; cbn [embr length].
  - exists []. cbn. repeat split; auto; try lia; try (intros i []; fail).
  - assert (Hskip : good e vis (embr rec fs vis) (S (length fs))).
    { destruct (IHf vis) as (ext & H1 & H2 & H3 & H4). exists ext. repeat split; auto. lia. }
    destruct (f_emb f); [|exact Hskip].
    destruct (f_ty f) as [k|t|t]; [exact Hskip| |].
    all: destruct (Hrec t vis) as (ext1 & H1 & H2 & H3 & H4);
      destruct (rec t vis) as [[r1 v1] n1]; cbn [fst snd] in *; subst v1;
      destruct r1; try (exists ext1; cbn [fst snd]; repeat split; auto; lia);
      destruct (IHf (ext1 ++ vis)) as (ext2 & G1 & G2 & G3 & G4);
      destruct (embr rec fs (ext1 ++ vis)) as [[r2 v2] n2]; cbn [fst snd] in *; subst v2;
      exists (ext2 ++ ext1); rewrite <- app_assoc; repeat split; auto;
      [ intros i Hi; apply in_app_or in Hi as [Hi|Hi]; auto
      | cbn [snd]; rewrite sumf_app; lia ].
Qed.

Lemma gg_refc_good fuel : forall e name id vis, good e vis (gg_refc fuel e name id vis) 1.
Proof.
  induction fuel as [|fuel IH]; intros e name id vis; cbn [gg_refc]; [now apply good_nil|].
  set (d := getd e id).
  destruct (d_struct d) eqn:Es; cbn [negb]; [|now apply good_nil].
  destruct (ref_find_field name 0 (d_fields d)); [now apply good_nil|].
  destruct (vmem id vis) eqn:Ev; [now apply good_nil|].
  destruct (embr_good e (gg_refc fuel e name) (IH e name) (d_fields d) (id :: vis))
    as (ext & H1 & H2 & H3 & H4).
  destruct (embr (gg_refc fuel e name) (d_fields d) (id :: vis)) as [[r v] n].
  cbn [fst snd] in *. subst v.
  exists (ext ++ [id]). rewrite <- app_assoc. cbn [app]. repeat split; auto.
  - intros Hnd. apply H2. constructor; [now apply vmem_false_not_in|exact Hnd].
  - intros i Hi. apply in_app_or in Hi as [Hi|[<-|[]]]; auto.
  - rewrite sumf_app. cbn [snd]. assert (Hid : sumf e [id] = length (d_fields d)) by (unfold sumf, nf; cbn; fold d; lia). lia.
Qed.

Theorem member_ref_cost_linear e name id :
  snd (gg_refc (S (length e)) e name id []) <= 1 + total_fields e /\
  fst (fst (gg_refc (S (length e)) e name id [])) = gg_member_ref e name id.
Proof.
  split.
  - destruct (gg_refc_good (S (length e)) e name id []) as (ext & H1 & H2 & H3 & H4).
    rewrite app_nil_r in *. specialize (H2 (NoDup_nil _)).
    eapply Nat.le_trans; [exact H4|]. apply Nat.add_le_mono_l.
    unfold total_fields, sumf. apply sum_nodup_incl; [exact H2|].
    intros i Hi. apply in_seq. split; [lia|]. cbn. now apply struct_in_range, H3.
  - unfold gg_member_ref. rewrite <- gg_refc_proj. reflexivity.
Qed.
