(* C18 — non-interference of builders that own disjoint parts of the heap.
   The heap is a map from locations to values; every location belongs to one owner (a package
   being built) or to the Shared region (package-level singletons of gogen: identifier nodes,
   constraint terms, operator tables).  An operation of owner p is LOCAL when (1) it writes only
   locations of p and (2) what it writes depends only on p's locations and on Shared ones.  If no
   operation writes a Shared location, then in EVERY interleaving of two builds each package's part
   of the final heap is what the sequential build of that package alone produces. *)
From Coq Require Import List NArith Bool.
Import ListNotations.

Definition loc := N.
Definition heap := loc -> N.
Inductive region := Shared | Owned (p : N).

Section NonInterference.
Variable reg : loc -> region.

Definition agree_on (p : N) (h h' : heap) : Prop :=
  forall l, (reg l = Owned p \/ reg l = Shared) -> h l = h' l.

Record lop := mkOp { owner : N; act : heap -> heap }.

(* (1) frame: nothing outside the owner's region changes (in particular nothing Shared) *)
Definition frame (o : lop) : Prop := forall h l, reg l <> Owned (owner o) -> act o h l = h l.
(* (2) locality: the effect on the owner's region depends only on that region and on Shared *)
Definition local (o : lop) : Prop :=
  forall h h', agree_on (owner o) h h' -> forall l, reg l = Owned (owner o) -> act o h l = act o h' l.
Definition ok (o : lop) : Prop := frame o /\ local o.

Fixpoint run (ops : list lop) (h : heap) : heap :=
  match ops with [] => h | o :: r => run r (act o h) end.

(* interleavings (all merges preserving each sequence's order) *)
Inductive merge : list lop -> list lop -> list lop -> Prop :=
| m_nil : merge [] [] []
| m_left o a b c : merge a b c -> merge (o :: a) b (o :: c)
| m_right o a b c : merge a b c -> merge a (o :: b) (o :: c).

Lemma agree_refl p h : agree_on p h h.
Proof. intros l _. reflexivity. Qed.

Lemma step_own p o h h' :
  ok o -> owner o = p -> agree_on p h h' -> agree_on p (act o h) (act o h').
Proof.
  intros [Hf Hl] Ho Ha l [Hr|Hr].
  - apply Hl; [rewrite Ho; exact Ha|rewrite Ho; exact Hr].
  - rewrite !Hf by (rewrite Hr; discriminate). apply Ha. now right.
Qed.

Lemma step_other p o h h' :
  ok o -> owner o <> p -> agree_on p h h' -> agree_on p (act o h) h'.
Proof.
  intros [Hf _] Ho Ha l Hr. rewrite Hf.
  - now apply Ha.
  - destruct Hr as [Hr|Hr]; rewrite Hr; [intros E; inversion E; subst; now apply Ho|discriminate].
Qed.

Theorem interleaving_is_sequential p q a b c :
  p <> q -> Forall ok a -> Forall ok b ->
  Forall (fun o => owner o = p) a -> Forall (fun o => owner o = q) b ->
  merge a b c ->
  forall h h', agree_on p h h' -> agree_on p (run c h) (run a h').
Proof.
  intros Hpq Hoa Hob Hpa Hqb Hm. induction Hm as [|o a b c Hm IH|o a b c Hm IH]; intros h h' Hag; cbn [run].
  - exact Hag.
  - inversion Hoa; inversion Hpa; subst. apply IH; auto; try (now apply step_own).
  - inversion Hob; inversion Hqb; subst. apply IH; auto; try (apply step_other; auto; congruence).
Qed.

(* any number of packages: the operations of p, in the order they occur in ANY schedule c of ok
   operations of arbitrary owners, act on p's part of the heap as if they ran alone *)
Theorem projection_is_sequential p c :
  Forall ok c ->
  forall h h', agree_on p h h' ->
    agree_on p (run c h) (run (filter (fun o => N.eqb (owner o) p) c) h').
Proof.
  intros Hc. induction Hc as [|o c Ho Hc IH]; intros h h' Hag; cbn [run filter].
  - exact Hag.
  - destruct (N.eqb_spec (owner o) p) as [E|E]; cbn [run].
    + apply IH. now apply step_own.
    + apply IH. now apply step_other.
Qed.

End NonInterference.

Local Open Scope N_scope.
(* the frame condition is necessary: one write to a Shared location by package 1 changes what
   package 0 computes (package 0 copies the shared cell into its own cell) *)
Definition ex_reg (l : loc) : region := if N.eqb l 0 then Shared else Owned (l - 1).
Definition upd (h : heap) (l v : N) : heap := fun l' => if N.eqb l' l then v else h l'.
Definition ex_copy : lop := mkOp 0 (fun h => upd h 1 (h 0%N)).       (* owner 0: cell1 := shared *)
Definition ex_poke : lop := mkOp 1 (fun h => upd h 0 7).             (* owner 1 writes the shared cell *)
Lemma shared_write_breaks :
  merge [ex_copy] [ex_poke] [ex_poke; ex_copy] /\
  run [ex_poke; ex_copy] (fun _ => 0) 1 <> run [ex_copy] (fun _ => 0) 1 /\
  ~ frame ex_reg ex_poke.
Proof.
  split; [repeat constructor|]. split; [vm_compute; discriminate|].
  intros H. specialize (H (fun _ => 0) 0 ltac:(vm_compute; discriminate)). vm_compute in H. discriminate.
Qed.

Lemma ex_copy_ok : ok ex_reg ex_copy.
Proof.
  split.
  - intros h l Hr. unfold ex_copy, act, upd. destruct (N.eqb_spec l 1) as [->|]; [|reflexivity].
    exfalso. apply Hr. reflexivity.
  - intros h h' Ha l Hr. unfold ex_copy, act, upd. destruct (N.eqb l 1); [|apply Ha; now left].
    apply Ha. right. reflexivity.
Qed.

