(* C18 — classification of every write whose target is a package-level variable of package gogen or
   a field of a go/ast node (GVGen.Tables.write_sites, regenerated from the source on every run; the
   inventory also lists delete() on, and method calls through, package-level variables: none exists
   on the pinned tree).  A new or renamed site is not in this table: Sites_classified then fails.
   WFresh: the node is allocated in the same function (composite literal or toObjectExpr/toType result) before it is written; no other goroutine can hold it.
   WOwnedDecl: the node hangs off a declaration / statement object (Func.decl, TypeDecl.spec, TypeDefs.decl, ValueDefs decl, forRangeStmt.stmt, the current label) that is reachable only from the builder of one package.
   WImportTable: the identifier is the placeholder of a package reference created by File.newImport of this package; the visitor runs inside WriteTo/ASTFile of the same package.
   WConfig: process-wide debug switches, written only by SetDebug: a configuration call the client makes before any build starts (precondition of the property; the harness never calls it concurrently).
*)
From Coq Require Import List NArith Bool.
From GV Require Import Lib.Bytes C18.Proofs.
From GVGen Require Import Tables.
Import ListNotations.

Inductive wclass := WFresh | WOwnedDecl | WImportTable | WConfig.

Definition known_writes : list (str * str * wclass) :=
  [ ([116; 111; 70; 105; 101; 108; 100; 115]%N, [110; 111; 100; 101; 32; 102; 108; 100; 46; 84; 97; 103]%N, WFresh) (* toFields | node fld.Tag *);
    ([116; 111; 86; 97; 114; 105; 97; 100; 105; 99]%N, [110; 111; 100; 101; 32; 102; 108; 100; 46; 84; 121; 112; 101]%N, WFresh) (* toVariadic | node fld.Type *);
    ([109; 97; 116; 99; 104; 70; 117; 110; 99; 67; 97; 108; 108]%N, [110; 111; 100; 101; 32; 60; 42; 97; 115; 116; 46; 84; 121; 112; 101; 65; 115; 115; 101; 114; 116; 69; 120; 112; 114; 62; 46; 83; 101; 108]%N, WFresh) (* matchFuncCall | node <ast.TypeAssertExpr>.Sel *);
    ([109; 97; 116; 99; 104; 70; 117; 110; 99; 67; 97; 108; 108]%N, [110; 111; 100; 101; 32; 116; 46; 88]%N, WFresh) (* matchFuncCall | node t.X *);
    ([109; 97; 116; 99; 104; 70; 117; 110; 99; 67; 97; 108; 108]%N, [110; 111; 100; 101; 32; 116; 46; 89]%N, WFresh) (* matchFuncCall | node t.Y *);
    ([80; 97; 99; 107; 97; 103; 101; 46; 78; 101; 119; 70; 117; 110; 99; 68; 101; 99; 108]%N, [110; 111; 100; 101; 32; 102; 110; 46; 78; 97; 109; 101]%N, WFresh) (* Package.NewFuncDecl | node fn.Name *);
    ([80; 97; 99; 107; 97; 103; 101; 46; 78; 101; 119; 70; 117; 110; 99; 68; 101; 99; 108]%N, [110; 111; 100; 101; 32; 102; 110; 46; 84; 121; 112; 101]%N, WFresh) (* Package.NewFuncDecl | node fn.Type *);
    ([73; 110; 115; 101; 114; 116; 83; 116; 109; 116; 70; 114; 111; 110; 116]%N, [110; 111; 100; 101; 32; 98; 111; 100; 121; 46; 76; 105; 115; 116]%N, WFresh) (* InsertStmtFront | node body.List *);
    ([80; 97; 99; 107; 97; 103; 101; 46; 78; 101; 119; 84; 121; 112; 101; 68; 101; 102; 115]%N, [110; 111; 100; 101; 32; 100; 101; 99; 108; 46; 84; 111; 107]%N, WFresh) (* Package.NewTypeDefs | node decl.Tok *);
    ([67; 111; 100; 101; 66; 117; 105; 108; 100; 101; 114; 46; 78; 101; 119; 84; 121; 112; 101; 68; 101; 99; 108; 115]%N, [110; 111; 100; 101; 32; 100; 101; 99; 108; 46; 84; 111; 107]%N, WFresh) (* CodeBuilder.NewTypeDecls | node decl.Tok *);
    ([80; 97; 99; 107; 97; 103; 101; 46; 100; 111; 78; 101; 119; 65; 108; 105; 97; 115]%N, [110; 111; 100; 101; 32; 100; 101; 99; 108; 46; 83; 112; 101; 99; 115]%N, WFresh) (* Package.doNewAlias | node decl.Specs *);
    ([80; 97; 99; 107; 97; 103; 101; 46; 100; 111; 78; 101; 119; 65; 108; 105; 97; 115]%N, [110; 111; 100; 101; 32; 115; 112; 101; 99; 46; 84; 121; 112; 101]%N, WFresh) (* Package.doNewAlias | node spec.Type *);
    ([80; 97; 99; 107; 97; 103; 101; 46; 100; 111; 78; 101; 119; 84; 121; 112; 101]%N, [110; 111; 100; 101; 32; 100; 101; 99; 108; 46; 83; 112; 101; 99; 115]%N, WFresh) (* Package.doNewType | node decl.Specs *);
    ([80; 97; 99; 107; 97; 103; 101; 46; 100; 111; 78; 101; 119; 84; 121; 112; 101]%N, [110; 111; 100; 101; 32; 115; 112; 101; 99; 46; 84; 121; 112; 101]%N, WFresh) (* Package.doNewType | node spec.Type *);
    ([80; 97; 99; 107; 97; 103; 101; 46; 110; 101; 119; 86; 97; 108; 117; 101; 68; 101; 102; 115]%N, [110; 111; 100; 101; 32; 100; 101; 99; 108; 46; 84; 111; 107]%N, WFresh) (* Package.newValueDefs | node decl.Tok *);
    ([67; 111; 100; 101; 66; 117; 105; 108; 100; 101; 114; 46; 118; 97; 108; 117; 101; 68; 101; 102; 115]%N, [110; 111; 100; 101; 32; 100; 101; 99; 108; 46; 84; 111; 107]%N, WFresh) (* CodeBuilder.valueDefs | node decl.Tok *);
    ([115; 101; 116; 84; 121; 112; 101; 80; 97; 114; 97; 109; 115]%N, [110; 111; 100; 101; 32; 115; 112; 101; 99; 46; 84; 121; 112; 101; 80; 97; 114; 97; 109; 115]%N, WFresh) (* setTypeParams | node spec.TypeParams *);
    ([109; 101; 116; 104; 111; 100; 84; 111; 70; 117; 110; 99; 83; 105; 103]%N, [110; 111; 100; 101; 32; 115; 101; 108; 46; 83; 101; 108]%N, WFresh) (* methodToFuncSig | node sel.Sel *);
    ([109; 101; 116; 104; 111; 100; 84; 111; 70; 117; 110; 99; 83; 105; 103]%N, [110; 111; 100; 101; 32; 115; 101; 108; 46; 88]%N, WFresh) (* methodToFuncSig | node sel.X *);
    ([67; 111; 100; 101; 66; 117; 105; 108; 100; 101; 114; 46; 109; 101; 116; 104; 111; 100; 83; 105; 103; 79; 102]%N, [110; 111; 100; 101; 32; 115; 101; 108; 46; 88]%N, WFresh) (* CodeBuilder.methodSigOf | node sel.X *);
    ([67; 108; 97; 115; 115; 68; 101; 102; 115; 46; 78; 101; 119; 65; 110; 100; 73; 110; 105; 116]%N, [110; 111; 100; 101; 32; 115; 116; 109; 116; 46; 84; 111; 107]%N, WFresh) (* ClassDefs.NewAndInit | node stmt.Tok *);
    ([110; 101; 119; 85; 110; 115; 97; 102; 101; 65; 100; 100; 69; 120; 112; 114]%N, [110; 111; 100; 101; 32; 102; 110; 46; 83; 101; 108; 46; 78; 97; 109; 101]%N, WFresh) (* newUnsafeAddExpr | node fn.Sel.Name *);
    ([110; 101; 119; 85; 110; 115; 97; 102; 101; 68; 97; 116; 97; 69; 120; 112; 114]%N, [110; 111; 100; 101; 32; 102; 110; 46; 83; 101; 108; 46; 78; 97; 109; 101]%N, WFresh) (* newUnsafeDataExpr | node fn.Sel.Name *);
    ([110; 101; 119; 86; 97; 108; 117; 101; 83; 112; 101; 99]%N, [110; 111; 100; 101; 32; 100; 101; 99; 108; 46; 83; 112; 101; 99; 115]%N, WFresh) (* newValueSpec | node decl.Specs *);
    ([115; 101; 116; 68; 101; 110; 111; 116; 101; 100]%N, [110; 111; 100; 101; 32; 118; 46; 83; 101; 108; 46; 79; 98; 106]%N, WFresh) (* setDenoted | node v.Sel.Obj *);
    ([115; 101; 116; 68; 101; 110; 111; 116; 101; 100]%N, [110; 111; 100; 101; 32; 118; 46; 79; 98; 106]%N, WFresh) (* setDenoted | node v.Obj *);
    ([67; 111; 100; 101; 66; 117; 105; 108; 100; 101; 114; 46; 101; 109; 105; 116; 83; 116; 109; 116]%N, [110; 111; 100; 101; 32; 112; 46; 99; 117; 114; 114; 101; 110; 116; 46; 108; 97; 98; 101; 108; 46; 83; 116; 109; 116]%N, WOwnedDecl) (* CodeBuilder.emitStmt | node p.current.label.Stmt *);
    ([67; 111; 100; 101; 66; 117; 105; 108; 100; 101; 114; 46; 76; 97; 98; 101; 108]%N, [110; 111; 100; 101; 32; 112; 46; 99; 117; 114; 114; 101; 110; 116; 46; 108; 97; 98; 101; 108; 46; 83; 116; 109; 116]%N, WOwnedDecl) (* CodeBuilder.Label | node p.current.label.Stmt *);
    ([70; 117; 110; 99; 46; 83; 101; 116; 67; 111; 109; 109; 101; 110; 116; 115]%N, [110; 111; 100; 101; 32; 112; 46; 100; 101; 99; 108; 46; 68; 111; 99]%N, WOwnedDecl) (* Func.SetComments | node p.decl.Doc *);
    ([70; 117; 110; 99; 46; 69; 110; 100]%N, [110; 111; 100; 101; 32; 102; 110; 46; 78; 97; 109; 101]%N, WOwnedDecl) (* Func.End | node fn.Name *);
    ([70; 117; 110; 99; 46; 69; 110; 100]%N, [110; 111; 100; 101; 32; 102; 110; 46; 84; 121; 112; 101]%N, WOwnedDecl) (* Func.End | node fn.Type *);
    ([70; 117; 110; 99; 46; 69; 110; 100]%N, [110; 111; 100; 101; 32; 102; 110; 46; 66; 111; 100; 121]%N, WOwnedDecl) (* Func.End | node fn.Body *);
    ([70; 117; 110; 99; 46; 69; 110; 100]%N, [110; 111; 100; 101; 32; 102; 110; 46; 82; 101; 99; 118]%N, WOwnedDecl) (* Func.End | node fn.Recv *);
    ([102; 111; 114; 82; 97; 110; 103; 101; 83; 116; 109; 116; 46; 82; 97; 110; 103; 101; 65; 115; 115; 105; 103; 110; 84; 104; 101; 110]%N, [110; 111; 100; 101; 32; 112; 46; 115; 116; 109; 116; 46; 84; 111; 107]%N, WOwnedDecl) (* forRangeStmt.RangeAssignThen | node p.stmt.Tok *);
    ([102; 111; 114; 82; 97; 110; 103; 101; 83; 116; 109; 116; 46; 82; 97; 110; 103; 101; 65; 115; 115; 105; 103; 110; 84; 104; 101; 110]%N, [110; 111; 100; 101; 32; 112; 46; 115; 116; 109; 116; 46; 70; 111; 114]%N, WOwnedDecl) (* forRangeStmt.RangeAssignThen | node p.stmt.For *);
    ([84; 121; 112; 101; 68; 101; 99; 108; 46; 83; 101; 116; 67; 111; 109; 109; 101; 110; 116; 115]%N, [110; 111; 100; 101; 32; 112; 46; 115; 112; 101; 99; 46; 68; 111; 99]%N, WOwnedDecl) (* TypeDecl.SetComments | node p.spec.Doc *);
    ([84; 121; 112; 101; 68; 101; 99; 108; 46; 68; 101; 108; 101; 116; 101]%N, [110; 111; 100; 101; 32; 112; 46; 115; 112; 101; 99; 46; 78; 97; 109; 101]%N, WOwnedDecl) (* TypeDecl.Delete | node p.spec.Name *);
    ([84; 121; 112; 101; 68; 101; 99; 108; 46; 73; 110; 105; 116; 84; 121; 112; 101]%N, [110; 111; 100; 101; 32; 115; 112; 101; 99; 46; 84; 121; 112; 101]%N, WOwnedDecl) (* TypeDecl.InitType | node spec.Type *);
    ([84; 121; 112; 101; 68; 101; 102; 115; 46; 83; 101; 116; 67; 111; 109; 109; 101; 110; 116; 115]%N, [110; 111; 100; 101; 32; 112; 46; 100; 101; 99; 108; 46; 68; 111; 99]%N, WOwnedDecl) (* TypeDefs.SetComments | node p.decl.Doc *);
    ([84; 121; 112; 101; 68; 101; 102; 115; 46; 67; 111; 109; 112; 108; 101; 116; 101]%N, [110; 111; 100; 101; 32; 100; 101; 99; 108; 46; 68; 111; 99]%N, WOwnedDecl) (* TypeDefs.Complete | node decl.Doc *);
    ([84; 121; 112; 101; 68; 101; 102; 115; 46; 67; 111; 109; 112; 108; 101; 116; 101]%N, [110; 111; 100; 101; 32; 115; 112; 101; 99; 46; 68; 111; 99]%N, WOwnedDecl) (* TypeDefs.Complete | node spec.Doc *);
    ([84; 121; 112; 101; 68; 101; 102; 115; 46; 67; 111; 109; 112; 108; 101; 116; 101]%N, [110; 111; 100; 101; 32; 100; 101; 99; 108; 46; 83; 112; 101; 99; 115]%N, WOwnedDecl) (* TypeDefs.Complete | node decl.Specs *);
    ([86; 97; 114; 68; 101; 102; 115; 46; 83; 101; 116; 67; 111; 109; 109; 101; 110; 116; 115]%N, [110; 111; 100; 101; 32; 112; 46; 100; 101; 99; 108; 46; 68; 111; 99]%N, WOwnedDecl) (* VarDefs.SetComments | node p.decl.Doc *);
    ([67; 111; 110; 115; 116; 68; 101; 102; 115; 46; 83; 101; 116; 67; 111; 109; 109; 101; 110; 116; 115]%N, [110; 111; 100; 101; 32; 112; 46; 100; 101; 99; 108; 46; 68; 111; 99]%N, WOwnedDecl) (* ConstDefs.SetComments | node p.decl.Doc *);
    ([101; 109; 105; 116; 70; 111; 114; 82; 97; 110; 103; 101; 83; 116; 109; 116]%N, [110; 111; 100; 101; 32; 112; 46; 115; 116; 109; 116; 46; 88]%N, WOwnedDecl) (* emitForRangeStmt | node p.stmt.X *);
    ([101; 109; 105; 116; 70; 111; 114; 82; 97; 110; 103; 101; 83; 116; 109; 116]%N, [110; 111; 100; 101; 32; 112; 46; 115; 116; 109; 116; 46; 66; 111; 100; 121]%N, WOwnedDecl) (* emitForRangeStmt | node p.stmt.Body *);
    ([101; 109; 105; 116; 70; 111; 114; 82; 97; 110; 103; 101; 83; 116; 109; 116]%N, [110; 111; 100; 101; 32; 112; 46; 115; 116; 109; 116; 46; 84; 111; 107]%N, WOwnedDecl) (* emitForRangeStmt | node p.stmt.Tok *);
    ([100; 101; 108; 101; 116; 101; 86; 97; 108; 117; 101; 83; 112; 101; 99]%N, [110; 111; 100; 101; 32; 100; 101; 99; 108; 46; 83; 112; 101; 99; 115]%N, WOwnedDecl) (* deleteValueSpec | node decl.Specs *);
    ([100; 101; 108; 101; 116; 101; 86; 97; 108; 117; 101; 83; 112; 101; 99]%N, [110; 111; 100; 101; 32; 118; 115; 112; 101; 99; 46; 78; 97; 109; 101; 115]%N, WOwnedDecl) (* deleteValueSpec | node vspec.Names *);
    ([102; 111; 114; 83; 116; 109; 116; 46; 99; 111; 110; 100; 73; 110; 66; 111; 100; 121]%N, [110; 111; 100; 101; 32; 112; 46; 98; 111; 100; 121; 46; 76; 105; 115; 116]%N, WOwnedDecl) (* forStmt.condInBody | node p.body.List *);
    ([97; 115; 116; 86; 105; 115; 105; 116; 111; 114; 46; 86; 105; 115; 105; 116]%N, [110; 111; 100; 101; 32; 105; 100; 46; 79; 98; 106; 46; 68; 97; 116; 97]%N, WImportTable) (* astVisitor.Visit | node id.Obj.Data *);
    ([97; 115; 116; 86; 105; 115; 105; 116; 111; 114; 46; 86; 105; 115; 105; 116]%N, [110; 111; 100; 101; 32; 105; 100; 46; 78; 97; 109; 101]%N, WImportTable) (* astVisitor.Visit | node id.Name *);
    ([97; 115; 116; 86; 105; 115; 105; 116; 111; 114; 46; 86; 105; 115; 105; 116]%N, [110; 111; 100; 101; 32; 105; 100; 46; 79; 98; 106; 46; 78; 97; 109; 101]%N, WImportTable) (* astVisitor.Visit | node id.Obj.Name *);
    ([83; 101; 116; 68; 101; 98; 117; 103]%N, [103; 108; 111; 98; 97; 108; 32; 100; 101; 98; 117; 103; 73; 110; 115; 116; 114]%N, WConfig) (* SetDebug | global debugInstr *);
    ([83; 101; 116; 68; 101; 98; 117; 103]%N, [103; 108; 111; 98; 97; 108; 32; 100; 101; 98; 117; 103; 73; 109; 112; 111; 114; 116]%N, WConfig) (* SetDebug | global debugImport *);
    ([83; 101; 116; 68; 101; 98; 117; 103]%N, [103; 108; 111; 98; 97; 108; 32; 100; 101; 98; 117; 103; 77; 97; 116; 99; 104]%N, WConfig) (* SetDebug | global debugMatch *);
    ([83; 101; 116; 68; 101; 98; 117; 103]%N, [103; 108; 111; 98; 97; 108; 32; 100; 101; 98; 117; 103; 67; 111; 109; 109; 101; 110; 116; 115]%N, WConfig) (* SetDebug | global debugComments *);
    ([83; 101; 116; 68; 101; 98; 117; 103]%N, [103; 108; 111; 98; 97; 108; 32; 100; 101; 98; 117; 103; 87; 114; 105; 116; 101; 70; 105; 108; 101]%N, WConfig) (* SetDebug | global debugWriteFile *) ].

Definition classify (s : str * str) : option wclass :=
  match find (fun k => str_eqb (fst (fst k)) (fst s) && str_eqb (snd (fst k)) (snd s)) known_writes with
  | Some k => Some (snd k)
  | None => None
  end.

Definition classified (s : str * str) : bool := match classify s with Some _ => true | None => false end.

(* which region of the non-interference model a class of write falls in, for the package p that runs it *)
Definition class_region (p : N) (c : wclass) : region :=
  match c with WConfig => Shared | _ => Owned p end.

Definition build_time (s : str * str) : bool :=
  match classify s with Some WConfig => false | Some _ => true | None => false end.

Lemma Sites_classified : forallb classified write_sites = true.
Proof. vm_compute. reflexivity. Qed.

(* every classified write that can run during a build targets the region of the package running it *)
Lemma build_time_writes_owned : forall s p c,
  In s write_sites -> build_time s = true -> classify s = Some c -> class_region p c = Owned p.
Proof.
  intros s p c _ Hb Hc. unfold build_time in Hb. rewrite Hc in Hb. destruct c; try reflexivity. discriminate.
Qed.

(* the only Shared-region writers are the five assignments of SetDebug *)
Definition config_sites : list (str * str) := filter (fun s => negb (build_time s)) write_sites.
Lemma config_sites_are_SetDebug :
  forallb (fun s => str_eqb (fst s) [83; 101; 116; 68; 101; 98; 117; 103]%N) config_sites = true.
Proof. vm_compute. reflexivity. Qed.

(* ---- object pools (GVGen.Tables.pool_sites: every function of the repository that takes from or
   puts into a package-level sync.Pool, and every function that calls a releasing method) ----
   PAcquire: the object leaves the pool and belongs to the caller.
   PRelease: the method that hands the object back.
   PLastUser: the function that releases is the one that makes the last use of the object's buffer:
     Config.fprint defers p.free() and itself writes p.output to the destination before it returns,
     so no reference to the buffer survives the release.  A release from any other function (a
     helper that returns the buffer, a caller further up) is a new site: Pool_sites_classified fails. *)
Inductive pclass := PAcquire | PRelease | PLastUser.
Definition known_pool_sites : list (str * str * pclass) :=
  [ ([105; 110; 116; 101; 114; 110; 97; 108; 47; 103; 111; 47; 112; 114; 105; 110; 116; 101; 114; 32; 110; 101; 119; 80; 114; 105; 110; 116; 101; 114]%N, [112; 111; 111; 108; 32; 112; 114; 105; 110; 116; 101; 114; 80; 111; 111; 108; 46; 71; 101; 116]%N, PAcquire) (* internal/go/printer newPrinter | pool printerPool.Get *);
    ([105; 110; 116; 101; 114; 110; 97; 108; 47; 103; 111; 47; 112; 114; 105; 110; 116; 101; 114; 32; 112; 114; 105; 110; 116; 101; 114; 46; 102; 114; 101; 101]%N, [112; 111; 111; 108; 32; 112; 114; 105; 110; 116; 101; 114; 80; 111; 111; 108; 46; 80; 117; 116]%N, PRelease) (* internal/go/printer printer.free | pool printerPool.Put *);
    ([105; 110; 116; 101; 114; 110; 97; 108; 47; 103; 111; 47; 112; 114; 105; 110; 116; 101; 114; 32; 67; 111; 110; 102; 105; 103; 46; 102; 112; 114; 105; 110; 116]%N, [114; 101; 108; 101; 97; 115; 101; 32; 102; 114; 101; 101]%N, PLastUser) (* internal/go/printer Config.fprint | release free *);
    ([116; 97; 114; 103; 101; 116; 47; 106; 115; 47; 112; 114; 105; 110; 116; 101; 114; 32; 110; 101; 119; 80; 114; 105; 110; 116; 101; 114]%N, [112; 111; 111; 108; 32; 112; 114; 105; 110; 116; 101; 114; 80; 111; 111; 108; 46; 71; 101; 116]%N, PAcquire) (* target/js/printer newPrinter | pool printerPool.Get *);
    ([116; 97; 114; 103; 101; 116; 47; 106; 115; 47; 112; 114; 105; 110; 116; 101; 114; 32; 112; 114; 105; 110; 116; 101; 114; 46; 102; 114; 101; 101]%N, [112; 111; 111; 108; 32; 112; 114; 105; 110; 116; 101; 114; 80; 111; 111; 108; 46; 80; 117; 116]%N, PRelease) (* target/js/printer printer.free | pool printerPool.Put *);
    ([116; 97; 114; 103; 101; 116; 47; 106; 115; 47; 112; 114; 105; 110; 116; 101; 114; 32; 67; 111; 110; 102; 105; 103; 46; 102; 112; 114; 105; 110; 116]%N, [114; 101; 108; 101; 97; 115; 101; 32; 102; 114; 101; 101]%N, PLastUser) (* target/js/printer Config.fprint | release free *) ].
Definition pool_classified (s : str * str) : bool :=
  existsb (fun k => str_eqb (fst s) (fst (fst k)) && str_eqb (snd s) (snd (fst k))) known_pool_sites.
Lemma Pool_sites_classified : forallb pool_classified pool_sites = true.
Proof. vm_compute. reflexivity. Qed.
(* and no listed site has disappeared (a pool that is no longer released is a leak, not a race, but
   the table must describe the code that exists) *)
Lemma Pool_sites_complete :
  forallb (fun k => existsb (fun s => str_eqb (fst s) (fst (fst k)) && str_eqb (snd s) (snd (fst k))) pool_sites) known_pool_sites = true.
Proof. vm_compute. reflexivity. Qed.
