(* C19 — typeutil.Map refines an association list under the identity relation,
   for every Set/Delete/At/Len/Keys history.  Parametric in the key type, the
   hash function and the identity relation; the only facts used about them are
   that identity is an equivalence and that identical keys hash equally. *)
From Coq Require Import List NArith ZArith Bool Lia Permutation.
From GV Require Import C19.MapModel.
Import ListNotations.

Section Proofs.
Context {K V : Type}.
Variable hash : K -> N.
Variable ident : K -> K -> bool.
Hypothesis ident_refl : forall a, ident a a = true.
Hypothesis ident_sym : forall a b, ident a b = ident b a.
Hypothesis ident_trans : forall a b c, ident a b = true -> ident b c = true -> ident a c = true.
Hypothesis hash_ident : forall a b, ident a b = true -> hash a = hash b.

Notation bucket := (@bucket K V).
Notation b_at := (@b_at K V ident).
Notation b_update := (@b_update K V ident).
Notation b_delete := (@b_delete K V ident).
Notation m_at := (@m_at K V hash ident).
Notation m_set := (@m_set K V hash ident).
Notation m_delete := (@m_delete K V hash ident).
Notation r_at := (@r_at K V ident).
Notation r_set := (@r_set K V ident).
Notation r_delete := (@r_delete K V ident).

Lemma ident_false_trans a b c : ident a b = true -> ident a c = false -> ident b c = false.
Proof.
  intros H1 H2. destruct (ident b c) eqn:E; [|reflexivity].
  rewrite (ident_trans a b c H1 E) in H2. discriminate.
Qed.

Lemma ident_cong a b c : ident a b = true -> ident c a = ident c b.
Proof.
  intros H. destruct (ident c a) eqn:E1, (ident c b) eqn:E2; try reflexivity.
  - rewrite (ident_trans c a b E1 H) in E2. discriminate.
  - rewrite ident_sym in H. rewrite (ident_trans c b a E2 H) in E1. discriminate.
Qed.

(* ---------------- buckets ---------------- *)
Definition fresh_in (k : K) (b : bucket) : Prop :=
  forall e, In e (b_live b) -> ident k (fst e) = false.

Lemma b_at_none_fresh k b : b_at k b = None <-> fresh_in k b.
Proof.
  unfold fresh_in. induction b as [|[[k1 v1]|] r IH]; cbn [MapModel.b_at b_live].
  - split; [intros _ e []|reflexivity].
  - destruct (ident k k1) eqn:E.
    + split; [discriminate|]. intros H. specialize (H (k1, v1) (or_introl eq_refl)).
      cbn in H. congruence.
    + rewrite IH. split.
      * intros H e [<-|He]; [exact E|auto].
      * intros H e He. apply H. now right.
  - exact IH.
Qed.

Lemma fresh_ident k k' b : fresh_in k b -> ident k' k = true -> fresh_in k' b.
Proof.
  intros H Hi e He. specialize (H e He). rewrite ident_sym in Hi.
  rewrite ident_sym. rewrite ident_sym in H.
  rewrite <- (ident_cong k k' (fst e) Hi). exact H.
Qed.

Lemma b_update_none k v b : b_update k v b = None <-> b_at k b = None.
Proof.
  induction b as [|[[k1 v1]|] r IH]; cbn [MapModel.b_update MapModel.b_at]; [tauto| |].
  - destruct (ident k k1); [split; discriminate|].
    destruct (b_update k v r) as [[p r']|]; [|tauto].
    split; [discriminate|]. intros H. apply IH in H. discriminate.
  - destruct (b_update k v r) as [[p r']|]; [|tauto].
    split; [discriminate|]. intros H. apply IH in H. discriminate.
Qed.

Lemma b_update_some k v b p b' :
  b_update k v b = Some (p, b') ->
  b_at k b = Some p /\
  (forall k', b_at k' b' = if ident k' k then Some v else b_at k' b) /\
  map fst (b_live b') = map fst (b_live b).
Proof.
  revert p b'; induction b as [|[[k1 v1]|] r IH]; intros p b'; cbn [MapModel.b_update MapModel.b_at]; [discriminate| |].
  - destruct (ident k k1) eqn:E.
    + intros H; inversion H; subst. split; [reflexivity|]. split; [|reflexivity].
      intros k'. cbn [MapModel.b_at]. rewrite ident_sym in E.
      rewrite (ident_cong k1 k k' E). destruct (ident k' k); reflexivity.
    + destruct (b_update k v r) as [[p0 r']|] eqn:Eu; [|discriminate].
      intros H; inversion H; subst. destruct (IH _ _ eq_refl) as (H1 & H2 & H3).
      split; [exact H1|]. split.
      * intros k'. cbn [MapModel.b_at]. rewrite H2.
        destruct (ident k' k1) eqn:E1; [|reflexivity].
        destruct (ident k' k) eqn:E2; [|reflexivity].
        rewrite ident_sym in E2. rewrite (ident_trans k k' k1 E2 E1) in E. discriminate.
      * cbn [b_live map]. now rewrite H3.
  - destruct (b_update k v r) as [[p0 r']|] eqn:Eu; [|discriminate].
    intros H; inversion H; subst. destruct (IH _ _ eq_refl) as (H1 & H2 & H3).
    split; [exact H1|]. split; [|exact H3]. intros k'. cbn [MapModel.b_at]. apply H2.
Qed.

Lemma b_at_fill k v b :
  has_hole b = true -> fresh_in k b ->
  (forall k', b_at k' (b_fill_last (k, v) b) = if ident k' k then Some v else b_at k' b) /\
  Permutation (b_live (b_fill_last (k, v) b)) ((k, v) :: b_live b).
Proof.
  induction b as [|[[k1 v1]|] r IH]; cbn [has_hole b_fill_last]; intros Hh Hf; [discriminate| |].
  - assert (Hf' : fresh_in k r) by (intros e He; apply Hf; now right).
    destruct (IH Hh Hf') as [H1 H2]. split.
    + intros k'. cbn [MapModel.b_at]. rewrite H1.
      destruct (ident k' k1) eqn:E1; [|reflexivity].
      destruct (ident k' k) eqn:E2; [|reflexivity].
      specialize (Hf (k1, v1) (or_introl eq_refl)). cbn in Hf.
      rewrite ident_sym in E2. rewrite (ident_trans k k' k1 E2 E1) in Hf. discriminate.
    + cbn [b_live]. rewrite H2. apply perm_swap.
  - destruct (has_hole r) eqn:Er.
    + assert (Hf' : fresh_in k r) by (intros e He; apply Hf; exact He).
      destruct (IH eq_refl Hf') as [H1 H2]. split; [intros k'; cbn [MapModel.b_at]; apply H1|exact H2].
    + split; [|cbn [b_live]; reflexivity].
      intros k'. cbn [MapModel.b_at]. destruct (ident k' k) eqn:E; [reflexivity|reflexivity].
Qed.

Lemma b_at_app_end k v b :
  fresh_in k b ->
  (forall k', b_at k' (b ++ [Some (k, v)]) = if ident k' k then Some v else b_at k' b) /\
  Permutation (b_live (b ++ [Some (k, v)])) ((k, v) :: b_live b).
Proof.
  induction b as [|[[k1 v1]|] r IH]; intros Hf.
  - split; [intros k'; cbn; destruct (ident k' k); reflexivity|reflexivity].
  - assert (Hf' : fresh_in k r) by (intros e He; apply Hf; now right).
    destruct (IH Hf') as [H1 H2]. split.
    + intros k'. cbn [List.app MapModel.b_at]. rewrite H1.
      destruct (ident k' k1) eqn:E1; [|reflexivity].
      destruct (ident k' k) eqn:E2; [|reflexivity].
      specialize (Hf (k1, v1) (or_introl eq_refl)). cbn in Hf.
      rewrite ident_sym in E2. rewrite (ident_trans k k' k1 E2 E1) in Hf. discriminate.
    + cbn [List.app b_live]. rewrite H2. apply perm_swap.
  - destruct (IH Hf) as [H1 H2]. split; [intros k'; cbn [List.app MapModel.b_at]; apply H1|exact H2].
Qed.

Lemma b_at_insert k v b :
  fresh_in k b ->
  (forall k', b_at k' (b_insert (k, v) b) = if ident k' k then Some v else b_at k' b) /\
  Permutation (b_live (b_insert (k, v) b)) ((k, v) :: b_live b).
Proof.
  intros Hf. unfold b_insert. destruct (has_hole b) eqn:E.
  - now apply b_at_fill.
  - now apply b_at_app_end.
Qed.

(* pairwise non-identical keys *)
Definition pn (l : list K) : Prop := ForallOrdPairs (fun a b => ident a b = false) l.

Lemma b_delete_none k b : b_delete k b = None <-> b_at k b = None.
Proof.
  induction b as [|[[k1 v1]|] r IH]; cbn [MapModel.b_delete MapModel.b_at]; [tauto| |].
  - destruct (ident k k1); [split; discriminate|].
    destruct (b_delete k r); [|tauto]. split; [discriminate|]. intros H; apply IH in H; discriminate.
  - destruct (b_delete k r); [|tauto]. split; [discriminate|]. intros H; apply IH in H; discriminate.
Qed.

Lemma b_delete_some k b b' :
  pn (map fst (b_live b)) -> b_delete k b = Some b' ->
  (exists p, b_at k b = Some p) /\
  (forall k', b_at k' b' = if ident k' k then None else b_at k' b) /\
  (exists e, Permutation (b_live b) (e :: b_live b')) /\
  pn (map fst (b_live b')).
Proof.
  revert b'; induction b as [|[[k1 v1]|] r IH]; intros b' Hpn; cbn [MapModel.b_delete MapModel.b_at]; [discriminate| |].
  - cbn [b_live map] in Hpn. inversion Hpn as [|? ? Hk1 Hpn']; subst.
    destruct (ident k k1) eqn:E.
    + intros H; inversion H; subst. split; [eauto|]. split; [|split; [exists (k1, v1); reflexivity|exact Hpn']].
      intros k'. cbn [MapModel.b_at].
      destruct (ident k' k) eqn:E2.
      * apply b_at_none_fresh. intros e He.
        assert (Hi : ident k1 (fst e) = false).
        { rewrite Forall_forall in Hk1. apply Hk1. now apply in_map. }
        assert (ident k' k1 = true) by (eapply ident_trans; eauto).
        rewrite ident_sym in H0. eapply ident_false_trans; eauto.
      * destruct (ident k' k1) eqn:E3; [|reflexivity].
        rewrite ident_sym in E. rewrite (ident_trans k' k1 k E3 E) in E2. discriminate.
    + destruct (b_delete k r) as [r'|] eqn:Ed; [|discriminate].
      intros H; inversion H; subst. destruct (IH _ Hpn' eq_refl) as (H1 & H2 & (e & H3) & H4).
      split; [exact H1|]. split; [|split].
      * intros k'. cbn [MapModel.b_at]. rewrite H2.
        destruct (ident k' k1) eqn:E1; [|reflexivity].
        destruct (ident k' k) eqn:E2; [|reflexivity].
        rewrite ident_sym in E2. rewrite (ident_trans k k' k1 E2 E1) in E. discriminate.
      * exists e. cbn [b_live]. rewrite H3. apply perm_swap.
      * cbn [b_live map]. constructor; [|exact H4].
        rewrite Forall_forall in *. intros x Hx. apply Hk1.
        apply in_map_iff in Hx as (y & <- & Hy). apply in_map.
        eapply Permutation_in; [symmetry; exact H3|now right].
  - destruct (b_delete k r) as [r'|] eqn:Ed; [|discriminate].
    intros H; inversion H; subst. cbn [b_live] in *.
    destruct (IH _ Hpn eq_refl) as (H1 & H2 & H3 & H4).
    split; [exact H1|]. split; [|split; assumption]. intros k'. cbn [MapModel.b_at]. apply H2.
Qed.

Lemma pn_perm l l' : Permutation l l' -> pn l -> pn l'.
Proof.
  unfold pn. induction 1 as [|x l l' Hp IH|x y l|l l' l'' H1 IH1 H2 IH2]; intros H.
  - exact H.
  - inversion H; subst. constructor; [|auto]. eapply Permutation_Forall; eauto.
  - inversion H as [|? ? Hy Hr]; subst. inversion Hr as [|? ? Hx Hr']; subst.
    inversion Hy; subst. constructor.
    + constructor; [rewrite ident_sym; assumption|assumption].
    + constructor; assumption.
  - auto.
Qed.

Lemma pn_cons_fresh k (b : bucket) :
  fresh_in k b -> pn (map fst (b_live b)) -> pn (k :: map fst (b_live b)).
Proof.
  intros Hf Hp. constructor; [|exact Hp]. rewrite Forall_forall. intros x Hx.
  apply in_map_iff in Hx as (e & <- & He). now apply Hf.
Qed.

(* ---------------- tables ---------------- *)
Notation tbl := (list (N * bucket)).

Lemma bfind_bput_same h b (t : tbl) : bfind h (bput h b t) = b.
Proof.
  induction t as [|[h' b'] t IH]; cbn [bput bfind]; [now rewrite N.eqb_refl|].
  destruct (N.eqb h h') eqn:E; cbn [bfind]; rewrite E; [reflexivity|exact IH].
Qed.

Lemma bfind_bput_other h h' b (t : tbl) : h' <> h -> bfind h' (bput h b t) = bfind h' t.
Proof.
  intros Hn. induction t as [|[h2 b2] t IH]; cbn [bput bfind].
  - apply N.eqb_neq in Hn. now rewrite Hn.
  - destruct (N.eqb_spec h h2) as [->|E]; cbn [bfind].
    + apply N.eqb_neq in Hn. now rewrite Hn.
    + now rewrite IH.
Qed.

Definition live_of (t : tbl) : list (K * V) := flat_map (fun hb => b_live (snd hb)) t.

Lemma live_bput h b (t : tbl) :
  Permutation (live_of (bput h b t) ++ b_live (bfind h t)) (live_of t ++ b_live b).
Proof.
  induction t as [|[h' b'] t IH]; cbn [bput bfind live_of flat_map snd].
  - rewrite !app_nil_r. reflexivity.
  - destruct (N.eqb h h') eqn:E; cbn [flat_map snd].
    + fold (live_of t). rewrite <- !app_assoc.
      rewrite (Permutation_app_comm (live_of t) (b_live b')).
      rewrite (Permutation_app_comm (live_of t) (b_live b)).
      rewrite !app_assoc. apply Permutation_app_tail. apply Permutation_app_comm.
    + fold (live_of t) (live_of (bput h b t)). rewrite <- !app_assoc.
      apply Permutation_app_head. exact IH.
Qed.

Lemma keys_bput h b (t : tbl) :
  NoDup (map fst t) -> NoDup (map fst (bput h b t)) /\
  (forall x, In x (map fst (bput h b t)) <-> x = h \/ In x (map fst t)).
Proof.
  induction t as [|[h' b'] t IH]; cbn [bput map fst]; intros Hnd.
  - split; [repeat constructor; intros []|]. intros x; cbn; intuition.
  - inversion Hnd as [|? ? Hni Hnd']; subst. destruct (N.eqb_spec h h') as [->|E]; cbn [map fst].
    + split; [exact Hnd|]. intros x; cbn; intuition.
    + destruct (IH Hnd') as [I1 I2]. split.
      * constructor; [|exact I1]. intros Hin. apply I2 in Hin as [->|Hin]; [congruence|contradiction].
      * intros x; cbn [In]. rewrite I2. intuition.
Qed.

(* ---------------- invariant ---------------- *)
Definition bucket_ok (h : N) (b : bucket) : Prop :=
  Forall (fun x => hash x = h) (map fst (b_live b)) /\ pn (map fst (b_live b)).

Definition tbl_ok (t : tbl) : Prop :=
  NoDup (map fst t) /\ Forall (fun hb => bucket_ok (fst hb) (snd hb)) t.

Definition Inv (m : tmap) : Prop :=
  match table m with
  | None => len m = 0%Z
  | Some t => tbl_ok t /\ len m = Z.of_nat (length (live_of t))
  end.

Lemma bfind_ok h (t : tbl) : tbl_ok t -> bucket_ok h (bfind h t).
Proof.
  intros [_ Hall]. induction t as [|[h' b'] t IH]; cbn [bfind].
  - split; constructor.
  - inversion Hall; subst. destruct (N.eqb_spec h h') as [->|E]; [assumption|auto].
Qed.

Lemma bput_ok h b (t : tbl) : tbl_ok t -> bucket_ok h b -> tbl_ok (bput h b t).
Proof.
  intros [Hnd Hall] Hb. split; [now apply keys_bput|].
  clear Hnd. induction t as [|[h' b'] t IH]; cbn [bput].
  - constructor; [exact Hb|constructor].
  - inversion Hall; subst. destruct (N.eqb_spec h h') as [->|E]; constructor; auto.
Qed.

Lemma Inv_empty : Inv (@empty K V).
Proof. reflexivity. Qed.

Lemma at_single k v k' :
  b_at k' (bfind (hash k') [(hash k, [Some (k, v)])]) = if ident k' k then Some v else None.
Proof.
  cbn [bfind]. destruct (N.eqb_spec (hash k') (hash k)) as [E|E]; cbn [MapModel.b_at].
  - destruct (ident k' k); reflexivity.
  - destruct (ident k' k) eqn:Ei; [|reflexivity]. apply hash_ident in Ei. congruence.
Qed.

Lemma at_bput k b' (t : tbl) k' :
  (forall x, b_at x b' = if ident x k then b_at k' b' else b_at x (bfind (hash k) t)) -> True.
Proof. auto. Qed.

(* generic step: replacing the bucket of hash k by b' where lookups in b' behave as [f] *)
Lemma m_at_bput (t : tbl) k b' (r : option V) :
  (forall k', b_at k' b' = if ident k' k then r else b_at k' (bfind (hash k) t)) ->
  forall k', b_at k' (bfind (hash k') (bput (hash k) b' t)) =
             if ident k' k then r else b_at k' (bfind (hash k') t).
Proof.
  intros H k'. destruct (N.eq_dec (hash k') (hash k)) as [E|E].
  - rewrite E, bfind_bput_same. apply H.
  - rewrite bfind_bput_other by exact E.
    destruct (ident k' k) eqn:Ei; [|reflexivity]. apply hash_ident in Ei. congruence.
Qed.

Lemma perm_len_bput (t : tbl) h b :
  length (live_of (bput h b t)) + length (b_live (bfind h t)) = length (live_of t) + length (b_live b).
Proof. rewrite <- !app_length. apply Permutation_length, live_bput. Qed.

Theorem m_set_spec m k v :
  Inv m ->
  Inv (fst (m_set m k v)) /\
  (forall k', m_at (fst (m_set m k v)) k' = if ident k' k then Some v else m_at m k') /\
  snd (m_set m k v) = m_at m k /\
  len (fst (m_set m k v)) = match m_at m k with Some _ => len m | None => (len m + 1)%Z end.
Proof.
  unfold Inv, MapModel.m_set, MapModel.m_at. destruct (table m) as [t|] eqn:Et.
  - intros [Hok Hlen].
    pose proof (bfind_ok (hash k) t Hok) as [Hh Hpn].
    destruct (b_update k v (bfind (hash k) t)) as [[p b']|] eqn:Eu; cbn [fst snd table len].
    + destruct (b_update_some _ _ _ _ _ Eu) as (H1 & H2 & H3).
      rewrite H1. split; [|split; [|split; reflexivity]].
      * split.
        -- apply bput_ok; [exact Hok|]. unfold bucket_ok. rewrite H3. now split.
        -- pose proof (perm_len_bput t (hash k) b') as Hl.
           assert (length (b_live b') = length (b_live (bfind (hash k) t))).
           { rewrite <- (map_length fst), H3, map_length. reflexivity. }
           lia.
      * apply m_at_bput. exact H2.
    + apply b_update_none in Eu. rewrite Eu. apply b_at_none_fresh in Eu.
      destruct (b_at_insert k v _ Eu) as [H1 H2].
      split; [|split; [|split; reflexivity]].
      * split.
        -- apply bput_ok; [exact Hok|]. unfold bucket_ok.
           apply (Permutation_map fst) in H2. cbn [map fst] in H2. split.
           ++ eapply Permutation_Forall; [symmetry; exact H2|]. constructor; [reflexivity|exact Hh].
           ++ eapply pn_perm; [symmetry; exact H2|]. now apply pn_cons_fresh.
        -- pose proof (perm_len_bput t (hash k) (b_insert (k, v) (bfind (hash k) t))) as Hl.
           apply Permutation_length in H2. cbn [length] in H2. lia.
      * apply m_at_bput. exact H1.
  - intros Hlen. cbn [fst snd table len]. split; [|split; [|split; reflexivity]].
    + split.
      * split; [repeat constructor; intros []|]. constructor; [|constructor].
        split; cbn; repeat constructor.
      * cbn. lia.
    + intros k'. apply at_single.
Qed.

Theorem m_delete_spec m k :
  Inv m ->
  Inv (fst (m_delete m k)) /\
  (forall k', m_at (fst (m_delete m k)) k' = if ident k' k then None else m_at m k') /\
  snd (m_delete m k) = (match m_at m k with Some _ => true | None => false end) /\
  len (fst (m_delete m k)) = match m_at m k with Some _ => (len m - 1)%Z | None => len m end.
Proof.
  unfold Inv, MapModel.m_delete, MapModel.m_at. destruct (table m) as [t|] eqn:Et.
  - intros [Hok Hlen].
    pose proof (bfind_ok (hash k) t Hok) as [Hh Hpn].
    destruct (b_delete k (bfind (hash k) t)) as [b'|] eqn:Ed; cbn [fst snd table len].
    + destruct (b_delete_some _ _ _ Hpn Ed) as ((p & H1) & H2 & (e & H3) & H4).
      rewrite H1. split; [|split; [|split; reflexivity]].
      * split.
        -- apply bput_ok; [exact Hok|]. split; [|exact H4].
           apply (Permutation_map fst) in H3. cbn [map] in H3.
           pose proof (Permutation_Forall H3 Hh) as Hf. now inversion Hf.
        -- pose proof (perm_len_bput t (hash k) b') as Hl.
           apply Permutation_length in H3. cbn [length] in H3. lia.
      * apply m_at_bput. exact H2.
    + apply b_delete_none in Ed. rewrite Ed, Et. split; [now split|]. split; [|split; reflexivity].
      intros k'. destruct (ident k' k) eqn:Ei; [|reflexivity].
      rewrite (hash_ident _ _ Ei). apply b_at_none_fresh.
      eapply fresh_ident; [apply b_at_none_fresh; exact Ed|exact Ei].
  - intros Hlen. cbn [fst snd]. rewrite Et. split; [exact Hlen|].
    split; [intros k'; destruct (ident k' k); reflexivity|split; reflexivity].
Qed.

(* ---------------- the reference ---------------- *)
Lemma r_set_spec l k v :
  (forall k', r_at (fst (r_set l k v)) k' = if ident k' k then Some v else r_at l k') /\
  snd (r_set l k v) = r_at l k /\
  length (fst (r_set l k v)) = match r_at l k with Some _ => length l | None => S (length l) end /\
  (pn (map fst l) -> pn (map fst (fst (r_set l k v)))) /\
  (forall x, In x (map fst (fst (r_set l k v))) -> x = k \/ In x (map fst l)).
Proof.
  induction l as [|[k1 v1] l IH]; cbn [MapModel.r_set MapModel.r_at].
  - cbn. split; [intros k'; destruct (ident k' k); reflexivity|].
    repeat split; auto; [intros _; repeat constructor|intros x [<-|[]]; now left].
  - destruct (ident k k1) eqn:E; cbn [fst snd length map].
    + split; [|repeat split; auto].
      intros k'. cbn [MapModel.r_at]. rewrite ident_sym in E.
      rewrite (ident_cong k1 k k' E). destruct (ident k' k); reflexivity.
    + destruct (r_set l k v) as [l' p] eqn:Er. cbn [fst snd] in *.
      destruct IH as (I1 & I2 & I3 & I4 & I5). cbn [fst snd length map].
      split; [|split; [exact I2|split; [|split]]].
      * intros k'. cbn [MapModel.r_at]. rewrite I1.
        destruct (ident k' k1) eqn:E1; [|reflexivity].
        destruct (ident k' k) eqn:E2; [|reflexivity].
        rewrite ident_sym in E2. rewrite (ident_trans k k' k1 E2 E1) in E. discriminate.
      * destruct (r_at l k); lia.
      * intros Hp. inversion Hp as [|? ? Hk1 Hp']; subst. constructor; [|apply I4; exact Hp'].
        rewrite Forall_forall in *. intros x Hx. apply I5 in Hx as [->|Hx]; [|auto].
        rewrite ident_sym. exact E.
      * intros x [<-|Hx]; [right; now left|]. apply I5 in Hx as [->|Hx]; [now left|right; now right].
Qed.

Lemma r_at_none_fresh l k : r_at l k = None <-> (forall x, In x (map fst l) -> ident k x = false).
Proof.
  induction l as [|[k1 v1] l IH]; cbn [MapModel.r_at map fst In].
  - split; [intros _ x []|reflexivity].
  - destruct (ident k k1) eqn:E.
    + split; [discriminate|]. intros H. rewrite (H k1 (or_introl eq_refl)) in E. discriminate.
    + rewrite IH. split; [intros H x [<-|Hx]; auto|intros H x Hx; apply H; now right].
Qed.

Lemma r_delete_spec l k :
  pn (map fst l) ->
  (forall k', r_at (fst (r_delete l k)) k' = if ident k' k then None else r_at l k') /\
  snd (r_delete l k) = (match r_at l k with Some _ => true | None => false end) /\
  Z.of_nat (length (fst (r_delete l k))) =
    match r_at l k with Some _ => (Z.of_nat (length l) - 1)%Z | None => Z.of_nat (length l) end /\
  pn (map fst (fst (r_delete l k))) /\
  (forall x, In x (map fst (fst (r_delete l k))) -> In x (map fst l)).
Proof.
  induction l as [|[k1 v1] l IH]; cbn [MapModel.r_delete MapModel.r_at]; intros Hp.
  - cbn. repeat split; auto. intros k'; destruct (ident k' k); reflexivity.
  - cbn [map fst] in Hp. inversion Hp as [|? ? Hk1 Hp']; subst.
    destruct (ident k k1) eqn:E; cbn [fst snd length map].
    + split; [|split; [reflexivity|split; [lia|split; [exact Hp'|intros x Hx; now right]]]].
      intros k'. destruct (ident k' k) eqn:E2.
      * apply r_at_none_fresh. intros x Hx. rewrite Forall_forall in Hk1.
        assert (ident k' k1 = true) by (eapply ident_trans; eauto).
        rewrite ident_sym in H. eapply ident_false_trans; eauto.
      * destruct (ident k' k1) eqn:E3; [|reflexivity].
        rewrite ident_sym in E. rewrite (ident_trans k' k1 k E3 E) in E2. discriminate.
    + destruct (r_delete l k) as [l' d] eqn:Er. cbn [fst snd] in *.
      destruct (IH Hp') as (I1 & I2 & I3 & I4 & I5). cbn [fst snd length map].
      split; [|split; [exact I2|split; [|split]]].
      * intros k'. cbn [MapModel.r_at]. rewrite I1.
        destruct (ident k' k1) eqn:E1; [|reflexivity].
        destruct (ident k' k) eqn:E2; [|reflexivity].
        rewrite ident_sym in E2. rewrite (ident_trans k k' k1 E2 E1) in E. discriminate.
      * destruct (r_at l k); lia.
      * constructor; [|exact I4]. rewrite Forall_forall in *. intros x Hx. apply Hk1, I5, Hx.
      * intros x [<-|Hx]; [now left|right; auto].
Qed.

(* ---------------- keys ---------------- *)
Lemma b_at_live (b : bucket) e : In e (b_live b) -> b_at (fst e) b <> None.
Proof.
  intros He Hn. apply b_at_none_fresh in Hn. specialize (Hn e He). rewrite ident_refl in Hn. discriminate.
Qed.

Lemma b_at_some_live k (b : bucket) v :
  b_at k b = Some v -> exists e, In e (b_live b) /\ ident k (fst e) = true.
Proof.
  induction b as [|[[k1 v1]|] r IH]; cbn [MapModel.b_at b_live]; [discriminate| |].
  - destruct (ident k k1) eqn:E.
    + intros _. exists (k1, v1). split; [now left|exact E].
    + intros H. destruct (IH H) as (e & He & Hi). exists e. split; [now right|exact Hi].
  - exact IH.
Qed.

Lemma bfind_in h b (t : tbl) : NoDup (map fst t) -> In (h, b) t -> bfind h t = b.
Proof.
  induction t as [|[h' b'] t IH]; cbn [map fst bfind]; intros Hnd Hin; [destruct Hin|].
  destruct Hin as [Hin|Hin].
  - inversion Hin; subst. now rewrite N.eqb_refl.
  - inversion Hnd as [|? ? Hni Hnd']; subst. destruct (N.eqb_spec h h') as [->|E]; [|auto].
    exfalso. apply Hni. change h' with (fst (h', b)). now apply in_map.
Qed.

Lemma bfind_live_incl h (t : tbl) e : In e (b_live (bfind h t)) -> In e (live_of t).
Proof.
  induction t as [|[h' b'] t IH]; cbn [bfind live_of flat_map snd]; [intros []|].
  intros H. apply in_or_app. destruct (N.eqb h h'); [now left|right; now apply IH].
Qed.

Lemma m_keys_found m k0 : Inv m -> In k0 (m_keys m) -> m_at m k0 <> None.
Proof.
  unfold Inv, m_keys, m_entries, MapModel.m_at. destruct (table m) as [t|]; [|intros _ []].
  intros [[Hnd Hall] _] Hin. apply in_map_iff in Hin as ((k1 & v1) & <- & Hin). cbn [fst].
  fold (live_of t) in Hin. unfold live_of in Hin. apply in_flat_map in Hin as ((h & b) & Ht & Hb).
  cbn [snd] in Hb. rewrite Forall_forall in Hall. destruct (Hall _ Ht) as [Hh _]. cbn [fst snd] in Hh.
  rewrite Forall_forall in Hh. rewrite (Hh k1) by (change k1 with (fst (k1, v1)); now apply in_map).
  rewrite (bfind_in _ _ _ Hnd Ht). apply (b_at_live b (k1, v1) Hb).
Qed.

Lemma m_at_has_key m k v : m_at m k = Some v -> exists k0, In k0 (m_keys m) /\ ident k k0 = true.
Proof.
  unfold m_keys, m_entries, MapModel.m_at. destruct (table m) as [t|]; [|discriminate].
  intros H. apply b_at_some_live in H as (e & He & Hi). exists (fst e). split; [|exact Hi].
  apply in_map. fold (live_of t). eapply bfind_live_incl; eauto.
Qed.

Lemma r_keys_found (l : @rmap K V) k0 : In k0 (map fst l) -> r_at l k0 <> None.
Proof.
  intros Hin Hn. rewrite r_at_none_fresh in Hn. specialize (Hn _ Hin). rewrite ident_refl in Hn. discriminate.
Qed.

Lemma r_at_has_key (l : @rmap K V) k v : r_at l k = Some v -> exists k0, In k0 (map fst l) /\ ident k k0 = true.
Proof.
  induction l as [|[k1 v1] l IH]; cbn [MapModel.r_at map fst In]; [discriminate|].
  destruct (ident k k1) eqn:E.
  - intros _. exists k1. auto.
  - intros H. destruct (IH H) as (k0 & H1 & H2). exists k0. auto.
Qed.

(* ---------------- refinement over histories ---------------- *)
Definition keys_agree (a b : list K) : Prop :=
  length a = length b /\
  (forall x, In x a -> exists y, In y b /\ ident x y = true) /\
  (forall y, In y b -> exists x, In x a /\ ident y x = true).

Definition res_agree (x y : @mres K V) : Prop :=
  match x, y with
  | RKeys a, RKeys b => keys_agree a b
  | _, _ => x = y
  end.

Definition agree (m : tmap) (l : @rmap K V) : Prop :=
  Inv m /\ pn (map fst l) /\ (forall k, m_at m k = r_at l k) /\ len m = Z.of_nat (length l).

Lemma agree_keys m l : agree m l -> keys_agree (m_keys m) (map fst l).
Proof.
  intros (Hi & Hp & Ha & Hl). split; [|split].
  - assert (Z.of_nat (length (m_keys m)) = len m).
    { unfold m_keys, m_entries. rewrite map_length. unfold Inv in Hi.
      destruct (table m); [destruct Hi as [_ ->]; reflexivity|cbn; lia]. }
    rewrite map_length in *. lia.
  - intros x Hx. pose proof (m_keys_found m x Hi Hx) as Hn. rewrite Ha in Hn.
    destruct (r_at l x) eqn:E; [|congruence]. apply r_at_has_key in E. exact E.
  - intros y Hy. pose proof (r_keys_found l y Hy) as Hn. rewrite <- Ha in Hn.
    destruct (m_at m y) eqn:E; [|congruence]. apply m_at_has_key in E. exact E.
Qed.

Lemma step_agree m l o :
  agree m l ->
  agree (fst (m_step hash ident m o)) (fst (r_step ident l o)) /\
  res_agree (snd (m_step hash ident m o)) (snd (r_step ident l o)).
Proof.
  intros Hag. pose proof Hag as (Hi & Hp & Ha & Hl). destruct o as [k v|k|k| |]; cbn [m_step r_step].
  - destruct (m_set_spec m k v Hi) as (S1 & S2 & S3 & S4).
    destruct (r_set_spec l k v) as (R1 & R2 & R3 & R4 & _).
    destruct (MapModel.m_set hash ident m k v) as [m' p]; destruct (MapModel.r_set ident l k v) as [l' q].
    cbn [fst snd] in *. split.
    + split; [exact S1|]. split; [auto|]. split.
      * intros k'. rewrite S2, R1, Ha. reflexivity.
      * rewrite S4, R3, Ha, Hl. destruct (r_at l k); lia.
    + cbn. rewrite S3, R2, Ha. reflexivity.
  - destruct (m_delete_spec m k Hi) as (S1 & S2 & S3 & S4).
    destruct (r_delete_spec l k Hp) as (R1 & R2 & R3 & R4 & _).
    destruct (MapModel.m_delete hash ident m k) as [m' p]; destruct (MapModel.r_delete ident l k) as [l' q].
    cbn [fst snd] in *. split.
    + split; [exact S1|]. split; [exact R4|]. split.
      * intros k'. rewrite S2, R1, Ha. reflexivity.
      * rewrite S4, R3, Ha, Hl. reflexivity.
    + cbn. rewrite S3, R2, Ha. reflexivity.
  - cbn [fst snd]. split; [exact Hag|]. cbn. now rewrite Ha.
  - cbn [fst snd]. split; [exact Hag|]. cbn. now rewrite Hl.
  - cbn [fst snd]. split; [exact Hag|]. cbn. now apply agree_keys.
Qed.

Theorem run_refines ops :
  forall m l, agree m l ->
    Forall2 res_agree (snd (m_run hash ident m ops)) (snd (r_run ident l ops)) /\
    agree (fst (m_run hash ident m ops)) (fst (r_run ident l ops)).
Proof.
  induction ops as [|o ops IH]; intros m l Hag; cbn [m_run r_run].
  - split; [constructor|exact Hag].
  - destruct (step_agree m l o Hag) as [H1 H2].
    destruct (m_step hash ident m o) as [m' x]; destruct (r_step ident l o) as [l' y]. cbn [fst snd] in *.
    destruct (IH m' l' H1) as [H3 H4].
    destruct (m_run hash ident m' ops) as [m'' xs]; destruct (r_run ident l' ops) as [l'' ys]. cbn [fst snd] in *.
    split; [constructor; assumption|exact H4].
Qed.

Lemma agree_empty : agree (@empty K V) [].
Proof. split; [reflexivity|]. split; [constructor|]. split; [reflexivity|reflexivity]. Qed.

Theorem histories_refine ops :
  Forall2 res_agree (snd (m_run hash ident empty ops)) (snd (r_run ident [] ops)).
Proof. apply run_refines, agree_empty. Qed.

End Proofs.
