(* C19 — executable model of typeutil.Map (typeutil/map.go): buckets of
   entries keyed by a 32-bit hash, deleted entries left as holes (tombstones),
   the last hole of a bucket reused by Set, no compaction; and the reference
   object: an association list compared with the identity relation. *)
From Coq Require Import List NArith ZArith Bool Lia.
Import ListNotations.

Section TypeMap.
Context {K V : Type}.
Variable hash : K -> N.
Variable ident : K -> K -> bool.

Definition bucket := list (option (K * V)).
(* table = None is Go's nil table (zero Map) *)
Record tmap := mkMap { table : option (list (N * bucket)); len : Z }.
Definition empty : tmap := mkMap None 0.

Fixpoint bfind (h : N) (t : list (N * bucket)) : bucket :=
  match t with
  | [] => []
  | (h', b) :: r => if N.eqb h h' then b else bfind h r
  end.
Fixpoint bput (h : N) (b : bucket) (t : list (N * bucket)) : list (N * bucket) :=
  match t with
  | [] => [(h, b)]
  | (h', b') :: r => if N.eqb h h' then (h', b) :: r else (h', b') :: bput h b r
  end.

(* for _, e := range bucket { if e.key != nil && Identical(key, e.key) ... } *)
Fixpoint b_at (k : K) (b : bucket) : option V :=
  match b with
  | [] => None
  | Some (k', v) :: r => if ident k k' then Some v else b_at k r
  | None :: r => b_at k r
  end.

(* Delete: first live identical entry becomes a hole *)
Fixpoint b_delete (k : K) (b : bucket) : option bucket :=
  match b with
  | [] => None
  | Some (k', v) :: r =>
      if ident k k' then Some (None :: r)
      else match b_delete k r with Some r' => Some (Some (k', v) :: r') | None => None end
  | None :: r => match b_delete k r with Some r' => Some (None :: r') | None => None end
  end.

(* Set, first half: update the value of the first live identical entry *)
Fixpoint b_update (k : K) (v : V) (b : bucket) : option (V * bucket) :=
  match b with
  | [] => None
  | Some (k', v') :: r =>
      if ident k k' then Some (v', Some (k', v) :: r)
      else match b_update k v r with Some (p, r') => Some (p, Some (k', v') :: r') | None => None end
  | None :: r => match b_update k v r with Some (p, r') => Some (p, None :: r') | None => None end
  end.

(* Set, second half: `hole` is the LAST hole seen by the loop; else append *)
Fixpoint has_hole (b : bucket) : bool :=
  match b with [] => false | None :: _ => true | Some _ :: r => has_hole r end.
Fixpoint b_fill_last (e : K * V) (b : bucket) : bucket :=
  match b with
  | [] => []
  | None :: r => if has_hole r then None :: b_fill_last e r else Some e :: r
  | Some x :: r => Some x :: b_fill_last e r
  end.
Definition b_insert (e : K * V) (b : bucket) : bucket :=
  if has_hole b then b_fill_last e b else b ++ [Some e].

Definition m_at (m : tmap) (k : K) : option V :=
  match table m with
  | None => None
  | Some t => b_at k (bfind (hash k) t)
  end.

Definition m_delete (m : tmap) (k : K) : tmap * bool :=
  match table m with
  | None => (m, false)
  | Some t =>
    match b_delete k (bfind (hash k) t) with
    | Some b' => (mkMap (Some (bput (hash k) b' t)) (len m - 1), true)
    | None => (m, false)
    end
  end.

Definition m_set (m : tmap) (k : K) (v : V) : tmap * option V :=
  match table m with
  | None => (mkMap (Some [(hash k, [Some (k, v)])]) (len m + 1), None)
  | Some t =>
    let b := bfind (hash k) t in
    match b_update k v b with
    | Some (prev, b') => (mkMap (Some (bput (hash k) b' t)) (len m), Some prev)
    | None => (mkMap (Some (bput (hash k) (b_insert (k, v) b) t)) (len m + 1), None)
    end
  end.

Fixpoint b_live (b : bucket) : list (K * V) :=
  match b with
  | [] => []
  | Some e :: r => e :: b_live r
  | None :: r => b_live r
  end.
(* Iterate / Keys: bucket order is Go's map order, i.e. unspecified; the model
   lists buckets in table order and theorems speak about membership only *)
Definition m_entries (m : tmap) : list (K * V) :=
  match table m with
  | None => []
  | Some t => flat_map (fun hb => b_live (snd hb)) t
  end.
Definition m_keys (m : tmap) : list K := map fst (m_entries m).

(* ---------- reference: association list under `ident` ---------- *)
Definition rmap := list (K * V).
Fixpoint r_at (l : rmap) (k : K) : option V :=
  match l with
  | [] => None
  | (k', v) :: r => if ident k k' then Some v else r_at r k
  end.
Fixpoint r_set (l : rmap) (k : K) (v : V) : rmap * option V :=
  match l with
  | [] => ([(k, v)], None)
  | (k', v') :: r =>
      if ident k k' then ((k', v) :: r, Some v')
      else let '(r', p) := r_set r k v in ((k', v') :: r', p)
  end.
Fixpoint r_delete (l : rmap) (k : K) : rmap * bool :=
  match l with
  | [] => ([], false)
  | (k', v') :: r =>
      if ident k k' then (r, true)
      else let '(r', d) := r_delete r k in ((k', v') :: r', d)
  end.

(* ---------- operations, results, histories ---------- *)
Inductive mop := MSet (k : K) (v : V) | MDelete (k : K) | MAt (k : K) | MLen | MKeys.
Inductive mres := RPrev (p : option V) | RDel (b : bool) | RVal (v : option V) | RLen (n : Z)
                | RKeys (ks : list K).

Definition m_step (m : tmap) (o : mop) : tmap * mres :=
  match o with
  | MSet k v => let '(m', p) := m_set m k v in (m', RPrev p)
  | MDelete k => let '(m', d) := m_delete m k in (m', RDel d)
  | MAt k => (m, RVal (m_at m k))
  | MLen => (m, RLen (len m))
  | MKeys => (m, RKeys (m_keys m))
  end.
Definition r_step (l : rmap) (o : mop) : rmap * mres :=
  match o with
  | MSet k v => let '(l', p) := r_set l k v in (l', RPrev p)
  | MDelete k => let '(l', d) := r_delete l k in (l', RDel d)
  | MAt k => (l, RVal (r_at l k))
  | MLen => (l, RLen (Z.of_nat (length l)))
  | MKeys => (l, RKeys (map fst l))
  end.

Fixpoint m_run (m : tmap) (ops : list mop) : tmap * list mres :=
  match ops with
  | [] => (m, [])
  | o :: r => let '(m', x) := m_step m o in let '(m'', xs) := m_run m' r in (m'', x :: xs)
  end.
Fixpoint r_run (l : rmap) (ops : list mop) : rmap * list mres :=
  match ops with
  | [] => (l, [])
  | o :: r => let '(l', x) := r_step l o in let '(l'', xs) := r_run l' r in (l'', x :: xs)
  end.

End TypeMap.

Arguments mkMap {K V}.
Arguments empty {K V}.
