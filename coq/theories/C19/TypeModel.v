(* C19 — go/types types as the hasher and types.Identical see them, the
   transcription of typeutil.Hasher (hash / shallowHash / hashTuple /
   hashTermSet / hashTypeParam / hashString, all integer constants from the
   regenerated tables) and of types.Identical on the same syntax. *)
From Coq Require Import List NArith ZArith Bool Lia.
From GV Require Import Lib.Bytes.
From GVGen Require Import Tables.
Import ListNotations.
Local Open Scope N_scope.

Inductive ty :=
| TBasic (k : N)
| TArray (n : Z) (e : ty)
| TSlice (e : ty)
| TPtr (e : ty)
| TMap (k e : ty)
| TChan (dir : N) (e : ty)
| TStruct (fs : fields)
| TSig (variadic : bool) (tpcons : tys) (params results : tys)
| TIface (ms : methods) (ts : termset)
| TUnion (ts : termset)
| TNamed (obj : N) (targs : tys)
| TParam (obj : N) (idx : N)
| TTuple (l : tys)
with tys := TNil | TCons (t : ty) (r : tys)
with fields := FNil | FCons (name : str) (pkg : N) (emb : bool) (tag : str) (t : ty) (r : fields)
with methods := MNil | MCons (name : str) (pkg : N) (t : ty) (r : methods)
with termset := TSErr | TSAll | TSTerms (l : terms)
with terms := TmNil | TmCons (tilde : bool) (t : ty) (r : terms).

Definition w32 (x : N) : N := x mod 4294967296.
Definition w32z (z : Z) : N := Z.to_N (z mod 4294967296).

(* hashString: FNV-style over the bytes *)
Definition hash_string (s : str) : N :=
  fold_left (fun h c => w32 (N.lxor h c * hs_mul)) s 0.

Definition is_nil (l : tys) : bool := match l with TNil => true | _ => false end.
(* h.inGenericSig: switched on by a signature with type parameters *)
Definition gmode (g : bool) (tp : tys) : bool := match tp with TNil => g | _ => true end.

Fixpoint tys_len (l : tys) : N := match l with TNil => 0 | TCons _ r => 1 + tys_len r end.
Fixpoint terms_len (l : terms) : N := match l with TmNil => 0 | TmCons _ _ r => 1 + terms_len r end.

Section Hash.
Variable ptr : N -> N.   (* hashTypeName: pointer hash of a *types.TypeName *)

Definition hash_tparam (g : bool) (obj idx : N) : N :=
  if g then w32 (c_tparam + 3 * idx) else ptr obj.

(* shallowHash *)
Fixpoint shallow (g : bool) (t : ty) : N :=
  match t with
  | TSig v _ ps rs =>
      w32 ((if v then w32 (sh_sig * sh_sig_var) else sh_sig)
           + sh_sig_p * w32 (sh_tuple_b + 2 * tys_len ps + shallow_tys g ps)
           + sh_sig_r * w32 (sh_tuple_b + 2 * tys_len rs + shallow_tys g rs))
  | TTuple l => w32 (sh_tuple_b + 2 * tys_len l + shallow_tys g l)
  | TBasic k => w32 (sh_basic * k)
  | TArray n _ => w32 (sh_array + 2 * w32z n)
  | TSlice _ => sh_slice
  | TStruct _ => sh_struct
  | TPtr _ => sh_ptr
  | TUnion _ => sh_union
  | TIface _ _ => sh_iface
  | TMap _ _ => sh_map
  | TChan _ _ => sh_chan
  | TNamed obj _ => ptr obj
  | TParam obj idx => hash_tparam g obj idx
  end
with shallow_tys (g : bool) (l : tys) : N :=
  match l with
  | TNil => 0
  | TCons t r => w32 (sh_tuple_e * shallow g t + shallow_tys g r)
  end.

Fixpoint hash (g : bool) (t : ty) : N :=
  match t with
  | TBasic k => w32 k
  | TArray n e => w32 (c_array + 2 * w32z n + 3 * hash g e)
  | TSlice e => w32 (c_slice + 2 * hash g e)
  | TPtr e => w32 (c_ptr + 2 * hash g e)
  | TMap k e => w32 (c_map + 2 * hash g k + 3 * hash g e)
  | TChan d e => w32 (c_chan + 2 * d + 3 * hash g e)
  | TStruct fs => w32 (c_struct + hash_fields g fs)
  | TSig v tp ps rs =>
      let g' := gmode g tp in
      w32 ((if v then w32 (c_sig * c_sig_var) else c_sig)
           + 7 * hash_sum g' tp
           + 3 * w32 (c_tuple + 2 * tys_len ps + 3 * hash_sum g' ps)
           + 5 * w32 (c_tuple + 2 * tys_len rs + 3 * hash_sum g' rs))
  | TIface ms ts =>
      w32 (c_iface + hash_methods g ms
           + match ts with
             | TSTerms l => w32 (c_termset + 2 * terms_len l + 3 * hash_terms g l)
             | TSAll => w32 c_termset
             | TSErr => 0
             end)
  | TUnion ts =>
      match ts with
      | TSErr => c_union_err
      | TSAll => w32 c_termset
      | TSTerms l => w32 (c_termset + 2 * terms_len l + 3 * hash_terms g l)
      end
  | TNamed obj targs => w32 (ptr obj + 2 * hash_sum g targs)
  | TParam obj idx => hash_tparam g obj idx
  | TTuple l => w32 (c_tuple + 2 * tys_len l + 3 * hash_sum g l)
  end
with hash_sum (g : bool) (l : tys) : N :=       (* plain sum of element hashes *)
  match l with TNil => 0 | TCons t r => w32 (hash g t + hash_sum g r) end
with hash_fields (g : bool) (fs : fields) : N :=
  match fs with
  | FNil => 0
  | FCons name _ emb tag t r =>
      w32 ((if emb then c_embedded else 0) + hash_string tag + hash_string name + hash g t
           + hash_fields g r)
  end
with hash_methods (g : bool) (ms : methods) : N :=
  match ms with
  | MNil => 0
  | MCons name _ t r => w32 (3 * hash_string name + 5 * shallow g t + hash_methods g r)
  end
with hash_terms (g : bool) (l : terms) : N :=
  match l with
  | TmNil => 0
  | TmCons tilde t r => w32 ((if tilde then w32 (hash g t * c_tilde) else hash g t) + hash_terms g r)
  end.

End Hash.

(* ---------- types.Identical on the same syntax ---------- *)
Definition name_eqb (n1 : str) (p1 : N) (n2 : str) (p2 : N) : bool :=
  str_eqb n1 n2 && N.eqb p1 p2.   (* pkg id 0 = exported name *)

Fixpoint ident (g : bool) (a b : ty) {struct a} : bool :=
  match a, b with
  | TBasic k1, TBasic k2 => N.eqb k1 k2
  | TArray n1 e1, TArray n2 e2 => Z.eqb n1 n2 && ident g e1 e2
  | TSlice e1, TSlice e2 => ident g e1 e2
  | TPtr e1, TPtr e2 => ident g e1 e2
  | TMap k1 e1, TMap k2 e2 => ident g k1 k2 && ident g e1 e2
  | TChan d1 e1, TChan d2 e2 => N.eqb d1 d2 && ident g e1 e2
  | TStruct f1, TStruct f2 => ident_fields g f1 f2
  | TSig v1 tp1 p1 r1, TSig v2 tp2 p2 r2 =>
      let g' := gmode g tp1 in
      Bool.eqb v1 v2 && ident_tys g' tp1 tp2 && ident_tys g' p1 p2 && ident_tys g' r1 r2
  | TIface m1 t1, TIface m2 t2 => ident_methods g m1 m2 && ident_termset g t1 t2
  | TUnion t1, TUnion t2 => ident_termset g t1 t2
  | TNamed o1 a1, TNamed o2 a2 => N.eqb o1 o2 && ident_tys g a1 a2
  | TParam o1 i1, TParam o2 i2 => if g then N.eqb i1 i2 else N.eqb o1 o2
  | TTuple l1, TTuple l2 => ident_tys g l1 l2
  | _, _ => false
  end
with ident_tys (g : bool) (a b : tys) {struct a} : bool :=
  match a, b with
  | TNil, TNil => true
  | TCons t1 r1, TCons t2 r2 => ident g t1 t2 && ident_tys g r1 r2
  | _, _ => false
  end
with ident_fields (g : bool) (a b : fields) {struct a} : bool :=
  match a, b with
  | FNil, FNil => true
  | FCons n1 p1 e1 tg1 t1 r1, FCons n2 p2 e2 tg2 t2 r2 =>
      name_eqb n1 p1 n2 p2 && Bool.eqb e1 e2 && str_eqb tg1 tg2 && ident g t1 t2 && ident_fields g r1 r2
  | _, _ => false
  end
with ident_methods (g : bool) (a b : methods) {struct a} : bool :=
  match a, b with
  | MNil, MNil => true
  | MCons n1 p1 t1 r1, MCons n2 p2 t2 r2 => name_eqb n1 p1 n2 p2 && ident g t1 t2 && ident_methods g r1 r2
  | _, _ => false
  end
with ident_termset (g : bool) (a b : termset) {struct a} : bool :=
  match a, b with
  | TSErr, TSErr => true
  | TSAll, TSAll => true
  | TSTerms l1, TSTerms l2 => ident_terms g l1 l2
  | _, _ => false
  end
with ident_terms (g : bool) (a b : terms) {struct a} : bool :=   (* same terms in the same order *)
  match a, b with
  | TmNil, TmNil => true
  | TmCons x1 t1 r1, TmCons x2 t2 r2 => Bool.eqb x1 x2 && ident g t1 t2 && ident_terms g r1 r2
  | _, _ => false
  end.

(* lookup table for the pointer hashes observed by the harness *)
Fixpoint ptr_of (tbl : list (N * N)) (o : N) : N :=
  match tbl with [] => 0 | (o', h) :: r => if N.eqb o o' then h else ptr_of r o end.

(* Go admits type parameters only on the signature of a declared function, never
   on a function type nested inside another type: [inner] = no generic signature
   anywhere; [wf_top] = a generic signature at most at the root. *)
Fixpoint inner (t : ty) : bool :=
  match t with
  | TBasic _ | TParam _ _ => true
  | TArray _ e | TSlice e | TPtr e | TChan _ e => inner e
  | TMap k e => inner k && inner e
  | TStruct fs => inner_fields fs
  | TSig _ tp ps rs => is_nil tp && inner_tys ps && inner_tys rs
  | TIface ms ts => inner_methods ms && inner_termset ts
  | TUnion ts => inner_termset ts
  | TNamed _ l | TTuple l => inner_tys l
  end
with inner_tys (l : tys) : bool :=
  match l with TNil => true | TCons t r => inner t && inner_tys r end
with inner_fields (l : fields) : bool :=
  match l with FNil => true | FCons _ _ _ _ t r => inner t && inner_fields r end
with inner_methods (l : methods) : bool :=
  match l with MNil => true | MCons _ _ t r => inner t && inner_methods r end
with inner_termset (s : termset) : bool :=
  match s with TSTerms l => inner_terms l | _ => true end
with inner_terms (l : terms) : bool :=
  match l with TmNil => true | TmCons _ t r => inner t && inner_terms r end.

Definition wf_top (t : ty) : bool :=
  match t with
  | TSig _ tp ps rs => inner_tys tp && inner_tys ps && inner_tys rs
  | _ => inner t
  end.
