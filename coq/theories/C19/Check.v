(* C19 — correspondence checker evaluated by vm_compute on harness cases. *)
From Coq Require Import List NArith ZArith Bool.
From GV Require Import Lib.Bytes C19.TypeModel C19.MapModel.
Import ListNotations.

(* observed results of the real typeutil.Map; keys are pool indices *)
Inductive ores := OPrev (p : option nat) | ODel (b : bool) | OVal (v : option nat) | OLen (n : Z)
                | OKeys (ks : list nat).

Record pool_case := mkPool {
  pc_types : list ty;
  pc_ptr : list (N * N);                 (* object id -> observed hashTypeName *)
  pc_hashes : list N;                    (* observed Hasher.Hash per pool index *)
  pc_ident : list (list bool);           (* observed types.Identical matrix *)
  pc_hists : list (list (mop (K:=nat) (V:=nat) * ores))
}.

Definition nth_ty (p : list ty) (i : nat) : ty := nth i p (TBasic 0).

Fixpoint insert_sorted (x : nat) (l : list nat) : list nat :=
  match l with [] => [x] | y :: r => if Nat.leb x y then x :: l else y :: insert_sorted x r end.
Definition sort_nat (l : list nat) : list nat := fold_right insert_sorted [] l.
Fixpoint list_eqb (a b : list nat) : bool :=
  match a, b with [] , [] => true | x :: a', y :: b' => Nat.eqb x y && list_eqb a' b' | _, _ => false end.
Definition opt_eqb (a b : option nat) : bool :=
  match a, b with None, None => true | Some x, Some y => Nat.eqb x y | _, _ => false end.

Definition res_ok (m : mres (K:=nat) (V:=nat)) (o : ores) : bool :=
  match m, o with
  | RPrev p, OPrev q => opt_eqb p q
  | RDel b, ODel c => Bool.eqb b c
  | RVal v, OVal w => opt_eqb v w
  | RLen n, OLen k => Z.eqb n k
  | RKeys ks, OKeys js => list_eqb (sort_nat ks) (sort_nat js)
  | _, _ => false
  end.

Section WithPool.
Variable pc : pool_case.
Let ptr := ptr_of (pc_ptr pc).
Let h (i : nat) : N := hash ptr false (nth_ty (pc_types pc) i).
Let idt (i j : nat) : bool := ident false (nth_ty (pc_types pc) i) (nth_ty (pc_types pc) j).

Fixpoint hist_bad (i : nat) (m : tmap (K:=nat) (V:=nat)) (l : list (mop (K:=nat) (V:=nat) * ores)) : option nat :=
  match l with
  | [] => None
  | (o, r) :: rest =>
    let '(m', x) := m_step h idt m o in
    if res_ok x r then hist_bad (S i) m' rest else Some i
  end.

Fixpoint hash_bad (i : nat) (ts : list ty) (hs : list N) : list N :=
  match ts, hs with
  | t :: ts', x :: hs' => (if N.eqb (hash ptr false t) x then [] else [N.of_nat i]) ++ hash_bad (S i) ts' hs'
  | _, _ => []
  end.

Fixpoint row_bad (i j : nat) (a : ty) (ts : list ty) (row : list bool) : list N :=
  match ts, row with
  | b :: ts', x :: row' => (if Bool.eqb (ident false a b) x then [] else [(N.of_nat i * 1000 + N.of_nat j)%N]) ++ row_bad i (S j) a ts' row'
  | _, _ => []
  end.
Fixpoint ident_bad (i : nat) (ts : list ty) (rows : list (list bool)) : list N :=
  match ts, rows with
  | a :: ts', row :: rows' => row_bad i 0 a (pc_types pc) row ++ ident_bad (S i) ts' rows'
  | _, _ => []
  end.

Fixpoint hists_bad (i : nat) (hs : list (list (mop (K:=nat) (V:=nat) * ores))) : list N :=
  match hs with
  | [] => []
  | hh :: r => match hist_bad 0 empty hh with Some j => [(N.of_nat i * 10000 + N.of_nat j)%N] | None => [] end ++ hists_bad (S i) r
  end.
End WithPool.

Definition tag (i : nat) (l : list N) : list (nat * N) := map (fun x => (i, x)) l.
Fixpoint collect (f : pool_case -> list N) (i : nat) (cs : list pool_case) : list (nat * N) :=
  match cs with [] => [] | c :: r => tag i (f c) ++ collect f (S i) r end.

(* K1: hash of every pool type; K2: identity matrix; K1: every map history *)
Definition k1_hash (cs : list pool_case) := collect (fun c => hash_bad c 0 (pc_types c) (pc_hashes c)) 0 cs.
Definition k2_ident (cs : list pool_case) := collect (fun c => ident_bad c 0 (pc_types c) (pc_ident c)) 0 cs.
Definition k1_hist (cs : list pool_case) := collect (fun c => hists_bad c 0 (pc_hists c)) 0 cs.

(* well-formedness of every pool type (hypothesis of the hash theorem): indices that are not wf_top *)
Fixpoint wf_bad (i : nat) (ts : list ty) : list N :=
  match ts with [] => [] | t :: r => (if wf_top t then [] else [N.of_nat i]) ++ wf_bad (S i) r end.
Definition k_wf (cs : list pool_case) := collect (fun c => wf_bad 0 (pc_types c)) 0 cs.
