(* C19 — the model of types.Identical is an equivalence relation. *)
From Coq Require Import List NArith ZArith Bool Lia.
From GV Require Import Lib.Bytes C19.TypeModel C19.HashProofs.
Import ListNotations.

Ltac split_andb :=
  repeat match goal with
         | H : (_ && _)%bool = true |- _ => apply andb_prop in H; destruct H
         end.

Lemma name_eqb_refl n p : name_eqb n p n p = true.
Proof. unfold name_eqb. now rewrite str_eqb_refl, N.eqb_refl. Qed.

Lemma ident_refl_all :
  (forall a g, ident g a a = true) /\ (forall a g, ident_tys g a a = true) /\
  (forall a g, ident_fields g a a = true) /\ (forall a g, ident_methods g a a = true) /\
  (forall a g, ident_termset g a a = true) /\ (forall a g, ident_terms g a a = true).
Proof.
  apply ty_mutind; intros;
    cbn [ident ident_tys ident_fields ident_methods ident_termset ident_terms];
    rewrite ?N.eqb_refl, ?Z.eqb_refl, ?eqb_reflx, ?str_eqb_refl, ?name_eqb_refl;
    repeat match goal with H : forall g, _ = true |- _ => rewrite H; clear H end;
    try reflexivity.
  destruct g; reflexivity.
Qed.

Lemma name_eqb_sym n1 p1 n2 p2 : name_eqb n1 p1 n2 p2 = true -> name_eqb n2 p2 n1 p1 = true.
Proof.
  unfold name_eqb. intros H. apply andb_prop in H as [H1 H2].
  apply str_eqb_eq in H1; apply N.eqb_eq in H2; subst. now rewrite str_eqb_refl, N.eqb_refl.
Qed.

Lemma name_eqb_trans n1 p1 n2 p2 n3 p3 :
  name_eqb n1 p1 n2 p2 = true -> name_eqb n2 p2 n3 p3 = true -> name_eqb n1 p1 n3 p3 = true.
Proof.
  unfold name_eqb. intros H H'. apply andb_prop in H as [H1 H2]. apply andb_prop in H' as [H3 H4].
  apply str_eqb_eq in H1, H3; apply N.eqb_eq in H2, H4; subst. now rewrite str_eqb_refl, N.eqb_refl.
Qed.

Ltac norm2 :=
  split_andb;
  repeat match goal with
         | H : Bool.eqb _ _ = true |- _ => apply eqb_prop in H
         | H : N.eqb _ _ = true |- _ => apply N.eqb_eq in H
         | H : Z.eqb _ _ = true |- _ => apply Z.eqb_eq in H
         | H : str_eqb _ _ = true |- _ => apply str_eqb_eq in H
         end; subst.

Lemma gmode_nil g a b : is_nil a = is_nil b -> gmode g a = gmode g b.
Proof. destruct a, b; cbn; congruence. Qed.

Ltac use_sym_IH :=
  repeat match goal with
         | IH : forall g b, _ = true -> _ |- _ =>
           match goal with
           | HI : _ ?g ?a ?b = true |- _ =>
             let E := fresh "E" in pose proof (IH g b HI) as E; clear IH
           end
         end;
  repeat match goal with E : _ /\ _ |- _ => destruct E end.
Ltac symcase :=
  split_andb;
  repeat match goal with
         | H : name_eqb _ _ _ _ = true |- _ => apply name_eqb_sym in H; rewrite H; clear H
         end;
  norm2; rewrite ?N.eqb_refl, ?Z.eqb_refl, ?eqb_reflx, ?str_eqb_refl;
  use_sym_IH;
  repeat match goal with E : _ = true |- _ => rewrite E; clear E end;
  try (split; reflexivity); try reflexivity.

Lemma ident_sym_all :
  (forall a g b, ident g a b = true -> ident g b a = true) /\
  (forall a g b, ident_tys g a b = true -> ident_tys g b a = true /\ is_nil a = is_nil b) /\
  (forall a g b, ident_fields g a b = true -> ident_fields g b a = true) /\
  (forall a g b, ident_methods g a b = true -> ident_methods g b a = true) /\
  (forall a g b, ident_termset g a b = true -> ident_termset g b a = true) /\
  (forall a g b, ident_terms g a b = true -> ident_terms g b a = true).
Proof.
  apply ty_mutind; intros;
    match goal with H : _ ?g ?a ?b = true |- _ => destruct b; try discriminate H end;
    cbn [ident ident_tys ident_fields ident_methods ident_termset ident_terms is_nil] in *.
  - symcase.
  - symcase.
  - symcase.
  - symcase.
  - symcase.
  - symcase.
  - symcase.
  - (* TSig *)
    cbv zeta in *. split_andb. norm2. use_sym_IH.
    match goal with E : is_nil ?a = is_nil ?b |- context [gmode ?g ?b] =>
      rewrite <- (gmode_nil g a b E) end.
    rewrite eqb_reflx.
    repeat match goal with E : _ = true |- _ => rewrite E; clear E end. reflexivity.
  - symcase.
  - symcase.
  - symcase.
  - match goal with H : (if ?g then _ else _) = true |- _ =>
      destruct g; apply N.eqb_eq in H; subst; apply N.eqb_refl end.
  - symcase.
  - symcase.
  - symcase.
  - symcase.
  - symcase.
  - symcase.
  - symcase.
  - symcase.
  - symcase.
  - symcase.
  - symcase.
  - symcase.
Qed.

Lemma ident_tys_nil g a b : ident_tys g a b = true -> is_nil a = is_nil b.
Proof. destruct a, b; cbn; congruence. Qed.

Ltac use_trans_IH :=
  repeat match goal with
         | IH : forall g b c, _ = true -> _ = true -> _ |- _ =>
           match goal with
           | H1 : _ ?g ?a ?b = true, H2 : _ ?g ?b ?c = true |- _ =>
             let E := fresh "E" in pose proof (IH g b c H1 H2) as E; clear IH
           end
         end.
Ltac transcase :=
  split_andb;
  repeat match goal with
         | H1 : name_eqb ?a ?b ?c ?d = true, H2 : name_eqb ?c ?d ?e ?f = true |- _ =>
           rewrite (name_eqb_trans _ _ _ _ _ _ H1 H2); clear H1 H2
         end;
  norm2; rewrite ?N.eqb_refl, ?Z.eqb_refl, ?eqb_reflx, ?str_eqb_refl;
  use_trans_IH;
  repeat match goal with E : _ = true |- _ => rewrite E; clear E end;
  try reflexivity.

Lemma ident_trans_all :
  (forall a g b c, ident g a b = true -> ident g b c = true -> ident g a c = true) /\
  (forall a g b c, ident_tys g a b = true -> ident_tys g b c = true -> ident_tys g a c = true) /\
  (forall a g b c, ident_fields g a b = true -> ident_fields g b c = true -> ident_fields g a c = true) /\
  (forall a g b c, ident_methods g a b = true -> ident_methods g b c = true -> ident_methods g a c = true) /\
  (forall a g b c, ident_termset g a b = true -> ident_termset g b c = true -> ident_termset g a c = true) /\
  (forall a g b c, ident_terms g a b = true -> ident_terms g b c = true -> ident_terms g a c = true).
Proof.
  apply ty_mutind; intros;
    match goal with H : _ ?g ?a ?b = true, H' : _ ?g ?b ?c = true |- _ =>
      destruct b; try discriminate H; destruct c; try discriminate H' end;
    cbn [ident ident_tys ident_fields ident_methods ident_termset ident_terms] in *.
  - transcase.
  - transcase.
  - transcase.
  - transcase.
  - transcase.
  - transcase.
  - transcase.
  - (* TSig *) cbv zeta in *. split_andb.
    repeat match goal with
           | H : ident_tys (gmode ?g ?a) ?a ?b = true |- _ =>
             match goal with
             | H' : context [gmode g b] |- _ =>
               rewrite <- (gmode_nil g a b (ident_tys_nil _ _ _ H)) in H'
             end
           end.
    norm2. use_trans_IH. rewrite eqb_reflx.
    repeat match goal with E : _ = true |- _ => rewrite E; clear E end. reflexivity.
  - transcase.
  - transcase.
  - transcase.
  - match goal with H : (if ?g then _ else _) = true |- _ => destruct g end; norm2; apply N.eqb_refl.
  - transcase.
  - transcase.
  - transcase.
  - transcase.
  - transcase.
  - transcase.
  - transcase.
  - transcase.
  - transcase.
  - transcase.
  - transcase.
  - transcase.
Qed.

Theorem ident_refl g a : ident g a a = true.
Proof. apply ident_refl_all. Qed.
Theorem ident_sym g a b : ident g a b = ident g b a.
Proof.
  destruct ident_sym_all as (S & _).
  destruct (ident g a b) eqn:E1, (ident g b a) eqn:E2; try reflexivity.
  - apply S in E1. congruence.
  - apply S in E2. congruence.
Qed.
Theorem ident_trans g a b c : ident g a b = true -> ident g b c = true -> ident g a c = true.
Proof. apply ident_trans_all. Qed.
