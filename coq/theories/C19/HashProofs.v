(* C19 — identical types hash equally (and shallow-hash equally), for every
   type of the model syntax, every pointer-hash function and both hashing modes. *)
From Coq Require Import List NArith ZArith Bool Lia.
From GV Require Import Lib.Bytes C19.TypeModel.
From GVGen Require Import Tables.
Import ListNotations.
Local Open Scope N_scope.

Scheme ty_mut := Induction for ty Sort Prop
with tys_mut := Induction for tys Sort Prop
with fields_mut := Induction for fields Sort Prop
with methods_mut := Induction for methods Sort Prop
with termset_mut := Induction for termset Sort Prop
with terms_mut := Induction for terms Sort Prop.
Combined Scheme ty_mutind from ty_mut, tys_mut, fields_mut, methods_mut, termset_mut, terms_mut.

Section HashRespects.
Variable ptr : N -> N.

Definition ts_iface (g : bool) (ts : termset) : N :=
  match ts with
  | TSTerms l => w32 (c_termset + 2 * terms_len l + 3 * hash_terms ptr g l)
  | TSAll => w32 c_termset
  | TSErr => 0
  end.
Definition ts_union (g : bool) (ts : termset) : N :=
  match ts with
  | TSErr => c_union_err
  | TSAll => w32 c_termset
  | TSTerms l => w32 (c_termset + 2 * terms_len l + 3 * hash_terms ptr g l)
  end.


(* unfolding equations (mutual fixpoints do not refold under cbn) *)
Lemma h_basic g k : hash ptr g (TBasic k) = w32 k. Proof. reflexivity. Qed.
Lemma h_array g n e : hash ptr g (TArray n e) = w32 (c_array + 2 * w32z n + 3 * hash ptr g e). Proof. reflexivity. Qed.
Lemma h_slice g e : hash ptr g (TSlice e) = w32 (c_slice + 2 * hash ptr g e). Proof. reflexivity. Qed.
Lemma h_ptr g e : hash ptr g (TPtr e) = w32 (c_ptr + 2 * hash ptr g e). Proof. reflexivity. Qed.
Lemma h_map g k e : hash ptr g (TMap k e) = w32 (c_map + 2 * hash ptr g k + 3 * hash ptr g e). Proof. reflexivity. Qed.
Lemma h_chan g d e : hash ptr g (TChan d e) = w32 (c_chan + 2 * d + 3 * hash ptr g e). Proof. reflexivity. Qed.
Lemma h_struct g fs : hash ptr g (TStruct fs) = w32 (c_struct + hash_fields ptr g fs). Proof. reflexivity. Qed.
Lemma h_sig g v tp ps rs : hash ptr g (TSig v tp ps rs) =
  let g' := gmode g tp in
  w32 ((if v then w32 (c_sig * c_sig_var) else c_sig) + 7 * hash_sum ptr g' tp
       + 3 * w32 (c_tuple + 2 * tys_len ps + 3 * hash_sum ptr g' ps)
       + 5 * w32 (c_tuple + 2 * tys_len rs + 3 * hash_sum ptr g' rs)). Proof. reflexivity. Qed.
Lemma h_iface g ms ts : hash ptr g (TIface ms ts) = w32 (c_iface + hash_methods ptr g ms + ts_iface g ts). Proof. reflexivity. Qed.
Lemma h_union g ts : hash ptr g (TUnion ts) = ts_union g ts. Proof. reflexivity. Qed.
Lemma h_named g o l : hash ptr g (TNamed o l) = w32 (ptr o + 2 * hash_sum ptr g l). Proof. reflexivity. Qed.
Lemma h_param g o i : hash ptr g (TParam o i) = hash_tparam ptr g o i. Proof. reflexivity. Qed.
Lemma h_tuple g l : hash ptr g (TTuple l) = w32 (c_tuple + 2 * tys_len l + 3 * hash_sum ptr g l). Proof. reflexivity. Qed.
Lemma h_sum_cons g t r : hash_sum ptr g (TCons t r) = w32 (hash ptr g t + hash_sum ptr g r). Proof. reflexivity. Qed.
Lemma h_fields_cons g n p e tg t r : hash_fields ptr g (FCons n p e tg t r) =
  w32 ((if e then c_embedded else 0) + hash_string tg + hash_string n + hash ptr g t + hash_fields ptr g r). Proof. reflexivity. Qed.
Lemma h_methods_cons g n p t r : hash_methods ptr g (MCons n p t r) =
  w32 (3 * hash_string n + 5 * shallow ptr g t + hash_methods ptr g r). Proof. reflexivity. Qed.
Lemma h_terms_cons g x t r : hash_terms ptr g (TmCons x t r) =
  w32 ((if x then w32 (hash ptr g t * c_tilde) else hash ptr g t) + hash_terms ptr g r). Proof. reflexivity. Qed.
Lemma s_sig g v tp ps rs : shallow ptr g (TSig v tp ps rs) =
  w32 ((if v then w32 (sh_sig * sh_sig_var) else sh_sig)
       + sh_sig_p * w32 (sh_tuple_b + 2 * tys_len ps + shallow_tys ptr g ps)
       + sh_sig_r * w32 (sh_tuple_b + 2 * tys_len rs + shallow_tys ptr g rs)). Proof. reflexivity. Qed.
Lemma s_tuple g l : shallow ptr g (TTuple l) = w32 (sh_tuple_b + 2 * tys_len l + shallow_tys ptr g l). Proof. reflexivity. Qed.
Lemma s_tys_cons g t r : shallow_tys ptr g (TCons t r) = w32 (sh_tuple_e * shallow ptr g t + shallow_tys ptr g r). Proof. reflexivity. Qed.
Lemma s_array g n e : shallow ptr g (TArray n e) = w32 (sh_array + 2 * w32z n). Proof. reflexivity. Qed.
Lemma s_basic g k : shallow ptr g (TBasic k) = w32 (sh_basic * k). Proof. reflexivity. Qed.
Lemma s_named g o l : shallow ptr g (TNamed o l) = ptr o. Proof. reflexivity. Qed.
Lemma s_param g o i : shallow ptr g (TParam o i) = hash_tparam ptr g o i. Proof. reflexivity. Qed.
Ltac unf := rewrite ?h_basic, ?h_array, ?h_slice, ?h_ptr, ?h_map, ?h_chan, ?h_struct, ?h_sig, ?h_iface, ?h_union,
  ?h_named, ?h_param, ?h_tuple, ?h_sum_cons, ?h_fields_cons, ?h_methods_cons, ?h_terms_cons,
  ?s_sig, ?s_tuple, ?s_tys_cons, ?s_array, ?s_basic, ?s_named, ?s_param.

Definition P_ty (a : ty) : Prop :=
  forall g b, inner a = true -> ident g a b = true ->
    hash ptr g a = hash ptr g b /\ shallow ptr g a = shallow ptr g b.
Definition P_tys (a : tys) : Prop :=
  forall g b, inner_tys a = true -> ident_tys g a b = true ->
    hash_sum ptr g a = hash_sum ptr g b /\ shallow_tys ptr g a = shallow_tys ptr g b /\
    tys_len a = tys_len b /\ is_nil a = is_nil b.
Definition P_fields (a : fields) : Prop :=
  forall g b, inner_fields a = true -> ident_fields g a b = true -> hash_fields ptr g a = hash_fields ptr g b.
Definition P_methods (a : methods) : Prop :=
  forall g b, inner_methods a = true -> ident_methods g a b = true -> hash_methods ptr g a = hash_methods ptr g b.
Definition P_termset (a : termset) : Prop :=
  forall g b, inner_termset a = true -> ident_termset g a b = true ->
    ts_iface g a = ts_iface g b /\ ts_union g a = ts_union g b.
Definition P_terms (a : terms) : Prop :=
  forall g b, inner_terms a = true -> ident_terms g a b = true ->
    hash_terms ptr g a = hash_terms ptr g b /\ terms_len a = terms_len b.

Ltac split_andb :=
  repeat match goal with
         | H : (_ && _)%bool = true |- _ => apply andb_prop in H; destruct H
         end.

Lemma name_eqb_eq n1 p1 n2 p2 : name_eqb n1 p1 n2 p2 = true -> n1 = n2.
Proof. unfold name_eqb. intros H. split_andb. now apply str_eqb_eq. Qed.

Ltac norm_hyps :=
  split_andb;
  repeat match goal with
         | H : Bool.eqb _ _ = true |- _ => apply eqb_prop in H
         | H : N.eqb _ _ = true |- _ => apply N.eqb_eq in H
         | H : Z.eqb _ _ = true |- _ => apply Z.eqb_eq in H
         | H : str_eqb _ _ = true |- _ => apply str_eqb_eq in H
         | H : name_eqb _ _ _ _ = true |- _ => apply name_eqb_eq in H
         end; subst.
Ltac use_IH :=
  repeat match goal with
         | IH : forall (g : bool) b, _ = true -> _ = true -> _ |- _ =>
           match goal with
           | HI : _ ?g ?a ?b = true |- _ =>
             let E := fresh "E" in pose proof (IH g b ltac:(assumption) HI) as E; clear IH
           end
         end;
  repeat match goal with E : _ /\ _ |- _ => destruct E end.
Ltac finish :=
  unf; cbv zeta; cbn [tys_len terms_len gmode];
  repeat match goal with
         | E : hash _ _ _ = _ |- _ => rewrite E; clear E
         | E : shallow _ _ _ = _ |- _ => rewrite E; clear E
         | E : hash_sum _ _ _ = _ |- _ => rewrite E; clear E
         | E : shallow_tys _ _ _ = _ |- _ => rewrite E; clear E
         | E : hash_fields _ _ _ = _ |- _ => rewrite E; clear E
         | E : hash_methods _ _ _ = _ |- _ => rewrite E; clear E
         | E : hash_terms _ _ _ = _ |- _ => rewrite E; clear E
         | E : ts_iface _ _ = _ |- _ => rewrite E; clear E
         | E : ts_union _ _ = _ |- _ => rewrite E; clear E
         | E : tys_len _ = _ |- _ => rewrite E; clear E
         | E : terms_len _ = _ |- _ => rewrite E; clear E
         end; auto.

Lemma hash_respects_all :
  (forall a, P_ty a) /\ (forall a, P_tys a) /\ (forall a, P_fields a) /\
  (forall a, P_methods a) /\ (forall a, P_termset a) /\ (forall a, P_terms a).
Proof.
  apply ty_mutind; unfold P_ty, P_tys, P_fields, P_methods, P_termset, P_terms; intros;
    match goal with
    | H : _ ?g ?a ?b = true |- _ => destruct b; try discriminate H
    end;
    cbn [ident ident_tys ident_fields ident_methods ident_termset ident_terms
         inner inner_tys inner_fields inner_methods inner_termset inner_terms] in *.
  - (* TBasic *) norm_hyps. auto.
  - (* TArray *) norm_hyps. use_IH. finish.
  - (* TSlice *) use_IH. finish.
  - (* TPtr *) use_IH. finish.
  - (* TMap *) norm_hyps. use_IH. finish.
  - (* TChan *) norm_hyps. use_IH. finish.
  - (* TStruct *) use_IH. finish.
  - (* TSig *)
    norm_hyps.
    match goal with H : is_nil ?tp = true |- _ => destruct tp; [|discriminate H] end.
    match goal with H : ident_tys _ TNil ?x = true |- _ => destruct x; [|discriminate H] end.
    cbn [gmode] in *. use_IH. finish.
  - (* TIface *) norm_hyps. use_IH. finish.
  - (* TUnion *) use_IH. finish.
  - (* TNamed *) norm_hyps. use_IH. finish.
  - (* TParam *) unf. unfold hash_tparam.
    match goal with H : (if ?g then _ else _) = true |- _ => destruct g; apply N.eqb_eq in H; subst; auto end.
  - (* TTuple *) use_IH. finish.
  - (* TNil *) auto.
  - (* TCons *) norm_hyps. use_IH. finish.
  - (* FNil *) auto.
  - (* FCons *) norm_hyps. use_IH. finish.
  - (* MNil *) auto.
  - (* MCons *) norm_hyps. use_IH. finish.
  - (* TSErr *) auto.
  - (* TSAll *) auto.
  - (* TSTerms *) use_IH. unfold ts_iface, ts_union. finish.
  - (* TmNil *) auto.
  - (* TmCons *) norm_hyps. use_IH. finish.
Qed.

Theorem hash_respects_identical :
  forall a b, wf_top a = true -> ident false a b = true -> hash ptr false a = hash ptr false b.
Proof.
  destruct hash_respects_all as (Hty & Htys & _).
  intros a b W H. destruct a; try (now apply Hty).
  (* a signature, possibly generic, at the root *)
  destruct b; try discriminate. cbn [wf_top ident] in *. norm_hyps.
  repeat match goal with
         | HW : inner_tys ?l = true, HI : ident_tys ?g ?l ?l' = true |- _ =>
           let E := fresh "E" in pose proof (Htys l g l' HW HI) as E; clear HI
         end.
  repeat match goal with E : _ /\ _ |- _ => destruct E end.
  assert (G : gmode false tpcons = gmode false tpcons0).
  { destruct tpcons, tpcons0; try reflexivity; discriminate. }
  unf. cbv zeta. rewrite <- G. finish.
Qed.

End HashRespects.
