(* Byte strings as lists of N, and the handful of Go string functions the
   models transcribe (strings.Split on a one-byte separator, TrimRight,
   SplitN via "cut", HasPrefix, IndexByte, Itoa/Atoi). *)
From Coq Require Import List NArith ZArith Bool Lia Decimal DecimalNat DecimalN.
Import ListNotations.

Definition str := list N.
Definition TAB : N := 9.
Definition NL : N := 10.

Fixpoint str_eqb (a b : str) : bool :=
  match a, b with
  | [], [] => true
  | x :: a', y :: b' => N.eqb x y && str_eqb a' b'
  | _, _ => false
  end.

Lemma str_eqb_spec a b : reflect (a = b) (str_eqb a b).
Proof.
  revert b; induction a as [|x a IH]; intros [|y b]; cbn [str_eqb];
    try (constructor; congruence).
  destruct (N.eqb_spec x y) as [->|Hn]; cbn [andb].
  - destruct (IH b) as [->|Hn]; constructor; congruence.
  - constructor; congruence.
Qed.

Lemma str_eqb_refl a : str_eqb a a = true.
Proof. destruct (str_eqb_spec a a); congruence. Qed.

Lemma str_eqb_eq a b : str_eqb a b = true <-> a = b.
Proof. destruct (str_eqb_spec a b); split; congruence. Qed.

Lemma str_eqb_neq a b : str_eqb a b = false <-> a <> b.
Proof. destruct (str_eqb_spec a b); split; congruence. Qed.

(* cut c s = Some (before, after) at the first occurrence of c *)
Fixpoint cut (c : N) (s : str) : option (str * str) :=
  match s with
  | [] => None
  | x :: r => if N.eqb x c then Some ([], r)
              else match cut c r with
                   | Some (a, b) => Some (x :: a, b)
                   | None => None
                   end
  end.

Definition has (c : N) (s : str) : bool := existsb (N.eqb c) s.

Lemma cut_app c a b : has c a = false -> cut c (a ++ c :: b) = Some (a, b).
Proof.
  induction a as [|x a IH]; intros H.
  - cbn [List.app cut]. now rewrite N.eqb_refl.
  - cbn [has existsb] in H. apply orb_false_iff in H as [H1 H2].
    cbn [List.app cut]. rewrite N.eqb_sym, H1.
    unfold has in IH. now rewrite IH.
Qed.

Lemma cut_none c s : has c s = false -> cut c s = None.
Proof.
  induction s as [|x s IH]; intros H; [reflexivity|].
  cbn [has existsb] in H. apply orb_false_iff in H as [H1 H2].
  cbn [cut]. rewrite N.eqb_sym, H1.
  unfold has in IH. now rewrite IH.
Qed.

Lemma cut_some c s a b : cut c s = Some (a, b) -> s = a ++ c :: b /\ has c a = false.
Proof.
  revert a; induction s as [|x s IH]; cbn [cut]; intros a H; [discriminate|].
  destruct (N.eqb_spec x c) as [->|Hn].
  - inversion H; subst; now split.
  - destruct (cut c s) as [[a' b']|]; [|discriminate]. inversion H; subst.
    destruct (IH a' eq_refl) as [-> Hh]. split; [reflexivity|].
    cbn [has existsb]. apply orb_false_iff; split; [|exact Hh].
    apply N.eqb_neq; congruence.
Qed.

Lemma cut_length c s a b : cut c s = Some (a, b) -> length s = S (length a + length b).
Proof. intros H; apply cut_some in H as [-> _]. rewrite app_length; cbn; lia. Qed.

(* strings.Split(s, sep) for a one-byte separator; fuel = length s *)
Fixpoint split_fuel (fuel : nat) (c : N) (s : str) : list str :=
  match cut c s with
  | None => [s]
  | Some (a, b) => match fuel with
                   | 0 => [s]
                   | S f => a :: split_fuel f c b
                   end
  end.
Definition split (c : N) (s : str) : list str := split_fuel (length s) c s.

Fixpoint join (c : N) (l : list str) : str :=
  match l with
  | [] => []
  | [a] => a
  | a :: r => a ++ c :: join c r
  end.

Lemma split_fuel_join c l f :
  l <> [] -> Forall (fun a => has c a = false) l -> length (join c l) <= f ->
  split_fuel f c (join c l) = l.
Proof.
  revert f; induction l as [|a l IH]; intros f Hne Hall Hlen; [congruence|].
  inversion Hall as [|? ? Ha Hl]; subst.
  destruct l as [|b l].
  - cbn [join] in *. destruct f; cbn [split_fuel]; now rewrite cut_none.
  - change (join c (a :: b :: l)) with (a ++ c :: join c (b :: l)) in *.
    rewrite app_length in Hlen. cbn [length] in Hlen.
    destruct f as [|f]; [lia|]. cbn [split_fuel]. rewrite cut_app by exact Ha.
    f_equal. apply IH; [congruence|exact Hl|lia].
Qed.

Lemma split_join c l :
  l <> [] -> Forall (fun a => has c a = false) l -> split c (join c l) = l.
Proof. intros; apply split_fuel_join; auto. Qed.

(* bytes.TrimRight(b, "\n") *)
Fixpoint trimright (c : N) (s : str) : str :=
  match s with
  | [] => []
  | x :: r => match trimright c r with
              | [] => if N.eqb x c then [] else [x]
              | r' => x :: r'
              end
  end.

Lemma trimright_app_sep c s : trimright c (s ++ [c]) = trimright c s.
Proof.
  induction s as [|x s IH]; cbn [List.app trimright].
  - now rewrite N.eqb_refl.
  - now rewrite IH.
Qed.

Lemma trimright_last c s x : x <> c -> trimright c (s ++ [x]) = s ++ [x].
Proof.
  intros Hx; induction s as [|y s IH]; cbn [List.app trimright].
  - apply N.eqb_neq in Hx. now rewrite Hx.
  - rewrite IH. destruct s; reflexivity.
Qed.

Definition has_prefix1 (c : N) (s : str) : bool :=
  match s with x :: _ => N.eqb x c | [] => false end.

(* ---- decimal ---- *)
Fixpoint digits_of_uint (u : uint) : str :=
  match u with
  | Nil => []
  | D0 r => 48%N :: digits_of_uint r | D1 r => 49%N :: digits_of_uint r
  | D2 r => 50%N :: digits_of_uint r | D3 r => 51%N :: digits_of_uint r
  | D4 r => 52%N :: digits_of_uint r | D5 r => 53%N :: digits_of_uint r
  | D6 r => 54%N :: digits_of_uint r | D7 r => 55%N :: digits_of_uint r
  | D8 r => 56%N :: digits_of_uint r | D9 r => 57%N :: digits_of_uint r
  end.

Fixpoint uint_of_digits (s : str) : option uint :=
  match s with
  | [] => Some Nil
  | x :: r =>
    match uint_of_digits r with
    | None => None
    | Some u =>
      if N.eqb x 48 then Some (D0 u) else if N.eqb x 49 then Some (D1 u)
      else if N.eqb x 50 then Some (D2 u) else if N.eqb x 51 then Some (D3 u)
      else if N.eqb x 52 then Some (D4 u) else if N.eqb x 53 then Some (D5 u)
      else if N.eqb x 54 then Some (D6 u) else if N.eqb x 55 then Some (D7 u)
      else if N.eqb x 56 then Some (D8 u) else if N.eqb x 57 then Some (D9 u)
      else None
    end
  end.

Lemma uint_digits_roundtrip u : uint_of_digits (digits_of_uint u) = Some u.
Proof. induction u; cbn [digits_of_uint uint_of_digits]; try rewrite IHu; reflexivity. Qed.

Lemma digits_no_byte u c : (c < 48)%N -> has c (digits_of_uint u) = false.
Proof.
  intros Hc; induction u; cbn [digits_of_uint has existsb]; try reflexivity;
    apply orb_false_iff; (split; [apply N.eqb_neq; lia | exact IHu]).
Qed.

(* strconv.Itoa on a non-negative int *)
Definition itoa (n : nat) : str := digits_of_uint (N.to_uint (N.of_nat n)).

Definition max_int64 : Z := 9223372036854775807.

(* strconv.Atoi: optional sign, at least one digit, value must fit int64 *)
Definition atoi (s : str) : option Z :=
  let neg := match s with x :: _ => N.eqb x 45 | [] => false end in
  let signed := match s with x :: _ => N.eqb x 45 || N.eqb x 43 | [] => false end in
  let ds := if signed then tl s else s in
  match ds with
  | [] => None
  | _ => match uint_of_digits ds with
         | None => None
         | Some u =>
           let v := Z.of_N (N.of_uint u) in
           if neg then (if (v <=? max_int64 + 1)%Z then Some (- v)%Z else None)
           else (if (v <=? max_int64)%Z then Some v else None)
         end
  end.

Lemma N_to_uint_nonnil n : N.to_uint n <> Nil.
Proof.
  intros H. pose proof (DecimalN.Unsigned.of_to n) as E. rewrite H in E.
  cbn in E. subst n. cbv in H. discriminate.
Qed.

Lemma itoa_first_digit n :
  exists x r, itoa n = x :: r /\ (48 <= x <= 57)%N.
Proof.
  unfold itoa. pose proof (N_to_uint_nonnil (N.of_nat n)) as H.
  destruct (N.to_uint (N.of_nat n)); cbn [digits_of_uint]; try congruence;
    eexists _, _; (split; [reflexivity|lia]).
Qed.

Lemma itoa_no_byte n c : (c < 48)%N -> has c (itoa n) = false.
Proof. apply digits_no_byte. Qed.

Lemma atoi_itoa n : (Z.of_nat n <= max_int64)%Z -> atoi (itoa n) = Some (Z.of_nat n).
Proof.
  intros Hn. destruct (itoa_first_digit n) as (x & r & E & Hx).
  unfold atoi. rewrite E.
  assert (N.eqb x 45 = false) as -> by (apply N.eqb_neq; lia).
  assert (N.eqb x 43 = false) as -> by (apply N.eqb_neq; lia).
  assert (U : uint_of_digits (x :: r) = Some (N.to_uint (N.of_nat n)))
    by (rewrite <- E; apply uint_digits_roundtrip).
  cbn [orb]. rewrite U, DecimalN.Unsigned.of_to, nat_N_Z. apply Z.leb_le in Hn. now rewrite Hn.
Qed.
