#!/usr/bin/env python3
"""Generic driver:  bin/check Cxx [--tier quick|thorough] [--replay FILE]

Pipeline (DESIGN.md section 3): rebuild harness from /repo's working tree ->
regenerate coq/gen/Tables.v (G) -> make the property's proof obligations (T) ->
run the harness on the real code -> evaluate the model on every case inside Coq
(K1/K2, vm_compute) -> decide -> write evidence/Cxx.json.
"""
import sys, os, json, re, subprocess, time, fcntl, glob, hashlib, shutil
from concurrent.futures import ThreadPoolExecutor

VERIF = os.path.dirname(os.path.dirname(os.path.abspath(__file__)))
REPO = os.environ.get("VERIF_REPO", "/repo")
COQ = os.path.join(VERIF, "coq")
WORK = os.path.join(VERIF, "work")
ENV = dict(os.environ, GOFLAGS="-mod=mod", GOPROXY="off", GOSUMDB="off", GOTOOLCHAIN="local",
           CGO_ENABLED=os.environ.get("CGO_ENABLED", "1"))
COQFLAGS = ["-Q", os.path.join(COQ, "theories"), "GV", "-Q", os.path.join(COQ, "gen"), "GVGen"]

sys.path.insert(0, os.path.join(VERIF, "lib"))
from props import PROPS  # per-property configuration


def sh(cmd, cwd=None, timeout=None, env=None):
    t = time.time()
    try:
        p = subprocess.run(cmd, cwd=cwd, env=env or ENV, stdout=subprocess.PIPE, stderr=subprocess.STDOUT,
                           timeout=timeout, text=True, errors="replace")
        return p.returncode, p.stdout, time.time() - t
    except subprocess.TimeoutExpired as e:
        out = e.stdout if isinstance(e.stdout, str) else (e.stdout or b"").decode("utf8", "replace")
        return 124, out + "\n[timeout]", time.time() - t


def build_harness(log):
    os.makedirs(os.path.join(WORK, "bin"), exist_ok=True)
    rc, out, dt = sh(["go", "build", "-tags", "verif", "-o", os.path.join(WORK, "bin", "harness"), "."],
                     cwd=os.path.join(VERIF, "harness"), timeout=900)
    log.append("build harness rc=%d %.1fs" % (rc, dt))
    if rc == 0:
        rc, out2, dt = sh(["go", "build", "-ldflags=-s -w", "-o", os.path.join(WORK, "bin", "stubgo", "go"), "./stubgo"],
                          cwd=os.path.join(VERIF, "harness"), timeout=900)
        out += out2
    return rc, out


def regen_tables(log):
    rc, out, dt = sh([os.path.join(WORK, "bin", "harness"), "gen", os.path.join(COQ, "gen"), REPO], timeout=300)
    log.append("translator rc=%d %.1fs" % (rc, dt))
    return rc, out


def coq_makefile():
    mk = os.path.join(COQ, "Makefile")
    proj = os.path.join(COQ, "_CoqProject")
    files = sorted(glob.glob(os.path.join(COQ, "theories", "**", "*.v"), recursive=True)) + \
        sorted(glob.glob(os.path.join(COQ, "gen", "*.v")))
    body = "-Q theories GV\n-Q gen GVGen\n" + "\n".join(os.path.relpath(f, COQ) for f in files) + "\n"
    old = open(proj).read() if os.path.exists(proj) else ""
    if old != body or not os.path.exists(mk):
        open(proj, "w").write(body)
        sh(["coq_makefile", "-f", "_CoqProject", "-o", "Makefile"], cwd=COQ)


def coq_make(targets, log, timeout=1500):
    coq_makefile()
    rc, out, dt = sh(["make", "-j16", "-k"] + targets, cwd=COQ, timeout=timeout)
    log.append("make %s rc=%d %.1fs" % (" ".join(targets), rc, dt))
    return rc, out


def parse_pairs(out, name):
    m = re.search(r"\b%s\s*=\s*(.*?)\n\s*:\s" % re.escape(name), out, re.S)
    if not m:
        return None
    body = m.group(1)
    pairs = [(int(a), int(b)) for a, b in re.findall(r"\(\s*(\d+)\s*,\s*(\d+)(?:%[A-Za-z]+)?\s*\)", body)]
    if not pairs and re.search(r"\d", body):
        pairs = [(int(a), 0) for a in re.findall(r"\d+", body)]
    return pairs


def eval_cases(outdir, files, nres, log):
    """coqc every cases file (in parallel); returns {resultname: [(global idx, info)]}, errors"""
    def one(f):
        rc, out, dt = sh(["coqc"] + COQFLAGS + [f], cwd=outdir, timeout=1200)
        return f, rc, out, dt
    res = {"r%d" % i: [] for i in range(nres)}
    errors = []
    t = time.time()
    with ThreadPoolExecutor(max_workers=14) as ex:
        outs = list(ex.map(one, files))
    per = None
    for f, rc, out, dt in outs:
        shard = int(re.search(r"_(\d+)\.v$", f).group(1))
        if rc != 0:
            errors.append("%s: coqc rc=%d: %s" % (f, rc, out[-600:]))
            continue
        for i in range(nres):
            pairs = parse_pairs(out, "r%d" % i)
            if pairs is None:
                errors.append("%s: result r%d not printed" % (f, i))
                continue
            res["r%d" % i] += [(shard, a, b) for a, b in pairs]
    log.append("coq evaluation of %d case files %.1fs" % (len(files), time.time() - t))
    return res, errors


def theorem_names(vfile):
    src = open(vfile).read()
    src = re.sub(r"\(\*.*?\*\)", "", src, flags=re.S)
    return re.findall(r"^\s*(?:Theorem|Lemma|Corollary)\s+([A-Za-z0-9_']+)", src, re.M), \
        re.findall(r"^\s*Example\s+([A-Za-z0-9_']+)", src, re.M)


def forbidden_scan():
    bad = []
    pat = re.compile(r"\b(Admitted|admit|Axiom|Axioms|Parameter|Parameters|Conjecture|Hypothesis|Variable|Variables|Hypotheses|Unset\s+Guard|bypass_check|Admit\s+Obligations|Unset\s+Positivity|Unset\s+Universe)\b")
    for f in glob.glob(os.path.join(COQ, "**", "*.v"), recursive=True):
        src = re.sub(r"\(\*.*?\*\)", "", open(f).read(), flags=re.S)
        depth = 0
        for ln in src.split("\n"):
            if re.match(r"\s*Section\b", ln):
                depth += 1
            if re.match(r"\s*End\b", ln) and depth > 0:
                depth -= 1
            m = pat.search(ln)
            if m:
                w = m.group(1)
                if w in ("Variable", "Variables", "Hypothesis", "Hypotheses") and depth > 0:
                    continue
                bad.append("%s: %s" % (os.path.relpath(f, COQ), ln.strip()[:80]))
    return bad


def assumptions(pid, names, log):
    d = os.path.join(WORK, pid)
    os.makedirs(d, exist_ok=True)
    f = os.path.join(d, "assumptions_%s.v" % pid)
    with open(f, "w") as h:
        h.write("From GV Require Import Properties.%s.\n" % pid)
        for n in names:
            h.write('Goal True. idtac "@@ %s". Abort.\nPrint Assumptions %s.\n' % (n, n))
    rc, out, dt = sh(["coqc"] + COQFLAGS + [f], cwd=d, timeout=600)
    res = {}
    if rc == 0:
        cur = None
        for ln in out.split("\n"):
            if ln.startswith("@@ "):
                cur = ln[3:].strip()
                res[cur] = []
            elif cur and ln.strip():
                res[cur].append(ln.strip())
    log.append("Print Assumptions for %d theorems rc=%d %.1fs" % (len(names), rc, dt))
    return rc, res, out


def coqchk(pid, log):
    """independent re-check of the compiled property file and everything it depends on (thorough tier)"""
    rc, out, dt = sh(["coqchk", "-silent", "-o"] + COQFLAGS + ["GV.Properties.%s" % pid], cwd=COQ, timeout=2400)
    log.append("coqchk rc=%d %.1fs" % (rc, dt))
    summ = {}
    m = re.search(r"CONTEXT SUMMARY\s*=+\s*(.*)", out, re.S)
    if m:
        for key, val in re.findall(r"\* ([^:\n]+):\s*([^*]*)", m.group(1)):
            summ[key.strip()] = " ".join(val.split())
    return rc, summ, out, dt


def load_known(pid):
    known, fixed = {}, []
    fn = os.path.join(VERIF, "known_findings.jsonl")
    if os.path.exists(fn):
        for ln in open(fn):
            ln = ln.strip()
            if not ln or ln.startswith("#"):
                continue
            if ln.startswith("fixed:"):
                if ("property=%s " % pid) in ln:
                    fixed.append(ln)
                continue
            j = json.loads(ln)
            if j.get("property") == pid:
                known[int(j["class"])] = j
    return known, fixed


def write_replay(pid, seed, kind, what, case, broken):
    os.makedirs(os.path.join(VERIF, "replays"), exist_ok=True)
    path = os.path.join(VERIF, "replays", "%s_seed%d_%s.json" % (pid, seed, hashlib.sha1((what + json.dumps(case, sort_keys=True, default=str)).encode()).hexdigest()[:10]))
    json.dump({"property": pid, "seed": seed, "kind": kind, "what": what, "broken": broken,
               "replay": case, "rerun": "bin/check %s --replay %s" % (pid, path)}, open(path, "w"), indent=1)
    return path


def read_case(outdir, per_shard, shard, idx):
    g = shard * per_shard + idx
    try:
        with open(os.path.join(outdir, "cases.jsonl")) as h:
            for i, ln in enumerate(h):
                if i == g:
                    return g, json.loads(ln)
    except Exception:
        pass
    return g, None


def main():
    args = sys.argv[1:]
    if not args:
        print("usage: check Cxx [--tier quick|thorough] [--replay FILE]")
        return 2
    pid = args[0]
    tier = os.environ.get("VERIF_TIER", "quick")
    replay = None
    i = 1
    while i < len(args):
        if args[i] == "--tier":
            tier = args[i + 1]; i += 2
        elif args[i] == "--replay":
            replay = args[i + 1]; i += 2
        elif args[i] == "--seed":
            os.environ["VERIF_SEED"] = args[i + 1]; i += 2
        else:
            i += 1
    if tier not in ("quick", "thorough"):
        tier = "quick"
    seed = int(os.environ.get("VERIF_SEED", "1") or 1)
    cfg = PROPS[pid]
    os.makedirs(WORK, exist_ok=True)
    lock = open(os.path.join(WORK, ".lock"), "w")
    fcntl.flock(lock, fcntl.LOCK_EX)
    # development aid (bin/try_seeded): apply a seeded change to /repo while the lock is held, undo it on exit;
    # evidence of such a run goes to work/, never to evidence/
    try_patch = os.environ.get("VERIF_TRY_PATCH")
    if try_patch:
        import atexit
        if subprocess.call(["git", "-C", REPO, "apply", try_patch]) != 0:
            print("patch does not apply")
            return 3
        atexit.register(lambda: subprocess.call(["git", "-C", REPO, "apply", "-R", try_patch]))
    t0 = time.time()
    log, broken = [], []
    outdir = os.path.join(WORK, pid if not replay else pid + "_replay")
    os.makedirs(outdir, exist_ok=True)

    # 1. rebuild from the working tree
    rc, out = build_harness(log)
    if rc != 0:
        print(out[-3000:])
        print("INFRASTRUCTURE ERROR: the harness does not build against %s (compile error in the repository or a changed public API)" % REPO)
        return 2
    # 2. regenerate G
    rc, out = regen_tables(log)
    if rc != 0:
        broken.append({"kind": "G", "what": "translator: " + out.strip()[-400:]})
    # 3. proof obligations
    bad = forbidden_scan()
    if bad:
        print("forbidden constructs in the Coq development:\n  " + "\n  ".join(bad))
        return 2
    model_targets = [t for t in cfg["coq_models"]]
    rcm, outm = coq_make(model_targets, log)
    model_ok = rcm == 0
    if not model_ok:
        broken.append({"kind": "G/M", "what": "model no longer compiles against regenerated tables: " + first_error(outm)})
    prop_v = os.path.join(COQ, "theories", "Properties", pid + ".v")
    thms, examples = theorem_names(prop_v)
    rcp, outp = coq_make(["theories/Properties/%s.vo" % pid], log)
    proofs_ok = rcp == 0
    if not proofs_ok:
        broken.append({"kind": "T", "what": "proof obligation fails: " + first_error(outp)})
    axioms = {}
    if proofs_ok and not replay:
        rca, axioms, outa = assumptions(pid, thms, log)
        for n, a in axioms.items():
            if a != ["Closed under the global context"]:
                allowed = cfg.get("allowed_axioms", [])
                extra = [x for x in a if not any(x.startswith(al) for al in allowed) and ":" in x]
                if extra:
                    broken.append({"kind": "T", "what": "theorem %s depends on axioms: %s" % (n, extra)})
    chk = None
    if proofs_ok and tier == "thorough" and not replay:
        rcc, summ, outc, dtc = coqchk(pid, log)
        chk = {"rc": rcc, "seconds": round(dtc, 1), "summary": summ}
        if rcc != 0:
            broken.append({"kind": "T", "what": "coqchk rejects the compiled development: " + outc.strip()[-300:]})
        elif summ.get("Axioms", "<none>") != "<none>":
            broken.append({"kind": "T", "what": "coqchk reports axioms: " + summ.get("Axioms", "")})
    # 4. harness on the real code
    hcmd = [os.path.join(WORK, "bin", "harness"), pid, "-seed", str(seed), "-tier", tier, "-out", outdir, "-repo", REPO]
    if replay:
        hcmd += ["-replay", replay]
    rc, out, dt = sh(hcmd, cwd=VERIF, timeout=cfg.get("harness_timeout", 3000))
    log.append("harness rc=%d %.1fs" % (rc, dt))
    if rc != 0:
        print(out[-3000:])
        print("INFRASTRUCTURE ERROR: harness failed")
        return 2
    meta = json.load(open(os.path.join(outdir, "meta.json")))
    # 5. model evaluation inside Coq
    res, errs = ({}, [])
    kinds = cfg.get("results", ["K1"])
    nres = len(kinds)
    if model_ok and nres > 0:
        res, errs = eval_cases(outdir, meta.get("files") or [], nres, log)
        for e in errs:
            broken.append({"kind": "K", "what": e})
    k1, k2, devs = [], [], []
    for i, kd in enumerate(kinds):
        lst = res.get("r%d" % i, [])
        if kd == "K1":
            k1 += lst
        elif kd == "K2":
            k2 += lst
        elif kd == "DEV":
            devs += lst
        elif kd == "HYP" and lst:   # a case outside the hypotheses of the theorems
            broken.append({"kind": "HYP", "what": "case #%d (info %d) is outside the hypotheses under which the theorems are stated" % (lst[0][0] * meta.get("per_shard", 1000) + lst[0][1], lst[0][2])})
    per = meta.get("per_shard", 1000)
    known, fixed = load_known(pid)

    violations = []   # (kind, what, case, noinput)
    known_lines = []
    # direct oracle verdicts computed by the harness on the implementation
    direct = meta.get("direct_violations") or []
    unknown_direct = [d for d in direct if d.get("class") is None or int(d.get("class")) not in known]
    for d in direct:
        if d.get("class") is not None and int(d["class"]) in known:
            known_lines.append(int(d["class"]))
    # deviations classified by the Coq predicate
    dev_classes = {}
    for shard, idx, cls in devs:
        dev_classes.setdefault(cls, []).append((shard, idx))
    for cls, lst in sorted(dev_classes.items()):
        if cls in known:
            known_lines.append(cls)
        else:
            g, case = read_case(outdir, per, lst[0][0], lst[0][1])
            violations.append(("failing-input", "implementation deviates from the reference in class %d which is not a listed known finding (case #%d)" % (cls, g), case, False))
    for shard, idx, info in k2[:1]:
        g, case = read_case(outdir, per, shard, idx)
        broken.append({"kind": "K2", "what": "specification model disagrees with the reference at case #%d (info %d)" % (g, info)})
    for shard, idx, info in k1[:3]:
        g, case = read_case(outdir, per, shard, idx)
        broken.append({"kind": "K1", "what": "model and implementation differ at case #%d (step/info %d)" % (g, info), "case": case})

    if unknown_direct:
        d = unknown_direct[0]
        violations.insert(0, ("failing-input", d["what"] + " (case #%d step %d)" % (d.get("case", -1), d.get("step", -1)), d.get("replay"), False))
    elif broken and not replay:
        # search: the wide stream / thorough generator with the direct oracle on the implementation
        sdir = os.path.join(WORK, pid + "_search")
        found = None
        for sseed in (seed + 101, seed + 202):
            rc, out, dt = sh([os.path.join(WORK, "bin", "harness"), pid, "-seed", str(sseed), "-tier", cfg.get("search_tier", "thorough"), "-out", sdir, "-repo", REPO],
                             cwd=VERIF, timeout=cfg.get("search_timeout", 240))
            log.append("search seed=%d rc=%d %.1fs" % (sseed, rc, dt))
            try:
                sm = json.load(open(os.path.join(sdir, "meta.json")))
                ud = [d for d in (sm.get("direct_violations") or []) if d.get("class") is None or int(d.get("class")) not in known]
                if rc == 0 and ud:
                    found = ud[0]
                    break
            except Exception:
                pass
        shutil.rmtree(sdir, ignore_errors=True)
        if found:
            violations.insert(0, ("failing-input", found["what"], found.get("replay"), False))
    if broken and not violations:
        b = broken[0]
        violations.append(("no-failing-input-found", "%s: %s" % (b["kind"], b["what"]), b.get("case"), True))

    wall = time.time() - t0
    # 6. evidence
    nthm = len(thms)
    ev = {
        "property_id": pid, "tier": tier, "seed": seed, "level": "proof",
        "coverage": {
            "obligations": nthm + len(examples),
            "discharged": (nthm + len(examples)) if proofs_ok else 0,
            "checker_cmd": "make -C coq theories/Properties/%s.vo (coqc 8.16.1, full .vo build) ; coqc work/%s/cases_*.v (vm_compute K1/K2)" % (pid, pid),
            "trusted_base": cfg.get("trusted_base", []) + COMMON_TB,
            "theorems": thms, "nonvacuity_examples": examples,
            "axioms": axioms,
            "coqchk": chk,
            "supporting_lemmas": count_lemmas(cfg),
            # executions on the real code: cases (programs / histories / pools), or the finer-grained
            # oracle applications the harness counted; never fewer than the distinct cases it counted
            "evaluations": max(meta.get("cases", 0), meta.get("direct_checks", 0) or 0, meta.get("distinct_nontrivial", 0)),
            "distinct_nontrivial": meta.get("distinct_nontrivial", 0),
            "rule": meta.get("rule", ""),
            "samples": meta.get("samples") or [],
            "traces_validated_against_impl": meta.get("cases", 0) if model_ok and not errs else 0,
            "k1_mismatches": len(k1), "k2_mismatches": len(k2),
            "deviations_by_class": {str(k): len(v) for k, v in dev_classes.items()},
            "direct_oracle_checks": meta.get("direct_checks", 0),
            "direct_oracle_violations": len(direct),
            "strata": meta.get("strata"), "input_distribution": meta.get("input_distribution"),
            "broken": [{k: v for k, v in b.items() if k != "case"} for b in broken],
            "fixed_findings": fixed,
            "notes": meta.get("notes"),
            "steps": log,
        },
        "assumptions": cfg.get("assumptions", []),
        "wall_s": round(wall, 2),
        "violations": len(violations),
    }
    if not replay:
        evdir = os.path.join(VERIF, "evidence") if not os.environ.get("VERIF_TRY_PATCH") else os.path.join(WORK, "evidence_seeded")
        os.makedirs(evdir, exist_ok=True)
        json.dump(ev, open(os.path.join(evdir, pid + ".json"), "w"), indent=1, default=str)
    for cls in sorted(set(known_lines)):
        print("KNOWN-FINDING: property=%s %s: %s" % (pid, known[cls].get("id", cls), known[cls].get("what", "")))
    print("%s %s: theorems=%d examples=%d proofs_ok=%s cases=%d k1_mismatch=%d k2_mismatch=%d deviations=%s direct=%d wall=%.1fs" %
          (pid, tier, nthm, len(examples), proofs_ok, meta.get("cases", 0), len(k1), len(k2), {k: len(v) for k, v in dev_classes.items()}, len(direct), wall))
    if violations:
        kind, what, case, noinput = violations[0]
        path = write_replay(pid, seed, kind, what, case, [{k: v for k, v in b.items() if k != "case"} for b in broken])
        print("  " + what[:500])
        print("VIOLATION property=%s replay=%s%s" % (pid, path, " no-failing-input-found" if noinput else ""))
        return 1
    return 0


def first_error(out):
    m = re.search(r'File "([^"]+)", line (\d+), characters [^\n]*\n(Error:.*?)(?:\n\n|\nmake|\Z)', out, re.S)
    if m:
        return "%s:%s %s" % (os.path.relpath(m.group(1), COQ) if os.path.isabs(m.group(1)) else m.group(1), m.group(2), " ".join(m.group(3).split())[:300])
    return out.strip()[-300:]


def count_lemmas(cfg):
    n = 0
    for d in cfg.get("proof_dirs", []):
        for f in glob.glob(os.path.join(COQ, "theories", d, "*.v")):
            a, b = theorem_names(f)
            n += len(a) + len(b)
    return n


COMMON_TB = [
    "Coq 8.16.1 kernel + vm_compute (no native_compute); coqchk re-check in the thorough tier",
    "hand-written Gallina model M, tied to /repo by the K1 correspondence run (this evidence: traces_validated_against_impl)",
    "translator `harness gen` (go/ast pattern matching) producing coq/gen/Tables.v from /repo on every run",
    "harness encoders Go value -> Gallina term; Go toolchain go1.23.5",
]

if __name__ == "__main__":
    sys.exit(main())
