# per-property configuration of the driver
PROPS = {
    "C20": {
        "coq_models": ["theories/C20/Model.vo"],
        "proof_dirs": ["C20", "Lib"],
        "results": 1,
        "level_text": "Theorems over every state/history of an executable model of cache.Impl (Find serves only fresh or just-listed entries; clean entries are served without listing; dirty ones re-list; failed listing never serves; byte-level Save/Load round trip; Load never faults on any byte string), with the loadCachePkgs guard and hash sentinels regenerated from the source on every run, and the model run against the real cache.Impl on generated histories (stub go command, scripted fingerprints, real files, every prefix and count edit of saved files).",
        "level_note": "Trusted: Coq kernel + vm_compute; hand-written model tied to the code only by the K1 run; world model (stub go list, scripted hash, files) stands for the OS; sync.Map/atomics modelled sequentially - the concurrent-callers part of the property is exercised dynamically only (partial).",
        "technique": "Coq proof (invariants over all histories, byte-level codec round trip) + regenerated guard + model/implementation correspondence in vm_compute",
        "trusted_base": [
            "world model of C20 (stub `go list`, scripted fingerprint function, export files identified by name, cache file bytes) stands for the OS; sync.Map / atomic counter modelled as a sequential map and counter",
        ],
        "assumptions": [
            "concurrent lookups: only exercised dynamically (race detector run in the thorough tier), not proved",
            "files larger than 2^43 bytes are outside C20_load_never_faults",
        ],
    },
}
