# per-property configuration of the driver
PROPS = {
    "C20": {
        "coq_models": ["theories/C20/Model.vo"],
        "proof_dirs": ["C20", "Lib"],
        "results": ["K1"],
        "level_text": "Theorems over every state/history of an executable model of cache.Impl (Find serves only fresh or just-listed entries; clean entries are served without listing; dirty ones re-list; failed listing never serves; byte-level Save/Load round trip; Load never faults on any byte string), with the loadCachePkgs guard and hash sentinels regenerated from the source on every run, and the model run against the real cache.Impl on generated histories (stub go command, scripted fingerprints, real files, every prefix and count edit of saved files).",
        "level_note": "Trusted: Coq kernel + vm_compute; hand-written model tied to the code only by the K1 run; world model (stub go list, scripted hash, files) stands for the OS; sync.Map/atomics modelled sequentially - the concurrent-callers part of the property is exercised dynamically only (partial).",
        "technique": "Coq proof (invariants over all histories, byte-level codec round trip) + regenerated guard + model/implementation correspondence in vm_compute",
        "trusted_base": [
            "world model of C20 (stub `go list`, scripted fingerprint function, export files identified by name, cache file bytes) stands for the OS; sync.Map / atomic counter modelled as a sequential map and counter",
        ],
        "assumptions": [
            "concurrent lookups: only exercised dynamically (race detector run in the thorough tier), not proved",
            "files larger than 2^43 bytes are outside C20_load_never_faults",
        ],
    },
    "C19": {
        "coq_models": ["theories/C19/Check.vo"],
        "proof_dirs": ["C19"],
        "results": ["K1", "K2", "K1", "HYP"],
        "level_text": "Theorems: identical types hash equally (all types of the model syntax, any pointer hash, mutual induction); the model of types.Identical is an equivalence; for every Set/Delete/At/Len/Keys history the bucket/tombstone map agrees with an association list under identity (generic refinement proof, then instantiated with types as keys with no hypothesis left). All hasher constants are regenerated from typeutil/map.go on every run; the hash model, the identity model and the map model are run against the real Hasher, types.Identical and typeutil.Map on generated pools of colliding types.",
        "level_note": "Trusted: Coq kernel + vm_compute; the transcription of hasher.hash/shallowHash and of types.Identical (validated by K1/K2 on the pools only); term sets enter the model already normalised by the code's own InterfaceTermSet/UnionTermSet (verif hook) and in a canonical order chosen by the encoder; aliases are unaliased by the encoder; the pointer hash of *TypeName is a parameter of the theorems.",
        "technique": "Coq proof (mutual induction over type syntax, refinement to an association list over all histories) + regenerated constants + model/implementation correspondence in vm_compute",
        "trusted_base": [
            "normalised term sets are taken from the implementation (typeutil.VerifInterfaceTermSet/VerifUnionTermSet); normalisation itself is not modelled",
            "encoder: types.Unalias, canonical ordering of union terms, object ids for *types.TypeName",
        ],
        "assumptions": ["builtin.go getBuiltinTI client of the map is not modelled"],
    },
    "C10": {
        "coq_models": ["theories/C10/Check.vo"],
        "proof_dirs": ["C10"],
        "results": ["K1", "K2"],
        "level_text": "Theorems: the transcribed isTerminating/isTerminatingList/isTerminatingSwitch decide exactly the Go specification's terminating-statement predicate, and hasBreak decides exactly 'break referring to the enclosing statement' (mutual structural induction: every statement, depth and label context); missing return is reported iff a normal function with results has a non-terminating body; label diagnostics iff defined twice / defined and never used, for every event history. The model is run against the real builder (Func.End, panic tracking, NewLabel/Goto/Break/Continue/checkLabels) on random bodies and against the real terminating analysis (verif hook) on generated and standard-library bodies; the specification side is compared with go/types.",
        "level_note": "Trusted: Coq kernel + vm_compute; hand transcription of utilast_gengo.go termChecker and of the label bookkeeping; my reading of the Go spec's terminating-statement section as the inductive predicate Term (validated against go/types by K2 only); expression statements are abstracted to 'tracked builtin panic call or not' (tracking itself is exercised through the builder with a shadowed panic parameter).",
        "technique": "Coq proof (reflection of an inductive spec predicate by mutual structural induction) + model/implementation/go-types correspondence in vm_compute",
        "trusted_base": ["statement abstraction: declarations, assignments, sends, inc/dec, go, defer collapse to SOther; closures are opaque expression statements with their own function context"],
        "assumptions": ["goto/break-label validity errors other than 'defined twice'/'never used' are outside the property"],
    },
    "C16": {
        "coq_models": ["theories/C16/Check.vo"],
        "proof_dirs": ["C16"],
        "results": ["K1"],
        "level_text": "Theorem (mutual structural induction, arbitrary nesting): the canonical operation sequence of every statement / statement list / function, run on the abstract builder machine (operand-stack length, block base, scope and function identities, chain of saved block contexts; transitions transcribed from startBlockStmt/endBlockStmt/startFuncBody/endFuncBody and the Then/Else/Post/End methods), never takes an ill-formed step and returns exactly the state it started from; operation arities; endBlock truncation. The machine is compared with the real CodeBuilder after every single operation of random well-nested histories (stack length, scope pointer identity, current function), and the harness's operation sequence is checked to be the model's compile of the same body.",
        "level_note": "Trusted: Coq kernel + vm_compute; the hand transcription of the block-context save/restore code; the operation alphabet abstracts operand values (only their count matters); label context and the valDecl chain are not observable through the public API and are not in the machine; SetCurFile/multi-file histories are not generated yet.",
        "technique": "Coq proof (state-restoration invariant by mutual induction over statement syntax) + per-operation model/implementation correspondence in vm_compute",
        "trusted_base": ["the harness statement IR and its Coq twin cstmt; mapping of harness op names to machine ops (harness/ir.go c16OpCode)"],
        "assumptions": ["debug-mode leak panics (End with operands left) are not modelled: the generator only produces balanced bodies"],
    },
}
