// Command harness drives the real goplus/gogen code for the correspondence
// checks (K1/K2) and regenerates the Coq tables (G) from /repo's source.
//
//	harness gen  <outdir>                      translator: writes <outdir>/Tables.v
//	harness Cxx  -seed N -tier quick -out DIR  writes DIR/cases_*.v + DIR/meta.json
//	harness Cxx  -replay FILE -out DIR         re-runs the cases stored in FILE
package main

import (
	"flag"
	"fmt"
	"io"
	"log"
	"os"
	"sort"
)

type runArgs struct {
	Seed   int64
	Tier   string
	Out    string
	Replay string
	Repo   string
}

type propRunner func(a *runArgs) error

var registry = map[string]propRunner{}

func register(id string, f propRunner) { registry[id] = f }

func main() {
	if len(os.Args) < 2 {
		usage()
	}
	log.SetOutput(io.Discard) // gogen logs through the standard logger before some of its panics
	switch os.Args[1] {
	case "gen":
		if len(os.Args) < 3 {
			usage()
		}
		repo := "/repo"
		if len(os.Args) > 3 {
			repo = os.Args[3]
		}
		if err := genTables(repo, os.Args[2]); err != nil {
			fmt.Fprintln(os.Stderr, "gen:", err)
			os.Exit(2)
		}
		return
	}
	f, ok := registry[os.Args[1]]
	if !ok {
		usage()
	}
	fs := flag.NewFlagSet(os.Args[1], flag.ExitOnError)
	a := &runArgs{}
	fs.Int64Var(&a.Seed, "seed", 1, "PRNG seed")
	fs.StringVar(&a.Tier, "tier", "quick", "quick|thorough")
	fs.StringVar(&a.Out, "out", "", "output directory")
	fs.StringVar(&a.Replay, "replay", "", "replay file")
	fs.StringVar(&a.Repo, "repo", "/repo", "repository root")
	fs.Parse(os.Args[2:])
	if a.Out == "" {
		usage()
	}
	os.MkdirAll(a.Out, 0o777)
	if err := f(a); err != nil {
		fmt.Fprintln(os.Stderr, os.Args[1]+":", err)
		os.Exit(2)
	}
}

func usage() {
	ids := []string{}
	for k := range registry {
		ids = append(ids, k)
	}
	sort.Strings(ids)
	fmt.Fprintln(os.Stderr, "usage: harness gen <outdir> | harness <id> -seed N -tier T -out DIR; ids:", ids)
	os.Exit(2)
}
