package main

import (
	"encoding/json"
	"fmt"
	"os"
	"path/filepath"
	"strconv"
	"strings"
)

// ---- Gallina term encoders ----

func coqBytes(s string) string {
	if len(s) == 0 {
		return "[]"
	}
	var b strings.Builder
	b.WriteString("[")
	for i := 0; i < len(s); i++ {
		if i > 0 {
			b.WriteString(";")
		}
		b.WriteString(strconv.Itoa(int(s[i])))
	}
	b.WriteString("]%N")
	return b.String()
}

func coqBool(v bool) string {
	if v {
		return "true"
	}
	return "false"
}

func coqList(items []string) string {
	if len(items) == 0 {
		return "[]"
	}
	return "[" + strings.Join(items, "; ") + "]"
}

func coqOpt(v *string) string {
	if v == nil {
		return "None"
	}
	return "(Some " + *v + ")"
}

func coqZ(v string) string { // decimal text of an integer
	if strings.HasPrefix(v, "-") {
		return "(" + v + ")%Z"
	}
	return v + "%Z"
}

func coqStrList(ss []string) string {
	items := make([]string, len(ss))
	for i, s := range ss {
		items[i] = coqBytes(s)
	}
	return coqList(items)
}

// ---- case files ----

// casesFile writes one Coq file that evaluates `fn cases` with vm_compute and
// prints the result under the marker names the driver greps for.
type caseWriter struct {
	dir      string
	prop     string
	imports  string // e.g. "From GV Require Import Lib.Bytes C20.Model."
	caseType string
	shard    int
	perShard int
	buf      []string
	files    []string
	defs     []string // names: evaluated definitions to print, e.g. "mismatches cases"
}

func newCaseWriter(dir, prop, imports, caseType string, perShard int, defs ...string) *caseWriter {
	old, _ := filepath.Glob(filepath.Join(dir, "cases_*.v"))
	for _, f := range old {
		os.Remove(f)
	}
	old, _ = filepath.Glob(filepath.Join(dir, "cases_*.vo*"))
	for _, f := range old {
		os.Remove(f)
	}
	return &caseWriter{dir: dir, prop: prop, imports: imports, caseType: caseType, perShard: perShard, defs: defs}
}

func (w *caseWriter) add(term string) {
	w.buf = append(w.buf, term)
	if len(w.buf) >= w.perShard {
		w.flush()
	}
}

func (w *caseWriter) flush() {
	if len(w.buf) == 0 {
		return
	}
	name := fmt.Sprintf("cases_%s_%03d", w.prop, w.shard)
	var b strings.Builder
	b.WriteString("From Coq Require Import List NArith ZArith Bool String.\n")
	b.WriteString(w.imports + "\nImport ListNotations.\n")
	// one definition per case keeps each term small for the parser
	for i, t := range w.buf {
		fmt.Fprintf(&b, "Definition c%d : %s := %s.\n", i, w.caseType, t)
	}
	items := make([]string, len(w.buf))
	for i := range w.buf {
		items[i] = fmt.Sprintf("c%d", i)
	}
	fmt.Fprintf(&b, "Definition cases : list (%s) := %s.\n", w.caseType, coqList(items))
	for i, d := range w.defs {
		fmt.Fprintf(&b, "Definition r%d := Eval vm_compute in (%s).\nPrint r%d.\n", i, d, i)
	}
	fn := filepath.Join(w.dir, name+".v")
	os.WriteFile(fn, []byte(b.String()), 0o666)
	w.files = append(w.files, name+".v")
	w.buf = w.buf[:0]
	w.shard++
}

// ---- meta ----

type directViolation struct {
	Case   int    `json:"case"`
	Step   int    `json:"step"`
	What   string `json:"what"`
	Replay any    `json:"replay"`
	Class  *int   `json:"class,omitempty"` // known-finding class decided by the harness (matched against known_findings.jsonl)
}

type meta struct {
	Property   string            `json:"property"`
	Seed       int64             `json:"seed"`
	Tier       string            `json:"tier"`
	Cases      int               `json:"cases"`
	Distinct   int               `json:"distinct_nontrivial"`
	Rule       string            `json:"rule"`
	PerShard   int               `json:"per_shard"`
	Files      []string          `json:"files"`
	Strata     map[string]int    `json:"strata"`
	Dist       map[string]int    `json:"input_distribution"`
	Samples    []any             `json:"samples"`
	Direct     []directViolation `json:"direct_violations"`
	DirectRuns int               `json:"direct_checks"`
	Known      map[string]int    `json:"known_observed"` // class id -> count (observed by the Go side)
	Notes      []string          `json:"notes"`
}

func writeJSON(path string, v any) error {
	b, err := json.MarshalIndent(v, "", " ")
	if err != nil {
		return err
	}
	return os.WriteFile(path, b, 0o666)
}

// casesJSONL keeps the replayable form of every case (one JSON per line).
type caseLog struct{ f *os.File }

func newCaseLog(dir string) *caseLog {
	f, _ := os.Create(filepath.Join(dir, "cases.jsonl"))
	return &caseLog{f}
}
func (c *caseLog) add(v any) {
	b, _ := json.Marshal(v)
	c.f.Write(append(b, '\n'))
}
func (c *caseLog) close() { c.f.Close() }

func readJSON(path string, v any) error {
	b, err := os.ReadFile(path)
	if err != nil {
		return err
	}
	return json.Unmarshal(b, v)
}
