package main

// C01 / C02 — a typed program generator with two back ends: Go source text and the canonical
// sequence of builder operations.  go/types on the source decides whether the program is valid Go.
//   C01 (soundness): the builder finishes without reporting an error  =>  the emitted file parses and
//        type-checks (unused variables / imports excepted).
//   C02 (completeness + fidelity): the source is valid Go  =>  the builder accepts it, and the emitted
//        function is the same tree as the source (up to parentheses, formatting, import names).
// Programs are valid by construction most of the time; a single type / arity / form error is injected
// into a share of them.

import (
	"bytes"
	"fmt"
	"go/ast"
	"go/constant"
	"go/importer"
	"go/parser"
	"go/token"
	"go/types"
	"math/rand"
	"os"
	"path/filepath"
	"reflect"
	"strings"

	"github.com/goplus/gogen"
)

func init() {
	register("C01", func(a *runArgs) error { return runC0102(a, "C01") })
	register("C02", func(a *runArgs) error { return runC0102(a, "C02") })
}

const c01Prelude = `package main

import "errors"

var _ = errors.New

type MyInt int
type S struct {
	A int
	B string
}

func fi(a int) int                  { return a }
func fs(a string) string            { return a }
func ff(a float64) float64          { return a }
func f2(a int, b string) (int, error) { return a, nil }
func fv(a ...int) int               { return len(a) }
func fn0()                          {}

var gi int
var gs string
`

const c01Params = "pi int, pf float64, ps string, pb bool, pm MyInt, psl []int, pmp map[string]int, pp *int, pst S, pa any, pch chan int, pi8 int8, pu uint"

var c01ParamList = [][2]string{{"pi", "int"}, {"pf", "float64"}, {"ps", "string"}, {"pb", "bool"}, {"pm", "MyInt"}, {"psl", "[]int"}, {"pmp", "map[string]int"}, {"pp", "*int"}, {"pst", "S"}, {"pa", "any"}, {"pch", "chan int"}, {"pi8", "int8"}, {"pu", "uint"}}

// ---------- expressions ----------

type tx struct {
	K    string // lit var bin un call builtin index slice sel conv addr deref complit funclit
	Op   token.Token
	Kids []*tx
	Name string
	Lit  string
	Val  any
	T    string
	KV   bool
	Keys []string
}

func (e *tx) src() string {
	k := func(i int) string { return e.Kids[i].src() }
	var ks []string
	for _, c := range e.Kids {
		if c == nil {
			ks = append(ks, "")
			continue
		}
		ks = append(ks, c.src())
	}
	switch e.K {
	case "lit":
		return e.Lit
	case "var":
		return e.Name
	case "bin":
		return "(" + k(0) + " " + e.Op.String() + " " + k(1) + ")"
	case "un":
		return "(" + e.Op.String() + k(0) + ")"
	case "call":
		return e.Name + "(" + strings.Join(ks, ", ") + ")"
	case "builtin":
		if e.Name == "make" || e.Name == "new" {
			return e.Name + "(" + strings.Join(append([]string{e.T}, ks...), ", ") + ")"
		}
		return e.Name + "(" + strings.Join(ks, ", ") + ")"
	case "index":
		return k(0) + "[" + k(1) + "]"
	case "slice":
		lo, hi := "", ""
		if e.Kids[1] != nil {
			lo = k(1)
		}
		if len(e.Kids) > 2 && e.Kids[2] != nil {
			hi = k(2)
		}
		return k(0) + "[" + lo + ":" + hi + "]"
	case "sel":
		return k(0) + "." + e.Name
	case "conv":
		if strings.HasPrefix(e.T, "*") || strings.HasPrefix(e.T, "chan") || strings.HasPrefix(e.T, "func") {
			return "(" + e.T + ")(" + k(0) + ")"
		}
		return e.T + "(" + k(0) + ")"
	case "addr":
		return "(&" + k(0) + ")"
	case "deref":
		return "(*" + k(0) + ")"
	case "complit":
		var es []string
		for i, c := range e.Kids {
			if e.KV {
				es = append(es, e.Keys[i]+": "+c.src())
			} else {
				es = append(es, c.src())
			}
		}
		return e.T + "{" + strings.Join(es, ", ") + "}"
	case "funclit":
		return "func(a int) int { return " + k(0) + " }"
	}
	return "BAD"
}

type c01Gen struct {
	r      *rand.Rand
	env    [][2]string // name, type
	nvar   int
	bad    bool // an error has been injected
	wantE  bool // inject one error somewhere
	budget int
	withTS bool // also generate type switches with a binding (C03 stream T)
}

func (g *c01Gen) vars(t string) []string {
	var out []string
	for _, v := range g.env {
		if v[1] == t {
			out = append(out, v[0])
		}
	}
	return out
}

var c01ValTypes = []string{"int", "float64", "string", "bool", "MyInt", "[]int", "map[string]int", "*int", "S", "any"}

// maybeWrong returns a different type now and then (one injected error per program)
func (g *c01Gen) maybeWrong(t string) string {
	if g.wantE && !g.bad && g.r.Intn(12) == 0 {
		g.bad = true
		for {
			o := c01ValTypes[g.r.Intn(len(c01ValTypes))]
			if o != t {
				return o
			}
		}
	}
	return t
}

func intLit(r *rand.Rand) *tx {
	v := []int{0, 1, 2, 3, 7, 10, 100}[r.Intn(7)]
	return &tx{K: "lit", Lit: fmt.Sprint(v), Val: v, T: "int"}
}

// an operator applied to operands of a type that does not support it (both operands of that type),
// or an untyped constant that does not fit the required type
func (g *c01Gen) opError(t string) *tx {
	r := g.r
	v := func(tt string) *tx {
		vs := g.vars(tt)
		return &tx{K: "var", Name: vs[r.Intn(len(vs))]}
	}
	switch r.Intn(9) {
	case 0:
		return &tx{K: "bin", Op: []token.Token{token.SUB, token.MUL, token.QUO, token.REM}[r.Intn(4)], Kids: []*tx{v("string"), v("string")}}
	case 1:
		return &tx{K: "bin", Op: []token.Token{token.ADD, token.SUB, token.AND}[r.Intn(3)], Kids: []*tx{v("bool"), v("bool")}}
	case 2:
		return &tx{K: "bin", Op: []token.Token{token.REM, token.AND, token.OR, token.XOR, token.SHL}[r.Intn(5)], Kids: []*tx{v("float64"), v("float64")}}
	case 3:
		return &tx{K: "un", Op: []token.Token{token.SUB, token.XOR}[r.Intn(2)], Kids: []*tx{v([]string{"string", "bool"}[r.Intn(2)])}}
	case 4:
		return &tx{K: "un", Op: token.NOT, Kids: []*tx{v([]string{"int", "string", "float64"}[r.Intn(3)])}}
	case 5:
		tt := []string{"[]int", "map[string]int"}[r.Intn(2)]
		return &tx{K: "bin", Op: []token.Token{token.EQL, token.NEQ}[r.Intn(2)], Kids: []*tx{v(tt), v(tt)}}
	case 6:
		tt := []string{"S", "bool", "*int"}[r.Intn(3)]
		return &tx{K: "bin", Op: []token.Token{token.LSS, token.GEQ}[r.Intn(2)], Kids: []*tx{v(tt), v(tt)}}
	case 7:
		if t == "int" || t == "MyInt" {
			i := r.Intn(2)
			return &tx{K: "lit", Lit: []string{"1.5", "0.25"}[i], Val: []float64{1.5, 0.25}[i]}
		}
		return &tx{K: "lit", Lit: `"str"`, Val: "str"}
	}
	return &tx{K: "bin", Op: token.LAND, Kids: []*tx{v("int"), v("int")}}
}

func (g *c01Gen) expr(t string, d int) *tx {
	if g.wantE && !g.bad && g.r.Intn(25) == 0 {
		g.bad = true
		e := g.opError(t)
		if e.K == "lit" && e.Lit == `"str"` && (t == "string" || t == "any") {
			g.bad = false
		} else {
			return e
		}
	}
	t = g.maybeWrong(t)
	r := g.r
	vs := g.vars(t)
	leaf := func() *tx {
		if len(vs) > 0 && r.Intn(3) > 0 {
			return &tx{K: "var", Name: vs[r.Intn(len(vs))], T: t}
		}
		switch t {
		case "int":
			return intLit(r)
		case "float64":
			v := []float64{0.5, 1.5, 2.25}[r.Intn(3)]
			return &tx{K: "lit", Lit: fmt.Sprint(v), Val: v}
		case "string":
			v := []string{"a", "bc", ""}[r.Intn(3)]
			return &tx{K: "lit", Lit: fmt.Sprintf("%q", v), Val: v}
		case "bool":
			if r.Intn(2) == 0 {
				return &tx{K: "lit", Lit: "true", Val: true}
			}
			return &tx{K: "lit", Lit: "false", Val: false}
		case "MyInt":
			return &tx{K: "conv", T: "MyInt", Kids: []*tx{intLit(r)}}
		case "[]int":
			return &tx{K: "complit", T: "[]int", Kids: []*tx{intLit(r), intLit(r)}}
		case "map[string]int":
			return &tx{K: "complit", T: "map[string]int", KV: true, Keys: []string{`"k"`}, Kids: []*tx{intLit(r)}}
		case "*int":
			return &tx{K: "builtin", Name: "new", T: "int"}
		case "S":
			return &tx{K: "complit", T: "S", KV: true, Keys: []string{"A"}, Kids: []*tx{intLit(r)}}
		}
		// any
		return intLit(r)
	}
	if d <= 0 || g.budget <= 0 {
		return leaf()
	}
	g.budget--
	sub := func(tt string) *tx { return g.expr(tt, d-1) }
	switch t {
	case "int":
		switch r.Intn(12) {
		case 0, 1, 2:
			ops := []token.Token{token.ADD, token.SUB, token.MUL, token.AND, token.OR, token.XOR, token.AND_NOT}
			return &tx{K: "bin", Op: ops[r.Intn(len(ops))], Kids: []*tx{sub("int"), sub("int")}}
		case 3:
			// division by a non-zero literal or a variable
			return &tx{K: "bin", Op: []token.Token{token.QUO, token.REM}[r.Intn(2)], Kids: []*tx{sub("int"), {K: "lit", Lit: "3", Val: 3}}}
		case 4:
			return &tx{K: "bin", Op: []token.Token{token.SHL, token.SHR}[r.Intn(2)], Kids: []*tx{sub("int"), {K: "lit", Lit: "2", Val: 2}}}
		case 5:
			return &tx{K: "un", Op: []token.Token{token.SUB, token.XOR, token.ADD}[r.Intn(3)], Kids: []*tx{sub("int")}}
		case 6:
			return &tx{K: "call", Name: "fi", Kids: []*tx{sub("int")}}
		case 7:
			return &tx{K: "builtin", Name: "len", Kids: []*tx{sub([]string{"string", "[]int", "map[string]int"}[r.Intn(3)])}}
		case 8:
			return &tx{K: "index", Kids: []*tx{sub("[]int"), sub("int")}}
		case 9:
			return &tx{K: "index", Kids: []*tx{sub("map[string]int"), sub("string")}}
		case 10:
			if len(g.vars("S")) > 0 {
				return &tx{K: "sel", Name: "A", Kids: []*tx{{K: "var", Name: g.vars("S")[0]}}}
			}
			return &tx{K: "conv", T: "int", Kids: []*tx{sub([]string{"float64", "MyInt", "int"}[r.Intn(3)])}}
		default:
			n := 1 + r.Intn(3)
			e := &tx{K: "call", Name: "fv"}
			for i := 0; i < n; i++ {
				e.Kids = append(e.Kids, sub("int"))
			}
			return e
		}
	case "float64":
		switch r.Intn(4) {
		case 0:
			return &tx{K: "bin", Op: []token.Token{token.ADD, token.SUB, token.MUL, token.QUO}[r.Intn(4)], Kids: []*tx{sub("float64"), sub("float64")}}
		case 1:
			return &tx{K: "conv", T: "float64", Kids: []*tx{sub("int")}}
		case 2:
			return &tx{K: "call", Name: "ff", Kids: []*tx{sub("float64")}}
		}
		return &tx{K: "un", Op: token.SUB, Kids: []*tx{sub("float64")}}
	case "string":
		switch r.Intn(4) {
		case 0:
			return &tx{K: "bin", Op: token.ADD, Kids: []*tx{sub("string"), sub("string")}}
		case 1:
			return &tx{K: "call", Name: "fs", Kids: []*tx{sub("string")}}
		case 2:
			if len(g.vars("S")) > 0 {
				return &tx{K: "sel", Name: "B", Kids: []*tx{{K: "var", Name: g.vars("S")[0]}}}
			}
		}
		return &tx{K: "slice", Kids: []*tx{sub("string"), intLit(r), nil}}
	case "bool":
		if r.Intn(8) == 0 { // an interface value compared with a concrete one, in both orders
			tt := []string{"int", "string", "float64", "bool", "*int", "S", "MyInt"}[r.Intn(7)]
			kids := []*tx{{K: "var", Name: "pa"}, sub(tt)}
			if r.Intn(2) == 0 {
				kids[0], kids[1] = kids[1], kids[0]
			}
			return &tx{K: "bin", Op: []token.Token{token.EQL, token.NEQ}[r.Intn(2)], Kids: kids}
		}
		switch r.Intn(5) {
		case 0:
			tt := []string{"int", "float64", "string"}[r.Intn(3)]
			ops := []token.Token{token.EQL, token.NEQ, token.LSS, token.LEQ, token.GTR, token.GEQ}
			return &tx{K: "bin", Op: ops[r.Intn(len(ops))], Kids: []*tx{sub(tt), sub(tt)}}
		case 1:
			return &tx{K: "bin", Op: []token.Token{token.LAND, token.LOR}[r.Intn(2)], Kids: []*tx{sub("bool"), sub("bool")}}
		case 2:
			return &tx{K: "un", Op: token.NOT, Kids: []*tx{sub("bool")}}
		case 3:
			return &tx{K: "bin", Op: []token.Token{token.EQL, token.NEQ}[r.Intn(2)], Kids: []*tx{sub("*int"), {K: "lit", Lit: "nil", Val: nil}}}
		}
		return &tx{K: "bin", Op: token.EQL, Kids: []*tx{sub("S"), sub("S")}}
	case "MyInt":
		if r.Intn(2) == 0 {
			return &tx{K: "bin", Op: []token.Token{token.ADD, token.MUL}[r.Intn(2)], Kids: []*tx{sub("MyInt"), sub("MyInt")}}
		}
		return &tx{K: "conv", T: "MyInt", Kids: []*tx{sub("int")}}
	case "[]int":
		switch r.Intn(4) {
		case 0:
			return &tx{K: "builtin", Name: "append", Kids: []*tx{sub("[]int"), sub("int")}}
		case 1:
			return &tx{K: "slice", Kids: []*tx{sub("[]int"), intLit(r), nil}}
		case 2:
			return &tx{K: "builtin", Name: "make", T: "[]int", Kids: []*tx{sub("int")}}
		}
		e := &tx{K: "complit", T: "[]int"}
		for i, n := 0, r.Intn(4); i < n; i++ {
			e.Kids = append(e.Kids, sub("int"))
		}
		return e
	case "map[string]int":
		e := &tx{K: "complit", T: "map[string]int", KV: true}
		for i, n := 0, r.Intn(3); i < n; i++ {
			e.Keys = append(e.Keys, fmt.Sprintf("%q", fmt.Sprint("k", i)))
			e.Kids = append(e.Kids, sub("int"))
		}
		return e
	case "*int":
		if vi := g.vars("int"); len(vi) > 0 && r.Intn(2) == 0 {
			return &tx{K: "addr", Kids: []*tx{{K: "var", Name: vi[r.Intn(len(vi))]}}}
		}
		return leaf()
	case "S":
		if r.Intn(2) == 0 {
			return &tx{K: "complit", T: "S", KV: true, Keys: []string{"A", "B"}, Kids: []*tx{sub("int"), sub("string")}}
		}
		return &tx{K: "complit", T: "S", Kids: []*tx{sub("int"), sub("string")}}
	}
	return sub(c01ValTypes[r.Intn(len(c01ValTypes)-1)]) // any: a value of some type
}

// ---------- statements ----------

type ts struct {
	K       string // define var assign opassign incdec expr define2 commaok if for for3 range switch ret block go defer send
	Name    string
	Names   []string
	T       string
	L, E    *tx
	Es      []*tx
	Op      token.Token
	Body    []*ts
	Else    []*ts
	HasElse bool
	Clauses []tsClause
}

type tsClause struct {
	Es      []*tx
	Types   []string // type switch clause
	Default bool
	Body    []*ts
}

func (g *c01Gen) lhs(t string) *tx {
	r := g.r
	switch {
	case t == "int" && r.Intn(4) == 0 && len(g.vars("S")) > 0:
		return &tx{K: "sel", Name: "A", Kids: []*tx{{K: "var", Name: g.vars("S")[0]}}}
	case t == "int" && r.Intn(4) == 0:
		return &tx{K: "index", Kids: []*tx{{K: "var", Name: "psl"}, intLit(r)}}
	case t == "int" && r.Intn(4) == 0:
		return &tx{K: "index", Kids: []*tx{{K: "var", Name: "pmp"}, {K: "lit", Lit: `"k"`, Val: "k"}}}
	case t == "int" && r.Intn(4) == 0:
		return &tx{K: "deref", Kids: []*tx{{K: "var", Name: "pp"}}}
	}
	vs := g.vars(t)
	if len(vs) == 0 {
		return nil
	}
	return &tx{K: "var", Name: vs[r.Intn(len(vs))]}
}

func (g *c01Gen) newName() string {
	g.nvar++
	return fmt.Sprintf("v%d", g.nvar)
}

func (g *c01Gen) block(d, n int) []*ts {
	save := len(g.env)
	var out []*ts
	for i := 0; i < n; i++ {
		out = append(out, g.stmt(d))
	}
	g.env = g.env[:save]
	return out
}

// stmtS: only the statement kinds of the block-machine model (assignment to a variable, call,
// if / else, for, block, return)
func (g *c01Gen) stmtS(d int) *ts {
	r := g.r
	g.budget = 5
	x := r.Intn(11)
	if d <= 0 && x >= 4 {
		x = r.Intn(4)
	}
	switch x {
	case 0, 1:
		t := []string{"int", "string", "float64", "bool", "MyInt"}[r.Intn(5)]
		vs := g.vars(t)
		return &ts{K: "assign", L: &tx{K: "var", Name: vs[r.Intn(len(vs))]}, E: g.expr(t, 2)}
	case 2:
		return &ts{K: "expr", E: &tx{K: "call", Name: "fi", Kids: []*tx{g.expr("int", 2)}}}
	case 3:
		return &ts{K: "ret", Es: []*tx{g.expr("int", 1), {K: "lit", Lit: "nil", Val: nil}}}
	case 4, 5:
		s := &ts{K: "if", E: &tx{K: "bin", Op: token.LSS, Kids: []*tx{g.expr("int", 1), {K: "var", Name: "pi"}}}}
		for i, n := 0, 1+r.Intn(2); i < n; i++ {
			s.Body = append(s.Body, g.stmtS(d-1))
		}
		if r.Intn(2) == 0 {
			s.HasElse = true
			for i, n := 0, 1+r.Intn(2); i < n; i++ {
				s.Else = append(s.Else, g.stmtS(d-1))
			}
			if len(s.Else) == 1 && s.Else[0].K == "if" { // keep else { if } distinct from else-if: add a statement
				s.Else = append(s.Else, &ts{K: "expr", E: &tx{K: "call", Name: "fn0"}})
			}
		}
		return s
	case 6, 7:
		s := &ts{K: "for", E: &tx{K: "bin", Op: token.NEQ, Kids: []*tx{{K: "var", Name: "pi"}, g.expr("int", 1)}}}
		for i, n := 0, 1+r.Intn(2); i < n; i++ {
			s.Body = append(s.Body, g.stmtS(d-1))
		}
		return s
	}
	if x >= 9 {
		sw := &ts{K: "switch", E: g.expr("int", 1)}
		used := map[string]bool{}
		for i, n := 0, 1+r.Intn(3); i < n; i++ {
			c := tsClause{}
			for j, k := 0, 1+r.Intn(2); j < k; j++ {
				e := intLit(r)
				if used[e.Lit] {
					continue
				}
				used[e.Lit] = true
				c.Es = append(c.Es, e)
			}
			if len(c.Es) == 0 {
				continue
			}
			for j, k := 0, r.Intn(3); j < k; j++ {
				c.Body = append(c.Body, g.stmtS(d-1))
			}
			sw.Clauses = append(sw.Clauses, c)
		}
		if r.Intn(2) == 0 {
			sw.Clauses = append(sw.Clauses, tsClause{Default: true, Body: []*ts{g.stmtS(d - 1)}})
		}
		return sw
	}
	s := &ts{K: "block"}
	for i, n := 0, 1+r.Intn(2); i < n; i++ {
		s.Body = append(s.Body, g.stmtS(d-1))
	}
	return s
}

func (g *c01Gen) stmt(d int) *ts {
	r := g.r
	t := c01ValTypes[r.Intn(len(c01ValTypes))]
	g.budget = 6
	x := r.Intn(20)
	if g.withTS {
		x = r.Intn(22)
	}
	if d <= 0 && x >= 9 {
		x = r.Intn(9)
	}
	switch x {
	case 20, 21:
		s := &ts{K: "typeswitch", Name: g.newName(), E: &tx{K: "var", Name: "pa"}}
		pool := []string{"int", "string", "float64", "MyInt", "[]int", "*int", "S", "bool", "map[string]int"}
		r.Shuffle(len(pool), func(i, j int) { pool[i], pool[j] = pool[j], pool[i] })
		for i, n := 0, 1+r.Intn(3); i < n; i++ {
			c := tsClause{}
			k := 1
			if r.Intn(4) == 0 {
				k = 2
			}
			c.Types, pool = pool[:k], pool[k:]
			vt := "any"
			if k == 1 {
				vt = c.Types[0]
			}
			save := len(g.env)
			g.env = append(g.env, [2]string{s.Name, vt})
			w := g.newName()
			c.Body = append([]*ts{{K: "define", Name: w, E: &tx{K: "var", Name: s.Name}}}, g.block(d-1, r.Intn(3))...)
			g.env = g.env[:save]
			s.Clauses = append(s.Clauses, c)
		}
		if r.Intn(2) == 0 {
			save := len(g.env)
			g.env = append(g.env, [2]string{s.Name, "any"})
			w := g.newName()
			s.Clauses = append(s.Clauses, tsClause{Default: true, Body: append([]*ts{{K: "var", Name: w, T: "any", E: &tx{K: "var", Name: s.Name}}}, g.block(d-1, 1)...)})
			g.env = g.env[:save]
		}
		return s
	case 0, 1:
		s := &ts{K: "define", Name: g.newName(), E: g.expr(t, 2)}
		if t == "any" {
			s = &ts{K: "var", Name: s.Name, T: "any", E: s.E}
		}
		g.env = append(g.env, [2]string{s.Name, t})
		return s
	case 2:
		s := &ts{K: "var", Name: g.newName(), T: t}
		if r.Intn(2) == 0 {
			s.E = g.expr(t, 2)
		}
		g.env = append(g.env, [2]string{s.Name, t})
		return s
	case 3, 4:
		if l := g.lhs(t); l != nil {
			return &ts{K: "assign", L: l, E: g.expr(t, 2)}
		}
	case 5:
		tt := []string{"int", "float64", "MyInt", "string"}[r.Intn(4)]
		if l := g.lhs(tt); l != nil {
			op := token.ADD_ASSIGN
			if tt != "string" {
				op = []token.Token{token.ADD_ASSIGN, token.SUB_ASSIGN, token.MUL_ASSIGN}[r.Intn(3)]
			}
			return &ts{K: "opassign", L: l, Op: op, E: g.expr(tt, 1)}
		}
	case 6:
		if l := g.lhs("int"); l != nil {
			return &ts{K: "incdec", L: l, Op: []token.Token{token.INC, token.DEC}[r.Intn(2)]}
		}
	case 7:
		switch r.Intn(4) {
		case 0:
			return &ts{K: "expr", E: &tx{K: "call", Name: "fi", Kids: []*tx{g.expr("int", 2)}}}
		case 1:
			return &ts{K: "expr", E: &tx{K: "call", Name: "fn0"}}
		case 2:
			return &ts{K: []string{"go", "defer"}[r.Intn(2)], E: &tx{K: "call", Name: "fi", Kids: []*tx{g.expr("int", 1)}}}
		}
		return &ts{K: "send", L: &tx{K: "var", Name: "pch"}, E: g.expr("int", 1)}
	case 8:
		if r.Intn(2) == 0 {
			s := &ts{K: "define2", Names: []string{g.newName(), g.newName()}, E: &tx{K: "call", Name: "f2", Kids: []*tx{g.expr("int", 1), g.expr("string", 1)}}}
			g.env = append(g.env, [2]string{s.Names[0], "int"})
			return s
		}
		s := &ts{K: "commaok", Names: []string{g.newName(), g.newName()}, E: &tx{K: "index", Kids: []*tx{{K: "var", Name: "pmp"}, g.expr("string", 1)}}}
		g.env = append(g.env, [2]string{s.Names[0], "int"}, [2]string{s.Names[1], "bool"})
		return s
	case 9, 10, 11:
		s := &ts{K: "if", E: g.expr("bool", 2)}
		s.Body = g.block(d-1, 1+r.Intn(2))
		if r.Intn(2) == 0 {
			s.HasElse = true
			s.Else = g.block(d-1, 1+r.Intn(2))
		}
		return s
	case 12:
		s := &ts{K: "for", E: g.expr("bool", 1)}
		s.Body = g.block(d-1, 1+r.Intn(2))
		return s
	case 13:
		s := &ts{K: "for3", Name: g.newName(), E: g.expr("int", 1)}
		save := len(g.env)
		g.env = append(g.env, [2]string{s.Name, "int"})
		s.Body = g.block(d-1, 1+r.Intn(2))
		g.env = g.env[:save]
		return s
	case 14, 15:
		kind := r.Intn(4)
		s := &ts{K: "range"}
		save := len(g.env)
		switch kind {
		case 0:
			s.Names = []string{g.newName(), g.newName()}
			s.E = g.expr("[]int", 1)
			g.env = append(g.env, [2]string{s.Names[0], "int"}, [2]string{s.Names[1], "int"})
		case 1:
			s.Names = []string{g.newName(), g.newName()}
			s.E = g.expr("map[string]int", 1)
			g.env = append(g.env, [2]string{s.Names[0], "string"}, [2]string{s.Names[1], "int"})
		case 2:
			s.Names = []string{g.newName()}
			s.E = g.expr("int", 1)
			g.env = append(g.env, [2]string{s.Names[0], "int"})
		default:
			s.Names = []string{g.newName()}
			s.E = g.expr("string", 1)
			g.env = append(g.env, [2]string{s.Names[0], "int"})
		}
		s.Body = g.block(d-1, 1+r.Intn(2))
		g.env = g.env[:save]
		return s
	case 16, 17:
		s := &ts{K: "switch"}
		tt := ""
		if r.Intn(3) > 0 {
			tt = []string{"int", "string"}[r.Intn(2)]
			s.E = g.expr(tt, 1)
		}
		used := map[string]bool{}
		for i, n := 0, 1+r.Intn(3); i < n; i++ {
			c := tsClause{}
			for j, m := 0, 1+r.Intn(2); j < m; j++ {
				var e *tx
				if tt == "" {
					e = g.expr("bool", 1)
				} else if tt == "int" {
					e = intLit(r)
					if used[e.Lit] {
						continue
					}
					used[e.Lit] = true
				} else {
					e = &tx{K: "var", Name: "ps"}
					if used["ps"] {
						continue
					}
					used["ps"] = true
				}
				c.Es = append(c.Es, e)
			}
			if len(c.Es) == 0 {
				continue
			}
			c.Body = g.block(d-1, r.Intn(3))
			s.Clauses = append(s.Clauses, c)
		}
		if r.Intn(2) == 0 {
			s.Clauses = append(s.Clauses, tsClause{Default: true, Body: g.block(d-1, 1)})
		}
		return s
	case 18:
		return &ts{K: "block", Body: g.block(d-1, 1+r.Intn(2))}
	case 19:
		es := []*tx{g.expr("int", 1), {K: "lit", Lit: "nil", Val: nil}}
		if g.wantE && !g.bad && r.Intn(6) == 0 {
			g.bad = true
			es = es[:1] // wrong number of results
		}
		return &ts{K: "ret", Es: es}
	}
	return &ts{K: "expr", E: &tx{K: "call", Name: "fn0"}}
}

func (s *ts) src(b *strings.Builder, ind string) {
	w := func(f string, a ...any) { fmt.Fprintf(b, ind+f+"\n", a...) }
	list := func(l []*ts) {
		for _, x := range l {
			x.src(b, ind+"\t")
		}
	}
	switch s.K {
	case "define":
		w("%s := %s", s.Name, s.E.src())
	case "var":
		if s.E != nil {
			w("var %s %s = %s", s.Name, s.T, s.E.src())
		} else {
			w("var %s %s", s.Name, s.T)
		}
	case "assign":
		w("%s = %s", s.L.src(), s.E.src())
	case "opassign":
		w("%s %s %s", s.L.src(), s.Op, s.E.src())
	case "incdec":
		w("%s%s", s.L.src(), s.Op)
	case "expr":
		w("%s", s.E.src())
	case "go", "defer":
		w("%s %s", s.K, s.E.src())
	case "send":
		w("%s <- %s", s.L.src(), s.E.src())
	case "define2", "commaok":
		w("%s, %s := %s", s.Names[0], s.Names[1], s.E.src())
	case "if":
		w("if %s {", s.E.src())
		list(s.Body)
		if s.HasElse {
			w("} else {")
			list(s.Else)
		}
		w("}")
	case "for":
		w("for %s {", s.E.src())
		list(s.Body)
		w("}")
	case "for3":
		w("for %s := 0; %s < %s; %s++ {", s.Name, s.Name, s.E.src(), s.Name)
		list(s.Body)
		w("}")
	case "range":
		w("for %s := range %s {", strings.Join(s.Names, ", "), s.E.src())
		list(s.Body)
		w("}")
	case "switch":
		if s.E != nil {
			w("switch %s {", s.E.src())
		} else {
			w("switch {")
		}
		for _, c := range s.Clauses {
			if c.Default {
				w("default:")
			} else {
				var es []string
				for _, e := range c.Es {
					es = append(es, e.src())
				}
				w("case %s:", strings.Join(es, ", "))
			}
			list(c.Body)
		}
		w("}")
	case "typeswitch":
		w("switch %s := %s.(type) {", s.Name, s.E.src())
		for _, c := range s.Clauses {
			if c.Default {
				w("default:")
			} else {
				w("case %s:", strings.Join(c.Types, ", "))
			}
			list(c.Body)
		}
		w("}")
	case "block":
		w("{")
		list(s.Body)
		w("}")
	case "ret":
		var es []string
		for _, e := range s.Es {
			es = append(es, e.src())
		}
		w("return %s", strings.Join(es, ", "))
	}
}

// ---------- builder back end ----------

type c01B struct {
	pkg   *gogen.Package
	cb    *gogen.CodeBuilder
	tpkg  *types.Package
	fset  *token.FileSet
	tyc   map[string]types.Type
	param map[string]*types.Var
	rec   *[]string // recorded generic operations (Coq terms), when non-nil
	srec  *[]string // recorded statement-level operations (expression operations wrapped in OE)
	ids   map[string]int
	// C03: observers of the type of every sub-expression / declared variable
	onExpr func(e *tx, t types.Type)
	onDecl func(name string, t types.Type, init *tx)
	init   *tx
}

func (b *c01B) decl(names ...string) {
	if b.onDecl == nil {
		return
	}
	for _, n := range names {
		if n == "_" {
			continue
		}
		if _, o := b.cb.Scope().LookupParent(n, token.NoPos); o != nil {
			b.onDecl(n, o.Type(), b.init)
		}
	}
	b.init = nil
}

func (b *c01B) expr(e *tx) {
	b.expr1(e)
	if b.onExpr != nil && b.cb.InternalStack().Len() > 0 {
		b.onExpr(e, b.cb.Get(-1).Type)
	}
}

func (b *c01B) sop(op string) {
	if b.srec != nil {
		*b.srec = append(*b.srec, op)
	}
}

func (b *c01B) id(s string) int {
	if v, ok := b.ids[s]; ok {
		return v
	}
	b.ids[s] = len(b.ids) + 1
	return b.ids[s]
}

func (b *c01B) leaf(text string) {
	if b.rec != nil {
		*b.rec = append(*b.rec, fmt.Sprintf("OLeaf %d%%N", b.id("L:"+text)))
	}
	if b.srec != nil {
		*b.srec = append(*b.srec, fmt.Sprintf("OE (OLeaf %d%%N)", b.id("L:"+text)))
	}
}

func (b *c01B) node(tag string, n int) {
	if b.rec != nil {
		*b.rec = append(*b.rec, fmt.Sprintf("ONode %d%%N %d", b.id("N:"+tag), n))
	}
	if b.srec != nil {
		*b.srec = append(*b.srec, fmt.Sprintf("OE (ONode %d%%N %d)", b.id("N:"+tag), n))
	}
}

func (b *c01B) typ(name string) types.Type {
	if t, ok := b.tyc[name]; ok {
		return t
	}
	tv, err := types.Eval(b.fset, b.tpkg, token.NoPos, name)
	if err != nil {
		panic("harness: type " + name + ": " + err.Error())
	}
	b.tyc[name] = tv.Type
	return tv.Type
}

func (b *c01B) obj(name string) types.Object {
	if p, ok := b.param[name]; ok {
		return p
	}
	if _, o := b.cb.Scope().LookupParent(name, token.NoPos); o != nil {
		return o
	}
	panic("harness: unknown name " + name)
}

func (b *c01B) expr1(e *tx) {
	cb := b.cb
	switch e.K {
	case "lit":
		cb.Val(e.Val)
		b.leaf(e.Lit)
	case "var":
		cb.Val(b.obj(e.Name))
		b.leaf(e.Name)
	case "bin":
		b.expr(e.Kids[0])
		b.expr(e.Kids[1])
		cb.BinaryOp(e.Op)
		b.node("bin"+e.Op.String(), 2)
	case "un":
		b.expr(e.Kids[0])
		cb.UnaryOp(e.Op)
		b.node("un"+e.Op.String(), 1)
	case "call":
		cb.Val(b.obj(e.Name))
		b.leaf(e.Name)
		for _, k := range e.Kids {
			b.expr(k)
		}
		cb.Call(len(e.Kids))
		b.node("call", len(e.Kids)+1)
	case "builtin":
		cb.Val(types.Universe.Lookup(e.Name))
		b.leaf(e.Name)
		n := len(e.Kids)
		if e.Name == "make" || e.Name == "new" {
			cb.Typ(b.typ(e.T))
			b.leaf(e.T)
			n++
		}
		for _, k := range e.Kids {
			b.expr(k)
		}
		cb.Call(n)
		b.node("call", n+1)
	case "index":
		b.expr(e.Kids[0])
		b.expr(e.Kids[1])
		cb.Index(1, 0)
		b.node("index", 2)
	case "slice":
		b.expr(e.Kids[0])
		for i := 1; i <= 2; i++ {
			if i < len(e.Kids) && e.Kids[i] != nil {
				b.expr(e.Kids[i])
			} else {
				cb.None()
				b.leaf("none")
			}
		}
		cb.Slice(false)
		b.node("slice", 3)
	case "sel":
		b.expr(e.Kids[0])
		cb.MemberVal(e.Name, 0)
		b.node("sel:"+e.Name, 1)
	case "conv":
		cb.Typ(b.typ(e.T))
		b.leaf(e.T)
		b.expr(e.Kids[0])
		cb.Call(1)
		b.node("call", 2)
	case "addr":
		b.ref(e.Kids[0])
		cb.UnaryOp(token.AND)
		b.node("un&", 1)
	case "deref":
		b.expr(e.Kids[0])
		cb.Elem()
		b.node("elem", 1)
	case "complit":
		t := b.typ(e.T)
		switch {
		case e.T == "S":
			if e.KV {
				st := t.Underlying().(*types.Struct)
				for i, k := range e.Kids {
					for f := 0; f < st.NumFields(); f++ {
						if st.Field(f).Name() == e.Keys[i] {
							cb.Val(f)
							b.leaf(e.Keys[i])
						}
					}
					b.expr(k)
				}
				cb.StructLit(t, 2*len(e.Kids), true)
				b.node("lit:"+e.T, 2*len(e.Kids))
			} else {
				for _, k := range e.Kids {
					b.expr(k)
				}
				cb.StructLit(t, len(e.Kids), false)
				b.node("lit:"+e.T, len(e.Kids))
			}
		case strings.HasPrefix(e.T, "map"):
			for i, k := range e.Kids {
				var key string
				fmt.Sscanf(e.Keys[i], "%q", &key)
				cb.Val(key)
				b.leaf(e.Keys[i])
				b.expr(k)
			}
			cb.MapLit(t, 2*len(e.Kids))
			b.node("lit:"+e.T, 2*len(e.Kids))
		default:
			for _, k := range e.Kids {
				b.expr(k)
			}
			cb.SliceLit(t, len(e.Kids))
			b.node("lit:"+e.T, len(e.Kids))
		}
	case "funclit":
		pa := types.NewParam(token.NoPos, b.pkg.Types, "a", types.Typ[types.Int])
		cb.NewClosure(types.NewTuple(pa), types.NewTuple(types.NewParam(token.NoPos, b.pkg.Types, "", types.Typ[types.Int])), false).BodyStart(b.pkg)
		b.expr(e.Kids[0])
		cb.Return(1).End()
	default:
		panic("harness: expression kind " + e.K)
	}
}

// an addressable operand on the stack, as a reference
func (b *c01B) ref(e *tx) {
	cb := b.cb
	switch e.K {
	case "var":
		cb.VarRef(b.obj(e.Name))
		b.leaf(e.Name)
	case "sel":
		b.expr(e.Kids[0])
		cb.MemberRef(e.Name)
	case "index":
		b.expr(e.Kids[0])
		b.expr(e.Kids[1])
		cb.IndexRef(1)
	case "deref":
		b.expr(e.Kids[0])
		cb.ElemRef()
	default:
		panic("harness: not a reference " + e.K)
	}
}

func (b *c01B) list(l []*ts) {
	for _, s := range l {
		b.stmt(s)
	}
}

func (b *c01B) stmt(s *ts) {
	cb := b.cb
	switch s.K {
	case "define":
		cb.DefineVarStart(token.NoPos, s.Name)
		b.expr(s.E)
		cb.EndInit(1)
		b.init = s.E
		b.decl(s.Name)
	case "var":
		if s.E != nil {
			cb.NewVarStart(b.typ(s.T), s.Name)
			b.expr(s.E)
			cb.EndInit(1)
		} else {
			cb.NewVar(b.typ(s.T), s.Name)
		}
		b.decl(s.Name)
	case "assign":
		b.ref(s.L)
		b.expr(s.E)
		cb.Assign(1)
		b.sop("OAssign")
	case "opassign":
		b.ref(s.L)
		b.expr(s.E)
		cb.AssignOp(s.Op)
	case "incdec":
		b.ref(s.L)
		cb.IncDec(s.Op)
	case "expr":
		b.expr(s.E)
		cb.EndStmt()
		b.sop("OEndStmt")
	case "go":
		b.expr(s.E)
		cb.Go()
	case "defer":
		b.expr(s.E)
		cb.Defer()
	case "send":
		b.expr(s.L)
		b.expr(s.E)
		cb.Send()
	case "define2":
		cb.DefineVarStart(token.NoPos, s.Names...)
		b.expr(s.E)
		cb.EndInit(1)
		b.decl(s.Names...)
	case "commaok":
		cb.DefineVarStart(token.NoPos, s.Names...)
		b.expr(s.E.Kids[0])
		b.expr(s.E.Kids[1])
		cb.Index(1, 2)
		cb.EndInit(1)
		b.decl(s.Names...)
	case "if":
		cb.If()
		b.sop("OIf")
		b.expr(s.E)
		cb.Then()
		b.sop("OThen")
		b.list(s.Body)
		if s.HasElse {
			cb.Else()
			b.sop("OElse")
			b.list(s.Else)
		}
		cb.End()
		b.sop("OEnd")
	case "for":
		cb.For()
		b.sop("OFor")
		b.expr(s.E)
		cb.Then()
		b.sop("OThen")
		b.list(s.Body)
		cb.End()
		b.sop("OEnd")
	case "for3":
		cb.For()
		cb.DefineVarStart(token.NoPos, s.Name).Val(0).EndInit(1)
		cb.Val(b.obj(s.Name))
		b.expr(s.E)
		cb.BinaryOp(token.LSS)
		cb.Then()
		b.list(s.Body)
		cb.Post()
		cb.VarRef(b.obj(s.Name)).IncDec(token.INC)
		cb.End()
	case "range":
		cb.ForRange(s.Names...)
		b.expr(s.E)
		cb.RangeAssignThen(token.NoPos)
		b.decl(s.Names...)
		b.list(s.Body)
		cb.End()
	case "switch":
		cb.Switch()
		b.sop("OSwitch")
		if s.E != nil {
			b.expr(s.E)
		} else {
			cb.None()
		}
		cb.Then()
		b.sop("OThen")
		for _, c := range s.Clauses {
			if c.Default {
				cb.DefaultThen()
				b.sop("ODefault")
			} else {
				cb.Case()
				b.sop("OCase")
				for _, e := range c.Es {
					b.expr(e)
				}
				cb.Then()
				b.sop(fmt.Sprintf("OCaseThen %d", len(c.Es)))
			}
			b.list(c.Body)
			cb.End()
			b.sop("OEnd")
		}
		cb.End()
		b.sop("OEnd")
	case "typeswitch":
		cb.TypeSwitch(s.Name)
		b.expr(s.E)
		cb.TypeAssertThen()
		for _, c := range s.Clauses {
			if c.Default {
				cb.TypeDefaultThen()
			} else {
				cb.TypeCase()
				for _, t := range c.Types {
					cb.Typ(b.typ(t))
				}
				cb.Then()
			}
			b.list(c.Body)
			cb.End()
		}
		cb.End()
	case "block":
		cb.Block()
		b.sop("OBlock")
		b.list(s.Body)
		cb.End()
		b.sop("OEnd")
	case "ret":
		for _, e := range s.Es {
			b.expr(e)
		}
		cb.Return(len(s.Es))
		b.sop(fmt.Sprintf("OReturn %d", len(s.Es)))
	}
}

type c01Case struct {
	Source   string `json:"source"`
	Injected bool   `json:"error_injected"`
	GoError  string `json:"go_types_on_source,omitempty"`
	Builder  string `json:"builder,omitempty"`
	Emitted  string `json:"emitted,omitempty"`
	OutError string `json:"go_types_on_emitted,omitempty"`
}

func c01Check(fset *token.FileSet, imp types.Importer, prelude *ast.File, text string) (*ast.File, string) {
	f, err := parser.ParseFile(fset, "prog.go", text, parser.SkipObjectResolution)
	if err != nil {
		return nil, "parse: " + err.Error()
	}
	first := ""
	(&types.Config{Importer: imp, Error: func(e error) {
		msg := e.Error()
		if strings.Contains(msg, "declared and not used") || strings.Contains(msg, "imported and not used") || strings.Contains(msg, "missing return") {
			return
		}
		if first == "" {
			first = msg
		}
	}}).Check("main", fset, []*ast.File{prelude, f}, nil)
	return f, first
}

func runC0102(a *runArgs, prop string) error {
	n := 1500
	if a.Tier == "thorough" {
		n = 15000
	}
	r := rand.New(rand.NewSource(a.Seed))
	fset := token.NewFileSet()
	pf, err := parser.ParseFile(fset, "prelude.go", c01Prelude, 0)
	if err != nil {
		return err
	}
	imp := importer.ForCompiler(fset, "source", nil)
	tpkg, err := (&types.Config{Importer: imp}).Check("main", fset, []*ast.File{pf}, nil)
	if err != nil {
		return err
	}
	m := &meta{Property: prop, Seed: a.Seed, Tier: a.Tier, PerShard: 1000,
		Strata: map[string]int{}, Dist: map[string]int{}, Known: map[string]int{},
		Rule: "random typed functions (declarations with := / var, assignments to variables, fields, elements and pointers, op-assignments, ++/--, calls, go / defer / send, multi-value forms, if / else, for, three-clause for, range over slices, maps, integers and strings, switch with and without tag, blocks, returns) over int, float64, string, bool, a named integer, slices, maps, pointers, structs and any, with arithmetic, comparison, logical, shift, unary operators, calls incl. variadic, builtins, indexing, slicing, selectors, conversions, composite literals; a single type / arity error injected into about half of the programs; go/types on the source text decides validity; distinct = distinct sources; non-trivial = at least one compound statement"}
	cl := newCaseLog(a.Out)
	defer cl.close()
	distinct := map[string]bool{}
	ids := map[string]int{}
	var k1src []string
	cw := newCaseWriter(a.Out, prop, "From GV Require Import C02.Model C02.Check.", "c02case", 400, "k1_bad cases")
	for i := 0; i < n; i++ {
		g := &c01Gen{r: r, wantE: r.Intn(2) == 0}
		for _, p := range c01ParamList {
			g.env = append(g.env, p)
		}
		body := g.block(2, 2+r.Intn(4))
		body = append(body, &ts{K: "ret", Es: []*tx{intLit(r), {K: "lit", Lit: "nil", Val: nil}}})
		var sb strings.Builder
		fname := fmt.Sprintf("T%d", i)
		sb.WriteString("package main\n\nfunc " + fname + "(" + c01Params + ") (int, error) {\n")
		for _, s := range body {
			s.src(&sb, "\t")
		}
		sb.WriteString("}\n")
		c := c01Case{Source: sb.String(), Injected: g.bad}
		srcFile, goErr := c01Check(fset, imp, pf, c.Source)
		c.GoError = goErr
		valid := goErr == ""
		if distinct[c.Source] {
			continue
		}
		distinct[c.Source] = true
		// builder
		var herrs []string
		var out bytes.Buffer
		var recOps []string
		var bld *c01B
		boolFolded := false
		func() {
			defer func() {
				if e := recover(); e != nil {
					c.Builder = "rejected: " + fmt.Sprint(e)
				}
			}()
			pkg := gogen.NewPackage("main", "main", &gogen.Config{Fset: token.NewFileSet(), Importer: imp, Types: tpkg, HandleErr: func(err error) { herrs = append(herrs, err.Error()) }})
			b := &c01B{pkg: pkg, tpkg: tpkg, fset: fset, tyc: map[string]types.Type{}, param: map[string]*types.Var{}, ids: ids}
			bld = b
			var ps []*types.Var
			for _, p := range c01ParamList {
				v := types.NewParam(token.NoPos, pkg.Types, p[0], b.typ(p[1]))
				ps = append(ps, v)
				b.param[p[0]] = v
			}
			rs := types.NewTuple(types.NewParam(token.NoPos, pkg.Types, "", types.Typ[types.Int]), types.NewParam(token.NoPos, pkg.Types, "", types.Universe.Lookup("error").Type()))
			b.cb = pkg.NewFunc(nil, fname, types.NewTuple(ps...), rs, false).BodyStart(pkg)
			if first := body[0]; prop == "C02" && (first.K == "define" || first.K == "assign" || (first.K == "var" && first.E != nil)) {
				b.rec = &recOps // the operations issued for the expression of the first statement
				if first.K == "assign" {
					// the left-hand side is built first; only the right-hand side is recorded
					b.rec = nil
				}
			}
			for si, st := range body {
				if si == 0 && prop == "C02" && st.K == "assign" {
					b.ref(st.L)
					b.rec = &recOps
					b.expr(st.E)
					b.rec = nil
					b.cb.Assign(1)
					continue
				}
				b.stmt(st)
				b.rec = nil
			}
			b.cb.End()
			if err := pkg.WriteTo(&out); err != nil {
				panic("WriteTo: " + err.Error())
			}
		}()
		if c.Builder == "" && len(herrs) > 0 {
			c.Builder = "rejected: " + herrs[0]
		}
		if strings.HasPrefix(c.Builder, "rejected: harness:") {
			return fmt.Errorf("%s\n%s", c.Builder, c.Source)
		}
		accepted := c.Builder == ""
		m.DirectRuns++
		switch {
		case valid && accepted:
			m.Dist["valid, accepted"]++
		case valid && !accepted:
			m.Dist["valid, rejected"]++
		case !valid && accepted:
			m.Dist["invalid, accepted"]++
		default:
			m.Dist["invalid, rejected"]++
		}
		if accepted {
			c.Emitted = out.String()
			outFile, outErr := c01Check(fset, imp, pf, c.Emitted)
			c.OutError = outErr
			if prop == "C01" && outErr != "" {
				cls := c01Class(outErr)
				dv := directViolation{Case: i, What: "the builder reported no error but Go rejects the emitted file: " + c01Trim(outErr), Replay: c, Class: cls}
				if cls != nil {
					m.Known[fmt.Sprint(*cls)]++
				}
				m.Direct = append(m.Direct, dv)
			}
			if prop == "C02" && valid && outErr == "" && outFile != nil && srcFile != nil {
				c01Normalize(srcFile)
				c01Normalize(outFile)
				want, got := c01FuncCanon(srcFile), c01FuncCanon(outFile)
				if want != got {
					// the same after replacing every constant boolean expression, on both sides, by its value?
					folded := func(text string) string {
						info := &types.Info{Types: map[ast.Expr]types.TypeAndValue{}}
						f2, err := parser.ParseFile(fset, "prog.go", text, parser.SkipObjectResolution)
						if err != nil {
							return "?" + err.Error()
						}
						(&types.Config{Importer: imp, Error: func(error) {}}).Check("main", fset, []*ast.File{pf, f2}, info)
						c01Normalize(f2)
						c01FoldBools(reflect.ValueOf(f2), info)
						return c01FuncCanon(f2)
					}
					if folded(c.Source) == folded(c.Emitted) {
						two := 2
						boolFolded = true
						m.Known["2"]++
						m.Direct = append(m.Direct, directViolation{Case: i, What: "constant boolean expressions of the program are emitted as their value (true / false), not as the operators that were built", Replay: c, Class: &two})
						want = got
					}
				}
				if want != got {
					k := 0
					for k < len(want) && k < len(got) && want[k] == got[k] {
						k++
					}
					lo := max(0, k-80)
					m.Direct = append(m.Direct, directViolation{Case: i, What: "the emitted function is not the program that was built: ..." + c12Trunc(got[lo:], 160) + " instead of ..." + c12Trunc(want[lo:], 160), Replay: c})
				}
			}
			if prop == "C02" && valid && outErr == "" && outFile != nil && len(recOps) > 0 && bld != nil && !boolFolded {
				if fd := c01FirstFunc(outFile); fd != nil && len(fd.Body.List) > 0 {
					var rhs ast.Expr
					switch st := fd.Body.List[0].(type) {
					case *ast.AssignStmt:
						if len(st.Rhs) == 1 {
							rhs = st.Rhs[0]
						}
					case *ast.DeclStmt:
						if gd, ok := st.Decl.(*ast.GenDecl); ok && len(gd.Specs) == 1 {
							if vs, ok := gd.Specs[0].(*ast.ValueSpec); ok && len(vs.Values) == 1 {
								rhs = vs.Values[0]
							}
						}
					}
					if rhs != nil {
						cw.add(fmt.Sprintf("(%s, %s)", coqList(recOps), bld.generic(rhs)))
						k1src = append(k1src, c06Text(rhs)+"   <=   "+strings.SplitN(strings.SplitN(c.Source, "{\n", 2)[1], "\n", 2)[0])
						m.Dist["expressions replayed in the stack-machine model"]++
					}
				}
			}
		} else if prop == "C02" && valid {
			cls := c02Class(c.Builder)
			dv := directViolation{Case: i, What: "valid Go is rejected by the builder: " + c01Trim(c.Builder), Replay: c, Class: cls}
			if cls != nil {
				m.Known[fmt.Sprint(*cls)]++
			}
			m.Direct = append(m.Direct, dv)
		}
		cl.add(c)
		if len(m.Samples) < 4 && i%211 == 0 {
			m.Samples = append(m.Samples, c)
		}
	}
	if prop == "C02" {
		// stream S: whole function bodies over the statement kinds of the block-machine model
		nS := 150
		if a.Tier == "thorough" {
			nS = 1500
		}
		var scases []string
		for i := 0; i < nS; i++ {
			g := &c01Gen{r: r}
			for _, p := range c01ParamList {
				g.env = append(g.env, p)
			}
			var body []*ts
			for j, nb := 0, 2+r.Intn(3); j < nb; j++ {
				body = append(body, g.stmtS(2))
			}
			body = append(body, &ts{K: "ret", Es: []*tx{intLit(r), {K: "lit", Lit: "nil", Val: nil}}})
			srcText := ""
			{ // go/types decides whether the program is valid Go
				var sb strings.Builder
				sb.WriteString("package main\n\nfunc Sbody(" + c01Params + ") (int, error) {\n")
				for _, st := range body {
					st.src(&sb, "\t")
				}
				sb.WriteString("}\n")
				if _, e := c01Check(fset, imp, pf, sb.String()); e != "" {
					continue
				}
				srcText = sb.String()
			}
			var sops []string
			var out bytes.Buffer
			var bld *c01B
			fname := fmt.Sprintf("Sb%d", i)
			msg := ""
			func() {
				defer func() {
					if e := recover(); e != nil {
						msg = fmt.Sprint(e)
					}
				}()
				pkg := gogen.NewPackage("main", "main", &gogen.Config{Fset: token.NewFileSet(), Importer: imp, Types: tpkg})
				b := &c01B{pkg: pkg, tpkg: tpkg, fset: fset, tyc: map[string]types.Type{}, param: map[string]*types.Var{}, ids: ids, srec: &sops}
				bld = b
				var ps []*types.Var
				for _, p := range c01ParamList {
					v := types.NewParam(token.NoPos, pkg.Types, p[0], b.typ(p[1]))
					ps = append(ps, v)
					b.param[p[0]] = v
				}
				rs := types.NewTuple(types.NewParam(token.NoPos, pkg.Types, "", types.Typ[types.Int]), types.NewParam(token.NoPos, pkg.Types, "", types.Universe.Lookup("error").Type()))
				b.cb = pkg.NewFunc(nil, fname, types.NewTuple(ps...), rs, false).BodyStart(pkg)
				b.list(body)
				b.cb.End()
				if err := pkg.WriteTo(&out); err != nil {
					panic(err)
				}
			}()
			m.DirectRuns++
			if msg != "" {
				var sb strings.Builder
				for _, st := range body {
					st.src(&sb, "\t")
				}
				m.Direct = append(m.Direct, directViolation{Case: i, What: "valid Go is rejected by the builder: " + c01Trim(msg), Replay: c01Case{Source: sb.String(), Builder: msg}})
				continue
			}
			f, err := parser.ParseFile(fset, "prog.go", out.String(), parser.SkipObjectResolution)
			if err != nil {
				continue
			}
			// programs whose emitted tree is not the source tree (constant boolean folding, a listed finding) are not replayed
			if sf, err := parser.ParseFile(fset, "src.go", srcText, parser.SkipObjectResolution); err != nil || c01FuncCanonOf(sf, "Sbody") != c01FuncCanonOf(f, fname) {
				continue
			}
			for _, d := range f.Decls {
				if fd, ok := d.(*ast.FuncDecl); ok && fd.Name.Name == fname {
					if tree, ok := bld.genericStmts(fd.Body.List); ok && !strings.Contains(out.String(), "if true") && !strings.Contains(out.String(), "if false") {
						scases = append(scases, fmt.Sprintf("(%s, %s)", coqList(sops), tree))
						m.Dist["function bodies replayed in the block-machine model"]++
					}
				}
			}
		}
		{
			var sbv strings.Builder
			sbv.WriteString("From Coq Require Import List NArith Bool.\nFrom GV Require Import C02.Model C02.Check.\nImport ListNotations.\n")
			var parts []string
			for i := 0; i < len(scases); i += 50 {
				j := min(i+50, len(scases))
				fmt.Fprintf(&sbv, "Definition sc%d : list (list sop * stmts) := %s.\n", i/50, coqList(scases[i:j]))
				parts = append(parts, fmt.Sprintf("sc%d", i/50))
			}
			if len(parts) == 0 {
				parts = []string{"[]"}
			}
			fmt.Fprintf(&sbv, "Definition r0 := Eval vm_compute in (k1s_bad (%s)).\nPrint r0.\n", strings.Join(parts, " ++ "))
			os.WriteFile(filepath.Join(a.Out, "cases_C02_900.v"), []byte(sbv.String()), 0o666)
		}
		os.WriteFile(filepath.Join(a.Out, "k1_expressions.txt"), []byte(strings.Join(k1src, "\n")), 0o666)
		cw.flush()
		m.Files = append(cw.files, "cases_C02_900.v")
		m.PerShard = 400
	}
	m.Cases = len(distinct)
	m.Distinct = len(distinct)
	return writeJSON(filepath.Join(a.Out, "meta.json"), m)
}

func c01Trim(s string) string {
	s = strings.TrimPrefix(s, "rejected: ")
	if len(s) > 220 {
		s = s[:220] + "..."
	}
	return s
}

// the tree of function T, interface{} and any unified
func c01FuncCanon(f *ast.File) string {
	for _, d := range f.Decls {
		if fd, ok := d.(*ast.FuncDecl); ok && strings.HasPrefix(fd.Name.Name, "T") {
			s := c12CanonOf(fd.Body)
			return strings.ReplaceAll(s, `InterfaceType{Methods:nil }`, `Ident{Name:"any" }`)
		}
	}
	return ""
}

// known-finding classes (decided by the Go checker's message on the emitted file)
func c01Class(msg string) *int {
	cls := 0
	switch {
	case strings.Contains(msg, "out of bounds"):
		cls = 1
	case strings.Contains(msg, "cannot convert") || strings.Contains(msg, "truncated to"):
		cls = 2
	case strings.Contains(msg, "cannot slice") || strings.Contains(msg, "must be integer") || strings.Contains(msg, "must not be negative"):
		cls = 3
	case strings.Contains(msg, "MyInt") && (strings.Contains(msg, "as int value") || strings.Contains(msg, "mismatched types")):
		cls = 4
	case strings.Contains(msg, "not defined on") && strings.Contains(msg, "float64") && (strings.Contains(msg, "operator %") || strings.Contains(msg, "operator &") || strings.Contains(msg, "operator |") || strings.Contains(msg, "operator ^") || strings.Contains(msg, "operator <<") || strings.Contains(msg, "operator >>")):
		cls = 5
	default:
		return nil
	}
	return &cls
}

func c02Class(msg string) *int {
	cls := 0
	switch {
	case strings.Contains(msg, "mismatched types untyped"):
		cls = 1
	case strings.Contains(msg, "(type int) as type main.MyInt") || strings.Contains(msg, "mismatched types int and main.MyInt") || strings.Contains(msg, "mismatched types main.MyInt and int"):
		cls = 3
	case strings.Contains(msg, "(type any) as type bool"):
		cls = 4
	default:
		return nil
	}
	return &cls
}

// c01Normalize: `else { if ... }` with nothing else in the block is the same program as `else if ...`
func c01Normalize(n ast.Node) {
	ast.Inspect(n, func(x ast.Node) bool {
		if is, ok := x.(*ast.IfStmt); ok {
			if b, ok := is.Else.(*ast.BlockStmt); ok && len(b.List) == 1 {
				if inner, ok := b.List[0].(*ast.IfStmt); ok {
					is.Else = inner
				}
			}
		}
		return true
	})
}

// c01FoldBools replaces every constant boolean expression by its value (what the builder emits)
func c01FoldBools(v reflect.Value, info *types.Info) {
	exprT := reflect.TypeOf((*ast.Expr)(nil)).Elem()
	switch v.Kind() {
	case reflect.Ptr:
		if !v.IsNil() {
			c01FoldBools(v.Elem(), info)
		}
	case reflect.Interface:
		if v.IsNil() {
			return
		}
		if v.Type() == exprT && v.CanSet() {
			if e, ok := v.Interface().(ast.Expr); ok {
				logical := true
				if _, isIdent := e.(*ast.Ident); logical && !isIdent {
					if tv, ok := info.Types[e]; ok && tv.Value != nil && tv.Value.Kind() == constant.Bool {
						v.Set(reflect.ValueOf(&ast.Ident{Name: tv.Value.String()}))
						return
					}
				}
			}
		}
		c01FoldBools(v.Elem(), info)
	case reflect.Struct:
		for i := 0; i < v.NumField(); i++ {
			if f := v.Field(i); f.CanSet() && f.Type() != c12ObjType && f.Type() != c12ScopeType {
				c01FoldBools(f, info)
			}
		}
	case reflect.Slice:
		for i := 0; i < v.Len(); i++ {
			c01FoldBools(v.Index(i), info)
		}
	}
}

// the emitted expression as the generic tree the model builds (same tags as the recorded operations)
func (b *c01B) generic(x ast.Expr) string {
	kids := func(xs ...ast.Expr) string {
		out := "XNil"
		for i := len(xs) - 1; i >= 0; i-- {
			if xs[i] == nil {
				out = fmt.Sprintf("(XCons (ELeaf %d%%N) %s)", b.id("L:none"), out)
			} else {
				out = "(XCons " + b.generic(xs[i]) + " " + out + ")"
			}
		}
		return out
	}
	node := func(tag string, xs ...ast.Expr) string {
		return fmt.Sprintf("(ENode %d%%N %s)", b.id("N:"+tag), kids(xs...))
	}
	leafText := func(x ast.Expr) string {
		s := c06Text(x)
		s = strings.ReplaceAll(s, "interface{}", "any")
		return fmt.Sprintf("(ELeaf %d%%N)", b.id("L:"+s))
	}
	switch x := x.(type) {
	case *ast.ParenExpr:
		return b.generic(x.X)
	case *ast.Ident, *ast.BasicLit, *ast.ArrayType, *ast.MapType, *ast.ChanType, *ast.FuncType:
		return leafText(x)
	case *ast.BinaryExpr:
		return node("bin"+x.Op.String(), x.X, x.Y)
	case *ast.UnaryExpr:
		return node("un"+x.Op.String(), x.X)
	case *ast.StarExpr:
		return node("elem", x.X)
	case *ast.CallExpr:
		return node("call", append([]ast.Expr{x.Fun}, x.Args...)...)
	case *ast.IndexExpr:
		return node("index", x.X, x.Index)
	case *ast.SliceExpr:
		return node("slice", x.X, x.Low, x.High)
	case *ast.SelectorExpr:
		return node("sel:"+x.Sel.Name, x.X)
	case *ast.CompositeLit:
		var es []ast.Expr
		for _, e := range x.Elts {
			if kv, ok := e.(*ast.KeyValueExpr); ok {
				es = append(es, kv.Key, kv.Value)
			} else {
				es = append(es, e)
			}
		}
		return node("lit:"+strings.ReplaceAll(c06Text(x.Type), "interface{}", "any"), es...)
	}
	return leafText(x)
}

func c01FirstFunc(f *ast.File) *ast.FuncDecl {
	for _, d := range f.Decls {
		if fd, ok := d.(*ast.FuncDecl); ok && strings.HasPrefix(fd.Name.Name, "T") && fd.Body != nil {
			return fd
		}
	}
	return nil
}


func (b *c01B) genericStmts(l []ast.Stmt) (string, bool) {
	out, ok := "TNil", true
	for i := len(l) - 1; i >= 0; i-- {
		s, ok1 := b.genericStmt(l[i])
		ok = ok && ok1
		out = "(TCons " + s + " " + out + ")"
	}
	return out, ok
}

func (b *c01B) genericStmt(st ast.Stmt) (string, bool) {
	switch st := st.(type) {
	case *ast.AssignStmt:
		if st.Tok == token.ASSIGN && len(st.Lhs) == 1 && len(st.Rhs) == 1 {
			return "(SAssign " + b.generic(st.Lhs[0]) + " " + b.generic(st.Rhs[0]) + ")", true
		}
	case *ast.ExprStmt:
		return "(SExpr " + b.generic(st.X) + ")", true
	case *ast.ReturnStmt:
		es := "XNil"
		for i := len(st.Results) - 1; i >= 0; i-- {
			es = "(XCons " + b.generic(st.Results[i]) + " " + es + ")"
		}
		return "(SReturn " + es + ")", true
	case *ast.IfStmt:
		if st.Init == nil {
			t, ok1 := b.genericStmts(st.Body.List)
			switch e := st.Else.(type) {
			case nil:
				return "(SIf " + b.generic(st.Cond) + " " + t + " false TNil)", ok1
			case *ast.BlockStmt:
				es, ok2 := b.genericStmts(e.List)
				return "(SIf " + b.generic(st.Cond) + " " + t + " true " + es + ")", ok1 && ok2
			case *ast.IfStmt: // else-if: the else block holds that if alone
				es, ok2 := b.genericStmt(e)
				return "(SIf " + b.generic(st.Cond) + " " + t + " true (TCons " + es + " TNil))", ok1 && ok2
			}
		}
	case *ast.ForStmt:
		if st.Init == nil && st.Post == nil && st.Cond != nil {
			body, ok := b.genericStmts(st.Body.List)
			return "(SFor " + b.generic(st.Cond) + " " + body + ")", ok
		}
	case *ast.BlockStmt:
		body, ok := b.genericStmts(st.List)
		return "(SBlock " + body + ")", ok
	case *ast.SwitchStmt:
		if st.Init == nil && st.Tag != nil {
			cs, ok := "CNil", true
			for i := len(st.Body.List) - 1; i >= 0; i-- {
				cc := st.Body.List[i].(*ast.CaseClause)
				es := "XNil"
				for j := len(cc.List) - 1; j >= 0; j-- {
					es = "(XCons " + b.generic(cc.List[j]) + " " + es + ")"
				}
				body, ok1 := b.genericStmts(cc.Body)
				ok = ok && ok1
				cs = "(CCons " + es + " " + body + " " + cs + ")"
			}
			return "(SSwitch " + b.generic(st.Tag) + " " + cs + ")", ok
		}
	}
	return "(SBlock TNil)", false
}

func c01FuncCanonOf(f *ast.File, name string) string {
	c01Normalize(f)
	for _, d := range f.Decls {
		if fd, ok := d.(*ast.FuncDecl); ok && fd.Name.Name == name {
			return strings.ReplaceAll(c12CanonOf(fd.Body), `InterfaceType{Methods:nil }`, `Ident{Name:"any" }`)
		}
	}
	return ""
}
