package main

// C12 — printing is lossless and canonical.
//   stream S: real Go files (the standard library) parsed, all position information removed, printed
//             with gogen's printer, parsed again: same tree up to parentheses; output is a fixed
//             point of go/format.
//   stream E: random expression trees in the fragment modelled in Coq: K1 model tokens = tokens of the
//             printed text, K2 model parser on those tokens = go/parser's tree; direct: same tree.
//   stream X: random expression trees over every expression node kind (direct check only).
//   stream C: statement comments set through the builder: each printed once, directly before.

import (
	"bytes"
	"fmt"
	"go/ast"
	"go/format"
	"go/importer"
	"go/parser"
	"go/scanner"
	"go/token"
	"go/types"
	"math/rand"
	"os"
	"path/filepath"
	"reflect"
	"runtime"
	"sort"
	"strings"

	"github.com/goplus/gogen"
)

func init() { register("C12", runC12) }

var (
	c12PosType   = reflect.TypeOf(token.NoPos)
	c12ObjType   = reflect.TypeOf((*ast.Object)(nil))
	c12ScopeType = reflect.TypeOf((*ast.Scope)(nil))
	c12CGType    = reflect.TypeOf((*ast.CommentGroup)(nil))
)

// c12ClearPos removes every position, object, scope and comment from a tree.
func c12ClearPos(v reflect.Value) {
	switch v.Kind() {
	case reflect.Ptr, reflect.Interface:
		if !v.IsNil() {
			c12ClearPos(v.Elem())
		}
	case reflect.Struct:
		for i := 0; i < v.NumField(); i++ {
			f := v.Field(i)
			if !f.CanSet() {
				continue
			}
			switch f.Type() {
			case c12PosType:
				f.SetInt(0)
			case c12ObjType, c12ScopeType, c12CGType:
				f.Set(reflect.Zero(f.Type()))
			default:
				c12ClearPos(f)
			}
		}
	case reflect.Slice:
		for i := 0; i < v.Len(); i++ {
			c12ClearPos(v.Index(i))
		}
	}
}

// c12Canon writes the structure of a tree: node kinds, operators, literals, names, nesting;
// no positions, no parentheses, no empty statements, empty field lists = absent.
func c12Canon(b *strings.Builder, v reflect.Value) {
	switch v.Kind() {
	case reflect.Interface:
		if v.IsNil() {
			b.WriteString("nil")
			return
		}
		c12Canon(b, v.Elem())
	case reflect.Ptr:
		if v.IsNil() {
			b.WriteString("nil")
			return
		}
		switch n := v.Interface().(type) {
		case *ast.ParenExpr:
			c12Canon(b, reflect.ValueOf(n.X))
			return
		case *ast.FieldList:
			if len(n.List) == 0 {
				b.WriteString("nil")
				return
			}
		case *ast.BasicLit:
			val := n.Value
			if n.Kind == token.INT || n.Kind == token.FLOAT || n.Kind == token.IMAG {
				val = strings.ToLower(val)
			}
			fmt.Fprintf(b, "Lit(%s %s)", n.Kind, val)
			return
		case *ast.Object, *ast.Scope, *ast.CommentGroup:
			b.WriteString("-")
			return
		}
		b.WriteString(v.Elem().Type().Name())
		c12Canon(b, v.Elem())
	case reflect.Struct:
		b.WriteString("{")
		for i := 0; i < v.NumField(); i++ {
			f := v.Field(i)
			ft := v.Type().Field(i)
			if f.Type() == c12PosType {
				// a position that carries syntax: presence only
				switch ft.Name {
				case "Ellipsis", "Lparen", "Arrow":
					if v.Type().Name() == "CallExpr" && ft.Name == "Ellipsis" {
						continue // decided by the printed "..." which the parser records as a position; compared below through HasEllipsis
					}
				}
				continue
			}
			switch f.Type() {
			case c12ObjType, c12ScopeType, c12CGType:
				continue
			}
			switch ft.Name {
			case "Incomplete", "Implicit", "Unresolved", "Comments", "FileStart", "FileEnd", "GoVersion", "Imports":
				continue
			}
			b.WriteString(ft.Name + ":")
			c12Canon(b, f)
			b.WriteString(" ")
		}
		b.WriteString("}")
	case reflect.Slice:
		b.WriteString("[")
		for i := 0; i < v.Len(); i++ {
			e := v.Index(i)
			if e.Kind() == reflect.Interface && !e.IsNil() {
				if _, empty := e.Interface().(*ast.EmptyStmt); empty {
					continue
				}
			}
			c12Canon(b, e)
			b.WriteString(",")
		}
		b.WriteString("]")
	case reflect.String:
		fmt.Fprintf(b, "%q", v.String())
	case reflect.Bool:
		fmt.Fprintf(b, "%v", v.Bool())
	case reflect.Int, reflect.Int64, reflect.Int32:
		if v.Type().Name() == "Token" {
			b.WriteString(token.Token(v.Int()).String())
		} else {
			fmt.Fprintf(b, "%d", v.Int())
		}
	default:
		fmt.Fprintf(b, "<%s>", v.Kind())
	}
}

func c12CanonOf(n any) string {
	var b strings.Builder
	c12Canon(&b, reflect.ValueOf(n))
	return b.String()
}

// variadic calls: the only syntax carried by a position alone
func c12Ellipses(n ast.Node) (cnt int) {
	ast.Inspect(n, func(x ast.Node) bool {
		if c, ok := x.(*ast.CallExpr); ok && c.Ellipsis.IsValid() {
			cnt++
		}
		return true
	})
	return
}

func c12Print(node any) (string, string) {
	var buf bytes.Buffer
	fault := ""
	func() {
		defer func() {
			if e := recover(); e != nil {
				fault = fmt.Sprint(e)
			}
		}()
		if err := gogen.VerifFormatNode(&buf, token.NewFileSet(), node); err != nil {
			fault = err.Error()
		}
	}()
	return buf.String(), fault
}

type c12Case struct {
	Stream string `json:"stream"`
	Source string `json:"source,omitempty"`
	Decl   string `json:"declaration,omitempty"`
	Text   string `json:"printed,omitempty"`
	Want   string `json:"want,omitempty"`
	Got    string `json:"got,omitempty"`
}

func c12Trunc(s string, n int) string {
	if len(s) > n {
		return s[:n] + "..."
	}
	return s
}

// ---------- stream S ----------

func c12Corpus(seed int64, quick bool) []string {
	root := filepath.Join(runtime.GOROOT(), "src")
	var files []string
	dirs := []string{"strings", "bytes", "go/types", "go/parser", "go/printer", "go/ast", "go/scanner", "go/constant", "net/http", "encoding/json", "text/template", "reflect", "sync", "os", "fmt", "strconv", "regexp/syntax", "math/big", "time", "bufio", "io", "sort", "slices", "maps", "container/heap", "context", "errors", "unicode/utf8", "path/filepath", "encoding/binary", "compress/flate", "crypto/sha256", "database/sql", "html/template", "image/png", "log/slog", "math/bits", "net/url", "sync/atomic", "testing", "text/tabwriter", "archive/tar"}
	for _, d := range dirs {
		ms, _ := filepath.Glob(filepath.Join(root, d, "*.go"))
		files = append(files, ms...)
	}
	sort.Strings(files)
	if quick {
		r := rand.New(rand.NewSource(seed))
		r.Shuffle(len(files), func(i, j int) { files[i], files[j] = files[j], files[i] })
		if len(files) > 140 {
			files = files[:140]
		}
		sort.Strings(files)
	}
	return files
}

func (m *meta) c12File(path string, n int) {
	fset := token.NewFileSet()
	f, err := parser.ParseFile(fset, path, nil, parser.SkipObjectResolution)
	if err != nil {
		return
	}
	want := make([]string, len(f.Decls))
	c12ClearPosKeepEllipsis(f)
	// without positions an import block is one group; the builder emits it sorted by path (C09/C15)
	for _, d := range f.Decls {
		if g, ok := d.(*ast.GenDecl); ok && g.Tok == token.IMPORT {
			sort.SliceStable(g.Specs, func(i, j int) bool {
				return g.Specs[i].(*ast.ImportSpec).Path.Value < g.Specs[j].(*ast.ImportSpec).Path.Value
			})
		}
	}
	for i, d := range f.Decls {
		want[i] = c12CanonOf(d)
	}
	m.DirectRuns++
	m.Dist["corpus files"]++
	m.Dist["corpus declarations"] += len(f.Decls)
	rel := path[strings.Index(path, "/src/")+5:]
	text, fault := c12Print(f)
	if fault != "" {
		m.Direct = append(m.Direct, directViolation{Case: n, What: "printing " + rel + " without positions faults: " + fault, Replay: c12Case{Stream: "corpus", Source: rel}})
		return
	}
	fs2 := token.NewFileSet()
	g, err := parser.ParseFile(fs2, "out.go", text, parser.SkipObjectResolution)
	if err != nil {
		m.Direct = append(m.Direct, directViolation{Case: n, What: fmt.Sprintf("%s printed without positions does not parse: %v", rel, err), Replay: c12Case{Stream: "corpus", Source: rel, Got: err.Error()}})
		return
	}
	if len(g.Decls) != len(f.Decls) {
		m.Direct = append(m.Direct, directViolation{Case: n, What: fmt.Sprintf("%s: %d declarations printed, %d read back", rel, len(f.Decls), len(g.Decls)), Replay: c12Case{Stream: "corpus", Source: rel}})
		return
	}
	for i, d := range g.Decls {
		if got := c12CanonOf(d); got != want[i] || c12Ellipses(d) != c12Ellipses(f.Decls[i]) {
			dt, _ := c12Print(f.Decls[i])
			k := 0
			for k < len(got) && k < len(want[i]) && got[k] == want[i][k] {
				k++
			}
			lo := max(0, k-120)
			m.Direct = append(m.Direct, directViolation{Case: n, Step: i, What: fmt.Sprintf("%s declaration %d is read back as a different tree", rel, i),
				Replay: c12Case{Stream: "corpus", Source: rel, Decl: c12Trunc(dt, 1500), Want: c12Trunc(want[i][lo:], 400), Got: c12Trunc(got[lo:], 400)}})
			return
		}
	}
	// canonical: a fixed point of the standard formatter
	if out, err := format.Source([]byte(text)); err != nil || string(out) != text {
		diff := ""
		if err == nil {
			a, b := strings.Split(text, "\n"), strings.Split(string(out), "\n")
			for i := 0; i < len(a) && i < len(b); i++ {
				if a[i] != b[i] {
					diff = fmt.Sprintf("line %d: %q vs gofmt %q", i+1, a[i], b[i])
					break
				}
			}
			if diff == "" {
				diff = fmt.Sprintf("%d lines vs %d lines", len(a), len(b))
			}
		} else {
			diff = err.Error()
		}
		cls := c12FixedPointClass(diff)
		m.Direct = append(m.Direct, directViolation{Case: n, What: fmt.Sprintf("%s printed without positions is not a fixed point of go/format: %s", rel, diff), Replay: c12Case{Stream: "corpus-gofmt", Source: rel, Got: diff}, Class: cls})
		if cls != nil {
			m.Known[fmt.Sprint(*cls)]++
		}
	}
}

// classification hook for known formatter deviations (filled from known_findings.jsonl classes)
func c12FixedPointClass(diff string) *int { return nil }

// positions are removed; the "..." of a variadic call is syntax carried by a position, so it is kept as a flag
func c12ClearPosKeepEllipsis(n ast.Node) {
	var calls []*ast.CallExpr
	ast.Inspect(n, func(x ast.Node) bool {
		if c, ok := x.(*ast.CallExpr); ok && c.Ellipsis.IsValid() {
			calls = append(calls, c)
		}
		return true
	})
	c12ClearPos(reflect.ValueOf(n))
	for _, c := range calls {
		c.Ellipsis = 1
	}
}

// ---------- stream E: the Coq fragment ----------

type c12Expr struct {
	kind string // id bin un paren call idx sel
	op   string
	n    int
	kids []*c12Expr
}

var c12BinOps = []string{"OLor", "OLand", "OEql", "ONeq", "OLss", "OLeq", "OGtr", "OGeq", "OAdd", "OSub", "OOr", "OXor", "OMul", "OQuo", "ORem", "OShl", "OShr", "OAnd", "OAndNot"}
var c12UnOps = []string{"OAdd", "OSub", "ONot", "OXor", "OAnd", "OArrow", "OMul"}
var c12Tok = map[string]token.Token{"OLor": token.LOR, "OLand": token.LAND, "OEql": token.EQL, "ONeq": token.NEQ, "OLss": token.LSS, "OLeq": token.LEQ, "OGtr": token.GTR, "OGeq": token.GEQ,
	"OAdd": token.ADD, "OSub": token.SUB, "OOr": token.OR, "OXor": token.XOR, "OMul": token.MUL, "OQuo": token.QUO, "ORem": token.REM, "OShl": token.SHL, "OShr": token.SHR, "OAnd": token.AND, "OAndNot": token.AND_NOT,
	"ONot": token.NOT, "OArrow": token.ARROW}
var c12TokName = func() map[token.Token]string {
	m := map[token.Token]string{}
	for k, v := range c12Tok {
		m[v] = k
	}
	return m
}()

func c12GenExpr(r *rand.Rand, depth int) *c12Expr {
	if depth <= 0 || r.Intn(7) == 0 {
		return &c12Expr{kind: "id", n: r.Intn(6)}
	}
	switch r.Intn(12) {
	case 0, 1, 2, 3, 4:
		return &c12Expr{kind: "bin", op: c12BinOps[r.Intn(len(c12BinOps))], kids: []*c12Expr{c12GenExpr(r, depth-1), c12GenExpr(r, depth-1)}}
	case 5, 6:
		op := c12UnOps[r.Intn(len(c12UnOps))]
		x := c12GenExpr(r, depth-1)
		if op == "OMul" && x.kind == "bin" { // a dereferenced bare binary expression is not a Go expression
			x = &c12Expr{kind: "paren", kids: []*c12Expr{x}}
		}
		return &c12Expr{kind: "un", op: op, kids: []*c12Expr{x}}
	case 7:
		return &c12Expr{kind: "paren", kids: []*c12Expr{c12GenExpr(r, depth-1)}}
	case 8, 9:
		n := r.Intn(4)
		kids := []*c12Expr{c12GenExpr(r, depth-1)}
		for i := 0; i < n; i++ {
			kids = append(kids, c12GenExpr(r, depth-1))
		}
		return &c12Expr{kind: "call", kids: kids}
	case 10:
		return &c12Expr{kind: "idx", kids: []*c12Expr{c12GenExpr(r, depth-1), c12GenExpr(r, depth-1)}}
	}
	return &c12Expr{kind: "sel", n: r.Intn(6), kids: []*c12Expr{c12GenExpr(r, depth-1)}}
}

func (e *c12Expr) ast() ast.Expr {
	switch e.kind {
	case "id":
		return &ast.Ident{Name: fmt.Sprintf("a%d", e.n)}
	case "bin":
		return &ast.BinaryExpr{X: e.kids[0].ast(), Op: c12Tok[e.op], Y: e.kids[1].ast()}
	case "un":
		if e.op == "OMul" {
			return &ast.StarExpr{X: e.kids[0].ast()}
		}
		return &ast.UnaryExpr{Op: c12Tok[e.op], X: e.kids[0].ast()}
	case "paren":
		return &ast.ParenExpr{X: e.kids[0].ast()}
	case "call":
		var args []ast.Expr
		for _, k := range e.kids[1:] {
			args = append(args, k.ast())
		}
		return &ast.CallExpr{Fun: e.kids[0].ast(), Args: args}
	case "idx":
		return &ast.IndexExpr{X: e.kids[0].ast(), Index: e.kids[1].ast()}
	}
	return &ast.SelectorExpr{X: e.kids[0].ast(), Sel: &ast.Ident{Name: fmt.Sprintf("a%d", e.n)}}
}

func (e *c12Expr) coq() string {
	switch e.kind {
	case "id":
		return fmt.Sprintf("(EId %d)", e.n)
	case "bin":
		return fmt.Sprintf("(EBin %s %s %s)", e.op, e.kids[0].coq(), e.kids[1].coq())
	case "un":
		return fmt.Sprintf("(EUn %s %s)", e.op, e.kids[0].coq())
	case "paren":
		return "(EParen " + e.kids[0].coq() + ")"
	case "call":
		a := "ANil"
		for i := len(e.kids) - 1; i >= 1; i-- {
			a = "(ACons " + e.kids[i].coq() + " " + a + ")"
		}
		return "(ECall " + e.kids[0].coq() + " " + a + ")"
	case "idx":
		return "(EIdx " + e.kids[0].coq() + " " + e.kids[1].coq() + ")"
	}
	return fmt.Sprintf("(ESel %s %d)", e.kids[0].coq(), e.n)
}

// the tree go/parser built, in the model's terms (parentheses kept)
func c12FromAST(x ast.Expr) (string, bool) {
	var idn = func(name string) (int, bool) {
		var n int
		if _, err := fmt.Sscanf(name, "a%d", &n); err != nil {
			return 0, false
		}
		return n, true
	}
	switch x := x.(type) {
	case *ast.Ident:
		n, ok := idn(x.Name)
		return fmt.Sprintf("(EId %d)", n), ok
	case *ast.BinaryExpr:
		l, ok1 := c12FromAST(x.X)
		r, ok2 := c12FromAST(x.Y)
		return fmt.Sprintf("(EBin %s %s %s)", c12TokName[x.Op], l, r), ok1 && ok2 && c12TokName[x.Op] != ""
	case *ast.UnaryExpr:
		s, ok := c12FromAST(x.X)
		return fmt.Sprintf("(EUn %s %s)", c12TokName[x.Op], s), ok && c12TokName[x.Op] != ""
	case *ast.StarExpr:
		s, ok := c12FromAST(x.X)
		return "(EUn OMul " + s + ")", ok
	case *ast.ParenExpr:
		s, ok := c12FromAST(x.X)
		return "(EParen " + s + ")", ok
	case *ast.CallExpr:
		f, ok := c12FromAST(x.Fun)
		a := "ANil"
		for i := len(x.Args) - 1; i >= 0; i-- {
			s, ok1 := c12FromAST(x.Args[i])
			ok = ok && ok1
			a = "(ACons " + s + " " + a + ")"
		}
		return "(ECall " + f + " " + a + ")", ok
	case *ast.IndexExpr:
		a, ok1 := c12FromAST(x.X)
		b, ok2 := c12FromAST(x.Index)
		return "(EIdx " + a + " " + b + ")", ok1 && ok2
	case *ast.SelectorExpr:
		a, ok1 := c12FromAST(x.X)
		n, ok2 := idn(x.Sel.Name)
		return fmt.Sprintf("(ESel %s %d)", a, n), ok1 && ok2
	}
	return "(EId 0)", false
}

func c12Tokens(text string) (string, bool) {
	var s scanner.Scanner
	fs := token.NewFileSet()
	s.Init(fs.AddFile("", fs.Base(), len(text)), []byte(text), nil, 0)
	var out []string
	for {
		_, tok, lit := s.Scan()
		switch tok {
		case token.EOF:
			return coqList(out), true
		case token.SEMICOLON:
			if lit == "\n" {
				continue
			}
			return "", false
		case token.IDENT:
			var n int
			if _, err := fmt.Sscanf(lit, "a%d", &n); err != nil {
				return "", false
			}
			out = append(out, fmt.Sprintf("TId %d", n))
		case token.LPAREN:
			out = append(out, "TLp")
		case token.RPAREN:
			out = append(out, "TRp")
		case token.LBRACK:
			out = append(out, "TLb")
		case token.RBRACK:
			out = append(out, "TRb")
		case token.COMMA:
			out = append(out, "TComma")
		case token.PERIOD:
			out = append(out, "TDot")
		default:
			name, ok := c12TokName[tok]
			if !ok {
				return "", false
			}
			out = append(out, "TOp "+name)
		}
	}
}

// ---------- stream X: every expression node kind ----------

func c12GenX(r *rand.Rand, depth int) ast.Expr {
	id := func() *ast.Ident { return &ast.Ident{Name: fmt.Sprintf("a%d", r.Intn(6))} }
	if depth <= 0 {
		switch r.Intn(6) {
		case 0:
			return &ast.BasicLit{Kind: token.INT, Value: []string{"0", "42", "0x1F", "0b101", "0o17", "1_000"}[r.Intn(6)]}
		case 1:
			return &ast.BasicLit{Kind: token.FLOAT, Value: []string{"1.5", "1e9", ".5", "0x1p-2", "1."}[r.Intn(5)]}
		case 2:
			return &ast.BasicLit{Kind: token.STRING, Value: []string{`"s"`, "`raw`", `"\n"`}[r.Intn(3)]}
		case 3:
			return &ast.BasicLit{Kind: token.CHAR, Value: []string{`'a'`, `'\n'`, `'\''`}[r.Intn(3)]}
		case 4:
			return &ast.BasicLit{Kind: token.IMAG, Value: "2i"}
		}
		return id()
	}
	sub := func() ast.Expr { return c12GenX(r, depth-1) }
	typ := func() ast.Expr {
		switch r.Intn(8) {
		case 0:
			return &ast.ArrayType{Elt: id()}
		case 1:
			return &ast.ArrayType{Len: &ast.BasicLit{Kind: token.INT, Value: "3"}, Elt: id()}
		case 2:
			return &ast.MapType{Key: id(), Value: &ast.ArrayType{Elt: id()}}
		case 3:
			return &ast.StarExpr{X: id()}
		case 4:
			return &ast.ChanType{Dir: []ast.ChanDir{ast.SEND, ast.RECV, ast.SEND | ast.RECV}[r.Intn(3)], Value: id()}
		case 5:
			return &ast.FuncType{Params: &ast.FieldList{List: []*ast.Field{{Type: id()}}}, Results: &ast.FieldList{List: []*ast.Field{{Type: id()}}}}
		case 6:
			return &ast.StructType{Fields: &ast.FieldList{List: []*ast.Field{{Names: []*ast.Ident{{Name: "F"}}, Type: id(), Tag: &ast.BasicLit{Kind: token.STRING, Value: "`k:\"v\"`"}}}}}
		}
		return &ast.InterfaceType{Methods: &ast.FieldList{}}
	}
	ops := []token.Token{token.LOR, token.LAND, token.EQL, token.NEQ, token.LSS, token.LEQ, token.GTR, token.GEQ, token.ADD, token.SUB, token.OR, token.XOR, token.MUL, token.QUO, token.REM, token.SHL, token.SHR, token.AND, token.AND_NOT}
	switch r.Intn(16) {
	case 0, 1, 2, 3:
		return &ast.BinaryExpr{X: sub(), Op: ops[r.Intn(len(ops))], Y: sub()}
	case 4, 5:
		return &ast.UnaryExpr{Op: []token.Token{token.ADD, token.SUB, token.NOT, token.XOR, token.AND, token.ARROW}[r.Intn(6)], X: sub()}
	case 6:
		x := sub()
		if _, isBin := x.(*ast.BinaryExpr); isBin {
			x = &ast.ParenExpr{X: x}
		}
		return &ast.StarExpr{X: x}
	case 7:
		return &ast.ParenExpr{X: sub()}
	case 8:
		c := &ast.CallExpr{Fun: sub(), Args: []ast.Expr{sub(), sub()}}
		if r.Intn(4) == 0 {
			c.Ellipsis = 1
		}
		return c
	case 9:
		return &ast.IndexExpr{X: sub(), Index: sub()}
	case 10:
		s := &ast.SliceExpr{X: sub()}
		if r.Intn(2) == 0 {
			s.Low = sub()
		}
		if r.Intn(2) == 0 {
			s.High = sub()
		}
		if s.High != nil && r.Intn(3) == 0 {
			s.Max = sub()
			s.Slice3 = true
		}
		return s
	case 11:
		return &ast.SelectorExpr{X: sub(), Sel: id()}
	case 12:
		if r.Intn(3) == 0 {
			return &ast.TypeAssertExpr{X: sub(), Type: typ()}
		}
		t := typ()
		switch t.(type) {
		case *ast.ChanType, *ast.StarExpr: // the builder parenthesises pointer and channel types in conversions (matchTypeCast)
			t = &ast.ParenExpr{X: t}
		}
		return &ast.CallExpr{Fun: t, Args: []ast.Expr{sub()}} // conversion
	case 13:
		t := []ast.Expr{&ast.ArrayType{Elt: id()}, &ast.MapType{Key: id(), Value: id()}, id(), &ast.ArrayType{Len: &ast.Ellipsis{}, Elt: id()}}[r.Intn(4)]
		cl := &ast.CompositeLit{Type: t}
		for i, n := 0, r.Intn(3); i < n; i++ {
			if _, isMap := t.(*ast.MapType); isMap || r.Intn(3) == 0 {
				cl.Elts = append(cl.Elts, &ast.KeyValueExpr{Key: sub(), Value: sub()})
			} else {
				cl.Elts = append(cl.Elts, sub())
			}
		}
		return cl
	case 14:
		body := &ast.BlockStmt{List: []ast.Stmt{&ast.ReturnStmt{Results: []ast.Expr{sub()}}}}
		return &ast.FuncLit{Type: &ast.FuncType{Params: &ast.FieldList{}, Results: &ast.FieldList{List: []*ast.Field{{Type: id()}}}}, Body: body}
	}
	return id()
}

// composite literals are not allowed bare in statement headers etc.; as a plain expression every
// tree above is syntactically valid except a composite literal whose type is a bare identifier at
// the start of ParseExpr input, which is fine too.

// ---------- stream C: statement comments ----------

func c12Comments(m *meta, r *rand.Rand, n int) {
	for k := 0; k < n; k++ {
		pkg := gogen.NewPackage("", "main", &gogen.Config{Fset: token.NewFileSet(), Importer: c12Imp})
		cb := pkg.NewFunc(nil, "f", nil, nil, false).BodyStart(pkg)
		tyInt := types.Typ[types.Int]
		cnt := 0
		var set []string
		var emit func(depth int)
		comment := func() {
			if r.Intn(3) > 0 {
				cnt++
				set = append(set, fmt.Sprintf("// c%d", cnt))
				cb.SetComments(&ast.CommentGroup{List: []*ast.Comment{{Text: fmt.Sprintf("\n// c%d", cnt)}}}, true) // the client convention: the text starts on a new line
			} else {
				cnt++ // numbering stays aligned with statements
			}
		}
		emit = func(depth int) {
			for i, ns := 0, 1+r.Intn(3); i < ns; i++ {
				comment()
				name := fmt.Sprintf("x%d", cnt)
				switch kind := r.Intn(7); {
				case kind == 0 && depth > 0:
					cb.If().Val(true).Then()
					cb.NewVar(tyInt, name)
					emit(depth - 1)
					cb.End()
				case kind == 1 && depth > 0:
					cb.For().Val(true).Then()
					cb.NewVar(tyInt, name)
					emit(depth - 1)
					cb.End()
				case kind == 2 && depth > 0:
					cb.Block()
					cb.NewVar(tyInt, name)
					emit(depth - 1)
					cb.End()
				case kind == 3:
					l := cb.NewLabel(token.NoPos, token.NoPos, fmt.Sprintf("L%d", cnt))
					cb.Label(l)
					cb.NewVar(tyInt, name)
					cb.Goto(l)
				case kind == 4:
					cb.DefineVarStart(token.NoPos, name).Val(cnt).EndInit(1)
				default:
					cb.NewVar(tyInt, name)
				}
			}
		}
		fault := ""
		var out bytes.Buffer
		func() {
			defer func() {
				if e := recover(); e != nil {
					fault = fmt.Sprint(e)
				}
			}()
			emit(2)
			cb.End()
			if err := pkg.WriteTo(&out); err != nil {
				fault = err.Error()
			}
		}()
		m.DirectRuns++
		m.Dist["commented functions"]++
		if fault != "" {
			m.Direct = append(m.Direct, directViolation{Case: k, What: "building a function with statement comments faults: " + fault, Replay: c12Case{Stream: "comments"}})
			continue
		}
		lines := strings.Split(out.String(), "\n")
		seen := map[string]int{}
		for i, ln := range lines {
			t := strings.TrimSpace(ln)
			if !strings.HasPrefix(t, "// c") {
				continue
			}
			seen[t]++
			id := strings.TrimPrefix(t, "// c")
			next := ""
			if i+1 < len(lines) {
				next = strings.TrimSpace(lines[i+1])
			}
			// directly before its statement: the next line is the statement carrying marker x<id> (or its label / header)
			ok := strings.Contains(next, "x"+id+" ") || strings.HasSuffix(next, "x"+id) || strings.HasPrefix(next, "L"+id+":") ||
				strings.HasPrefix(next, "if ") || strings.HasPrefix(next, "for ") || next == "{"
			if ok && (strings.HasPrefix(next, "if ") || strings.HasPrefix(next, "for ") || next == "{" || strings.HasPrefix(next, "L"+id+":")) {
				// header / label line: the marker declaration follows inside
				ok = i+2 < len(lines) && (strings.Contains(lines[i+2], "x"+id+" ") || strings.Contains(lines[i+2], "x"+id))
			}
			if !ok {
				m.Direct = append(m.Direct, directViolation{Case: k, What: fmt.Sprintf("comment %q is not directly before its statement (next line %q)", t, next), Replay: c12Case{Stream: "comments", Text: out.String()}})
				break
			}
		}
		// canonical form: the standard formatter indents the comment with its statement
		if fo, err := format.Source(out.Bytes()); err == nil && string(fo) != out.String() {
			norm := func(s string) string {
				ls := strings.Split(s, "\n")
				for i, l := range ls {
					if strings.HasPrefix(strings.TrimSpace(l), "//") {
						ls[i] = strings.TrimSpace(l)
					}
				}
				return strings.Join(ls, "\n")
			}
			dv := directViolation{Case: k, What: "a function with statement comments is not a fixed point of go/format", Replay: c12Case{Stream: "comments-gofmt", Text: out.String(), Got: string(fo)}}
			if norm(string(fo)) == norm(out.String()) {
				one := 1
				dv.Class = &one
				dv.What = "statement comments are printed at column 0 instead of the statement's indentation: the text is not a fixed point of go/format"
				m.Known["1"]++
			}
			m.Direct = append(m.Direct, dv)
		}
		for _, t := range set {
			if seen[t] == 0 {
				m.Direct = append(m.Direct, directViolation{Case: k, What: fmt.Sprintf("comment %q attached to a statement is not printed", t), Replay: c12Case{Stream: "comments", Text: out.String()}})
				break
			}
		}
		for t, c := range seen {
			if c != 1 {
				m.Direct = append(m.Direct, directViolation{Case: k, What: fmt.Sprintf("comment %q printed %d times", t, c), Replay: c12Case{Stream: "comments", Text: out.String()}})
				break
			}
		}
	}
}

func runC12(a *runArgs) error {
	quick := a.Tier != "thorough"
	nE, nX, nC, depth := 1500, 1500, 60, 5
	if !quick {
		nE, nX, nC, depth = 12000, 20000, 600, 7
	}
	r := rand.New(rand.NewSource(a.Seed))
	m := &meta{Property: "C12", Seed: a.Seed, Tier: a.Tier, PerShard: 300,
		Strata: map[string]int{}, Dist: map[string]int{}, Known: map[string]int{},
		Rule: "S: standard-library files with all positions removed (140 sampled per quick run, all of 42 directories thorough); E: random expression trees of depth <= 5 (7) in the fragment modelled in Coq (19 binary and 7 prefix operators, parentheses, calls, indexing, selectors); X: random trees over every expression node kind; C: builder-made functions with statement comments; distinct = distinct printed texts; non-trivial = at least one operator"}
	cw := newCaseWriter(a.Out, "C12", "From GV Require Import C12.Model C12.Check.", "c12case", 300, "k1_bad cases", "k2_bad cases", "hyp_bad cases")
	cl := newCaseLog(a.Out)
	defer cl.close()
	n := 0
	for _, f := range c12Corpus(a.Seed, quick) {
		m.c12File(f, n)
		n++
	}
	seen := map[string]bool{}
	for i := 0; i < nE; i++ {
		e := c12GenExpr(r, 1+r.Intn(depth))
		tree := e.ast()
		text, fault := c12Print(tree)
		if seen[text] {
			continue
		}
		seen[text] = true
		c := c12Case{Stream: "E", Text: text}
		m.DirectRuns++
		if fault != "" {
			m.Direct = append(m.Direct, directViolation{Case: n, What: "printing an expression faults: " + fault, Replay: c})
			continue
		}
		back, err := parser.ParseExpr(text)
		toks, tokOK := c12Tokens(text)
		obsTree, treeOK := "(EId 0)", false
		if err == nil {
			obsTree, treeOK = c12FromAST(back)
		}
		if err != nil || c12CanonOf(back) != c12CanonOf(tree) {
			c.Want = c12Trunc(c12CanonOf(tree), 600)
			if err == nil {
				c.Got = c12Trunc(c12CanonOf(back), 600)
			} else {
				c.Got = err.Error()
			}
			m.Direct = append(m.Direct, directViolation{Case: n, What: fmt.Sprintf("expression printed as %q is read back as a different tree", c12Trunc(text, 200)), Replay: c})
		}
		if !tokOK {
			toks = "[]"
		}
		cw.add(fmt.Sprintf("mkCase %s %s %s %s", e.coq(), toks, obsTree, coqBool(treeOK && tokOK)))
		cl.add(c)
		m.Dist["E"]++
		if len(m.Samples) < 5 && i%97 == 0 {
			m.Samples = append(m.Samples, c)
		}
		n++
	}
	cw.flush()
	for i := 0; i < nX; i++ {
		tree := c12GenX(r, 1+r.Intn(depth-1))
		want := c12CanonOf(tree)
		text, fault := c12Print(tree)
		c := c12Case{Stream: "X", Text: c12Trunc(text, 1200)}
		m.DirectRuns++
		m.Dist["X"]++
		if fault != "" {
			m.Direct = append(m.Direct, directViolation{Case: n, What: "printing an expression faults: " + fault, Replay: c})
			continue
		}
		back, err := parser.ParseExpr(text)
		if err != nil || c12CanonOf(back) != want || c12Ellipses(back) != c12Ellipses(tree) {
			c.Want = c12Trunc(want, 800)
			if err == nil {
				c.Got = c12Trunc(c12CanonOf(back), 800)
			} else {
				c.Got = err.Error()
			}
			m.Direct = append(m.Direct, directViolation{Case: n, What: fmt.Sprintf("expression printed as %q is read back as a different tree", c12Trunc(text, 200)), Replay: c})
		}
		n++
	}
	c12Comments(m, r, nC)
	m.Cases = n + nC
	m.Distinct = len(seen) + m.Dist["corpus declarations"]
	m.Files = cw.files
	_ = os.Stdout
	return writeJSON(filepath.Join(a.Out, "meta.json"), m)
}

var c12Imp = importer.ForCompiler(token.NewFileSet(), "source", nil)
