package main

// C17 — every operation on every operand kind either succeeds or reports; it never fails with a
// Go run-time fault, never loops, never allocates in proportion to a constant's VALUE.
//  grid:    operation x operand kind(s), in process (faults are recovered panics of type runtime.Error)
//  hostile: extreme shift counts, huge literals, deep nesting — in a child process with an address
//           space limit and a deadline (a crash or time-out of the child is the fault)

import (
	"bufio"
	"fmt"
	"go/ast"
	"go/importer"
	"go/token"
	"go/types"
	"os"
	"os/exec"
	"path/filepath"
	"runtime"
	"strings"
	"syscall"
	"time"

	"github.com/goplus/gogen"
)

func init() { register("C17", runC17) }

type c17Operand struct {
	Name string
	Push func(w *c17World, cb *gogen.CodeBuilder, ref bool)
}

type c17World struct {
	pkg  *gogen.Package
	errs int
	vars map[string]*types.Var
}

var c17Imp types.Importer

func newC17World() *c17World {
	w := &c17World{vars: map[string]*types.Var{}}
	w.pkg = gogen.NewPackage("", "main", &gogen.Config{Fset: token.NewFileSet(), Importer: c17Imp,
		HandleErr: func(err error) { w.errs++ }})
	tyInt := types.Typ[types.Int]
	tys := map[string]types.Type{
		"vint": tyInt, "vuint8": types.Typ[types.Uint8], "vfloat": types.Typ[types.Float64], "vstring": types.Typ[types.String],
		"vbool": types.Typ[types.Bool], "vslice": types.NewSlice(tyInt), "varray": types.NewArray(tyInt, 2),
		"vmap": types.NewMap(types.Typ[types.String], tyInt), "vchan": types.NewChan(types.SendRecv, tyInt),
		"vfunc": types.NewSignatureType(nil, nil, nil, nil, nil, false), "vptr": types.NewPointer(tyInt),
		"vstruct": types.NewStruct([]*types.Var{types.NewField(token.NoPos, w.pkg.Types, "A", tyInt, false)}, nil),
		"viface":  types.NewInterfaceType(nil, nil), "verror": types.Universe.Lookup("error").Type(),
		"vcomplex": types.Typ[types.Complex128], "vuptr": types.Typ[types.UnsafePointer],
	}
	for n, t := range tys {
		w.vars[n] = types.NewParam(token.NoPos, w.pkg.Types, n, t)
	}
	return w
}

func c17Operands() []c17Operand {
	var ops []c17Operand
	lit := func(name string, kind token.Token, v string) {
		ops = append(ops, c17Operand{name, func(w *c17World, cb *gogen.CodeBuilder, ref bool) {
			cb.Val(&ast.BasicLit{Kind: kind, Value: v})
		}})
	}
	lit("0", token.INT, "0")
	lit("1", token.INT, "1")
	lit("big", token.INT, "1267650600228229401496703205376")
	lit("2.5", token.FLOAT, "2.5")
	lit("2.0", token.FLOAT, "2.0")
	lit("'a'", token.CHAR, "'a'")
	lit(`"s"`, token.STRING, `"s"`)
	lit("2i", token.IMAG, "2i")
	ops = append(ops, c17Operand{"true", func(w *c17World, cb *gogen.CodeBuilder, ref bool) { cb.Val(true) }})
	ops = append(ops, c17Operand{"nil", func(w *c17World, cb *gogen.CodeBuilder, ref bool) { cb.Val(nil) }})
	ops = append(ops, c17Operand{"-1", func(w *c17World, cb *gogen.CodeBuilder, ref bool) { cb.Val(1).UnaryOp(token.SUB) }})
	for _, n := range []string{"vint", "vuint8", "vfloat", "vstring", "vbool", "vslice", "varray", "vmap", "vchan", "vfunc", "vptr", "vstruct", "viface", "verror", "vcomplex", "vuptr"} {
		n := n
		ops = append(ops, c17Operand{n, func(w *c17World, cb *gogen.CodeBuilder, ref bool) {
			if ref {
				cb.VarRef(w.vars[n])
			} else {
				cb.Val(w.vars[n])
			}
		}})
	}
	return ops
}

type c17Operation struct {
	Name  string
	Arity int
	Ref0  bool // first operand is built as an assignment target
	Do    func(w *c17World, cb *gogen.CodeBuilder)
	Pre   func(w *c17World, cb *gogen.CodeBuilder) // before the operands
}

func c17Operations() []c17Operation {
	var l []c17Operation
	for _, t := range []token.Token{token.SUB, token.ADD, token.XOR, token.NOT, token.ARROW, token.AND} {
		t := t
		l = append(l, c17Operation{Name: "unary" + t.String(), Arity: 1, Do: func(w *c17World, cb *gogen.CodeBuilder) { cb.UnaryOp(t) }})
	}
	l = append(l, c17Operation{Name: "Star", Arity: 1, Do: func(w *c17World, cb *gogen.CodeBuilder) { cb.Star() }})
	for _, t := range []token.Token{token.ADD, token.SUB, token.MUL, token.QUO, token.REM, token.AND, token.OR, token.XOR, token.AND_NOT, token.SHL, token.SHR,
		token.LSS, token.LEQ, token.GTR, token.GEQ, token.EQL, token.NEQ, token.LAND, token.LOR} {
		t := t
		l = append(l, c17Operation{Name: "binary" + t.String(), Arity: 2, Do: func(w *c17World, cb *gogen.CodeBuilder) { cb.BinaryOp(t) }})
	}
	l = append(l,
		c17Operation{Name: "IncDec(ref)", Arity: 1, Ref0: true, Do: func(w *c17World, cb *gogen.CodeBuilder) { cb.IncDec(token.INC) }},
		c17Operation{Name: "IncDec(val)", Arity: 1, Do: func(w *c17World, cb *gogen.CodeBuilder) { cb.IncDec(token.INC) }},
		c17Operation{Name: "AssignOp(ref)", Arity: 2, Ref0: true, Do: func(w *c17World, cb *gogen.CodeBuilder) { cb.AssignOp(token.ADD_ASSIGN) }},
		c17Operation{Name: "AssignOp(val)", Arity: 2, Do: func(w *c17World, cb *gogen.CodeBuilder) { cb.AssignOp(token.ADD_ASSIGN) }},
		c17Operation{Name: "Assign(ref)", Arity: 2, Ref0: true, Do: func(w *c17World, cb *gogen.CodeBuilder) { cb.Assign(1) }},
		c17Operation{Name: "Assign(val)", Arity: 2, Do: func(w *c17World, cb *gogen.CodeBuilder) { cb.Assign(1) }},
		c17Operation{Name: "Send", Arity: 2, Do: func(w *c17World, cb *gogen.CodeBuilder) { cb.Send() }},
		c17Operation{Name: "Index", Arity: 2, Do: func(w *c17World, cb *gogen.CodeBuilder) { cb.Index(1, 0) }},
		c17Operation{Name: "Index2", Arity: 2, Do: func(w *c17World, cb *gogen.CodeBuilder) { cb.Index(1, 2) }},
		c17Operation{Name: "IndexRef", Arity: 2, Do: func(w *c17World, cb *gogen.CodeBuilder) { cb.IndexRef(1) }},
		c17Operation{Name: "Slice", Arity: 2, Do: func(w *c17World, cb *gogen.CodeBuilder) { cb.None().Slice(false) }},
		c17Operation{Name: "MemberVal", Arity: 1, Do: func(w *c17World, cb *gogen.CodeBuilder) { cb.MemberVal("A", 0) }},
		c17Operation{Name: "MemberRef", Arity: 1, Do: func(w *c17World, cb *gogen.CodeBuilder) { cb.MemberRef("A") }},
		c17Operation{Name: "Call1", Arity: 2, Do: func(w *c17World, cb *gogen.CodeBuilder) { cb.Call(1) }},
		c17Operation{Name: "Call0", Arity: 1, Do: func(w *c17World, cb *gogen.CodeBuilder) { cb.Call(0) }},
		c17Operation{Name: "CallEllipsis", Arity: 2, Do: func(w *c17World, cb *gogen.CodeBuilder) { cb.Call(1, true) }},
		c17Operation{Name: "TypeAssert", Arity: 1, Do: func(w *c17World, cb *gogen.CodeBuilder) { cb.TypeAssert(types.Typ[types.Int], 0) }},
		c17Operation{Name: "TypeAssert2", Arity: 1, Do: func(w *c17World, cb *gogen.CodeBuilder) { cb.TypeAssert(types.Typ[types.Int], 2) }},
		c17Operation{Name: "Elem", Arity: 1, Do: func(w *c17World, cb *gogen.CodeBuilder) { cb.Elem() }},
		c17Operation{Name: "Return1", Arity: 1, Do: func(w *c17World, cb *gogen.CodeBuilder) { cb.Return(1) }},
		c17Operation{Name: "EndStmt", Arity: 1, Do: func(w *c17World, cb *gogen.CodeBuilder) { cb.EndStmt() }},
		c17Operation{Name: "Go", Arity: 1, Do: func(w *c17World, cb *gogen.CodeBuilder) { cb.Go() }},
		c17Operation{Name: "Defer", Arity: 1, Do: func(w *c17World, cb *gogen.CodeBuilder) { cb.Defer() }},
		c17Operation{Name: "IfCond", Arity: 1, Pre: func(w *c17World, cb *gogen.CodeBuilder) { cb.If() }, Do: func(w *c17World, cb *gogen.CodeBuilder) { cb.Then().End() }},
		c17Operation{Name: "ForCond", Arity: 1, Pre: func(w *c17World, cb *gogen.CodeBuilder) { cb.For() }, Do: func(w *c17World, cb *gogen.CodeBuilder) { cb.Then().End() }},
		c17Operation{Name: "SwitchTagCase", Arity: 2, Pre: func(w *c17World, cb *gogen.CodeBuilder) { cb.Switch() }, Do: func(w *c17World, cb *gogen.CodeBuilder) {
			y := cb.InternalStack().Pop()
			cb.Then().Case()
			cb.InternalStack().Push(y)
			cb.Then().End().End()
		}},
		c17Operation{Name: "TypeSwitch", Arity: 1, Pre: func(w *c17World, cb *gogen.CodeBuilder) { cb.TypeSwitch("t") }, Do: func(w *c17World, cb *gogen.CodeBuilder) {
			cb.TypeAssertThen().TypeCase().Typ(types.Typ[types.Int]).Then().End().End()
		}},
		c17Operation{Name: "Range", Arity: 1, Pre: func(w *c17World, cb *gogen.CodeBuilder) { cb.ForRange("k", "v") }, Do: func(w *c17World, cb *gogen.CodeBuilder) {
			cb.RangeAssignThen(token.NoPos).End()
		}},
		c17Operation{Name: "RangeAssign", Arity: 2, Ref0: true, Pre: func(w *c17World, cb *gogen.CodeBuilder) { cb.ForRange() }, Do: func(w *c17World, cb *gogen.CodeBuilder) {
			cb.RangeAssignThen(token.NoPos).End()
		}},
		c17Operation{Name: "SelectRecv", Arity: 1, Pre: func(w *c17World, cb *gogen.CodeBuilder) { cb.Select().CommCase() }, Do: func(w *c17World, cb *gogen.CodeBuilder) {
			cb.UnaryOp(token.ARROW).EndStmt().Then().End().End()
		}},
		c17Operation{Name: "SliceLit", Arity: 2, Do: func(w *c17World, cb *gogen.CodeBuilder) { cb.SliceLit(types.NewSlice(types.Typ[types.Int]), 2) }},
		c17Operation{Name: "SliceLitKV", Arity: 2, Do: func(w *c17World, cb *gogen.CodeBuilder) { cb.SliceLit(types.NewSlice(types.Typ[types.Int]), 2, true) }},
		c17Operation{Name: "ArrayLitKV", Arity: 2, Do: func(w *c17World, cb *gogen.CodeBuilder) {
			cb.ArrayLit(types.NewArray(types.Typ[types.Int], 2), 2, true)
		}},
		c17Operation{Name: "MapLit", Arity: 2, Do: func(w *c17World, cb *gogen.CodeBuilder) {
			cb.MapLit(types.NewMap(types.Typ[types.String], types.Typ[types.Int]), 2)
		}},
		c17Operation{Name: "MapLitNil", Arity: 2, Do: func(w *c17World, cb *gogen.CodeBuilder) { cb.MapLit(nil, 2) }},
		c17Operation{Name: "StructLit", Arity: 1, Do: func(w *c17World, cb *gogen.CodeBuilder) { cb.StructLit(w.vars["vstruct"].Type(), 1, false) }},
		c17Operation{Name: "StructLitKV", Arity: 2, Do: func(w *c17World, cb *gogen.CodeBuilder) { cb.StructLit(w.vars["vstruct"].Type(), 2, true) }},
		c17Operation{Name: "DefineInit", Arity: 1, Pre: func(w *c17World, cb *gogen.CodeBuilder) { cb.DefineVarStart(token.NoPos, "z") }, Do: func(w *c17World, cb *gogen.CodeBuilder) { cb.EndInit(1) }},
		c17Operation{Name: "VarInitInt", Arity: 1, Pre: func(w *c17World, cb *gogen.CodeBuilder) { cb.NewVarStart(types.Typ[types.Int], "z") }, Do: func(w *c17World, cb *gogen.CodeBuilder) { cb.EndInit(1) }},
		c17Operation{Name: "ConstInit", Arity: 1, Pre: func(w *c17World, cb *gogen.CodeBuilder) { cb.NewConstStart(nil, "z") }, Do: func(w *c17World, cb *gogen.CodeBuilder) { cb.EndInit(1) }},
	)
	for _, tn := range []string{"int", "string", "[]byte", "*int", "iface", "float64", "uint8"} {
		tn := tn
		l = append(l, c17Operation{Name: "Conv:" + tn, Arity: 1,
			Pre: func(w *c17World, cb *gogen.CodeBuilder) {
				var t types.Type
				switch tn {
				case "int":
					t = types.Typ[types.Int]
				case "string":
					t = types.Typ[types.String]
				case "[]byte":
					t = types.NewSlice(types.Typ[types.Byte])
				case "*int":
					t = types.NewPointer(types.Typ[types.Int])
				case "iface":
					t = types.NewInterfaceType(nil, nil)
				case "float64":
					t = types.Typ[types.Float64]
				default:
					t = types.Typ[types.Uint8]
				}
				cb.Typ(t)
			},
			Do: func(w *c17World, cb *gogen.CodeBuilder) { cb.Call(1) }})
	}
	for _, bn := range []string{"len", "cap", "append", "copy", "delete", "close", "new", "make", "panic", "min", "max", "complex", "real", "print", "clear"} {
		bn := bn
		for _, ar := range []int{1, 2} {
			ar := ar
			l = append(l, c17Operation{Name: fmt.Sprintf("builtin:%s/%d", bn, ar), Arity: ar,
				Pre: func(w *c17World, cb *gogen.CodeBuilder) { cb.Val(w.pkg.Builtin().Ref(bn)) },
				Do:  func(w *c17World, cb *gogen.CodeBuilder) { cb.Call(ar) }})
		}
	}
	return l
}

type c17Outcome struct {
	Op, X, Y string
	Class    string // ok reported fault
	Msg      string
}

var c17Shared *c17World
var c17Seq int

func c17Run(op c17Operation, x, y *c17Operand) (out c17Outcome) {
	out = c17Outcome{Op: op.Name, X: x.Name}
	if y != nil {
		out.Y = y.Name
	}
	if c17Shared == nil || c17Seq%40 == 0 {
		c17Shared = newC17World() // a fresh package every 40 cases; after a fault or an abandoned block immediately
	}
	c17Seq++
	w := c17Shared
	w.errs = 0
	defer func() {
		if out.Class == "fault" {
			c17Shared = nil
		}
	}()
	defer func() {
		if e := recover(); e != nil {
			out.Msg = fmt.Sprint(e)
			if _, ok := e.(runtime.Error); ok {
				out.Class = "fault"
			} else {
				out.Class = "reported"
			}
		}
	}()
	res := types.NewTuple(types.NewParam(token.NoPos, w.pkg.Types, "", types.Typ[types.Int]))
	cb := w.pkg.NewFunc(nil, fmt.Sprintf("f%d", c17Seq), nil, res, false).BodyStart(w.pkg)
	if op.Pre != nil {
		op.Pre(w, cb)
	}
	x.Push(w, cb, op.Ref0)
	if y != nil {
		y.Push(w, cb, false)
	}
	op.Do(w, cb)
	out.Class = "ok"
	if w.errs > 0 {
		out.Class = "reported"
	}
	cb.InternalStack().SetLen(0)
	func() { // close the function if the operation left it open and balanced
		defer func() { recover() }()
		cb.End()
	}()
	return
}

// ---- hostile inputs, executed in a child process ----

type c17Hostile struct {
	Name string
	Run  func()
}

func c17HostileCases() []c17Hostile {
	var l []c17Hostile
	shift := func(left, count string) c17Hostile {
		return c17Hostile{"shift " + left + " << " + count, func() {
			w := newC17World()
			cb := w.pkg.NewFunc(nil, "f", nil, nil, false).BodyStart(w.pkg)
			neg := strings.HasPrefix(count, "-")
			cb.Val(&ast.BasicLit{Kind: token.INT, Value: left})
			cb.Val(&ast.BasicLit{Kind: token.INT, Value: strings.TrimPrefix(count, "-")})
			if neg {
				cb.UnaryOp(token.SUB)
			}
			cb.BinaryOp(token.SHL)
		}}
	}
	for _, left := range []string{"1", "1267650600228229401496703205376"} {
		for _, c := range []string{"0", "63", "64", "1074", "1075", "65536", "4294967296", "1099511627776", "4611686018427387904", "9223372036854775807", "9223372036854775808", "100000000000000000000", "-1", "-7", "-9223372036854775808"} {
			l = append(l, shift(left, c))
		}
	}
	l = append(l, c17Hostile{"literal with 10^4 digits in arithmetic", func() {
		w := newC17World()
		cb := w.pkg.NewFunc(nil, "f", nil, nil, false).BodyStart(w.pkg)
		big := "1" + strings.Repeat("0", 10000)
		cb.Val(&ast.BasicLit{Kind: token.INT, Value: big}).Val(&ast.BasicLit{Kind: token.INT, Value: big}).BinaryOp(token.MUL).Val(7).BinaryOp(token.REM)
	}})
	l = append(l, c17Hostile{"expression nested 5000 deep", func() {
		w := newC17World()
		cb := w.pkg.NewFunc(nil, "f", nil, nil, false).BodyStart(w.pkg)
		cb.Val(w.vars["vint"])
		for i := 0; i < 5000; i++ {
			cb.Val(1).BinaryOp(token.ADD)
		}
		cb.EndStmt()
	}})
	l = append(l, c17Hostile{"blocks nested 2000 deep", func() {
		w := newC17World()
		cb := w.pkg.NewFunc(nil, "f", nil, nil, false).BodyStart(w.pkg)
		for i := 0; i < 2000; i++ {
			cb.If().Val(true).Then()
		}
		for i := 0; i < 2000; i++ {
			cb.End()
		}
		cb.End()
	}})
	l = append(l, c17Hostile{"pointer type nested 3000 deep", func() {
		w := newC17World()
		var t types.Type = types.Typ[types.Int]
		for i := 0; i < 3000; i++ {
			t = types.NewPointer(t)
		}
		w.pkg.CB().NewVar(t, "deep")
		var sb strings.Builder
		w.pkg.WriteTo(&sb)
	}})
	// structural inputs whose size is linear but whose number of paths is exponential / quadratic
	lattice := func(w *c17World, n int) *types.Var {
		// L<i>a and L<i>b both embed *L<i+1>a and *L<i+1>b: 2n structs, 2^n embedding paths
		mk := func(name string) *types.Named {
			return types.NewNamed(types.NewTypeName(token.NoPos, w.pkg.Types, name, nil), nil, nil)
		}
		var next [2]*types.Named
		for i := n - 1; i >= 0; i-- {
			var cur [2]*types.Named
			for j, suf := range []string{"a", "b"} {
				t := mk(fmt.Sprintf("L%d%s", i, suf))
				var fs []*types.Var
				if next[0] != nil {
					for _, e := range next {
						fs = append(fs, types.NewField(token.NoPos, w.pkg.Types, e.Obj().Name(), types.NewPointer(e), true))
					}
				} else {
					fs = append(fs, types.NewField(token.NoPos, w.pkg.Types, "leaf"+suf, types.Typ[types.Int], false))
				}
				t.SetUnderlying(types.NewStruct(fs, nil))
				cur[j] = t
			}
			next = cur
		}
		return types.NewParam(token.NoPos, w.pkg.Types, "lat", next[0])
	}
	for _, n := range []int{24, 60} {
		n := n
		l = append(l, c17Hostile{fmt.Sprintf("missing member of a %d-level diamond embedding lattice (MemberVal)", n), func() {
			w := newC17World()
			v := lattice(w, n)
			cb := w.pkg.NewFunc(nil, "f", nil, nil, false).BodyStart(w.pkg)
			cb.Val(v).MemberVal("nope", 0)
		}})
		l = append(l, c17Hostile{fmt.Sprintf("missing member of a %d-level diamond embedding lattice (MemberRef)", n), func() {
			w := newC17World()
			v := lattice(w, n)
			cb := w.pkg.NewFunc(nil, "f", nil, nil, false).BodyStart(w.pkg)
			cb.Val(v).MemberRef("nope")
		}})
		l = append(l, c17Hostile{fmt.Sprintf("deepest member of a %d-level diamond embedding lattice", n), func() {
			w := newC17World()
			v := lattice(w, n)
			cb := w.pkg.NewFunc(nil, "f", nil, nil, false).BodyStart(w.pkg)
			cb.Val(v).MemberVal("leafb", 0)
		}})
	}
	l = append(l, c17Hostile{"member through an embedding chain 2000 long", func() {
		w := newC17World()
		var inner types.Type = types.NewStruct([]*types.Var{types.NewField(token.NoPos, w.pkg.Types, "x", types.Typ[types.Int], false)}, nil)
		for i := 0; i < 2000; i++ {
			t := types.NewNamed(types.NewTypeName(token.NoPos, w.pkg.Types, fmt.Sprintf("C%d", i), nil), inner, nil)
			inner = types.NewStruct([]*types.Var{types.NewField(token.NoPos, w.pkg.Types, t.Obj().Name(), t, true)}, nil)
		}
		v := types.NewParam(token.NoPos, w.pkg.Types, "chain", inner)
		cb := w.pkg.NewFunc(nil, "f", nil, nil, false).BodyStart(w.pkg)
		cb.Val(v).MemberVal("x", 0).EndStmt()
		cb.Val(v).MemberVal("nope", 0)
	}})
	return l
}

func c17Child() {
	// 2 GiB of address space, 20 s of CPU: a value-proportional allocation or a loop dies here
	syscall.Setrlimit(syscall.RLIMIT_AS, &syscall.Rlimit{Cur: 3 << 30, Max: 3 << 30})
	syscall.Setrlimit(syscall.RLIMIT_CPU, &syscall.Rlimit{Cur: 25, Max: 25})
	c17Imp = importer.ForCompiler(token.NewFileSet(), "source", nil)
	start := 0
	fmt.Sscan(os.Getenv("VERIF_C17_START"), &start)
	cases := c17HostileCases()
	out := bufio.NewWriter(os.Stdout)
	newC17World() // warm-up: importer and builtin package initialisation are not part of any case
	cpu := func() time.Duration {
		var ru syscall.Rusage
		syscall.Getrusage(syscall.RUSAGE_SELF, &ru)
		return time.Duration(ru.Utime.Nano() + ru.Stime.Nano())
	}
	for i := start; i < len(cases); i++ {
		fmt.Fprintf(out, "START %d\n", i)
		out.Flush()
		t0 := cpu()
		res := "ok"
		func() {
			defer func() {
				if e := recover(); e != nil {
					if _, ok := e.(runtime.Error); ok {
						res = "fault " + strings.ReplaceAll(fmt.Sprint(e), "\n", " ")
					} else {
						res = "reported"
					}
				}
			}()
			cases[i].Run()
		}()
		var ms runtime.MemStats
		runtime.ReadMemStats(&ms)
		fmt.Fprintf(out, "DONE %d %d %d %s\n", i, (cpu() - t0).Milliseconds(), ms.Sys>>20, res)
		out.Flush()
	}
}

func runC17(a *runArgs) error {
	if os.Getenv("VERIF_C17_CHILD") == "1" {
		c17Child()
		return nil
	}
	c17Imp = importer.ForCompiler(token.NewFileSet(), "source", nil)
	m := &meta{Property: "C17", Seed: a.Seed, Tier: a.Tier, PerShard: 1,
		Strata: map[string]int{}, Dist: map[string]int{}, Known: map[string]int{},
		Rule: "grid: every operation (unary/binary operators, IncDec, AssignOp, Assign, Send, Index, Slice, Member, Call, TypeAssert, conversions, builtins, literals, statement headers, initialisers) x every operand kind (untyped constants of each kind, nil, variables of every type class), binary operations x all pairs; hostile stream in a resource-limited child: shift counts up to 2^63 and negative, 10^4-digit literals, nesting depth 2000-5000, diamond embedding lattices (2n structs, 2^n paths) and embedding chains with present and missing selectors; distinct = distinct (operation, operands); all non-trivial"}
	operands := c17Operands()
	step := 1
	n := 0
	known := c17KnownFaults()
	for _, op := range c17Operations() {
		for i := range operands {
			if op.Arity == 1 {
				o := c17Run(op, &operands[i], nil)
				c17Record(m, o, known, &n)
				continue
			}
			for j := range operands {
				if a.Tier != "thorough" {
					if strings.HasPrefix(op.Name, "binary") {
						if (i*3+j)%2 == 1 {
							continue
						}
					} else if (i*7+j)%4 != 0 {
						continue
					}
				}
				_ = step
				o := c17Run(op, &operands[i], &operands[j])
				c17Record(m, o, known, &n)
			}
		}
	}
	// hostile stream
	exe, _ := os.Executable()
	cases := c17HostileCases()
	for start := 0; start < len(cases); {
		cmd := exec.Command(exe, "C17", "-out", a.Out)
		cmd.Env = append(os.Environ(), "VERIF_C17_CHILD=1", fmt.Sprintf("VERIF_C17_START=%d", start))
		stdout, _ := cmd.StdoutPipe()
		cmd.Start()
		done := make(chan struct{})
		last, lastDone := -1, -1
		go func() {
			sc := bufio.NewScanner(stdout)
			for sc.Scan() {
				var i, ms, mb int
				line := sc.Text()
				if _, err := fmt.Sscanf(line, "START %d", &i); err == nil {
					last = i
				} else if _, err := fmt.Sscanf(line, "DONE %d %d %d", &i, &ms, &mb); err == nil {
					lastDone = i
					res := strings.SplitN(line, " ", 5)[4]
					m.Dist["hostile:"+strings.SplitN(res, " ", 2)[0]]++
					n++
					m.DirectRuns++
					if strings.HasPrefix(res, "fault") {
						m.Direct = append(m.Direct, directViolation{Case: n, What: "run-time fault on hostile input '" + cases[i].Name + "': " + res, Replay: map[string]any{"hostile": cases[i].Name}})
					}
					if ms > 8000 || mb > 1500 { // CPU time of this case alone (not wall time: the machine may be loaded)
						m.Direct = append(m.Direct, directViolation{Case: n, What: fmt.Sprintf("hostile input '%s' took %d ms of CPU and %d MiB", cases[i].Name, ms, mb), Replay: map[string]any{"hostile": cases[i].Name}})
					}
				}
			}
			close(done)
		}()
		timer := time.AfterFunc(300*time.Second, func() { cmd.Process.Kill() })
		<-done
		cmd.Wait()
		timer.Stop()
		if lastDone == len(cases)-1 {
			break
		}
		// the child died inside case `last`
		if last > lastDone {
			n++
			m.Direct = append(m.Direct, directViolation{Case: n, What: "hostile input '" + cases[last].Name + "' killed the process (memory limit, CPU limit or crash): cost is not proportional to the input size", Replay: map[string]any{"hostile": cases[last].Name}})
			m.Dist["hostile:killed"]++
			start = last + 1
		} else {
			break
		}
	}
	m.Cases = n
	m.Distinct = n
	m.Strata["grid+hostile"] = n
	return writeJSON(filepath.Join(a.Out, "meta.json"), m)
}

func c17Record(m *meta, o c17Outcome, known map[string]int, n *int) {
	*n++
	m.DirectRuns++
	m.Dist[o.Class]++
	if o.Class == "fault" {
		key := c17FaultKey(o)
		d := directViolation{Case: *n, What: fmt.Sprintf("run-time fault: %s(%s, %s): %s", o.Op, o.X, o.Y, o.Msg), Replay: o}
		if cls, ok := known[key]; ok {
			c := cls
			_ = c
			m.Known[fmt.Sprint(cls)]++
			m.Direct = append(m.Direct, directViolation{Case: *n, What: d.What, Replay: o, Class: &cls})
		} else {
			m.Direct = append(m.Direct, d)
		}
	}
	if len(m.Samples) < 6 && *n%997 == 3 {
		m.Samples = append(m.Samples, o)
	}
}

// a fault is identified by the operation and the run-time message (not by the operands: the same
// unchecked assertion is hit by many operand kinds)
func c17FaultKey(o c17Outcome) string {
	msg := o.Msg
	if i := strings.Index(msg, "0x"); i > 0 {
		msg = msg[:i]
	}
	return o.Op + "|" + msg
}

// known fault keys -> class ids of known_findings.jsonl (filled from observations on the pinned tree)
func c17KnownFaults() map[string]int { return map[string]int{} }
