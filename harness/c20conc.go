package main

// C20, concurrent stream: schedules of concurrent Find calls replayed on the real cache.Impl.
// Every goroutine is held at each of its callbacks (the PkgHash function, the stub `go list`
// command); the controller releases one goroutine at a time, so the interleaving of the real
// code is exactly the schedule, which the Coq model C20.Conc then runs step by step.

import (
	"fmt"
	"io"
	"math/rand"
	"os"
	"path/filepath"
	"strings"
	"time"

	"github.com/goplus/gogen/packages/cache"
)

type c20CObs struct {
	K    string `json:"k"` // hash, list, served, err, stuck
	P    string `json:"p,omitempty"`
	Self bool   `json:"self,omitempty"`
	Exp  string `json:"exp,omitempty"`
}

func (o c20CObs) coq() string {
	switch o.K {
	case "hash":
		return fmt.Sprintf("(CAtHash %s %s)", coqBytes(o.P), coqBool(o.Self))
	case "list":
		return "CAtList"
	case "served":
		return "(CServed " + coqBytes(o.Exp) + ")"
	}
	return "CErr"
}

type c20CItem struct {
	K   string  `json:"k"` // release, spawn, world
	I   int     `json:"i"`
	P   string  `json:"p,omitempty"`
	Op  *c20Op  `json:"op,omitempty"`
	Obs c20CObs `json:"obs"`
	N   int     `json:"n"`
}

func (it c20CItem) coq() string {
	switch it.K {
	case "release":
		return fmt.Sprintf("CRelease %d %s %d", it.I, it.Obs.coq(), it.N)
	case "spawn":
		return fmt.Sprintf("CSpawn %s %s", coqBytes(it.P), it.Obs.coq())
	}
	return "CWorld (" + it.Op.coq() + ")"
}

type c20CHist struct {
	Items   []c20CItem `json:"items"`
	Stratum string     `json:"stratum"`
}

func (h c20CHist) coq() string {
	items := make([]string, len(h.Items))
	for i, it := range h.Items {
		items[i] = it.coq()
	}
	return "ConcCase " + coqList(items)
}

type c20Ev struct {
	i   int
	obs c20CObs
}

type c20Ctl struct {
	w       *c20World
	holdDir string
	active  bool
	cur     int
	ev      chan c20Ev
	rel     []chan struct{}
	pids    []string // pid of the stub process goroutine i is blocked in ("" if none)
	done    []bool
	seen    map[string]bool
}

func (c *c20Ctl) hash(p string, self bool) string {
	if c.active {
		i := c.cur
		c.ev <- c20Ev{i, c20CObs{K: "hash", P: p, Self: self}}
		<-c.rel[i]
	}
	return c.w.h(p, self)
}

// wait for goroutine i to reach its next callback or to finish
func (c *c20Ctl) wait(i int) c20CObs {
	deadline := time.Now().Add(120 * time.Second) // generous: the machine may be heavily loaded
	for time.Now().Before(deadline) {
		select {
		case e := <-c.ev:
			if e.obs.K == "served" || e.obs.K == "err" {
				c.done[e.i] = true
			}
			return e.obs
		case <-time.After(300 * time.Microsecond):
			ents, _ := os.ReadDir(c.holdDir)
			for _, en := range ents {
				n := en.Name()
				if strings.HasPrefix(n, "wait.") && !c.seen[n] {
					c.seen[n] = true
					c.pids[i] = strings.TrimPrefix(n, "wait.")
					return c20CObs{K: "list"}
				}
			}
		}
	}
	c.done[i] = true
	return c20CObs{K: "stuck"}
}

func (c *c20Ctl) spawn(p string) (int, c20CObs) {
	i := len(c.rel)
	c.rel = append(c.rel, make(chan struct{}))
	c.pids = append(c.pids, "")
	c.done = append(c.done, false)
	c.cur = i
	go func() {
		var obs c20CObs
		defer func() {
			if e := recover(); e != nil {
				obs = c20CObs{K: "stuck", Exp: fmt.Sprint(e)}
			}
			c.ev <- c20Ev{i, obs}
		}()
		f, err := c.w.c.Find(c.w.dir, p)
		if err != nil || f == nil {
			if f != nil {
				f.Close()
			}
			obs = c20CObs{K: "err"}
			return
		}
		data, _ := io.ReadAll(f)
		f.Close()
		obs = c20CObs{K: "served", Exp: string(data)}
	}()
	return i, c.wait(i)
}

func (c *c20Ctl) release(i int) c20CObs {
	c.cur = i
	if c.pids[i] != "" {
		pid := c.pids[i]
		c.pids[i] = ""
		os.WriteFile(filepath.Join(c.holdDir, "go."+pid), nil, 0o666)
	} else {
		c.rel[i] <- struct{}{}
	}
	return c.wait(i)
}

// expected result of a sequential Find(p) in the present world, from the ghost specification
func (g *c20Ghost) expect(w *c20World, p string) (obs c20CObs, relist bool) {
	if e, fresh := g.fresh(w, p); fresh {
		return c20CObs{K: "served", Exp: e.exp}, false
	}
	v, known := w.pkgs[p]
	if w.fail || !known {
		return c20CObs{K: "err"}, true
	}
	if _, err := os.Stat(v[0]); err != nil {
		return c20CObs{K: "err"}, true
	}
	return c20CObs{K: "served", Exp: v[0]}, true
}

type c20CResult struct {
	hist   c20CHist
	direct []directViolation
}

// one concurrent history: setup, a sequential prefix, then nThreads concurrent Find calls under a
// random schedule; mixed = world changes between releases (outside the theorem, model only)
func c20RunConc(dir string, r *rand.Rand, mixed bool, idx int) c20CResult {
	w := newC20World(dir)
	cwd, _ := os.Getwd()
	os.Chdir(dir)
	defer os.Chdir(cwd)
	hold := filepath.Join(dir, "hold")
	os.MkdirAll(hold, 0o777)
	ctl := &c20Ctl{w: w, holdDir: hold, ev: make(chan c20Ev), seen: map[string]bool{}}
	w.c = cache.New(ctl.hash)
	g := &c20Ghost{ent: map[string]ghostEntry{}}
	res := c20CResult{hist: c20CHist{Stratum: "conc-quiescent"}}
	if mixed {
		res.hist.Stratum = "conc-mixed"
	}
	seq := func(o c20Op) {
		before := w.c.ListTimes()
		b := w.apply(o)
		g.check(w, o, b, before)
		oo := o
		res.hist.Items = append(res.hist.Items, c20CItem{K: "world", Op: &oo, N: b.N})
	}
	os.Unsetenv("VERIF_STUB_HOLD")
	for _, o := range c20Setup(r) {
		seq(o)
	}
	pk := c20Pkgs[:2+r.Intn(3)]
	if r.Intn(2) == 0 {
		seq(c20Op{K: "prepare", Ps: pk})
	}
	for j := r.Intn(4); j > 0; j-- {
		seq(c20Op{K: "find", P: pk[r.Intn(len(pk))]})
	}
	worldChange := func() c20Op {
		switch r.Intn(6) {
		case 0:
			return c20Op{K: "sethash", P: c20Pkgs[r.Intn(len(c20Pkgs))], Self: true, H: c20Hashes[r.Intn(len(c20Hashes))]}
		case 1, 2:
			return c20Op{K: "sethash", P: c20Pkgs[r.Intn(len(c20Pkgs))], Self: false, H: c20Hashes[r.Intn(len(c20Hashes))]}
		case 3:
			return c20Op{K: "delfile", Exp: fmt.Sprintf("f%d.a", r.Intn(3))}
		case 4:
			return c20Op{K: "fail", B: r.Intn(3) == 0}
		}
		i := r.Intn(3)
		return c20Op{K: "setpkg", P: c20Pkgs[i], Exp: fmt.Sprintf("f%d.a", r.Intn(4)), Deps: []string{c20Pkgs[r.Intn(len(c20Pkgs))]}}
	}
	for j := r.Intn(4); j > 0; j-- {
		seq(worldChange())
	}
	// the concurrent phase
	os.Setenv("VERIF_STUB_HOLD", hold)
	defer os.Unsetenv("VERIF_STUB_HOLD")
	ctl.active = true
	nThreads := 2 + r.Intn(3)
	ps := make([]string, nThreads)
	for t := range ps {
		if t > 0 && r.Intn(2) == 0 {
			ps[t] = ps[0] // several callers of the same package
		} else {
			ps[t] = pk[r.Intn(len(pk))]
		}
	}
	type exp struct {
		obs    c20CObs
		relist bool
	}
	expected := map[string]exp{}
	anyRelist := false
	for _, p := range ps {
		o, rl := g.expect(w, p)
		expected[p] = exp{o, rl}
		anyRelist = anyRelist || rl
	}
	n0 := w.c.ListTimes()
	results := make([]c20CObs, nThreads)
	record := func(i int, o c20CObs, step int) {
		if o.K == "stuck" {
			res.direct = append(res.direct, directViolation{Case: idx, Step: step, What: "concurrent Find did not reach a callback or return within 120 s / faulted: " + o.Exp})
		}
		if o.K == "served" || o.K == "err" || o.K == "stuck" {
			results[i] = o
		}
	}
	spawned := 0
	for {
		var live []int
		for i := 0; i < spawned; i++ {
			if !ctl.done[i] {
				live = append(live, i)
			}
		}
		if spawned == nThreads && len(live) == 0 {
			break
		}
		if mixed && r.Intn(7) == 0 {
			o := worldChange()
			b := w.apply(o)
			res.hist.Items = append(res.hist.Items, c20CItem{K: "world", Op: &o, N: b.N})
			continue
		}
		if spawned < nThreads && (len(live) == 0 || r.Intn(3) == 0) {
			i, o := ctl.spawn(ps[spawned])
			spawned++
			res.hist.Items = append(res.hist.Items, c20CItem{K: "spawn", I: i, P: ps[i], Obs: o, N: w.c.ListTimes()})
			record(i, o, len(res.hist.Items)-1)
			continue
		}
		i := live[r.Intn(len(live))]
		o := ctl.release(i)
		res.hist.Items = append(res.hist.Items, c20CItem{K: "release", I: i, Obs: o, N: w.c.ListTimes()})
		record(i, o, len(res.hist.Items)-1)
	}
	ctl.active = false
	if !mixed {
		// direct oracle (quiescent world): every caller gets what a sequential Find gives
		for i, p := range ps {
			e := expected[p]
			if results[i].K != e.obs.K || results[i].Exp != e.obs.Exp {
				res.direct = append(res.direct, directViolation{Case: idx, Step: len(res.hist.Items) - 1,
					What: fmt.Sprintf("concurrent Find(%s) returned %s %q, a sequential Find returns %s %q", p, results[i].K, results[i].Exp, e.obs.K, e.obs.Exp)})
			}
		}
		if !anyRelist && w.c.ListTimes() != n0 {
			res.direct = append(res.direct, directViolation{Case: idx, Step: len(res.hist.Items) - 1, What: "unchanged entries re-listed under concurrent lookups"})
		}
	}
	return res
}

// replay of a recorded concurrent history: the items are the schedule
func c20ReplayConc(dir string, items []c20CItem) c20CResult {
	w := newC20World(dir)
	cwd, _ := os.Getwd()
	os.Chdir(dir)
	defer os.Chdir(cwd)
	hold := filepath.Join(dir, "hold")
	os.MkdirAll(hold, 0o777)
	ctl := &c20Ctl{w: w, holdDir: hold, ev: make(chan c20Ev), seen: map[string]bool{}}
	w.c = cache.New(ctl.hash)
	res := c20CResult{hist: c20CHist{Stratum: "replay"}}
	os.Unsetenv("VERIF_STUB_HOLD")
	defer os.Unsetenv("VERIF_STUB_HOLD")
	for step, it := range items {
		switch it.K {
		case "world":
			b := w.apply(*it.Op)
			res.hist.Items = append(res.hist.Items, c20CItem{K: "world", Op: it.Op, N: b.N})
		case "spawn":
			os.Setenv("VERIF_STUB_HOLD", hold)
			ctl.active = true
			i, o := ctl.spawn(it.P)
			res.hist.Items = append(res.hist.Items, c20CItem{K: "spawn", I: i, P: it.P, Obs: o, N: w.c.ListTimes()})
		case "release":
			if it.I >= len(ctl.done) || ctl.done[it.I] {
				continue
			}
			o := ctl.release(it.I)
			res.hist.Items = append(res.hist.Items, c20CItem{K: "release", I: it.I, Obs: o, N: w.c.ListTimes()})
			if o.K == "stuck" {
				res.direct = append(res.direct, directViolation{Step: step, What: "concurrent Find did not reach a callback or return: " + o.Exp})
			}
		}
	}
	// let every goroutine that is still held run to its end
	for i := range ctl.done {
		for n := 0; !ctl.done[i] && n < 1000; n++ {
			o := ctl.release(i)
			res.hist.Items = append(res.hist.Items, c20CItem{K: "release", I: i, Obs: o, N: w.c.ListTimes()})
		}
	}
	ctl.active = false
	return res
}
