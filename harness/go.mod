module verifharness

go 1.23

require github.com/goplus/gogen v0.0.0

replace github.com/goplus/gogen => /repo
