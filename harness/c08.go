package main

// C08 — selector resolution: cb.Member / MemberRef on generated struct graphs
// (value and pointer embedding, colliding names at equal and different depths,
// value/pointer receivers, a foreign package with unexported members) against
// the Coq transcription (K1), and go/types.LookupFieldOrMethod against the Coq
// transcription of the spec (K2).

import (
	"fmt"
	"go/ast"
	"go/importer"
	"go/parser"
	"go/token"
	"go/types"
	"math/rand"
	"path/filepath"
	"strings"

	"github.com/goplus/gogen"
)

func init() { register("C08", runC08) }

type memImporter struct {
	pkgs map[string]*types.Package
	def  types.Importer
}

func (m *memImporter) Import(path string) (*types.Package, error) {
	if p, ok := m.pkgs[path]; ok {
		return p, nil
	}
	return m.def.Import(path)
}

const c08Foreign = `package q
type Q0 struct { X int; y string; W float64 }
func (Q0) M() {}
func (*Q0) pm() {}
func (*Q0) PM() {}
type Q1 struct { Q0; z int; Y bool }
func (Q1) qm() {}
type Q2 struct { *Q0; X string }
`

var c08FieldNames = []string{"X", "Y", "W", "z", "y"}
var c08MethodNames = []string{"M", "PM", "pm", "qm", "V"}

func c08GenSource(r *rand.Rand, n int) string {
	var b strings.Builder
	b.WriteString("package p\nimport \"q\"\nvar _ q.Q0\n")
	for i := 0; i < n; i++ {
		if r.Intn(8) == 0 && i > 0 {
			fmt.Fprintf(&b, "type N%d int\n", i)
		} else {
			fmt.Fprintf(&b, "type N%d struct {\n", i)
			used := map[string]bool{}
			nf := r.Intn(3)
			for j := 0; j < nf; j++ {
				nm := c08FieldNames[r.Intn(len(c08FieldNames))]
				if used[nm] {
					continue
				}
				used[nm] = true
				fmt.Fprintf(&b, "\t%s %s\n", nm, []string{"int", "string", "bool", "float64"}[r.Intn(4)])
			}
			ne := r.Intn(3)
			if i == n-1 {
				ne = 1 + r.Intn(3)
			}
			for j := 0; j < ne; j++ {
				var emb string
				switch x := r.Intn(10); {
				case x < 5 && i > 0:
					emb = fmt.Sprintf("N%d", r.Intn(i)) // value embedding only of earlier types (no invalid cycles)
				case x < 8:
					emb = fmt.Sprintf("*N%d", r.Intn(n)) // pointer embedding: cycles allowed
				case x < 9:
					emb = []string{"q.Q0", "q.Q1", "q.Q2"}[r.Intn(3)]
				default:
					emb = []string{"*q.Q0", "*q.Q1"}[r.Intn(2)]
				}
				base := strings.TrimPrefix(strings.TrimPrefix(emb, "*"), "q.")
				if used[base] {
					continue
				}
				used[base] = true
				fmt.Fprintf(&b, "\t%s\n", emb)
			}
			b.WriteString("}\n")
			_ = used
		}
		// methods (never named like one of the type's own fields)
		nm := r.Intn(3)
		for j := 0; j < nm; j++ {
			name := c08MethodNames[r.Intn(len(c08MethodNames))]
			recv := fmt.Sprintf("N%d", i)
			if r.Intn(2) == 0 {
				recv = "*" + recv
			}
			fmt.Fprintf(&b, "func (%s) %s() {}\n", recv, name)
		}
	}
	for i := 0; i < n; i++ {
		fmt.Fprintf(&b, "var v%d N%d\nvar p%d *N%d\nfunc f%d() N%d { panic(0) }\n", i, i, i, i, i, i)
	}
	return b.String()
}

// interface declarations used by some graphs: I2 has only embedded interfaces
const c08Ifaces = `type I0 interface { M(); V() }
type I1 interface { I0; PM() }
type I2 interface { I0 }
type I3 interface { I1; I2 }
`

func c08GenSourceIface(r *rand.Rand, n int) string {
	var b strings.Builder
	b.WriteString("package p\nimport \"q\"\nvar _ q.Q0\n" + c08Ifaces)
	for i := 0; i < n; i++ {
		fmt.Fprintf(&b, "type N%d struct {\n", i)
		if r.Intn(2) == 0 {
			fmt.Fprintf(&b, "\t%s int\n", c08FieldNames[r.Intn(3)])
		}
		switch x := r.Intn(6); {
		case x < 3:
			fmt.Fprintf(&b, "\tI%d\n", r.Intn(4))
		case x < 4 && i > 0:
			fmt.Fprintf(&b, "\tN%d\n", r.Intn(i))
		case x < 5:
			fmt.Fprintf(&b, "\t*N%d\n", r.Intn(n))
		}
		if r.Intn(3) == 0 && i > 0 {
			fmt.Fprintf(&b, "\t*N%d\n", r.Intn(i))
		}
		b.WriteString("}\n")
		if r.Intn(3) == 0 {
			fmt.Fprintf(&b, "func (N%d) qm() {}\n", i)
		}
	}
	for i := 0; i < 4; i++ { // interface-typed operands are named N(n+i) for the query loop
		fmt.Fprintf(&b, "type N%d = I%d\n", n+i, i)
	}
	for i := 0; i < n+4; i++ {
		fmt.Fprintf(&b, "var v%d N%d\nvar p%d *N%d\nfunc f%d() N%d { panic(0) }\n", i, i, i, i, i, i)
	}
	return b.String()
}

type c08World struct {
	src    string
	pkg    *types.Package
	named  []*types.Named
	id     map[*types.TypeName]int
	fields map[*types.Var][2]int
	meths  map[*types.Func][2]int
	names  map[string]int
}

func c08Check(src string) (*c08World, error) {
	fset := token.NewFileSet()
	fq, err := parser.ParseFile(fset, "q.go", c08Foreign, 0)
	if err != nil {
		return nil, err
	}
	qpkg, err := (&types.Config{}).Check("q", fset, []*ast.File{fq}, nil)
	if err != nil {
		return nil, err
	}
	fp, err := parser.ParseFile(fset, "p.go", src, 0)
	if err != nil {
		return nil, err
	}
	imp := &memImporter{pkgs: map[string]*types.Package{"q": qpkg}, def: importer.Default()}
	var firstErr error
	conf := types.Config{Importer: imp, Error: func(e error) {
		if firstErr == nil {
			firstErr = e
		}
	}}
	ppkg, _ := conf.Check("p", fset, []*ast.File{fp}, nil)
	if firstErr != nil {
		return nil, firstErr // duplicate method / field-and-method clash: skip this graph
	}
	w := &c08World{src: src, pkg: ppkg, id: map[*types.TypeName]int{}, fields: map[*types.Var][2]int{}, meths: map[*types.Func][2]int{}, names: map[string]int{}}
	add := func(pk *types.Package) {
		sc := pk.Scope()
		for _, n := range sc.Names() {
			if tn, ok := sc.Lookup(n).(*types.TypeName); ok && !tn.IsAlias() {
				nt := tn.Type().(*types.Named)
				w.id[tn] = len(w.named)
				w.named = append(w.named, nt)
			}
		}
	}
	add(ppkg)
	add(qpkg)
	for id, nt := range w.named {
		if st, ok := nt.Underlying().(*types.Struct); ok {
			for i := 0; i < st.NumFields(); i++ {
				w.fields[st.Field(i)] = [2]int{id, i}
			}
		}
		for i := 0; i < nt.NumMethods(); i++ {
			w.meths[nt.Method(i)] = [2]int{id, i}
		}
	}
	return w, nil
}

func (w *c08World) nameID(s string) int {
	if id, ok := w.names[s]; ok {
		return id
	}
	id := len(w.names) + 1
	w.names[s] = id
	return id
}

func (w *c08World) pkgID(p *types.Package) int {
	if p == nil || p == w.pkg {
		return 0
	}
	return 1
}

func (w *c08World) coqEnv() string {
	var decls []string
	for _, nt := range w.named {
		var fs, ms []string
		st, isStruct := nt.Underlying().(*types.Struct)
		if isStruct {
			for i := 0; i < st.NumFields(); i++ {
				f := st.Field(i)
				ft := "FBasic 0"
				switch t := f.Type().(type) {
				case *types.Named:
					if id, ok := w.id[t.Obj()]; ok {
						ft = fmt.Sprintf("FNamed %d", id)
					}
				case *types.Pointer:
					if nt, ok := t.Elem().(*types.Named); ok {
						if id, ok := w.id[nt.Obj()]; ok {
							ft = fmt.Sprintf("FPtr %d", id)
						}
					}
				}
				fs = append(fs, fmt.Sprintf("mkField %d%%N %s %d%%N %s (%s)", w.nameID(f.Name()), coqBool(f.Exported()), w.pkgID(f.Pkg()), coqBool(f.Embedded()), ft))
			}
		}
		for i := 0; i < nt.NumMethods(); i++ {
			m := nt.Method(i)
			_, ptr := m.Type().(*types.Signature).Recv().Type().(*types.Pointer)
			ms = append(ms, fmt.Sprintf("mkMethod %d%%N %s %d%%N %s", w.nameID(m.Name()), coqBool(m.Exported()), w.pkgID(m.Pkg()), coqBool(ptr)))
		}
		it, isIface := nt.Underlying().(*types.Interface)
		if isIface {
			for i := 0; i < it.NumMethods(); i++ {
				m := it.Method(i)
				ms = append(ms, fmt.Sprintf("mkMethod %d%%N %s %d%%N false", w.nameID(m.Name()), coqBool(m.Exported()), w.pkgID(m.Pkg())))
			}
		}
		decls = append(decls, fmt.Sprintf("mkDecl %s %s %s %s", coqBool(isStruct), coqBool(isIface), coqList(fs), coqList(ms)))
	}
	return coqList(decls)
}

func (w *c08World) lres(obj types.Object) string {
	switch o := obj.(type) {
	case *types.Var:
		if x, ok := w.fields[o]; ok {
			return fmt.Sprintf("(Found true %d %d)", x[0], x[1])
		}
	case *types.Func:
		if x, ok := w.meths[o]; ok {
			return fmt.Sprintf("(Found false %d %d)", x[0], x[1])
		}
		if sig, ok := o.Type().(*types.Signature); ok && sig.Recv() != nil && types.IsInterface(sig.Recv().Type()) {
			return fmt.Sprintf("(Found false 1000 %d)", w.nameID(o.Name())) // interface method: identified by name
		}
	}
	return "NotFound"
}

type c08Rec struct{ last types.Object }

func (r *c08Rec) Member(id ast.Node, obj types.Object) { r.last = obj }
func (r *c08Rec) Call(fn ast.Node, obj types.Object)   {}

type c08Query struct {
	Name, Operand string
	Ref           bool
	Obs, Go       string
}

func runC08(a *runArgs) error {
	nGraphs, nTypes := 40, 6
	if a.Tier == "thorough" {
		nGraphs, nTypes = 900, 7
	}
	r := rand.New(rand.NewSource(a.Seed))
	cw := newCaseWriter(a.Out, "C08", "From GV Require Import C08.Model C08.Check.", "c08case", 8,
		"k1_bad cases", "k2_bad cases", "dev_list cases")
	cl := newCaseLog(a.Out)
	defer cl.close()
	m := &meta{Property: "C08", Seed: a.Seed, Tier: a.Tier, PerShard: 8,
		Strata: map[string]int{}, Dist: map[string]int{}, Known: map[string]int{},
		Rule: "random struct graphs (value/pointer embedding up to depth 4+, name collisions at equal and different depths, value/pointer receiver methods, foreign package with unexported members, embedding cycles through pointers); every selector name on value (addressable and not), pointer and assignment-target operands; distinct = distinct (graph, operand, name) queries; non-trivial = the name exists somewhere in the graph"}
	srcImp := importer.ForCompiler(token.NewFileSet(), "source", nil)
	corpus := []string{
		// C08-a depth, C08-b ambiguity, C08-c pointer receiver on a non-addressable value
		"package p\nimport \"q\"\nvar _ q.Q0\ntype D2 struct { X string }\ntype D1 struct { D2 }\ntype E1 struct { X int }\ntype N0 struct { D1; E1 }\ntype A1 struct { X int }\ntype A2 struct { X int }\ntype N1 struct { A1; A2 }\ntype N2 struct { Y int }\nfunc (*N2) M() {}\nvar v0 N0\nvar p0 *N0\nfunc f0() N0 { panic(0) }\nvar v1 N1\nvar p1 *N1\nfunc f1() N1 { panic(0) }\nvar v2 N2\nvar p2 *N2\nfunc f2() N2 { panic(0) }\n",
	}
	cases := 0
	for g := 0; g < nGraphs+len(corpus); g++ {
		var src string
		if g < len(corpus) {
			src = corpus[g]
		} else {
			if g%3 == 2 {
				src = c08GenSourceIface(r, 2+r.Intn(nTypes-2))
			} else {
				src = c08GenSource(r, 2+r.Intn(nTypes-1))
			}
		}
		w, err := c08Check(src)
		if err != nil {
			m.Dist["graph-rejected-by-go"]++
			continue
		}
		rec := &c08Rec{}
		conf := &gogen.Config{Fset: token.NewFileSet(), Importer: &memImporter{pkgs: map[string]*types.Package{}, def: srcImp}, Recorder: rec}
		pkg := gogen.NewPackage("p", "p", conf)
		cb := pkg.CB()
		var qs []string
		var qlog []c08Query
		names := append(append([]string{}, c08FieldNames...), c08MethodNames...)
		for i := 0; ; i++ {
			if w.pkg.Scope().Lookup(fmt.Sprintf("N%d", i)) == nil {
				break
			}
			names = append(names, fmt.Sprintf("N%d", i))
		}
		names = append(names, "Q0", "Q1", "nosuch")
		for i := 0; ; i++ {
			vobj := w.pkg.Scope().Lookup(fmt.Sprintf("v%d", i))
			if vobj == nil {
				break
			}
			pobj := w.pkg.Scope().Lookup(fmt.Sprintf("p%d", i))
			fobj := w.pkg.Scope().Lookup(fmt.Sprintf("f%d", i))
			nt, ok := types.Unalias(vobj.Type()).(*types.Named)
			if !ok {
				continue
			}
			id := w.id[nt.Obj()]
			for _, name := range names {
				for form := 0; form < 4; form++ { // 0 addressable value, 1 pointer, 2 call result, 3 assignment target
					rec.last = nil
					var T types.Type = nt
					isPtr, addr, isRef := false, true, false
					obs := func() (s string) {
						defer func() {
							if e := recover(); e != nil {
								s = "NotFound"
							}
							cb.InternalStack().SetLen(0)
						}()
						switch form {
						case 0:
							cb.Val(vobj)
						case 1:
							cb.Val(pobj)
						case 2:
							cb.Val(fobj).Call(0)
						case 3:
							cb.Val(vobj)
						}
						flag := gogen.MemberFlagVal
						if form == 3 {
							flag = gogen.MemberFlagRef
						}
						kind, err := cb.Member(name, 0, flag)
						if err != nil || kind == gogen.MemberInvalid {
							return "NotFound"
						}
						return w.lres(rec.last)
					}()
					switch form {
					case 1:
						T, isPtr = types.NewPointer(nt), true
					case 2:
						addr = false
					case 3:
						isRef = true
					}
					obj, _, indirect := types.LookupFieldOrMethod(T, addr, w.pkg, name)
					ref := "NotFound"
					if obj != nil {
						ref = w.lres(obj)
						if isRef {
							if _, ok := obj.(*types.Var); !ok {
								ref = "NotFound"
							}
						}
					} else if indirect && !isRef {
						ref = "PtrRecv"
					}
					m.DirectRuns++
					m.Dist["obs:"+strings.SplitN(strings.Trim(obs, "()"), " ", 2)[0]]++
					qs = append(qs, fmt.Sprintf("mkQ %d%%N %s %d %s %s %s %s %s", w.nameID(name), coqBool(token.IsExported(name)), id,
						coqBool(isPtr), coqBool(addr), coqBool(isRef), obs, ref))
					qlog = append(qlog, c08Query{Name: name, Operand: fmt.Sprintf("N%d form %d", i, form), Ref: isRef, Obs: obs, Go: ref})
				}
			}
		}
		cw.add(fmt.Sprintf("mkCase %s %s", w.coqEnv(), coqList(qs)))
		cl.add(map[string]any{"source": src, "queries": qlog})
		m.Strata["graph"]++
		m.Distinct += len(qs)
		if len(m.Samples) < 2 {
			m.Samples = append(m.Samples, map[string]any{"source": src, "queries": qlog[:min(12, len(qlog))]})
		}
		cases++
	}
	cw.flush()
	m.Cases = cases
	m.Files = cw.files
	return writeJSON(filepath.Join(a.Out, "meta.json"), m)
}
