package main

// C18 — independent packages built on different goroutines: no data race (Go race detector) and
// per-package output identical to a sequential build.  The parent builds this harness with -race
// and runs it as a child; the child builds K programs sequentially (baseline), then in parallel.

import (
	"bytes"
	"fmt"
	"go/importer"
	"go/token"
	"go/types"
	"io"
	"math/rand"
	"os"
	"os/exec"
	"path/filepath"
	"runtime"
	"strings"
	"sync"
	"time"

	"github.com/goplus/gogen"
)

func init() { register("C18", runC18) }

// one program: an IR function body plus expression statements that exercise the code paths
// handing out shared nodes (nil comparisons, range over integers and maps, any/map member
// sugar, overloaded println, bool casts, zero literals, unsafe helpers)
func c18Build(f *irFunc, imp types.Importer, seed int64) (out string, fault string) {
	return c18BuildTo(f, imp, seed, nil)
}

// parkWriter calls hook inside its at-th Write: the goroutine is then suspended in the middle of
// Package.WriteTo, inside a callback gogen makes into client code
type parkWriter struct {
	buf   *bytes.Buffer
	n, at int
	hook  func()
}

func (w *parkWriter) Write(p []byte) (int, error) {
	if w.n == w.at && w.hook != nil {
		w.hook()
	}
	w.n++
	return w.buf.Write(p)
}

// parkImporter calls hook inside its first Import: the goroutine is suspended in the middle of a
// builder operation that loads a package
type parkImporter struct {
	inner types.Importer
	hook  func()
}

func (p *parkImporter) Import(path string) (*types.Package, error) {
	if p.hook != nil {
		h := p.hook
		p.hook = nil
		h()
	}
	return p.inner.Import(path)
}

func c18BuildTo(f *irFunc, imp types.Importer, seed int64, mkWriter func(*bytes.Buffer) io.Writer) (out string, fault string) {
	defer func() {
		if e := recover(); e != nil {
			fault = fmt.Sprint(e)
		}
	}()
	b := &irBuild{}
	conf := &gogen.Config{Fset: token.NewFileSet(), Importer: imp, HandleErr: func(err error) { b.errs = append(b.errs, err.Error()) }}
	b.pkg = gogen.NewPackage("", "main", conf)
	b.cb = b.pkg.CB()
	tyInt := types.Typ[types.Int]
	b.cb.NewVar(types.NewChan(types.SendRecv, tyInt), "ch")
	b.cb.NewVar(types.NewSlice(tyInt), "sl")
	b.cb.NewVar(types.NewInterfaceType(nil, nil), "iface")
	b.pkg.NewFunc(nil, "f", nil, nil, false).BodyStart(b.pkg).End()
	b.buildFunc(f)
	// extra statements in a second function
	pkg := b.pkg
	tyAny := types.NewInterfaceType(nil, nil)
	m := types.NewParam(token.NoPos, pkg.Types, "m", types.NewMap(types.Typ[types.String], tyAny))
	p := types.NewParam(token.NoPos, pkg.Types, "p", types.NewPointer(tyInt))
	a := types.NewParam(token.NoPos, pkg.Types, "a", tyAny)
	bo := types.NewParam(token.NoPos, pkg.Types, "bo", types.Typ[types.Bool])
	cb := pkg.NewFunc(nil, "G", types.NewTuple(m, p, a, bo), nil, false).BodyStart(pkg)
	cb.If().Val(p).Val(nil).BinaryOp(token.NEQ).Then().End()
	cb.If().Val(m).Val("k").Index(1, 0).Val(nil).BinaryOp(token.EQL).Then().End()
	cb.ForRange("i").Val(10).RangeAssignThen(token.NoPos).End()
	cb.ForRange("k", "v").Val(m).RangeAssignThen(token.NoPos).
		VarRef(nil).Val(cb.Scope().Lookup("k")).Assign(1).
		VarRef(nil).Val(cb.Scope().Lookup("v")).Assign(1).End()
	cb.VarRef(nil).Val(a).MemberVal("field", 0).Assign(1)
	cb.VarRef(nil).Val(m).MemberVal("key", 0).Assign(1)
	cb.VarRef(nil).Typ(tyInt).Val(bo).Call(1).Assign(1)
	cb.VarRef(nil).ZeroLit(types.NewPointer(tyInt)).Assign(1)
	cb.VarRef(nil).Val("a").Val("b").BinaryOp(token.ADD).Assign(1)
	cb.VarRef(nil).Val(1).Val(2).BinaryOp(token.LSS).Assign(1)
	cb.Val(pkg.Builtin().Ref("println")).Val(1).Val("x").Call(2).EndStmt()
	cb.VarRef(nil).Val(pkg.Builtin().Ref("len")).Val("abc").Call(1).Assign(1)
	cb.End()
	// constants declared through ConstDefs with iota at package-dependent offsets; their VALUES are part of the result
	off := int(seed%7) + 1
	defs := pkg.NewConstDefs(pkg.Types.Scope())
	for i := 0; i < 3+off; i++ {
		i := i
		name := fmt.Sprintf("K%d", i)
		if i == 0 {
			defs.New(func(cb *gogen.CodeBuilder) int {
				_, iota := cb.Scope().LookupParent("iota", token.NoPos)
				cb.Val(iota).Val(off).BinaryOp(token.MUL)
				return 1
			}, 0, token.NoPos, nil, name)
		} else {
			defs.Next(i, token.NoPos, name)
		}
	}
	var buf bytes.Buffer
	var dst io.Writer = &buf
	if mkWriter != nil {
		dst = mkWriter(&buf)
	}
	if err := pkg.WriteTo(dst); err != nil {
		return "", "WriteTo: " + err.Error()
	}
	for _, n := range pkg.Types.Scope().Names() {
		if c, ok := pkg.Types.Scope().Lookup(n).(*types.Const); ok {
			fmt.Fprintf(&buf, "// const %s = %s\n", n, c.Val().ExactString())
		}
	}
	return buf.String(), ""
}

func c18Child(a *runArgs) error {
	nProg, rounds, par := 24, 3, 8
	limit := 8 * time.Minute
	if a.Tier == "thorough" {
		nProg, rounds, par = 120, 12, 16
		limit = 40 * time.Minute
	}
	if v := os.Getenv("VERIF_C18_ROUNDS"); v != "" { // development aid: fewer cold rounds
		fmt.Sscan(v, &rounds)
	}
	time.AfterFunc(limit, func() { fmt.Println("RESULT timeout"); os.Exit(3) }) // never outlive the check
	r := rand.New(rand.NewSource(a.Seed))
	progs := make([]*irFunc, nProg)
	for i := range progs {
		progs[i] = genIRFunc(r, "F", 1+r.Intn(4))
	}
	build := func(i int, imp types.Importer) string {
		out, fault := c18Build(progs[i], imp, a.Seed+int64(i))
		if fault != "" {
			return "FAULT: " + fault
		}
		return out
	}
	newImp := func() types.Importer {
		imp := importer.ForCompiler(token.NewFileSet(), "source", nil)
		for _, p := range []string{"fmt", "strings", "errors", "os", "unsafe"} { // slow package loading happens before the barrier
			imp.Import(p)
		}
		return imp
	}
	// the concurrent rounds come FIRST: lazily initialised shared state is still cold
	res := make([][]string, rounds)
	for round := 0; round < rounds; round++ {
		res[round] = make([]string, nProg)
		var ready, done sync.WaitGroup
		start := make(chan struct{})
		sem := make(chan struct{}, par)
		for w := 0; w < par; w++ {
			ready.Add(1)
			done.Add(1)
			go func(w int) {
				defer done.Done()
				imp := newImp()
				ready.Done()
				<-start
				for i := w; i < nProg; i += par {
					sem <- struct{}{}
					res[round][i] = build(i, imp)
					<-sem
				}
			}(w)
		}
		ready.Wait()
		close(start)
		done.Wait()
	}
	base := make([]string, nProg)
	imp := newImp()
	for i := range progs {
		base[i] = build(i, imp)
		if strings.HasPrefix(base[i], "FAULT") || !strings.Contains(base[i], "// const K0 = ") {
			// the sequential build itself failed: nothing can be compared (a harness defect or a change
			// of the builder that breaks plain sequential use; never a silent pass)
			fmt.Printf("RESULT harness-fault program %d: %.300s\n", i, base[i])
			os.Exit(4)
		}
	}
	mismatches, builds := 0, 0
	// controlled interleavings: goroutine A is suspended inside a callback into client code (the k-th
	// Write of the destination writer during WriteTo, or the importer's Import during a builder
	// operation) while goroutine B builds and writes a different package completely, on one P so that
	// per-P caches (sync.Pool) are shared; both outputs must equal their sequential builds
	{
		old := runtime.GOMAXPROCS(1)
		impA, impB := newImp(), newImp()
		nPairs := 12
		if a.Tier == "thorough" {
			nPairs = 60
		}
		for k := 0; k < nPairs; k++ {
			i, j := r.Intn(nProg), r.Intn(nProg)
			if i == j {
				j = (j + 1) % nProg
			}
			startB, doneB := make(chan struct{}), make(chan string)
			go func() {
				<-startB
				doneB <- build(j, impB)
			}()
			var outB string
			hook := func() { startB <- struct{}{}; outB = <-doneB }
			var outA, fault string
			if k%4 == 3 {
				outA, fault = c18BuildTo(progs[i], &parkImporter{inner: impA, hook: hook}, a.Seed+int64(i), nil)
			} else {
				outA, fault = c18BuildTo(progs[i], impA, a.Seed+int64(i), func(b *bytes.Buffer) io.Writer {
					return &parkWriter{buf: b, at: k % 3, hook: hook}
				})
			}
			if fault != "" {
				outA = "FAULT: " + fault
			}
			if os.Getenv("VERIF_C18_DEBUG") != "" {
				fmt.Printf("DEBUG pair %d: hook reached=%v lenA=%d lenB=%d %q\n", k, outB != "", len(outA), len(base[j]), outA[:min(len(outA), 100)])
			}
			if outB == "" { // the hook was never reached (no Write / no Import): run B now
				startB <- struct{}{}
				outB = <-doneB
			}
			builds += 2
			if outA != base[i] {
				mismatches++
				fmt.Printf("MISMATCH %d (suspended inside a callback while program %d was built)\n", i, j)
			}
			if outB != base[j] {
				mismatches++
				fmt.Printf("MISMATCH %d (built while program %d was suspended inside a callback)\n", j, i)
			}
		}
		runtime.GOMAXPROCS(old)
	}
	for round := range res {
		for i := range progs {
			builds++
			if res[round][i] != base[i] {
				mismatches++
				fmt.Printf("MISMATCH %d\n", i)
			}
		}
	}
	fmt.Printf("RESULT builds=%d mismatches=%d programs=%d\n", builds, mismatches, nProg)
	return nil
}

func runC18(a *runArgs) error {
	if os.Getenv("VERIF_C18_CHILD") == "1" {
		return c18Child(a)
	}
	m := &meta{Property: "C18", Seed: a.Seed, Tier: a.Tier, PerShard: 1,
		Strata: map[string]int{}, Dist: map[string]int{}, Known: map[string]int{},
		Rule: "programs = random statement bodies (C10/C16 generator) plus a function exercising nil comparisons, integer/map range, any/map member sugar, bool casts, zero literals, overloaded println, constant folding; each built sequentially (baseline) and then concurrently on goroutines with its own package object and importer under the Go race detector, plus controlled interleavings (one goroutine suspended inside the k-th Write of WriteTo or inside the importer while another builds and writes a different package on the same P); distinct = distinct programs; all non-trivial"}
	exe, _ := os.Executable()
	raceExe := filepath.Join(filepath.Dir(exe), "harness_race")
	// rebuild the race-instrumented harness against the current tree (cached by the go tool when nothing changed)
	build := exec.Command("go", "build", "-race", "-tags", "verif", "-o", raceExe, ".")
	build.Dir = filepath.Join(filepath.Dir(filepath.Dir(filepath.Dir(exe))), "harness")
	if out, err := build.CombinedOutput(); err != nil {
		return fmt.Errorf("cannot build the race-instrumented harness: %v\n%s", err, out)
	}
	cmd := exec.Command(raceExe, "C18", "-seed", fmt.Sprint(a.Seed), "-tier", a.Tier, "-out", a.Out)
	cmd.Env = append(os.Environ(), "VERIF_C18_CHILD=1", "GORACE=halt_on_error=0 exitcode=0 history_size=2")
	var stdout, stderr bytes.Buffer
	cmd.Stdout, cmd.Stderr = &stdout, &stderr
	err := cmd.Run()
	races := strings.Count(stderr.String(), "WARNING: DATA RACE")
	var builds, mism, progs int
	for _, line := range strings.Split(stdout.String(), "\n") {
		fmt.Sscanf(line, "RESULT builds=%d mismatches=%d programs=%d", &builds, &mism, &progs)
	}
	if err != nil && builds == 0 {
		return fmt.Errorf("race child failed: %v\n%s", err, stderr.String())
	}
	m.Cases, m.Distinct, m.DirectRuns = builds, progs, builds
	m.Dist["concurrent builds"] = builds
	m.Dist["race reports"] = races
	if races > 0 {
		// first report, trimmed
		rep := stderr.String()
		i := strings.Index(rep, "WARNING: DATA RACE")
		rep = rep[i:]
		if len(rep) > 2500 {
			rep = rep[:2500]
		}
		m.Direct = append(m.Direct, directViolation{Case: 0, What: fmt.Sprintf("%d data race report(s) while building independent packages concurrently", races), Replay: map[string]any{"first_report": rep, "seed": a.Seed, "tier": a.Tier}})
	}
	if mism > 0 {
		m.Direct = append(m.Direct, directViolation{Case: 0, What: fmt.Sprintf("%d concurrent builds produced output different from the sequential build of the same package", mism), Replay: map[string]any{"seed": a.Seed, "tier": a.Tier}})
	}
	m.Samples = append(m.Samples, map[string]any{"programs": progs, "concurrent_builds": builds, "race_reports": races})
	return writeJSON(filepath.Join(a.Out, "meta.json"), m)
}
