package main

// Statement IR shared by the C10 / C16 harnesses: random function bodies with
// three back ends — Go source text (reference), the canonical CodeBuilder call
// sequence (real gogen), and Gallina terms (models).

import (
	"fmt"
	"go/token"
	"go/types"
	"math/rand"
	"strings"

	"github.com/goplus/gogen"
)

type irStmt struct {
	K       string     `json:"k"` // assign inc send call go defer define empty range labeled panic return break continue goto fallthrough block if switch tswitch select for closure
	Label   string     `json:"label,omitempty"`
	Body    []*irStmt  `json:"body,omitempty"`
	Else    *irStmt    `json:"else,omitempty"` // block or if
	Clauses []irClause `json:"clauses,omitempty"`
	HasCond bool       `json:"cond,omitempty"`
	HasPost bool       `json:"post,omitempty"`
	HasTag  bool       `json:"tag,omitempty"`
	Results int        `json:"results,omitempty"` // closure
	Ret     bool       `json:"ret,omitempty"`     // return with value
	Name    string     `json:"name,omitempty"`    // define: variable name
}

type irClause struct {
	Default bool      `json:"default,omitempty"`
	Body    []*irStmt `json:"body,omitempty"`
}

type irFunc struct {
	Name        string    `json:"name"`
	Results     int       `json:"results"`
	ShadowPanic bool      `json:"shadow_panic,omitempty"`
	Body        []*irStmt `json:"body"`
}

// ---------- generator ----------

type irGen struct {
	r        *rand.Rand
	maxDepth int
	labels   int
	// enclosing labeled breakable / continuable statements
	brk, cont []string
	topLabels []string
	inFunc    bool
	noLabels  bool
	// C16-only extras
	closureLabels bool // closures may define labels of their own
	allowInline   bool // inline closure calls
	noDupLabels   bool
	noReturn      bool // inside an inline closure body
	allowVBlock   bool // VBlock ... End (a scope without braces)
}

func (g *irGen) list(d, n int, inLoop, inBreakable bool) []*irStmt {
	var l []*irStmt
	for i := 0; i < n; i++ {
		l = append(l, g.stmt(d, inLoop, inBreakable))
	}
	return l
}

var irVarCounter int

func (g *irGen) simple() *irStmt {
	ks := []string{"assign", "inc", "send", "call", "go", "defer", "define", "empty", "assign", "call", "constexpr"}
	s := &irStmt{K: ks[g.r.Intn(len(ks))]}
	if s.K == "define" {
		irVarCounter++
		s.Name = fmt.Sprintf("v%d", irVarCounter)
	}
	return s
}

func (g *irGen) stmt(d int, inLoop, inBreakable bool) *irStmt {
	r := g.r
	if d <= 0 {
		switch x := r.Intn(10); {
		case x < 5:
			return g.simple()
		case x < 7 && !g.noReturn:
			return &irStmt{K: "return", Ret: true}
		case x < 8:
			return &irStmt{K: "panic"}
		case x < 9 && inBreakable:
			return g.branch("break")
		default:
			if inLoop {
				return g.branch("continue")
			}
			return g.simple()
		}
	}
	n := func() int { return r.Intn(3) }
	switch x := r.Intn(100); {
	case x < 14:
		return g.simple()
	case x < 22 && !g.noReturn:
		return &irStmt{K: "return", Ret: true}
	case x < 27:
		return &irStmt{K: "panic"}
	case x < 33 && inBreakable:
		return g.branch("break")
	case x < 37 && inLoop:
		return g.branch("continue")
	case x < 40 && len(g.topLabels) > 0 && !g.noLabels:
		return &irStmt{K: "goto", Label: g.topLabels[r.Intn(len(g.topLabels))]}
	case x < 52:
		s := &irStmt{K: "if", Body: g.list(d-1, n(), inLoop, inBreakable)}
		switch r.Intn(3) {
		case 0:
			s.Else = &irStmt{K: "block", Body: g.list(d-1, n(), inLoop, inBreakable)}
		case 1:
			e := g.stmt(d-1, inLoop, inBreakable)
			for tries := 0; e.K != "if" && tries < 3; tries++ {
				e = &irStmt{K: "if", Body: g.list(d-1, n(), inLoop, inBreakable)}
				if r.Intn(2) == 0 {
					e.Else = &irStmt{K: "block", Body: g.list(d-1, n(), inLoop, inBreakable)}
				}
			}
			s.Else = e
		}
		return s
	case x < 62:
		return g.labeledMaybe(func(lbl string) *irStmt {
			s := &irStmt{K: "for", HasCond: r.Intn(2) == 0, HasPost: r.Intn(3) == 0}
			g.push(lbl, true)
			s.Body = g.list(d-1, n(), true, true)
			g.pop(lbl, true)
			return s
		})
	case x < 67:
		return g.labeledMaybe(func(lbl string) *irStmt {
			s := &irStmt{K: "range"}
			g.push(lbl, true)
			s.Body = g.list(d-1, n(), true, true)
			g.pop(lbl, true)
			return s
		})
	case x < 77:
		return g.labeledMaybe(func(lbl string) *irStmt {
			s := &irStmt{K: "switch", HasTag: r.Intn(2) == 0}
			if r.Intn(4) == 0 {
				s.K = "tswitch"
			}
			g.push(lbl, false)
			nc := r.Intn(4)
			defAt := -1
			if r.Intn(2) == 0 {
				defAt = r.Intn(nc + 1)
			}
			for i := 0; i <= nc; i++ {
				if i == nc && defAt != nc {
					break
				}
				c := irClause{Default: i == defAt, Body: g.list(d-1, n(), inLoop, true)}
				if s.K == "switch" && i < nc && r.Intn(5) == 0 && !(i == nc-1 && defAt != nc) {
					c.Body = append(c.Body, &irStmt{K: "fallthrough"})
				}
				s.Clauses = append(s.Clauses, c)
			}
			g.pop(lbl, false)
			return s
		})
	case x < 83:
		return g.labeledMaybe(func(lbl string) *irStmt {
			s := &irStmt{K: "select"}
			g.push(lbl, false)
			nc := r.Intn(3)
			for i := 0; i < nc; i++ {
				s.Clauses = append(s.Clauses, irClause{Body: g.list(d-1, n(), inLoop, true)})
			}
			if r.Intn(2) == 0 {
				s.Clauses = append(s.Clauses, irClause{Default: true, Body: g.list(d-1, n(), inLoop, true)})
			}
			g.pop(lbl, false)
			return s
		})
	case x < 90:
		if g.allowVBlock && r.Intn(3) == 0 {
			return &irStmt{K: "vblock", Body: g.list(d-1, n(), inLoop, inBreakable)}
		}
		return &irStmt{K: "block", Body: g.list(d-1, n(), inLoop, inBreakable)}
	case x < 94:
		// labeled plain statement
		if g.noLabels {
			return g.simple()
		}
		lbl := g.newLabel()
		return &irStmt{K: "labeled", Label: lbl, Body: []*irStmt{g.stmt(d-1, inLoop, inBreakable)}}
	case x < 97:
		// closure call statement: its own function context
		if g.allowInline && r.Intn(2) == 0 {
			sub := &irGen{r: r, maxDepth: d - 1, noLabels: true, noReturn: true, allowInline: true}
			return &irStmt{K: "inline", Body: sub.list(d-1, 1+n(), false, false)}
		}
		sub := &irGen{r: r, maxDepth: d - 1, noLabels: !g.closureLabels, closureLabels: g.closureLabels, allowInline: g.allowInline, noDupLabels: g.noDupLabels, labels: g.labels}
		res := r.Intn(2)
		st := &irStmt{K: "closure", Results: res, Body: sub.list(d-1, 1+n(), false, false)}
		g.labels = sub.labels
		return st
	default:
		return &irStmt{K: "empty"}
	}
}

func (g *irGen) newLabel() string {
	g.labels++
	// occasionally reuse a name: "defined twice"
	if g.labels > 1 && !g.noDupLabels && g.r.Intn(25) == 0 {
		return fmt.Sprintf("L%d", g.r.Intn(g.labels-1)+1)
	}
	return fmt.Sprintf("L%d", g.labels)
}

func (g *irGen) labeledMaybe(mk func(lbl string) *irStmt) *irStmt {
	if g.noLabels || g.r.Intn(3) != 0 {
		return mk("")
	}
	lbl := g.newLabel()
	return &irStmt{K: "labeled", Label: lbl, Body: []*irStmt{mk(lbl)}}
}

func (g *irGen) push(lbl string, loop bool) {
	g.brk = append(g.brk, lbl)
	if loop {
		g.cont = append(g.cont, lbl)
	}
}
func (g *irGen) pop(lbl string, loop bool) {
	g.brk = g.brk[:len(g.brk)-1]
	if loop {
		g.cont = g.cont[:len(g.cont)-1]
	}
}

func (g *irGen) branch(k string) *irStmt {
	s := &irStmt{K: k}
	stack := g.brk
	if k == "continue" {
		stack = g.cont
	}
	if g.r.Intn(3) == 0 {
		var named []string
		for _, l := range stack {
			if l != "" {
				named = append(named, l)
			}
		}
		if len(named) > 0 {
			s.Label = named[g.r.Intn(len(named))]
		}
	}
	return s
}

func genIRFunc(r *rand.Rand, name string, depth int) *irFunc {
	return genIRFuncWith(&irGen{r: r, maxDepth: depth}, name, depth)
}

func genIRFuncWith(g *irGen, name string, depth int) *irFunc {
	r := g.r
	f := &irFunc{Name: name, Results: r.Intn(4) / 3 * 0, ShadowPanic: r.Intn(6) == 0}
	if r.Intn(5) != 0 {
		f.Results = 1
	}
	// top-level labels usable as goto targets: generated as labeled statements of the top list
	n := 1 + r.Intn(4)
	for i := 0; i < n; i++ {
		if r.Intn(4) == 0 {
			lbl := g.newLabel()
			g.topLabels = append(g.topLabels, lbl)
			f.Body = append(f.Body, &irStmt{K: "labeled", Label: lbl, Body: []*irStmt{g.stmt(depth-1, false, false)}})
		} else {
			f.Body = append(f.Body, g.stmt(depth, false, false))
		}
	}
	return f
}

// ---------- Go source ----------

func (s *irStmt) src(b *strings.Builder, ind string, fn *irFunc) {
	w := func(f string, a ...any) { fmt.Fprintf(b, ind+f+"\n", a...) }
	list := func(l []*irStmt) {
		for _, x := range l {
			x.src(b, ind+"\t", fn)
		}
	}
	switch s.K {
	case "assign":
		w("x = x + 1")
	case "inc":
		w("x++")
	case "send":
		w("ch <- 1")
	case "call":
		w("f()")
	case "go":
		w("go f()")
	case "defer":
		w("defer f()")
	case "define":
		w("var %s int = x", s.Name)
	case "empty", "constexpr":
		w(";")
	case "inline":
		w("x = func(a int) int {")
		for _, x := range s.Body {
			x.src(b, ind+"\t", &irFunc{Results: 1})
		}
		w("\treturn a")
		w("}(x)")
	case "panic":
		w("panic(\"x\")")
	case "return":
		if fn.Results > 0 {
			w("return 0")
		} else {
			w("return")
		}
	case "break", "continue", "goto":
		if s.Label != "" {
			w("%s %s", s.K, s.Label)
		} else {
			w("%s", s.K)
		}
	case "fallthrough":
		w("fallthrough")
	case "labeled":
		w("%s:", s.Label)
		s.Body[0].src(b, ind, fn)
	case "block":
		w("{")
		list(s.Body)
		w("}")
	case "vblock":
		w("{ // VBlock: a scope of its own, no braces in the output")
		list(s.Body)
		w("}")
	case "if":
		w("if x > 0 {")
		list(s.Body)
		e := s.Else
		for e != nil && e.K == "if" {
			w("} else if x > 0 {")
			list(e.Body)
			e = e.Else
		}
		if e != nil {
			w("} else {")
			list(e.Body)
		}
		w("}")
	case "for":
		switch {
		case s.HasCond && s.HasPost:
			w("for ; x < 10; x++ {")
		case s.HasCond:
			w("for x < 10 {")
		case s.HasPost:
			w("for ; ; x++ {")
		default:
			w("for {")
		}
		list(s.Body)
		w("}")
	case "range":
		w("for _, e := range sl {")
		b.WriteString(ind + "\t_ = e\n")
		list(s.Body)
		w("}")
	case "switch", "tswitch", "select":
		switch {
		case s.K == "tswitch":
			w("switch iface.(type) {")
		case s.K == "select":
			w("select {")
		case s.HasTag:
			w("switch x {")
		default:
			w("switch {")
		}
		for i, c := range s.Clauses {
			switch {
			case c.Default:
				w("default:")
			case s.K == "tswitch":
				w("case %s:", []string{"int", "string", "bool", "float64", "error"}[i%5])
			case s.K == "select":
				w("case <-ch:")
			case s.HasTag:
				w("case %d:", i+1)
			default:
				w("case x == %d:", i+1)
			}
			list(c.Body)
		}
		w("}")
	case "closure":
		sub := &irFunc{Results: s.Results}
		if s.Results > 0 {
			w("func() int {")
		} else {
			w("func() {")
		}
		for _, x := range s.Body {
			x.src(b, ind+"\t", sub)
		}
		w("}()")
	}
}

func (f *irFunc) source() string {
	var b strings.Builder
	b.WriteString("package main\n\nvar ch chan int\nvar sl []int\nvar iface interface{}\n\nfunc f() {}\n\n")
	params := "x int"
	if f.ShadowPanic {
		params += ", panic func(interface{})"
	}
	res := ""
	if f.Results > 0 {
		res = " int"
	}
	fmt.Fprintf(&b, "func %s(%s)%s {\n", f.Name, params, res)
	for _, s := range f.Body {
		s.src(&b, "\t", f)
	}
	b.WriteString("}\n")
	return b.String()
}

// ---------- Coq (C10 syntax) ----------

func lblNum(l string) string {
	var n int
	fmt.Sscanf(l, "L%d", &n)
	return fmt.Sprintf("%d%%N", n)
}

func c10List(l []*irStmt, tracked bool) string {
	s := "SNil"
	for i := len(l) - 1; i >= 0; i-- {
		s = "(SCons " + l[i].c10(tracked) + " " + s + ")"
	}
	return s
}

func (s *irStmt) c10(tracked bool) string {
	switch s.K {
	case "assign", "inc", "send", "go", "defer", "define":
		return "SOther"
	case "call", "closure":
		return "(SExpr false)"
	case "empty", "constexpr":
		return "SEmpty"
	case "inline":
		return "SOther"
	case "panic":
		return "(SExpr " + coqBool(tracked) + ")"
	case "return":
		return "SReturn"
	case "break", "continue", "goto", "fallthrough":
		tok := map[string]string{"break": "BBreak", "continue": "BContinue", "goto": "BGoto", "fallthrough": "BFallthrough"}[s.K]
		if s.Label != "" {
			return "(SBranch " + tok + " (Some " + lblNum(s.Label) + "))"
		}
		return "(SBranch " + tok + " None)"
	case "labeled":
		return "(SLabeled " + lblNum(s.Label) + " " + s.Body[0].c10(tracked) + ")"
	case "block":
		return "(SBlock " + c10List(s.Body, tracked) + ")"
	case "if":
		if s.Else == nil {
			return "(SIf " + c10List(s.Body, tracked) + " false SEmpty)"
		}
		return "(SIf " + c10List(s.Body, tracked) + " true " + s.Else.c10(tracked) + ")"
	case "for":
		return "(SFor " + coqBool(s.HasCond) + " " + c10List(s.Body, tracked) + ")"
	case "range":
		// the harness prepends `_ = e` to range bodies: an assignment statement
		return "(SRange (SCons SOther " + c10List(s.Body, tracked) + "))"
	case "switch", "tswitch", "select":
		cs := "CNil"
		for i := len(s.Clauses) - 1; i >= 0; i-- {
			cs = "(CCons " + coqBool(s.Clauses[i].Default) + " " + c10List(s.Clauses[i].Body, tracked) + " " + cs + ")"
		}
		return map[string]string{"switch": "(SSwitch ", "tswitch": "(STypeSwitch ", "select": "(SSelect "}[s.K] + cs + ")"
	}
	panic("c10: " + s.K)
}

// closures of a body in pre-order (each has its own missing-return check)
func collectClosures(l []*irStmt, out *[]*irStmt) {
	for _, s := range l {
		if s.K == "closure" {
			*out = append(*out, s)
		}
		collectClosures(s.Body, out)
		if s.Else != nil {
			collectClosures([]*irStmt{s.Else}, out)
		}
		for _, c := range s.Clauses {
			collectClosures(c.Body, out)
		}
	}
}

// label events of the outer function body (closures are generated without labels)
func labelEvents(l []*irStmt, defs, uses *[]string) {
	for _, s := range l {
		switch s.K {
		case "labeled":
			*defs = append(*defs, s.Label)
		case "break", "continue", "goto":
			if s.Label != "" {
				*uses = append(*uses, s.Label)
			}
		case "closure", "inline":
			continue
		}
		labelEvents(s.Body, defs, uses)
		if s.Else != nil {
			labelEvents([]*irStmt{s.Else}, defs, uses)
		}
		for _, c := range s.Clauses {
			labelEvents(c.Body, defs, uses)
		}
	}
}

// ---------- real builder ----------

type irBuild struct {
	pkg        *gogen.Package
	cb         *gogen.CodeBuilder
	errs       []string
	labels     map[string]*gogen.Label
	placed     map[string]bool
	after      func(op string) // observation hook (C16)
	balance    func(kind string, ok bool)
	labelNames []string
	fn         *irFunc
	panicV     types.Object
	nvar       int
}

var irImporter types.Importer

func (b *irBuild) ref(name string) types.Object {
	_, o := b.cb.Scope().LookupParent(name, token.NoPos)
	if o == nil {
		panic("irBuild: no object " + name)
	}
	return o
}

// visibleLabels: how many of the case's label names LookupLabel finds (the label context)
func (b *irBuild) visibleLabels() int {
	n := 0
	for _, name := range b.labelNames {
		if _, ok := b.cb.LookupLabel(name); ok {
			n++
		}
	}
	return n
}

func (b *irBuild) op(name string) {
	if b.after != nil {
		b.after(name)
	}
}

func newIRBuild(after func(string)) *irBuild {
	b := &irBuild{after: after}
	conf := &gogen.Config{Fset: token.NewFileSet(), Importer: irImporter,
		HandleErr: func(err error) { b.errs = append(b.errs, err.Error()) }}
	b.pkg = gogen.NewPackage("", "main", conf)
	b.cb = b.pkg.CB()
	tyInt := types.Typ[types.Int]
	b.cb.NewVar(types.NewChan(types.SendRecv, tyInt), "ch")
	b.cb.NewVar(types.NewSlice(tyInt), "sl")
	b.cb.NewVar(types.NewInterfaceType(nil, nil), "iface")
	b.pkg.NewFunc(nil, "f", nil, nil, false).BodyStart(b.pkg).End()
	return b
}

func (b *irBuild) buildFunc(f *irFunc) {
	b.fn = f
	pkg := b.pkg
	tyInt := types.Typ[types.Int]
	params := []*types.Var{types.NewParam(token.NoPos, pkg.Types, "x", tyInt)}
	if f.ShadowPanic {
		sig := types.NewSignatureType(nil, nil, nil, types.NewTuple(types.NewParam(token.NoPos, pkg.Types, "", types.NewInterfaceType(nil, nil))), nil, false)
		params = append(params, types.NewParam(token.NoPos, pkg.Types, "panic", sig))
	}
	var results *types.Tuple
	if f.Results > 0 {
		results = types.NewTuple(types.NewParam(token.NoPos, pkg.Types, "", tyInt))
	}
	fn := pkg.NewFunc(nil, f.Name, types.NewTuple(params...), results, false)
	b.op("NewFunc")
	cb := fn.BodyStart(pkg)
	b.cb = cb
	b.op("BodyStart")
	// the front end creates the label objects first (forward gotos)
	b.labels, b.placed = map[string]*gogen.Label{}, map[string]bool{}
	var defs, uses []string
	labelEvents(f.Body, &defs, &uses)
	for _, d := range defs {
		l := cb.NewLabel(token.NoPos, token.NoPos, d)
		if l != nil {
			b.labels[d] = l
		}
		b.op("NewLabel")
	}
	b.list(f.Body, f)
	cb.End()
	b.op("FuncEnd")
}

func (b *irBuild) list(l []*irStmt, fn *irFunc) {
	for _, s := range l {
		b.stmt(s, fn)
	}
}

func (b *irBuild) cond() {
	b.cb.Val(b.ref("x"))
	b.op("Val")
	b.cb.Val(0)
	b.op("Val")
	b.cb.BinaryOp(token.GTR)
	b.op("BinaryOp")
}

func (b *irBuild) stmt(s *irStmt, fn *irFunc) {
	if b.balance != nil {
		l0, sc0, f0, n0 := b.cb.InternalStack().Len(), b.cb.Scope(), b.cb.Func(), b.visibleLabels()
		defer func() {
			if e := recover(); e != nil {
				panic(e)
			}
			b.balance(s.K, l0 == b.cb.InternalStack().Len() && sc0 == b.cb.Scope() && f0 == b.cb.Func() && n0 == b.visibleLabels())
		}()
	}
	b.stmt1(s, fn)
}

func (b *irBuild) stmt1(s *irStmt, fn *irFunc) {
	cb := b.cb
	switch s.K {
	case "assign":
		cb.VarRef(b.ref("x"))
		b.op("VarRef")
		cb.Val(b.ref("x"))
		b.op("Val")
		cb.Val(1)
		b.op("Val")
		cb.BinaryOp(token.ADD)
		b.op("BinaryOp")
		cb.Assign(1)
		b.op("Assign1")
	case "inc":
		cb.VarRef(b.ref("x"))
		b.op("VarRef")
		cb.IncDec(token.INC)
		b.op("IncDec")
	case "send":
		cb.Val(b.ref("ch"))
		b.op("Val")
		cb.Val(1)
		b.op("Val")
		cb.Send()
		b.op("Send")
	case "call", "go", "defer":
		cb.Val(b.ref("f"))
		b.op("Val")
		cb.Call(0)
		b.op("Call0")
		switch s.K {
		case "call":
			cb.EndStmt()
			b.op("EndStmt")
		case "go":
			cb.Go()
			b.op("Go")
		default:
			cb.Defer()
			b.op("Defer")
		}
	case "define":
		b.nvar++
		cb.NewVarStart(types.Typ[types.Int], s.Name)
		b.op("InitStart")
		cb.Val(b.ref("x"))
		b.op("Val")
		cb.EndInit(1)
		b.op("EndInit1")
	case "constexpr": // a constant-valued expression statement: evaluated, nothing emitted
		cb.Val("a")
		b.op("Val")
		cb.Val("b")
		b.op("Val")
		cb.BinaryOp(token.ADD)
		b.op("BinaryOp")
		cb.EndStmt()
		b.op("EndStmt")
	case "inline":
		tyInt := types.Typ[types.Int]
		pa := types.NewParam(token.NoPos, b.pkg.Types, "a", tyInt)
		sig := types.NewSignatureType(nil, nil, nil, types.NewTuple(pa), types.NewTuple(types.NewParam(token.NoPos, b.pkg.Types, "", tyInt)), false)
		cb.VarRef(b.ref("x"))
		b.op("VarRef")
		cb.Val(b.ref("x"))
		b.op("Val")
		cb.CallInlineClosureStart(sig, 1, false)
		b.op("InlineStart")
		saveL, saveP := b.labels, b.placed
		b.labels, b.placed = map[string]*gogen.Label{}, map[string]bool{}
		b.list(s.Body, &irFunc{Results: 1})
		b.labels, b.placed = saveL, saveP
		cb.Val(pa)
		b.op("Val")
		cb.Return(1)
		b.op("Return1")
		cb.End()
		b.op("InlineEnd")
		cb.Assign(1)
		b.op("Assign1")
	case "empty":
		// the builder has no empty-statement operation; nothing is emitted
	case "panic":
		cb.Val(b.ref("panic"))
		b.op("Val")
		cb.Val("x")
		b.op("Val")
		cb.Call(1)
		b.op("Call1")
		cb.EndStmt()
		b.op("EndStmt")
	case "return":
		if fn.Results > 0 {
			cb.Val(0)
			b.op("Val")
			cb.Return(1)
			b.op("Return1")
		} else {
			cb.Return(0)
			b.op("Return0")
		}
	case "break":
		cb.Break(b.labels[s.Label])
		b.op("Branch")
	case "continue":
		cb.Continue(b.labels[s.Label])
		b.op("Branch")
	case "goto":
		cb.Goto(b.labels[s.Label])
		b.op("Branch")
	case "fallthrough":
		cb.Fallthrough()
		b.op("Branch")
	case "labeled":
		if l, ok := b.labels[s.Label]; ok && !b.placed[s.Label] {
			b.placed[s.Label] = true
			cb.Label(l)
			b.op("Label")
		}
		b.stmt(s.Body[0], fn)
	case "block":
		cb.Block()
		b.op("Open:block")
		b.list(s.Body, fn)
		cb.End()
		b.op("Close:block")
	case "vblock":
		was := cb.InVBlock()
		cb.VBlock()
		b.op("Open:vblock")
		in1 := cb.InVBlock()
		b.list(s.Body, fn)
		in2 := cb.InVBlock()
		cb.End()
		b.op("Close:vblock")
		if b.balance != nil {
			b.balance("vblock (InVBlock inside / after)", in1 && in2 && cb.InVBlock() == was)
		}
	case "if":
		cb.If()
		b.op("Open:if")
		b.cond()
		cb.Then()
		b.op("Then:if")
		b.list(s.Body, fn)
		if s.Else != nil {
			cb.Else()
			b.op("Else")
			if s.Else.K == "if" {
				b.stmt(s.Else, fn)
			} else {
				b.list(s.Else.Body, fn)
			}
		}
		cb.End()
		b.op("Close:if")
	case "for":
		cb.For()
		b.op("Open:for")
		if s.HasCond {
			cb.Val(b.ref("x"))
			b.op("Val")
			cb.Val(10)
			b.op("Val")
			cb.BinaryOp(token.LSS)
			b.op("BinaryOp")
		} else {
			cb.None()
			b.op("None")
		}
		cb.Then()
		b.op("Then:for")
		b.list(s.Body, fn)
		if s.HasPost {
			cb.Post()
			b.op("Post")
			cb.VarRef(b.ref("x"))
			b.op("VarRef")
			cb.IncDec(token.INC)
			b.op("IncDec")
		}
		cb.End()
		if s.HasPost {
			b.op("Close:forpost")
		} else {
			b.op("Close:for")
		}
	case "range":
		cb.ForRange("_", "e")
		b.op("Open:range")
		cb.Val(b.ref("sl"))
		b.op("Val")
		cb.RangeAssignThen(token.NoPos)
		b.op("Then:range")
		cb.VarRef(nil)
		b.op("VarRef")
		cb.Val(b.ref("e"))
		b.op("Val")
		cb.Assign(1)
		b.op("Assign1")
		b.list(s.Body, fn)
		cb.End()
		b.op("Close:range")
	case "switch":
		cb.Switch()
		b.op("Open:switch")
		if s.HasTag {
			cb.Val(b.ref("x"))
			b.op("Val")
		} else {
			cb.None()
			b.op("None")
		}
		cb.Then()
		b.op("Then:switch")
		for i, c := range s.Clauses {
			cb.Case()
			b.op("Open:case")
			if !c.Default {
				if s.HasTag {
					cb.Val(i + 1)
					b.op("Val")
				} else {
					cb.Val(b.ref("x"))
					b.op("Val")
					cb.Val(i + 1)
					b.op("Val")
					cb.BinaryOp(token.EQL)
					b.op("BinaryOp")
				}
			}
			cb.Then()
			b.op("Then:case")
			b.list(c.Body, fn)
			cb.End()
			b.op("Close:case")
		}
		cb.End()
		b.op("Close:switch")
	case "tswitch":
		cb.TypeSwitch("")
		b.op("Open:tswitch")
		cb.Val(b.ref("iface"))
		b.op("Val")
		cb.TypeAssertThen()
		b.op("Then:tswitch")
		for i, c := range s.Clauses {
			cb.TypeCase()
			b.op("Open:tcase")
			if !c.Default {
				t := []types.Type{types.Typ[types.Int], types.Typ[types.String], types.Typ[types.Bool], types.Typ[types.Float64], types.Universe.Lookup("error").Type()}[i%5]
				cb.Typ(t)
				b.op("Typ")
			}
			cb.Then()
			b.op("Then:tcase")
			b.list(c.Body, fn)
			cb.End()
			b.op("Close:tcase")
		}
		cb.End()
		b.op("Close:tswitch")
	case "select":
		cb.Select()
		b.op("Open:select")
		for _, c := range s.Clauses {
			cb.CommCase()
			b.op("Open:comm")
			if !c.Default {
				cb.Val(b.ref("ch"))
				b.op("Val")
				cb.UnaryOp(token.ARROW)
				b.op("UnaryOp")
				cb.EndStmt()
				b.op("EndStmt")
			}
			cb.Then()
			b.op("Then:comm")
			b.list(c.Body, fn)
			cb.End()
			b.op("Close:comm")
		}
		cb.End()
		b.op("Close:select")
	case "closure":
		var results *types.Tuple
		if s.Results > 0 {
			results = types.NewTuple(types.NewParam(token.NoPos, b.pkg.Types, "", types.Typ[types.Int]))
		}
		cl := cb.NewClosure(nil, results, false)
		b.op("NewClosure")
		cl.BodyStart(b.pkg)
		b.op("Open:closure")
		sub := &irFunc{Results: s.Results}
		saveL, saveP := b.labels, b.placed
		b.labels, b.placed = map[string]*gogen.Label{}, map[string]bool{}
		var cdefs, cuses []string
		labelEvents(s.Body, &cdefs, &cuses)
		for _, d := range cdefs {
			if l := cb.NewLabel(token.NoPos, token.NoPos, d); l != nil {
				b.labels[d] = l
			}
			b.op("NewLabel")
		}
		b.list(s.Body, sub)
		b.labels, b.placed = saveL, saveP
		cb.End()
		b.op("Close:closure")
		cb.Call(0)
		b.op("Call0")
		cb.EndStmt()
		b.op("EndStmt")
	default:
		panic("irBuild: " + s.K)
	}
}

// ---------- Coq (C16 syntax) ----------

func c16List(l []*irStmt, placed map[string]bool, rv bool) string {
	s := "CNil"
	items := make([]string, len(l))
	for i, x := range l { // placement of labels is decided in program order
		items[i] = x.c16(placed, rv)
	}
	for i := len(l) - 1; i >= 0; i-- {
		s = "(CCons " + items[i] + " " + s + ")"
	}
	return s
}

func (s *irStmt) c16(placed map[string]bool, rv bool) string {
	switch s.K {
	case "assign":
		return "CAssign"
	case "inc":
		return "CInc"
	case "send":
		return "CSend"
	case "call":
		return "CCall"
	case "go":
		return "CGo"
	case "defer":
		return "CDefer"
	case "define":
		return "CDefine"
	case "empty":
		return "CEmpty"
	case "panic":
		return "CPanic"
	case "constexpr":
		return "CConstExpr"
	case "inline":
		return "(CInline " + c16List(s.Body, nil, true) + ")"
	case "return":
		return "(CReturn " + coqBool(rv) + ")"
	case "break", "continue", "goto", "fallthrough":
		return "CBranch"
	case "labeled":
		p := false
		if placed != nil && !placed[s.Label] {
			placed[s.Label] = true
			p = true
		}
		return "(CLabeled " + coqBool(p) + " " + s.Body[0].c16(placed, rv) + ")"
	case "block":
		return "(CBlock " + c16List(s.Body, placed, rv) + ")"
	case "vblock":
		return "(CVBlock " + c16List(s.Body, placed, rv) + ")"
	case "if":
		body := c16List(s.Body, placed, rv)
		e := "ENone"
		if s.Else != nil {
			if s.Else.K == "if" {
				e = "(EIf " + s.Else.c16(placed, rv) + ")"
			} else {
				e = "(EBlock " + c16List(s.Else.Body, placed, rv) + ")"
			}
		}
		return "(CIf " + body + " " + e + ")"
	case "for":
		return "(CFor " + coqBool(s.HasCond) + " " + coqBool(s.HasPost) + " " + c16List(s.Body, placed, rv) + ")"
	case "range":
		return "(CRange " + c16List(s.Body, placed, rv) + ")"
	case "switch", "tswitch", "select":
		items := make([]string, len(s.Clauses))
		for i, c := range s.Clauses {
			items[i] = c16List(c.Body, placed, rv)
		}
		cs := "CCNil"
		for i := len(s.Clauses) - 1; i >= 0; i-- {
			cs = "(CCCons " + coqBool(s.Clauses[i].Default) + " " + items[i] + " " + cs + ")"
		}
		switch s.K {
		case "switch":
			return "(CSwitch " + coqBool(s.HasTag) + " " + cs + ")"
		case "tswitch":
			return "(CTSwitch " + cs + ")"
		}
		return "(CSelect " + cs + ")"
	case "closure":
		var cdefs, cuses []string
		labelEvents(s.Body, &cdefs, &cuses)
		return fmt.Sprintf("(CClosure %d %s)", len(cdefs), c16List(s.Body, map[string]bool{}, s.Results > 0))
	}
	panic("c16: " + s.K)
}

var c16OpCode = map[string]string{
	"Val": "OPush", "VarRef": "OPush", "Typ": "OPush", "None": "OPush",
	"BinaryOp": "OBinary", "UnaryOp": "OUnary", "Call0": "(OCall 0)", "Call1": "(OCall 1)",
	"Assign1": "(OStmt 2)", "IncDec": "(OStmt 1)", "Send": "(OStmt 2)", "Go": "(OStmt 1)", "Defer": "(OStmt 1)",
	"Return1": "(OStmt 1)", "Return0": "(OStmt 0)", "EndInit1": "(OStmt 1)", "EndStmt": "OEndStmt",
	"NewLabel": "ONewLabel", "InlineStart": "(OInlineStart 1)", "InlineEnd": "(OInlineEnd 1)",
	"InitStart": "ONop", "Label": "ONop", "Branch": "ONop", "NewFunc": "ONop", "NewClosure": "ONop",
	"Open:block": "OOpen", "Open:if": "OOpen", "Open:for": "OOpen", "Open:range": "OOpen", "Open:switch": "OOpen",
	"Open:case": "OOpen", "Open:tswitch": "OOpen", "Open:tcase": "OOpen", "Open:select": "OOpen", "Open:comm": "OOpen",
	"Open:vblock": "OOpenV", "Close:vblock": "OCloseV",
	"BodyStart": "OOpenFn", "Open:closure": "OOpenFn",
	"Then:if": "OThenOpen", "Then:for": "OThenOpen",
	"Then:switch": "OThenPop", "Then:tswitch": "OThenPop", "Then:range": "OThenPop",
	"Then:case": "OThenAll", "Then:tcase": "OThenAll", "Then:comm": "ONop",
	"Else": "OElse", "Post": "OClose", "Close:if": "OClose2", "Close:for": "OClose2", "Close:forpost": "OClose",
	"Close:block": "OClose", "Close:range": "OClose", "Close:switch": "OClose", "Close:case": "OClose",
	"Close:tswitch": "OClose", "Close:tcase": "OClose", "Close:select": "OClose", "Close:comm": "OClose",
	"Close:closure": "OCloseFnPush", "FuncEnd": "OCloseFn",
}
