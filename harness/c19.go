package main

// C19 — typeutil.Map / Hasher against the Coq model (hash of every pool type,
// model identity vs types.Identical, map histories), plus the direct oracle
// (identical types hash equally; histories vs a reference association list).

import (
	"fmt"
	"go/ast"
	"go/parser"
	"go/token"
	"go/types"
	"math/rand"
	"path/filepath"
	"sort"
	"strings"

	"github.com/goplus/gogen/typeutil"
)

func init() { register("C19", runC19) }

const c19Decls = `
type N0 int
type N1 struct { A int; b string ` + "`k:\"v\"`" + `; N0 }
type N2 func(int, ...string) (bool, error)
type N3 []N1
type N4 struct { next *N4; m map[string]*N4 }
type A0 = N1
type A1 = []int
type A2 = map[string]A1
type G0[T any] struct{ X T; Y []T }
type G1[K comparable, V any] map[K]V
type I0 interface{ M(int) string; N() }
type I1 interface{ N(); M(int) string }
type I2 interface{ I0; O(...int) }
type I3 interface{ O(...int); N(); M(int) string }
type I4 interface{ m(); M(x []N1) (N0, error) }
type C0 interface{ ~int | string }
type C1 interface{ string | ~int }
type C2 interface{ ~int | ~int8; M() }
type C3 interface{ int | any }
type C4 interface{ ~int | int }
type C5 interface{ C0; ~int | ~uint }
type C6 interface{ int; string }
func F0[T any, U comparable](a T, b ...U) map[T]U { panic(0) }
func F1[X any, Y comparable](c X, d ...Y) map[X]Y { panic(0) }
func F2[T C0](a []T) T { panic(0) }
func F3[S C1](a []S) S { panic(0) }
func F4[T C0, U any](a T, f func(T) U) []U { panic(0) }
func F5[P C0, Q any](a P, f func(P) Q) []Q { panic(0) }
func F6[T any, U any](a T, b U) { }
func F7[T any, U any](a U, b T) { }
func F8[T interface{ M(T) }](a T) { }
func F9[W interface{ M(W) }](a W) { }
func H0(a int, b ...string) (bool, error) { panic(0) }
func H1(a int, b []string) (bool, error) { panic(0) }
var X0 struct{ x int; y string }
var X1 struct{ y int; x string }
var X2 func(int, string)
var X3 func(string, int)
var X4 struct{ A int; B string; C bool }
var X5 struct{ A string; B bool; C int }
var X6 struct{ C bool; A int; B string }
var X7 func(a []int, b map[string]bool) (int, error)
var X8 func(a map[string]bool, b []int) (error, int)
var X9 interface{ M(int, string); N(string) }
var X10 interface{ M(string, int); N(string) }
var X11 struct{ x int; y string }
`

var c19Basics = []string{"int", "string", "float64", "byte", "rune", "uintptr", "complex128", "bool", "error", "any", "int32", "uint8", "unsafe.Pointer"}
var c19Named = []string{"N0", "N1", "N2", "N3", "N4", "A0", "A1", "A2", "I0", "I1", "I2", "I3", "I4"}
var c19Keys = []string{"int", "string", "N0", "byte", "bool", "float64", "[2]int", "*N1", "I0"}

func c19TypeExpr(r *rand.Rand, d int) string {
	if d <= 0 || r.Intn(5) == 0 {
		if r.Intn(2) == 0 {
			return c19Basics[r.Intn(len(c19Basics))]
		}
		return c19Named[r.Intn(len(c19Named))]
	}
	sub := func() string { return c19TypeExpr(r, d-1) }
	switch r.Intn(13) {
	case 0:
		return "*" + sub()
	case 1:
		return "[]" + sub()
	case 2:
		return fmt.Sprintf("[%d]%s", r.Intn(4), sub())
	case 3:
		return "map[" + c19Keys[r.Intn(len(c19Keys))] + "]" + sub()
	case 4:
		return []string{"chan ", "<-chan ", "chan<- "}[r.Intn(3)] + "(" + sub() + ")"
	case 5:
		n := r.Intn(3)
		ps := []string{}
		for i := 0; i < n; i++ {
			ps = append(ps, sub())
		}
		if r.Intn(3) == 0 {
			ps = append(ps, "..."+sub())
		}
		rs := []string{}
		for i, m := 0, r.Intn(3); i < m; i++ {
			rs = append(rs, sub())
		}
		return "func(" + strings.Join(ps, ", ") + ") (" + strings.Join(rs, ", ") + ")"
	case 6:
		n := r.Intn(4)
		fs := []string{}
		names := []string{"A", "b", "C", "d"}
		for i := 0; i < n; i++ {
			f := names[i] + " " + sub()
			if r.Intn(3) == 0 {
				f += " `t:\"" + names[r.Intn(4)] + "\"`"
			}
			fs = append(fs, f)
		}
		if r.Intn(3) == 0 {
			fs = append(fs, []string{"N0", "N1", "*N4", "I0"}[r.Intn(4)])
		}
		return "struct{ " + strings.Join(fs, "; ") + " }"
	case 7:
		n := r.Intn(3)
		ms := []string{}
		names := []string{"M", "N", "o"}
		perm := r.Perm(3)
		for i := 0; i < n; i++ {
			ms = append(ms, names[perm[i]]+"("+sub()+") "+sub())
		}
		if r.Intn(4) == 0 {
			ms = append(ms, "I0")
		}
		return "interface{ " + strings.Join(ms, "; ") + " }"
	case 8:
		return "G0[" + sub() + "]"
	case 9:
		return "G1[" + c19Keys[r.Intn(len(c19Keys))] + ", " + sub() + "]"
	case 10:
		return "func(" + sub() + ") " + sub()
	case 11:
		return "map[" + c19Keys[r.Intn(len(c19Keys))] + "][]" + sub()
	default:
		return "[]*" + sub()
	}
}

type c19Pool struct {
	src    string
	types  []types.Type
	descr  []string
	objID  map[*types.TypeName]int
	objs   []*types.TypeName
	pkgIdx map[*types.Package]int
}

func c19BuildPool(r *rand.Rand, nvars, depth int) (*c19Pool, error) {
	var b strings.Builder
	b.WriteString("package p\nimport \"unsafe\"\nvar _ unsafe.Pointer\n" + c19Decls)
	for i := 0; i < nvars; i++ {
		e := c19TypeExpr(r, depth)
		fmt.Fprintf(&b, "var V%d %s\n", i, e)
		if r.Intn(2) == 0 { // the same type written again: a distinct but identical type object
			fmt.Fprintf(&b, "var V%dd %s\n", i, e)
		}
	}
	p := &c19Pool{src: b.String(), objID: map[*types.TypeName]int{}, pkgIdx: map[*types.Package]int{}}
	seen := map[types.Type]bool{}
	add := func(t types.Type, d string) {
		if t == nil || seen[t] {
			return
		}
		seen[t] = true
		p.types = append(p.types, t)
		p.descr = append(p.descr, d)
	}
	for k := 0; k < 2; k++ { // the same source checked twice: structurally equal, distinct objects
		fset := token.NewFileSet()
		f, err := parser.ParseFile(fset, "p.go", p.src, 0)
		if err != nil {
			return nil, fmt.Errorf("pool source: %v\n%s", err, p.src)
		}
		conf := types.Config{Error: func(error) {}}
		pkg, _ := conf.Check(fmt.Sprintf("p%d", k), fset, []*ast.File{f}, nil)
		p.pkgIdx[pkg] = k + 1
		sc := pkg.Scope()
		names := sc.Names()
		sort.Strings(names)
		for _, n := range names {
			o := sc.Lookup(n)
			t := o.Type()
			if t == nil || t == types.Typ[types.Invalid] {
				continue
			}
			if b, ok := t.(*types.Basic); ok && b.Kind() == types.Invalid {
				continue
			}
			if k == 1 && r.Intn(3) == 0 {
				continue
			}
			add(t, fmt.Sprintf("p%d.%s", k, n))
			switch tn := o.(type) {
			case *types.TypeName:
				if r.Intn(2) == 0 {
					add(t.Underlying(), fmt.Sprintf("under(p%d.%s)", k, n))
				}
				if it, ok := t.Underlying().(*types.Interface); ok {
					for i := 0; i < it.NumEmbeddeds(); i++ {
						if u, ok := it.EmbeddedType(i).(*types.Union); ok {
							add(u, fmt.Sprintf("union(p%d.%s#%d)", k, n, i))
						}
					}
				}
				_ = tn
			case *types.Func:
				sig := t.(*types.Signature)
				if sig.Results().Len() > 0 && r.Intn(3) == 0 {
					add(sig.Results(), fmt.Sprintf("results(p%d.%s)", k, n))
				}
				if sig.TypeParams().Len() > 0 && r.Intn(2) == 0 {
					add(sig.TypeParams().At(0), fmt.Sprintf("tparam0(p%d.%s)", k, n))
				}
			}
		}
	}
	// invalid types make Identical meaningless: drop anything containing them
	var ts []types.Type
	var ds []string
	for i, t := range p.types {
		if !strings.Contains(types.TypeString(t, nil), "invalid type") {
			ts = append(ts, t)
			ds = append(ds, p.descr[i])
		}
	}
	p.types, p.descr = ts, ds
	return p, nil
}

func (p *c19Pool) obj(tn *types.TypeName) int {
	if id, ok := p.objID[tn]; ok {
		return id
	}
	id := len(p.objs) + 1
	p.objID[tn] = id
	p.objs = append(p.objs, tn)
	return id
}

func (p *c19Pool) pkgOf(name string, pkg *types.Package) int {
	if token.IsExported(name) || pkg == nil {
		return 0
	}
	if i, ok := p.pkgIdx[pkg]; ok {
		return i
	}
	i := len(p.pkgIdx) + 1
	p.pkgIdx[pkg] = i
	return i
}

func (p *c19Pool) encTys(n int, at func(i int) types.Type) string {
	s := "TNil"
	for i := n - 1; i >= 0; i-- {
		s = "(TCons " + p.enc(at(i)) + " " + s + ")"
	}
	return s
}

func (p *c19Pool) encTerms(terms []*types.Term, err error) string {
	if err != nil {
		return "TSErr"
	}
	if terms == nil {
		return "TSAll"
	}
	type kt struct {
		key string
		t   *types.Term
	}
	var ks []kt
	for _, t := range terms {
		ks = append(ks, kt{fmt.Sprintf("%s|%v", types.TypeString(t.Type(), nil), t.Tilde()), t})
	}
	sort.SliceStable(ks, func(i, j int) bool { return ks[i].key < ks[j].key }) // canonical order (sum is commutative)
	s := "TmNil"
	for i := len(ks) - 1; i >= 0; i-- {
		s = fmt.Sprintf("(TmCons %s %s %s)", coqBool(ks[i].t.Tilde()), p.enc(ks[i].t.Type()), s)
	}
	return "(TSTerms " + s + ")"
}

func (p *c19Pool) enc(t types.Type) string {
	t = types.Unalias(t)
	switch t := t.(type) {
	case *types.Basic:
		return fmt.Sprintf("(TBasic %d)", int(t.Kind()))
	case *types.Array:
		return fmt.Sprintf("(TArray %s %s)", coqZ(fmt.Sprint(t.Len())), p.enc(t.Elem()))
	case *types.Slice:
		return "(TSlice " + p.enc(t.Elem()) + ")"
	case *types.Pointer:
		return "(TPtr " + p.enc(t.Elem()) + ")"
	case *types.Map:
		return "(TMap " + p.enc(t.Key()) + " " + p.enc(t.Elem()) + ")"
	case *types.Chan:
		return fmt.Sprintf("(TChan %d %s)", int(t.Dir()), p.enc(t.Elem()))
	case *types.Struct:
		s := "FNil"
		for i := t.NumFields() - 1; i >= 0; i-- {
			f := t.Field(i)
			s = fmt.Sprintf("(FCons %s %d %s %s %s %s)", coqBytes(f.Name()), p.pkgOf(f.Name(), f.Pkg()), coqBool(f.Anonymous()), coqBytes(t.Tag(i)), p.enc(f.Type()), s)
		}
		return "(TStruct " + s + ")"
	case *types.Signature:
		tp := t.TypeParams()
		return fmt.Sprintf("(TSig %s %s %s %s)", coqBool(t.Variadic()),
			p.encTys(tp.Len(), func(i int) types.Type { return tp.At(i).Constraint() }),
			p.encTys(t.Params().Len(), func(i int) types.Type { return t.Params().At(i).Type() }),
			p.encTys(t.Results().Len(), func(i int) types.Type { return t.Results().At(i).Type() }))
	case *types.Interface:
		s := "MNil"
		for i := t.NumMethods() - 1; i >= 0; i-- {
			m := t.Method(i)
			s = fmt.Sprintf("(MCons %s %d %s %s)", coqBytes(m.Name()), p.pkgOf(m.Name(), m.Pkg()), p.enc(m.Type()), s)
		}
		terms, err := typeutil.VerifInterfaceTermSet(t)
		return "(TIface " + s + " " + p.encTerms(terms, err) + ")"
	case *types.Union:
		terms, err := typeutil.VerifUnionTermSet(t)
		return "(TUnion " + p.encTerms(terms, err) + ")"
	case *types.Named:
		ta := t.TypeArgs()
		return fmt.Sprintf("(TNamed %d %s)", p.obj(t.Obj()), p.encTys(ta.Len(), func(i int) types.Type { return ta.At(i) }))
	case *types.TypeParam:
		return fmt.Sprintf("(TParam %d %d)", p.obj(t.Obj()), t.Index())
	case *types.Tuple:
		return "(TTuple " + p.encTys(t.Len(), func(i int) types.Type { return t.At(i).Type() }) + ")"
	}
	panic(fmt.Sprintf("c19 enc: %T", t))
}

type c19Op struct {
	K string `json:"k"` // set delete at len keys
	I int    `json:"i"`
	V int    `json:"v"`
}
type c19Res struct {
	K    string `json:"k"`
	Has  bool   `json:"has,omitempty"`
	V    int    `json:"v,omitempty"`
	Keys []int  `json:"keys,omitempty"`
}

func (o c19Op) coq() string {
	switch o.K {
	case "set":
		return fmt.Sprintf("MSet %d %d", o.I, o.V)
	case "delete":
		return fmt.Sprintf("MDelete %d", o.I)
	case "at":
		return fmt.Sprintf("MAt %d", o.I)
	case "len":
		return "MLen"
	}
	return "MKeys"
}
func coqOptNat(has bool, v int) string {
	if !has {
		return "None"
	}
	return fmt.Sprintf("(Some %d)", v)
}
func (r c19Res) coq() string {
	switch r.K {
	case "prev":
		return "OPrev " + coqOptNat(r.Has, r.V)
	case "del":
		return "ODel " + coqBool(r.Has)
	case "val":
		return "OVal " + coqOptNat(r.Has, r.V)
	case "len":
		return fmt.Sprintf("OLen %d%%Z", r.V)
	}
	items := make([]string, len(r.Keys))
	for i, k := range r.Keys {
		items[i] = fmt.Sprint(k)
	}
	return "OKeys " + coqList(items)
}

type c19Case struct {
	Src    string     `json:"src"`
	Descr  []string   `json:"types"`
	Hists  [][]c19Op  `json:"hists"`
	Obs    [][]c19Res `json:"obs"`
	Hashes []uint32   `json:"hashes"`
}

// reference association list under types.Identical (the property's own oracle)
type c19Ref struct {
	keys []int
	vals []int
}

func (p *c19Pool) runHistory(ops []c19Op) (obs []c19Res, viol string) {
	var m typeutil.Map
	ref := &c19Ref{}
	idx := map[types.Type]int{}
	for i, t := range p.types {
		idx[t] = i
	}
	find := func(i int) int {
		for j, k := range ref.keys {
			if types.Identical(p.types[i], p.types[k]) {
				return j
			}
		}
		return -1
	}
	for n, o := range ops {
		var res c19Res
		func() {
			defer func() {
				if e := recover(); e != nil {
					res = c19Res{K: "fault"}
					viol = fmt.Sprintf("step %d: run-time fault %v", n, e)
				}
			}()
			switch o.K {
			case "set":
				prev := m.Set(p.types[o.I], o.V)
				res = c19Res{K: "prev"}
				if prev != nil {
					res.Has, res.V = true, prev.(int)
				}
				j := find(o.I)
				if (j >= 0) != res.Has || (j >= 0 && ref.vals[j] != res.V) {
					viol = fmt.Sprintf("step %d: Set returned a different previous value than the reference", n)
				}
				if j >= 0 {
					ref.vals[j] = o.V
				} else {
					ref.keys, ref.vals = append(ref.keys, o.I), append(ref.vals, o.V)
				}
			case "delete":
				d := m.Delete(p.types[o.I])
				res = c19Res{K: "del", Has: d}
				j := find(o.I)
				if (j >= 0) != d {
					viol = fmt.Sprintf("step %d: Delete result differs from the reference", n)
				}
				if j >= 0 {
					ref.keys = append(ref.keys[:j], ref.keys[j+1:]...)
					ref.vals = append(ref.vals[:j], ref.vals[j+1:]...)
				}
			case "at":
				v := m.At(p.types[o.I])
				res = c19Res{K: "val"}
				if v != nil {
					res.Has, res.V = true, v.(int)
				}
				j := find(o.I)
				if (j >= 0) != res.Has || (j >= 0 && ref.vals[j] != res.V) {
					viol = fmt.Sprintf("step %d: At differs from the reference", n)
				}
			case "len":
				res = c19Res{K: "len", V: m.Len()}
				if m.Len() != len(ref.keys) {
					viol = fmt.Sprintf("step %d: Len %d, reference %d", n, m.Len(), len(ref.keys))
				}
			case "keys":
				ks := m.Keys()
				res = c19Res{K: "keys"}
				for _, k := range ks {
					res.Keys = append(res.Keys, idx[k])
				}
				sort.Ints(res.Keys)
				cnt := 0
				m.Iterate(func(types.Type, any) { cnt++ })
				want := append([]int{}, ref.keys...)
				sort.Ints(want)
				if fmt.Sprint(want) != fmt.Sprint(res.Keys) || cnt != len(want) {
					viol = fmt.Sprintf("step %d: Keys/Iterate differ from the reference", n)
				}
			}
		}()
		obs = append(obs, res)
		if viol != "" {
			return
		}
	}
	return
}

func runC19(a *runArgs) error {
	nPools, nVars, depth, nHist, histLen := 6, 16, 3, 8, 60
	if a.Tier == "thorough" {
		nPools, nVars, depth, nHist, histLen = 60, 22, 4, 20, 300
	}
	r := rand.New(rand.NewSource(a.Seed))
	cw := newCaseWriter(a.Out, "C19", "From GV Require Import Lib.Bytes C19.TypeModel C19.MapModel C19.Check.",
		"pool_case", 1, "k1_hash cases", "k2_ident cases", "k1_hist cases", "k_wf cases")
	cl := newCaseLog(a.Out)
	defer cl.close()
	m := &meta{Property: "C19", Seed: a.Seed, Tier: a.Tier, PerShard: 1,
		Strata: map[string]int{}, Dist: map[string]int{}, Known: map[string]int{},
		Rule: "pools of go/types types (a fixed family of colliding declarations + random type expressions, each source checked twice to get distinct identical objects); per pool: Hasher.Hash of every type, the full types.Identical matrix, random Set/Delete/At/Len/Keys histories on typeutil.Map; distinct_nontrivial = number of identity classes with >= 2 distinct type objects plus number of distinct histories"}
	var replayOps [][]c19Op
	if a.Replay != "" {
		var rp struct {
			Replay c19Case `json:"replay"`
		}
		if err := readJSON(a.Replay, &rp); err != nil {
			return err
		}
		_ = rp
		nPools = 1
	}
	hasher := typeutil.MakeHasher()
	for pi := 0; pi < nPools; pi++ {
		p, err := c19BuildPool(r, nVars, depth)
		if err != nil {
			return err
		}
		n := len(p.types)
		cs := c19Case{Src: p.src, Descr: p.descr}
		// encode first (assigns object ids)
		enc := make([]string, n)
		for i, t := range p.types {
			enc[i] = p.enc(t)
			m.Dist[fmt.Sprintf("%T", t)]++
		}
		hashes := make([]string, n)
		hv := make([]uint32, n)
		for i, t := range p.types {
			hv[i] = hasher.Hash(t)
			hashes[i] = fmt.Sprint(hv[i]) + "%N"
		}
		cs.Hashes = hv
		ptr := []string{}
		for i, o := range p.objs {
			ptr = append(ptr, fmt.Sprintf("(%d%%N, %d%%N)", i+1, hasher.Hash(o.Type())))
		}
		// identity matrix + direct oracle 1
		rows := make([]string, n)
		classes := 0
		inClass := make([]bool, n)
		for i := 0; i < n; i++ {
			row := make([]string, n)
			for j := 0; j < n; j++ {
				id := types.Identical(p.types[i], p.types[j])
				row[j] = coqBool(id)
				m.DirectRuns++
				if id && i != j {
					if hv[i] != hv[j] {
						m.Direct = append(m.Direct, directViolation{Case: pi, Step: i*1000 + j,
							What:   fmt.Sprintf("identical types hash differently: %s (%d) vs %s (%d): %s", p.descr[i], hv[i], p.descr[j], hv[j], types.TypeString(p.types[i], nil)),
							Replay: cs})
					}
					if i < j && !inClass[j] {
						if !inClass[i] {
							classes++
							inClass[i] = true
						}
						inClass[j] = true
					}
				}
			}
			rows[i] = coqList(row)
		}
		m.Distinct += classes
		// groups of pool indices that share a hash value but are not all identical
		byHash := map[uint32][]int{}
		for i := range p.types {
			byHash[hv[i]] = append(byHash[hv[i]], i)
		}
		var collide [][]int
		var hkeys []int
		for h := range byHash {
			hkeys = append(hkeys, int(h))
		}
		sort.Ints(hkeys)
		for _, h := range hkeys {
			g := byHash[uint32(h)]
			mixed := false
			for _, j := range g[1:] {
				if !types.Identical(p.types[g[0]], p.types[j]) {
					mixed = true
				}
			}
			if mixed {
				collide = append(collide, g)
			}
		}
		m.Dist["collision-buckets"] += len(collide)
		// histories
		hists := []string{}
		seenH := map[string]bool{}
		for h := 0; h < nHist; h++ {
			var ops []c19Op
			if a.Replay != "" && h < len(replayOps) {
				ops = replayOps[h]
			} else {
				// few keys so that buckets, holes and identical-but-distinct keys interact
				nk := 3 + r.Intn(10)
				keys := make([]int, nk)
				for i := range keys {
					keys[i] = r.Intn(n)
				}
				// collision buckets: distinct identity classes with one hash value
				if len(collide) > 0 && r.Intn(3) != 0 {
					g := collide[r.Intn(len(collide))]
					keys = append(keys[:1+r.Intn(3)], g...)
					nk = len(keys)
				}
				// bias: add members of identity classes
				for i := 0; i < n && len(keys) < nk+6; i++ {
					if inClass[i] && r.Intn(3) == 0 {
						keys = append(keys, i)
					}
				}
				L := 5 + r.Intn(histLen)
				for j := 0; j < L; j++ {
					k := keys[r.Intn(len(keys))]
					switch x := r.Intn(100); {
					case x < 35:
						ops = append(ops, c19Op{K: "set", I: k, V: r.Intn(1000)})
					case x < 60:
						ops = append(ops, c19Op{K: "delete", I: k})
					case x < 85:
						ops = append(ops, c19Op{K: "at", I: k})
					case x < 93:
						ops = append(ops, c19Op{K: "len"})
					default:
						ops = append(ops, c19Op{K: "keys"})
					}
				}
			}
			obs, viol := p.runHistory(ops)
			if viol != "" {
				m.Direct = append(m.Direct, directViolation{Case: pi, Step: h, What: "map history: " + viol, Replay: cs})
			}
			m.DirectRuns += len(ops)
			cs.Hists = append(cs.Hists, ops)
			cs.Obs = append(cs.Obs, obs)
			items := make([]string, len(obs))
			for i := range obs {
				items[i] = "(" + ops[i].coq() + ", " + obs[i].coq() + ")"
				m.Dist["op:"+ops[i].K]++
			}
			hs := coqList(items)
			if !seenH[hs] {
				seenH[hs] = true
				m.Distinct++
			}
			hists = append(hists, hs)
		}
		term := fmt.Sprintf("mkPool %s %s %s %s %s", coqList(enc), coqList(ptr), coqList(hashes), coqList(rows), coqList(hists))
		cw.add(term)
		cl.add(cs)
		m.Strata["pool"]++
		if len(m.Samples) < 2 {
			m.Samples = append(m.Samples, map[string]any{"types": p.descr, "first_history": cs.Hists[0][:min(12, len(cs.Hists[0]))], "n_types": n, "identity_classes_with_2+": classes})
		}
		m.Dist["types"] += n
	}
	cw.flush()
	m.Cases = nPools
	m.Files = cw.files
	m.Notes = append(m.Notes, "r0 = hash mismatches (K1), r1 = identity mismatches (K2), r2 = history mismatches (K1), r3 = pool types outside wf_top (hypothesis of the hash theorem)")
	_ = filepath.Join
	return writeJSON(filepath.Join(a.Out, "meta.json"), m)
}
