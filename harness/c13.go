package main

// C13 — type expressions round-trip.  For every generated type T:
//   obs  = the syntax gogen's toType produces (hook VerifToType), encoded as a Coq `syn`
//   back = the type the Go checker resolves the emitted text to (the generated file is parsed and
//          type-checked together with the declarations of the universe), encoded as a Coq `ty`
// Coq evaluates K1: to_syn T = obs, K2: denote obs = back, HYP: wf T, RT: denote (to_syn T) = T.
// The Go side decides the property directly: back must be identical to T.
// A second stream enumerates every channel nesting up to depth 5 (6 in the thorough tier) for the
// token-level channel fragment.

import (
	"bytes"
	"fmt"
	"go/ast"
	"go/importer"
	"go/parser"
	"go/scanner"
	"go/token"
	"go/types"
	"math/rand"
	"os"
	"path/filepath"
	"sort"
	"strings"

	"github.com/goplus/gogen"
)

func init() { register("C13", runC13) }

const c13Decls = `package main

import (
	"bytes"
	"io"
	"sync"
	"sync/atomic"
	"time"
	"unsafe"
	"os"
)

var (
	_ bytes.Buffer
	_ io.Reader
	_ sync.Mutex
	_ atomic.Int32
	_ time.Duration
	_ unsafe.Pointer
	_ os.FileMode
)

type L struct{ a int }
type E struct{ A int }
type MInt int
type MSlice []string
type I interface{ M() }
type Str interface{ String() string }
type Number interface{ ~int | ~int64 | ~float64 }
type AL = []int
type AE = E
type G[T any] struct{ X T }
type Pair[K comparable, V any] struct {
	Key K
	Val V
}
type GF[T any] func(T) T
`

// package ids of the Coq model: 0 universe, 1 this package, 2 unsafe, then by path
var c13PkgIDs = map[string]int{"": 0, "main": 1, "unsafe": 2, "bytes": 3, "io": 4, "sync": 5, "sync/atomic": 6, "time": 7, "os": 8, "io/fs": 9}

type c13World struct {
	fset  *token.FileSet
	tpkg  *types.Package
	imp   types.Importer
	file  *ast.File
	named map[string]types.Type // "L", "bytes.Buffer", ...
}

func c13NewWorld() (*c13World, error) {
	w := &c13World{fset: token.NewFileSet(), named: map[string]types.Type{}}
	af, err := parser.ParseFile(w.fset, "decls.go", c13Decls, 0)
	if err != nil {
		return nil, err
	}
	w.file = af
	w.imp = importer.ForCompiler(w.fset, "source", nil)
	w.tpkg, err = (&types.Config{Importer: w.imp}).Check("main", w.fset, []*ast.File{af}, nil)
	if err != nil {
		return nil, err
	}
	for _, n := range []string{"L", "E", "MInt", "MSlice", "I", "Str", "Number", "AL", "AE", "G", "Pair", "GF"} {
		w.named[n] = w.tpkg.Scope().Lookup(n).Type()
	}
	for _, imp := range w.tpkg.Imports() {
		for _, n := range []string{"Buffer", "Reader", "Writer", "Mutex", "Int32", "Pointer", "Duration", "Time", "FileMode", "File", "Once"} {
			if o := imp.Scope().Lookup(n); o != nil {
				if _, ok := o.(*types.TypeName); ok {
					w.named[imp.Name()+"."+n] = o.Type()
				}
			}
		}
	}
	return w, nil
}

// ---------- encoders ----------

type c13Enc struct {
	pkgOf   func(p *types.Package) int // package id
	anyObj  types.Type                 // the interface object printed as "any" (gogen.TyAny), or nil for reparsed types
	aliases map[string]bool            // "pkgid/name"
	bad     string
	// comparison modulo type identity: parameter names inside type-argument lists are blanked
	eraseInArgs bool
	inArgs      int
}

func (e *c13Enc) tys(n int, at func(i int) types.Type) string {
	s := "TNil"
	for i := n - 1; i >= 0; i-- {
		s = "(TCons " + e.ty(at(i)) + " " + s + ")"
	}
	return s
}

func (e *c13Enc) params(t *types.Tuple) string {
	s := "PNil"
	for i := t.Len() - 1; i >= 0; i-- {
		name := t.At(i).Name()
		if e.inArgs > 0 && e.eraseInArgs {
			name = "" // type identity ignores parameter names; instances are shared among identical argument lists
		}
		s = fmt.Sprintf("(PCons %s %s %s)", coqBytes(name), e.ty(t.At(i).Type()), s)
	}
	return s
}

func (e *c13Enc) ty(t types.Type) string {
	switch t := t.(type) {
	case *types.Basic:
		if t.Kind() == types.UnsafePointer {
			return "TUnsafePtr"
		}
		return "(TBasic " + coqBytes(t.Name()) + ")"
	case *types.Alias:
		if t.Obj().Pkg() == nil && t.Obj().Name() == "any" {
			return "(TIface true false TNil MNil)"
		}
		targs := t.TypeArgs()
		n := 0
		if targs != nil {
			n = targs.Len()
		}
		id := e.pkgOf(t.Obj().Pkg())
		e.aliases[fmt.Sprintf("%d/%s", id, t.Obj().Name())] = true
		e.inArgs++
		defer func() { e.inArgs-- }()
		return fmt.Sprintf("(TNamed true %d%%N %s %s)", id, coqBytes(t.Obj().Name()), e.tys(n, func(i int) types.Type { return targs.At(i) }))
	case *types.Named:
		targs := t.TypeArgs()
		n := 0
		if targs != nil {
			n = targs.Len()
		}
		e.inArgs++
		defer func() { e.inArgs-- }()
		return fmt.Sprintf("(TNamed false %d%%N %s %s)", e.pkgOf(t.Obj().Pkg()), coqBytes(t.Obj().Name()), e.tys(n, func(i int) types.Type { return targs.At(i) }))
	case *types.Pointer:
		return "(TPtr " + e.ty(t.Elem()) + ")"
	case *types.Slice:
		return "(TSlice " + e.ty(t.Elem()) + ")"
	case *types.Array:
		if t.Len() < 0 {
			e.bad = "negative array length"
			return "(TBasic [])"
		}
		return fmt.Sprintf("(TArray %d%%N %s)", t.Len(), e.ty(t.Elem()))
	case *types.Map:
		return "(TMap " + e.ty(t.Key()) + " " + e.ty(t.Elem()) + ")"
	case *types.Chan:
		d := map[types.ChanDir]int{types.SendRecv: 0, types.SendOnly: 1, types.RecvOnly: 2}[t.Dir()]
		return fmt.Sprintf("(TChan %d%%N %s)", d, e.ty(t.Elem()))
	case *types.Struct:
		s := "FNil"
		for i := t.NumFields() - 1; i >= 0; i-- {
			f := t.Field(i)
			s = fmt.Sprintf("(FCons %s %s %s %s %s)", coqBytes(f.Name()), coqBool(f.Embedded()), coqBytes(t.Tag(i)), e.ty(f.Type()), s)
		}
		return "(TStruct " + s + ")"
	case *types.Signature:
		return fmt.Sprintf("(TFunc %s %s %s)", coqBool(t.Variadic()), e.params(t.Params()), e.params(t.Results()))
	case *types.Interface:
		if e.anyObj != nil && t == e.anyObj {
			return "(TIface true false TNil MNil)"
		}
		ms := "MNil"
		for i := t.NumExplicitMethods() - 1; i >= 0; i-- {
			m := t.ExplicitMethod(i)
			sig := m.Type().(*types.Signature)
			ms = fmt.Sprintf("(MCons %s %s %s %s %s)", coqBytes(m.Name()), coqBool(sig.Variadic()), e.params(sig.Params()), e.params(sig.Results()), ms)
		}
		return fmt.Sprintf("(TIface false %s %s %s)", coqBool(t.IsImplicit()), e.tys(t.NumEmbeddeds(), t.EmbeddedType), ms)
	case *types.Union:
		s := "TmNil"
		for i := t.Len() - 1; i >= 0; i-- {
			s = fmt.Sprintf("(TmCons %s %s %s)", coqBool(t.Term(i).Tilde()), e.ty(t.Term(i).Type()), s)
		}
		return "(TUnion " + s + ")"
	case *types.TypeParam:
		return "(TParam " + coqBytes(t.Obj().Name()) + ")"
	}
	e.bad = fmt.Sprintf("unsupported type %T", t)
	return "(TBasic [])"
}

type c13SynEnc struct {
	pkgByName map[string]int
	bad       string
}

func (e *c13SynEnc) fields(fl *ast.FieldList) string {
	if fl == nil {
		return "SFNil"
	}
	s := "SFNil"
	for i := len(fl.List) - 1; i >= 0; i-- {
		f := fl.List[i]
		name := "None"
		switch len(f.Names) {
		case 0:
		case 1:
			name = "(Some " + coqBytes(f.Names[0].Name) + ")"
		default:
			e.bad = "field with several names"
		}
		tag := "None"
		if f.Tag != nil {
			tag = "(Some " + coqBytes(f.Tag.Value) + ")"
		}
		s = fmt.Sprintf("(SFCons %s %s %s %s)", name, e.syn(f.Type), tag, s)
	}
	return s
}

func (e *c13SynEnc) syns(l []ast.Expr) string {
	s := "SNil"
	for i := len(l) - 1; i >= 0; i-- {
		s = "(SCons " + e.syn(l[i]) + " " + s + ")"
	}
	return s
}

func (e *c13SynEnc) syn(x ast.Expr) string {
	switch x := x.(type) {
	case nil:
		e.bad = "nil expression"
		return "(SIdent [])"
	case *ast.Ident:
		return "(SIdent " + coqBytes(x.Name) + ")"
	case *ast.SelectorExpr:
		id, ok := x.X.(*ast.Ident)
		if !ok {
			e.bad = "selector on a non-identifier"
			return "(SIdent [])"
		}
		p, ok := e.pkgByName[id.Name]
		if !ok {
			e.bad = "unknown package name " + id.Name
		}
		return fmt.Sprintf("(SSel %d%%N %s)", p, coqBytes(x.Sel.Name))
	case *ast.IndexExpr:
		return "(SIndex " + e.syn(x.X) + " " + e.syns([]ast.Expr{x.Index}) + ")"
	case *ast.IndexListExpr:
		return "(SIndex " + e.syn(x.X) + " " + e.syns(x.Indices) + ")"
	case *ast.StarExpr:
		return "(SStar " + e.syn(x.X) + ")"
	case *ast.ArrayType:
		l := "None"
		switch n := x.Len.(type) {
		case nil:
		case *ast.Ellipsis:
			l = "(Some None)"
		case *ast.BasicLit:
			l = "(Some (Some " + coqBytes(n.Value) + "))"
		default:
			e.bad = "array length is not a literal"
		}
		return "(SArr " + l + " " + e.syn(x.Elt) + ")"
	case *ast.MapType:
		return "(SMap " + e.syn(x.Key) + " " + e.syn(x.Value) + ")"
	case *ast.ChanType:
		d := 0
		switch x.Dir {
		case ast.SEND:
			d = 1
		case ast.RECV:
			d = 2
		}
		return fmt.Sprintf("(SChan %d%%N %s)", d, e.syn(x.Value))
	case *ast.ParenExpr:
		return "(SParen " + e.syn(x.X) + ")"
	case *ast.StructType:
		return "(SStruct " + e.fields(x.Fields) + ")"
	case *ast.FuncType:
		if x.TypeParams != nil && len(x.TypeParams.List) > 0 {
			e.bad = "function type with type parameters"
		}
		return "(SFunc " + e.fields(x.Params) + " " + e.fields(x.Results) + ")"
	case *ast.Ellipsis:
		return "(SEllipsis " + e.syn(x.Elt) + ")"
	case *ast.InterfaceType:
		return "(SIface " + e.fields(x.Methods) + ")"
	case *ast.UnaryExpr:
		if x.Op != token.TILDE {
			e.bad = "unary operator " + x.Op.String()
		}
		return "(STilde " + e.syn(x.X) + ")"
	case *ast.BinaryExpr:
		// left-nested chain a | b | c
		var terms []ast.Expr
		var walk func(b ast.Expr)
		walk = func(b ast.Expr) {
			if be, ok := b.(*ast.BinaryExpr); ok && be.Op == token.OR {
				walk(be.X)
				terms = append(terms, be.Y)
				return
			}
			terms = append(terms, b)
		}
		if x.Op != token.OR {
			e.bad = "binary operator " + x.Op.String()
		}
		walk(x)
		return "(SOrs " + e.syns(terms) + ")"
	}
	e.bad = fmt.Sprintf("unsupported syntax %T", x)
	return "(SIdent [])"
}

// ---------- generator ----------

type c13Gen struct {
	r       *rand.Rand
	w       *c13World
	tparams []*types.TypeParam // in scope (generic function stream)
	uniq    int
}

var c13Basics = []string{"bool", "int", "int8", "int16", "int32", "int64", "uint", "uint8", "uint16", "uint32", "uint64", "uintptr", "float32", "float64", "complex64", "complex128", "string", "byte", "rune"}

var c13Tags = []string{"", "", "", `json:"a"`, `json:"name,omitempty" xml:"n"`, "a`b", "line1\nline2", "cr\rlf", "tab\there", `q"uote`, `back\slash`, "\x00\x01\x7f", "`", "``x``", "a\r", " ", "x\x1by"}

func (g *c13Gen) basic() types.Type {
	return types.Universe.Lookup(c13Basics[g.r.Intn(len(c13Basics))]).Type()
}

func (g *c13Gen) comparable(depth int) types.Type {
	switch g.r.Intn(8) {
	case 0:
		return types.Typ[types.String]
	case 1:
		return g.w.named["MInt"]
	case 2:
		return g.w.named["E"]
	case 3:
		return types.NewPointer(g.gen(depth - 1))
	case 4:
		return g.w.named["time.Duration"]
	case 5:
		return types.NewArray(g.comparable(depth-1), int64(g.r.Intn(4)))
	case 6:
		return types.NewChan(types.ChanDir(g.r.Intn(3)), g.gen(depth-1))
	}
	return g.basic()
}

func (g *c13Gen) leaf() types.Type {
	switch g.r.Intn(14) {
	case 0:
		return types.Typ[types.UnsafePointer]
	case 1:
		return g.w.named[[]string{"L", "E", "MInt", "MSlice", "I", "Str"}[g.r.Intn(6)]]
	case 2:
		return g.w.named[[]string{"AL", "AE"}[g.r.Intn(2)]]
	case 3:
		ns := []string{"bytes.Buffer", "io.Reader", "io.Writer", "sync.Mutex", "atomic.Int32", "time.Duration", "time.Time", "os.FileMode", "os.File", "sync.Once"}
		return g.w.named[ns[g.r.Intn(len(ns))]]
	case 4:
		return types.Universe.Lookup("error").Type()
	case 5:
		return gogen.TyAny
	case 6:
		return types.NewInterfaceType(nil, nil)
	case 7, 8:
		if len(g.tparams) > 0 {
			return g.tparams[g.r.Intn(len(g.tparams))]
		}
	}
	return g.basic()
}

func (g *c13Gen) name(prefix string) string {
	g.uniq++
	return fmt.Sprintf("%s%d", prefix, g.uniq)
}

func (g *c13Gen) tuple(depth int, named bool, n int, lastSlice bool) *types.Tuple {
	vars := make([]*types.Var, n)
	for i := range vars {
		t := g.gen(depth - 1)
		if lastSlice && i == n-1 {
			t = types.NewSlice(t)
		}
		nm := ""
		if named {
			nm = g.name("p")
			if g.r.Intn(6) == 0 {
				nm = "_"
			}
		}
		vars[i] = types.NewParam(token.NoPos, g.w.tpkg, nm, t)
	}
	return types.NewTuple(vars...)
}

func (g *c13Gen) sig(depth int) *types.Signature {
	np := g.r.Intn(4)
	variadic := np > 0 && g.r.Intn(3) == 0
	named := g.r.Intn(2) == 0
	nr := g.r.Intn(3)
	return types.NewSignatureType(nil, nil, nil, g.tuple(depth, named, np, variadic), g.tuple(depth, g.r.Intn(4) == 0, nr, false), variadic)
}

func (g *c13Gen) inst(name string, targs ...types.Type) types.Type {
	t, err := types.Instantiate(nil, g.w.named[name], targs, true)
	if err != nil {
		return g.basic()
	}
	return t
}

func (g *c13Gen) gen(depth int) types.Type {
	if depth <= 0 {
		return g.leaf()
	}
	switch g.r.Intn(16) {
	case 0:
		return types.NewPointer(g.gen(depth - 1))
	case 1:
		return types.NewSlice(g.gen(depth - 1))
	case 2:
		lens := []int64{0, 1, 2, 3, 16, 255, 1 << 20, 1 << 40}
		return types.NewArray(g.gen(depth-1), lens[g.r.Intn(len(lens))])
	case 3:
		return types.NewMap(g.comparable(depth-1), g.gen(depth-1))
	case 4, 5:
		return types.NewChan(types.ChanDir(g.r.Intn(3)), g.gen(depth-1))
	case 6, 7:
		return g.sig(depth)
	case 8, 9:
		n := g.r.Intn(4)
		var fs []*types.Var
		var tags []string
		used := map[string]bool{}
		for i := 0; i < n; i++ {
			if g.r.Intn(4) == 0 { // embedded: a named type or a pointer to one
				ns := []string{"L", "E", "MInt", "I", "bytes.Buffer", "io.Reader", "sync.Mutex", "time.Duration", "AE"}
				nm := ns[g.r.Intn(len(ns))]
				var t types.Type = g.w.named[nm]
				base := nm[strings.Index(nm, ".")+1:]
				if used[base] {
					continue
				}
				used[base] = true
				_, isIface := t.Underlying().(*types.Interface)
				if g.r.Intn(3) == 0 && !isIface {
					t = types.NewPointer(t)
				}
				fs = append(fs, types.NewField(token.NoPos, g.w.tpkg, base, t, true))
			} else {
				nm := g.name("F")
				if g.r.Intn(3) == 0 {
					nm = g.name("f")
				}
				fs = append(fs, types.NewField(token.NoPos, g.w.tpkg, nm, g.gen(depth-1), false))
			}
			tags = append(tags, c13Tags[g.r.Intn(len(c13Tags))])
		}
		return types.NewStruct(fs, tags)
	case 10:
		var ms []*types.Func
		for i, n := 0, g.r.Intn(3); i < n; i++ {
			nm := g.name("M")
			if g.r.Intn(4) == 0 {
				nm = g.name("m")
			}
			ms = append(ms, types.NewFunc(token.NoPos, g.w.tpkg, nm, g.sig(depth-1)))
		}
		var embeds []types.Type
		if g.r.Intn(3) == 0 {
			embeds = append(embeds, g.w.named[[]string{"I", "Str", "io.Reader"}[g.r.Intn(3)]])
		}
		it := types.NewInterfaceType(ms, embeds)
		it.Complete()
		return it
	case 11:
		return g.inst("G", g.gen(depth-1))
	case 12:
		return g.inst("Pair", g.comparable(depth-1), g.gen(depth-1))
	case 13:
		return g.inst("atomic.Pointer", g.gen(depth-1))
	case 14:
		return g.inst("GF", g.gen(depth-1))
	}
	return g.leaf()
}

// constraints for the type parameters of the generic function stream
func (g *c13Gen) constraint() types.Type {
	term := func(tilde bool, t types.Type) *types.Term { return types.NewTerm(tilde, t) }
	implicit := func(u *types.Union) types.Type {
		it := types.NewInterfaceType(nil, []types.Type{u})
		it.MarkImplicit()
		it.Complete()
		return it
	}
	switch g.r.Intn(8) {
	case 0:
		return types.Universe.Lookup("comparable").Type()
	case 1:
		return implicit(types.NewUnion([]*types.Term{term(true, types.Typ[types.Int]), term(false, types.Typ[types.String])}))
	case 2:
		return implicit(types.NewUnion([]*types.Term{term(true, types.Typ[types.Float64])}))
	case 3:
		return g.w.named["Number"]
	case 4:
		u := types.NewUnion([]*types.Term{term(true, types.Typ[types.Int]), term(true, types.Typ[types.Int8]), term(false, g.w.named["MSlice"])})
		m := types.NewFunc(token.NoPos, g.w.tpkg, "String", types.NewSignatureType(nil, nil, nil, nil, types.NewTuple(types.NewParam(token.NoPos, g.w.tpkg, "", types.Typ[types.String])), false))
		it := types.NewInterfaceType([]*types.Func{m}, []types.Type{u})
		it.Complete()
		return it
	case 5:
		return g.w.named["io.Reader"]
	case 6:
		return implicit(types.NewUnion([]*types.Term{term(false, types.NewSlice(types.Typ[types.Byte])), term(true, types.Typ[types.String]), term(false, types.NewChan(types.RecvOnly, types.Typ[types.Int]))}))
	}
	return gogen.TyAny
}

// ---------- canonical text of a type for the direct comparison ----------

func c13Canon(t types.Type) string {
	s := types.TypeString(t, func(p *types.Package) string { return p.Path() })
	s = strings.ReplaceAll(s, "interface{}", "any")
	return s
}

type c13Case struct {
	Kind    string `json:"kind"` // var | funcparam | constraint | chan
	Type    string `json:"type"`
	Emitted string `json:"emitted_syntax"`
	Back    string `json:"resolved_to"`
}

func c13Tokens(text string) ([]string, bool) {
	var s scanner.Scanner
	fs := token.NewFileSet()
	f := fs.AddFile("", fs.Base(), len(text))
	s.Init(f, []byte(text), nil, 0)
	var out []string
	for {
		_, tok, _ := s.Scan()
		switch tok {
		case token.EOF:
			return out, true
		case token.SEMICOLON:
		case token.CHAN:
			out = append(out, "KChan")
		case token.ARROW:
			out = append(out, "KArrow")
		case token.LPAREN:
			out = append(out, "KLp")
		case token.RPAREN:
			out = append(out, "KRp")
		case token.IDENT:
			out = append(out, "KName")
		default:
			return out, false
		}
	}
}

func runC13(a *runArgs) error {
	w, err := c13NewWorld()
	if err != nil {
		return err
	}
	nVars, nFuncs, chanDepth := 700, 120, 5
	if a.Tier == "thorough" {
		nVars, nFuncs, chanDepth = 6000, 800, 7
	}
	r := rand.New(rand.NewSource(a.Seed))
	g := &c13Gen{r: r, w: w}
	m := &meta{Property: "C13", Seed: a.Seed, Tier: a.Tier, PerShard: 250,
		Strata: map[string]int{}, Dist: map[string]int{}, Known: map[string]int{},
		Rule: "random types to depth 5 over basic types, unsafe.Pointer, named/alias/generic types of this and six imported packages, pointers, slices, arrays, maps, channels, functions (named/unnamed/variadic parameters), structs (embedded fields, tags with backquotes, quotes, CR, LF, control bytes), interfaces (methods, embedded interfaces), type parameters with union/approximation constraints; plus every channel nesting to depth 5 (7 thorough); distinct = distinct canonical type strings; non-trivial = depth >= 1"}
	cw := newCaseWriter(a.Out, "C13", "From GV Require Import Lib.Bytes C13.Model C13.Chan C13.Check.", "c13case", 250,
		"k1_bad cases", "k2_bad cases", "hyp_bad cases")
	cl := newCaseLog(a.Out)
	defer cl.close()

	conf := &gogen.Config{Fset: token.NewFileSet(), Importer: w.imp, Types: w.tpkg}
	pkg := gogen.NewPackage("main", "main", conf)
	pkgByName := map[string]int{}
	for p, id := range c13PkgIDs {
		pkgByName[p[strings.LastIndex(p, "/")+1:]] = id
	}
	pkgOf := func(p *types.Package) int {
		if p == nil {
			return 0
		}
		if p == w.tpkg || p.Path() == "main" {
			return 1
		}
		if id, ok := c13PkgIDs[p.Path()]; ok {
			return id
		}
		return 99
	}

	type item struct {
		kind    string
		T       types.Type
		obs     string // Coq syn
		text    string
		tps     []string
		lookup  func(chk *types.Package) types.Type
		enc     *c13Enc
		tyTerm  string
		bad     string
		isConst bool
	}
	var items []*item
	seen := map[string]bool{}
	fault := func(f func()) (msg string) {
		defer func() {
			if e := recover(); e != nil {
				msg = fmt.Sprint(e)
			}
		}()
		f()
		return ""
	}
	addItem := func(kind string, T types.Type, tps []string, isConstraint bool, lookup func(chk *types.Package) types.Type) {
		it := &item{kind: kind, T: T, tps: tps, lookup: lookup, isConst: isConstraint}
		it.enc = &c13Enc{pkgOf: pkgOf, anyObj: gogen.TyAny, aliases: map[string]bool{}}
		it.tyTerm = it.enc.ty(T)
		var expr ast.Expr
		if msg := fault(func() { expr = gogen.VerifToType(pkg, T) }); msg != "" {
			m.Direct = append(m.Direct, directViolation{Case: len(items), What: "toType faults on " + c13Canon(T) + ": " + msg, Replay: c13Case{Kind: kind, Type: c13Canon(T)}})
			return
		}
		se := &c13SynEnc{pkgByName: pkgByName}
		it.obs = se.syn(expr)
		it.bad = se.bad
		var buf bytes.Buffer
		gogen.VerifFormatNode(&buf, token.NewFileSet(), expr)
		it.text = buf.String()
		items = append(items, it)
	}

	// stream A: package-level variables
	cb := pkg.CB()
	for i := 0; i < nVars; i++ {
		T := g.gen(1 + r.Intn(5))
		key := c13Canon(T)
		if seen[key] {
			continue
		}
		seen[key] = true
		name := fmt.Sprintf("V%d", i)
		if msg := fault(func() { cb.NewVar(T, name) }); msg != "" {
			m.Direct = append(m.Direct, directViolation{Case: len(items), What: "NewVar faults on " + key + ": " + msg, Replay: c13Case{Kind: "var", Type: key}})
			continue
		}
		addItem("var", T, nil, false, func(chk *types.Package) types.Type {
			if o := chk.Scope().Lookup(name); o != nil {
				return o.Type()
			}
			return nil
		})
	}
	// stream B: generic functions; parameter types mention the type parameters, constraints are checked too
	for i := 0; i < nFuncs; i++ {
		ntp := 1 + r.Intn(3)
		var tps []*types.TypeParam
		var tpNames []string
		for j := 0; j < ntp; j++ {
			nm := []string{"T", "U", "W"}[j]
			tn := types.NewTypeName(token.NoPos, w.tpkg, nm, nil)
			tps = append(tps, types.NewTypeParam(tn, g.constraint()))
			tpNames = append(tpNames, nm)
		}
		g.tparams = tps
		np := 1 + r.Intn(3)
		vars := make([]*types.Var, np)
		for j := range vars {
			vars[j] = types.NewParam(token.NoPos, w.tpkg, fmt.Sprintf("x%d", j), g.gen(1+r.Intn(4)))
		}
		g.tparams = nil
		sig := types.NewSignatureType(nil, nil, tps, types.NewTuple(vars...), nil, false)
		fname := fmt.Sprintf("Fn%d", i)
		if msg := fault(func() {
			fn, err := pkg.NewFuncWith(token.NoPos, fname, sig, nil)
			if err != nil {
				panic(err)
			}
			fn.BodyStart(pkg).End()
		}); msg != "" {
			m.Direct = append(m.Direct, directViolation{Case: len(items), What: "generic function declaration faults: " + msg, Replay: c13Case{Kind: "funcparam", Type: sig.String()}})
			continue
		}
		for j := range vars {
			j := j
			addItem("funcparam", vars[j].Type(), tpNames, false, func(chk *types.Package) types.Type {
				if o, ok := chk.Scope().Lookup(fname).(*types.Func); ok {
					s := o.Type().(*types.Signature)
					if j < s.Params().Len() {
						return s.Params().At(j).Type()
					}
				}
				return nil
			})
		}
		for j := range tps {
			j := j
			addItem("constraint", tps[j].Constraint(), tpNames, true, func(chk *types.Package) types.Type {
				if o, ok := chk.Scope().Lookup(fname).(*types.Func); ok {
					s := o.Type().(*types.Signature)
					if j < s.TypeParams().Len() {
						return s.TypeParams().At(j).Constraint()
					}
				}
				return nil
			})
		}
	}

	// emit, parse and check the generated file together with the universe declarations
	var out bytes.Buffer
	if msg := fault(func() {
		if err := pkg.WriteTo(&out); err != nil {
			panic(err)
		}
	}); msg != "" {
		m.Direct = append(m.Direct, directViolation{What: "WriteTo faults: " + msg, Replay: map[string]any{"seed": a.Seed}})
	}
	fset := token.NewFileSet()
	var chk *types.Package
	var checkErrs []string
	if gf, err := parser.ParseFile(fset, "gen.go", out.Bytes(), 0); err != nil {
		checkErrs = append(checkErrs, err.Error())
	} else {
		df, _ := parser.ParseFile(fset, "decls.go", c13Decls, 0)
		tc := &types.Config{Importer: importer.ForCompiler(fset, "source", nil), Error: func(err error) {
			if !strings.Contains(err.Error(), "declared and not used") && !strings.Contains(err.Error(), "imported and not used") {
				checkErrs = append(checkErrs, err.Error())
			}
		}}
		chk, _ = tc.Check("main", fset, []*ast.File{df, gf}, nil)
	}
	if chk == nil && len(checkErrs) > 0 {
		line := ""
		var ln int
		if _, err := fmt.Sscanf(checkErrs[0], "gen.go:%d:", &ln); err == nil {
			if ls := strings.Split(out.String(), "\n"); ln >= 1 && ln <= len(ls) {
				line = ls[ln-1]
			}
		}
		m.Direct = append(m.Direct, directViolation{Case: 0, What: fmt.Sprintf("the generated file does not parse: %s; offending line: %s", checkErrs[0], line), Replay: map[string]any{"kind": "file", "error": checkErrs[0], "line": line, "seed": a.Seed}})
	}
	if len(checkErrs) > 0 {
		sort.Strings(checkErrs)
		m.Notes = append(m.Notes, "checker errors on the generated file: "+strings.Join(checkErrs[:min(3, len(checkErrs))], " | "))
	}
	for n, it := range items {
		var back types.Type
		if chk != nil {
			back = it.lookup(chk)
		}
		c := c13Case{Kind: it.kind, Type: c13Canon(it.T), Emitted: it.text}
		backTerm := "(TBasic [])"
		benc := &c13Enc{pkgOf: pkgOf, aliases: map[string]bool{}}
		if back != nil {
			c.Back = c13Canon(back)
			backTerm = benc.ty(back)
		}
		m.DirectRuns++
		if chk == nil {
			// reported once above
		} else if back == nil || (c.Back != c.Type &&
			(&c13Enc{pkgOf: pkgOf, aliases: map[string]bool{}, eraseInArgs: true}).ty(back) != (&c13Enc{pkgOf: pkgOf, anyObj: it.enc.anyObj, aliases: map[string]bool{}, eraseInArgs: true}).ty(it.T)) {
			what := fmt.Sprintf("the syntax emitted for %s is %q, which Go resolves to %s", c.Type, it.text, c.Back)
			if back == nil {
				what = fmt.Sprintf("the syntax emitted for %s is %q, which does not type-check in the generated package", c.Type, it.text)
				if len(checkErrs) > 0 {
					what += " (" + checkErrs[0] + ")"
				}
			}
			m.Direct = append(m.Direct, directViolation{Case: n, What: what, Replay: c})
		}
		if it.bad != "" || it.enc.bad != "" {
			m.Direct = append(m.Direct, directViolation{Case: n, What: "emitted syntax outside the modelled grammar: " + it.bad + it.enc.bad, Replay: c})
		}
		var aliases []string
		for _, k := range []string{"1/AL", "1/AE", "8/FileMode"} {
			var id int
			var nm string
			fmt.Sscanf(strings.Replace(k, "/", " ", 1), "%d %s", &id, &nm)
			aliases = append(aliases, fmt.Sprintf("(%d%%N, %s)", id, coqBytes(nm)))
		}
		cw.add(fmt.Sprintf("mkCase %s %s %s %s %s %s", coqStrList(it.tps), coqList(aliases), coqBool(it.isConst), it.tyTerm, it.obs, backTerm))
		cl.add(c)
		m.Dist[it.kind]++
		m.Strata[strings.SplitN(strings.Trim(it.tyTerm, "()"), " ", 2)[0]]++
		if len(m.Samples) < 6 && n%37 == 0 {
			m.Samples = append(m.Samples, c)
		}
	}
	// stream D: declarations made through the builder whose names collide with the names of imported
	// packages; the qualifier printed for a named type of such a package must still resolve to it
	{
		nD := 60
		if a.Tier == "thorough" {
			nD = 600
		}
		// named types of packages that share a package name, keyed by import path
		{
			src := `package same
import (ttemplate "text/template"; htemplate "html/template"; mrand "math/rand"; rand2 "math/rand/v2"; tscanner "text/scanner"; gscanner "go/scanner")
var ( _ *ttemplate.Template; _ *htemplate.Template; _ *mrand.Rand; _ *rand2.Rand; _ *tscanner.Scanner; _ *gscanner.Scanner )
`
			sf, err := parser.ParseFile(w.fset, "same.go", src, 0)
			if err != nil {
				return err
			}
			sp, err := (&types.Config{Importer: w.imp}).Check("same", w.fset, []*ast.File{sf}, nil)
			if err != nil {
				return err
			}
			for _, q := range [][2]string{{"text/template", "Template"}, {"html/template", "Template"}, {"math/rand", "Rand"},
				{"math/rand/v2", "Rand"}, {"text/scanner", "Scanner"}, {"go/scanner", "Scanner"}} {
				for _, imp := range sp.Imports() {
					if imp.Path() == q[0] {
						w.named[q[0]+"."+q[1]] = imp.Scope().Lookup(q[1]).Type()
					}
				}
			}
		}
		impNames := []string{"bytes", "io", "sync", "atomic", "time", "os", "template", "rand", "scanner", "template1", "rand1"}
		impTypes := []string{"bytes.Buffer", "io.Reader", "sync.Mutex", "atomic.Int32", "time.Duration", "os.File",
			"text/template.Template", "html/template.Template", "math/rand.Rand", "math/rand/v2.Rand", "text/scanner.Scanner", "go/scanner.Scanner",
			"text/template.Template", "html/template.Template", "math/rand.Rand", "math/rand/v2.Rand"}
		famNames := []string{"template", "rand", "scanner"}
		famTypes := [][2]string{{"text/template.Template", "html/template.Template"}, {"math/rand.Rand", "math/rand/v2.Rand"}, {"text/scanner.Scanner", "go/scanner.Scanner"}}
		chkImp := importer.ForCompiler(token.NewFileSet(), "source", nil)
		for k := 0; k < nD; k++ {
			var replay []string
			var orig []types.Type
			var out2 bytes.Buffer
			// a third of the cases: two packages of one name are both used, next to a declaration of
			// that name (or of the first renaming): both imports have to be renamed
			fam := -1
			if r.Intn(3) == 0 {
				fam = r.Intn(len(famNames))
			}
			msg := fault(func() {
				p2 := gogen.NewPackage("main", "main", &gogen.Config{Fset: token.NewFileSet(), Importer: w.imp})
				for j, n := 0, 1+r.Intn(3); j < n; j++ {
					name := impNames[r.Intn(len(impNames))]
					if fam >= 0 && j == 0 {
						name = famNames[fam]
						if r.Intn(3) == 0 {
							name += "1"
						}
					}
					if p2.Types.Scope().Lookup(name) != nil {
						continue
					}
					switch kind := r.Intn(5); kind {
					case 0:
						p2.AliasType(name, types.NewSlice(types.Typ[types.Byte]))
						replay = append(replay, "alias "+name)
					case 1:
						p2.NewType(name).InitType(p2, types.NewStruct(nil, nil))
						replay = append(replay, "type "+name)
					case 2:
						p2.CB().NewVar(types.Typ[types.Int], name)
						replay = append(replay, "var "+name)
					case 3:
						p2.NewFunc(nil, name, nil, nil, false).BodyStart(p2).End()
						replay = append(replay, "func "+name)
					default:
						p2.CB().NewConstStart(nil, name).Val(1).EndInit(1)
						replay = append(replay, "const "+name)
					}
				}
				for j := 0; j < 3; j++ {
					base := w.named[impTypes[r.Intn(len(impTypes))]]
					if fam >= 0 && j < 2 {
						base = w.named[famTypes[fam][j]]
					}
					var T types.Type
					switch r.Intn(5) {
					case 0:
						T = types.NewPointer(base)
					case 1:
						T = types.NewMap(types.Typ[types.String], base)
					case 2:
						T = types.NewSignatureType(nil, nil, nil, types.NewTuple(types.NewParam(token.NoPos, p2.Types, "", base)), types.NewTuple(types.NewParam(token.NoPos, p2.Types, "", types.NewSlice(base))), false)
					case 3:
						T = types.NewChan(types.SendRecv, types.NewChan(types.RecvOnly, base))
					default:
						T = types.NewStruct([]*types.Var{types.NewField(token.NoPos, p2.Types, "F", base, false)}, nil)
					}
					orig = append(orig, T)
					p2.CB().NewVar(T, fmt.Sprintf("X%d", j))
				}
				if err := p2.WriteTo(&out2); err != nil {
					panic(err)
				}
			})
			m.DirectRuns++
			m.Dist["colliding declarations"]++
			rep := map[string]any{"kind": "collision", "declarations": replay, "emitted": out2.String()}
			if msg != "" {
				m.Direct = append(m.Direct, directViolation{Case: len(items), What: "building a package whose declarations collide with import names faults: " + msg, Replay: rep})
				continue
			}
			fs2 := token.NewFileSet()
			gf, err := parser.ParseFile(fs2, "gen.go", out2.Bytes(), 0)
			var chk2 *types.Package
			if err == nil {
				var errs2 []string
				chk2, _ = (&types.Config{Importer: chkImp, Error: func(e error) {
					if !strings.Contains(e.Error(), "declared and not used") && !strings.Contains(e.Error(), "imported and not used") {
						errs2 = append(errs2, e.Error())
					}
				}}).Check("main", fs2, []*ast.File{gf}, nil)
				if len(errs2) > 0 {
					err = fmt.Errorf("%s", errs2[0])
				}
			}
			if err != nil {
				m.Direct = append(m.Direct, directViolation{Case: len(items), What: fmt.Sprintf("with declarations %v the generated file is rejected by Go: %v", replay, err), Replay: rep})
				continue
			}
			for j, T := range orig {
				var back types.Type
				if chk2 != nil {
					if o := chk2.Scope().Lookup(fmt.Sprintf("X%d", j)); o != nil {
						back = o.Type()
					}
				}
				if back == nil || c13Canon(back) != c13Canon(T) {
					got := "nothing (the file does not type-check)"
					if back != nil {
						got = c13Canon(back)
					}
					m.Direct = append(m.Direct, directViolation{Case: len(items), What: fmt.Sprintf("with declarations %v in the generated package, the type %s of X%d is read back as %s", replay, c13Canon(T), j, got), Replay: rep})
					break
				}
			}
		}
	}
	// stream C: every channel nesting (token level)
	var chans []types.Type
	var level []types.Type = []types.Type{types.Typ[types.Int]}
	for d := 1; d <= chanDepth; d++ {
		var next []types.Type
		for _, e := range level {
			for dir := 0; dir < 3; dir++ {
				next = append(next, types.NewChan(types.ChanDir(dir), e))
			}
		}
		chans = append(chans, next...)
		level = next
	}
	var chanTerms []string
	for _, T := range chans {
		var expr ast.Expr
		if msg := fault(func() { expr = gogen.VerifToType(pkg, T) }); msg != "" {
			continue
		}
		var buf bytes.Buffer
		gogen.VerifFormatNode(&buf, token.NewFileSet(), expr)
		toks, ok := c13Tokens(buf.String())
		ct := "CBase"
		var stack []string
		for t := T; ; {
			c, isc := t.(*types.Chan)
			if !isc {
				break
			}
			stack = append(stack, []string{"Both", "Send", "Recv"}[c.Dir()])
			t = c.Elem()
		}
		for i := len(stack) - 1; i >= 0; i-- {
			ct = "(CChan " + stack[i] + " " + ct + ")"
		}
		if !ok {
			toks = nil
		}
		chanTerms = append(chanTerms, fmt.Sprintf("(%s, %s)", ct, coqList(toks)))
		m.DirectRuns++
		// direct: the text, parsed by Go, denotes the same channel type
		if tv, err := types.Eval(token.NewFileSet(), w.tpkg, token.NoPos, buf.String()); err != nil || !types.Identical(tv.Type, T) {
			got := "an error"
			if err == nil {
				got = tv.Type.String()
			}
			m.Direct = append(m.Direct, directViolation{Case: len(items), What: fmt.Sprintf("channel type %s is emitted as %q, which Go reads as %s", T, buf.String(), got), Replay: c13Case{Kind: "chan", Type: T.String(), Emitted: buf.String(), Back: got}})
		}
	}
	cw.flush()
	// channel cases go to their own file, evaluated by the same driver
	chanFile := "cases_C13_900.v"
	{
		var b strings.Builder
		b.WriteString("From Coq Require Import List NArith Bool.\nFrom GV Require Import Lib.Bytes C13.Model C13.Chan C13.Check.\nImport ListNotations.\n")
		for i := 0; i < len(chanTerms); i += 200 {
			j := min(i+200, len(chanTerms))
			fmt.Fprintf(&b, "Definition ch%d : list (cty * list tok) := %s.\n", i/200, coqList(chanTerms[i:j]))
		}
		var parts []string
		for i := 0; i < len(chanTerms); i += 200 {
			parts = append(parts, fmt.Sprintf("ch%d", i/200))
		}
		fmt.Fprintf(&b, "Definition r0 := Eval vm_compute in (chan_bad (%s)).\nPrint r0.\n", strings.Join(parts, " ++ "))
		b.WriteString("Definition r1 : list (N * N) := [].\nPrint r1.\nDefinition r2 : list (N * N) := [].\nPrint r2.\n")
		os.WriteFile(filepath.Join(a.Out, chanFile), []byte(b.String()), 0o666)
	}
	m.Dist["chan nesting"] = len(chanTerms)
	m.Cases = len(items) + len(chanTerms)
	m.Distinct = len(items) + len(chanTerms)
	m.Files = append(cw.files, chanFile)
	return writeJSON(filepath.Join(a.Out, "meta.json"), m)
}
