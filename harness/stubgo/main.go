// Command go (stub): stands in for `go list -export` in the C20 harness.
package main

import (
	"bufio"
	"fmt"
	"os"
	"strconv"
	"strings"
	"time"
)

// ---- stub `go list` ----

func main() {
	// concurrent stream of the C20 harness: announce this process and wait until the
	// controller releases it; the scenario is read after the release
	if hold := os.Getenv("VERIF_STUB_HOLD"); hold != "" {
		pid := strconv.Itoa(os.Getpid())
		os.WriteFile(hold+"/wait."+pid, nil, 0o666)
		for i := 0; i < 900000; i++ { // up to 3 minutes
			if _, err := os.Stat(hold + "/go." + pid); err == nil {
				break
			}
			time.Sleep(200 * time.Microsecond)
		}
		os.Remove(hold + "/go." + pid)
		os.Remove(hold + "/wait." + pid)
	}
	sc := os.Getenv("VERIF_STUB_SCENARIO")
	f, err := os.Open(sc)
	if err != nil {
		fmt.Fprintln(os.Stderr, "stub: no scenario")
		os.Exit(1)
	}
	defer f.Close()
	r := bufio.NewReader(f)
	first, _ := r.ReadString('\n')
	if strings.TrimSpace(first) == "FAIL" {
		fmt.Fprintln(os.Stderr, "stub: listing failed")
		os.Exit(1)
	}
	pk := map[string]string{}
	for {
		line, err := r.ReadString('\n')
		line = strings.TrimRight(line, "\n")
		if line != "" {
			parts := strings.SplitN(line, "\t", 3)
			if len(parts) == 3 {
				pk[parts[0]] = parts[0] + "\t" + parts[1] + "\t[" + parts[2] + "]"
			}
		}
		if err != nil {
			break
		}
	}
	args := os.Args[1:]
	i := 0
	for i < len(args) && args[i] != "-export" {
		i++
	}
	pkgs := args[min(i+1, len(args)):]
	if len(pkgs) == 0 {
		fmt.Fprintln(os.Stderr, "stub: no packages")
		os.Exit(1)
	}
	var out strings.Builder
	for _, p := range pkgs {
		l, ok := pk[p]
		if !ok {
			fmt.Fprintln(os.Stderr, "stub: package "+p+" is not in std")
			os.Exit(1)
		}
		out.WriteString(l + "\n")
	}
	os.Stdout.WriteString(out.String())
}
