package main

// C20 — export-data cache: histories of prepare/find/save/load interleaved
// with world changes, run against the real packages/cache.Impl with a stub
// `go` command, a scripted fingerprint function and real files.

import (
	"fmt"
	"io"
	"math/rand"
	"os"
	"path/filepath"
	"sort"
	"strings"

	"github.com/goplus/gogen/packages/cache"
)

func init() { register("C20", runC20) }

// ---- ops ----

type c20Op struct {
	K    string   `json:"k"`
	P    string   `json:"p,omitempty"`
	Ps   []string `json:"ps,omitempty"`
	Self bool     `json:"self,omitempty"`
	H    string   `json:"h,omitempty"`
	Exp  string   `json:"exp,omitempty"`
	Deps []string `json:"deps,omitempty"`
	B    bool     `json:"b,omitempty"`
	Disk []byte   `json:"disk,omitempty"`
	None bool     `json:"none,omitempty"` // disk: remove the file
}

type c20Obs struct {
	K      string   `json:"k"` // served, finderr, prep, load, fault, saved, none
	Exp    string   `json:"exp,omitempty"`
	Ok     bool     `json:"ok,omitempty"`
	Blocks []string `json:"blocks,omitempty"`
	Wrote  bool     `json:"wrote,omitempty"`
	N      int      `json:"n"`
}

func (o c20Op) coq() string {
	switch o.K {
	case "find":
		return "OFind " + coqBytes(o.P)
	case "prepare":
		return "OPrepare " + coqStrList(o.Ps)
	case "save":
		return "OSave"
	case "load":
		return "OLoad"
	case "new":
		return "ONew"
	case "sethash":
		return fmt.Sprintf("WSetHash %s %s %s", coqBytes(o.P), coqBool(o.Self), coqBytes(o.H))
	case "setpkg":
		return fmt.Sprintf("WSetPkg %s %s %s", coqBytes(o.P), coqBytes(o.Exp), coqStrList(o.Deps))
	case "delpkg":
		return "WDelPkg " + coqBytes(o.P)
	case "fail":
		return "WFail " + coqBool(o.B)
	case "addfile":
		return "WAddFile " + coqBytes(o.Exp)
	case "delfile":
		return "WDelFile " + coqBytes(o.Exp)
	case "disk":
		if o.None {
			return "WDisk None"
		}
		return "WDisk (Some " + coqBytes(string(o.Disk)) + ")"
	}
	panic("bad op " + o.K)
}

func (b c20Obs) coq() string {
	switch b.K {
	case "served":
		return "BServed " + coqBytes(b.Exp)
	case "finderr":
		return "BFindErr"
	case "prep":
		return "BPrep " + coqBool(b.Ok)
	case "load":
		return "BLoad " + coqBool(b.Ok)
	case "fault":
		return "BFault"
	case "saved":
		if !b.Wrote {
			return "BSaved None"
		}
		return "BSaved (Some " + coqStrList(b.Blocks) + ")"
	}
	return "BNone"
}

// ---- the real system under a scripted world ----

type c20World struct {
	dir      string
	hash     map[string]string // key: path|s or path|d
	pkgs     map[string][2]string
	pkgOrder []string
	fail     bool
	cacheFn  string
	scenFn   string
	c        *cache.Impl
}

const c20DefaultHash = "h0"

func (w *c20World) h(p string, self bool) string {
	k := p + "|d"
	if self {
		k = p + "|s"
	}
	if v, ok := w.hash[k]; ok {
		return v
	}
	return c20DefaultHash
}

func (w *c20World) writeScenario() {
	var b strings.Builder
	if w.fail {
		b.WriteString("FAIL\n")
	} else {
		b.WriteString("OK\n")
	}
	for p, v := range w.pkgs {
		b.WriteString(p + "\t" + v[0] + "\t" + v[1] + "\n")
	}
	os.WriteFile(w.scenFn, []byte(b.String()), 0o666)
}

func newC20World(dir string) *c20World {
	os.RemoveAll(dir)
	os.MkdirAll(dir, 0o777)
	w := &c20World{dir: dir, hash: map[string]string{}, pkgs: map[string][2]string{},
		cacheFn: "gopkg.cache", scenFn: filepath.Join(dir, "scenario.txt")}
	w.c = cache.New(w.h)
	w.writeScenario()
	return w
}

func splitBlocks(b []byte) []string {
	var blocks []string
	for _, line := range strings.SplitAfter(string(b), "\n") {
		if line == "" {
			continue
		}
		if strings.HasPrefix(line, "\t") && len(blocks) > 0 {
			blocks[len(blocks)-1] += line
		} else {
			blocks = append(blocks, line)
		}
	}
	sort.Strings(blocks)
	return blocks
}

// apply runs one op on the real code (cwd must be w.dir) and returns what was observed.
func (w *c20World) apply(o c20Op) (obs c20Obs) {
	defer func() {
		if e := recover(); e != nil {
			obs = c20Obs{K: "fault", Exp: fmt.Sprint(e)}
		}
		obs.N = w.c.ListTimes()
	}()
	switch o.K {
	case "find":
		f, err := w.c.Find(w.dir, o.P)
		if err != nil || f == nil {
			if f != nil {
				f.Close()
			}
			return c20Obs{K: "finderr"}
		}
		data, _ := io.ReadAll(f)
		f.Close()
		return c20Obs{K: "served", Exp: string(data)}
	case "prepare":
		err := w.c.Prepare(w.dir, o.Ps...)
		return c20Obs{K: "prep", Ok: err == nil}
	case "save": // always preceded by an explicit `disk None` op (see c20RunHistory)
		w.c.Save(w.cacheFn)
		b, err := os.ReadFile(w.cacheFn)
		if err != nil {
			return c20Obs{K: "saved", Wrote: false}
		}
		return c20Obs{K: "saved", Wrote: true, Blocks: splitBlocks(b)}
	case "load":
		err := w.c.Load(w.cacheFn)
		return c20Obs{K: "load", Ok: err == nil}
	case "new":
		w.c = cache.New(w.h)
	case "sethash":
		k := o.P + "|d"
		if o.Self {
			k = o.P + "|s"
		}
		w.hash[k] = o.H
	case "setpkg":
		w.pkgs[o.P] = [2]string{o.Exp, strings.Join(o.Deps, " ")}
		w.writeScenario()
	case "delpkg":
		delete(w.pkgs, o.P)
		w.writeScenario()
	case "fail":
		w.fail = o.B
		w.writeScenario()
	case "addfile":
		os.WriteFile(o.Exp, []byte(o.Exp), 0o666) // the data of an export file is its own name
	case "delfile":
		os.Remove(o.Exp)
	case "disk":
		if o.None {
			os.Remove(w.cacheFn)
		} else {
			os.WriteFile(w.cacheFn, o.Disk, 0o666)
		}
	}
	return c20Obs{K: "none"}
}

// ---- ghost specification (direct oracle on the implementation) ----
// Tracks what each entry recorded, independently of the Coq model: filled by
// successful listings; Load of a file the harness did not corrupt copies the
// ghost saved with it; any other Load makes the ghost unknown until `new`.

type ghostEntry struct {
	exp  string
	hash string
	deps [][2]string
}
type c20Ghost struct {
	ent     map[string]ghostEntry
	unknown bool
	saved   map[string]ghostEntry // ghost at the time of the last Save
	diskOk  bool                  // file on disk is exactly what Save wrote
	nlist   int
}

func copyGhost(m map[string]ghostEntry) map[string]ghostEntry {
	r := map[string]ghostEntry{}
	for k, v := range m {
		r[k] = v
	}
	return r
}

func (g *c20Ghost) fresh(w *c20World, p string) (ghostEntry, bool) {
	e, ok := g.ent[p]
	if !ok {
		return e, false
	}
	if e.hash == cache.HashInvalid || w.h(p, true) != e.hash {
		return e, false
	}
	for _, d := range e.deps {
		if w.h(d[0], false) != d[1] {
			return e, false
		}
	}
	if _, err := os.Stat(e.exp); err != nil {
		return e, false
	}
	return e, true
}

func (g *c20Ghost) record(w *c20World, ps []string) {
	for _, p := range ps {
		v := w.pkgs[p]
		e := ghostEntry{exp: v[0], hash: w.h(p, true)}
		if v[1] != "" {
			for _, d := range strings.Split(v[1], " ") {
				if h := w.h(d, false); h != cache.HashSkip {
					e.deps = append(e.deps, [2]string{d, h})
				}
			}
		}
		g.ent[p] = e
	}
}

// check returns "" or a description of the property violation at this step.
func (g *c20Ghost) check(w *c20World, o c20Op, b c20Obs, before int) string {
	if b.K == "fault" {
		return "run-time fault: " + b.Exp
	}
	switch o.K {
	case "new":
		g.ent, g.unknown = map[string]ghostEntry{}, false
	case "prepare":
		if b.Ok {
			g.record(w, o.Ps)
		}
	case "save":
		if b.Wrote {
			g.saved, g.diskOk = copyGhost(g.ent), !g.unknown
		}
	case "disk":
		g.diskOk = false
	case "load":
		if g.diskOk {
			if !b.Ok {
				return "Load rejected the file Save wrote"
			}
			for k, v := range g.saved {
				g.ent[k] = v
			}
		} else if _, err := os.Stat(w.cacheFn); err == nil {
			g.unknown = true
		}
	case "find":
		if g.unknown {
			return ""
		}
		listed := b.N > before
		e, fresh := g.fresh(w, o.P)
		if fresh {
			if listed {
				return "unchanged entry re-listed"
			}
			if b.K != "served" || b.Exp != e.exp {
				return "unchanged entry not served"
			}
			return ""
		}
		if !listed {
			if b.K == "served" {
				return "served without re-listing although the entry is missing or a fingerprint changed: stale data " + b.Exp
			}
			return "missing or changed entry not re-listed"
		}
		v, known := w.pkgs[o.P]
		if w.fail || !known {
			if b.K == "served" {
				return "listing failed but data was served: " + b.Exp
			}
			return ""
		}
		g.record(w, []string{o.P})
		_, err := os.Stat(v[0])
		if err != nil {
			if b.K == "served" {
				return "served although the export file cannot be opened"
			}
			return ""
		}
		if b.K != "served" || b.Exp != v[0] {
			return "fresh listing not served"
		}
	}
	return ""
}

// ---- generator ----

type c20Hist struct {
	Ops     []c20Op  `json:"ops"`
	Obs     []c20Obs `json:"obs"`
	Stratum string   `json:"stratum"`
}

var c20Pkgs = []string{"p0", "p1", "a/b", "p3", "x.y/z", "p5"}
var c20Hashes = []string{"h1", "h2", "h3", "?", "", "h0"}

func c20RandOp(r *rand.Rand) c20Op {
	p := c20Pkgs[r.Intn(len(c20Pkgs))]
	switch x := r.Intn(100); {
	case x < 36:
		return c20Op{K: "find", P: p}
	case x < 52:
		h := c20Hashes[r.Intn(len(c20Hashes))]
		self := r.Intn(2) == 0
		if !self && r.Intn(6) == 0 {
			h = "h\t9" // dependency hashes may contain a tab
		}
		if self && h == "" {
			h = "h4"
		}
		return c20Op{K: "sethash", P: p, Self: self, H: h}
	case x < 58:
		return c20Op{K: "save"}
	case x < 64:
		return c20Op{K: "load"}
	case x < 68:
		return c20Op{K: "new"}
	case x < 74:
		return c20Op{K: "fail", B: r.Intn(2) == 0}
	case x < 79:
		return c20Op{K: "delfile", Exp: fmt.Sprintf("f%d.a", r.Intn(8))}
	case x < 83:
		return c20Op{K: "addfile", Exp: fmt.Sprintf("f%d.a", r.Intn(8))}
	case x < 90:
		n := r.Intn(4)
		var deps []string
		for i := 0; i < n; i++ {
			deps = append(deps, c20Pkgs[r.Intn(len(c20Pkgs))])
		}
		return c20Op{K: "setpkg", P: p, Exp: fmt.Sprintf("f%d.a", r.Intn(8)), Deps: deps}
	case x < 92:
		return c20Op{K: "delpkg", P: p}
	case x < 97:
		n := 1 + r.Intn(3)
		var ps []string
		for i := 0; i < n; i++ {
			ps = append(ps, c20Pkgs[r.Intn(len(c20Pkgs))])
		}
		if r.Intn(8) == 0 {
			ps = append(ps, "unknown/pkg")
		}
		return c20Op{K: "prepare", Ps: ps}
	default:
		return c20Op{K: "corrupt"} // resolved at run time against the real file
	}
}

func c20Corrupt(r *rand.Rand, cur []byte) c20Op {
	if cur == nil {
		if r.Intn(2) == 0 {
			return c20Op{K: "disk", None: true}
		}
		cur = []byte("p0\tf0.a\th0\t0\n")
	}
	b := append([]byte{}, cur...)
	switch r.Intn(7) {
	case 0: // truncate
		if len(b) > 0 {
			b = b[:r.Intn(len(b))]
		}
	case 1: // flip one byte to a structural byte
		if len(b) > 0 {
			b[r.Intn(len(b))] = []byte{'\t', '\n', '0', '9', '-', 'x'}[r.Intn(6)]
		}
	case 2: // edit a count
		lines := strings.Split(string(b), "\n")
		for tries := 0; tries < 8; tries++ {
			i := r.Intn(len(lines))
			parts := strings.Split(lines[i], "\t")
			if len(parts) == 4 && parts[0] != "" {
				parts[3] = []string{"-1", "9223372036854775807", "99999999999999999999", "+1", "007", "2", "1", "0", "", "1x", "-0", "-9223372036854775808", "4398046511105"}[r.Intn(13)]
				lines[i] = strings.Join(parts, "\t")
				break
			}
		}
		b = []byte(strings.Join(lines, "\n"))
	case 3: // delete a byte
		if len(b) > 0 {
			i := r.Intn(len(b))
			b = append(b[:i], b[i+1:]...)
		}
	case 4: // duplicate a line
		lines := strings.SplitAfter(string(b), "\n")
		i := r.Intn(len(lines))
		lines = append(lines[:i+1], lines[i:]...)
		b = []byte(strings.Join(lines, ""))
	case 5: // garbage
		n := r.Intn(12)
		b = make([]byte, n)
		for i := range b {
			b[i] = []byte{'\t', '\n', 'a', '1', '-', ' '}[r.Intn(6)]
		}
	case 6: // extra trailing newlines / empty
		if r.Intn(2) == 0 {
			b = append(b, '\n', '\n')
		} else {
			b = nil
		}
	}
	return c20Op{K: "disk", Disk: b}
}

func c20Setup(r *rand.Rand) []c20Op {
	var ops []c20Op
	for i, p := range c20Pkgs {
		n := r.Intn(4)
		var deps []string
		for j := 0; j < n; j++ {
			deps = append(deps, c20Pkgs[r.Intn(len(c20Pkgs))])
		}
		if r.Intn(5) == 0 {
			deps = append(deps, "ext/dep")
		}
		ops = append(ops, c20Op{K: "setpkg", P: p, Exp: fmt.Sprintf("f%d.a", i), Deps: deps})
		if r.Intn(10) != 0 {
			ops = append(ops, c20Op{K: "addfile", Exp: fmt.Sprintf("f%d.a", i)})
		}
	}
	if r.Intn(3) == 0 {
		ops = append(ops, c20Op{K: "sethash", P: "ext/dep", Self: false, H: ""}) // HashSkip: not recorded
	}
	return ops
}

type c20Result struct {
	hist   c20Hist
	direct []directViolation
}

// runHistory executes the ops (resolving "corrupt" against the real file) and
// returns the explicit history with observations plus ghost-spec verdicts.
func c20RunHistory(dir string, r *rand.Rand, ops []c20Op, stratum string, idx int) c20Result {
	w := newC20World(dir)
	cwd, _ := os.Getwd()
	os.Chdir(dir)
	defer os.Chdir(cwd)
	g := &c20Ghost{ent: map[string]ghostEntry{}}
	res := c20Result{hist: c20Hist{Stratum: stratum}}
	for _, o := range ops {
		if o.K == "corrupt" {
			cur, err := os.ReadFile(w.cacheFn)
			if err != nil {
				cur = nil
			}
			o = c20Corrupt(r, cur)
		}
		if o.K == "save" { // make "did Save write?" observable: remove the file first, as an explicit world op
			rm := c20Op{K: "disk", None: true}
			b := w.apply(rm)
			res.hist.Ops = append(res.hist.Ops, rm)
			res.hist.Obs = append(res.hist.Obs, b)
			g.check(w, rm, b, w.c.ListTimes())
		}
		before := w.c.ListTimes()
		b := w.apply(o)
		res.hist.Ops = append(res.hist.Ops, o)
		res.hist.Obs = append(res.hist.Obs, b)
		if msg := g.check(w, o, b, before); msg != "" {
			res.direct = append(res.direct, directViolation{Case: idx, Step: len(res.hist.Ops) - 1, What: msg})
		}
	}
	return res
}

func (h c20Hist) coq() string {
	items := make([]string, len(h.Ops))
	for i := range h.Ops {
		items[i] = fmt.Sprintf("(%s, %s, %d)", h.Ops[i].coq(), h.Obs[i].coq(), h.Obs[i].N)
	}
	return "SeqCase " + coqList(items)
}

func runC20(a *runArgs) error {
	exe, _ := os.Executable()
	stubDir := filepath.Join(filepath.Dir(exe), "stubgo") // built by the driver next to the harness
	if _, err := os.Stat(filepath.Join(stubDir, "go")); err != nil {
		return fmt.Errorf("stub go command missing: %v", err)
	}
	absOut, _ := filepath.Abs(a.Out)
	os.Setenv("PATH", stubDir+":"+os.Getenv("PATH"))
	wdir := filepath.Join(absOut, "world")
	os.Setenv("VERIF_STUB_SCENARIO", filepath.Join(wdir, "scenario.txt"))

	cw := newCaseWriter(a.Out, "C20", "From GV Require Import Lib.Bytes C20.Model C20.Conc.",
		"anycase", 100, "all_mismatches cases")
	cl := newCaseLog(a.Out)
	defer cl.close()
	m := &meta{Property: "C20", Seed: a.Seed, Tier: a.Tier, PerShard: 100,
		Strata: map[string]int{}, Dist: map[string]int{}, Known: map[string]int{},
		Rule: "histories of cache operations and world changes run on the real cache.Impl (stub go command, scripted fingerprints, real files); distinct = distinct op sequences; non-trivial = contains at least one Find that had to consult an entry (served or re-listed)"}
	distinct := map[string]bool{}
	idx := 0
	emit := func(res c20Result) {
		for i, o := range res.hist.Ops {
			k := o.K
			if k == "find" {
				k = "find:" + res.hist.Obs[i].K
			}
			if k == "load" {
				k = fmt.Sprintf("load:%v", res.hist.Obs[i].Ok)
			}
			m.Dist[k]++
		}
		m.Strata[res.hist.Stratum]++
		term := res.hist.coq()
		nontrivial := false
		for _, o := range res.hist.Ops {
			if o.K == "find" {
				nontrivial = true
			}
		}
		if nontrivial && !distinct[term] {
			distinct[term] = true
		}
		cw.add(term)
		cl.add(res.hist)
		for _, d := range res.direct {
			d.Replay = res.hist
			m.Direct = append(m.Direct, d)
		}
		m.DirectRuns += len(res.hist.Ops)
		if len(m.Samples) < 3 {
			m.Samples = append(m.Samples, res.hist)
		}
		idx++
	}

	emitConc := func(res c20CResult) {
		for _, it := range res.hist.Items {
			k := "conc:" + it.K
			if it.K != "world" {
				k += ":" + it.Obs.K
			}
			m.Dist[k]++
		}
		m.Strata[res.hist.Stratum]++
		term := res.hist.coq()
		distinct[term] = true
		cw.add(term)
		cl.add(res.hist)
		for _, d := range res.direct {
			d.Replay = res.hist
			m.Direct = append(m.Direct, d)
		}
		m.DirectRuns += len(res.hist.Items)
		if m.Strata[res.hist.Stratum] == 1 {
			m.Samples = append(m.Samples, res.hist)
		}
		idx++
	}
	if a.Replay != "" {
		var rp struct {
			Replay struct {
				c20Hist
				Items []c20CItem `json:"items"`
			} `json:"replay"`
		}
		if err := readJSON(a.Replay, &rp); err != nil {
			return err
		}
		r := rand.New(rand.NewSource(a.Seed))
		if len(rp.Replay.Items) > 0 {
			emitConc(c20ReplayConc(wdir, rp.Replay.Items))
			cw.flush()
			m.Cases = idx
			m.Files = cw.files
			return writeJSON(filepath.Join(a.Out, "meta.json"), m)
		}
		emit(c20RunHistory(wdir, r, rp.Replay.Ops, "replay", 0))
	} else {
		nRandom, maxLen, nTrunc := 150, 40, 1
		if a.Tier == "thorough" {
			nRandom, maxLen, nTrunc = 3000, 140, 12
		}
		r := rand.New(rand.NewSource(a.Seed))
		// stratum 1: fixed regression corpus (minimised past failures first)
		for _, ops := range c20Corpus() {
			emit(c20RunHistory(wdir, r, ops, "corpus", idx))
		}
		// stratum 2: every prefix and every count edit of a real saved file
		for t := 0; t < nTrunc; t++ {
			setup := c20Setup(r)
			setup = append(setup, c20Op{K: "prepare", Ps: c20Pkgs[:3+r.Intn(3)]}, c20Op{K: "save"})
			res := c20RunHistory(wdir, r, setup, "setup", idx)
			data, err := os.ReadFile(filepath.Join(wdir, "gopkg.cache"))
			if err != nil {
				continue
			}
			_ = res
			step := 1
			if len(data) > 160 {
				step = len(data)/160 + 1
			}
			for n := 0; n <= len(data); n += step {
				ops := append(append([]c20Op{}, setup...),
					c20Op{K: "disk", Disk: append([]byte{}, data[:n]...)}, c20Op{K: "new"}, c20Op{K: "load"},
					c20Op{K: "sethash", P: c20Pkgs[r.Intn(3)], Self: r.Intn(2) == 0, H: "h7"})
				for _, p := range c20Pkgs[:4] {
					ops = append(ops, c20Op{K: "find", P: p})
				}
				emit(c20RunHistory(wdir, r, ops, "truncation", idx))
			}
		}
		// stratum 3: random histories
		for i := 0; i < nRandom; i++ {
			ops := c20Setup(r)
			if r.Intn(3) > 0 {
				ops = append(ops, c20Op{K: "prepare", Ps: c20Pkgs[:2+r.Intn(4)]})
			}
			n := 5 + r.Intn(maxLen)
			for j := 0; j < n; j++ {
				o := c20RandOp(r)
				ops = append(ops, o)
				if o.K == "corrupt" {
					ops = append(ops, c20Op{K: "load"})
				}
			}
			emit(c20RunHistory(wdir, r, ops, "random", idx))
		}
		// stratum 4: concurrent lookups under controlled schedules (quiescent world: theorem
		// domain + direct oracle; mixed: world changes between steps, model only)
		nConc := 80
		if a.Tier == "thorough" {
			nConc = 1500
		}
		for i := 0; i < nConc; i++ {
			emitConc(c20RunConc(wdir, r, i%3 == 2, idx))
		}
	}
	cw.flush()
	m.Cases = idx
	m.Distinct = len(distinct)
	m.Files = cw.files
	os.RemoveAll(wdir)
	return writeJSON(filepath.Join(a.Out, "meta.json"), m)
}

func c20Corpus() [][]c20Op {
	base := []c20Op{
		{K: "setpkg", P: "p0", Exp: "f0.a", Deps: []string{"p1"}}, {K: "addfile", Exp: "f0.a"},
		{K: "setpkg", P: "p1", Exp: "f1.a"}, {K: "addfile", Exp: "f1.a"},
	}
	cat := func(x ...[]c20Op) []c20Op {
		var r []c20Op
		for _, y := range x {
			r = append(r, y...)
		}
		return r
	}
	return [][]c20Op{
		// C20-a: dependency fingerprint changes, then the listing fails
		cat(base, []c20Op{{K: "find", P: "p0"}, {K: "sethash", P: "p1", H: "h2"}, {K: "fail", B: true}, {K: "find", P: "p0"}}),
		// C20-b: Save of an empty cache after a failed listing, then Load
		cat(base, []c20Op{{K: "fail", B: true}, {K: "find", P: "p0"}, {K: "save"}, {K: "new"}, {K: "load"}}),
		// C20-c: negative / overflowing dependency counts
		cat(base, []c20Op{{K: "disk", Disk: []byte("p\tf\th\t-1")}, {K: "load"}}),
		cat(base, []c20Op{{K: "disk", Disk: []byte("p\tf\th\t9223372036854775807\n\td\th")}, {K: "load"}}),
		cat(base, []c20Op{{K: "disk", Disk: []byte("p\tf\th\t2\n\td\th")}, {K: "load"}}),
		// own hash invalid, export file removed, relink of the export file
		cat(base, []c20Op{{K: "sethash", P: "p0", Self: true, H: "?"}, {K: "find", P: "p0"}, {K: "find", P: "p0"}}),
		cat(base, []c20Op{{K: "find", P: "p0"}, {K: "delfile", Exp: "f0.a"}, {K: "find", P: "p0"}, {K: "addfile", Exp: "f0.a"}, {K: "find", P: "p0"}}),
		cat(base, []c20Op{{K: "find", P: "p0"}, {K: "save"}, {K: "new"}, {K: "load"}, {K: "find", P: "p0"}, {K: "sethash", P: "p1", H: "h3"}, {K: "find", P: "p0"}}),
	}
}
