package main

// C14 — Package.Zero on a universe of types: emitted expression, reported type
// and constant vs the Coq model (K1); go/types on `var _ T = <expr>` and
// `x := <expr>` vs the model's typing of the expression (K2).

import (
	"bytes"
	"fmt"
	"go/ast"
	"go/constant"
	"go/format"
	"go/importer"
	"go/parser"
	"go/token"
	"go/types"
	"math/rand"
	"path/filepath"
	"strings"

	"github.com/goplus/gogen"
)

func init() { register("C14", runC14) }

const c14Decls = `package p
import ("time"; "bytes"; "unsafe")
var _ time.Time
var _ bytes.Buffer
var _ unsafe.Pointer
type MInt int
type MFloat float64
type MStr string
type MBool bool
type MUPtr unsafe.Pointer
type MSlice []int
type MPtr *int
type MMap map[string]int
type MFunc func() error
type MChan chan int
type MIface interface{ M() }
type MStruct struct{ A int; b string }
type MArr [3]int
type MM MStruct
type MT time.Time
type AInt = int
type AStruct = MStruct
type AArr = [2]string
type ATime = time.Time
type G[T any] struct{ X T }
type GI = G[int]
`

var c14TypeExprs = []string{
	"bool", "int", "int8", "int16", "int32", "int64", "uint", "uint8", "uint16", "uint32", "uint64", "uintptr",
	"float32", "float64", "complex64", "complex128", "string", "unsafe.Pointer",
	"MInt", "MFloat", "MStr", "MBool", "MUPtr", "MSlice", "MPtr", "MMap", "MFunc", "MChan", "MIface", "MStruct", "MArr", "MM", "MT",
	"AInt", "AStruct", "AArr", "ATime", "G[int]", "G[MStruct]", "GI",
	"*int", "[]string", "map[int]bool", "chan int", "<-chan int", "func(int) string", "interface{}", "interface{ M() }", "error", "any",
	"[2]int", "[0]string", "struct{ A int }", "struct{}", "[2]MStruct", "struct{ T time.Time; s []int }",
	"time.Time", "bytes.Buffer", "time.Duration", "*time.Time", "[]time.Time", "[2]time.Time", "time.Month",
}

type c14Enc struct {
	named map[*types.TypeName]int
	comp  []types.Type
}

func (e *c14Enc) enc(t types.Type) string {
	switch t := t.(type) {
	case *types.Alias:
		id, ok := e.named[t.Obj()]
		if !ok {
			id = len(e.named) + 1
			e.named[t.Obj()] = id
		}
		return fmt.Sprintf("(ZAlias %d%%N %s)", id, e.enc(t.Rhs()))
	case *types.Named:
		key := t.Obj()
		id, ok := e.named[key]
		if !ok {
			id = len(e.named) + 1
			e.named[key] = id
		}
		if t.TypeArgs().Len() > 0 { // one identity per instance
			id = id*1000 + len(types.TypeString(t, nil))
		}
		return fmt.Sprintf("(ZNamed %d%%N %s)", id, e.enc(t.Underlying()))
	case *types.Basic:
		return fmt.Sprintf("(ZBasic %d%%N)", int(t.Kind()))
	case *types.Interface, *types.Map, *types.Slice, *types.Pointer, *types.Signature, *types.Chan:
		return "ZNilable"
	}
	for i, c := range e.comp {
		if types.Identical(c, t) {
			return fmt.Sprintf("(ZComposite %d%%N)", i+1)
		}
	}
	e.comp = append(e.comp, t)
	return fmt.Sprintf("(ZComposite %d%%N)", len(e.comp))
}

type c14Case struct {
	T        string `json:"type"`
	Expr     string `json:"expr"`
	RefTyped bool   `json:"accepted_in_typed_context"`
	RefInf   string `json:"inferred_type"`
}

func runC14(a *runArgs) error {
	fset := token.NewFileSet()
	af, err := parser.ParseFile(fset, "decls.go", c14Decls, 0)
	if err != nil {
		return err
	}
	srcImp := importer.ForCompiler(fset, "source", nil)
	tpkg, err := (&types.Config{Importer: srcImp}).Check("p", fset, []*ast.File{af}, nil)
	if err != nil {
		return err
	}
	pos := af.Decls[len(af.Decls)-1].End()
	exprs := append([]string{}, c14TypeExprs...)
	if a.Tier == "thorough" { // random composite towers over the base expressions
		r := rand.New(rand.NewSource(a.Seed))
		for i := 0; i < 1500; i++ {
			b := c14TypeExprs[r.Intn(len(c14TypeExprs))]
			switch r.Intn(6) {
			case 0:
				exprs = append(exprs, "[]"+b)
			case 1:
				exprs = append(exprs, fmt.Sprintf("[%d]%s", r.Intn(3), b))
			case 2:
				exprs = append(exprs, "struct{ F "+b+"; g int }")
			case 3:
				exprs = append(exprs, "map[string]"+b)
			case 4:
				exprs = append(exprs, "*"+b)
			default:
				exprs = append(exprs, "func() "+b)
			}
		}
	}
	conf := &gogen.Config{Fset: token.NewFileSet(), Importer: srcImp, Types: tpkg}
	pkg := gogen.NewPackage("p", "p", conf)
	enc := &c14Enc{named: map[*types.TypeName]int{}}
	cw := newCaseWriter(a.Out, "C14", "From GV Require Import Go.Kinds C14.Model C14.Check.", "c14case", 500,
		"k1_bad cases", "k2_bad cases", "dev_list cases")
	cl := newCaseLog(a.Out)
	defer cl.close()
	m := &meta{Property: "C14", Seed: a.Seed, Tier: a.Tier, PerShard: 500,
		Strata: map[string]int{}, Dist: map[string]int{}, Known: map[string]int{},
		Rule: "every basic kind, named types over each kind, pointers, slices, maps, channels, functions, interfaces, arrays, structs, aliases, generic instances, types of other packages with unexported fields (time.Time, bytes.Buffer); thorough adds random composite towers; distinct = distinct types; all non-trivial"}
	n := 0
	var uTypes []types.Type
	var uSrcs, uZero []string
	for _, src := range exprs {
		tv, err := types.Eval(fset, tpkg, pos, src)
		if err != nil {
			continue
		}
		T := tv.Type
		var e *gogen.Element
		fault := func() (f string) {
			defer func() {
				if x := recover(); x != nil {
					f = fmt.Sprint(x)
				}
			}()
			e = pkg.Zero(T)
			return ""
		}()
		if fault != "" {
			m.Direct = append(m.Direct, directViolation{Case: n, What: "Zero(" + src + ") faults: " + fault, Replay: c14Case{T: src}})
			continue
		}
		// the emitted expression as text; it refers to p's declarations and to imported packages by name
		var buf bytes.Buffer
		format.Node(&buf, token.NewFileSet(), e.Val)
		text := buf.String()
		obsE := ""
		switch v := e.Val.(type) {
		case *ast.BasicLit:
			if v.Kind == token.INT && v.Value == "0" {
				obsE = "EZero"
			} else if v.Kind == token.STRING && v.Value == `""` {
				obsE = "EEmptyString"
			}
		case *ast.Ident:
			switch v.Name {
			case "false":
				obsE = "EFalse"
			case "nil":
				obsE = "ENil"
			}
		case *ast.CompositeLit:
			var tb bytes.Buffer
			format.Node(&tb, token.NewFileSet(), v.Type)
			lt, err := types.Eval(fset, tpkg, pos, tb.String())
			if err == nil && len(v.Elts) == 0 {
				obsE = "(ELit " + enc.enc(lt.Type) + ")"
			} else {
				obsE = "(ELit (ZComposite 999999%N))" // the literal type does not even denote a type here
			}
		}
		if obsE == "" {
			obsE = "(ELit (ZComposite 999998%N))"
		}
		obsC := "ZCNone"
		if e.CVal != nil {
			switch e.CVal.Kind() {
			case constant.Int:
				if constant.Sign(e.CVal) == 0 {
					obsC = "ZCInt0"
				}
			case constant.Bool:
				if !constant.BoolVal(e.CVal) {
					obsC = "ZCFalse"
				}
			case constant.String:
				if constant.StringVal(e.CVal) == "" {
					obsC = "ZCEmptyStr"
				}
			}
		}
		same := types.Identical(e.Type, T)
		// reference: go/types on the emitted text in both contexts
		ok, _ := goTypesLines(c14Decls, []string{fmt.Sprintf("var _ %s = %s", src, text), fmt.Sprintf("x := %s; _ = x", text)})
		refInf := "None"
		infStr := ""
		if len(ok) == 2 && ok[1] {
			if xt, err := types.Eval(fset, tpkg, pos, text); err == nil {
				it := xt.Type
				if b, isb := it.(*types.Basic); isb && b.Info()&types.IsUntyped != 0 {
					it = types.Default(it)
				}
				refInf = "(Some " + enc.enc(it) + ")"
				infStr = it.String()
			}
		}
		uTypes = append(uTypes, T)
		uSrcs = append(uSrcs, src)
		uZero = append(uZero, text)
		c := c14Case{T: src, Expr: text, RefTyped: len(ok) == 2 && ok[0], RefInf: infStr}
		m.DirectRuns++
		if !c.RefTyped {
			m.Direct = append(m.Direct, directViolation{Case: n, What: fmt.Sprintf("the zero value %s synthesised for %s is rejected by Go where a %s is expected", text, src, src), Replay: c})
		}
		cw.add(fmt.Sprintf("mkCase %s %s %s %s %s %s", enc.enc(T), obsE, coqBool(same), obsC, coqBool(c.RefTyped), refInf))
		cl.add(c)
		m.Dist[strings.SplitN(strings.Trim(obsE, "()"), " ", 2)[0]]++
		if len(m.Samples) < 5 && n%13 == 0 {
			m.Samples = append(m.Samples, c)
		}
		n++
	}
	cw.flush()
	c14Users(m, a, pkg, tpkg, uTypes, uSrcs, uZero)
	m.Cases = n
	m.Distinct = n
	m.Files = cw.files
	return writeJSON(filepath.Join(a.Out, "meta.json"), m)
}

// c14Users: the users of Zero named by the property — error-return padding (ReturnErr), omitted
// optional arguments, and zero-argument conversions T().  Each generated function is printed,
// type-checked together with the universe declarations, and every synthesised expression must be
// the zero value expression of the type at ITS position.
func c14Users(m *meta, a *runArgs, pkg *gogen.Package, tpkg *types.Package, ts []types.Type, srcs, zeros []string) {
	if len(ts) == 0 {
		return
	}
	r := rand.New(rand.NewSource(a.Seed + 7))
	rounds := 60
	if a.Tier == "thorough" {
		rounds = 600
	}
	type want struct {
		fn    string
		kind  string
		exprs []string // expected expressions in order
		types []string
	}
	var wants []want
	errT := types.Universe.Lookup("error").Type()
	cb := pkg.CB()
	for k := 0; k < rounds; k++ {
		n := 1 + r.Intn(3)
		idx := make([]int, n)
		for i := range idx {
			idx[i] = r.Intn(len(ts))
		}
		fault := func(f func()) (msg string) {
			defer func() {
				if e := recover(); e != nil {
					msg = fmt.Sprint(e)
				}
			}()
			f()
			return ""
		}
		var exp, tys []string
		for _, i := range idx {
			exp = append(exp, zeros[i])
			tys = append(tys, srcs[i])
		}
		// (a) error-return padding
		name := fmt.Sprintf("R%d", k)
		msg := fault(func() {
			var res []*types.Var
			for _, i := range idx {
				res = append(res, types.NewParam(token.NoPos, tpkg, "", ts[i]))
			}
			res = append(res, types.NewParam(token.NoPos, tpkg, "", errT))
			e := types.NewParam(token.NoPos, tpkg, "e", errT)
			pkg.NewFunc(nil, name, types.NewTuple(e), types.NewTuple(res...), false).BodyStart(pkg).Val(e).ReturnErr(false).End()
		})
		m.DirectRuns++
		m.Dist["user: ReturnErr"]++
		if msg != "" {
			m.Direct = append(m.Direct, directViolation{Case: k, What: fmt.Sprintf("ReturnErr in a function returning (%s, error) faults: %s", strings.Join(tys, ", "), msg), Replay: map[string]any{"kind": "ReturnErr", "types": tys}})
		} else {
			wants = append(wants, want{name, "ReturnErr", append(append([]string{}, exp...), "e"), tys})
		}
		// (b) omitted optional arguments
		oname := fmt.Sprintf("O%d", k)
		msg = fault(func() {
			ps := []*types.Var{types.NewParam(token.NoPos, tpkg, "a", types.Typ[types.Int])}
			for j, i := range idx {
				ps = append(ps, pkg.NewParam(token.NoPos, fmt.Sprintf("o%d", j), ts[i], true))
			}
			fn := pkg.NewFunc(nil, oname, types.NewTuple(ps...), nil, false)
			fn.BodyStart(pkg).End()
			pkg.NewFunc(nil, "call"+oname, nil, nil, false).BodyStart(pkg).Val(fn.Func).Val(1).Call(1).EndStmt().End()
		})
		m.DirectRuns++
		m.Dist["user: optional arguments"]++
		if msg != "" {
			m.Direct = append(m.Direct, directViolation{Case: k, What: fmt.Sprintf("calling a function with omitted optional parameters (%s) faults: %s", strings.Join(tys, ", "), msg), Replay: map[string]any{"kind": "optional", "types": tys}})
		} else {
			wants = append(wants, want{"call" + oname, "optional", append([]string{"1"}, exp...), tys})
		}
		// (c) T()
		vname := fmt.Sprintf("Z%d", k)
		msg = fault(func() {
			cb.NewVarStart(ts[idx[0]], vname).Typ(ts[idx[0]]).Call(0).EndInit(1)
		})
		m.DirectRuns++
		m.Dist["user: T()"]++
		if msg != "" {
			m.Direct = append(m.Direct, directViolation{Case: k, What: fmt.Sprintf("the zero-argument conversion %s() faults: %s", tys[0], msg), Replay: map[string]any{"kind": "T()", "types": tys[:1]}})
		} else {
			wants = append(wants, want{vname, "T()", exp[:1], tys[:1]})
		}
	}
	var out bytes.Buffer
	if err := pkg.WriteTo(&out); err != nil {
		m.Direct = append(m.Direct, directViolation{What: "WriteTo faults: " + err.Error(), Replay: map[string]any{"kind": "users"}})
		return
	}
	fset := token.NewFileSet()
	gf, err := parser.ParseFile(fset, "gen.go", out.Bytes(), 0)
	if err != nil {
		m.Direct = append(m.Direct, directViolation{What: "the generated file does not parse: " + err.Error(), Replay: map[string]any{"kind": "users"}})
		return
	}
	df, _ := parser.ParseFile(fset, "decls.go", c14Decls, 0)
	var errs []string
	(&types.Config{Importer: importer.ForCompiler(fset, "source", nil), Error: func(e error) {
		if !strings.Contains(e.Error(), "declared and not used") && !strings.Contains(e.Error(), "imported and not used") {
			errs = append(errs, e.Error())
		}
	}}).Check("p", fset, []*ast.File{df, gf}, nil)
	lines := strings.Split(out.String(), "\n")
	for _, e := range errs {
		var ln int
		line := ""
		if _, err := fmt.Sscanf(e, "gen.go:%d:", &ln); err == nil && ln >= 1 && ln <= len(lines) {
			line = strings.TrimSpace(lines[ln-1])
		}
		m.Direct = append(m.Direct, directViolation{What: fmt.Sprintf("Go rejects the generated code: %s; line: %s", e, line), Replay: map[string]any{"kind": "users", "error": e, "line": line}})
		if len(m.Direct) > 20 {
			break
		}
	}
	text := func(x ast.Expr) string {
		var b bytes.Buffer
		format.Node(&b, token.NewFileSet(), x)
		return b.String()
	}
	got := map[string][]string{}
	for _, d := range gf.Decls {
		switch d := d.(type) {
		case *ast.FuncDecl:
			if d.Body == nil || len(d.Body.List) == 0 {
				continue
			}
			switch st := d.Body.List[len(d.Body.List)-1].(type) {
			case *ast.ReturnStmt:
				for _, x := range st.Results {
					got[d.Name.Name] = append(got[d.Name.Name], text(x))
				}
			case *ast.ExprStmt:
				if c, ok := st.X.(*ast.CallExpr); ok {
					for _, x := range c.Args {
						got[d.Name.Name] = append(got[d.Name.Name], text(x))
					}
				}
			}
		case *ast.GenDecl:
			for _, sp := range d.Specs {
				if vs, ok := sp.(*ast.ValueSpec); ok && len(vs.Names) == 1 && len(vs.Values) == 1 {
					got[vs.Names[0].Name] = []string{text(vs.Values[0])}
				}
			}
		}
	}
	for _, w := range wants {
		g := got[w.fn]
		squash := func(l []string) string { return strings.Join(strings.Fields(strings.Join(l, ";")), "") }
		if squash(g) != squash(w.exprs) {
			m.Direct = append(m.Direct, directViolation{What: fmt.Sprintf("%s over (%s): emitted [%s], the zero values of the types in order are [%s]", w.kind, strings.Join(w.types, ", "), strings.Join(g, " ; "), strings.Join(w.exprs, " ; ")),
				Replay: map[string]any{"kind": w.kind, "types": w.types, "emitted": g, "expected": w.exprs}})
			if len(m.Direct) > 30 {
				break
			}
		}
	}
}
