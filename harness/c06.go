package main

// C06 — overload resolution.  A foreign XGo-style package "ov" is generated with random overload
// families (functions Fk__i, methods on T / *P / interface I, discovered and ordered by
// InitXGoPackageEx from the name__N suffixes) and, for every candidate, a twin family of one with the
// same signature.  For every argument list: the family call on the real builder is compared with
//   - the twins: the chosen candidate must be the lowest-indexed twin that accepts, the emitted
//     arguments and the result type must be those of that twin alone (evaluated in Coq on the
//     candidate-loop model, K1; and directly),
//   - go/types: a candidate is applicable iff Go accepts the call (typed arguments; K2-style direct check).

import (
	"bytes"
	"fmt"
	"go/ast"
	"go/format"
	"go/parser"
	"go/token"
	"go/types"
	"math/rand"
	"path/filepath"
	"strings"

	"github.com/goplus/gogen"
)

func init() { register("C06", runC06) }

type c06Type struct{ name, goType string }

var c06Types = []string{"int", "int64", "float64", "string", "bool", "byte", "[]int", "any", "error", "T", "*T", "func(int) int", "func(string) string", "map[string]int", "chan int", "MyInt"}

// argument pool: name in the test function / Go source text / static type ("" = untyped constant)
type c06Arg struct {
	Text string `json:"text"`
	Typ  string `json:"type"`
	kind int    // 0 typed variable, 1 constant
	val  any
}

var c06Vars = []c06Arg{
	{"vi", "int", 0, nil}, {"vi64", "int64", 0, nil}, {"vf", "float64", 0, nil}, {"vs", "string", 0, nil}, {"vb", "bool", 0, nil},
	{"vby", "byte", 0, nil}, {"vsl", "[]int", 0, nil}, {"va", "any", 0, nil}, {"ve", "error", 0, nil}, {"vt", "ov.T", 0, nil},
	{"vpt", "*ov.T", 0, nil}, {"vfn", "func(int) int", 0, nil}, {"vfs", "func(string) string", 0, nil}, {"vm", "map[string]int", 0, nil}, {"vc", "chan int", 0, nil}, {"vmi", "ov.MyInt", 0, nil},
}

// a generic function value: matching it against a function-typed parameter instantiates it in place
var c06Gen = c06Arg{"ov.Gen", "generic", 2, nil}

var c06Consts = []c06Arg{
	{"1", "", 1, 1}, {"-3", "", 1, -3}, {"1.5", "", 1, 1.5}, {`"s"`, "", 1, "s"}, {"'c'", "", 1, 'c'}, {"true", "", 1, true}, {"nil", "", 1, nil}, {"1099511627776", "", 1, 1 << 40}, {"300", "", 1, 300},
}

type c06Cand struct {
	Params   []string `json:"params"`
	Variadic bool     `json:"variadic"`
	Generic  bool     `json:"generic"`
}

type c06Family struct {
	Name  string    `json:"name"`
	Kind  string    `json:"kind"` // func | method | ptrmethod | iface
	Cands []c06Cand `json:"candidates"`
}

const c06Index = "0123456789abcdefghijklmnopqrstuvwxyz"

func (c c06Cand) sig(names bool) string {
	var ps []string
	for i, p := range c.Params {
		t := p
		if c.Variadic && i == len(c.Params)-1 {
			t = "..." + p
		}
		if c.Generic && i == 0 {
			t = "X"
		}
		if names {
			t = fmt.Sprintf("p%d %s", i, t)
		}
		ps = append(ps, t)
	}
	return "(" + strings.Join(ps, ", ") + ")"
}

func c06Source(fams []c06Family) string {
	var b strings.Builder
	b.WriteString("package ov\n\nconst XGoPackage = true\n\ntype T struct{ X int }\ntype P struct{}\ntype MyInt int\nfunc Gen[X any](x X) X { return x }\n")
	b.WriteString("type Foo struct{ v int }\nfunc Foo_Init(v int) Foo { return Foo{v} }\n")
	b.WriteString("type OA struct{}\ntype OB struct{}\nfunc (a OA) XGo_Sub(b OA) OA { return a }\nfunc (a OB) XGo_Sub(b OB) OB { return a }\nfunc OB_Init(a OA) OB { return OB{} }\n")
	for i := 0; i < 36; i++ {
		fmt.Fprintf(&b, "type R%d struct{ _ [%d]int }\n", i, i+1)
	}
	var ifaceMethods []string
	decl := func(kind, name string, c c06Cand, res int) {
		tp := ""
		if c.Generic {
			tp = "[X any]"
		}
		switch kind {
		case "func":
			fmt.Fprintf(&b, "func %s%s%s R%d { panic(0) }\n", name, tp, c.sig(true), res)
		case "method":
			fmt.Fprintf(&b, "func (T) %s%s R%d { panic(0) }\n", name, c.sig(true), res)
		case "ptrmethod":
			fmt.Fprintf(&b, "func (*P) %s%s R%d { panic(0) }\n", name, c.sig(true), res)
		case "iface":
			ifaceMethods = append(ifaceMethods, fmt.Sprintf("\t%s%s R%d", name, c.sig(false), res))
		}
	}
	for _, f := range fams {
		for i, c := range f.Cands {
			decl(f.Kind, fmt.Sprintf("%s__%c", f.Name, c06Index[i]), c, i)
			decl(f.Kind, fmt.Sprintf("%ss%d__0", f.Name, i), c, i) // twin: a family of one
		}
	}
	b.WriteString("type I interface {\n" + strings.Join(ifaceMethods, "\n") + "\n}\n")
	return b.String()
}

type c06World struct {
	ov   *types.Package
	imp  types.Importer
	chk  *types.Package // package main with the argument variables, for go/types
	fset *token.FileSet
	pos  token.Pos // a position inside main.go's file scope (imports visible)
}

func c06NewWorld(fams []c06Family) (*c06World, error) {
	w := &c06World{fset: token.NewFileSet()}
	src := c06Source(fams)
	f, err := parser.ParseFile(w.fset, "ov.go", src, 0)
	if err != nil {
		return nil, fmt.Errorf("ov source: %v", err)
	}
	w.ov, err = (&types.Config{}).Check("ov", w.fset, []*ast.File{f}, nil)
	if err != nil {
		return nil, fmt.Errorf("ov source: %v", err)
	}
	// a second, untouched copy for the go/types oracle (InitXGoPackage rewrites the scope of the first)
	f2, _ := parser.ParseFile(w.fset, "ov.go", src, 0)
	ov2, _ := (&types.Config{}).Check("ov", w.fset, []*ast.File{f2}, nil)
	w.imp = &c15MemImporter{pkgs: map[string]*types.Package{"ov": w.ov}, next: irImporterOrNew()}
	var mb strings.Builder
	mb.WriteString("package main\nimport \"ov\"\nvar (\n")
	for _, v := range c06Vars {
		fmt.Fprintf(&mb, "\t%s %s\n", v.Text, v.Typ)
	}
	mb.WriteString("\tvrt ov.T\n\tvrp *ov.P\n\tvri ov.I\n)\n")
	mf, err := parser.ParseFile(w.fset, "main.go", mb.String(), 0)
	if err != nil {
		return nil, err
	}
	w.pos = mf.Decls[len(mf.Decls)-1].Pos()
	w.chk, err = (&types.Config{Importer: &c15MemImporter{pkgs: map[string]*types.Package{"ov": ov2}, next: irImporterOrNew()}}).Check("main", w.fset, []*ast.File{mf}, nil)
	return w, err
}

func irImporterOrNew() types.Importer {
	if irImporter == nil {
		irImporter = c12Imp
	}
	return irImporter
}

type c06Obs struct {
	OK     bool     `json:"accepted"`
	Callee string   `json:"callee,omitempty"`
	Args   []string `json:"args,omitempty"`
	Res    string   `json:"result_type,omitempty"`
	Err    string   `json:"error,omitempty"`
}

func c06Text(n ast.Node) string {
	var b bytes.Buffer
	format.Node(&b, token.NewFileSet(), n)
	return strings.Join(strings.Fields(b.String()), " ")
}

// one call through family `name` on a fresh package
func (w *c06World) call(kind, name string, args []c06Arg) (obs c06Obs) {
	var errs []string
	defer func() {
		if e := recover(); e != nil {
			obs = c06Obs{Err: fmt.Sprint(e)}
		}
		if len(errs) > 0 && obs.OK {
			obs = c06Obs{Err: errs[0]}
		}
	}()
	pkg := gogen.NewPackage("", "main", &gogen.Config{Fset: token.NewFileSet(), Importer: w.imp, HandleErr: func(err error) { errs = append(errs, err.Error()) }})
	ov := pkg.Import("ov")
	scope := w.ov.Scope()
	var params []*types.Var
	byName := map[string]*types.Var{}
	add := func(n string, t types.Type) {
		v := types.NewParam(token.NoPos, pkg.Types, n, t)
		params = append(params, v)
		byName[n] = v
	}
	for _, v := range c06Vars {
		tv, err := types.Eval(w.fset, w.chk, w.pos, v.Text)
		if err != nil {
			panic(err)
		}
		// the variable's type must come from the package instance gogen imported
		add(v.Text, c06Rebind(tv.Type, scope))
	}
	add("vrt", scope.Lookup("T").Type())
	add("vrp", types.NewPointer(scope.Lookup("P").Type()))
	add("vri", scope.Lookup("I").Type())
	cb := pkg.NewFunc(nil, "t", types.NewTuple(params...), nil, false).BodyStart(pkg)
	switch kind {
	case "func":
		cb.Val(ov.Ref(name))
	case "method":
		cb.Val(byName["vrt"]).MemberVal(name, 0)
	case "ptrmethod":
		cb.Val(byName["vrp"]).MemberVal(name, 0)
	case "iface":
		cb.Val(byName["vri"]).MemberVal(name, 0)
	}
	for _, a := range args {
		switch a.kind {
		case 0:
			cb.Val(byName[a.Text])
		case 2:
			cb.Val(ov.Ref("Gen"))
		default:
			cb.Val(a.val)
		}
	}
	cb.Call(len(args))
	e := cb.InternalStack().Get(-1)
	call, ok := e.Val.(*ast.CallExpr)
	if !ok {
		return c06Obs{Err: "the result is not a call expression: " + c06Text(e.Val)}
	}
	obs.OK = true
	obs.Callee = c06Text(call.Fun)
	for _, x := range call.Args {
		obs.Args = append(obs.Args, c06Text(x))
	}
	if call.Ellipsis.IsValid() {
		obs.Args = append(obs.Args, "...")
	}
	obs.Res = types.TypeString(e.Type, func(p *types.Package) string { return p.Name() })
	return
}

// rebinds a type expressed over the oracle's copy of package ov to the copy the builder imports
func c06Rebind(t types.Type, scope *types.Scope) types.Type {
	switch t := t.(type) {
	case *types.Named:
		if t.Obj().Pkg() != nil && t.Obj().Pkg().Path() == "ov" {
			return scope.Lookup(t.Obj().Name()).Type()
		}
	case *types.Pointer:
		return types.NewPointer(c06Rebind(t.Elem(), scope))
	}
	return t
}

func c06GenFamily(r *rand.Rand, name, kind string) c06Family {
	n := 1 + r.Intn(6)
	if r.Intn(8) == 0 {
		n = 10 + r.Intn(4) // exercises the letter indices a, b, c
	}
	f := c06Family{Name: name, Kind: kind}
	arity := r.Intn(4)
	seen := map[string]bool{}
	for len(f.Cands) < n {
		c := c06Cand{}
		k := arity
		if r.Intn(4) == 0 {
			k = r.Intn(4)
		}
		for i := 0; i < k; i++ {
			if i == 0 && r.Intn(5) == 0 {
				c.Params = append(c.Params, []string{"func(int) int", "func(string) string"}[r.Intn(2)])
				continue
			}
			c.Params = append(c.Params, c06Types[r.Intn(len(c06Types))])
		}
		if k > 0 && r.Intn(6) == 0 {
			c.Variadic = true
		}
		if k > 0 && kind == "func" && r.Intn(10) == 0 {
			c.Generic = true
		}
		key := c.sig(false) + fmt.Sprint(c.Generic)
		if seen[key] && r.Intn(3) > 0 {
			continue
		}
		seen[key] = true
		f.Cands = append(f.Cands, c)
	}
	return f
}

func c06ArgFor(r *rand.Rand, typ string) c06Arg {
	if strings.HasPrefix(typ, "func(") && r.Intn(2) == 0 {
		return c06Gen
	}
	if r.Intn(3) == 0 { // an untyped constant that may fit
		switch typ {
		case "int", "int64", "byte", "MyInt":
			return c06Consts[[]int{0, 1, 4, 8, 7}[r.Intn(5)]]
		case "float64":
			return c06Consts[[]int{0, 2}[r.Intn(2)]]
		case "string":
			return c06Consts[3]
		case "bool":
			return c06Consts[5]
		case "any":
			return c06Consts[r.Intn(len(c06Consts))]
		case "[]int", "error", "*T", "func(int) int", "map[string]int", "chan int":
			return c06Consts[6]
		}
	}
	for _, v := range c06Vars {
		if strings.TrimPrefix(strings.Replace(v.Typ, "ov.", "", 1), "") == typ {
			return v
		}
	}
	return c06Vars[r.Intn(len(c06Vars))]
}

type c06Case struct {
	Family c06Family `json:"family"`
	Args   []c06Arg  `json:"args"`
	Got    c06Obs    `json:"family_call"`
	Twins  []c06Obs  `json:"each_candidate_alone"`
	GoOK   []bool    `json:"go_accepts_candidate,omitempty"`
}

func runC06(a *runArgs) error {
	nFam, perFam := 36, 9
	if a.Tier == "thorough" {
		nFam, perFam = 200, 30
	}
	r := rand.New(rand.NewSource(a.Seed))
	var fams []c06Family
	kinds := []string{"func", "func", "method", "ptrmethod", "iface"}
	for k := 0; k < nFam; k++ {
		kind := kinds[r.Intn(len(kinds))]
		fams = append(fams, c06GenFamily(r, fmt.Sprintf("%s%d", map[string]string{"func": "F", "method": "M", "ptrmethod": "Q", "iface": "N"}[kind], k), kind))
	}
	// hand-made families whose earlier candidates rewrite an argument before rejecting a later one
	fams = append(fams,
		c06Family{Name: "Fx0", Kind: "func", Cands: []c06Cand{{Params: []string{"func(int) int", "string"}}, {Params: []string{"func(string) string", "int"}}}},
		c06Family{Name: "Fx1", Kind: "func", Cands: []c06Cand{{Params: []string{"func(string) string", "func(int) int", "bool"}}, {Params: []string{"func(int) int", "func(string) string", "int"}}, {Params: []string{"any", "any", "any"}}}},
		c06Family{Name: "Mx2", Kind: "method", Cands: []c06Cand{{Params: []string{"func(int) int", "string"}}, {Params: []string{"func(string) string", "int"}}}},
		// Foo accepts an untyped integer through Foo_Init: the argument's expression is rewritten, its type is not
		c06Family{Name: "Fy3", Kind: "func", Cands: []c06Cand{{Params: []string{"Foo", "string"}}, {Params: []string{"int", "int"}}}},
		c06Family{Name: "Fy4", Kind: "func", Cands: []c06Cand{{Params: []string{"Foo", "Foo", "bool"}}, {Params: []string{"Foo", "int", "string"}}, {Params: []string{"int", "int", "int"}}}},
		c06Family{Name: "My5", Kind: "method", Cands: []c06Cand{{Params: []string{"Foo", "string"}}, {Params: []string{"any", "int"}}}},
	)
	w, err := c06NewWorld(fams)
	if err != nil {
		return err
	}
	m := &meta{Property: "C06", Seed: a.Seed, Tier: a.Tier, PerShard: 200,
		Strata: map[string]int{}, Dist: map[string]int{}, Known: map[string]int{},
		Rule: "random overload families (1-13 candidates; fixed, variadic and generic parameters over 15 types; functions, methods on T and *P, interface methods) in a generated XGo-style package, discovered through the name__N suffixes; argument lists aimed at one candidate or random, from typed variables and untyped constants; distinct = distinct (family, arguments); non-trivial = family with at least two candidates"}
	cw := newCaseWriter(a.Out, "C06", "From GV Require Import C06.Model C06.Check.", "c06case", 200, "k1_bad cases")
	cl := newCaseLog(a.Out)
	defer cl.close()
	intern := map[string]int{}
	id := func(s string) int {
		if v, ok := intern[s]; ok {
			return v
		}
		intern[s] = len(intern) + 1
		return intern[s]
	}
	n := 0
	distinct := map[string]bool{}
	for _, fam := range fams {
		for k := 0; k < perFam; k++ {
			var args []c06Arg
			if strings.Contains(fam.Name, "y") { // untyped integer constants throughout
				for range fam.Cands[0].Params {
					args = append(args, c06Consts[[]int{0, 8, 1}[r.Intn(3)]])
				}
			} else if strings.Contains(fam.Name, "x") {
				n := len(fam.Cands[0].Params)
				for i := 0; i < n; i++ {
					if i < n-1 {
						args = append(args, c06Gen)
					} else {
						args = append(args, c06Vars[r.Intn(5)])
					}
				}
			} else if r.Intn(3) > 0 {
				c := fam.Cands[r.Intn(len(fam.Cands))]
				for _, p := range c.Params {
					args = append(args, c06ArgFor(r, p))
				}
				if c.Variadic {
					switch r.Intn(3) {
					case 0:
						args = args[:len(args)-1]
					case 1:
						args = append(args, c06ArgFor(r, c.Params[len(c.Params)-1]))
					}
				}
			} else {
				for i, na := 0, r.Intn(4); i < na; i++ {
					if r.Intn(3) == 0 {
						args = append(args, c06Consts[r.Intn(len(c06Consts))])
					} else if r.Intn(8) == 0 {
						args = append(args, c06Gen)
					} else {
						args = append(args, c06Vars[r.Intn(len(c06Vars))])
					}
				}
			}
			c := c06Case{Family: fam, Args: args}
			c.Got = w.call(fam.Kind, fam.Name, args)
			recv := map[string]string{"func": "ov.", "method": "vrt.", "ptrmethod": "vrp.", "iface": "vri."}[fam.Kind]
			var argTexts []string
			typedOnly := true
			for _, x := range args {
				argTexts = append(argTexts, x.Text)
				if x.kind != 0 {
					typedOnly = false
				}
			}
			first := -1
			for j := range fam.Cands {
				tw := w.call(fam.Kind, fmt.Sprintf("%ss%d", fam.Name, j), args)
				if tw.OK {
					// name the twin's callee as the family member it stands for
					tw.Callee = strings.Replace(tw.Callee, fmt.Sprintf("%ss%d__0", fam.Name, j), fmt.Sprintf("%s__%c", fam.Name, c06Index[j]), 1)
					if first < 0 {
						first = j
					}
				}
				c.Twins = append(c.Twins, tw)
				_, gerr := types.Eval(w.fset, w.chk, w.pos, fmt.Sprintf("%s%s__%c(%s)", recv, fam.Name, c06Index[j], strings.Join(argTexts, ", ")))
				c.GoOK = append(c.GoOK, gerr == nil)
			}
			m.DirectRuns++
			key := fmt.Sprint(fam.Name, argTexts)
			if !distinct[key] && len(fam.Cands) > 1 {
				distinct[key] = true
			}
			// direct verdicts
			switch {
			case first < 0 && c.Got.OK:
				m.Direct = append(m.Direct, directViolation{Case: n, What: fmt.Sprintf("call %s(%s) is accepted as %s although no candidate alone accepts these arguments", fam.Name, strings.Join(argTexts, ", "), c.Got.Callee), Replay: c})
			case first >= 0 && !c.Got.OK:
				m.Direct = append(m.Direct, directViolation{Case: n, What: fmt.Sprintf("call %s(%s) is rejected (%s) although candidate %d alone accepts these arguments", fam.Name, strings.Join(argTexts, ", "), c06Short(c.Got.Err), first), Replay: c})
			case first >= 0:
				tw := c.Twins[first]
				if c.Got.Callee != tw.Callee || strings.Join(c.Got.Args, ",") != strings.Join(tw.Args, ",") || c.Got.Res != tw.Res {
					m.Direct = append(m.Direct, directViolation{Case: n, What: fmt.Sprintf("call %s(%s) is emitted as %s(%s) : %s; the first applicable candidate alone gives %s(%s) : %s", fam.Name, strings.Join(argTexts, ", "),
						c.Got.Callee, strings.Join(c.Got.Args, ", "), c.Got.Res, tw.Callee, strings.Join(tw.Args, ", "), tw.Res), Replay: c})
				}
			}
			// applicability of each candidate alone vs Go's call rules (typed arguments only: constants are C05's subject)
			if typedOnly {
				for j, tw := range c.Twins {
					if tw.OK != c.GoOK[j] && !fam.Cands[j].Generic {
						m.Direct = append(m.Direct, directViolation{Case: n, Step: j, What: fmt.Sprintf("candidate %s__%c%s with arguments (%s): builder accepts=%v, Go accepts=%v", fam.Name, c06Index[j], fam.Cands[j].sig(false), strings.Join(argTexts, ", "), tw.OK, c.GoOK[j]), Replay: c})
						break
					}
				}
				m.Dist["typed-argument lists checked against go/types"]++
			}
			// Coq case: per-candidate outcomes as the oracle of the loop model
			elem := func(o c06Obs, i int) string {
				if i < len(o.Args) {
					return fmt.Sprintf("mkElem %d %d 0 0", id("T:"+o.Res), id("V:"+o.Args[i]))
				}
				return "mkElem 0 0 0 0"
			}
			enc := func(o c06Obs) string {
				if !o.OK {
					return "None"
				}
				var es []string
				for i := range o.Args {
					es = append(es, elem(o, i))
				}
				return fmt.Sprintf("(Some (%d%%N, %d%%N, %s))", id("C:"+o.Callee), id("R:"+o.Res), coqList(es))
			}
			var tws []string
			for _, tw := range c.Twins {
				tws = append(tws, enc(tw))
			}
			cw.add(fmt.Sprintf("(%s, %s)", coqList(tws), enc(c.Got)))
			cl.add(c)
			m.Dist[fam.Kind]++
			if c.Got.OK {
				m.Dist["accepted"]++
				m.Strata[fmt.Sprintf("chosen index %d", first)]++
			} else {
				m.Dist["rejected"]++
			}
			if len(m.Samples) < 5 && n%61 == 0 {
				m.Samples = append(m.Samples, c)
			}
			n++
		}
	}
	c06Operators(w, m)
	cw.flush()
	m.Cases = n
	m.Distinct = len(distinct)
	m.Files = cw.files
	return writeJSON(filepath.Join(a.Out, "meta.json"), m)
}

func c06Short(s string) string {
	if len(s) > 160 {
		return s[:160] + "..."
	}
	return s
}

// overloaded operators on named types: a - b resolves to the left operand's XGo_Sub when it accepts
// the right operand (possibly through T_Init), otherwise to the right operand's XGo_Sub
func c06Operators(w *c06World, m *meta) {
	type sc struct{ l, r, wantRes, wantText string }
	for i, s := range []sc{
		{"OA", "OA", "ov.OA", "(ov.OA).XGo_Sub(a, b)"},
		{"OB", "OB", "ov.OB", "(ov.OB).XGo_Sub(a, b)"},
		{"OB", "OA", "ov.OB", "(ov.OB).XGo_Sub(a, ov.OB_Init(b))"},
		{"OA", "OB", "ov.OB", "(ov.OB).XGo_Sub(ov.OB_Init(a), b)"},
	} {
		var errs []string
		obs := c06Obs{}
		func() {
			defer func() {
				if e := recover(); e != nil {
					obs = c06Obs{Err: fmt.Sprint(e)}
				}
			}()
			pkg := gogen.NewPackage("", "main", &gogen.Config{Fset: token.NewFileSet(), Importer: w.imp, HandleErr: func(err error) { errs = append(errs, err.Error()) }})
			pkg.Import("ov")
			a := types.NewParam(token.NoPos, pkg.Types, "a", w.ov.Scope().Lookup(s.l).Type())
			b := types.NewParam(token.NoPos, pkg.Types, "b", w.ov.Scope().Lookup(s.r).Type())
			cb := pkg.NewFunc(nil, "t", types.NewTuple(a, b), nil, false).BodyStart(pkg)
			cb.Val(a).Val(b).BinaryOp(token.SUB)
			e := cb.InternalStack().Get(-1)
			obs.OK = true
			obs.Callee = c06Text(e.Val)
			obs.Res = types.TypeString(e.Type, func(p *types.Package) string { return p.Name() })
		}()
		if obs.OK && len(errs) > 0 {
			obs = c06Obs{Err: errs[0]}
		}
		m.DirectRuns++
		m.Dist["operator scenarios"]++
		what := fmt.Sprintf("a - b with a %s, b %s", s.l, s.r)
		switch {
		case !obs.OK:
			m.Direct = append(m.Direct, directViolation{Case: i, What: what + " is rejected (" + c06Short(obs.Err) + "); the overloaded operator " + s.wantText + " applies", Replay: map[string]any{"kind": "operator", "left": s.l, "right": s.r, "expected": s.wantText}})
		case obs.Res != s.wantRes || obs.Callee != s.wantText:
			m.Direct = append(m.Direct, directViolation{Case: i, What: fmt.Sprintf("%s is emitted as %s : %s, expected %s : %s", what, obs.Callee, obs.Res, s.wantText, s.wantRes), Replay: map[string]any{"kind": "operator", "left": s.l, "right": s.r, "emitted": obs.Callee}})
		}
	}
}
