package main

// C16 — builder state after every operation of well-nested histories:
// InternalStack().Len(), Scope(), Func(), InVBlock() vs the Coq machine, plus
// the direct oracle: every statement (at every nesting level) leaves stack
// length, scope and current function as it found them.

import (
	"bytes"
	"fmt"
	"go/ast"
	"go/parser"
	"strings"
	"go/importer"
	"go/token"
	"go/types"
	"math/rand"
	"path/filepath"

	"github.com/goplus/gogen"
)

func init() { register("C16", runC16) }

type c16Obs struct {
	Op    string `json:"op"`
	Stk   int    `json:"stk"`
	Scope int    `json:"scope"`
	Fn    int    `json:"fn"`
	NLab  int    `json:"nlab"`
	VB    bool   `json:"vblock,omitempty"`
}

type c16Case struct {
	Fn    *irFunc  `json:"fn"`
	Obs   []c16Obs `json:"obs"`
	Fault string   `json:"fault,omitempty"`
	Src   string   `json:"source"`
}

func runC16One(f *irFunc) (c c16Case, unbalanced []string) {
	c.Fn = f
	c.Src = f.source()
	var allLabels []string
	var collect func(l []*irStmt)
	collect = func(l []*irStmt) {
		for _, s := range l {
			if s.K == "labeled" {
				allLabels = append(allLabels, s.Label)
			}
			collect(s.Body)
			if s.Else != nil {
				collect([]*irStmt{s.Else})
			}
			for _, cl := range s.Clauses {
				collect(cl.Body)
			}
		}
	}
	collect(f.Body)
	scopes := map[*types.Scope]int{}
	fns := map[*gogen.Func]int{}
	var b *irBuild
	after := func(op string) {
		cb := b.cb
		sc := cb.Scope()
		if _, ok := scopes[sc]; !ok {
			scopes[sc] = len(scopes)
		}
		fid := 0
		if fn := cb.Func(); fn != nil {
			if _, ok := fns[fn]; !ok {
				fns[fn] = len(fns) + 1
			}
			fid = fns[fn]
		}
		nl := 0
		for _, name := range allLabels {
			if _, ok := cb.LookupLabel(name); ok {
				nl++
			}
		}
		c.Obs = append(c.Obs, c16Obs{Op: op, Stk: cb.InternalStack().Len(), Scope: scopes[sc], Fn: fid, NLab: nl, VB: cb.InVBlock()})
	}
	b = newIRBuild(nil)
	scopes[b.cb.Scope()] = 0
	// "whichever files are current": the current file is switched between operations (a function of
	// the source text, so a case replays exactly); no operation may change it, and the machine state
	// is compared after every operation as before (C16.Files: file switches commute with every step)
	fseed := uint32(2166136261)
	for i := 0; i < len(c.Src); i++ {
		fseed = (fseed ^ uint32(c.Src[i])) * 16777619
	}
	curFile := ""
	plain := after
	after = func(op string) {
		if curFile != "" && b.pkg.CurFile().Name() != curFile {
			unbalanced = append(unbalanced, fmt.Sprintf("current file changed by %s: %s, was set to %s", op, b.pkg.CurFile().Name(), curFile))
			curFile = b.pkg.CurFile().Name()
		}
		plain(op)
		fseed = fseed*1664525 + 1013904223
		if fseed>>28 < 5 { // switch before about a third of the operations
			curFile = fmt.Sprintf("file%d.go", (fseed>>20)%3)
			b.pkg.SetCurFile(curFile, true)
		}
	}
	b.after = after
	b.labelNames = allLabels
	b.balance = func(kind string, ok bool) {
		if !ok {
			unbalanced = append(unbalanced, kind)
		}
	}
	defer func() {
		if e := recover(); e != nil {
			c.Fault = fmt.Sprint(e)
		}
	}()
	b.buildFunc(f)
	// the pending label of a block is part of the saved block context: every label placed by Label must be a
	// labelled statement of the emitted code, also when it is the last operation before its block is closed
	nLabel := 0
	for _, o := range c.Obs {
		if o.Op == "Label" {
			nLabel++
		}
	}
	var buf bytes.Buffer
	if err := b.pkg.WriteTo(&buf); err == nil {
		if af, err := parser.ParseFile(token.NewFileSet(), "out.go", buf.Bytes(), parser.SkipObjectResolution); err == nil {
			got := 0
			ast.Inspect(af, func(n ast.Node) bool {
				if l, ok := n.(*ast.LabeledStmt); ok && !strings.HasPrefix(l.Label.Name, "_autoGo") {
					got++
				}
				return true
			})
			if got != nLabel {
				unbalanced = append(unbalanced, fmt.Sprintf("labels: %d placed by Label, %d labelled statements in the emitted code", nLabel, got))
			}
		}
	}
	return
}

func (c c16Case) coq() string {
	placed := map[string]bool{}
	// labels whose NewLabel failed (duplicates) are never placed: same rule as irBuild
	body := c16List(c.Fn.Body, placed, c.Fn.Results > 0)
	obs := make([]string, len(c.Obs))
	for i, o := range c.Obs {
		code, ok := c16OpCode[o.Op]
		if !ok {
			panic("c16: unknown op " + o.Op)
		}
		obs[i] = fmt.Sprintf("(%s, %d, %d, %d, %d)", code, o.Stk, o.Scope, o.Fn, o.NLab)
	}
	var defs, uses []string
	labelEvents(c.Fn.Body, &defs, &uses)
	return fmt.Sprintf("mkCase %d %s %s", len(defs), body, coqList(obs))
}

func runC16(a *runArgs) error {
	n, depth := 500, 5
	if a.Tier == "thorough" {
		n, depth = 12000, 9
	}
	irImporter = importer.ForCompiler(token.NewFileSet(), "source", nil)
	r := rand.New(rand.NewSource(a.Seed))
	cw := newCaseWriter(a.Out, "C16", "From GV Require Import C16.Model C16.Check.", "c16case", 100, "k1_bad cases")
	cl := newCaseLog(a.Out)
	defer cl.close()
	m := &meta{Property: "C16", Seed: a.Seed, Tier: a.Tier, PerShard: 100,
		Strata: map[string]int{}, Dist: map[string]int{}, Known: map[string]int{},
		Rule: "random well-nested function bodies (all block-forming constructs incl. closures, initialisers, labels) built through the real CodeBuilder; after every operation stack length, scope identity, current function are compared with the Coq machine; distinct = distinct bodies; non-trivial = nesting depth >= 2"}
	distinct := map[string]bool{}
	var replay []*irFunc
	if a.Replay != "" {
		var rp struct {
			Replay c16Case `json:"replay"`
		}
		if err := readJSON(a.Replay, &rp); err != nil {
			return err
		}
		replay = append(replay, rp.Replay.Fn)
		n = 1
	}
	for i := 0; i < n; i++ {
		var f *irFunc
		if replay != nil {
			f = replay[i]
		} else {
			d := 1 + r.Intn(depth)
			if i%10 == 0 {
				d = depth
			}
			f = genIRFuncWith(&irGen{r: r, maxDepth: d, closureLabels: true, allowInline: true, noDupLabels: true, allowVBlock: true}, "F", d)
		}
		c, unb := runC16One(f)
		m.DirectRuns += len(c.Obs)
		if c.Fault != "" {
			m.Direct = append(m.Direct, directViolation{Case: i, What: "builder fault in a well-nested history: " + c.Fault, Replay: c})
			// still emit what was observed so far
		}
		if len(unb) > 0 {
			m.Direct = append(m.Direct, directViolation{Case: i, What: fmt.Sprintf("statement(s) %v did not restore stack length / scope / current function / label context", unb), Replay: c})
		}
		term := c.coq()
		cw.add(term)
		cl.add(c)
		maxd := 0
		for _, o := range c.Obs {
			m.Dist[o.Op]++
			if o.Scope > maxd {
				maxd = o.Scope
			}
		}
		if !distinct[term] && maxd >= 3 {
			distinct[term] = true
		}
		m.Strata[fmt.Sprintf("ops<%d", (len(c.Obs)/50+1)*50)]++
		if len(m.Samples) < 2 {
			m.Samples = append(m.Samples, map[string]any{"source": c.Src, "first_observations": c.Obs[:min(25, len(c.Obs))]})
		}
	}
	cw.flush()
	m.Cases = n
	m.Distinct = len(distinct)
	m.Files = cw.files
	return writeJSON(filepath.Join(a.Out, "meta.json"), m)
}
