package main

// C05 — AssignableConv / ComparableTo / ConvertibleTo / Default on a closed
// universe of types and constants at every boundary, against the Coq model
// (K1) and against go/types on one-statement programs (K2 / direct oracle).

import (
	"fmt"
	"go/ast"
	"go/constant"
	"go/importer"
	"go/parser"
	"go/token"
	"go/types"
	"math/big"
	"path/filepath"
	"strings"

	"github.com/goplus/gogen"
)

func init() { register("C05", runC05) }

const c05Decls = `package p
import "unsafe"
type NBool bool
type NInt int
type NInt8 int8
type NUint8 uint8
type NUint64 uint64
type NFloat32 float32
type NFloat64 float64
type NComplex64 complex64
type NString string
type NUPtr unsafe.Pointer
type NSlice []int
type NPtr *int
type NIface interface{ M() }
type NEmpty interface{}
type NStruct struct{ A int }
type NFunc func()
type NMap map[string]int
type NChan chan int
type AInt = int
`

type c05Type struct {
	Src   string // Go source of the type
	Coq   string // tyc term
	T     types.Type
	Basic bool
}

type c05Val struct {
	Src  string // Go expression
	Kind string // const | var
	VT   *c05Type
	// for constants: built through the real builder
	build func(cb *gogen.CodeBuilder)
}

func c05Types() []*c05Type {
	var ts []*c05Type
	add := func(src, coq string) { ts = append(ts, &c05Type{Src: src, Coq: coq}) }
	basics := []string{"", "bool", "int", "int8", "int16", "int32", "int64", "uint", "uint8", "uint16", "uint32", "uint64", "uintptr", "float32", "float64", "complex64", "complex128", "string", "unsafe.Pointer"}
	for k := 1; k <= 18; k++ {
		add(basics[k], fmt.Sprintf("TB %d%%N false", k))
	}
	named := map[string]int{"NBool": 1, "NInt": 2, "NInt8": 3, "NUint8": 8, "NUint64": 11, "NFloat32": 13, "NFloat64": 14, "NComplex64": 15, "NString": 17, "NUPtr": 18}
	for _, n := range []string{"NBool", "NInt", "NInt8", "NUint8", "NUint64", "NFloat32", "NFloat64", "NComplex64", "NString", "NUPtr"} {
		add(n, fmt.Sprintf("TB %d%%N true", named[n]))
	}
	add("interface{}", "TO OEmptyIface false")
	add("interface{ M() }", "TO OIface false")
	add("[]int", "TO OSlice false")
	add("*int", "TO OPtr false")
	add("map[string]int", "TO OMap false")
	add("func()", "TO OFunc false")
	add("chan int", "TO OChan false")
	add("struct{ A int }", "TO OStruct false")
	add("[2]int", "TO OArray false")
	add("NSlice", "TO OSlice true")
	add("NPtr", "TO OPtr true")
	add("NIface", "TO OIface true")
	add("NEmpty", "TO OEmptyIface true")
	add("NStruct", "TO OStruct true")
	add("NFunc", "TO OFunc true")
	add("NMap", "TO OMap true")
	add("NChan", "TO OChan true")
	add("AInt", "TB 2%N false") // alias of int: realType unaliases
	return ts
}

type c05Const struct {
	Src  string
	Make func(cb *gogen.CodeBuilder)
}

func lit(kind token.Token, v string) func(cb *gogen.CodeBuilder) {
	return func(cb *gogen.CodeBuilder) { cb.Val(&ast.BasicLit{Kind: kind, Value: v}) }
}

func c05Consts() []c05Const {
	var cs []c05Const
	addInt := func(v *big.Int) {
		s := v.String()
		if v.Sign() < 0 {
			abs := new(big.Int).Neg(v).String()
			cs = append(cs, c05Const{"(" + s + ")", func(cb *gogen.CodeBuilder) {
				cb.Val(&ast.BasicLit{Kind: token.INT, Value: abs}).UnaryOp(token.SUB)
			}})
		} else {
			cs = append(cs, c05Const{s, lit(token.INT, s)})
		}
	}
	seen := map[string]bool{}
	one := big.NewInt(1)
	for _, bits := range []uint{7, 8, 15, 16, 31, 32, 63, 64, 128} {
		p := new(big.Int).Lsh(one, bits)
		for _, v := range []*big.Int{p, new(big.Int).Sub(p, one), new(big.Int).Add(p, one), new(big.Int).Neg(p), new(big.Int).Sub(new(big.Int).Neg(p), one)} {
			if !seen[v.String()] {
				seen[v.String()] = true
				addInt(v)
			}
		}
	}
	for _, v := range []int64{0, 1, -1, 2, 300} {
		if !seen[fmt.Sprint(v)] {
			addInt(big.NewInt(v))
		}
	}
	for _, f := range []string{"0.0", "2.0", "2.5", "0.5", "256.0", "1e30", "3.4e38", "3.5e38", "1e39", "1.7e308", "1.8e308", "1e400", "340282346638528859811704183484516925440.0", "340282356779733661637539395458142568448.0"} {
		cs = append(cs, c05Const{f, lit(token.FLOAT, f)})
		cs = append(cs, c05Const{"(-" + f + ")", func(cb *gogen.CodeBuilder) { cb.Val(&ast.BasicLit{Kind: token.FLOAT, Value: f}).UnaryOp(token.SUB) }})
	}
	for _, im := range []string{"0i", "2i", "1e39i"} {
		cs = append(cs, c05Const{im, lit(token.IMAG, im)})
	}
	for _, re := range []string{"1", "2.5", "300", "1e39", "1e400"} {
		for _, im := range []string{"0i", "2i"} {
			kind := token.INT
			if strings.ContainsAny(re, ".e") {
				kind = token.FLOAT
			}
			cs = append(cs, c05Const{"(" + re + " + " + im + ")", func(cb *gogen.CodeBuilder) {
				cb.Val(&ast.BasicLit{Kind: kind, Value: re}).Val(&ast.BasicLit{Kind: token.IMAG, Value: im}).BinaryOp(token.ADD)
			}})
		}
	}
	cs = append(cs, c05Const{"'a'", lit(token.CHAR, "'a'")}, c05Const{"'\\U0010FFFF'", lit(token.CHAR, "'\\U0010FFFF'")},
		c05Const{`"s"`, lit(token.STRING, `"s"`)}, c05Const{`""`, lit(token.STRING, `""`)},
		c05Const{"true", func(cb *gogen.CodeBuilder) { cb.Val(true) }}, c05Const{"false", func(cb *gogen.CodeBuilder) { cb.Val(false) }},
		c05Const{"nil", func(cb *gogen.CodeBuilder) { cb.Val(nil) }})
	return cs
}

func coqQ(r *big.Rat) string {
	n, d := r.Num(), r.Denom()
	ns := n.String()
	if n.Sign() < 0 {
		ns = "(" + ns + ")"
	}
	return fmt.Sprintf("(%s # %s)%%Q", ns, d.String())
}

func ratOf(v constant.Value) *big.Rat {
	switch x := constant.Val(v).(type) {
	case int64:
		return new(big.Rat).SetInt64(x)
	case *big.Int:
		return new(big.Rat).SetInt(x)
	case *big.Rat:
		return x
	case *big.Float:
		r, _ := x.Rat(nil)
		return r
	}
	return nil
}

// coqCVal encodes a go/constant value (kind + exact value) as a cval term
func coqCVal(v constant.Value) string {
	if v == nil {
		return "None"
	}
	switch v.Kind() {
	case constant.Bool:
		return "(Some (CBool " + coqBool(constant.BoolVal(v)) + "))"
	case constant.String:
		return "(Some (CStr " + coqBytes(constant.StringVal(v)) + "))"
	case constant.Int:
		return "(Some (CInt " + coqZ(v.ExactString()) + "))"
	case constant.Float:
		r := ratOf(v)
		if r == nil {
			return "None"
		}
		return "(Some (CFloat " + coqQ(r) + "))"
	case constant.Complex:
		re, im := ratOf(constant.Real(v)), ratOf(constant.Imag(v))
		if re == nil || im == nil {
			return "None"
		}
		return "(Some (CComplex " + coqQ(re) + " " + coqQ(im) + "))"
	}
	return "None"
}

func coqTyc(pool []*c05Type, t types.Type) string {
	t = types.Unalias(t)
	if b, ok := t.(*types.Basic); ok {
		return fmt.Sprintf("(TB %d%%N false)", int(b.Kind()))
	}
	for _, p := range pool {
		if types.Identical(types.Unalias(p.T), t) {
			return "(" + p.Coq + ")"
		}
	}
	return "(TO OStruct false)"
}

func resCoq(ok bool, fault bool) string {
	if fault {
		return "Fault"
	}
	return "(Ok " + coqBool(ok) + ")"
}

// accepted runs go/types on decls + one statement per line and returns, per line, whether it was accepted
func goTypesLines(decls string, lines []string) ([]bool, error) {
	src := decls + "func _() {\n"
	first := strings.Count(src, "\n") + 1
	src += strings.Join(lines, "\n") + "\n}\n"
	fset := token.NewFileSet()
	f, err := parser.ParseFile(fset, "p.go", src, 0)
	if err != nil {
		return nil, fmt.Errorf("%v", err)
	}
	bad := map[int]bool{}
	conf := types.Config{Importer: importer.Default(), Error: func(e error) {
		if te, ok := e.(types.Error); ok {
			if strings.Contains(te.Msg, "declared and not used") {
				return
			}
			bad[fset.Position(te.Pos).Line] = true
		}
	}}
	conf.Check("p", fset, []*ast.File{f}, nil)
	res := make([]bool, len(lines))
	for i := range lines {
		res[i] = !bad[first+i]
	}
	return res, nil
}

type c05Case struct {
	Kind string `json:"kind"` // assign | compare | convert | default
	V    string `json:"v"`
	T    string `json:"t"`
	Obs  string `json:"observed"`
	Ref  bool   `json:"reference"`
	Line string `json:"program"`
}

func runC05(a *runArgs) error {
	imp := importer.ForCompiler(token.NewFileSet(), "source", nil)
	conf := &gogen.Config{Fset: token.NewFileSet(), Importer: imp}
	pkg := gogen.NewPackage("", "p", conf)
	// the universe lives in a go/types package checked from source; gogen only needs the types
	fset := token.NewFileSet()
	af, err := parser.ParseFile(fset, "decls.go", c05Decls, 0)
	if err != nil {
		return err
	}
	tconf := types.Config{Importer: importer.Default()}
	tpkg, err := tconf.Check("p", fset, []*ast.File{af}, nil)
	if err != nil {
		return err
	}
	pool := c05Types()
	for _, t := range pool {
		tv, err := types.Eval(fset, tpkg, af.Decls[len(af.Decls)-1].End(), t.Src)
		if err != nil {
			return fmt.Errorf("type %s: %v", t.Src, err)
		}
		t.T = tv.Type
	}
	consts := c05Consts()
	cb := pkg.CB()
	type val struct {
		src  string
		elem *gogen.Element
	}
	var vals []val
	for _, c := range consts {
		e, ok := func() (e gogen.Element, ok bool) {
			defer func() {
				if recover() != nil { // e.g. unary minus of a > 64-bit literal without big-number types (a C17 finding)
					cb.InternalStack().SetLen(0)
				}
			}()
			c.Make(cb)
			e = *cb.Get(-1)
			cb.InternalStack().PopN(1)
			return e, true
		}()
		if !ok { // build the operand by hand: expression, untyped type, exact value
			tv, err := types.Eval(fset, tpkg, token.NoPos, c.Src)
			if err != nil || tv.Value == nil {
				continue
			}
			x, _ := parser.ParseExpr(c.Src)
			e = gogen.Element{Val: x, Type: tv.Type, CVal: tv.Value}
		}
		vals = append(vals, val{c.Src, &e})
	}
	nConst := len(vals)
	for i, t := range pool { // typed, non-constant operands
		vals = append(vals, val{fmt.Sprintf("x%d", i), &gogen.Element{Val: ast.NewIdent(fmt.Sprintf("x%d", i)), Type: t.T}})
	}
	decls := c05Decls
	for i, t := range pool {
		decls += fmt.Sprintf("var x%d %s\n", i, t.Src)
	}

	cw := newCaseWriter(a.Out, "C05", "From Coq Require Import QArith.\nFrom GV Require Import Go.Kinds C05.Model C05.Check.\nClose Scope Q_scope.", "c05case", 400,
		"k1_bad cases", "k2_bad cases", "dev_list cases")
	cl := newCaseLog(a.Out)
	defer cl.close()
	m := &meta{Property: "C05", Seed: a.Seed, Tier: a.Tier, PerShard: 400,
		Strata: map[string]int{}, Dist: map[string]int{}, Known: map[string]int{},
		Rule: "grid (seed independent): every constant of the boundary set (all integer-type boundaries +-1, floats around the float32/float64 limits, complex, rune, string, bool, nil) and one variable of every universe type, crossed with every universe type as target (assignability), with each other (comparability), every ordered type pair (convertibility), every type (default); distinct = distinct (operand, target) pairs; all are non-trivial"}
	idx := 0
	call := func(f func() bool) (ok, fault bool) {
		defer func() {
			if e := recover(); e != nil {
				fault = true
			}
		}()
		return f(), false
	}
	untypedInt := types.Typ[types.UntypedInt]
	emit := func(term string, c c05Case) {
		cw.add(term)
		cl.add(c)
		m.Strata[c.Kind]++
		m.Dist[c.Kind+":"+c.Obs]++
		if len(m.Samples) < 4 && idx%977 == 5 {
			m.Samples = append(m.Samples, c)
		}
		idx++
	}
	// ---- assignability ----
	var lines []string
	for _, v := range vals {
		for _, t := range pool {
			lines = append(lines, fmt.Sprintf("var _ %s = %s", t.Src, v.src))
		}
	}
	acc, err := goTypesLines(decls, lines)
	if err != nil {
		return err
	}
	li := 0
	for vi, v := range vals {
		for _, t := range pool {
			e := *v.elem
			ok, fault := call(func() bool { return gogen.AssignableConv(pkg, e.Type, t.T, &e) })
			ta := types.AssignableTo(types.Unalias(v.elem.Type), types.Unalias(t.T))
			taInt := types.AssignableTo(untypedInt, types.Unalias(t.T))
			isConst := vi < nConst
			c := c05Case{Kind: "assign", V: v.src, T: t.Src, Obs: resCoq(ok, fault), Ref: acc[li], Line: lines[li]}
			term := fmt.Sprintf("CAssign %s (%s) %s %s %s %s %s %s", coqTyc(pool, v.elem.Type), t.Coq, coqCVal(v.elem.CVal),
				coqBool(ta), coqBool(taInt), c.Obs, coqBool(acc[li]), coqBool(isConst))
			m.DirectRuns++
			emit(term, c)
			li++
		}
	}
	// ---- comparability ----
	lines = lines[:0]
	step := 1
	cstep := 2
	if a.Tier != "thorough" {
		step, cstep = 11, 5
	}
	type pr struct{ i, j int }
	var prs []pr
	for i := range vals {
		for j := range vals {
			if (i*31+j)%step == 0 || i < nConst && j < nConst && (i+j)%cstep == 0 {
				prs = append(prs, pr{i, j})
				lines = append(lines, fmt.Sprintf("_ = %s == %s", vals[i].src, vals[j].src))
			}
		}
	}
	acc, err = goTypesLines(decls, lines)
	if err != nil {
		return err
	}
	for k, p := range prs {
		v, w := *vals[p.i].elem, *vals[p.j].elem
		ok, fault := call(func() bool { return gogen.ComparableTo(pkg, &v, &w) })
		// the symmetric call
		v2, w2 := *vals[p.i].elem, *vals[p.j].elem
		ok2, fault2 := call(func() bool { return gogen.ComparableTo(pkg, &w2, &v2) })
		V, T := types.Unalias(vals[p.i].elem.Type), types.Unalias(vals[p.j].elem.Type)
		same := V.Underlying() == T.Underlying()
		c := c05Case{Kind: "compare", V: vals[p.i].src, T: vals[p.j].src, Obs: resCoq(ok, fault), Ref: acc[k], Line: lines[k]}
		term := fmt.Sprintf("CCompare %s %s %s %s %s %s %s %s %s %s %s %s", coqTyc(pool, V), coqTyc(pool, T),
			coqCVal(vals[p.i].elem.CVal), coqCVal(vals[p.j].elem.CVal), coqBool(same),
			coqBool(types.AssignableTo(V, T)), coqBool(types.AssignableTo(untypedInt, T)),
			coqBool(types.AssignableTo(T, V)), coqBool(types.AssignableTo(untypedInt, V)),
			c.Obs, resCoq(ok2, fault2), coqBool(acc[k]))
		m.DirectRuns++
		emit(term, c)
	}
	// ---- convertibility ----
	lines = lines[:0]
	for i := range pool {
		for _, t := range pool {
			lines = append(lines, fmt.Sprintf("_ = (%s)(x%d)", t.Src, i))
		}
	}
	acc, err = goTypesLines(decls, lines)
	if err != nil {
		return err
	}
	li = 0
	for _, vt := range pool {
		for _, t := range pool {
			ok, fault := call(func() bool { return gogen.ConvertibleTo(pkg, vt.T, t.T) })
			tc := types.ConvertibleTo(vt.T, t.T)
			c := c05Case{Kind: "convert", V: vt.Src, T: t.Src, Obs: resCoq(ok, fault), Ref: acc[li], Line: lines[li]}
			term := fmt.Sprintf("CConvert (%s) (%s) %s %s %s", vt.Coq, t.Coq, coqBool(tc), c.Obs, coqBool(acc[li]))
			m.DirectRuns++
			if !fault && ok != acc[li] {
				m.Direct = append(m.Direct, directViolation{Case: idx, What: fmt.Sprintf("ConvertibleTo(%s, %s) = %v but go/types %v", vt.Src, t.Src, ok, acc[li]), Replay: c})
			}
			emit(term, c)
			li++
		}
	}
	// ---- default types ----
	for k := 1; k <= 25; k++ {
		bt := types.Typ[k]
		d := gogen.Default(pkg, bt)
		want := types.Default(bt)
		c := c05Case{Kind: "default", V: bt.String(), T: d.String(), Obs: d.String(), Ref: types.Identical(d, want)}
		dk := 0
		if b, ok := d.(*types.Basic); ok {
			dk = int(b.Kind())
		}
		wk := 0
		if b, ok := want.(*types.Basic); ok {
			wk = int(b.Kind())
		}
		emit(fmt.Sprintf("CDefault %d%%N %d%%N %d%%N", k, dk, wk), c)
	}
	cw.flush()
	m.Cases = idx
	m.Distinct = idx
	m.Files = cw.files
	m.Notes = append(m.Notes, "deviations of the implementation from go/types are classified inside Coq (dev_list) and matched against known_findings.jsonl by the driver")
	return writeJSON(filepath.Join(a.Out, "meta.json"), m)
}
