package main

// C10 — missing-return and label diagnostics.
//  stream A: random bodies built through the real CodeBuilder (Func.End,
//            panic tracking, label bookkeeping) vs the Coq model vs go/types;
//  stream B: the terminating analysis itself (verif hook) on parsed bodies:
//            generated sources and standard-library functions.

import (
	"fmt"
	"go/ast"
	"go/importer"
	"go/parser"
	"go/token"
	"go/types"
	"math/rand"
	"os"
	"path/filepath"
	"regexp"
	"runtime"
	"sort"
	"strings"

	"github.com/goplus/gogen"
)

func init() { register("C10", runC10) }

var (
	reUnused = regexp.MustCompile(`label (\S+) (?:declared|defined) and not used`)
	reDup    = regexp.MustCompile(`label (\S+) already (?:declared|defined)`)
)

type c10Diag struct {
	Missing int      `json:"missing"`
	Unused  []string `json:"unused"`
	Dups    []string `json:"dups"`
	Fault   string   `json:"fault,omitempty"`
}

func diagOf(msgs []string) c10Diag {
	var d c10Diag
	for _, m := range msgs {
		if strings.Contains(m, "missing return") {
			d.Missing++
		}
		if x := reUnused.FindStringSubmatch(m); x != nil {
			d.Unused = append(d.Unused, x[1])
		}
		if x := reDup.FindStringSubmatch(m); x != nil {
			d.Dups = append(d.Dups, x[1])
		}
	}
	sort.Strings(d.Unused)
	sort.Strings(d.Dups)
	return d
}

func (d c10Diag) coq() string {
	f := func(l []string) string {
		it := make([]string, len(l))
		for i, x := range l {
			it[i] = lblNum(x)
		}
		return coqList(it)
	}
	return fmt.Sprintf("(%d, %s, %s)", d.Missing, f(d.Unused), f(d.Dups))
}

func (d c10Diag) eq(e c10Diag) bool {
	return d.Missing == e.Missing && fmt.Sprint(d.Unused) == fmt.Sprint(e.Unused) && fmt.Sprint(d.Dups) == fmt.Sprint(e.Dups)
}

func goTypesDiag(src string) (c10Diag, error) {
	fset := token.NewFileSet()
	f, err := parser.ParseFile(fset, "p.go", src, 0)
	if err != nil {
		return c10Diag{}, err
	}
	var msgs []string
	conf := types.Config{Error: func(e error) { msgs = append(msgs, e.Error()) }}
	conf.Check("main", fset, []*ast.File{f}, nil)
	return diagOf(msgs), nil
}

func builderDiag(f *irFunc) (d c10Diag) {
	b := newIRBuild(nil)
	defer func() {
		if e := recover(); e != nil {
			d = diagOf(b.errs)
			d.Fault = fmt.Sprint(e)
		}
	}()
	b.buildFunc(f)
	return diagOf(b.errs)
}

type c10CaseA struct {
	Fn      *irFunc `json:"fn"`
	Obs     c10Diag `json:"observed"`
	Ref     c10Diag `json:"reference"`
	Src     string  `json:"source"`
	Stratum string  `json:"stratum"`
}

func (c c10CaseA) coq() string {
	var cls []*irStmt
	collectClosures(c.Fn.Body, &cls)
	funcs := []string{fmt.Sprintf("(%d, %s)", c.Fn.Results, c10List(c.Fn.Body, !c.Fn.ShadowPanic))}
	for _, cl := range cls {
		// a parameter named panic of the enclosing function is in scope inside its closures too
		funcs = append(funcs, fmt.Sprintf("(%d, %s)", cl.Results, c10List(cl.Body, !c.Fn.ShadowPanic)))
	}
	var defs, uses []string
	labelEvents(c.Fn.Body, &defs, &uses)
	var evs []string
	for _, d := range defs {
		evs = append(evs, "LDefine "+lblNum(d))
	}
	for _, u := range uses {
		evs = append(evs, "LUse "+lblNum(u))
	}
	return fmt.Sprintf("CBuild %s %s %s %s", coqList(funcs), coqList(evs), c.Obs.coq(), c.Ref.coq())
}

// ---- stream B: ast -> model syntax ----

type c10Enc struct {
	labels  map[string]int
	tracked map[*ast.CallExpr]bool
}

func (e *c10Enc) lbl(id *ast.Ident) string {
	if id == nil {
		return "None"
	}
	n, ok := e.labels[id.Name]
	if !ok {
		n = len(e.labels) + 1
		e.labels[id.Name] = n
	}
	return fmt.Sprintf("(Some %d%%N)", n)
}

func (e *c10Enc) list(l []ast.Stmt) string {
	s := "SNil"
	for i := len(l) - 1; i >= 0; i-- {
		s = "(SCons " + e.stmt(l[i]) + " " + s + ")"
	}
	return s
}

func (e *c10Enc) clauses(l []ast.Stmt) string {
	s := "CNil"
	for i := len(l) - 1; i >= 0; i-- {
		switch c := l[i].(type) {
		case *ast.CaseClause:
			s = "(CCons " + coqBool(c.List == nil) + " " + e.list(c.Body) + " " + s + ")"
		case *ast.CommClause:
			s = "(CCons " + coqBool(c.Comm == nil) + " " + e.list(c.Body) + " " + s + ")"
		}
	}
	return s
}

func (e *c10Enc) stmt(s ast.Stmt) string {
	switch s := s.(type) {
	case *ast.EmptyStmt:
		return "SEmpty"
	case *ast.RangeStmt:
		return "(SRange " + e.list(s.Body.List) + ")"
	case *ast.LabeledStmt:
		l := e.lbl(s.Label)
		return "(SLabeled " + l[6:len(l)-1] + " " + e.stmt(s.Stmt) + ")"
	case *ast.ExprStmt:
		x := s.X
		for {
			p, ok := x.(*ast.ParenExpr)
			if !ok {
				break
			}
			x = p.X
		}
		if c, ok := x.(*ast.CallExpr); ok && e.tracked[c] {
			return "(SExpr true)"
		}
		return "(SExpr false)"
	case *ast.ReturnStmt:
		return "SReturn"
	case *ast.BranchStmt:
		tok := map[token.Token]string{token.BREAK: "BBreak", token.CONTINUE: "BContinue", token.GOTO: "BGoto", token.FALLTHROUGH: "BFallthrough"}[s.Tok]
		return "(SBranch " + tok + " " + e.lbl(s.Label) + ")"
	case *ast.BlockStmt:
		return "(SBlock " + e.list(s.List) + ")"
	case *ast.IfStmt:
		if s.Else == nil {
			return "(SIf " + e.list(s.Body.List) + " false SEmpty)"
		}
		return "(SIf " + e.list(s.Body.List) + " true " + e.stmt(s.Else) + ")"
	case *ast.SwitchStmt:
		return "(SSwitch " + e.clauses(s.Body.List) + ")"
	case *ast.TypeSwitchStmt:
		return "(STypeSwitch " + e.clauses(s.Body.List) + ")"
	case *ast.SelectStmt:
		return "(SSelect " + e.clauses(s.Body.List) + ")"
	case *ast.ForStmt:
		return "(SFor " + coqBool(s.Cond != nil) + " " + e.list(s.Body.List) + ")"
	}
	return "SOther"
}

type c10CaseB struct {
	Where   string `json:"where"`
	Src     string `json:"source,omitempty"`
	Obs     bool   `json:"observed_terminating"`
	HasRef  bool   `json:"has_reference"`
	RefMiss bool   `json:"reference_missing_return"`
	coqTerm string
}

func trackedSyntactic(body *ast.BlockStmt) (map[*ast.CallExpr]bool, []*ast.CallExpr) {
	m := map[*ast.CallExpr]bool{}
	var l []*ast.CallExpr
	ast.Inspect(body, func(n ast.Node) bool {
		if c, ok := n.(*ast.CallExpr); ok {
			if id, ok := c.Fun.(*ast.Ident); ok && id.Name == "panic" && id.Obj == nil {
				m[c] = true
				l = append(l, c)
			}
		}
		return true
	})
	return m, l
}

func c10BodyCase(where string, body *ast.BlockStmt, tracked map[*ast.CallExpr]bool, calls []*ast.CallExpr) (c c10CaseB, fault string) {
	defer func() {
		if e := recover(); e != nil {
			fault = fmt.Sprint(e)
		}
	}()
	enc := &c10Enc{labels: map[string]int{}, tracked: tracked}
	c.Where = where
	c.coqTerm = enc.list(body.List)
	c.Obs = gogen.VerifIsTerminating(body.List, calls)
	return
}

// c10Grid: seed-independent two-level bodies — every outer breakable statement (labelled or not)
// x every inner wrapper x every branch kind, and every pair of terminators in if/else with
// closures / simple statements in front of them.
func c10Grid() []*irFunc {
	var out []*irFunc
	mk := func(body ...*irStmt) {
		out = append(out, &irFunc{Name: "F", Results: 1, Body: body})
	}
	st := func(k string) *irStmt { return &irStmt{K: k} }
	closure := func() *irStmt { return &irStmt{K: "closure", Body: []*irStmt{st("call")}} }
	terms := func() [][]*irStmt {
		return [][]*irStmt{
			{{K: "return", Ret: true}}, {st("panic")}, {{K: "for", Body: []*irStmt{st("call")}}},
			{st("call")}, {st("panic"), st("empty")}, {{K: "block", Body: []*irStmt{st("panic")}}},
		}
	}
	pres := func() [][]*irStmt { return [][]*irStmt{nil, {closure()}, {st("assign")}, {closure(), st("define")}} }
	for i := range terms() {
		for j := range terms() {
			for p := range pres() {
				for q := range pres() {
					if (p+q)%2 == 1 && (i+j)%2 == 1 {
						continue
					}
					th := append(append([]*irStmt{}, pres()[p]...), terms()[i]...)
					el := append(append([]*irStmt{}, pres()[q]...), terms()[j]...)
					for _, x := range th {
						if x.K == "define" {
							irVarCounter++
							x.Name = fmt.Sprintf("v%d", irVarCounter)
						}
					}
					for _, x := range el {
						if x.K == "define" {
							irVarCounter++
							x.Name = fmt.Sprintf("v%d", irVarCounter)
						}
					}
					mk(&irStmt{K: "if", Body: th, Else: &irStmt{K: "block", Body: el}})
				}
			}
		}
	}
	// breaks: outer x inner wrapper x branch
	inner := func(kind string, leaf *irStmt) *irStmt {
		switch kind {
		case "none":
			return leaf
		case "block":
			return &irStmt{K: "block", Body: []*irStmt{leaf}}
		case "if":
			return &irStmt{K: "if", Body: []*irStmt{leaf}}
		case "ifelse":
			return &irStmt{K: "if", Body: []*irStmt{st("call")}, Else: &irStmt{K: "block", Body: []*irStmt{leaf}}}
		case "for":
			return &irStmt{K: "for", HasCond: true, Body: []*irStmt{leaf}}
		case "forever":
			return &irStmt{K: "for", Body: []*irStmt{leaf}}
		case "range":
			return &irStmt{K: "range", Body: []*irStmt{leaf}}
		case "switch":
			return &irStmt{K: "switch", HasTag: true, Clauses: []irClause{{Body: []*irStmt{leaf}}, {Default: true, Body: []*irStmt{st("call")}}}}
		case "tswitch":
			return &irStmt{K: "tswitch", Clauses: []irClause{{Body: []*irStmt{leaf}}, {Default: true, Body: []*irStmt{{K: "return", Ret: true}}}}}
		case "select":
			return &irStmt{K: "select", Clauses: []irClause{{Body: []*irStmt{leaf}}, {Default: true, Body: []*irStmt{st("call")}}}}
		}
		panic(kind)
	}
	for _, outer := range []string{"for", "switch", "tswitch", "select"} {
		for _, labeled := range []bool{false, true} {
			for _, ik := range []string{"none", "block", "if", "ifelse", "for", "forever", "range", "switch", "tswitch", "select"} {
				for _, br := range []string{"break", "breakL", "continue", "continueL", "return", "panic", "call"} {
					loop := outer == "for"
					if (br == "continue" || br == "continueL") && !loop && ik != "for" && ik != "forever" && ik != "range" {
						continue
					}
					if (br == "breakL" || br == "continueL") && !labeled {
						continue
					}
					if br == "continueL" && !loop {
						continue
					}
					var leaf *irStmt
					switch br {
					case "break":
						leaf = st("break")
					case "breakL":
						leaf = &irStmt{K: "break", Label: "L1"}
					case "continue":
						leaf = st("continue")
					case "continueL":
						leaf = &irStmt{K: "continue", Label: "L1"}
					case "return":
						leaf = &irStmt{K: "return", Ret: true}
					default:
						leaf = st(br)
					}
					in := inner(ik, leaf)
					var o *irStmt
					switch outer {
					case "for":
						o = &irStmt{K: "for", Body: []*irStmt{in}}
					case "switch":
						o = &irStmt{K: "switch", Clauses: []irClause{{Body: []*irStmt{in, {K: "return", Ret: true}}}, {Default: true, Body: []*irStmt{st("panic")}}}}
					case "tswitch":
						o = &irStmt{K: "tswitch", Clauses: []irClause{{Default: true, Body: []*irStmt{in, {K: "return", Ret: true}}}}}
					default:
						o = &irStmt{K: "select", Clauses: []irClause{{Body: []*irStmt{in, {K: "return", Ret: true}}}, {Default: true, Body: []*irStmt{{K: "return", Ret: true}}}}}
					}
					if labeled {
						o = &irStmt{K: "labeled", Label: "L1", Body: []*irStmt{o}}
					}
					mk(o)
				}
			}
		}
	}
	return out
}

func runC10(a *runArgs) error {
	nA, depthA, nB, nStd := 500, 3, 300, 200
	if a.Tier == "thorough" {
		nA, depthA, nB, nStd = 14000, 5, 8000, 100000
	}
	irImporter = importer.ForCompiler(token.NewFileSet(), "source", nil)
	r := rand.New(rand.NewSource(a.Seed))
	cw := newCaseWriter(a.Out, "C10", "From GV Require Import C10.Model C10.Check.", "c10case", 250,
		"k1_bad cases", "k2_bad cases")
	cl := newCaseLog(a.Out)
	defer cl.close()
	m := &meta{Property: "C10", Seed: a.Seed, Tier: a.Tier, PerShard: 250,
		Strata: map[string]int{}, Dist: map[string]int{}, Known: map[string]int{},
		Rule: "stream A: random function bodies (nested if/for/range/switch/type switch/select/labels/branches/panic/closures) built through the real CodeBuilder, diagnostics vs model vs go/types on the source; stream B: the terminating analysis (verif hook) on the parsed generated sources and on standard-library function bodies; distinct = distinct model terms; non-trivial = body contains at least one compound statement"}
	distinct := map[string]bool{}
	idx := 0
	note := func(term string, nontrivial bool) {
		if nontrivial && !distinct[term] {
			distinct[term] = true
		}
	}
	var replayA []c10CaseA
	if a.Replay != "" {
		var rp struct {
			Replay c10CaseA `json:"replay"`
		}
		if err := readJSON(a.Replay, &rp); err != nil {
			return err
		}
		if rp.Replay.Fn != nil {
			replayA = append(replayA, rp.Replay)
		}
		nA, nB, nStd = len(replayA), 0, 0
	}
	// ---- stream A ----
	var grid []*irFunc
	if a.Replay == "" {
		grid = c10Grid()
		nA += len(grid)
	}
	for i := 0; i < nA; i++ {
		var f *irFunc
		if a.Replay != "" {
			f = replayA[i].Fn
		} else if i < len(grid) {
			f = grid[i]
		} else {
			f = genIRFunc(r, "F", 1+r.Intn(depthA))
		}
		src := f.source()
		ref, err := goTypesDiag(src)
		if err != nil {
			return fmt.Errorf("generated source does not parse: %v\n%s", err, src)
		}
		obs := builderDiag(f)
		c := c10CaseA{Fn: f, Obs: obs, Ref: ref, Src: src, Stratum: "builder"}
		m.DirectRuns++
		if len(ref.Dups) > 0 && obs.Fault == "" {
			// a redeclared label is an error of its own (label bookkeeping: C16); how the missing-return
			// analysis recovers after it is not part of the property: only the duplicates are compared
			m.Dist["A:dup-label"]++
			if fmt.Sprint(obs.Dups) != fmt.Sprint(ref.Dups) {
				m.Direct = append(m.Direct, directViolation{Case: idx, What: fmt.Sprintf("duplicate labels differ from go/types: builder %v, go/types %v", obs.Dups, ref.Dups), Replay: c})
			}
			continue
		}
		if obs.Fault != "" {
			m.Direct = append(m.Direct, directViolation{Case: idx, What: "builder fault on a function body: " + obs.Fault, Replay: c})
		} else if !obs.eq(ref) {
			m.Direct = append(m.Direct, directViolation{Case: idx, What: fmt.Sprintf("diagnostics differ from go/types: builder %+v, go/types %+v", obs, ref), Replay: c})
		}
		term := c.coq()
		cw.add(term)
		cl.add(c)
		note(term, strings.Contains(term, "SIf") || strings.Contains(term, "SFor") || strings.Contains(term, "SSwitch") || strings.Contains(term, "SSelect"))
		if i < len(grid) {
			m.Strata["A:grid"]++
		} else {
			m.Strata["A:builder"]++
		}
		m.Dist[fmt.Sprintf("A:missing=%d", min(obs.Missing, 2))]++
		if len(obs.Unused) > 0 {
			m.Dist["A:unused-label"]++
		}
		if len(obs.Dups) > 0 {
			m.Dist["A:dup-label"]++
		}
		if f.ShadowPanic {
			m.Dist["A:shadowed-panic"]++
		}
		if len(m.Samples) < 2 {
			m.Samples = append(m.Samples, map[string]any{"source": src, "builder": obs, "go/types": ref})
		}
		idx++
	}
	// ---- stream B1: generated sources, parsed ----
	if a.Replay == "" {
		nB += len(grid)
	}
	for i := 0; i < nB; i++ {
		var f *irFunc
		if i < len(grid) {
			f = grid[i]
		} else {
			f = genIRFunc(r, "F", 1+r.Intn(depthA+1))
		}
		f.Results = 1
		src := f.source()
		fset := token.NewFileSet()
		af, err := parser.ParseFile(fset, "p.go", src, 0)
		if err != nil {
			return err
		}
		info := &types.Info{Uses: map[*ast.Ident]types.Object{}}
		var msgs []string
		conf := types.Config{Error: func(e error) { msgs = append(msgs, e.Error()) }}
		conf.Check("main", fset, []*ast.File{af}, info)
		for _, d := range af.Decls {
			fd, ok := d.(*ast.FuncDecl)
			if !ok || fd.Name.Name != "F" {
				continue
			}
			tracked := map[*ast.CallExpr]bool{}
			var calls []*ast.CallExpr
			ast.Inspect(fd.Body, func(n ast.Node) bool {
				if c, ok := n.(*ast.CallExpr); ok {
					if id, ok := c.Fun.(*ast.Ident); ok && id.Name == "panic" {
						if _, ok := info.Uses[id].(*types.Builtin); ok {
							tracked[c] = true
							calls = append(calls, c)
						}
					}
				}
				return true
			})
			c, fault := c10BodyCase("generated", fd.Body, tracked, calls)
			c.Src = src
			// closures with results also report; the outer verdict is the one at the closing brace of F
			c.HasRef = true
			endLine := fset.Position(fd.Body.Rbrace).Line
			for _, msg := range msgs {
				if strings.Contains(msg, "missing return") && strings.HasPrefix(msg, fmt.Sprintf("p.go:%d:", endLine)) {
					c.RefMiss = true
				}
			}
			m.DirectRuns++
			if fault != "" {
				m.Direct = append(m.Direct, directViolation{Case: idx, What: "terminating analysis fault: " + fault, Replay: c})
			} else if c.Obs == c.RefMiss {
				m.Direct = append(m.Direct, directViolation{Case: idx, What: fmt.Sprintf("terminating analysis says %v but go/types missing-return is %v", c.Obs, c.RefMiss), Replay: c})
			}
			term := fmt.Sprintf("CBody %s %s %s %s", c.coqTerm, coqBool(c.Obs), coqBool(c.HasRef), coqBool(c.RefMiss))
			cw.add(term)
			cl.add(c)
			note(term, true)
			m.Strata["B:generated"]++
			m.Dist[fmt.Sprintf("B:terminating=%v", c.Obs)]++
			idx++
		}
	}
	// ---- stream B2: standard library function bodies ----
	if nStd > 0 {
		root := filepath.Join(runtime.GOROOT(), "src")
		dirs := []string{"strings", "bytes", "go/types", "go/parser", "go/printer", "net/http", "encoding/json", "text/template", "reflect", "sync", "os", "fmt", "strconv", "regexp/syntax", "go/ast", "math/big", "time", "bufio", "io", "sort"}
		cnt := 0
		for _, d := range dirs {
			if cnt >= nStd {
				break
			}
			files, _ := filepath.Glob(filepath.Join(root, d, "*.go"))
			sort.Strings(files)
			for _, fn := range files {
				if strings.HasSuffix(fn, "_test.go") || cnt >= nStd {
					continue
				}
				fset := token.NewFileSet()
				af, err := parser.ParseFile(fset, fn, nil, 0)
				if err != nil {
					continue
				}
				for _, dd := range af.Decls {
					fd, ok := dd.(*ast.FuncDecl)
					if !ok || fd.Body == nil || len(fd.Body.List) < 2 || cnt >= nStd {
						continue
					}
					if a.Tier != "thorough" && r.Intn(6) != 0 {
						continue
					}
					tracked, calls := trackedSyntactic(fd.Body)
					c, fault := c10BodyCase(fmt.Sprintf("%s:%s", strings.TrimPrefix(fn, root+"/"), fd.Name.Name), fd.Body, tracked, calls)
					m.DirectRuns++
					if fault != "" {
						m.Direct = append(m.Direct, directViolation{Case: idx, What: "terminating analysis fault: " + fault, Replay: c})
					}
					// the library compiles: a function with results must be terminating
					if fd.Type.Results != nil && len(fd.Type.Results.List) > 0 && !c.Obs && fault == "" {
						m.Direct = append(m.Direct, directViolation{Case: idx, What: "a compiling standard-library function with results is judged non-terminating: " + c.Where, Replay: c})
					}
					term := fmt.Sprintf("CBody %s %s false false", c.coqTerm, coqBool(c.Obs))
					cw.add(term)
					cl.add(c)
					note(term, true)
					m.Strata["B:stdlib"]++
					idx++
					cnt++
				}
			}
		}
	}
	cw.flush()
	m.Cases = idx
	m.Distinct = len(distinct)
	m.Files = cw.files
	_ = os.Stdout
	return writeJSON(filepath.Join(a.Out, "meta.json"), m)
}
