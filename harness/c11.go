package main

// C11 — language extensions lower to plain Go with the documented meaning.  Functions using the
// extensions are built through the real builder (file gen.go); for each one the documented
// desugaring is written as plain Go (file ref.go, functions R<n>); a main function runs both on the
// same inputs and prints every difference.  The program is type-checked with go/types and executed
// with `go run`.  Builtin-type methods are enumerated from the table in builtin.go (parsed from the
// source on every run).

import (
	"bytes"
	"fmt"
	"go/ast"
	"go/importer"
	"go/parser"
	"go/token"
	"go/types"
	"math/rand"
	"os"
	"os/exec"
	"path/filepath"
	"strconv"
	"strings"
	"time"

	"github.com/goplus/gogen"
)

func init() { register("C11", runC11) }

const c11Decls = `package main

type It1 struct {
	s []int
	i int
}

func (p *It1) Next() (int, bool) {
	if p.i < len(p.s) {
		v := p.s[p.i]
		p.i++
		return v, true
	}
	return 0, false
}

type C1 struct{ s []int }

func (c C1) XGo_Enum() *It1 { return &It1{s: c.s} }

type It2 struct {
	s []int
	i int
}

func (p *It2) Next() (int, int, bool) {
	if p.i < len(p.s) {
		v := p.s[p.i]
		p.i++
		return p.i - 1, v, true
	}
	return 0, 0, false
}

type C2 struct{ s []int }

func (c C2) XGo_Enum() *It2 { return &It2{s: c.s} }

type C3 struct{ s []int }

func (c C3) XGo_Enum() func(yield func(int) bool) {
	return func(yield func(int) bool) {
		for _, v := range c.s {
			if !yield(v) {
				return
			}
		}
	}
}

type C4 struct{ s []int }

func (c C4) XGo_Enum() func(yield func(int, int) bool) {
	return func(yield func(int, int) bool) {
		for i, v := range c.s {
			if !yield(i, v) {
				return
			}
		}
	}
}

type C5 []int // a named slice with its own enumerator: elements in reverse order

type It5 struct {
	s []int
	i int
}

func (p *It5) Next() (int, bool) {
	if p.i > 0 {
		p.i--
		return p.s[p.i], true
	}
	return 0, false
}

func (c C5) XGo_Enum() *It5 { return &It5{s: c, i: len(c)} }

type C6 int // a named integer with an iterator-function enumerator: the squares 1, 4, 9, ...

func (c C6) XGo_Enum() func(yield func(int) bool) {
	return func(yield func(int) bool) {
		for i := 1; i <= int(c); i++ {
			if !yield(i * i) {
				return
			}
		}
	}
}

type MI int8
type MS string

type Obj struct{ n string }

func (o *Obj) Name() string      { return o.n }
func (o *Obj) SetName(s string)  { o.n = s }
func (o *Obj) Size() int         { return len(o.n) }

func note(log *[]int, v int) int {
	*log = append(*log, v)
	return v
}
`

// ---- builtin-type method table, parsed from builtin.go ----

type c11BTI struct {
	Typ    string   `json:"type"`
	Method string   `json:"method"`
	Target string   `json:"target"` // strings.Count | len | cap
	Exargs []string `json:"extra_args"`
}

func c11ParseBTI(repo string) ([]c11BTI, error) {
	fset := token.NewFileSet()
	f, err := parser.ParseFile(fset, filepath.Join(repo, "builtin.go"), nil, 0)
	if err != nil {
		return nil, err
	}
	var out []c11BTI
	ast.Inspect(f, func(n ast.Node) bool {
		fd, ok := n.(*ast.FuncDecl)
		if !ok || fd.Name.Name != "initBuiltinTIs" {
			return true
		}
		ast.Inspect(fd.Body, func(n ast.Node) bool {
			cl, ok := n.(*ast.CompositeLit)
			if !ok {
				return true
			}
			typ := ""
			var methods *ast.CompositeLit
			for _, e := range cl.Elts {
				kv, ok := e.(*ast.KeyValueExpr)
				if !ok {
					continue
				}
				switch exprString(kv.Key) {
				case "typ":
					typ = exprString(kv.Value)
				case "methods":
					methods, _ = kv.Value.(*ast.CompositeLit)
				}
			}
			if typ == "" || methods == nil {
				return true
			}
			for _, me := range methods.Elts {
				m, ok := me.(*ast.CompositeLit)
				if !ok || len(m.Elts) != 3 {
					continue
				}
				name, _ := strconv.Unquote(exprString(m.Elts[0]))
				target := exprString(m.Elts[1])
				switch {
				case target == "btoLen":
					target = "len"
				case target == "btoCap":
					target = "cap"
				default: // strings.Ref("Count")
					if call, ok := m.Elts[1].(*ast.CallExpr); ok && len(call.Args) == 1 {
						fn, _ := strconv.Unquote(exprString(call.Args[0]))
						target = exprString(call.Fun.(*ast.SelectorExpr).X) + "." + fn
					}
				}
				var ex []string
				if ecl, ok := m.Elts[2].(*ast.CompositeLit); ok {
					for _, x := range ecl.Elts {
						ex = append(ex, exprString(x))
					}
				}
				out = append(out, c11BTI{Typ: typ, Method: name, Target: target, Exargs: ex})
			}
			return false
		})
		return false
	})
	if len(out) == 0 {
		return nil, fmt.Errorf("no builtin-type methods found in builtin.go")
	}
	return out, nil
}

// the documented desugaring of the builtin-type methods (type|method -> target and extra arguments)
var c11Documented = map[string]c11BTI{}

func init() {
	add := func(typ, method, target string, ex ...string) {
		c11Documented[typ+"|"+method] = c11BTI{Typ: typ, Method: method, Target: target, Exargs: ex}
	}
	const S = "types.Typ[types.String]"
	add("types.Typ[types.Float64]", "String", "strconv.FormatFloat", "'g'", "-1", "64")
	add("types.Typ[types.Int]", "String", "strconv.Itoa")
	add("types.Typ[types.Int64]", "String", "strconv.FormatInt", "10")
	add("types.Typ[types.Uint64]", "String", "strconv.FormatUint", "10")
	add(S, "Len", "len")
	add(S, "Int", "strconv.Atoi")
	add(S, "Int64", "strconv.ParseInt", "10", "64")
	add(S, "Uint64", "strconv.ParseUint", "10", "64")
	add(S, "Float", "strconv.ParseFloat", "64")
	add(S, "Quote", "strconv.Quote")
	add(S, "Unquote", "strconv.Unquote")
	for _, m := range []string{"Count", "Index", "IndexAny", "IndexByte", "IndexRune", "LastIndex", "LastIndexAny", "LastIndexByte", "Contains", "ContainsAny", "ContainsRune",
		"Compare", "EqualFold", "HasPrefix", "HasSuffix", "ToTitle", "ToUpper", "ToLower", "Fields", "Repeat", "Split", "SplitAfter", "SplitN", "SplitAfterN", "Replace", "ReplaceAll",
		"Trim", "TrimSpace", "TrimLeft", "TrimRight", "TrimPrefix", "TrimSuffix"} {
		add(S, m, "strings."+m)
	}
	add("types.NewSlice(types.Typ[types.String])", "Len", "len")
	add("types.NewSlice(types.Typ[types.String])", "Cap", "cap")
	add("types.NewSlice(types.Typ[types.String])", "Join", "strings.Join")
	add("tySlice", "Len", "len")
	add("tySlice", "Cap", "cap")
	add("tyChan", "Len", "len")
}

// ---- the program under construction ----

type c11Prog struct {
	pkg    *gogen.Package
	tpkg   *types.Package
	ref    strings.Builder // plain Go: R<n> functions
	main   strings.Builder // body of main: comparisons
	n      int
	r      *rand.Rand
	faults []directViolation
	descr  map[int]string
	m      *meta
	enums  map[int]c11Enum
	inl    map[int]int // function -> number of inline closure arguments
}

type c11Enum struct {
	skip, stop  int
	useRet, two bool
}

var c11EnumInputs = [][]int{{1, 2, 3, 4, 5, 6, 7}, {5, 0, 3}, {}, {7, 7, 1, 0, 2}}

func (p *c11Prog) typ(name string) types.Type { return p.tpkg.Scope().Lookup(name).Type() }

func (p *c11Prog) guard(what string, f func()) (ok bool) {
	defer func() {
		if e := recover(); e != nil {
			p.faults = append(p.faults, directViolation{Case: p.n, What: what + ": the builder faults: " + fmt.Sprint(e), Replay: map[string]any{"scenario": what}})
			ok = false
			p.n++ // the name T<n> is taken by the unfinished function
		}
	}()
	f()
	return true
}

func (p *c11Prog) param(name string, t types.Type) *types.Var {
	return types.NewParam(token.NoPos, p.pkg.Types, name, t)
}

// compare registers the comparison of T<n>(args) with R<n>(args) for several argument tuples
func (p *c11Prog) compare(n int, what string, argLists ...string) {
	p.descr[n] = what
	for _, a := range argLists {
		fmt.Fprintf(&p.main, "\tcheck(%d, func() string { return fmt.Sprint(T%d(%s)) }, func() string { return fmt.Sprint(R%d(%s)) })\n", n, n, a, n, a)
	}
}

var tyInt = types.Typ[types.Int]

// any member chains: return a.k1.k2...
func (p *c11Prog) anyChain() {
	n := p.n
	depth := 1 + p.r.Intn(3)
	keys := []string{"x", "y", "next", "k"}
	var ks []string
	for i := 0; i < depth; i++ {
		ks = append(ks, keys[p.r.Intn(len(keys))])
	}
	what := "any member chain a." + strings.Join(ks, ".")
	tyAny := types.NewInterfaceType(nil, nil)
	ok := p.guard(what, func() {
		a := p.param("a", tyAny)
		cb := p.pkg.NewFunc(nil, fmt.Sprintf("T%d", n), types.NewTuple(a), types.NewTuple(p.param("", tyAny)), false).BodyStart(p.pkg)
		cb.Val(a)
		for _, k := range ks {
			cb.MemberVal(k, 0)
		}
		cb.Return(1).End()
	})
	if !ok {
		return
	}
	fmt.Fprintf(&p.ref, "func R%d(a any) any {\n\tv := a\n\tfor _, k := range []string{%s} {\n\t\tm, _ := v.(map[string]any)\n\t\tv = m[k]\n\t}\n\treturn v\n}\n", n, `"`+strings.Join(ks, `", "`)+`"`)
	p.compare(n, what, "data1", "data2", "nil", "42")
	p.n++
}

// loop whose condition reads a member of a value that the body changes
func (p *c11Prog) anyLoop() {
	n := p.n
	what := "for a.next != nil { a = a.next; n++ }"
	tyAny := types.NewInterfaceType(nil, nil)
	ok := p.guard(what, func() {
		a := p.param("a", tyAny)
		cb := p.pkg.NewFunc(nil, fmt.Sprintf("T%d", n), types.NewTuple(a), types.NewTuple(p.param("", tyInt)), false).BodyStart(p.pkg)
		cb.DefineVarStart(token.NoPos, "n").Val(0).EndInit(1)
		nv := cb.Scope().Lookup("n")
		cb.For().Val(a).MemberVal("next", 0).Val(nil).BinaryOp(token.NEQ).Then().
			VarRef(a).Val(a).MemberVal("next", 0).Assign(1).
			VarRef(nv).Val(nv).Val(1).BinaryOp(token.ADD).Assign(1).
			If().Val(nv).Val(50).BinaryOp(token.GTR).Then().Break(nil).End().
			End()
		cb.Val(nv).Return(1).End()
	})
	if !ok {
		return
	}
	fmt.Fprintf(&p.ref, "func R%d(a any) int {\n\tn := 0\n\tfor {\n\t\tm, _ := a.(map[string]any)\n\t\tif m[\"next\"] == nil {\n\t\t\tbreak\n\t\t}\n\t\ta = m[\"next\"]\n\t\tn++\n\t\tif n > 50 {\n\t\t\tbreak\n\t\t}\n\t}\n\treturn n\n}\n", n)
	p.compare(n, what, "data1", "data2", "nil")
	p.n++
}

// if / else-if / switch on members of any; map member with comma-ok
func (p *c11Prog) anyBranch() {
	n := p.n
	what := "if a.x == 1 {..} else if a.y == \"s\" {..}; switch a.k {..}"
	tyAny := types.NewInterfaceType(nil, nil)
	ok := p.guard(what, func() {
		a := p.param("a", tyAny)
		cb := p.pkg.NewFunc(nil, fmt.Sprintf("T%d", n), types.NewTuple(a), types.NewTuple(p.param("", tyInt)), false).BodyStart(p.pkg)
		cb.If().Val(a).MemberVal("x", 0).Val(1).BinaryOp(token.EQL).Then().Val(10).Return(1).
			Else().If().Val(a).MemberVal("y", 0).Val("s").BinaryOp(token.EQL).Then().Val(20).Return(1).End().
			End()
		cb.Switch().Val(a).MemberVal("k", 0).Then().
			Case().Val(1).Then().Val(31).Return(1).End().
			Case().Val("t").Then().Val(32).Return(1).End().
			End()
		cb.Val(40).Return(1).End()
	})
	if !ok {
		return
	}
	fmt.Fprintf(&p.ref, "func R%d(a any) int {\n\tm, _ := a.(map[string]any)\n\tif m[\"x\"] == 1 {\n\t\treturn 10\n\t} else if m[\"y\"] == \"s\" {\n\t\treturn 20\n\t}\n\tswitch m[\"k\"] {\n\tcase 1:\n\t\treturn 31\n\tcase \"t\":\n\t\treturn 32\n\t}\n\treturn 40\n}\n", n)
	p.compare(n, what, "data1", "data2", "data3", "nil")
	p.n++
}

func (p *c11Prog) mapMember() {
	n := p.n
	k1 := []string{"a", "b", "zz"}[p.r.Intn(3)]
	k2 := []string{"a", "b", "q"}[p.r.Intn(3)]
	what := fmt.Sprintf("v, ok := m.%s; m.%s", k1, k2)
	tm := types.NewMap(types.Typ[types.String], tyInt)
	ok := p.guard(what, func() {
		m := p.param("m", tm)
		cb := p.pkg.NewFunc(nil, fmt.Sprintf("T%d", n), types.NewTuple(m), types.NewTuple(p.param("", tyInt)), false).BodyStart(p.pkg)
		cb.DefineVarStart(token.NoPos, "v", "ok").Val(m).MemberVal(k1, 2).EndInit(1)
		v, okv := cb.Scope().Lookup("v"), cb.Scope().Lookup("ok")
		cb.If().Val(okv).Then().Val(v).Val(m).MemberVal(k2, 0).BinaryOp(token.ADD).Return(1).End()
		cb.Val(m).MemberVal(k2, 0).Val(100).BinaryOp(token.SUB).Return(1).End()
	})
	if !ok {
		return
	}
	fmt.Fprintf(&p.ref, "func R%d(m map[string]int) int {\n\tv, ok := m[%q]\n\tif ok {\n\t\treturn v + m[%q]\n\t}\n\treturn m[%q] - 100\n}\n", n, k1, k2, k2)
	p.compare(n, what, `map[string]int{"a": 3, "b": 4}`, `map[string]int{"q": 9}`, "nil")
	p.n++
}

func (p *c11Prog) boolCast() {
	n := p.n
	tn := []string{"int", "uint8", "int64", "MI"}[p.r.Intn(4)]
	var t types.Type
	if tn == "MI" {
		t = p.typ("MI")
	} else {
		t = types.Universe.Lookup(tn).Type()
	}
	k := 1 + p.r.Intn(5)
	what := fmt.Sprintf("%s(b)*2 + %s(x > %d)", tn, tn, k)
	ok := p.guard(what, func() {
		b, x := p.param("b", types.Typ[types.Bool]), p.param("x", tyInt)
		cb := p.pkg.NewFunc(nil, fmt.Sprintf("T%d", n), types.NewTuple(b, x), types.NewTuple(p.param("", t)), false).BodyStart(p.pkg)
		cb.Typ(t).Val(b).Call(1).Val(2).BinaryOp(token.MUL).
			Typ(t).Val(x).Val(k).BinaryOp(token.GTR).Call(1).BinaryOp(token.ADD).Return(1).End()
	})
	if !ok {
		return
	}
	fmt.Fprintf(&p.ref, "func R%d(b bool, x int) %s {\n\tvar r %s\n\tif b {\n\t\tr = 2\n\t}\n\tif x > %d {\n\t\tr++\n\t}\n\treturn r\n}\n", n, tn, tn, k)
	p.compare(n, what, "true, 9", "false, 9", "true, 0", "false, 0")
	p.n++
}

// user-defined enumerators
func (p *c11Prog) enum() {
	n := p.n
	shape := 1 + p.r.Intn(6)
	two := shape == 2 || shape == 4
	skip, stop := p.r.Intn(6), p.r.Intn(8)
	useRet := p.r.Intn(3) == 0
	what := fmt.Sprintf("range over C%d (continue on %d, break on %d, early return %v)", shape, skip, stop, useRet)
	ct := p.typ(fmt.Sprintf("C%d", shape))
	ok := p.guard(what, func() {
		c := p.param("c", ct)
		cb := p.pkg.NewFunc(nil, fmt.Sprintf("T%d", n), types.NewTuple(c), types.NewTuple(p.param("", tyInt)), false).BodyStart(p.pkg)
		cb.DefineVarStart(token.NoPos, "s").Val(0).EndInit(1)
		s := cb.Scope().Lookup("s")
		if two {
			cb.ForRange("k", "v")
		} else {
			cb.ForRange("v")
		}
		cb.Val(c).RangeAssignThen(token.NoPos)
		v := cb.Scope().Lookup("v")
		cb.If().Val(v).Val(skip).BinaryOp(token.EQL).Then().Continue(nil).End()
		if useRet {
			cb.If().Val(v).Val(stop).BinaryOp(token.EQL).Then().Val(s).Val(1000).BinaryOp(token.ADD).Return(1).End()
		} else {
			cb.If().Val(v).Val(stop).BinaryOp(token.EQL).Then().Break(nil).End()
		}
		cb.VarRef(s).Val(s).Val(10).BinaryOp(token.MUL).Val(v).BinaryOp(token.ADD)
		if two {
			cb.Val(cb.Scope().Lookup("k")).Val(100).BinaryOp(token.MUL).BinaryOp(token.ADD)
		}
		cb.Assign(1)
		cb.End()
		cb.Val(s).Return(1).End()
	})
	if !ok {
		return
	}
	stopStmt := "break"
	if useRet {
		stopStmt = "return s + 1000"
	}
	add := ""
	if two {
		add = " + k*100"
	}
	elems := "c.s"
	switch shape {
	case 5:
		elems = "rev5(c)"
	case 6:
		elems = "squares6(c)"
	}
	fmt.Fprintf(&p.ref, "func R%d(c C%d) int {\n\ts := 0\n\tfor k, v := range "+elems+" {\n\t\t_ = k\n\t\tif v == %d {\n\t\t\tcontinue\n\t\t}\n\t\tif v == %d {\n\t\t\t%s\n\t\t}\n\t\ts = s*10 + v%s\n\t}\n\treturn s\n}\n", n, shape, skip, stop, stopStmt, add)
	ctor := fmt.Sprintf("C%d", shape)
	var lists []string
	for i, in := range c11EnumInputs {
		var es []string
		for _, v := range in {
			es = append(es, fmt.Sprint(v))
		}
		lit := ctor + "{s: []int{" + strings.Join(es, ", ") + "}}"
		switch shape {
		case 5:
			lit = "C5{" + strings.Join(es, ", ") + "}"
		case 6:
			lit = fmt.Sprintf("C6(%d)", len(in))
		}
		lists = append(lists, lit)
		if shape <= 4 {
			fmt.Fprintf(&p.main, "\tfmt.Printf(\"ENUM %d %d %%d\\n\", T%d(%s))\n", n, i, n, lit)
		}
	}
	p.compare(n, what, lists...)
	if shape <= 4 {
		p.enums[n] = c11Enum{skip, stop, useRet, two}
	}
	p.n++
}

// inline closure calls: arguments are bound once, in order
func (p *c11Prog) inline() {
	n := p.n
	if p.r.Intn(4) == 0 {
		p.inline2()
		return
	}
	variant := []int{0, 2, 3}[p.r.Intn(3)]
	what := []string{"inline func(x, y int) int { return x + x + y }(note(1), note(2))", "inline func(x, y int) int { return y }(note(1), note(2))",
		"inline func(x int) int { if x > 0 { return 1 }; return 2 }(note(k))", "inline func(xs ...int) int { return len(xs)*10 + xs[0] }(note(4), note(5))"}[variant]
	logT := types.NewPointer(types.NewSlice(tyInt))
	note := p.tpkg.Scope().Lookup("note")
	k := p.r.Intn(3) - 1
	ok := p.guard(what, func() {
		lg := p.param("log", logT)
		cb := p.pkg.NewFunc(nil, fmt.Sprintf("T%d", n), types.NewTuple(lg), types.NewTuple(p.param("", tyInt)), false).BodyStart(p.pkg)
		x, y := p.param("x", tyInt), p.param("y", tyInt)
		ret := types.NewTuple(p.param("", tyInt))
		callNote := func(v int) { cb.Val(note).Val(lg).Val(v).Call(2) }
		switch variant {
		case 0, 1:
			sig := types.NewSignatureType(nil, nil, nil, types.NewTuple(x, y), ret, false)
			callNote(1)
			callNote(2)
			cb.CallInlineClosureStart(sig, 2, false)
			if variant == 0 {
				cb.Val(x).Val(x).BinaryOp(token.ADD).Val(y).BinaryOp(token.ADD).Return(1)
			} else {
				cb.Val(y).Return(1)
			}
			cb.End()
		case 2:
			sig := types.NewSignatureType(nil, nil, nil, types.NewTuple(x), ret, false)
			callNote(k)
			cb.CallInlineClosureStart(sig, 1, false)
			cb.If().Val(x).Val(0).BinaryOp(token.GTR).Then().Val(1).Return(1).End()
			cb.Val(2).Return(1)
			cb.End()
		default:
			xs := p.param("xs", types.NewSlice(tyInt))
			sig := types.NewSignatureType(nil, nil, nil, types.NewTuple(xs), ret, true)
			callNote(4)
			callNote(5)
			cb.CallInlineClosureStart(sig, 2, false)
			cb.Val(types.Universe.Lookup("len")).Val(xs).Call(1).Val(10).BinaryOp(token.MUL).Val(xs).Val(0).Index(1, 0).BinaryOp(token.ADD).Return(1)
			cb.End()
		}
		cb.Return(1).End()
	})
	if !ok {
		return
	}
	body := []string{"x, y := note(log, 1), note(log, 2)\n\treturn x + x + y", "_, y := note(log, 1), note(log, 2)\n\treturn y",
		fmt.Sprintf("x := note(log, %d)\n\tif x > 0 {\n\t\treturn 1\n\t}\n\treturn 2", k), "xs := []int{note(log, 4), note(log, 5)}\n\treturn len(xs)*10 + xs[0]"}[variant]
	fmt.Fprintf(&p.ref, "func R%d(log *[]int) int {\n\t%s\n}\n", n, body)
	p.descr[n] = what
	p.inl[n] = map[int]int{0: 2, 2: 1, 3: 2}[variant]
	fmt.Fprintf(&p.main, "\tcheck(%d, func() string { var l []int; v := T%d(&l); return fmt.Sprint(v, l) }, func() string { var l []int; v := R%d(&l); return fmt.Sprint(v, l) })\n", n, n, n)
	p.n++
}

// inline closure with two results and an early return: q, r := func(x, y int) (int, int) {...}(note(a), note(b))
func (p *c11Prog) inline2() {
	n := p.n
	a, bv := 10+p.r.Intn(20), p.r.Intn(4)
	what := fmt.Sprintf("q, r := inline func(x, y int) (int, int) { if y == 0 { return -1, x }; return x / y, x %% y }(note(%d), note(%d))", a, bv)
	logT := types.NewPointer(types.NewSlice(tyInt))
	note := p.tpkg.Scope().Lookup("note")
	ok := p.guard(what, func() {
		lg := p.param("log", logT)
		cb := p.pkg.NewFunc(nil, fmt.Sprintf("T%d", n), types.NewTuple(lg), types.NewTuple(p.param("", tyInt), p.param("", tyInt)), false).BodyStart(p.pkg)
		x, y := p.param("x", tyInt), p.param("y", tyInt)
		sig := types.NewSignatureType(nil, nil, nil, types.NewTuple(x, y), types.NewTuple(p.param("", tyInt), p.param("", tyInt)), false)
		cb.DefineVarStart(token.NoPos, "q", "r")
		cb.Val(note).Val(lg).Val(a).Call(2)
		cb.Val(note).Val(lg).Val(bv).Call(2)
		cb.CallInlineClosureStart(sig, 2, false)
		cb.If().Val(y).Val(0).BinaryOp(token.EQL).Then().Val(-1).Val(x).Return(2).End()
		cb.Val(x).Val(y).BinaryOp(token.QUO).Val(x).Val(y).BinaryOp(token.REM).Return(2)
		cb.End()
		cb.EndInit(2)
		cb.Val(cb.Scope().Lookup("q")).Val(cb.Scope().Lookup("r")).Return(2).End()
	})
	if !ok {
		return
	}
	fmt.Fprintf(&p.ref, "func R%d(log *[]int) (int, int) {\n\tx, y := note(log, %d), note(log, %d)\n\tif y == 0 {\n\t\treturn -1, x\n\t}\n\treturn x / y, x %% y\n}\n", n, a, bv)
	p.descr[n] = what
	fmt.Fprintf(&p.main, "\tcheck(%d, func() string { var l []int; q, r := T%d(&l); return fmt.Sprint(q, r, l) }, func() string { var l []int; q, r := R%d(&l); return fmt.Sprint(q, r, l) })\n", n, n, n)
	p.n++
}

// method alias / auto property
func (p *c11Prog) alias() {
	n := p.n
	what := "o.name (auto property) + o.size() (method alias)"
	ot := types.NewPointer(p.typ("Obj"))
	ok := p.guard(what, func() {
		o := p.param("o", ot)
		cb := p.pkg.NewFunc(nil, fmt.Sprintf("T%d", n), types.NewTuple(o), types.NewTuple(p.param("", types.Typ[types.String]), p.param("", tyInt)), false).BodyStart(p.pkg)
		cb.Val(o)
		if _, err := cb.Member("name", 0, gogen.MemberFlagAutoProperty); err != nil {
			panic(err)
		}
		cb.Val(o)
		if _, err := cb.Member("size", 0, gogen.MemberFlagMethodAlias); err != nil {
			panic(err)
		}
		cb.Call(0)
		cb.Return(2).End()
	})
	if !ok {
		return
	}
	fmt.Fprintf(&p.ref, "func R%d(o *Obj) (string, int) {\n\treturn o.Name(), o.Size()\n}\n", n)
	p.compare(n, what, `&Obj{n: "abc"}`, `&Obj{}`)
	p.n++
}

var c11Samples = map[string][]string{
	"string": {`"a,b,a"`, `","`, `"a"`, `"x"`, `"0.1"`, `"2.718281828459045"`, `"1e40"`, `"42"`, `"-7"`, `"\"q\""`}, "int": {"2", "-1"}, "byte": {"'a'"}, "rune": {"'b'"}, "int32": {"'b'"}, "uint8": {"'a'"},
	"[]string": {`[]string{"x", "y"}`}, "[]int": {"[]int{1, 2, 3}"}, "chan int": {"make(chan int, 3)"}, "float64": {"2.5"}, "int64": {"-7"}, "uint64": {"9"},
}

// builtin-type method: recv.Method(args) must be Target(recv, args..., extra...)
func (p *c11Prog) bti(e c11BTI, imp types.Importer, named bool, lower bool) {
	n := p.n
	recvT := map[string]string{"types.Typ[types.String]": "string", "types.Typ[types.Float64]": "float64", "types.Typ[types.Int]": "int", "types.Typ[types.Int64]": "int64",
		"types.Typ[types.Uint64]": "uint64", "types.NewSlice(types.Typ[types.String])": "[]string", "tySlice": "[]int", "tyChan": "chan int"}[e.Typ]
	if recvT == "" {
		return // os.File lines: needs the optional osx package
	}
	recvSrc := recvT
	if named {
		if recvT != "string" {
			return
		}
		recvSrc = "MS"
	}
	// signature of the target
	var params []types.Type
	var results *types.Tuple
	variadic := false
	if e.Target == "len" || e.Target == "cap" {
		results = types.NewTuple(types.NewParam(token.NoPos, nil, "", tyInt))
	} else {
		parts := strings.SplitN(e.Target, ".", 2)
		ip, err := imp.Import(parts[0])
		if err != nil {
			return
		}
		sig := ip.Scope().Lookup(parts[1]).Type().(*types.Signature)
		for i := 1; i < sig.Params().Len()-len(e.Exargs); i++ {
			params = append(params, sig.Params().At(i).Type())
		}
		results = sig.Results()
		variadic = sig.Variadic()
	}
	if variadic {
		return
	}
	if doc, ok := c11Documented[e.Typ+"|"+e.Method]; ok {
		if doc.Target != e.Target || strings.Join(doc.Exargs, ",") != strings.Join(e.Exargs, ",") {
			if !named && !lower {
				p.faults = append(p.faults, directViolation{Case: n, What: fmt.Sprintf("builtin-type method %s.%s is wired to %s%v; the documented desugaring is %s%v", recvT, e.Method, e.Target, e.Exargs, doc.Target, doc.Exargs),
					Replay: map[string]any{"scenario": "builtin-type method table", "type": e.Typ, "method": e.Method, "found": e, "documented": doc}})
			}
			e.Target, e.Exargs = doc.Target, doc.Exargs // the reference function is the documented one
			if e.Target != "len" && e.Target != "cap" {
				// the signature is still taken from the target the table names; if the targets differ the comparison below decides
			}
		}
	}
	name := e.Method
	if lower {
		name = strings.ToLower(name[:1]) + name[1:]
	}
	what := fmt.Sprintf("(%s).%s -> %s%v", recvSrc, name, e.Target, e.Exargs)
	var recvType types.Type
	tv, err := types.Eval(token.NewFileSet(), p.tpkg, token.NoPos, recvSrc)
	if err != nil {
		return
	}
	recvType = tv.Type
	ok := p.guard(what, func() {
		ps := []*types.Var{p.param("r", recvType)}
		for i, t := range params {
			ps = append(ps, p.param(fmt.Sprintf("a%d", i), t))
		}
		var rs []*types.Var
		for i := 0; i < results.Len(); i++ {
			rs = append(rs, p.param("", results.At(i).Type()))
		}
		cb := p.pkg.NewFunc(nil, fmt.Sprintf("T%d", n), types.NewTuple(ps...), types.NewTuple(rs...), false).BodyStart(p.pkg)
		cb.Val(ps[0])
		flag := gogen.MemberFlagVal
		if lower {
			flag = gogen.MemberFlagMethodAlias
		}
		if _, err := cb.Member(name, 0, flag); err != nil {
			panic(err)
		}
		for _, a := range ps[1:] {
			cb.Val(a)
		}
		cb.Call(len(params)).Return(1).End() // a multi-value call is returned as a whole
	})
	if !ok {
		return
	}
	var psrc, call, rsrc []string
	psrc = append(psrc, "r "+recvSrc)
	recvExpr := "r"
	if named {
		recvExpr = "string(r)"
	}
	call = append(call, recvExpr)
	for i, t := range params {
		psrc = append(psrc, fmt.Sprintf("a%d %s", i, types.TypeString(t, nil)))
		call = append(call, fmt.Sprintf("a%d", i))
	}
	call = append(call, e.Exargs...)
	for i := 0; i < results.Len(); i++ {
		rsrc = append(rsrc, types.TypeString(results.At(i).Type(), nil))
	}
	fmt.Fprintf(&p.ref, "func R%d(%s) (%s) {\n\treturn %s(%s)\n}\n", n, strings.Join(psrc, ", "), strings.Join(rsrc, ", "), e.Target, strings.Join(call, ", "))
	// argument tuples
	sample := func(t string, i int) string {
		s := c11Samples[t]
		if len(s) == 0 {
			return "0"
		}
		return s[i%len(s)]
	}
	for round := 0; round < 2; round++ {
		args := []string{sample(recvT, round)}
		if named {
			args[0] = "MS(" + args[0] + ")"
		}
		for i, t := range params {
			args = append(args, sample(types.TypeString(t, nil), round+i+1))
		}
		p.compare(n, what, strings.Join(args, ", "))
	}
	p.n++
}

func runC11(a *runArgs) error {
	rounds := 12
	if a.Tier == "thorough" {
		rounds = 120
	}
	r := rand.New(rand.NewSource(a.Seed))
	m := &meta{Property: "C11", Seed: a.Seed, Tier: a.Tier, PerShard: 1,
		Strata: map[string]int{}, Dist: map[string]int{}, Known: map[string]int{},
		Rule: "functions built with each extension (member chains on any / string-keyed maps, in return, if/else-if, switch and loop conditions; bool casts to int, uint8, int64 and a named integer type; four enumerator shapes with continue / break / early return; inline closure calls with repeated, unused, early-returning and variadic parameters over side-effecting arguments; method alias and auto property; every builtin-type method of the table in builtin.go, by capitalised and lower-case name, on the builtin and on a named receiver) are executed against the documented desugaring written as plain Go; distinct = distinct functions; all non-trivial"}
	table, err := c11ParseBTI(a.Repo)
	if err != nil {
		return err
	}
	fset := token.NewFileSet()
	df, err := parser.ParseFile(fset, "decls.go", c11Decls, 0)
	if err != nil {
		return err
	}
	imp := importer.ForCompiler(fset, "source", nil)
	tpkg, err := (&types.Config{Importer: imp}).Check("main", fset, []*ast.File{df}, nil)
	if err != nil {
		return err
	}
	var herrs []string
	p := &c11Prog{r: r, tpkg: tpkg, descr: map[int]string{}, m: m, enums: map[int]c11Enum{}, inl: map[int]int{}}
	p.pkg = gogen.NewPackage("main", "main", &gogen.Config{Fset: token.NewFileSet(), Importer: imp, Types: tpkg, HandleErr: func(err error) { herrs = append(herrs, err.Error()) }})
	for i := 0; i < rounds; i++ {
		p.anyChain()
		p.anyLoop()
		p.anyBranch()
		p.mapMember()
		p.boolCast()
		p.enum()
		p.inline()
		p.alias()
	}
	for _, e := range table {
		p.bti(e, imp, false, false)
		p.bti(e, imp, false, true)
		p.bti(e, imp, true, false)
	}
	m.Dist["builtin-type methods in the table"] = len(table)
	m.Direct = append(m.Direct, p.faults...)
	for _, e := range herrs {
		m.Direct = append(m.Direct, directViolation{What: "the builder reports an error on a valid use of an extension: " + e, Replay: map[string]any{"error": e}})
	}
	c11UnusedParam(m, imp, tpkg)
	var gen bytes.Buffer
	func() {
		defer func() {
			if e := recover(); e != nil {
				m.Direct = append(m.Direct, directViolation{What: "WriteTo faults (a function was left unfinished by an earlier fault): " + fmt.Sprint(e), Replay: map[string]any{}})
			}
		}()
		if err := p.pkg.WriteTo(&gen); err != nil {
			m.Direct = append(m.Direct, directViolation{What: "WriteTo faults: " + err.Error(), Replay: map[string]any{}})
		}
	}()
	// functions Go rejects are reported one by one and taken out, so that the others still run
	genSrc := gen.String()
	mainSrc := p.main.String()
	{
		fs := token.NewFileSet()
		gf, perr := parser.ParseFile(fs, "gen.go", genSrc, 0)
		if perr == nil {
			dfile, _ := parser.ParseFile(fs, "decls.go", c11Decls, 0)
			bad := map[string]string{}
			(&types.Config{Importer: importer.ForCompiler(fs, "source", nil), Error: func(e error) {
				te, ok := e.(types.Error)
				if !ok || strings.Contains(te.Msg, "imported and not used") {
					return
				}
				for _, d := range gf.Decls {
					if fd, ok := d.(*ast.FuncDecl); ok && fd.Pos() <= te.Pos && te.Pos <= fd.End() {
						if _, dup := bad[fd.Name.Name]; !dup {
							bad[fd.Name.Name] = te.Msg
						}
					}
				}
			}}).Check("main", fs, []*ast.File{dfile, gf}, nil)
			if len(bad) > 0 {
				var keep bytes.Buffer
				last := 0
				for _, d := range gf.Decls {
					fd, ok := d.(*ast.FuncDecl)
					if !ok {
						continue
					}
					if msg, isBad := bad[fd.Name.Name]; isBad {
						from, to := fs.Position(fd.Pos()).Offset, fs.Position(fd.End()).Offset
						keep.WriteString(genSrc[last:from])
						last = to
						var n int
						fmt.Sscanf(fd.Name.Name, "T%d", &n)
						m.Direct = append(m.Direct, directViolation{Case: n, What: fmt.Sprintf("%s: Go rejects the lowered code: %s", p.descr[n], msg), Replay: map[string]any{"scenario": p.descr[n], "emitted": genSrc[from:to], "error": msg}})
					}
				}
				keep.WriteString(genSrc[last:])
				genSrc = keep.String()
				var ml []string
				for _, l := range strings.Split(mainSrc, "\n") {
					drop := false
					for name := range bad {
						if strings.Contains(l, name+"(") {
							drop = true
						}
					}
					if !drop {
						ml = append(ml, l)
					}
				}
				mainSrc = strings.Join(ml, "\n")
			}
		}
	}
	gen.Reset()
	gen.WriteString(genSrc)
	// assemble the program
	dir, err := os.MkdirTemp("", "c11run")
	if err != nil {
		return err
	}
	defer os.RemoveAll(dir)
	var ref strings.Builder
	ref.WriteString("package main\n\nimport (\n\t\"fmt\"\n\t\"strconv\"\n\t\"strings\"\n)\n\nvar _ = strconv.Itoa\nvar _ = strings.Count\n\n")
	ref.WriteString(p.ref.String())
	ref.WriteString(`
var data1 any = map[string]any{"x": 1, "y": "s", "k": "t", "next": map[string]any{"x": map[string]any{"y": 7, "k": 2}, "next": map[string]any{"k": 1}}}
var data2 any = map[string]any{"y": "s", "k": 1, "x": map[string]any{"x": 5, "y": map[string]any{"k": "deep"}}}
var data3 any = map[string]any{"k": 9}

func rev5(c C5) []int {
	out := make([]int, 0, len(c))
	for i := len(c) - 1; i >= 0; i-- {
		out = append(out, c[i])
	}
	return out
}

func squares6(c C6) []int {
	var out []int
	for i := 1; i <= int(c); i++ {
		out = append(out, i*i)
	}
	return out
}

func check(n int, t, r func() string) {
	run := func(f func() string) (s string) {
		defer func() {
			if e := recover(); e != nil {
				s = "panic: " + fmt.Sprint(e)
			}
		}()
		return f()
	}
	done := make(chan string, 1)
	go func() { done <- run(t) }()
	var got string
	select {
	case got = <-done:
	case <-timeout():
		got = "does not terminate"
	}
	want := run(r)
	if got != want {
		fmt.Printf("DIFF %d got %q want %q\n", n, got, want)
	} else {
		fmt.Printf("SAME %d\n", n)
	}
}

func main() {
`)
	ref.WriteString(mainSrc)
	ref.WriteString("}\n")
	aux := "package main\n\nimport \"time\"\n\nfunc timeout() <-chan time.Time { return time.After(2 * time.Second) }\n"
	os.WriteFile(filepath.Join(dir, "gen.go"), gen.Bytes(), 0o666)
	os.WriteFile(filepath.Join(dir, "ref.go"), []byte(ref.String()), 0o666)
	os.WriteFile(filepath.Join(dir, "decls.go"), []byte(c11Decls), 0o666)
	os.WriteFile(filepath.Join(dir, "aux.go"), []byte(aux), 0o666)
	os.WriteFile(filepath.Join(dir, "go.mod"), []byte("module c11run\n\ngo 1.23\n"), 0o666)
	os.WriteFile(filepath.Join(a.Out, "gen.go.txt"), gen.Bytes(), 0o666) // kept for replay / inspection
	os.WriteFile(filepath.Join(a.Out, "ref.go.txt"), []byte(ref.String()), 0o666)
	cmd := exec.Command("go", "run", ".")
	cmd.Dir = dir
	cmd.Env = append(os.Environ(), "GOFLAGS=-mod=mod", "GOPROXY=off", "GOTOOLCHAIN=local")
	var stdout, stderr bytes.Buffer
	cmd.Stdout, cmd.Stderr = &stdout, &stderr
	done := make(chan error, 1)
	go func() { done <- cmd.Run() }()
	var rerr error
	select {
	case rerr = <-done:
	case <-time.After(10 * time.Minute):
		cmd.Process.Kill()
		rerr = fmt.Errorf("timeout")
	}
	genLines := strings.Split(gen.String(), "\n")
	funcText := func(n int) string {
		start := -1
		for i, l := range genLines {
			if strings.HasPrefix(l, fmt.Sprintf("func T%d(", n)) {
				start = i
			}
			if start >= 0 && i > start && l == "}" {
				return strings.Join(genLines[start:i+1], "\n")
			}
		}
		return ""
	}
	same := 0
	if rerr != nil && stdout.Len() == 0 {
		msg := stderr.String()
		if len(msg) > 1500 {
			msg = msg[:1500]
		}
		m.Direct = append(m.Direct, directViolation{What: "the generated program is rejected by the Go compiler: " + strings.TrimSpace(msg), Replay: map[string]any{"stderr": msg}})
	}
	reported := map[int]bool{}
	for _, line := range strings.Split(stdout.String(), "\n") {
		var n int
		if _, err := fmt.Sscanf(line, "SAME %d", &n); err == nil {
			same++
			continue
		}
		if strings.HasPrefix(line, "DIFF ") {
			fmt.Sscanf(line, "DIFF %d", &n)
			if reported[n] {
				continue
			}
			reported[n] = true
			m.Direct = append(m.Direct, directViolation{Case: n, What: fmt.Sprintf("%s: the lowered code behaves differently from the documented desugaring (%s)", p.descr[n], strings.TrimPrefix(line, fmt.Sprintf("DIFF %d ", n))),
				Replay: map[string]any{"scenario": p.descr[n], "emitted": funcText(n), "observation": line}})
		}
	}
	// Coq cases: enumerator results observed by executing the program; order of inline initialisers read off the emitted code
	cw := newCaseWriter(a.Out, "C11", "From GV Require Import C11.Model C11.Check.", "enum_case", 400, "k1_bad cases")
	for _, line := range strings.Split(stdout.String(), "\n") {
		var n, i int
		var v int64
		if _, err := fmt.Sscanf(line, "ENUM %d %d %d", &n, &i, &v); err == nil {
			e := p.enums[n]
			var es []string
			for _, x := range c11EnumInputs[i] {
				es = append(es, coqZ(fmt.Sprint(x)))
			}
			cw.add(fmt.Sprintf("((%s, %s, %s), (%s, %s), %s)", coqList(es), coqZ(fmt.Sprint(e.skip)), coqZ(fmt.Sprint(e.stop)), coqBool(e.useRet), coqBool(e.two), coqZ(fmt.Sprint(v))))
			m.Dist["enumerator runs evaluated in the model"]++
		}
	}
	cw.flush()
	m.Files = cw.files
	{
		var items []string
		for n, nargs := range p.inl {
			txt := funcText(n)
			var order []string
			for _, l := range strings.Split(txt, "\n") {
				if i := strings.Index(l, "= note(log, "); i >= 0 && nargs == 2 && !strings.Contains(l, "[]int{") {
					var v int
					fmt.Sscanf(l[i:], "= note(log, %d)", &v)
					order = append(order, fmt.Sprint(v-1))
				}
			}
			if nargs == 2 && len(order) == 2 {
				items = append(items, fmt.Sprintf("(2%%nat, [%s]%%nat)", strings.Join(order, "; ")))
			}
		}
		var b strings.Builder
		b.WriteString("From Coq Require Import List NArith Bool.\nFrom GV Require Import C11.Model C11.Check.\nImport ListNotations.\n")
		fmt.Fprintf(&b, "Definition r0 := Eval vm_compute in (inline_bad %s).\nPrint r0.\n", coqList(items))
		os.WriteFile(filepath.Join(a.Out, "cases_C11_900.v"), []byte(b.String()), 0o666)
		m.Files = append(m.Files, "cases_C11_900.v")
		m.Dist["inline closures whose initialiser order was read"] = len(items)
	}
	m.PerShard = 400
	m.DirectRuns = same + len(reported)
	m.Dist["comparisons with equal behaviour"] = same
	m.Dist["functions built"] = p.n
	m.Cases = p.n
	m.Distinct = p.n
	for i := 0; i < p.n && len(m.Samples) < 6; i += 1 + p.n/6 {
		m.Samples = append(m.Samples, map[string]any{"scenario": p.descr[i], "emitted": funcText(i)})
	}
	return writeJSON(filepath.Join(a.Out, "meta.json"), m)
}

// an inline closure that does not use one of its parameters: checked on its own (a compile error
// would take the whole executable program down)
func c11UnusedParam(m *meta, imp types.Importer, tpkg *types.Package) {
	var out bytes.Buffer
	fault := ""
	func() {
		defer func() {
			if e := recover(); e != nil {
				fault = fmt.Sprint(e)
			}
		}()
		pkg := gogen.NewPackage("main", "main", &gogen.Config{Fset: token.NewFileSet(), Importer: imp, Types: tpkg})
		logT := types.NewPointer(types.NewSlice(tyInt))
		lg := types.NewParam(token.NoPos, pkg.Types, "log", logT)
		x, y := types.NewParam(token.NoPos, pkg.Types, "x", tyInt), types.NewParam(token.NoPos, pkg.Types, "y", tyInt)
		ret := types.NewTuple(types.NewParam(token.NoPos, pkg.Types, "", tyInt))
		note := tpkg.Scope().Lookup("note")
		cb := pkg.NewFunc(nil, "U", types.NewTuple(lg), ret, false).BodyStart(pkg)
		cb.Val(note).Val(lg).Val(1).Call(2).Val(note).Val(lg).Val(2).Call(2)
		cb.CallInlineClosureStart(types.NewSignatureType(nil, nil, nil, types.NewTuple(x, y), ret, false), 2, false)
		cb.Val(y).Return(1).End()
		cb.Return(1).End()
		if err := pkg.WriteTo(&out); err != nil {
			fault = err.Error()
		}
	}()
	m.DirectRuns++
	m.Dist["inline closure with an unused parameter"]++
	if fault != "" {
		m.Direct = append(m.Direct, directViolation{What: "inline closure with an unused parameter: the builder faults: " + fault, Replay: map[string]any{"scenario": "unused parameter"}})
		return
	}
	fset := token.NewFileSet()
	gf, err := parser.ParseFile(fset, "gen.go", out.Bytes(), 0)
	if err != nil {
		m.Direct = append(m.Direct, directViolation{What: "inline closure with an unused parameter: output does not parse: " + err.Error(), Replay: map[string]any{"emitted": out.String()}})
		return
	}
	df, _ := parser.ParseFile(fset, "decls.go", c11Decls, 0)
	var errs []string
	(&types.Config{Importer: importer.ForCompiler(fset, "source", nil), Error: func(e error) { errs = append(errs, e.Error()) }}).Check("main", fset, []*ast.File{df, gf}, nil)
	for _, e := range errs {
		dv := directViolation{What: "inline func(x, y int) int { return y }(note(1), note(2)) is lowered to code Go rejects: " + e, Replay: map[string]any{"scenario": "inline closure whose parameter x is not used in the body", "emitted": out.String(), "error": e}}
		if strings.Contains(e, "declared and not used") {
			one := 1
			dv.Class = &one
			m.Known["1"]++
		}
		m.Direct = append(m.Direct, dv)
	}
}
