package main

// C09 — import tables: histories over 1-3 files of references (kept or
// discarded), forced imports, name-reserving declarations and writes, against
// the Coq model (K1: the import block of every written file) and the direct
// oracle: the finally written files type-check together (no missing, unused,
// duplicate or shadowed import).  The same histories are rebuilt several times
// for C15 (byte-identical output).

import (
	"bytes"
	"fmt"
	"go/ast"
	"go/importer"
	"go/parser"
	"go/token"
	"go/types"
	"math/rand"
	"path/filepath"
	"strconv"
	"strings"

	"github.com/goplus/gogen"
)

func init() { register("C09", runC09); register("C15", runC15) }

type c09Pkg struct{ Path, Base, Sym string }

var c09Pkgs = []c09Pkg{
	{"fmt", "fmt", "Sprint"}, {"strings", "strings", "ToUpper"}, {"text/template", "template", "New"},
	{"html/template", "template", "New"}, {"math/rand", "rand", "Int"}, {"crypto/rand", "rand", "Reader"},
	{"os", "os", "Args"}, {"path", "path", "Join"}, {"path/filepath", "filepath", "Join"}, {"go/ast", "ast", "NewIdent"},
	{"math/rand/v2", "rand", "Int"}, // a third package named rand
}

type c09Op struct {
	K    string `json:"k"` // ref force declare write
	F    int    `json:"f"`
	P    int    `json:"p,omitempty"`
	Kept bool   `json:"kept,omitempty"`
	Name string `json:"name,omitempty"`
	How  string `json:"how,omitempty"` // func var type const
	// for kept references: "" = a new function of its own; "group" = a new spec of the file's var
	// group (an existing declaration that earlier writes have already walked is extended)
	Shape string `json:"shape,omitempty"`
}

type c09Spec struct {
	Kind int    `json:"kind"`
	Name string `json:"name"`
	Path string `json:"path"`
}

func (o c09Op) coq() string {
	switch o.K {
	case "ref":
		p := c09Pkgs[o.P]
		return fmt.Sprintf("ORef %d %s %s %s", o.F, coqBytes(p.Path), coqBytes(p.Base), coqBool(o.Kept))
	case "force":
		p := c09Pkgs[o.P]
		return fmt.Sprintf("OForce %d %s %s", o.F, coqBytes(p.Path), coqBytes(p.Base))
	case "declare":
		return "ODeclare " + coqBytes(o.Name)
	}
	return fmt.Sprintf("OWrite %d", o.F)
}

func fileName(f int) string { return fmt.Sprintf("f%d.go", f) }

func parseImports(src []byte) ([]c09Spec, error) {
	fset := token.NewFileSet()
	f, err := parser.ParseFile(fset, "x.go", src, parser.ImportsOnly)
	if err != nil {
		return nil, err
	}
	var out []c09Spec
	for _, im := range f.Imports {
		p, _ := strconv.Unquote(im.Path.Value)
		s := c09Spec{Kind: 1, Path: p}
		if im.Name != nil {
			if im.Name.Name == "_" {
				s.Kind = 0
			} else {
				s.Kind, s.Name = 2, im.Name.Name
			}
		}
		out = append(out, s)
	}
	return out, nil
}

type c09Run struct {
	blocks  map[int][]c09Spec // per op index (writes only)
	outputs map[int][]byte    // latest bytes per file
	fault   string
}

var c09Imp types.Importer

func c09Execute(ops []c09Op) (r c09Run) {
	r.blocks, r.outputs = map[int][]c09Spec{}, map[int][]byte{}
	defer func() {
		if e := recover(); e != nil {
			r.fault = fmt.Sprint(e)
		}
	}()
	conf := &gogen.Config{Fset: token.NewFileSet(), Importer: c09Imp, DefaultGoFile: fileName(0)}
	pkg := gogen.NewPackage("", "main", conf)
	nfn := 0
	groups := map[int]*gogen.VarDefs{}
	for i, o := range ops {
		switch o.K {
		case "ref":
			pkg.SetCurFile(fileName(o.F), true)
			ref := pkg.Import(c09Pkgs[o.P].Path).Ref(c09Pkgs[o.P].Sym)
			if o.Kept && o.Shape == "group" {
				nfn++
				g := groups[o.F]
				if g == nil {
					g = pkg.NewVarDefs(pkg.Types.Scope())
					groups[o.F] = g
					g.NewAndInit(func(cb *gogen.CodeBuilder) int { cb.Val(0); return 1 }, token.NoPos, nil, fmt.Sprintf("zzg%d_%d", o.F, nfn))
				}
				g.NewAndInit(func(cb *gogen.CodeBuilder) int { cb.Val(ref); return 1 }, token.NoPos, nil, fmt.Sprintf("zzv%d", nfn))
			} else if o.Kept {
				nfn++
				// the model names imports in the order of the references in the file's declarations; a group
				// is extended only while it is the file's last declaration, so that order is the op order
				delete(groups, o.F)
				cb := pkg.NewFunc(nil, fmt.Sprintf("zz%d", nfn), nil, nil, false).BodyStart(pkg)
				cb.VarRef(nil).Val(ref).Assign(1).End()
			} else { // the front end builds the reference, then throws the expression away
				cb := pkg.CB()
				cb.Val(ref)
				cb.InternalStack().PopN(1)
			}
		case "force":
			pkg.SetCurFile(fileName(o.F), true)
			pkg.ForceImport(c09Pkgs[o.P].Path)
		case "declare":
			pkg.SetCurFile(fileName(o.F), true)
			delete(groups, o.F)
			switch o.How {
			case "func":
				pkg.NewFunc(nil, o.Name, nil, nil, false).BodyStart(pkg).End()
			case "var":
				pkg.NewVarStart(token.NoPos, nil, o.Name).Val(1).EndInit(1)
			case "const":
				pkg.NewConstStart(pkg.Types.Scope(), token.NoPos, nil, o.Name).Val(1).EndInit(1)
			default:
				pkg.NewType(o.Name).InitType(pkg, types.Typ[types.Int])
			}
		case "write":
			pkg.SetCurFile(fileName(o.F), true)
			var buf bytes.Buffer
			if err := pkg.WriteTo(&buf, fileName(o.F)); err != nil {
				r.fault = "WriteTo: " + err.Error()
				return
			}
			specs, err := parseImports(buf.Bytes())
			if err != nil {
				r.fault = "written file does not parse: " + err.Error()
				return
			}
			r.blocks[i] = specs
			r.outputs[o.F] = buf.Bytes()
		}
	}
	return
}

func c09Gen(r *rand.Rand, maxLen int) []c09Op {
	nFiles := 1 + r.Intn(3)
	pool := r.Perm(len(c09Pkgs))[:2+r.Intn(5)]
	// bias towards same-base pairs
	if r.Intn(2) == 0 {
		pool = append(pool, 2, 3)
	}
	if r.Intn(3) == 0 {
		pool = append(pool, 4, 5)
	}
	declared := map[string]bool{}
	var ops []c09Op
	n := 4 + r.Intn(maxLen)
	for i := 0; i < n; i++ {
		f := r.Intn(nFiles)
		p := pool[r.Intn(len(pool))]
		switch x := r.Intn(100); {
		case x < 45:
			o := c09Op{K: "ref", F: f, P: p, Kept: r.Intn(6) != 0}
			if o.Kept && r.Intn(3) == 0 {
				o.Shape = "group"
			}
			ops = append(ops, o)
		case x < 50:
			ops = append(ops, c09Op{K: "force", F: f, P: p})
		case x < 72:
			name := c09Pkgs[p].Base
			switch r.Intn(4) {
			case 0:
				name += "1"
			case 1:
				name += strconv.Itoa(1 + r.Intn(3))
			}
			if declared[name] {
				continue
			}
			declared[name] = true
			ops = append(ops, c09Op{K: "declare", F: f, Name: name, How: []string{"func", "var", "type", "const"}[r.Intn(4)]})
		default:
			ops = append(ops, c09Op{K: "write", F: f})
		}
	}
	for f := 0; f < nFiles; f++ { // everything is written at the end
		ops = append(ops, c09Op{K: "write", F: f})
	}
	return ops
}

// final type-check of the files as last written: the direct statement of the property
func c09TypeCheck(out map[int][]byte) string {
	fset := token.NewFileSet()
	var files []*ast.File
	for f, b := range out {
		af, err := parser.ParseFile(fset, fileName(f), b, 0)
		if err != nil {
			return "written file does not parse: " + err.Error()
		}
		files = append(files, af)
	}
	var first string
	conf := types.Config{Importer: c09Imp, Error: func(e error) {
		if first == "" {
			first = e.Error()
		}
	}}
	conf.Check("main", fset, files, nil)
	return first
}

type c09Case struct {
	Ops    []c09Op           `json:"ops"`
	Blocks map[int][]c09Spec `json:"blocks"`
	Files  map[int]string    `json:"files,omitempty"`
}

func c09Corpus() [][]c09Op {
	return [][]c09Op{
		// same base name in one file; a declaration named like a base; rename chain
		{{K: "ref", F: 0, P: 2, Kept: true}, {K: "ref", F: 0, P: 3, Kept: true}, {K: "declare", F: 0, Name: "template1", How: "func"}, {K: "write", F: 0}},
		{{K: "declare", F: 0, Name: "fmt", How: "func"}, {K: "declare", F: 0, Name: "fmt1", How: "var"}, {K: "ref", F: 1, P: 0, Kept: true}, {K: "write", F: 1}, {K: "write", F: 0}},
		// discarded reference, write, then a kept reference to the same package, write again
		{{K: "ref", F: 0, P: 0, Kept: false}, {K: "write", F: 0}, {K: "ref", F: 0, P: 0, Kept: true}, {K: "write", F: 0}},
		// forced then referenced; referenced then forced
		{{K: "force", F: 0, P: 6}, {K: "ref", F: 0, P: 6, Kept: false}, {K: "write", F: 0}},
		{{K: "ref", F: 0, P: 6, Kept: true}, {K: "force", F: 0, P: 6}, {K: "write", F: 0}},
		// three packages of the same name in one file, alone and next to a declaration named like the first renaming
		{{K: "ref", F: 0, P: 4, Kept: true}, {K: "ref", F: 0, P: 5, Kept: true}, {K: "ref", F: 0, P: 10, Kept: true}, {K: "write", F: 0}},
		{{K: "declare", F: 0, Name: "rand1", How: "var"}, {K: "ref", F: 0, P: 10, Kept: true}, {K: "ref", F: 0, P: 4, Kept: true}, {K: "ref", F: 0, P: 5, Kept: true}, {K: "write", F: 0}},
		// an existing declaration (the file's var group) is extended after a write has walked it:
		// the new spec holds the first reference to another package
		{{K: "ref", F: 0, P: 0, Kept: true, Shape: "group"}, {K: "write", F: 0}, {K: "ref", F: 0, P: 1, Kept: true, Shape: "group"}, {K: "write", F: 0}},
		{{K: "ref", F: 0, P: 4, Kept: true, Shape: "group"}, {K: "write", F: 0}, {K: "ref", F: 0, P: 5, Kept: true, Shape: "group"}, {K: "write", F: 0}, {K: "ref", F: 0, P: 10, Kept: true, Shape: "group"}, {K: "write", F: 0}},
		// a name declared after the first write
		{{K: "ref", F: 0, P: 1, Kept: true}, {K: "write", F: 0}, {K: "declare", F: 0, Name: "strings", How: "func"}, {K: "write", F: 0}},
	}
}

func runC09(a *runArgs) error { return runImports(a, "C09") }
func runC15(a *runArgs) error { return runImports(a, "C15") }

func runImports(a *runArgs, prop string) error {
	c09Imp = importer.ForCompiler(token.NewFileSet(), "source", nil)
	n, maxLen, repeats := 250, 14, 6
	if a.Tier == "thorough" {
		n, maxLen, repeats = 6000, 40, 25
		if prop == "C15" { // every history is rebuilt `repeats` times: keep the thorough tier under half an hour
			n, repeats = 1500, 12
		}
	}
	r := rand.New(rand.NewSource(a.Seed))
	cw := newCaseWriter(a.Out, prop, "From GV Require Import Lib.Bytes C09.Model C09.Check.", "c09case", 60, "k1_bad cases", "k1_collision cases", "dev_list cases")
	cl := newCaseLog(a.Out)
	defer cl.close()
	m := &meta{Property: prop, Seed: a.Seed, Tier: a.Tier, PerShard: 60,
		Strata: map[string]int{}, Dist: map[string]int{}, Known: map[string]int{},
		Rule: "histories over 1-3 files and 2-8 imported packages (incl. pairs with equal base names) of kept/discarded references, forced imports, name-reserving declarations (func/var/type/const named like import bases with numeric suffixes) and writes; distinct = distinct op sequences; non-trivial = at least two imports in one file or a declared name equal to an import base"}
	distinct := map[string]bool{}
	var hists [][]c09Op
	if a.Replay != "" {
		var rp struct {
			Replay c09Case `json:"replay"`
		}
		if err := readJSON(a.Replay, &rp); err != nil {
			return err
		}
		hists = append(hists, rp.Replay.Ops)
	} else {
		hists = append(hists, c09Corpus()...)
		for i := 0; i < n; i++ {
			hists = append(hists, c09Gen(r, maxLen))
		}
	}
	if prop == "C15" && a.Replay == "" {
		c15XGoDeps(m, r, repeats)
	}
	for idx, ops := range hists {
		collision := false
		run := c09Execute(ops)
		c := c09Case{Ops: ops, Blocks: run.blocks, Files: map[int]string{}}
		for f, b := range run.outputs {
			c.Files[f] = string(b)
		}
		m.DirectRuns++
		if run.fault != "" {
			m.Direct = append(m.Direct, directViolation{Case: idx, What: "fault while building/writing: " + run.fault, Replay: c})
		} else if msg := c09TypeCheck(run.outputs); msg != "" && !strings.Contains(msg, "declared and not used") {
			if strings.Contains(msg, "already declared through import") || strings.Contains(msg, "redeclared") {
				collision = true // compared with the model's prediction inside Coq (known finding class 2 when it agrees)
				// the only listed way to a collision is an identifier declared after a write of the same
				// file fixed its import names; without that the collision is a violation in its own right
				late := false
				written := map[int]bool{}
				for _, o := range ops {
					if o.K == "write" {
						written[o.F] = true
					}
					if o.K == "declare" && len(written) > 0 {
						late = true
					}
				}
				if !late {
					m.Direct = append(m.Direct, directViolation{Case: idx, What: "two names of one file collide although every identifier was declared before the first write: " + msg, Replay: c})
				}
			} else {
				m.Direct = append(m.Direct, directViolation{Case: idx, What: "the written files do not type-check together: " + msg, Replay: c})
			}
		}
		if prop == "C15" { // byte-identical rebuilds (map iteration order is randomised per run by the Go runtime)
			for k := 0; k < repeats && run.fault == ""; k++ {
				again := c09Execute(ops)
				for f, b := range run.outputs {
					if !bytes.Equal(b, again.outputs[f]) {
						m.Direct = append(m.Direct, directViolation{Case: idx, What: fmt.Sprintf("rebuilding the same history gave different bytes for %s", fileName(f)), Replay: c})
						k = repeats
						break
					}
				}
				m.DirectRuns++
			}
		}
		items := make([]string, len(ops))
		for i, o := range ops {
			obs := "None"
			if b, ok := run.blocks[i]; ok {
				ss := make([]string, len(b))
				for j, s := range b {
					ss[j] = fmt.Sprintf("(%d, %s, %s)", s.Kind, coqBytes(s.Name), coqBytes(s.Path))
				}
				obs = "(Some " + coqList(ss) + ")"
			}
			items[i] = "(" + o.coq() + ", " + obs + ")"
			m.Dist[o.K]++
		}
		term := "(" + coqList(items) + ", " + coqBool(collision) + ")"
		cw.add(term)
		cl.add(c)
		if !distinct[term] {
			distinct[term] = true
		}
		m.Strata["history"]++
		if len(m.Samples) < 2 && idx >= 6 {
			m.Samples = append(m.Samples, c)
		}
	}
	cw.flush()
	m.Cases = len(hists)
	m.Distinct = len(distinct)
	m.Files = cw.files
	return writeJSON(filepath.Join(a.Out, "meta.json"), m)
}

// ---- C15: the XGo dependency list (a string constant collected from a map) across rebuilds ----

type c15MemImporter struct {
	pkgs map[string]*types.Package
	next types.Importer
}

func (m *c15MemImporter) Import(path string) (*types.Package, error) {
	if p, ok := m.pkgs[path]; ok {
		return p, nil
	}
	return m.next.Import(path)
}

func c15XGoDeps(m *meta, r *rand.Rand, repeats int) {
	paths := []string{"a/util", "b/util", "c/conv", "d/util", "e/x/conv", "f/zeta", "g/alpha"}
	imp := &c15MemImporter{pkgs: map[string]*types.Package{}, next: c09Imp}
	for _, p := range paths {
		fs := token.NewFileSet()
		name := p[strings.LastIndex(p, "/")+1:]
		f, err := parser.ParseFile(fs, "x.go", "package "+name+"\n\nconst XGoPackage = true\n\ntype T struct{ A int }\n", 0)
		if err != nil {
			return
		}
		tp, err := (&types.Config{}).Check(p, fs, []*ast.File{f}, nil)
		if err != nil {
			return
		}
		imp.pkgs[p] = tp
	}
	for sc := 0; sc < 12; sc++ {
		n := 2 + r.Intn(len(paths)-1)
		perm := r.Perm(len(paths))[:n]
		build := func() (string, string) {
			var out bytes.Buffer
			fault := ""
			func() {
				defer func() {
					if e := recover(); e != nil {
						fault = fmt.Sprint(e)
					}
				}()
				pkg := gogen.NewPackage("", "lib", &gogen.Config{Fset: token.NewFileSet(), Importer: imp})
				var params []*types.Var
				for i, k := range perm {
					t := pkg.Import(paths[k]).Ref("T").Type()
					params = append(params, types.NewParam(token.NoPos, pkg.Types, fmt.Sprintf("p%d", i), types.NewPointer(t)))
				}
				pkg.NewFunc(nil, "Example", types.NewTuple(params...), nil, false).BodyStart(pkg).End()
				if err := pkg.WriteTo(&out); err != nil {
					fault = err.Error()
				}
			}()
			return out.String(), fault
		}
		first, fault := build()
		m.DirectRuns++
		m.Dist["xgo dependency scenarios"]++
		var used []string
		for _, k := range perm {
			used = append(used, paths[k])
		}
		rep := map[string]any{"kind": "xgo-deps", "packages": used, "first": first}
		if fault != "" {
			m.Direct = append(m.Direct, directViolation{Case: sc, What: "building a package that depends on XGo packages faults: " + fault, Replay: rep})
			continue
		}
		for k := 0; k < repeats*4; k++ {
			again, _ := build()
			if again != first {
				rep["again"] = again
				m.Direct = append(m.Direct, directViolation{Case: sc, What: fmt.Sprintf("rebuilding a package whose exported signatures use the XGo packages %v gave different bytes", used), Replay: rep})
				break
			}
		}
	}
}
